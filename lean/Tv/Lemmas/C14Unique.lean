import Tv.Lemmas.C14Run
import Tv.Spec.C14
/-! helper lemmas for the run de-duplication part of C14 -/
set_option linter.unusedSimpArgs false
namespace Tv.C14
open Tv.C14.Spec

/-! ### Keep::Last -/

/-- after the (repaired) Keep::Last closure has seen an element, `last_value` is that element -/
theorem lastStep_fst (l : Option Int) (i : Nat) (v : Option Int) : (lastStep l i v).1 = v := by
  unfold lastStep
  cases v with
  | none => rfl
  | some a => by_cases h : l = some a <;> simp [h]

/-- the look-ahead state before position `j` is the element at position `j` of the whole input -/
theorem stateAfter_lastStep (x : Option Int) (i : Nat) (ys : List (Option Int)) (j : Nat)
    (hj : j ≤ ys.length) :
    (x :: ys)[j]? = some (stateAfter lastStep x i (ys.take j)) := by
  induction ys generalizing x i j with
  | nil => simp at hj; subst hj; simp [stateAfter]
  | cons y t ih =>
    cases j with
    | zero => simp [stateAfter]
    | succ j =>
      have := ih y (i + 1) j (by simpa using hj)
      simpa [stateAfter, lastStep_fst] using this

/-- what the Keep::Last closure emits in state `e` on look-ahead element `y` -/
theorem lastStep_snd (e : Option Int) (j : Nat) (y : Option Int) :
    (lastStep e j y).2 = if (e.isSome ∧ y ≠ e) then some j else none := by
  unfold lastStep
  cases e <;> cases y <;> simp
  all_goals (rename_i a b; by_cases h : a = b <;> simp [h, eq_comm])


theorem filterMap_ite_eq_filter {α} (p : α → Bool) (l : List α) :
    l.filterMap (fun j => if p j then some j else none) = l.filter p := by
  induction l with
  | nil => rfl
  | cons a t ih => by_cases h : p a <;> simp [List.filterMap_cons, List.filter_cons, h, ih]

theorem filterMap_congr_mem {α β} {f g : α → Option β} {l : List α} (h : ∀ a ∈ l, f a = g a) :
    l.filterMap f = l.filterMap g := by
  induction l with
  | nil => rfl
  | cons a t ih =>
    have h1 := h a (by simp)
    have h2 := ih (fun b hb => h b (by simp [hb]))
    simp [List.filterMap_cons, h1, h2]

theorem uniqueIdxLast_eq_runEnds (xs : List (Option Int)) : uniqueIdxLast xs = runEnds xs := by
  cases xs with
  | nil => rfl
  | cons x t =>
    unfold uniqueIdxLast runEnds
    simp only [List.head?_cons, Option.join_some, List.tail_cons]
    rw [run_eq_filterMap, ← filterMap_ite_eq_filter]
    have hlen : (t ++ [none]).length = (x :: t).length := by simp
    rw [hlen]
    apply filterMap_congr_mem
    intro j hj
    have hj' : j ≤ t.length := by simp at hj; omega
    have hs := stateAfter_lastStep x 0 (t ++ [none]) j (by simp; omega)
    have hx : (x :: (t ++ [none]))[j]? = (x :: t)[j]? := by
      cases j with
      | zero => rfl
      | succ k => simp at hj' ⊢; rw [List.getElem?_append_left (by omega)]
    rw [hx] at hs
    have hy : (t ++ [none])[j]? = some ((t[j]?).getD none) := by
      by_cases h : j < t.length
      · rw [List.getElem?_append_left h]; simp [h]
      · have : j = t.length := by omega
        subst this; simp
    rw [hy, hs]
    simp only [Option.bind_some, lastStep_snd, Nat.zero_add, List.getElem?_cons_succ]
    generalize stateAfter lastStep x 0 (List.take j (t ++ [none])) = e
    cases e with
    | none => simp
    | some a =>
      have key : ∀ z : Option (Option Int), (z.getD none ≠ some a) ↔ (z ≠ some (some a)) := by
        intro z; rcases z with _ | w
        · simp
        · cases w <;> simp
      simp [key]

/-! ### Keep::First and `vsorted_unique` -/


/-- the most recent non-null value of a prefix -/
def lastValid (p : List (Option Int)) : Option Int := p.foldl (fun s v => v.or s) none

theorem firstStep_fst (l : Option Int) (i : Nat) (v : Option Int) : (firstStep l i v).1 = v.or l := by
  unfold firstStep
  cases v with
  | none => simp
  | some a => by_cases h : l = some a <;> simp [h]

theorem firstStep_snd (l : Option Int) (j : Nat) (v : Option Int) :
    (firstStep l j v).2 = if (v.isSome ∧ l ≠ v) then some j else none := by
  unfold firstStep
  cases v with
  | none => simp
  | some a => by_cases h : l = some a <;> simp [h]

theorem valStep_fst (l : Option Int) (i : Nat) (v : Option Int) : (valStep l i v).1 = v.or l := by
  unfold valStep
  cases v with
  | none => simp
  | some a =>
    cases l with
    | none => simp
    | some b => by_cases h : a = b <;> simp [h]

theorem valStep_snd (l : Option Int) (j : Nat) (v : Option Int) :
    (valStep l j v).2 = if (v.isSome ∧ l ≠ v) then some v else none := by
  unfold valStep
  cases v with
  | none => simp
  | some a =>
    cases l with
    | none => simp
    | some b => by_cases h : a = b <;> simp [h, eq_comm]

theorem stateAfter_or {β : Type} (step : Option Int → Nat → Option Int → Option Int × Option β)
    (hstep : ∀ l i v, (step l i v).1 = v.or l) (s : Option Int) (i : Nat) (p : List (Option Int)) :
    stateAfter step s i p = p.foldl (fun s v => v.or s) s := by
  induction p generalizing s i with
  | nil => rfl
  | cons x t ih => simp [stateAfter, ih, hstep]

theorem lastValid_take_succ (xs : List (Option Int)) (j : Nat) (hj : j < xs.length) :
    lastValid (xs.take (j + 1)) = (xs[j]).or (lastValid (xs.take j)) := by
  unfold lastValid
  rw [List.take_add_one, List.foldl_append]
  simp [List.getElem?_eq_getElem hj]

theorem lastValid_take_some (xs : List (Option Int)) (j : Nat) (hj : j ≤ xs.length) (a : Int)
    (h : lastValid (xs.take j) = some a) :
    ∃ i, i < j ∧ xs[i]? = some (some a) ∧ ∀ k, i < k → k < j → xs[k]? = some none := by
  induction j with
  | zero => simp [lastValid] at h
  | succ j ih =>
    rw [lastValid_take_succ xs j (by omega)] at h
    cases hx : xs[j] with
    | some b =>
      rw [hx] at h
      simp at h
      subst h
      exact ⟨j, by omega, by simp [List.getElem?_eq_getElem (show j < xs.length by omega), hx], by intro k h1 h2; omega⟩
    | none =>
      rw [hx] at h
      simp at h
      obtain ⟨i, hi, hxi, hk⟩ := ih (by omega) h
      refine ⟨i, by omega, hxi, ?_⟩
      intro k h1 h2
      by_cases hkj : k = j
      · subst hkj; simp [List.getElem?_eq_getElem (show k < xs.length by omega), hx]
      · exact hk k h1 (by omega)



/-- no block of nulls separates two equal values (`a, _, …, _, a` does not occur) -/
def NoNullGap (xs : List (Option Int)) : Prop :=
  ∀ i j a, i < j → xs[i]? = some (some a) → xs[j]? = some (some a) →
    (∀ k, i < k → k < j → xs[k]? = some none) → j = i + 1

/-- Keep::First on every input: index `j` is emitted iff `xs[j]` is valid and differs from the
most recent valid value before it -/
theorem uniqueIdxFirst_eq_filter (xs : List (Option Int)) :
    uniqueIdxFirst xs = (List.range xs.length).filter (fun j =>
      match xs[j]? with
      | some (some a) => decide (lastValid (xs.take j) ≠ some a)
      | _ => false) := by
  unfold uniqueIdxFirst
  rw [run_eq_filterMap, ← filterMap_ite_eq_filter]
  apply filterMap_congr_mem
  intro j _
  rw [stateAfter_or firstStep firstStep_fst]
  change (xs[j]?.bind fun x => (firstStep (lastValid (xs.take j)) (0 + j) x).2) = _
  rcases xs[j]? with _ | x
  · simp
  · cases x with
    | none => simp [firstStep_snd]
    | some a => simp [firstStep_snd]

theorem uniqueVals_eq_filterMap (xs : List (Option Int)) :
    uniqueVals xs = (List.range xs.length).filterMap (fun j =>
      match xs[j]? with
      | some (some a) => if lastValid (xs.take j) ≠ some a then some (some a) else none
      | _ => none) := by
  unfold uniqueVals
  rw [run_eq_filterMap]
  apply filterMap_congr_mem
  intro j _
  rw [stateAfter_or valStep valStep_fst]
  change (xs[j]?.bind fun x => (valStep (lastValid (xs.take j)) (0 + j) x).2) = _
  rcases xs[j]? with _ | x
  · simp
  · cases x with
    | none => simp [valStep_snd]
    | some a => simp [valStep_snd]

theorem filterMap_filter' {α β} (p : α → Bool) (f : α → Option β) (l : List α) :
    (l.filter p).filterMap f = l.filterMap (fun a => if p a then f a else none) := by
  induction l with
  | nil => rfl
  | cons a t ih => by_cases h : p a <;> simp [List.filter_cons, List.filterMap_cons, h, ih]

/-- `vsorted_unique` returns the values at the indices `vsorted_unique_idx(First)` returns (every input) -/
theorem uniqueVals_eq_idx (xs : List (Option Int)) :
    uniqueVals xs = (uniqueIdxFirst xs).filterMap (xs[·]?) := by
  rw [uniqueVals_eq_filterMap, uniqueIdxFirst_eq_filter, filterMap_filter']
  apply filterMap_congr_mem
  intro j _
  rcases h : xs[j]? with _ | x
  · simp
  · cases x with
    | none => simp
    | some a => simp

theorem first_pointwise (xs : List (Option Int)) (hng : NoNullGap xs) (j : Nat) (a : Int)
    (hj : xs[j]? = some (some a)) :
    lastValid (xs.take j) ≠ some a ↔ (j = 0 ∨ xs[j - 1]? ≠ some (some a)) := by
  have hjl : j < xs.length := by
    rcases Nat.lt_or_ge j xs.length with h | h
    · exact h
    · simp [List.getElem?_eq_none h] at hj
  cases j with
  | zero => simp [lastValid]
  | succ j =>
    rw [lastValid_take_succ xs j (by omega)]
    have hxj : xs[j]? = some xs[j] := List.getElem?_eq_getElem (by omega)
    simp only [Nat.add_sub_cancel, Nat.succ_ne_zero, false_or, hxj]
    cases hx : xs[j] with
    | some b => simp
    | none =>
      simp only [Option.none_or, ne_eq, Option.some.injEq, reduceCtorEq, not_false_eq_true, iff_true]
      intro hl
      obtain ⟨i, hi, hxi, hk⟩ := lastValid_take_some xs j (by omega) a hl
      have := hng i (j + 1) a (by omega) hxi hj (by
        intro k h1 h2
        by_cases hkj : k = j
        · subst hkj; rw [hxj, hx]
        · exact hk k h1 (by omega))
      omega

theorem uniqueIdxFirst_eq_runStarts (xs : List (Option Int)) (hng : NoNullGap xs) :
    uniqueIdxFirst xs = runStarts xs := by
  rw [uniqueIdxFirst_eq_filter]
  unfold runStarts
  apply List.filter_congr
  intro j _
  rcases h : xs[j]? with _ | x
  · simp
  · cases x with
    | none => simp
    | some a =>
      simp only
      rw [decide_eq_decide]
      exact first_pointwise xs hng j a h



theorem nullsAtEnds_getElem? (h : Nat) (vs : List Int) (t : Nat) (k : Nat) :
    (List.replicate h (none : Option Int) ++ (vs.map some ++ List.replicate t none))[k]? =
      if k < h then some none
      else if k < h + vs.length then some (vs[k - h]?.bind some)
      else if k < h + vs.length + t then some none else none := by
  rw [List.getElem?_append, List.getElem?_append]
  simp only [List.length_replicate, List.length_map, List.getElem?_replicate, List.getElem?_map]
  by_cases h1 : k < h
  · simp [h1]
  · by_cases h2 : k < h + vs.length
    · have : k - h < vs.length := by omega
      simp [h1, h2, this]
    · have : ¬ k - h < vs.length := by omega
      by_cases h3 : k < h + vs.length + t
      · have : k - h - vs.length < t := by omega
        simp [h1, h2, h3, *]
      · have : ¬ k - h - vs.length < t := by omega
        simp [h1, h2, h3, *]

/-- an input made of a block of nulls, then values, then a block of nulls has no null gap
(whatever the order of the values; sorted ascending / descending inputs are of this form) -/
theorem noNullGap_of_nullsAtEnds (h : Nat) (vs : List Int) (t : Nat) :
    NoNullGap (List.replicate h none ++ (vs.map some ++ List.replicate t none)) := by
  intro i j a hij hi hj hgap
  rw [nullsAtEnds_getElem?] at hi hj
  have hi1 : h ≤ i ∧ i < h + vs.length := by
    by_cases h1 : i < h
    · simp [h1] at hi
    · by_cases h2 : i < h + vs.length
      · omega
      · by_cases h3 : i < h + vs.length + t <;> simp [h1, h2, h3] at hi
  have hj1 : h ≤ j ∧ j < h + vs.length := by
    by_cases h1 : j < h
    · simp [h1] at hj
    · by_cases h2 : j < h + vs.length
      · omega
      · by_cases h3 : j < h + vs.length + t <;> simp [h1, h2, h3] at hj
  rcases Nat.lt_or_ge (i + 1) j with hlt | hge
  · have := hgap (i + 1) (by omega) hlt
    rw [nullsAtEnds_getElem?] at this
    have h1 : ¬ i + 1 < h := by omega
    have h2 : i + 1 < h + vs.length := by omega
    have h3 : i + 1 - h < vs.length := by omega
    simp [h1, h2, List.getElem?_eq_getElem h3] at this
  · omega



/-- equal values are adjacent: between two occurrences of `a` there is nothing but `a` -/
def EqualAdjacent (xs : List (Option Int)) : Prop :=
  ∀ (i j : Nat) (a : Int), i < j → xs[i]? = some (some a) → xs[j]? = some (some a) →
    ∀ k : Nat, i < k → k < j → xs[k]? = some (some a)

theorem noNullGap_of_equalAdjacent (xs : List (Option Int)) (h : EqualAdjacent xs) : NoNullGap xs := by
  intro i j a hij hi hj hgap
  rcases Nat.lt_or_ge (i + 1) j with hlt | hge
  · have h1 := h i j a hij hi hj (i + 1) (by omega) hlt
    have h2 := hgap (i + 1) (by omega) hlt
    rw [h1] at h2
    simp at h2
  · omega

theorem mem_runStarts (xs : List (Option Int)) (i : Nat) :
    i ∈ runStarts xs ↔ ∃ a, xs[i]? = some (some a) ∧ (i = 0 ∨ xs[i - 1]? ≠ some (some a)) := by
  unfold runStarts
  rw [List.mem_filter, List.mem_range]
  constructor
  · rintro ⟨_, h⟩
    rcases hx : xs[i]? with _ | x
    · simp [hx] at h
    · cases x with
      | none => simp [hx] at h
      | some a => exact ⟨a, rfl, by simpa [hx] using h⟩
  · rintro ⟨a, hx, h⟩
    refine ⟨?_, by simpa [hx] using h⟩
    rcases Nat.lt_or_ge i xs.length with h' | h'
    · exact h'
    · simp [List.getElem?_eq_none h'] at hx

/-- when equal values are adjacent, different runs carry different values -/
theorem runValues_nodup (xs : List (Option Int)) (h : EqualAdjacent xs) : (runValues xs).Nodup := by
  unfold runValues
  have hp : (runStarts xs).Pairwise (fun i j => i < j) := by
    unfold runStarts
    exact List.Pairwise.sublist List.filter_sublist List.pairwise_lt_range
  rw [List.Nodup]
  refine List.Pairwise.filterMap _ ?_ (List.Pairwise.and_mem.mp hp)
  intro i j ⟨hi, hj, hij⟩ b hb b' hb' hbb
  subst hbb
  obtain ⟨a, hxi, _⟩ := (mem_runStarts xs i).mp hi
  obtain ⟨a', hxj, hj0⟩ := (mem_runStarts xs j).mp hj
  have hb1 : xs[i]? = some b := by simpa using hb
  have hb2 : xs[j]? = some b := by simpa using hb'
  rw [hxi] at hb1
  rw [hxj] at hb2
  have haa : a = a' := by
    have := hb1.trans hb2.symm
    simpa using this
  subst haa
  rcases hj0 with h0 | hprev
  · omega
  · apply hprev
    rcases Nat.lt_or_ge i (j - 1) with hlt | hge
    · exact h i j a hij hxi hxj (j - 1) hlt (by omega)
    · have : j - 1 = i := by omega
      rw [this]; exact hxi


theorem nullsAtEnds_valid (h : Nat) (vs : List Int) (t : Nat) (i : Nat) (a : Int)
    (hi : (List.replicate h (none : Option Int) ++ (vs.map some ++ List.replicate t none))[i]? = some (some a)) :
    ∃ hlt : i - h < vs.length, h ≤ i ∧ vs[i - h] = a := by
  rw [nullsAtEnds_getElem?] at hi
  by_cases h1 : i < h
  · simp [h1] at hi
  · by_cases h2 : i < h + vs.length
    · have h3 : i - h < vs.length := by omega
      simp [h1, h2, List.getElem?_eq_getElem h3] at hi
      exact ⟨h3, by omega, hi⟩
    · by_cases h3 : i < h + vs.length + t <;> simp [h1, h2, h3] at hi

/-- a sorted (ascending or descending) value block with null blocks at the head and the tail has
its equal values adjacent -/
theorem equalAdjacent_of_sorted (h : Nat) (vs : List Int) (t : Nat)
    (hs : vs.Pairwise (· ≤ ·) ∨ vs.Pairwise (· ≥ ·)) :
    EqualAdjacent (List.replicate h none ++ (vs.map some ++ List.replicate t none)) := by
  intro i j a hij hi hj k hik hkj
  obtain ⟨hi1, hi2, hi3⟩ := nullsAtEnds_valid h vs t i a hi
  obtain ⟨hj1, hj2, hj3⟩ := nullsAtEnds_valid h vs t j a hj
  have hk1 : k - h < vs.length := by omega
  rw [nullsAtEnds_getElem?]
  have h1 : ¬ k < h := by omega
  have h2 : k < h + vs.length := by omega
  simp only [h1, h2, if_false, if_true, List.getElem?_eq_getElem hk1, Option.bind_some, Option.some.injEq]
  rcases hs with hs | hs
  · have e1 := (List.pairwise_iff_getElem.mp hs) (i - h) (k - h) hi1 hk1 (by omega)
    have e2 := (List.pairwise_iff_getElem.mp hs) (k - h) (j - h) hk1 hj1 (by omega)
    omega
  · have e1 := (List.pairwise_iff_getElem.mp hs) (i - h) (k - h) hi1 hk1 (by omega)
    have e2 := (List.pairwise_iff_getElem.mp hs) (k - h) (j - h) hk1 hj1 (by omega)
    simp only [ge_iff_le] at e1 e2
    omega

end Tv.C14
