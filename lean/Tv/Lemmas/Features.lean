import Tv.Lemmas.Moments
import Tv.Lemmas.Window
import Tv.Thm.C02
/-! emit lemmas: each closure's closed form on the power sums equals the from-scratch spec,
and the lift through the driver (`momRoll_exact`). -/
namespace Tv
open Tv.Spec

theorem eps_eq : Tv.EPS = Spec.EPS := rfl
theorem sgn_eq (q : Rat) : Tv.sgn q = Spec.sgn q := rfl

theorem cast_len_ne_zero {l : List Rat} (h : 1 ≤ l.length) : (l.length : Rat) ≠ 0 := by
  have : (1 : Rat) ≤ (l.length : Rat) := by exact_mod_cast h
  linarith

theorem emitSum_spec (m : Nat) (l : List Rat) : emitSum m (momOf l) = Spec.tsSum m l := by
  simp [emitSum, Spec.tsSum, Spec.masked, momOf_s1]

theorem emitMean_spec (m : Nat) (l : List Rat) : emitMean m (momOf l) = Spec.tsMean m l := by
  simp only [emitMean, Spec.tsMean, Spec.masked, momOf_n, ge_iff_le]
  split
  · simp only [Out.div, momOf_s1, Spec.mean]
    by_cases h : l.length = 0
    · simp [h]
    · have : (l.length : Rat) ≠ 0 := by exact_mod_cast h
      simp [h, this]
  · rfl

theorem csum2_eq (l : List Rat) (hn : 1 ≤ l.length) :
    csum 2 (Spec.mean l) l = (momOf l).pvar * (l.length : Rat) := by
  rw [pvar_eq_cmom2 l hn, cmom]
  field_simp [cast_len_ne_zero hn]

theorem emitVar_spec (m : Nat) (hm : 2 ≤ m) (l : List Rat) : emitVar m (momOf l) = Spec.tsVar m l := by
  simp only [emitVar, Spec.tsVar, Spec.masked, momOf_n, ge_iff_le]
  split
  · rename_i h
    have hn : 1 ≤ l.length := by omega
    have h1 : l.length ≠ 1 := by omega
    have hd : (l.length : Rat) - 1 ≠ 0 := by
      have : (2 : Rat) ≤ (l.length : Rat) := by exact_mod_cast (by omega : 2 ≤ l.length)
      linarith
    rw [pvar_eq_cmom2 l hn, eps_eq]
    by_cases hc : cmom 2 l ≤ Spec.EPS
    · simp [hc, not_lt.mpr hc]
    · simp only [hc, if_false, h1, not_le.mp hc, if_true, Out.div, hd]
      rw [csum2_eq l hn, pvar_eq_cmom2 l hn]
  · rfl

theorem emitStd_spec (m : Nat) (hm : 2 ≤ m) (l : List Rat) : emitStd m (momOf l) = Spec.tsStd m l := by
  simp only [emitStd, Spec.tsStd, Spec.masked, momOf_n, ge_iff_le]
  split
  · rename_i h
    have hn : 1 ≤ l.length := by omega
    have h1 : l.length ≠ 1 := by omega
    have hd : (l.length : Rat) - 1 ≠ 0 := by
      have : (2 : Rat) ≤ (l.length : Rat) := by exact_mod_cast (by omega : 2 ≤ l.length)
      linarith
    rw [pvar_eq_cmom2 l hn, eps_eq]
    by_cases hc : cmom 2 l ≤ Spec.EPS
    · simp [hc, not_lt.mpr hc]
    · simp only [hc, if_false, h1, not_le.mp hc, if_true, hd]
      rw [csum2_eq l hn, pvar_eq_cmom2 l hn]
  · rfl

theorem emitSkew_spec (m : Nat) (hm : 3 ≤ m) (l : List Rat) : emitSkew m (momOf l) = Spec.tsSkew m l := by
  simp only [emitSkew, Spec.tsSkew, Spec.masked, momOf_n, ge_iff_le]
  split
  · rename_i h
    have hn : 1 ≤ l.length := by omega
    have h2 : l.length ≠ 2 := by omega
    have hd : (l.length : Rat) - 2 ≠ 0 := by
      have : (3 : Rat) ≤ (l.length : Rat) := by exact_mod_cast (by omega : 3 ≤ l.length)
      linarith
    have e3 := m3_eq_cmom3 l hn
    rw [pvar_eq_cmom2 l hn] at e3 ⊢
    rw [eps_eq]
    by_cases hc : cmom 2 l ≤ Spec.EPS
    · simp [hc]
    · simp only [hc, if_false, h2, hd]
      rw [e3, sgn_eq]
  · rfl

theorem emitKurt_spec (m : Nat) (hm : 4 ≤ m) (l : List Rat) : emitKurt m (momOf l) = Spec.tsKurt m l := by
  simp only [emitKurt, Spec.tsKurt, Spec.masked, momOf_n, ge_iff_le]
  split
  · rename_i h
    have hn : 1 ≤ l.length := by omega
    have h2 : ¬ (l.length = 2 ∨ l.length = 3) := by omega
    have hge : (4 : Rat) ≤ (l.length : Rat) := by exact_mod_cast (by omega : 4 ≤ l.length)
    have hd : ((l.length : Rat) - 2) * ((l.length : Rat) - 3) ≠ 0 := by
      apply mul_ne_zero <;> linarith
    have e4 := m4_eq_cmom4 l hn
    simp only at e4
    rw [pvar_eq_cmom2 l hn] at e4 ⊢
    rw [eps_eq]
    by_cases hc : cmom 2 l ≤ Spec.EPS
    · simp [hc]
    · simp only [hc, if_false, h2, hd]
      have hv : cmom 2 l ≠ 0 := by
        intro h0; apply hc; rw [h0]; unfold Spec.EPS; norm_num
      congr 1
      rw [← e4]
      field_simp
  · rfl

/-- lift of an emit lemma through either driver shape -/
theorem momRoll_exact (emit : Mom → Out) (F : List Rat → Out) (h : ∀ l, emit (momOf l) = F l)
    (sh : Shape) (xs : List (Option Rat)) (w : Nat) (hw : 1 ≤ w) :
    (momRoll emit).run Mom.zero (applyCalls sh xs w)
      = (List.range xs.length).map (fun i => F (vwin xs i w)) := by
  rw [C02.applyCalls_spec sh xs w hw]
  have hW : 1 ≤ C02.effW sh w xs.length ∨ xs.length = 0 := by
    cases sh
    · show 1 ≤ min w xs.length ∨ xs.length = 0
      omega
    · left; exact hw
  rcases hW with hW | h0
  · have := run_refines_all (momRoll emit) MomInv (fun q => F (valid q)) momInv_init
      (fun s q v hi => momInv_add s q v hi) (fun s x q hi => momInv_remove s x q hi)
      (fun s q hi => by rw [hi]; exact h _) xs (C02.effW sh w xs.length) hW
    rw [show (momRoll emit).init = Mom.zero from rfl] at this
    rw [this]
    apply List.map_congr_left
    intro i hi
    have hi' : i < xs.length := by simpa using hi
    unfold vwin
    cases sh
    · simp only [C02.effW]; rw [window_clamp xs i w hi']
    · rfl
  · have : xs = [] := List.length_eq_zero_iff.mp h0
    subst this
    simp [callsFrom, Roll.run]

end Tv
