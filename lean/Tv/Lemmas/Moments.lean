import Tv.Model.Features
import Tv.Spec.Stats
import Mathlib.Tactic.Ring
import Mathlib.Tactic.FieldSimp
import Mathlib.Tactic.Linarith
import Mathlib.Data.Rat.Defs
import Mathlib.Algebra.Order.Field.Rat
/-! Power sums vs. central moments: the algebra behind the additive rolling closures. -/
namespace Tv
open Tv.Spec

/-- power sums of a list, as the `Mom` accumulator -/
def momOf : List Rat → Mom
  | [] => Mom.zero
  | x :: l => let m := momOf l; ⟨m.n + 1, m.s1 + x, m.s2 + x * x, m.s3 + x * x * x, m.s4 + x * x * x * x⟩

@[simp] theorem momOf_n (l : List Rat) : (momOf l).n = l.length := by
  induction l with
  | nil => rfl
  | cons x l ih => simp [momOf, ih]

theorem valid_append_some (q : List (Option Rat)) (v : Rat) : valid (q ++ [some v]) = valid q ++ [v] := by
  simp [valid, List.filterMap_append]

theorem valid_append_none (q : List (Option Rat)) : valid (q ++ [none]) = valid q := by
  simp [valid, List.filterMap_append]

theorem momOf_snoc (l : List Rat) (v : Rat) : momOf (l ++ [v]) = (momOf l).add (some v) := by
  induction l with
  | nil => simp [momOf, Mom.add, Mom.zero]
  | cons x l ih =>
    simp only [List.cons_append, momOf, ih, Mom.add]
    congr 1 <;> ring

theorem momOf_cons_remove (l : List Rat) (v : Rat) : (momOf (v :: l)).remove (some v) = momOf l := by
  simp only [momOf, Mom.remove]
  cases h : momOf l
  simp only [Nat.add_sub_cancel, Mom.mk.injEq, true_and]
  refine ⟨?_, ?_, ?_, ?_⟩ <;> ring

/-- the invariant of every additive closure: the state is the power sums of the non-null
elements currently in the window -/
def MomInv (s : Mom) (q : List (Option Rat)) : Prop := s = momOf (valid q)

theorem momInv_init : MomInv Mom.zero [] := rfl

theorem momInv_add (s : Mom) (q : List (Option Rat)) (v : Option Rat) (h : MomInv s q) :
    MomInv (s.add v) (q ++ [v]) := by
  unfold MomInv at *
  cases v with
  | none => rw [valid_append_none]; simpa [Mom.add] using h
  | some v => rw [valid_append_some, momOf_snoc, h]

theorem momInv_remove (s : Mom) (x : Option Rat) (q : List (Option Rat)) (h : MomInv s (x :: q)) :
    MomInv (s.remove x) q := by
  unfold MomInv at *
  cases x with
  | none => simpa [Mom.remove, valid] using h
  | some v =>
    have : valid (some v :: q) = v :: valid q := by simp [valid]
    rw [this] at h
    rw [h, momOf_cons_remove]

/-! ### power sums in terms of the spec's sums -/

theorem momOf_s1 (l : List Rat) : (momOf l).s1 = Spec.sum l := by
  induction l with
  | nil => rfl
  | cons x l ih => simp only [momOf, ih, Spec.sum, List.foldr_cons]; ring

theorem csum2_expand (c : Rat) (l : List Rat) :
    csum 2 c l = (momOf l).s2 - 2 * c * (momOf l).s1 + (l.length : Rat) * c ^ 2 := by
  induction l with
  | nil => simp [csum, Spec.sum, momOf, Mom.zero]
  | cons x l ih =>
    simp only [csum, Spec.sum, List.map_cons, List.foldr_cons, momOf, List.length_cons] at *
    rw [ih]; push_cast; ring

theorem csum3_expand (c : Rat) (l : List Rat) :
    csum 3 c l = (momOf l).s3 - 3 * c * (momOf l).s2 + 3 * c ^ 2 * (momOf l).s1 - (l.length : Rat) * c ^ 3 := by
  induction l with
  | nil => simp [csum, Spec.sum, momOf, Mom.zero]
  | cons x l ih =>
    simp only [csum, Spec.sum, List.map_cons, List.foldr_cons, momOf, List.length_cons] at *
    rw [ih]; push_cast; ring

theorem csum4_expand (c : Rat) (l : List Rat) :
    csum 4 c l = (momOf l).s4 - 4 * c * (momOf l).s3 + 6 * c ^ 2 * (momOf l).s2
      - 4 * c ^ 3 * (momOf l).s1 + (l.length : Rat) * c ^ 4 := by
  induction l with
  | nil => simp [csum, Spec.sum, momOf, Mom.zero]
  | cons x l ih =>
    simp only [csum, Spec.sum, List.map_cons, List.foldr_cons, momOf, List.length_cons] at *
    rw [ih]; push_cast; ring

theorem mean_eq (l : List Rat) : Spec.mean l = (momOf l).s1 / (l.length : Rat) := by
  simp [Spec.mean, momOf_s1]

/-- population variance of the closures = second central moment -/
theorem pvar_eq_cmom2 (l : List Rat) (hn : 1 ≤ l.length) : (momOf l).pvar = cmom 2 l := by
  have hn0 : (l.length : Rat) ≠ 0 := by
    have : (1 : Rat) ≤ (l.length : Rat) := by exact_mod_cast hn
    linarith
  simp only [Mom.pvar, cmom, csum2_expand, mean_eq, momOf_n]
  field_simp
  ring

theorem m3_eq_cmom3 (l : List Rat) (hn : 1 ≤ l.length) :
    (momOf l).s3 / (l.length : Rat) - 3 * ((momOf l).s1 / (l.length : Rat)) * (momOf l).pvar
      - (momOf l).s1 / (l.length : Rat) * ((momOf l).s1 / (l.length : Rat)) * ((momOf l).s1 / (l.length : Rat))
    = cmom 3 l := by
  have hn0 : (l.length : Rat) ≠ 0 := by
    have : (1 : Rat) ≤ (l.length : Rat) := by exact_mod_cast hn
    linarith
  simp only [Mom.pvar, cmom, csum3_expand, mean_eq, momOf_n]
  field_simp
  ring

theorem m4_eq_cmom4 (l : List Rat) (hn : 1 ≤ l.length) :
    let n : Rat := l.length
    let mean := (momOf l).s1 / n
    let var := (momOf l).pvar
    ((momOf l).s4 / n - 4 * mean * ((momOf l).s3 / n)) + 6 * (mean * mean) * var + 3 * (mean * mean) * (mean * mean)
      = cmom 4 l := by
  intro n mean var
  have hn0 : (l.length : Rat) ≠ 0 := by
    have : (1 : Rat) ≤ (l.length : Rat) := by exact_mod_cast hn
    linarith
  simp only [n, mean, var, Mom.pvar, cmom, csum4_expand, mean_eq, momOf_n]
  field_simp
  ring

end Tv
