import Tv.Model.C03Norm
import Tv.Lemmas.C03Rank
/-!
  `ts_vminmaxnorm`: the two lazily re-searched caches (with sentinel initial values) always
  describe the extreme of the positions seen so far inside the window.
-/
namespace Tv.C03
open Tv

/-- `cmp x bound` ("x is at least as extreme as the cached bound") for an order `R a b`
("b is at least as extreme as a"); the sentinel `none` is beaten by everything -/
structure SentCmp (cmp : Rat → Option Rat → Bool) (R : Rat → Rat → Prop) : Prop where
  sentinel : ∀ x, cmp x none = true
  real : ∀ x m, cmp x (some m) = true ↔ R m x
  refl : ∀ a, R a a
  trans : ∀ {a b c}, R a b → R b c → R a c
  total : ∀ a b, R a b ∨ R b a

theorem geS_ok : SentCmp geS (fun a b => a ≤ b) where
  sentinel := by intro x; rfl
  real := by intro x m; simp [geS]
  refl := fun a => le_refl a
  trans := fun h1 h2 => le_trans h1 h2
  total := fun a b => le_total a b

theorem leS_ok : SentCmp leS (fun a b => b ≤ a) where
  sentinel := by intro x; rfl
  real := by intro x m; simp [leS]
  refl := fun a => le_refl a
  trans := fun h1 h2 => le_trans h2 h1
  total := fun a b => le_total b a

/-- the cache `st` describes the `R`-extreme of the non-null positions of `lo .. hi` (half
open): it bounds all of them and, unless it is still the sentinel, it is attained at `st.2` -/
structure SentOK (R : Rat → Rat → Prop) (g : Nat → Option Rat) (lo hi : Nat) (st : SentSt) : Prop where
  bound : ∀ j, lo ≤ j → j < hi → ∀ x, g j = some x → ∃ m, st.1 = some m ∧ R x m
  attained : ∀ m, st.1 = some m → lo ≤ st.2 ∧ st.2 < hi ∧ g st.2 = some m

variable {cmp : Rat → Option Rat → Bool} {R : Rat → Rat → Prop}

theorem sentOK_empty (g : Nat → Option Rat) (a k : Nat) : SentOK R g a a (none, k) :=
  ⟨by intro j h1 h2; omega, by intro m h; cases h⟩

theorem sUpd_extends (hc : SentCmp cmp R) (g : Nat → Option Rat) (lo hi : Nat) (st : SentSt)
    (hlo : lo ≤ hi) (h : SentOK R g lo hi st) :
    SentOK R g lo (hi+1) (sUpd cmp st (g hi) hi) := by
  unfold sUpd
  cases hv : g hi with
  | none =>
    simp only
    refine ⟨?_, ?_⟩
    · intro j h1 h2 x hx
      by_cases hj : j = hi
      · subst hj; rw [hv] at hx; cases hx
      · exact h.bound j h1 (by omega) x hx
    · intro m hm
      obtain ⟨a, b, c⟩ := h.attained m hm
      exact ⟨a, by omega, c⟩
  | some x =>
    simp only
    by_cases hcx : cmp x st.1 = true
    · simp only [hcx, if_true]
      refine ⟨?_, ?_⟩
      · intro j h1 h2 y hy
        refine ⟨x, rfl, ?_⟩
        by_cases hj : j = hi
        · subst hj; rw [hv] at hy; cases hy; exact hc.refl _
        · obtain ⟨m, hm1, hm2⟩ := h.bound j h1 (by omega) y hy
          rw [hm1] at hcx
          exact hc.trans hm2 ((hc.real x m).mp hcx)
      · intro m hm
        cases hm
        exact ⟨hlo, by omega, hv⟩
    · simp only [hcx, Bool.false_eq_true, if_false]
      have hne : ∃ m, st.1 = some m := by
        cases hs : st.1 with
        | none => rw [hs, hc.sentinel] at hcx; exact absurd rfl hcx
        | some m => exact ⟨m, rfl⟩
      obtain ⟨m, hm⟩ := hne
      refine ⟨?_, ?_⟩
      · intro j h1 h2 y hy
        by_cases hj : j = hi
        · subst hj
          have hyx : x = y := Option.some.inj (hv.symm.trans hy)
          subst hyx
          refine ⟨m, hm, ?_⟩
          rw [hm] at hcx
          rcases hc.total m x with h' | h'
          · exact absurd ((hc.real x m).mpr h') hcx
          · exact h'
        · exact h.bound j h1 (by omega) y hy
      · intro m' hm'
        obtain ⟨a, b, c⟩ := h.attained m' hm'
        exact ⟨a, by omega, c⟩

theorem foldl_sUpd (hc : SentCmp cmp R) (g : Nat → Option Rat) (lo : Nat) :
    ∀ (n hi : Nat) (st : SentSt), lo ≤ hi → SentOK R g lo hi st →
      SentOK R g lo (hi+n) ((List.range' hi n).foldl (fun st i => sUpd cmp st (g i) i) st) := by
  intro n
  induction n with
  | zero => intro hi st _ h; simpa using h
  | succ n ih =>
    intro hi st hlo h
    rw [List.range'_succ, List.foldl_cons]
    have := ih (hi+1) _ (by omega) (sUpd_extends hc g lo hi st hlo h)
    have e : hi + 1 + n = hi + (n+1) := by omega
    rw [e] at this
    exact this

/-- the re-search over `s..e` (end excluded) -/
theorem sRescan_spec (hc : SentCmp cmp R) (g : Nat → Option Rat) (st : SentSt) (s e : Nat)
    (h : s ≤ e) : SentOK R g s e (sRescan cmp g st s e) := by
  unfold sRescan
  have := foldl_sUpd hc g s (e - s) s (none, st.2) (Nat.le_refl _) (sentOK_empty g s st.2)
  have e2 : s + (e - s) = e := by omega
  rw [e2] at this
  exact this

theorem sentOK_drop_head (g : Nat → Option Rat) (lo hi : Nat) (st : SentSt)
    (h : SentOK R g lo hi st) (hk : lo + 1 ≤ st.2) : SentOK R g (lo+1) hi st := by
  refine ⟨?_, ?_⟩
  · intro j h1 h2; exact h.bound j (by omega) h2
  · intro m hm
    obtain ⟨_, b, c⟩ := h.attained m hm
    exact ⟨hk, b, c⟩

/-- the expiry test and lazy re-search at the head of a call -/
theorem sRefresh (hc : SentCmp cmp R) (g : Nat → Option Rat) (lp s i : Nat) (st : SentSt)
    (hs : s = lp ∨ s = lp + 1) (hsi : s ≤ i) (h : SentOK R g lp i st) :
    SentOK R g s i (if st.2 < s then sRescan cmp g st s i else st) := by
  by_cases hx : st.2 < s
  · simp only [hx, if_true]
    exact sRescan_spec hc g st s i hsi
  · simp only [hx, if_false]
    rcases hs with rfl | rfl
    · exact h
    · exact sentOK_drop_head g lp i st h (by omega)

/-- meaning of two caches over the full window -/
theorem sent_least (g : Nat → Option Rat) (lo i : Nat) (st : SentSt) (m : Rat)
    (h : SentOK (fun a b => b ≤ a) g lo (i+1) st) (hm : st.1 = some m) :
    Spec.least (Spec.vals (winL g lo i)) = some m := by
  obtain ⟨a, b, c⟩ := h.attained m hm
  apply least_char
  · exact (mem_vals_winL g lo i m).mpr ⟨st.2, a, by omega, c⟩
  · intro y hy
    obtain ⟨j, h1, h2, h3⟩ := (mem_vals_winL g lo i y).mp hy
    obtain ⟨m', hm1, hm2⟩ := h.bound j h1 (by omega) y h3
    rw [hm] at hm1; cases hm1; exact hm2

theorem sent_greatest (g : Nat → Option Rat) (lo i : Nat) (st : SentSt) (m : Rat)
    (h : SentOK (fun a b => a ≤ b) g lo (i+1) st) (hm : st.1 = some m) :
    Spec.greatest (Spec.vals (winL g lo i)) = some m := by
  obtain ⟨a, b, c⟩ := h.attained m hm
  apply greatest_char
  · exact (mem_vals_winL g lo i m).mpr ⟨st.2, a, by omega, c⟩
  · intro y hy
    obtain ⟨j, h1, h2, h3⟩ := (mem_vals_winL g lo i y).mp hy
    obtain ⟨m', hm1, hm2⟩ := h.bound j h1 (by omega) y h3
    rw [hm] at hm1; cases hm1; exact hm2

/-- state before call `i` -/
structure MMInv (g : Nat → Option Rat) (W i : Nat) (st : MMSt) : Prop where
  mx : SentOK (fun a b => a ≤ b) g (lo W (i-1)) i st.mx
  mn : SentOK (fun a b => b ≤ a) g (lo W (i-1)) i st.mn
  n : st.n = cnt g (lo W i) i

theorem lo_pred (W i : Nat) : lo W i = lo W (i-1) ∨ lo W i = lo W (i-1) + 1 := by
  unfold lo; omega

/-- the two caches after the expiry match of call `i` -/
def refreshed (g : Nat → Option Rat) (st : MMSt) (start : Option Nat) (e : Nat) : SentSt × SentSt :=
  match start with
  | some s =>
    match decide (st.mx.2 < s), decide (st.mn.2 < s) with
    | true, false => (sRescan geS g st.mx s e, st.mn)
    | false, true => (st.mx, sRescan leS g st.mn s e)
    | true, true => (sRescan geS g st.mx s e, sRescan leS g st.mn s e)
    | false, false => (st.mx, st.mn)
  | none => (st.mx, st.mn)

theorem refreshed_some (g : Nat → Option Rat) (st : MMSt) (s e : Nat) :
    refreshed g st (some s) e =
      (if st.mx.2 < s then sRescan geS g st.mx s e else st.mx,
       if st.mn.2 < s then sRescan leS g st.mn s e else st.mn) := by
  unfold refreshed
  by_cases h1 : st.mx.2 < s <;> by_cases h2 : st.mn.2 < s <;> simp [h1, h2]

theorem refreshed_ok (g : Nat → Option Rat) (W i : Nat) (st : MMSt) (h : MMInv g W i st) :
    SentOK (fun a b => a ≤ b) g (lo W i) i (refreshed g st (startAt W i) i).1 ∧
    SentOK (fun a b => b ≤ a) g (lo W i) i (refreshed g st (startAt W i) i).2 := by
  unfold startAt
  by_cases hc : W - 1 ≤ i
  · simp only [hc, if_true, refreshed_some]
    have hs : i - (W - 1) = lo W i := rfl
    rw [hs]
    exact ⟨sRefresh geS_ok g _ _ i st.mx (lo_pred W i) (lo_le W i) h.mx,
           sRefresh leS_ok g _ _ i st.mn (lo_pred W i) (lo_le W i) h.mn⟩
  · simp only [hc, if_false, refreshed]
    have e1 : lo W i = lo W (i-1) := by unfold lo; omega
    rw [e1]
    exact ⟨h.mx, h.mn⟩

theorem mmStep_inv (g : Nat → Option Rat) (W mp i : Nat) (st : MMSt) (h : MMInv g W i st) :
    MMInv g W (i+1) (mmStep g mp st (startAt W i, i, g i)).1 ∧
    (mmStep g mp st (startAt W i, i, g i)).2 = Spec.tsMinmaxnorm mp (winL g (lo W i) i) := by
  obtain ⟨hr1, hr2⟩ := refreshed_ok g W i st h
  obtain ⟨hn1, hn2⟩ := cnt_step g W i st.n h.n
  have hlo := lo_le W i
  have hx1 := sUpd_extends geS_ok g (lo W i) i _ hlo hr1
  have hx2 := sUpd_extends leS_ok g (lo W i) i _ hlo hr2
  have hmodel : mmStep g mp st (startAt W i, i, g i) =
      (⟨sUpd geS (refreshed g st (startAt W i) i).1 (g i) i,
        sUpd leS (refreshed g st (startAt W i) i).2 (g i) i,
        match startAt W i with
        | some s => if (g s).isSome then (if (g i).isSome then st.n + 1 else st.n) - 1
                    else (if (g i).isSome then st.n + 1 else st.n)
        | none => (if (g i).isSome then st.n + 1 else st.n)⟩,
       match g i, (sUpd geS (refreshed g st (startAt W i) i).1 (g i) i).1,
             (sUpd leS (refreshed g st (startAt W i) i).2 (g i) i).1 with
       | some x, some hi, some lo =>
         if (if (g i).isSome then st.n + 1 else st.n) ≥ mp ∧ hi ≠ lo
         then Out.val ((x - lo) / (hi - lo)) else Out.null
       | _, _, _ => Out.null) := by
    unfold mmStep refreshed
    rfl
  rw [hmodel]
  constructor
  · exact ⟨by simpa using hx1, by simpa using hx2, hn2⟩
  · simp only
    unfold Spec.tsMinmaxnorm
    rw [winL_getLast? g _ _ hlo]
    cases hv : g i with
    | none => simp
    | some x =>
      rw [hv] at hx1 hx2
      obtain ⟨hi_, hhi, _⟩ := hx1.bound i hlo (by omega) x hv
      obtain ⟨lo_, hlo_, _⟩ := hx2.bound i hlo (by omega) x hv
      rw [sent_greatest g (lo W i) i _ hi_ hx1 hhi, sent_least g (lo W i) i _ lo_ hx2 hlo_]
      simp only [hhi, hlo_, Spec.masked]
      rw [vals_length_winL, ← hn1, hv]
      simp only [Option.isSome_some, if_true, ge_iff_le]
      by_cases hm : mp ≤ st.n + 1 <;> by_cases he : hi_ = lo_ <;> simp [hm, he]

theorem mm_run (g : Nat → Option Rat) (W mp n : Nat) :
    runSt (mmStep g mp) ⟨(none, 0), (none, 0), 0⟩
        ((List.range n).map fun i => (startAt W i, i, g i))
      = (List.range n).map fun i => Spec.tsMinmaxnorm mp (winL g (lo W i) i) := by
  apply runSt_range (mmStep g mp) _ (MMInv g W)
  · refine ⟨?_, ?_, by simp [cnt]⟩
    · have := sentOK_empty (R := fun a b : Rat => a ≤ b) g 0 0
      simpa [lo] using this
    · have := sentOK_empty (R := fun a b : Rat => b ≤ a) g 0 0
      simpa [lo] using this
  · intro i s _ hP
    exact mmStep_inv g W mp i s hP

theorem effW_ge_one (sh : Shape) (w len : Nat) (hw : 1 ≤ w) (hlen : 1 ≤ len) :
    1 ≤ C02.effW sh w len := by
  cases sh <;> simp [C02.effW] <;> omega

theorem window_effW (sh : Shape) (xs : List (Option Rat)) (w i : Nat) (hi : i < xs.length) :
    window xs i (C02.effW sh w xs.length) = window xs i w := by
  cases sh
  · exact window_clamp xs i w hi
  · rfl

theorem tsVminmaxnorm_exact (sh : Shape) (xs : List (Option Rat)) (w : Nat) (mp : Option Nat)
    (hw : 1 ≤ w) :
    tsVminmaxnorm sh xs w mp =
      (List.range xs.length).map fun i => Spec.tsMinmaxnorm (normMp mp w) (window xs i w) := by
  unfold tsVminmaxnorm
  by_cases hx : xs = []
  · subst hx; simp [idxCalls_nil, runSt]
  · have hlen : 1 ≤ xs.length := by
      cases xs with
      | nil => exact absurd rfl hx
      | cons _ _ => simp
    have hW := effW_ge_one sh w xs.length hw hlen
    rw [idxCalls_eq_map sh xs _ hw, mm_run (get xs)]
    apply List.map_congr_left
    intro i hi
    have hi' : i < xs.length := by simpa using hi
    rw [winL_eq_window xs _ i hW hi', window_effW sh xs w i hi']

end Tv.C03
