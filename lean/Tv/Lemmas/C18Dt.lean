import Tv.Model.C18Parse
/-! C18 — lemmas about the `DateTime::parse` model (format list, unit conversion). -/
namespace Tv.C18

theorem firstFmt_some_iff (c : Chrono) (fs : List String) (x : Instant) :
    firstFmt c fs = some x ↔
      ∃ pre f post, fs = pre ++ f :: post ∧ (∀ g ∈ pre, tryFmt c g = none) ∧ tryFmt c f = some x := by
  induction fs with
  | nil => simp [firstFmt]
  | cons f fs ih =>
    simp only [firstFmt]
    cases h : tryFmt c f with
    | some y =>
      constructor
      · intro hy
        cases hy
        exact ⟨[], f, fs, rfl, by simp, h⟩
      · rintro ⟨pre, g, post, hfs, hpre, hg⟩
        cases pre with
        | nil =>
          simp only [List.nil_append, List.cons.injEq] at hfs
          rw [← hfs.1, h] at hg
          exact hg
        | cons p pre =>
          simp only [List.cons_append, List.cons.injEq] at hfs
          have := hpre p (by simp)
          rw [← hfs.1, h] at this
          cases this
    | none =>
      simp only
      rw [ih]
      constructor
      · rintro ⟨pre, g, post, hfs, hpre, hg⟩
        refine ⟨f :: pre, g, post, by simp [hfs], ?_, hg⟩
        intro g' hg'
        rcases List.mem_cons.mp hg' with rfl | hm
        · exact h
        · exact hpre g' hm
      · rintro ⟨pre, g, post, hfs, hpre, hg⟩
        cases pre with
        | nil =>
          simp only [List.nil_append, List.cons.injEq] at hfs
          rw [← hfs.1, h] at hg
          cases hg
        | cons p pre =>
          simp only [List.cons_append, List.cons.injEq] at hfs
          exact ⟨pre, g, post, hfs.2, fun g' hg' => hpre g' (by simp [hg']), hg⟩

theorem firstFmt_none_iff (c : Chrono) (fs : List String) :
    firstFmt c fs = none ↔ ∀ f ∈ fs, tryFmt c f = none := by
  induction fs with
  | nil => simp [firstFmt]
  | cons f fs ih =>
    simp only [firstFmt]
    cases h : tryFmt c f with
    | some y => simp [h]
    | none => simp [h, ih]

/-- converting a tick count to chrono's (seconds, nanoseconds) and back loses nothing -/
theorem fromCr_toCr (v : Version) (u : DUnit) (ticks : Int) (h : inI64 ticks = true) :
    fromCr v u (toCr u ticks) = .ok ticks := by
  cases u
  · simp [fromCr, toCr, DUnit.perSec]
  · have h0 : 0 ≤ ticks % 1000 := Int.emod_nonneg _ (by decide)
    simp [fromCr, toCr, DUnit.perSec]
    omega
  · have h0 : 0 ≤ ticks % 1000000 := Int.emod_nonneg _ (by decide)
    simp [fromCr, toCr, DUnit.perSec]
    omega
  · have h0 : 0 ≤ ticks % 1000000000 := Int.emod_nonneg _ (by decide)
    have h2 : ticks / 1000000000 * 1000000000 + max (ticks % 1000000000) 0 = ticks := by omega
    simp [fromCr, toCr, DUnit.perSec, h2, h]

theorem fromCr_repaired_total (u : DUnit) (x : Instant) : (fromCr .repaired u x).isPanic = false := by
  cases u <;> simp only [fromCr] <;> (try split) <;> rfl

end Tv.C18
