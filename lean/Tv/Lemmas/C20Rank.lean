import Mathlib.Algebra.Order.Field.Rat
import Mathlib.Order.Monotone.Basic
import Tv.Model.C20
import Tv.Spec.C20
/-!
  Helper lemmas for C20 / Spearman: the counting rank only looks at the order relation between
  values, so it is invariant under strictly increasing maps.
-/
namespace Tv.C20
open Tv

theorem valid_map (f : Rat → Rat) (xs : List (Option Rat)) :
    valid (xs.map (Option.map f)) = (valid xs).map f := by
  unfold valid
  induction xs with
  | nil => rfl
  | cons a t ih => cases a <;> simp [ih]

theorem rankOf_map (f : Rat → Rat) (hf : StrictMono f) (vs : List Rat) (v : Rat) :
    rankOf (vs.map f) (f v) = rankOf vs v := by
  unfold rankOf
  have h1 : ((vs.map f).filter (· < f v)).length = (vs.filter (· < v)).length := by
    rw [List.filter_map, List.length_map]
    congr 1
    apply List.filter_congr
    intro a _
    simp [Function.comp, hf.lt_iff_lt]
  have h2 : ((vs.map f).filter (· = f v)).length = (vs.filter (· = v)).length := by
    rw [List.filter_map, List.length_map]
    congr 1
    apply List.filter_congr
    intro a _
    simp [Function.comp, hf.injective.eq_iff]
  rw [h1, h2]

theorem vrank_map (f : Rat → Rat) (hf : StrictMono f) (xs : List (Option Rat)) :
    vrank (xs.map (Option.map f)) = vrank xs := by
  unfold vrank
  simp only [valid_map, List.map_map]
  apply List.map_congr_left
  intro a _
  cases a with
  | none => rfl
  | some v => simp [rankOf_map f hf]

theorem vrank_length (xs : List (Option Rat)) : (vrank xs).length = xs.length := by
  simp [vrank]

end Tv.C20
