import Tv.Spec.C18Spec
/-! C18 — a readable sufficient condition for `NoOverflow`. -/
namespace Tv.C18
open Spec

theorem unit_nonneg (u : TUnit) : 0 ≤ u.nanos ∧ 0 ≤ u.months := by cases u <;> decide

theorem absNanos_nonneg (ts : List Term) : 0 ≤ absNanos ts := by
  induction ts with
  | nil => decide
  | cons t ts ih =>
    simp only [absNanos, List.map_cons, List.sum_cons] at ih ⊢
    have := Int.mul_nonneg (Int.natCast_nonneg t.value.natAbs) (unit_nonneg t.unit).1
    omega

theorem absMonths_nonneg (ts : List Term) : 0 ≤ absMonths ts := by
  induction ts with
  | nil => decide
  | cons t ts ih =>
    simp only [absMonths, List.map_cons, List.sum_cons] at ih ⊢
    have := Int.mul_nonneg (Int.natCast_nonneg t.value.natAbs) (unit_nonneg t.unit).2
    omega

/-- one term: it fits, and the size budget carries over to the updated totals -/
theorem fits_small (a : Acc) (t : Term) (B M : Int) (hB : 0 ≤ B) (hM : 0 ≤ M)
    (h1 : (a.sub.natAbs : Int) + a.sec.natAbs * 1000000000 + t.value.natAbs * t.unit.nanos + B
      ≤ 9223372036854775807)
    (h2 : (a.cal.natAbs : Int) + t.value.natAbs * t.unit.months + M ≤ 2147483647) :
    t.fits a = true ∧
    ((a.add t).sub.natAbs : Int) + (a.add t).sec.natAbs * 1000000000 + B ≤ 9223372036854775807 ∧
    ((a.add t).cal.natAbs : Int) + M ≤ 2147483647 := by
  unfold Term.fits Acc.add
  generalize t.value = v at h1 h2 ⊢
  generalize t.unit = u at h1 h2 ⊢
  cases u <;> simp only [TUnit.cls, TUnit.mult, TUnit.nanos, TUnit.months] at h1 h2 ⊢ <;>
    simp only [i64Ok, i32Ok, Bool.and_eq_true, decide_eq_true_eq] <;> omega

theorem small_aux (ts : List Term) :
    ∀ a : Acc, (a.sub.natAbs : Int) + a.sec.natAbs * 1000000000 + absNanos ts ≤ 9223372036854775807 →
      (a.cal.natAbs : Int) + absMonths ts ≤ 2147483647 → noOverflowFrom a ts = true := by
  induction ts with
  | nil =>
    intro a h1 _
    simp only [absNanos, List.map_nil, List.sum_nil, Int.add_zero] at h1
    simp only [noOverflowFrom, Acc.final, Bool.and_eq_true, decide_eq_true_eq]
    omega
  | cons t ts ih =>
    intro a h1 h2
    have hN : absNanos (t :: ts) = (t.value.natAbs : Int) * t.unit.nanos + absNanos ts := by
      simp [absNanos]
    have hM : absMonths (t :: ts) = (t.value.natAbs : Int) * t.unit.months + absMonths ts := by
      simp [absMonths]
    rw [hN] at h1
    rw [hM] at h2
    obtain ⟨hf, hs, hc⟩ := fits_small a t (absNanos ts) (absMonths ts) (absNanos_nonneg ts)
      (absMonths_nonneg ts) (by omega) (by omega)
    simp only [noOverflowFrom, Bool.and_eq_true]
    exact ⟨hf, ih _ hs hc⟩

/-- a term list whose absolute sizes add up to at most `i64::MAX` nanoseconds (about 292 years)
    and `i32::MAX` months is representable, whatever the signs and the order of the terms -/
theorem noOverflow_of_small (ts : List Term) (h1 : absNanos ts ≤ 9223372036854775807)
    (h2 : absMonths ts ≤ 2147483647) : NoOverflow ts :=
  small_aux ts {} (by simpa using h1) (by simpa using h2)

end Tv.C18
