import Tv.Lemmas.C15
/-!
  C15 — order lemmas: a comparator on inner values that is a total order on the valid ones,
  lifted to a nullable carrier with nulls last, is a total preorder (and an order up to equality).
-/
namespace Tv.C15

/-- `partial_cmp` restricted to the valid (non-null, well-typed) inner values is a total order -/
structure POrder (V : ι → Prop) (pcmp : ι → ι → Option Ordering) : Prop where
  total : ∀ a b, V a → V b → ∃ o, pcmp a b = some o
  swap : ∀ a b o, V a → V b → pcmp a b = some o → pcmp b a = some o.swap
  eq_iff : ∀ a b, V a → V b → (pcmp a b = some .eq ↔ a = b)
  lt_trans : ∀ a b c, V a → V b → V c → pcmp a b = some .lt → pcmp b c = some .lt → pcmp a c = some .lt

/-- a total comparator that is a linear order on `V` -/
structure COrder (V : ι → Prop) (k : ι → ι → Ordering) : Prop where
  swap : ∀ a b, V a → V b → k b a = (k a b).swap
  eq_iff : ∀ a b, V a → V b → (k a b = .eq ↔ a = b)
  le_trans : ∀ a b c, V a → V b → V c → k a b ≠ .gt → k b c ≠ .gt → k a c ≠ .gt

/-- the comparator obtained from `pcmp` with any fallback for incomparable arguments -/
def ofP (pcmp : ι → ι → Option Ordering) (fb : ι → Ordering) (a b : ι) : Ordering :=
  match pcmp a b with
  | some o => o
  | none => fb a

theorem POrder.toC {V : ι → Prop} {pcmp : ι → ι → Option Ordering} (h : POrder V pcmp) (fb : ι → Ordering) :
    COrder V (ofP pcmp fb) where
  swap a b ha hb := by
    obtain ⟨o, ho⟩ := h.total a b ha hb
    simp only [ofP, ho, h.swap a b o ha hb ho]
  eq_iff a b ha hb := by
    obtain ⟨o, ho⟩ := h.total a b ha hb
    rw [← h.eq_iff a b ha hb]
    simp only [ofP, ho, Option.some.injEq]
  le_trans a b c ha hb hc h1 h2 := by
    obtain ⟨o1, ho1⟩ := h.total a b ha hb
    obtain ⟨o2, ho2⟩ := h.total b c hb hc
    simp only [ofP, ho1, ho2] at h1 h2
    cases o1 with
    | gt => exact absurd rfl h1
    | eq =>
      have := (h.eq_iff a b ha hb).1 ho1; subst this
      simpa only [ofP, ho2] using h2
    | lt =>
      cases o2 with
      | gt => exact absurd rfl h2
      | eq =>
        have := (h.eq_iff b c hb hc).1 ho2; subst this
        simp [ofP, ho1]
      | lt => simp [ofP, h.lt_trans a b c ha hb hc ho1 ho2]

/-- the reversed comparator is a linear order as well -/
theorem COrder.rev {V : ι → Prop} {k : ι → ι → Ordering} (h : COrder V k) :
    COrder V (fun a b => (k a b).swap) where
  swap a b ha hb := by rw [h.swap a b ha hb]
  eq_iff a b ha hb := by
    rw [← h.eq_iff a b ha hb]
    cases k a b <;> simp [Ordering.swap]
  le_trans a b c ha hb hc h1 h2 := by
    have e1 := h.swap a b ha hb
    have e2 := h.swap b c hb hc
    have e3 := h.swap a c ha hc
    have := h.le_trans c b a hc hb ha (by rw [e2]; exact h2) (by rw [e1]; exact h1)
    rw [e3] at this; exact this

/-- lift to the nullable carrier: nulls are greater than everything and equal to each other -/
def cmpNL (k : ι → ι → Ordering) : Option ι → Option ι → Ordering
  | some a, some b => k a b
  | none, none => .eq
  | none, some _ => .gt
  | some _, none => .lt

/-- valid-or-null -/
def OV (V : ι → Prop) : Option ι → Prop
  | none => True
  | some v => V v

theorem cmpNL_swap {V : ι → Prop} {k : ι → ι → Ordering} (h : COrder V k) (a b : Option ι)
    (ha : OV V a) (hb : OV V b) : cmpNL k b a = (cmpNL k a b).swap := by
  cases a <;> cases b <;> simp [cmpNL, Ordering.swap]
  exact h.swap _ _ ha hb

theorem cmpNL_eq_iff {V : ι → Prop} {k : ι → ι → Ordering} (h : COrder V k) (a b : Option ι)
    (ha : OV V a) (hb : OV V b) : cmpNL k a b = .eq ↔ a = b := by
  cases a <;> cases b <;> simp [cmpNL]
  exact h.eq_iff _ _ ha hb

theorem cmpNL_le_trans {V : ι → Prop} {k : ι → ι → Ordering} (h : COrder V k) (a b c : Option ι)
    (ha : OV V a) (hb : OV V b) (hc : OV V c) (h1 : cmpNL k a b ≠ .gt) (h2 : cmpNL k b c ≠ .gt) :
    cmpNL k a c ≠ .gt := by
  cases a <;> cases b <;> cases c <;> simp_all [cmpNL]
  exact h.le_trans _ _ _ ha hb hc h1 h2

/-- `sort_cmp` is the nulls-last lift of `partial_cmp` (with its NaN fallback) along `as_opt` -/
theorem sortCmp_eq_cmpNL (R : NullRepr α ι) (innerNone : ι → Bool) (pcmp : ι → ι → Option Ordering)
    (a b : α) :
    sortCmp R innerNone pcmp a b =
      cmpNL (ofP pcmp fun v => if innerNone v then .gt else .lt) (R.asOpt a) (R.asOpt b) := by
  unfold sortCmp
  cases R.asOpt a <;> cases R.asOpt b <;> simp [cmpNL, ofP]
  split <;> simp_all

/-- `sort_cmp_rev` is the nulls-last lift of the reversed `partial_cmp` -/
theorem sortCmpRev_eq_cmpNL (R : NullRepr α ι) (innerNone : ι → Bool) (pcmp : ι → ι → Option Ordering)
    (a b : α) :
    sortCmpRev R innerNone pcmp a b =
      cmpNL (fun x y => (ofP pcmp (fun v => if innerNone v then .lt else .gt) x y).swap) (R.asOpt a) (R.asOpt b) := by
  unfold sortCmpRev
  cases R.asOpt a <;> cases R.asOpt b <;> simp [cmpNL, ofP]
  split <;> simp_all

/-- on valid arguments the fallback of `ofP` is irrelevant -/
theorem ofP_valid {V : ι → Prop} {pcmp : ι → ι → Option Ordering} (h : POrder V pcmp)
    (fb fb' : ι → Ordering) (a b : ι) (ha : V a) (hb : V b) : ofP pcmp fb a b = ofP pcmp fb' a b := by
  obtain ⟨o, ho⟩ := h.total a b ha hb
  simp [ofP, ho]

/-! ### `partial_cmp` of every inner type is a total order on the valid values -/

/-- any lawful `Ord` instance gives a `POrder` -/
theorem POrder.ofOrd {β : Type} [Ord β] [Std.TransOrd β] [Std.LawfulEqOrd β] :
    POrder (fun _ : β => True) (fun a b => some (compare a b)) where
  total a b _ _ := ⟨_, rfl⟩
  swap a b o _ _ h := by
    simp only [Option.some.injEq] at h ⊢
    rw [← h, Std.OrientedOrd.eq_swap (a := b) (b := a)]
  eq_iff a b _ _ := by
    simp only [Option.some.injEq]
    exact Std.LawfulEqOrd.compare_eq_iff_eq
  lt_trans a b c _ _ _ h1 h2 := by
    simp only [Option.some.injEq] at h1 h2 ⊢
    exact Std.TransCmp.lt_trans h1 h2

/-- transport along an injective embedding of the valid values -/
theorem POrder.embed {β ι : Type} {P : β → Prop} {q : β → β → Option Ordering} (hq : POrder P q)
    (e : β → ι) (he : ∀ x y, e x = e y → x = y) {V : ι → Prop} {pcmp : ι → ι → Option Ordering}
    (hV : ∀ v, V v → ∃ x, P x ∧ v = e x) (hp : ∀ x y, P x → P y → pcmp (e x) (e y) = q x y) :
    POrder V pcmp where
  total a b ha hb := by
    obtain ⟨x, px, rfl⟩ := hV a ha
    obtain ⟨y, py, rfl⟩ := hV b hb
    rw [hp x y px py]; exact hq.total x y px py
  swap a b o ha hb h := by
    obtain ⟨x, px, rfl⟩ := hV a ha
    obtain ⟨y, py, rfl⟩ := hV b hb
    rw [hp x y px py] at h
    rw [hp y x py px]; exact hq.swap x y o px py h
  eq_iff a b ha hb := by
    obtain ⟨x, px, rfl⟩ := hV a ha
    obtain ⟨y, py, rfl⟩ := hV b hb
    rw [hp x y px py, hq.eq_iff x y px py]
    exact ⟨fun h => h ▸ rfl, he x y⟩
  lt_trans a b c ha hb hc h1 h2 := by
    obtain ⟨x, px, rfl⟩ := hV a ha
    obtain ⟨y, py, rfl⟩ := hV b hb
    obtain ⟨z, pz, rfl⟩ := hV c hc
    rw [hp x y px py] at h1
    rw [hp y z py pz] at h2
    rw [hp x z px pz]; exact hq.lt_trans x y z px py pz h1 h2

theorem ratCmp_lt_iff (a b : Rat) : ratCmp a b = .lt ↔ a < b := by
  unfold ratCmp
  by_cases h : a < b
  · simp [h]
  · by_cases h2 : a = b <;> simp [h, h2]

theorem ratCmp_eq_iff (a b : Rat) : ratCmp a b = .eq ↔ a = b := by
  unfold ratCmp
  by_cases h : a < b
  · have h2 : a ≠ b := Rat.ne_of_lt h
    simp [h, h2]
  · by_cases h2 : a = b <;> simp [h, h2]

theorem ratCmp_swap (a b : Rat) : ratCmp b a = (ratCmp a b).swap := by
  unfold ratCmp
  by_cases h : a < b
  · have h1 : ¬ b < a := Rat.not_lt.2 (Rat.le_of_lt h)
    have h2 : b ≠ a := fun e => Rat.ne_of_lt h e.symm
    simp [h, h1, h2]
  · by_cases h2 : a = b
    · subst h2; simp [h]
    · have h3 : b < a := Rat.lt_of_le_of_ne (Rat.not_lt.1 h) (fun e => h2 e.symm)
      simp [h, h2, h3]

theorem rat_lt_trans {a b c : Rat} (h1 : a < b) (h2 : b < c) : a < c := by
  refine Rat.lt_of_le_of_ne (Rat.le_trans (Rat.le_of_lt h1) (Rat.le_of_lt h2)) ?_
  intro e; subst e
  exact Rat.ne_of_lt h1 (Rat.le_antisymm (Rat.le_of_lt h1) (Rat.le_of_lt h2))


/-- `f32/f64::partial_cmp` is a total order on the non-NaN value classes -/
theorem fvPcmp_porder : POrder (fun v : FV => v ≠ .nan) fvPcmp where
  total a b ha hb := by
    cases a <;> cases b <;> simp_all [fvPcmp]
  swap a b o ha hb h := by
    cases a with
    | nan => exact absurd rfl ha
    | fin p =>
      cases b with
      | nan => exact absurd rfl hb
      | fin q => simp only [fvPcmp, Option.some.injEq] at h ⊢; rw [← h, ratCmp_swap p q]
      | inf n => cases n <;> (cases h; rfl)
    | inf m =>
      cases b with
      | nan => exact absurd rfl hb
      | fin q => cases m <;> (cases h; rfl)
      | inf n => cases m <;> cases n <;> (cases h; rfl)
  eq_iff a b ha hb := by
    cases a with
    | nan => exact absurd rfl ha
    | fin p =>
      cases b with
      | nan => exact absurd rfl hb
      | fin q => simp only [fvPcmp, Option.some.injEq, FV.fin.injEq]; exact ratCmp_eq_iff p q
      | inf n => cases n <;> simp [fvPcmp]
    | inf m =>
      cases b with
      | nan => exact absurd rfl hb
      | fin q => cases m <;> simp [fvPcmp]
      | inf n => cases m <;> cases n <;> simp [fvPcmp]
  lt_trans a b c ha hb hc h1 h2 := by
    cases a with
    | nan => exact absurd rfl ha
    | fin p =>
      cases b with
      | nan => exact absurd rfl hb
      | fin q =>
        cases c with
        | nan => exact absurd rfl hc
        | fin r =>
          simp only [fvPcmp, Option.some.injEq] at h1 h2 ⊢
          exact (ratCmp_lt_iff p r).2 (rat_lt_trans ((ratCmp_lt_iff p q).1 h1) ((ratCmp_lt_iff q r).1 h2))
        | inf k => cases k <;> simp_all [fvPcmp]
      | inf n =>
        cases c with
        | nan => exact absurd rfl hc
        | fin r => cases n <;> simp_all [fvPcmp]
        | inf k => cases n <;> cases k <;> simp_all [fvPcmp]
    | inf m =>
      cases b with
      | nan => exact absurd rfl hb
      | fin q =>
        cases c with
        | nan => exact absurd rfl hc
        | fin r => cases m <;> simp_all [fvPcmp]
        | inf k => cases m <;> cases k <;> simp_all [fvPcmp]
      | inf n =>
        cases c with
        | nan => exact absurd rfl hc
        | fin r => cases m <;> cases n <;> simp_all [fvPcmp]
        | inf k => cases m <;> cases n <;> cases k <;> simp_all [fvPcmp]

/-- the valid inner values of a base type: well-typed and not the null -/
def Valid (b : Base) (v : Val) : Prop := ValOf b v ∧ isNoneOf b v = false

attribute [local instance] lexOrd in
theorem compare_pair (x y : Int × Int) :
    compare x y = if x.1 != y.1 then compare x.1 y.1 else compare x.2 y.2 := by
  show compareLex (compareOn (·.1)) (compareOn (·.2)) x y = _
  simp only [compareLex, compareOn]
  by_cases h : x.1 = y.1
  · simp [h, Std.ReflOrd.compare_self]
  · have : compare x.1 y.1 ≠ .eq := fun e => h (Std.LawfulEqOrd.compare_eq_iff_eq.1 e)
    simp only [bne_iff_ne, ne_eq, h, not_false_eq_true, if_true]
    cases hc : compare x.1 y.1 <;> simp_all [Ordering.then]

attribute [local instance] lexOrd in
/-- **`Inner::partial_cmp` is a total order on the valid values of every base type** -/
theorem pcmpVal_porder (b : Base) : POrder (Valid b) pcmpVal := by
  have hint : ∀ (V : Val → Prop), (∀ v, V v → ∃ i, v = .int i) → POrder V pcmpVal := fun V hV =>
    POrder.embed (POrder.ofOrd (β := Int)) Val.int (fun _ _ h => by cases h; rfl)
      (fun v hv => by obtain ⟨i, rfl⟩ := hV v hv; exact ⟨i, trivial, rfl⟩) (fun _ _ _ _ => rfl)
  have hstr : ∀ (V : Val → Prop), (∀ v, V v → ∃ i, v = .str i) → POrder V pcmpVal := fun V hV =>
    POrder.embed (POrder.ofOrd (β := String)) Val.str (fun _ _ h => by cases h; rfl)
      (fun v hv => by obtain ⟨i, rfl⟩ := hV v hv; exact ⟨i, trivial, rfl⟩) (fun _ _ _ _ => rfl)
  have hflt : ∀ (V : Val → Prop), (∀ v, V v → ∃ x, x ≠ FV.nan ∧ v = .flt x) → POrder V pcmpVal := fun V hV =>
    POrder.embed fvPcmp_porder Val.flt (fun _ _ h => by cases h; rfl) hV (fun _ _ _ _ => rfl)
  cases b
  case f32 =>
    exact hflt _ fun v hv => by
      obtain ⟨h1, h2⟩ := hv
      cases v <;> simp [ValOf] at h1
      rename_i x; refine ⟨x, ?_, rfl⟩; rintro rfl; simp [isNoneOf, reprOf, floatRepr, isNanV] at h2
  case f64 =>
    exact hflt _ fun v hv => by
      obtain ⟨h1, h2⟩ := hv
      cases v <;> simp [ValOf] at h1
      rename_i x; refine ⟨x, ?_, rfl⟩; rintro rfl; simp [isNoneOf, reprOf, floatRepr, isNanV] at h2
  case str => exact hstr _ fun v hv => by cases v <;> simp [Valid, ValOf] at hv; exact ⟨_, rfl⟩
  case sref => exact hstr _ fun v hv => by cases v <;> simp [Valid, ValOf] at hv; exact ⟨_, rfl⟩
  case bool =>
    exact POrder.embed (POrder.ofOrd (β := Bool)) Val.bool (fun _ _ h => by cases h; rfl)
      (fun v hv => by cases v <;> simp [Valid, ValOf] at hv; exact ⟨_, trivial, rfl⟩) (fun _ _ _ _ => rfl)
  case td =>
    refine POrder.embed (P := fun x : Int × Int => x.1 ≠ i32Min) (q := fun x y => some (compare x y))
      ?_ (fun x => Val.td x.1 x.2) (fun x y h => by cases x; cases y; cases h; rfl) ?_ ?_
    · have h := POrder.ofOrd (β := Int × Int)
      exact ⟨fun a b _ _ => h.total a b trivial trivial, fun a b o _ _ => h.swap a b o trivial trivial,
        fun a b _ _ => h.eq_iff a b trivial trivial, fun a b c _ _ _ => h.lt_trans a b c trivial trivial trivial⟩
    · intro v hv
      obtain ⟨h1, h2⟩ := hv
      cases v <;> simp [ValOf] at h1
      rename_i m n
      refine ⟨(m, n), ?_, rfl⟩
      intro e; simp only at e; subst e
      simp [isNoneOf, reprOf, tdRepr, timeRepr, isNatV] at h2
    · intro x y hx _
      have : (x.1 == i32Min) = false := by simpa using hx
      simp only [pcmpVal, this, Bool.false_eq_true, if_false, compare_pair]
      split <;> rfl
  all_goals exact hint _ fun v hv => by cases v <;> simp [Valid, ValOf] at hv; exact ⟨_, rfl⟩

/-- what the comparator theorems need of an instance `R` with canonical values `C` -/
structure OrdSetup (R : NullRepr α ι) (pcmp : ι → ι → Option Ordering) (C : α → Prop) (V : ι → Prop) : Prop where
  porder : POrder V pcmp
  valid : ∀ a v, C a → R.asOpt a = some v → V v
  inj : ∀ a b, C a → C b → R.asOpt a = R.asOpt b → a = b
  null_iff : ∀ a, R.isNone a = (R.asOpt a).isNone

theorem OrdSetup.ov {R : NullRepr α ι} {pcmp : ι → ι → Option Ordering} {C : α → Prop} {V : ι → Prop}
    (S : OrdSetup R pcmp C V) (a : α) (ha : C a) : OV V (R.asOpt a) := by
  cases h : R.asOpt a with
  | none => trivial
  | some v => exact S.valid a v ha h

theorem reprOf_asOpt (b : Base) (a : Val) :
    (reprOf b).asOpt a = if isNoneOf b a then none else some a := by
  cases b <;> simp only [reprOf, isNoneOf, floatRepr, neverRepr, strRepr, timeRepr, tdRepr] <;>
    first | rfl | (split <;> rfl) | simp

theorem reprOf_null_iff (b : Base) (a : Val) : (reprOf b).isNone a = ((reprOf b).asOpt a).isNone := by
  rw [reprOf_asOpt]; unfold isNoneOf
  cases (reprOf b).isNone a <;> simp

/-- a typed value of base `b` that is null is *the* null of `b` -/
theorem null_unique (b : Base) (x y : Val) (hx : ValOf b x) (hy : ValOf b y)
    (nx : isNoneOf b x = true) (ny : isNoneOf b y = true) : x = y := by
  cases b <;> cases x <;> cases y <;>
    simp_all [ValOf, isNoneOf, reprOf, floatRepr, neverRepr, strRepr, timeRepr, tdRepr, isNanV, isNoneStr, isNatV,
      i64Min, i32Min]
  all_goals (rename_i u w; cases u <;> cases w <;> simp_all)


end Tv.C15
