import Tv.Spec.C09Len
import Mathlib.Algebra.Order.Field.Rat
import Mathlib.Tactic.Linarith
import Mathlib.Tactic.Positivity
import Mathlib.Tactic.FieldSimp
/-!
  C09 helper: the `ceil` formula of `range` (tea-core/src/linspace.rs) counts exactly the points
  `a, a+s, a+2s, ...` that lie strictly before `b` (the search of `rangeCount` in the specification).
-/
namespace Tv.C09

theorem count_lt_range (N k : Nat) : ((List.range N).filter (fun i => decide (i < k))).length = min N k := by
  induction N with
  | zero => simp
  | succ n ih =>
    rw [List.range_succ, List.filter_append, List.length_append, ih]
    by_cases h : n < k
    · simp [h]; omega
    · simp [h]; omega

theorem lt_ceil_iff (q : Rat) (i : Int) : i < q.ceil ↔ (i : Rat) < q := by
  have := @Rat.ceil_le_iff q i
  constructor
  · intro h; by_contra hc; exact absurd (this.mpr (not_lt.mp hc)) (not_le.mpr h)
  · intro h; by_contra hc; exact absurd (this.mp (not_lt.mp hc)) (not_le.mpr h)

theorem pos_step (a b s : Int) (hs : s > 0) (i : Nat) :
    (a + (i:Int) * s < b) ↔ ((i:Int) : Rat) < ((b:Rat) - a) / s := by
  have hs' : (0:Rat) < s := by exact_mod_cast hs
  rw [lt_div_iff₀ hs']
  constructor
  · intro h; have : ((a + (i:Int) * s : Int) : Rat) < b := by exact_mod_cast h
    push_cast at this ⊢; linarith
  · intro h; have : ((a + (i:Int) * s : Int) : Rat) < b := by push_cast at h ⊢; linarith
    exact_mod_cast this

theorem neg_step (a b s : Int) (hs : s < 0) (i : Nat) :
    (a + (i:Int) * s > b) ↔ ((i:Int) : Rat) < ((b:Rat) - a) / s := by
  have hs' : (s:Rat) < 0 := by exact_mod_cast hs
  rw [lt_div_iff_of_neg hs']
  constructor
  · intro h; have : ((a + (i:Int) * s : Int) : Rat) > b := by exact_mod_cast h
    push_cast at this ⊢; linarith
  · intro h; have : ((a + (i:Int) * s : Int) : Rat) > b := by push_cast at h ⊢; linarith
    exact_mod_cast this

/-- the `ceil` of linspace.rs and the search of the specification count the same points -/
theorem range_count (a b s : Int) (hs : s ≠ 0) :
    ((((b : Rat) - a) / s).ceil).toNat = rangeCount a b s := by
  unfold rangeCount
  set q : Rat := ((b : Rat) - a) / s with hq
  have key : ∀ i : Nat, (if s > 0 then decide (a + (i : Int) * s < b) else if s < 0 then decide (a + (i : Int) * s > b) else false)
      = decide (i < q.ceil.toNat) := by
    intro i
    have h1 : (i < q.ceil.toNat) ↔ ((i : Int) < q.ceil) := by omega
    rcases lt_or_gt_of_ne hs with hneg | hpos
    · have : ¬ s > 0 := by omega
      simp only [this, if_false, hneg, if_true]
      rw [decide_eq_decide, h1, lt_ceil_iff, hq]; exact neg_step a b s hneg i
    · simp only [hpos, if_true]
      rw [decide_eq_decide, h1, lt_ceil_iff, hq]; exact pos_step a b s hpos i
  simp only [key]
  rw [count_lt_range]
  -- q ≤ |b - a|
  have hb : q.ceil ≤ ((b - a).natAbs : Int) := by
    rw [Rat.ceil_le_iff]
    have habs : ((b:Rat) - a) ≤ |(b:Rat) - a| := le_abs_self _
    have hcast : (((b - a).natAbs : Int) : Rat) = |(b:Rat) - a| := by
      rw [Int.natCast_natAbs]; push_cast; rfl
    rw [hcast, hq]
    rcases lt_or_gt_of_ne hs with hneg | hpos
    · have hs' : (s:Rat) ≤ -1 := by exact_mod_cast (show s ≤ -1 by omega)
      rw [div_le_iff_of_neg (by linarith)]
      have := neg_abs_le ((b:Rat) - a)
      have h0 := abs_nonneg ((b:Rat) - a)
      nlinarith
    · have hs' : (1:Rat) ≤ s := by exact_mod_cast (show 1 ≤ s by omega)
      rw [div_le_iff₀ (by linarith)]
      have h0 := abs_nonneg ((b:Rat) - a)
      nlinarith
  omega
end Tv.C09
