import Mathlib.Algebra.Order.Field.Rat
import Mathlib.Tactic.Linarith
import Mathlib.Tactic.FieldSimp
import Mathlib.Tactic.Ring
import Tv.Model.C20
import Tv.Lemmas.C20Rank
/-!
  Helper lemmas for C20 / `winsorize`: the bounds produced by the Quantile and the Median method
  are ordered. Ingredients: the insertion sort is a sorted permutation, `⌊h⌋ ≤ h ≤ ⌈h⌉ ≤ ⌊h⌋ + 1`,
  and `vquantile` is the piecewise-linear interpolation of the sorted valid values at the
  fractional index `(n-1)·q` (ascending order for `q ≤ ½`, descending order at the mirrored index
  otherwise).
-/
namespace Tv.C20
open Tv

/-! ### the insertion sort -/

theorem mem_insertAsc (a x : Rat) (l : List Rat) : x ∈ insertAsc a l ↔ x = a ∨ x ∈ l := by
  induction l with
  | nil => simp [insertAsc]
  | cons b t ih =>
    unfold insertAsc
    split
    · simp
    · simp only [List.mem_cons, ih]
      constructor
      · rintro (h | h | h)
        · exact Or.inr (Or.inl h)
        · exact Or.inl h
        · exact Or.inr (Or.inr h)
      · rintro (h | h | h)
        · exact Or.inr (Or.inl h)
        · exact Or.inl h
        · exact Or.inr (Or.inr h)

theorem mem_sortAsc (x : Rat) (l : List Rat) : x ∈ sortAsc l ↔ x ∈ l := by
  induction l with
  | nil => simp [sortAsc]
  | cons a t ih => simp [sortAsc, mem_insertAsc, ih]

theorem length_insertAsc (a : Rat) (l : List Rat) : (insertAsc a l).length = l.length + 1 := by
  induction l with
  | nil => simp [insertAsc]
  | cons b t ih => unfold insertAsc; split <;> simp [ih]

theorem length_sortAsc (l : List Rat) : (sortAsc l).length = l.length := by
  induction l with
  | nil => simp [sortAsc]
  | cons a t ih => simp [sortAsc, length_insertAsc, ih]

theorem pairwise_insertAsc (a : Rat) (l : List Rat) (h : l.Pairwise (· ≤ ·)) :
    (insertAsc a l).Pairwise (· ≤ ·) := by
  induction l with
  | nil => simp [insertAsc]
  | cons b t ih =>
    unfold insertAsc
    rw [List.pairwise_cons] at h
    split
    · rename_i hab
      rw [List.pairwise_cons]
      refine ⟨?_, List.pairwise_cons.mpr h⟩
      intro x hx
      rcases List.mem_cons.mp hx with e | e
      · rw [e]; exact hab
      · exact le_trans hab (h.1 x e)
    · rename_i hab
      rw [List.pairwise_cons]
      refine ⟨?_, ih h.2⟩
      intro x hx
      rcases (mem_insertAsc a x t).mp hx with e | e
      · rw [e]; exact le_of_lt (not_le.mp hab)
      · exact h.1 x e

theorem pairwise_sortAsc (l : List Rat) : (sortAsc l).Pairwise (· ≤ ·) := by
  induction l with
  | nil => simp [sortAsc]
  | cons a t ih => exact pairwise_insertAsc a _ ih

/-- sortedness, phrased on `getElem?` -/
def SortedOpt (s : List Rat) : Prop :=
  ∀ (a b : Nat) (x y : Rat), a ≤ b → s[a]? = some x → s[b]? = some y → x ≤ y

theorem sortedOpt_of_pairwise (s : List Rat) (h : s.Pairwise (· ≤ ·)) : SortedOpt s := by
  intro a b x y hab hx hy
  rcases Nat.lt_or_eq_of_le hab with hlt | heq
  · obtain ⟨ha, rfl⟩ := List.getElem?_eq_some_iff.mp hx
    obtain ⟨hb, rfl⟩ := List.getElem?_eq_some_iff.mp hy
    exact List.pairwise_iff_getElem.mp h a b ha hb hlt
  · subst heq
    rw [hx] at hy; cases hy; exact le_refl _

theorem sortedOpt_sortAsc (l : List Rat) : SortedOpt (sortAsc l) :=
  sortedOpt_of_pairwise _ (pairwise_sortAsc l)

/-! ### floor and ceiling of a non-negative fractional index -/

theorem idx_facts (h : Rat) (h0 : 0 ≤ h) :
    ((h.floor.toNat : Nat) : Rat) ≤ h ∧
    (h.ceil.toNat = h.floor.toNat ∨
      (h.ceil.toNat = h.floor.toNat + 1 ∧ ((h.floor.toNat : Nat) : Rat) < h ∧
        h < ((h.floor.toNat : Nat) : Rat) + 1)) := by
  have hf0 : 0 ≤ h.floor := Rat.le_floor_iff.mpr (by simpa using h0)
  have hfl : (h.floor : Rat) ≤ h := Rat.floor_le h
  have hfl1 : h < (h.floor : Rat) + 1 := by
    have := Rat.lt_floor_add_one h
    push_cast at this
    exact this
  have hcl : h ≤ (h.ceil : Rat) := Rat.le_ceil
  have hcl1 : (h.ceil : Rat) < h + 1 := Rat.ceil_lt
  have hfc : h.floor ≤ h.ceil := by
    have : (h.floor : Rat) ≤ (h.ceil : Rat) := le_trans hfl hcl
    exact_mod_cast this
  have hcf : h.ceil ≤ h.floor + 1 := by
    have : (h.ceil : Rat) < ((h.floor + 1 + 1 : Int) : Rat) := by push_cast; linarith
    have : h.ceil < h.floor + 1 + 1 := by exact_mod_cast this
    omega
  have hcast : ((h.floor.toNat : Nat) : Rat) = (h.floor : Rat) := by
    have : ((h.floor.toNat : Nat) : Int) = h.floor := Int.toNat_of_nonneg hf0
    exact_mod_cast congrArg (fun z : Int => (z : Rat)) this
  refine ⟨by rw [hcast]; exact hfl, ?_⟩
  rcases Int.lt_or_eq_of_le hfc with hlt | heq
  · right
    have hce : h.ceil = h.floor + 1 := by omega
    refine ⟨by omega, ?_, by rw [hcast]; exact hfl1⟩
    rw [hcast]
    rcases lt_or_eq_of_le hfl with g | g
    · exact g
    · exfalso
      have : h.ceil ≤ h.floor := Rat.ceil_le_iff.mpr (le_of_eq g.symm)
      omega
  · left; rw [heq]

/-! ### piecewise-linear interpolation at a fractional index -/

/-- value of the sorted sequence `s` at the fractional index `h` (linear between neighbours) -/
def interpAt (s : List Rat) (h : Rat) : Option Rat :=
  let i := h.floor.toNat
  let j := h.ceil.toNat
  if i = j then s[j]?
  else match s[i]?, s[j]? with
    | some vi, some vj => some (vi + (vj - vi) * (h - (i : Rat)))
    | _, _ => none

/-- `vquantile` is `interpAt` of the ascending order at `(n-1) q` for `q ≤ ½`, of the descending
order at `(n-1)(1-q)` otherwise -/
theorem vquantile_eq_interp (xs : List (Option Rat)) (q : Rat) (hq0 : 0 ≤ q) (hq1 : q ≤ 1)
    (hn : 2 ≤ (valid xs).length) :
    vquantile xs q =
      if q ≤ 1 / 2 then interpAt (sortAsc (valid xs)) ((((valid xs).length - 1 : Nat) : Rat) * q)
      else interpAt (sortAsc (valid xs)).reverse ((((valid xs).length - 1 : Nat) : Rat) * (1 - q)) := by
  have hlen1 : (0 : Rat) < (((valid xs).length - 1 : Nat) : Rat) := by
    have : 0 < (valid xs).length - 1 := by omega
    exact_mod_cast this
  -- the common shape of both branches
  have key : ∀ (s : List Rat) (q' : Rat), 0 ≤ q' →
      (let len1 : Rat := (((valid xs).length - 1 : Nat) : Rat)
       let qIdx := len1 * q'
       let i := qIdx.floor.toNat
       let j := qIdx.ceil.toNat
       if i = j then s[j]?
       else match s[i]?, s[j]? with
         | some vi, some vj =>
           some (vi + (vj - vi) * ((q' - (i : Rat) / len1) / ((j : Rat) / len1 - (i : Rat) / len1)))
         | _, _ => none) = interpAt s ((((valid xs).length - 1 : Nat) : Rat) * q') := by
    intro s q' hq'
    simp only [interpAt]
    have h0 : 0 ≤ (((valid xs).length - 1 : Nat) : Rat) * q' := mul_nonneg (le_of_lt hlen1) hq'
    obtain ⟨_, hj⟩ := idx_facts _ h0
    split
    · rfl
    · rename_i hne
      rcases hj with hj | ⟨hj, _, _⟩
      · exact absurd hj.symm hne
      · cases s[((((valid xs).length - 1 : Nat) : Rat) * q').floor.toNat]? with
        | none => rfl
        | some vi =>
          cases s[((((valid xs).length - 1 : Nat) : Rat) * q').ceil.toNat]? with
          | none => rfl
          | some vj =>
            simp only [Option.some.injEq]
            rw [hj]
            congr 1
            push_cast
            field_simp
            ring
  unfold vquantile
  have hne0 : (valid xs).length ≠ 0 := by omega
  have hne1 : (valid xs).length ≠ 1 := by omega
  simp only [hne0, hne1, if_false]
  by_cases hq : q ≤ 1 / 2
  · simp only [hq, if_true]
    exact key _ q hq0
  · simp only [hq, if_false]
    exact key _ (1 - q) (by linarith)

/-- an interpolated value of non-negative data is non-negative -/
theorem interpAt_nonneg (s : List Rat) (h r : Rat) (h0 : 0 ≤ h) (hs : ∀ v ∈ s, 0 ≤ v)
    (hr : interpAt s h = some r) : 0 ≤ r := by
  unfold interpAt at hr
  simp only [] at hr
  obtain ⟨hi, hj⟩ := idx_facts h h0
  split at hr
  · exact hs r (List.mem_of_getElem? hr)
  · rename_i hne
    rcases hj with hj | ⟨_, hlt, hlt1⟩
    · exact absurd hj.symm hne
    · cases hvi : s[h.floor.toNat]? with
      | none => simp [hvi] at hr
      | some vi =>
        cases hvj : s[h.ceil.toNat]? with
        | none => simp [hvi, hvj] at hr
        | some vj =>
          simp only [hvi, hvj, Option.some.injEq] at hr
          have h1 := hs vi (List.mem_of_getElem? hvi)
          have h2 := hs vj (List.mem_of_getElem? hvj)
          rw [← hr]
          have e : vi + (vj - vi) * (h - ((h.floor.toNat : Nat) : Rat)) =
              vi * (1 - (h - ((h.floor.toNat : Nat) : Rat))) + vj * (h - ((h.floor.toNat : Nat) : Rat)) := by
            ring
          rw [e]
          exact add_nonneg (mul_nonneg h1 (by linarith)) (mul_nonneg h2 (by linarith))

/-- **mirror inequality**: for an ascending `s` and a fractional index in the lower half,
the value at `h` from the left is at most the value at `h` from the right -/
theorem interpAt_le_reverse (s : List Rat) (h lo hi : Rat) (hsorted : SortedOpt s)
    (h0 : 0 ≤ h) (hhalf : 2 * h ≤ (s.length : Rat) - 1)
    (hlo : interpAt s h = some lo) (hhi : interpAt s.reverse h = some hi) : lo ≤ hi := by
  unfold interpAt at hlo hhi
  simp only [] at hlo hhi
  obtain ⟨hi0, hj⟩ := idx_facts h h0
  rcases hj with hj | ⟨hj, hlt, hlt1⟩
  · -- integer index
    rw [if_pos hj.symm] at hlo hhi
    rw [hj] at hlo hhi
    have hin : h.floor.toNat < s.length := (List.getElem?_eq_some_iff.mp hlo).1
    rw [List.getElem?_reverse hin] at hhi
    refine hsorted _ _ _ _ ?_ hlo hhi
    have : (2 * (h.floor.toNat : Nat) + 1 : Rat) ≤ (s.length : Rat) := by linarith
    have : 2 * h.floor.toNat + 1 ≤ s.length := by exact_mod_cast this
    omega
  · have hne : ¬ h.floor.toNat = h.ceil.toNat := by omega
    rw [if_neg hne] at hlo hhi
    rw [hj] at hlo hhi
    cases hvi : s[h.floor.toNat]? with
    | none => simp [hvi] at hlo
    | some vi =>
      cases hvj : s[h.floor.toNat + 1]? with
      | none => simp [hvi, hvj] at hlo
      | some vj =>
        simp only [hvi, hvj, Option.some.injEq] at hlo
        have hin : h.floor.toNat + 1 < s.length := (List.getElem?_eq_some_iff.mp hvj).1
        rw [List.getElem?_reverse (by omega), List.getElem?_reverse hin] at hhi
        cases hwi : s[s.length - 1 - h.floor.toNat]? with
        | none => simp [hwi] at hhi
        | some wi =>
          cases hwj : s[s.length - 1 - (h.floor.toNat + 1)]? with
          | none => simp [hwi, hwj] at hhi
          | some wj =>
            simp only [hwi, hwj, Option.some.injEq] at hhi
            rw [← hlo, ← hhi]
            have hvv : vi ≤ vj := hsorted _ _ _ _ (by omega) hvi hvj
            have hww : wj ≤ wi := hsorted _ _ _ _ (by omega) hwj hwi
            have h2i : 2 * h.floor.toNat + 2 ≤ s.length := by
              have : (2 * (h.floor.toNat : Nat) + 1 : Rat) < (s.length : Rat) := by linarith
              have : 2 * h.floor.toNat + 1 < s.length := by exact_mod_cast this
              omega
            rcases Nat.lt_or_eq_of_le h2i with hlt2 | heq2
            · -- the two segments are disjoint: lo ≤ vj ≤ wj ≤ hi
              have hmid : vj ≤ wj := hsorted _ _ _ _ (by omega) hvj hwj
              have ht0 : 0 ≤ h - ((h.floor.toNat : Nat) : Rat) := by linarith
              have ht1 : h - ((h.floor.toNat : Nat) : Rat) ≤ 1 := by linarith
              nlinarith [mul_nonneg (sub_nonneg.mpr hvv) (sub_nonneg.mpr ht1),
                mul_nonneg (sub_nonneg.mpr hww) (sub_nonneg.mpr ht1)]
            · -- the middle segment, traversed from both ends: t ≤ ½
              have e1 : s.length - 1 - h.floor.toNat = h.floor.toNat + 1 := by omega
              have e2 : s.length - 1 - (h.floor.toNat + 1) = h.floor.toNat := by omega
              rw [e1, hvj] at hwi
              rw [e2, hvi] at hwj
              cases hwi; cases hwj
              have hlen : (s.length : Rat) = 2 * ((h.floor.toNat : Nat) : Rat) + 2 := by
                exact_mod_cast heq2.symm
              have ht : 2 * (h - ((h.floor.toNat : Nat) : Rat)) ≤ 1 := by linarith
              nlinarith [mul_nonneg (sub_nonneg.mpr hvv) (sub_nonneg.mpr ht)]

/-! ### consequences for `vquantile` -/

theorem len1_cast (n : Nat) (hn : 1 ≤ n) : ((n - 1 : Nat) : Rat) = (n : Rat) - 1 := by
  rw [Nat.cast_sub hn]; simp

/-- a quantile of non-negative data is non-negative -/
theorem vquantile_nonneg (xs : List (Option Rat)) (q r : Rat) (hq0 : 0 ≤ q) (hq1 : q ≤ 1)
    (hs : ∀ v ∈ valid xs, 0 ≤ v) (hr : vquantile xs q = some r) : 0 ≤ r := by
  rcases Nat.lt_or_ge (valid xs).length 2 with hn | hn
  · unfold vquantile at hr
    simp only [] at hr
    by_cases h0 : (valid xs).length = 0
    · simp [h0] at hr
    · have h1 : (valid xs).length = 1 := by omega
      simp only [h1, if_true] at hr
      exact hs r (List.mem_of_getElem? hr)
  · rw [vquantile_eq_interp xs q hq0 hq1 hn] at hr
    have hlen1 : (0 : Rat) ≤ (((valid xs).length - 1 : Nat) : Rat) := Nat.cast_nonneg _
    split at hr
    · exact interpAt_nonneg _ _ r (mul_nonneg hlen1 hq0)
        (fun v hv => hs v ((mem_sortAsc v _).mp hv)) hr
    · exact interpAt_nonneg _ _ r (mul_nonneg hlen1 (by linarith))
        (fun v hv => hs v ((mem_sortAsc v _).mp (List.mem_reverse.mp hv))) hr

/-- **`Q(q) ≤ Q(1-q)` for `0 ≤ q ≤ ½`** -/
theorem vquantile_le_mirror (xs : List (Option Rat)) (q lo hi : Rat) (hq0 : 0 ≤ q)
    (hq : q ≤ 1 / 2) (hlo : vquantile xs q = some lo) (hhi : vquantile xs (1 - q) = some hi) :
    lo ≤ hi := by
  rcases Nat.lt_or_ge (valid xs).length 2 with hn | hn
  · unfold vquantile at hlo hhi
    simp only [] at hlo hhi
    by_cases h0 : (valid xs).length = 0
    · simp [h0] at hlo
    · have h1 : (valid xs).length = 1 := by omega
      simp only [h1, if_true] at hlo hhi
      rw [hlo] at hhi; cases hhi; exact le_refl _
  · rw [vquantile_eq_interp xs q hq0 (by linarith) hn, if_pos hq] at hlo
    rw [vquantile_eq_interp xs (1 - q) (by linarith) (by linarith) hn] at hhi
    by_cases hq2 : 1 - q ≤ 1 / 2
    · have : q = 1 / 2 := by linarith
      rw [if_pos hq2] at hhi
      have e : (1 : Rat) - q = q := by rw [this]; norm_num
      rw [e, hlo] at hhi; cases hhi; exact le_refl _
    · rw [if_neg hq2, sub_sub_cancel] at hhi
      have hlen1 : (0 : Rat) ≤ (((valid xs).length - 1 : Nat) : Rat) := Nat.cast_nonneg _
      apply interpAt_le_reverse (sortAsc (valid xs)) _ lo hi (sortedOpt_sortAsc _)
        (mul_nonneg hlen1 hq0) ?_ hlo hhi
      rw [length_sortAsc, ← len1_cast _ (by omega)]
      nlinarith

theorem absR_nonneg (x : Rat) : 0 ≤ absR x := by
  unfold absR
  split
  · linarith
  · linarith

end Tv.C20
