import Mathlib.Tactic.Ring
import Mathlib.Tactic.FieldSimp
import Mathlib.Tactic.Linarith
import Mathlib.Tactic.NormNum
import Mathlib.Tactic.LinearCombination
import Mathlib.Data.Rat.Defs
import Mathlib.Algebra.Order.Field.Rat
import Tv.Model.C04
import Tv.Spec.C04
/-!
  Algebra behind C04 (Mathlib `ring` / `field_simp` over `Rat`): power sums of lists, centred
  sums, the normal equations, the SSE identity, `Σk` and `Σk²`.
-/
namespace Tv.C04
open Tv Tv.Spec Tv.C04.Spec

/-! ### `Spec.sum` -/

@[simp] theorem sum_nil : sum [] = 0 := rfl
@[simp] theorem sum_cons (x : Rat) (l : List Rat) : sum (x :: l) = x + sum l := rfl

theorem sum_append (l r : List Rat) : sum (l ++ r) = sum l + sum r := by
  induction l with
  | nil => simp
  | cons x l ih => simp only [List.cons_append, sum_cons, ih]; ring

theorem sum_map_add (f g : α → Rat) (l : List α) :
    sum (l.map fun x => f x + g x) = sum (l.map f) + sum (l.map g) := by
  induction l with
  | nil => simp
  | cons x l ih => simp only [List.map_cons, sum_cons, ih]; ring

theorem sum_map_mul_left (c : Rat) (f : α → Rat) (l : List α) :
    sum (l.map fun x => c * f x) = c * sum (l.map f) := by
  induction l with
  | nil => simp
  | cons x l ih => simp only [List.map_cons, sum_cons, ih]; ring

theorem sum_map_const (c : Rat) (l : List α) : sum (l.map fun _ => c) = (l.length : Rat) * c := by
  induction l with
  | nil => simp
  | cons x l ih => simp only [List.map_cons, sum_cons, ih, List.length_cons]; push_cast; ring

/-- the left fold of the aggregates is the sum -/
theorem msum_eq (f : Rat → Rat) (l : List Rat) : msum f l = sum (l.map f) := by
  unfold msum
  suffices h : ∀ a : Rat, l.foldl (fun acc v => acc + f v) a = a + sum (l.map f) by
    simpa using h 0
  induction l with
  | nil => intro a; simp
  | cons x l ih => intro a; simp only [List.foldl_cons, List.map_cons, sum_cons, ih]; ring

/-! ### power sums of one list and centred sums -/

def p1 (l : List Rat) : Rat := sum l
def p2 (l : List Rat) : Rat := sum (l.map fun x => x * x)
def p3 (l : List Rat) : Rat := sum (l.map fun x => x * x * x)

theorem csum2_expand (c : Rat) (l : List Rat) :
    csum 2 c l = p2 l - 2 * c * p1 l + (l.length : Rat) * c * c := by
  unfold csum p2 p1
  induction l with
  | nil => simp
  | cons x l ih =>
    simp only [List.map_cons, sum_cons, List.length_cons] at *
    rw [ih]; push_cast; ring

theorem csum3_expand (c : Rat) (l : List Rat) :
    csum 3 c l = p3 l - 3 * c * p2 l + 3 * c * c * p1 l - (l.length : Rat) * c * c * c := by
  unfold csum p3 p2 p1
  induction l with
  | nil => simp
  | cons x l ih =>
    simp only [List.map_cons, sum_cons, List.length_cons] at *
    rw [ih]; push_cast; ring

/-- population variance, one-pass form = second central moment -/
theorem cmom2_closed (l : List Rat) (hn : l.length ≠ 0) :
    cmom 2 l = p2 l / (l.length : Rat) - (p1 l / (l.length : Rat)) * (p1 l / (l.length : Rat)) := by
  have hn' : (l.length : Rat) ≠ 0 := by exact_mod_cast hn
  unfold cmom mean
  rw [csum2_expand]
  unfold p1
  field_simp
  ring

/-- third central moment, one-pass form `ex3 - 3 mean var - mean³` -/
theorem cmom3_closed (l : List Rat) (hn : l.length ≠ 0) :
    cmom 3 l =
      p3 l / (l.length : Rat)
        - 3 * (p1 l / (l.length : Rat))
            * (p2 l / (l.length : Rat) - (p1 l / (l.length : Rat)) * (p1 l / (l.length : Rat)))
        - (p1 l / (l.length : Rat)) * (p1 l / (l.length : Rat)) * (p1 l / (l.length : Rat)) := by
  have hn' : (l.length : Rat) ≠ 0 := by exact_mod_cast hn
  unfold cmom mean
  rw [csum3_expand]
  unfold p1
  field_simp
  ring

/-! ### cross sums of a list of pairs `(y, x)` -/

def sA (l : List (Rat × Rat)) : Rat := sum (ys l)
def sB (l : List (Rat × Rat)) : Rat := sum (xs l)
def sAB (l : List (Rat × Rat)) : Rat := sum (l.map fun p => p.1 * p.2)
def sAA (l : List (Rat × Rat)) : Rat := sum (l.map fun p => p.1 * p.1)
def sBB (l : List (Rat × Rat)) : Rat := sum (l.map fun p => p.2 * p.2)

/-- the running sums a closure must hold when its window's complete pairs are `l` -/
@[reducible] def crossOf (l : List (Rat × Rat)) : Cross := ⟨l.length, sA l, sB l, sAB l, sAA l, sBB l⟩

@[simp] theorem ys_length (l : List (Rat × Rat)) : (ys l).length = l.length := by simp [ys]
@[simp] theorem xs_length (l : List (Rat × Rat)) : (xs l).length = l.length := by simp [xs]
theorem mean_ys (l : List (Rat × Rat)) : mean (ys l) = sA l / (l.length : Rat) := by
  unfold mean sA; rw [ys_length]
theorem mean_xs (l : List (Rat × Rat)) : mean (xs l) = sB l / (l.length : Rat) := by
  unfold mean sB; rw [xs_length]

theorem p1_ys (l : List (Rat × Rat)) : p1 (ys l) = sA l := rfl
theorem p1_xs (l : List (Rat × Rat)) : p1 (xs l) = sB l := rfl
theorem p2_ys (l : List (Rat × Rat)) : p2 (ys l) = sAA l := by
  unfold p2 ys sAA; rw [List.map_map]; rfl
theorem p2_xs (l : List (Rat × Rat)) : p2 (xs l) = sBB l := by
  unfold p2 xs sBB; rw [List.map_map]; rfl

/-- `Σ (y - c)(x - d) = Σxy - c Σx - d Σy + n c d` -/
theorem cross_expand (c d : Rat) (l : List (Rat × Rat)) :
    sum (l.map fun p => (p.1 - c) * (p.2 - d)) = sAB l - c * sB l - d * sA l + (l.length : Rat) * c * d := by
  unfold sAB sB sA ys xs
  induction l with
  | nil => simp
  | cons x l ih =>
    simp only [List.map_cons, sum_cons, List.length_cons] at *
    rw [ih]; push_cast; ring

/-- **cross_sum_centered**: `Σ(a - A/n)(b - B/n) = Σab - AB/n` -/
theorem cross_sum_centered (l : List (Rat × Rat)) (hn : l.length ≠ 0) :
    cxy l = sAB l - sA l * sB l / (l.length : Rat) := by
  have hn' : (l.length : Rat) ≠ 0 := by exact_mod_cast hn
  unfold cxy
  rw [cross_expand, mean_ys, mean_xs]
  field_simp
  ring

theorem cxx_closed (l : List (Rat × Rat)) (hn : l.length ≠ 0) :
    cxx l = sBB l - sB l * sB l / (l.length : Rat) := by
  have hn' : (l.length : Rat) ≠ 0 := by exact_mod_cast hn
  unfold cxx
  rw [csum2_expand, p2_xs, p1_xs, mean_xs, xs_length]
  field_simp
  ring

theorem cyy_closed (l : List (Rat × Rat)) (hn : l.length ≠ 0) :
    cyy l = sAA l - sA l * sA l / (l.length : Rat) := by
  have hn' : (l.length : Rat) ≠ 0 := by exact_mod_cast hn
  unfold cyy
  rw [csum2_expand, p2_ys, p1_ys, mean_ys, ys_length]
  field_simp
  ring

/-- `Σ (y - a - b x)² = Σy² - 2aΣy - 2bΣxy + n a² + 2ab Σx + b² Σx²` for every line `(a, b)` -/
theorem sse_expand (a b : Rat) (l : List (Rat × Rat)) :
    sum ((residualsOf a b l).map fun e => e * e)
      = sAA l - 2 * a * sA l - 2 * b * sAB l + (l.length : Rat) * a * a + 2 * a * b * sB l + b * b * sBB l := by
  unfold residualsOf sAA sA sAB sB sBB ys xs
  induction l with
  | nil => simp
  | cons x l ih =>
    simp only [List.map_cons, List.map_map, sum_cons, List.length_cons, Function.comp_def] at *
    rw [ih]; push_cast; ring

/-- sum of the residuals of a line -/
theorem resid_sum (a b : Rat) (l : List (Rat × Rat)) :
    sum (residualsOf a b l) = sA l - (l.length : Rat) * a - b * sB l := by
  unfold residualsOf sA sB ys xs
  induction l with
  | nil => simp
  | cons x l ih =>
    simp only [List.map_cons, sum_cons, List.length_cons] at *
    rw [ih]; push_cast; ring


/-! ### the closed forms on `crossOf l` are the textbook quantities -/

theorem crossOf_den (l : List (Rat × Rat)) (hn : l.length ≠ 0) :
    (crossOf l).den = (l.length : Rat) * cxx l := by
  have hn' : (l.length : Rat) ≠ 0 := by exact_mod_cast hn
  rw [cxx_closed l hn]
  unfold Cross.den crossOf
  simp only
  field_simp

theorem degenerate_iff (l : List (Rat × Rat)) : (crossOf l).degenerate ↔ undefinedReg l := by
  unfold Cross.degenerate undefinedReg
  by_cases hn : l.length = 0
  · simp [crossOf, hn]
  · have hn' : (l.length : Rat) ≠ 0 := by exact_mod_cast hn
    rw [crossOf_den l hn]
    simp [hn, hn']

/-- **normal_eq_beta**: `(n Σxy - Σx Σy)/(n Σx² - (Σx)²) = Σ(x-x̄)(y-ȳ)/Σ(x-x̄)²` -/
theorem normal_eq_beta (l : List (Rat × Rat)) (h : ¬ undefinedReg l) :
    (crossOf l).beta = beta l := by
  unfold undefinedReg at h
  have hn : l.length ≠ 0 := fun h0 => h (Or.inl h0)
  have hx : cxx l ≠ 0 := fun h0 => h (Or.inr h0)
  have hn' : (l.length : Rat) ≠ 0 := by exact_mod_cast hn
  unfold Cross.beta Spec.beta
  rw [crossOf_den l hn, cross_sum_centered l hn]
  simp only
  field_simp

/-- **normal_eq_alpha**: `(Σy - β Σx)/n = ȳ - β x̄` -/
theorem normal_eq_alpha (l : List (Rat × Rat)) (h : ¬ undefinedReg l) :
    (crossOf l).alpha = alpha l := by
  have hn : l.length ≠ 0 := fun h0 => h (Or.inl h0)
  have hn' : (l.length : Rat) ≠ 0 := by exact_mod_cast hn
  unfold Cross.alpha Spec.alpha
  rw [normal_eq_beta l h, mean_ys, mean_xs]
  simp only
  field_simp

/-- the two normal equations in terms of the running sums -/
theorem normal_equations (l : List (Rat × Rat)) (h : ¬ undefinedReg l) :
    (l.length : Rat) * alpha l + beta l * sB l = sA l ∧
    alpha l * sB l + beta l * sBB l = sAB l := by
  have hn : l.length ≠ 0 := fun h0 => h (Or.inl h0)
  have hx : cxx l ≠ 0 := fun h0 => h (Or.inr h0)
  have hn' : (l.length : Rat) ≠ 0 := by exact_mod_cast hn
  have hb : beta l * cxx l = cxy l := by unfold Spec.beta; field_simp
  rw [cxx_closed l hn, cross_sum_centered l hn] at hb
  have ha : alpha l = sA l / (l.length : Rat) - beta l * (sB l / (l.length : Rat)) := by
    unfold Spec.alpha; rw [mean_ys, mean_xs]
  constructor
  · rw [ha]; field_simp; ring
  · rw [ha]
    have hb' : beta l * ((l.length : Rat) * sBB l - sB l * sB l) = (l.length : Rat) * sAB l - sA l * sB l := by
      have e : beta l * ((l.length : Rat) * sBB l - sB l * sB l)
          = (l.length : Rat) * (beta l * (sBB l - sB l * sB l / (l.length : Rat))) := by field_simp
      rw [e, hb]; field_simp
    field_simp
    linarith

/-- **sse_identity**: under the normal equations `Σy² - αΣy - βΣxy = Σ(y - α - βx)²` -/
theorem sse_identity (l : List (Rat × Rat)) (h : ¬ undefinedReg l) :
    (crossOf l).sse = sse l := by
  obtain ⟨h1, h2⟩ := normal_equations l h
  unfold Cross.sse Spec.sse residuals
  rw [sse_expand, normal_eq_alpha l h, normal_eq_beta l h]
  simp only
  linear_combination (-(alpha l)) * h1 - (beta l) * h2

end Tv.C04
