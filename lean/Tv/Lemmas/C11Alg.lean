import Tv.Lemmas.C11Fold
import Mathlib.Tactic.Ring
import Mathlib.Tactic.FieldSimp
import Mathlib.Tactic.Linarith
import Mathlib.Tactic.Positivity
import Mathlib.Algebra.Order.Field.Rat
/-!
  C11 helper lemmas, part 2: closed-form algebra. The one-pass power-sum expressions of
  agg.rs / tea-agg equal the centred ("textbook") moments of `Tv/Spec/Stats.lean`.
-/
namespace Tv.C11
open Tv Tv.Spec

theorem csum_nil (k : Nat) (c : Rat) : csum k c [] = 0 := rfl
theorem csum_cons (k : Nat) (c x : Rat) (l : List Rat) :
    csum k c (x :: l) = (x - c) ^ k + csum k c l := rfl

theorem csum_perm (k : Nat) (c : Rat) {l₁ l₂ : List Rat} (h : l₁.Perm l₂) :
    csum k c l₁ = csum k c l₂ := sum_perm (h.map _)

theorem csum2_expand (c : Rat) (l : List Rat) :
    csum 2 c l = psum 2 l - 2 * c * psum 1 l + (l.length : Rat) * c ^ 2 := by
  induction l with
  | nil => simp [csum_nil, psum_nil]
  | cons x l ih => rw [csum_cons, ih, psum_cons, psum_cons, List.length_cons]; push_cast; ring

theorem csum3_expand (c : Rat) (l : List Rat) :
    csum 3 c l = psum 3 l - 3 * c * psum 2 l + 3 * c ^ 2 * psum 1 l - (l.length : Rat) * c ^ 3 := by
  induction l with
  | nil => simp [csum_nil, psum_nil]
  | cons x l ih =>
    rw [csum_cons, ih, psum_cons, psum_cons, psum_cons, List.length_cons]; push_cast; ring

theorem csum4_expand (c : Rat) (l : List Rat) :
    csum 4 c l = psum 4 l - 4 * c * psum 3 l + 6 * c ^ 2 * psum 2 l - 4 * c ^ 3 * psum 1 l
      + (l.length : Rat) * c ^ 4 := by
  induction l with
  | nil => simp [csum_nil, psum_nil]
  | cons x l ih =>
    rw [csum_cons, ih, psum_cons, psum_cons, psum_cons, psum_cons, List.length_cons]; push_cast; ring

theorem mean_eq_psum (l : List Rat) : Spec.mean l = psum 1 l / (l.length : Rat) := by
  rw [psum_one]; rfl

/-- `m2/n - (m1/n)^2` is the second central moment -/
theorem pvar_eq_cmom2 (l : List Rat) (hn : l.length ≠ 0) :
    psum 2 l / (l.length : Rat) - psum 1 l / (l.length : Rat) * (psum 1 l / (l.length : Rat))
      = cmom 2 l := by
  have h : (l.length : Rat) ≠ 0 := by exact_mod_cast hn
  unfold cmom
  rw [csum2_expand, mean_eq_psum]
  field_simp
  ring

/-- `Σ(x-mean)² = n · (m2/n - (m1/n)²)` -/
theorem csum2_eq_n_mul_cmom2 (l : List Rat) (hn : l.length ≠ 0) :
    csum 2 (Spec.mean l) l = cmom 2 l * (l.length : Rat) := by
  have h : (l.length : Rat) ≠ 0 := by exact_mod_cast hn
  unfold cmom
  field_simp

/-- `m3/n - 3·mean·var - mean³` is the third central moment -/
theorem c3_eq_cmom3 (l : List Rat) (hn : l.length ≠ 0) :
    psum 3 l / (l.length : Rat) - 3 * (psum 1 l / (l.length : Rat)) * cmom 2 l
        - psum 1 l / (l.length : Rat) * (psum 1 l / (l.length : Rat)) * (psum 1 l / (l.length : Rat))
      = cmom 3 l := by
  have h : (l.length : Rat) ≠ 0 := by exact_mod_cast hn
  unfold cmom
  rw [csum3_expand, csum2_expand, mean_eq_psum]
  field_simp
  ring

/-- `(m4 - 4·m1·m3)/var² + 6·m1²/var + 3·(m1²/var)²` is `μ4 / μ2²` -/
theorem kurt_res_eq (l : List Rat) (hn : l.length ≠ 0) (hv : cmom 2 l ≠ 0) :
    (psum 4 l / (l.length : Rat) - 4 * (psum 1 l / (l.length : Rat)) * (psum 3 l / (l.length : Rat)))
          / (cmom 2 l * cmom 2 l)
        + 6 * (psum 1 l / (l.length : Rat) * (psum 1 l / (l.length : Rat)) / cmom 2 l)
        + 3 * (psum 1 l / (l.length : Rat) * (psum 1 l / (l.length : Rat)) / cmom 2 l
              * (psum 1 l / (l.length : Rat) * (psum 1 l / (l.length : Rat)) / cmom 2 l))
      = cmom 4 l / (cmom 2 l * cmom 2 l) := by
  have h : (l.length : Rat) ≠ 0 := by exact_mod_cast hn
  have e2 := pvar_eq_cmom2 l hn
  have e4 : cmom 4 l = psum 4 l / (l.length : Rat)
      - 4 * (psum 1 l / (l.length : Rat)) * (psum 3 l / (l.length : Rat))
      + 6 * (psum 1 l / (l.length : Rat)) ^ 2 * (psum 2 l / (l.length : Rat))
      - 3 * (psum 1 l / (l.length : Rat)) ^ 4 := by
    unfold cmom
    rw [csum4_expand, mean_eq_psum]
    field_simp
    ring
  have e2' : psum 2 l / (l.length : Rat)
      = cmom 2 l + psum 1 l / (l.length : Rat) * (psum 1 l / (l.length : Rat)) := by
    rw [← e2]; ring
  rw [e4, e2']
  field_simp
  ring

end Tv.C11
