import Tv.Lemmas.C12Rank
import Mathlib.Tactic.LinearCombination
/-!
C12 helper lemmas, part 6: the run-length loop of `vrank` and its invariant.

`Inv i st` (top of iteration `i`): there is a run start `a ≤ i` and a value `v` such that the sorted
positions `a..=i` all hold `v`, nothing before `a` does, `repeat_num = i+1-a`, `cur_rank = i+1`,
`sum_rank = (a+1) + … + i`, no `break` has happened, and every position before `a` already holds its
final (specified) rank.
-/
set_option linter.unusedSimpArgs false
set_option linter.unusedVariables false
namespace Tv.C12
open Tv

/-- the specified rank of element `k` -/
def specAt (xs : List Elem) (pct rev : Bool) (k : Nat) : Out :=
  match xs.getD k none with
  | none => .null
  | some v => .val (Spec.avgRank xs pct rev v)

/-- slot `k` holds its specified rank -/
def Good (xs : List Elem) (pct rev : Bool) (out : List (Option Out)) (k : Nat) : Prop :=
  out[k]? = some (some (specAt xs pct rev k))

theorem specAt_of_W {xs : List Elem} {s : List Nat} {pct rev : Bool} {p : Nat} {v : Rat}
    (h : W xs s p = some v) : specAt xs pct rev (s.getD p 0) = .val (Spec.avgRank xs pct rev v) := by
  unfold specAt
  have : xs.getD (s.getD p 0) none = some v := h
  rw [this]

theorem specAt_of_W_none {xs : List Elem} {s : List Nat} {pct rev : Bool} {p : Nat}
    (h : W xs s p = none) : specAt xs pct rev (s.getD p 0) = .null := by
  unfold specAt
  have : xs.getD (s.getD p 0) none = none := h
  rw [this]

/-! ### the value written for a finished run -/

theorem run_value {xs : List Elem} {s : List Nat} {rev : Bool} (c : Ctx xs s rev) (pct : Bool)
    {a i sum : Nat} {v : Rat} (hai : a ≤ i) (hi : i < xs.length)
    (hrun : ∀ p, a ≤ p → p ≤ i → W xs s p = some v)
    (hbef : ∀ q, q < a → W xs s q ≠ some v)
    (haft : i + 1 < xs.length → W xs s (i + 1) ≠ some v)
    (hsum : 2 * sum = (i - a) * (a + i + 1)) :
    runVal pct (valid xs).length (sum + (i + 1)) (i + 1 - a) = .val (Spec.avgRank xs pct rev v) := by
  obtain ⟨hb, he⟩ := c.run_counts hai hi hrun hbef haft
  have hn : (valid xs).length ≠ 0 := by
    intro h0
    have := (c.W_none_iff hi).mpr (by omega)
    rw [hrun i hai (Nat.le_refl _)] at this
    cases this
  obtain ⟨d, rfl⟩ : ∃ d, i = a + d := ⟨i - a, by omega⟩
  have hrep : a + d + 1 - a = d + 1 := by omega
  have hd : a + d - a = d := by omega
  rw [hd] at hsum
  rw [hrep] at he ⊢
  have hsumQ : (2 : Rat) * (sum : Rat) = (d : Rat) * ((a : Rat) + ((a : Rat) + (d : Rat)) + 1) := by
    exact_mod_cast hsum
  have hd1 : ((d + 1 : Nat) : Rat) ≠ 0 := by positivity
  have hnQ : (((valid xs).length : Nat) : Rat) ≠ 0 := by exact_mod_cast hn
  unfold runVal Spec.avgRank
  have hbefore : (if rev then Spec.cntGt xs v else Spec.cntLt xs v) = a := hb
  simp only [hbefore, he]
  have hS : ((sum + (a + d + 1) : Nat) : Rat)
      = ((a : Rat) + (((d + 1 : Nat) : Rat) + 1) / 2) * ((d + 1 : Nat) : Rat) := by
    push_cast; linear_combination (1 / 2 : Rat) * hsumQ
  cases pct
  · have k1 : ((sum + (a + d + 1) : Nat) : Rat) / ((d + 1 : Nat) : Rat)
        = (a : Rat) + (((d + 1 : Nat) : Rat) + 1) / 2 := by
      rw [hS]; field_simp
    simp only [Bool.false_eq_true, if_false, Out.div, hd1]
    rw [k1]
  · have hden : (((d + 1) * (valid xs).length : Nat) : Rat) ≠ 0 := by
      rw [Nat.cast_mul]; exact mul_ne_zero hd1 hnQ
    have k2 : ((sum + (a + d + 1) : Nat) : Rat) / (((d + 1) * (valid xs).length : Nat) : Rat)
        = ((a : Rat) + (((d + 1 : Nat) : Rat) + 1) / 2) / (((valid xs).length : Nat) : Rat) := by
      rw [hS, Nat.cast_mul]; field_simp
    simp only [if_true, Out.div, hden, if_false]
    rw [k2]

theorem oneVal_eq (pct : Bool) (nn cur : Nat) : oneVal pct nn cur = runVal pct nn (0 + cur) 1 := by
  cases pct <;> simp [oneVal, runVal, Out.div]

/-! ### the invariant -/

def Inv (xs : List Elem) (s : List Nat) (pct rev : Bool) (i : Nat) (st : RankSt) : Prop :=
  ∃ a v, a ≤ i ∧ i < xs.length ∧ st.rep = i + 1 - a ∧ st.cur = i + 1 ∧
    2 * st.sum = (i - a) * (a + i + 1) ∧ st.nan = false ∧ st.out.length = xs.length ∧
    (∀ p, a ≤ p → p ≤ i → W xs s p = some v) ∧ (∀ q, q < a → W xs s q ≠ some v) ∧
    (∀ q, q < a → Good xs pct rev st.out (s.getD q 0))

def Post (xs : List Elem) (s : List Nat) (pct rev : Bool) (st : RankSt) : Prop :=
  st.out.length = xs.length ∧
  ((st.nan = false ∧ Inv xs s pct rev (xs.length - 1) st) ∨
   (st.nan = true ∧ st.idx = (valid xs).length ∧ (valid xs).length < xs.length ∧
     ∀ q, q < (valid xs).length → Good xs pct rev st.out (s.getD q 0)))

/-- after the slots of the run `a..=i` received the run's value, every position `≤ i` is final -/
theorem group_good {xs : List Elem} {s : List Nat} {rev : Bool} (c : Ctx xs s rev) (pct : Bool)
    {i a : Nat} {v : Rat} {st : RankSt} (hai : a ≤ i) (hi : i < xs.length)
    (hrep : st.rep = i + 1 - a) (hcur : st.cur = i + 1) (hsum : 2 * st.sum = (i - a) * (a + i + 1))
    (hrun : ∀ p, a ≤ p → p ≤ i → W xs s p = some v) (hbef : ∀ q, q < a → W xs s q ≠ some v)
    (hgood : ∀ q, q < a → Good xs pct rev st.out (s.getD q 0))
    (haft : i + 1 < xs.length → W xs s (i + 1) ≠ some v)
    (out' : List (Option Out))
    (hhit : ∀ p, a ≤ p → p ≤ i →
      out'[s.getD p 0]? = some (some (runVal pct (valid xs).length (st.sum + st.cur) st.rep)))
    (hmiss : ∀ k, (∀ p, a ≤ p → p ≤ i → s.getD p 0 ≠ k) → out'[k]? = st.out[k]?) :
    ∀ q, q < i + 1 → Good xs pct rev out' (s.getD q 0) := by
  intro q hq
  by_cases hqa : q < a
  · unfold Good
    rw [hmiss (s.getD q 0) (fun p hp1 hp2 he => by
      have := c.sI_inj (show p < xs.length by omega) (show q < xs.length by omega) he
      omega)]
    exact hgood q hqa
  · unfold Good
    rw [hhit q (by omega) (by omega), specAt_of_W (hrun q (by omega) (by omega)), hcur, hrep,
      run_value c pct hai hi hrun hbef haft hsum]

/-! ### the next states of one iteration -/

def stBreak (s : List Nat) (pct : Bool) (nn i : Nat) (st : RankSt) : RankSt :=
  { st with sum := st.sum + st.cur, cur := st.cur + 1,
            out := writeRun s st.out i (runVal pct nn (st.sum + st.cur) st.rep) st.rep,
            idx := i + 1, nan := true }

def stRepeat (s : List Nat) (i : Nat) (st : RankSt) : RankSt :=
  { st with rep := st.rep + 1, sum := st.sum + st.cur, cur := st.cur + 1, idx := s.getD i 0 }

def stOne (s : List Nat) (pct : Bool) (nn i : Nat) (st : RankSt) : RankSt :=
  { st with out := st.out.set (s.getD i 0) (some (oneVal pct nn st.cur)), cur := st.cur + 1,
            idx := s.getD i 0 }

def stGroup (s : List Nat) (pct : Bool) (nn i : Nat) (st : RankSt) : RankSt :=
  { st with out := writeRun s st.out i (runVal pct nn (st.sum + st.cur) st.rep) st.rep,
            sum := 0, rep := 1, cur := st.cur + 1, idx := s.getD i 0 }

theorem rankLoop_succ (xs : List Elem) (s : List Nat) (pct : Bool) (nn i k : Nat) (st : RankSt) :
    rankLoop xs s pct nn i (k + 1) st =
      if W xs s (i + 1) = none then stBreak s pct nn i st
      else if W xs s i = W xs s (i + 1) then rankLoop xs s pct nn (i + 1) k (stRepeat s i st)
      else if st.rep = 1 then rankLoop xs s pct nn (i + 1) k (stOne s pct nn i st)
      else rankLoop xs s pct nn (i + 1) k (stGroup s pct nn i st) := by
  rw [rankLoop]
  rfl

theorem writeRun_facts {xs : List Elem} {s : List Nat} {rev : Bool} (c : Ctx xs s rev)
    (out : List (Option Out)) (hlen : out.length = xs.length) (i a r : Nat) (val : Out)
    (hr : r = i + 1 - a) (hai : a ≤ i) (hi : i < xs.length) :
    (∀ p, a ≤ p → p ≤ i → (writeRun s out i val r)[s.getD p 0]? = some (some val)) ∧
    (∀ k, (∀ p, a ≤ p → p ≤ i → s.getD p 0 ≠ k) → (writeRun s out i val r)[k]? = out[k]?) := by
  subst hr
  constructor
  · intro p hp1 hp2
    have h := writeRun_hit s out i val (i + 1 - a) (i - p) (by omega)
      (by rw [hlen]; exact c.sI_lt (by omega))
    have e : i - (i - p) = p := by omega
    rwa [e] at h
  · intro k hk
    exact writeRun_miss s out i val _ k (fun r' hr' => hk (i - r') (by omega) (by omega))

/-! ### the loop -/

theorem rankLoop_spec {xs : List Elem} {s : List Nat} {rev : Bool} (c : Ctx xs s rev) (pct : Bool) :
    ∀ (k i : Nat) (st : RankSt), i + k = xs.length - 1 → Inv xs s pct rev i st →
      Post xs s pct rev (rankLoop xs s pct (valid xs).length i k st) := by
  intro k
  induction k with
  | zero =>
    intro i st hik hinv
    have hi : i = xs.length - 1 := by omega
    subst hi
    obtain ⟨a, v, hai, hi, hrep, hcur, hsum, hnan, hlen, hrun, hbef, hgood⟩ := hinv
    exact ⟨hlen, Or.inl ⟨hnan, a, v, hai, hi, hrep, hcur, hsum, hnan, hlen, hrun, hbef, hgood⟩⟩
  | succ k ih =>
    intro i st hik hinv
    obtain ⟨a, v, hai, hi, hrep, hcur, hsum, hnan, hlen, hrun, hbef, hgood⟩ := hinv
    have hi1 : i + 1 < xs.length := by omega
    have hWi : W xs s i = some v := hrun i hai (Nat.le_refl _)
    have hin : i < (valid xs).length := by
      by_contra h
      have := (c.W_none_iff hi).mpr (by omega)
      rw [hWi] at this; cases this
    rw [rankLoop_succ]
    by_cases h1 : W xs s (i + 1) = none
    · -- the next value is null: finish the run, everything after is null
      rw [if_pos h1]
      have hn : (valid xs).length = i + 1 := by
        have := (c.W_none_iff hi1).mp h1
        omega
      have haft : i + 1 < xs.length → W xs s (i + 1) ≠ some v := by
        intro _ h; rw [h1] at h; cases h
      obtain ⟨hhit, hmiss⟩ := writeRun_facts c st.out hlen i a st.rep
        (runVal pct (valid xs).length (st.sum + st.cur) st.rep) hrep hai hi
      have hg := group_good c pct hai hi hrep hcur hsum hrun hbef hgood haft
        (writeRun s st.out i (runVal pct (valid xs).length (st.sum + st.cur) st.rep) st.rep)
        hhit hmiss
      refine ⟨by simp [stBreak, writeRun_length, hlen], Or.inr ⟨rfl, ?_, by omega, ?_⟩⟩
      · simp [stBreak, hn]
      · intro q hq
        exact hg q (by omega)
    · rw [if_neg h1]
      obtain ⟨v1, hv1⟩ : ∃ v1, W xs s (i + 1) = some v1 := by
        cases h : W xs s (i + 1) with
        | none => exact absurd h h1
        | some v1 => exact ⟨v1, rfl⟩
      by_cases h2 : W xs s i = W xs s (i + 1)
      · -- the run continues
        rw [if_pos h2]
        apply ih (i + 1) _ (by omega)
        refine ⟨a, v, by omega, hi1, ?_, ?_, ?_, hnan, hlen, ?_, hbef, hgood⟩
        · simp only [stRepeat]; omega
        · simp only [stRepeat]; omega
        · simp only [stRepeat]
          obtain ⟨d, rfl⟩ : ∃ d, i = a + d := ⟨i - a, by omega⟩
          have e1 : a + d - a = d := by omega
          have e2 : a + d + 1 - a = d + 1 := by omega
          rw [e1] at hsum
          rw [e2, hcur]
          have : 2 * (st.sum + (a + d + 1)) = 2 * st.sum + 2 * (a + d + 1) := by ring
          rw [this, hsum]; ring
        · intro p hp1 hp2
          rcases Nat.lt_or_eq_of_le hp2 with h | h
          · exact hrun p hp1 (by omega)
          · rw [h, ← h2]; exact hWi
      · -- the run ends at `i`, a new one starts at `i + 1`
        rw [if_neg h2]
        have haft : i + 1 < xs.length → W xs s (i + 1) ≠ some v := by
          intro _ h; exact h2 (by rw [hWi, h])
        have hnewbef : ∀ q, q < i + 1 → W xs s q ≠ some v1 := by
          intro q hq he
          have l1 : leE rev (W xs s q) (W xs s i) = true := c.sorted q i (by omega) hi
          have l2 : leE rev (W xs s i) (W xs s (i + 1)) = true := c.sorted i (i + 1) (by omega) hi1
          rw [hv1, ← he] at l2
          exact h2 (by rw [leE_antisymm rev _ _ l2 l1, he, hv1])
        by_cases h3 : st.rep = 1
        · rw [if_pos h3]
          have hia : a = i := by omega
          subst hia
          have hs0 : st.sum = 0 := by simpa using hsum
          apply ih (a + 1) _ (by omega)
          have hg := group_good c pct hai hi hrep hcur hsum hrun hbef hgood haft
            (st.out.set (s.getD a 0) (some (oneVal pct (valid xs).length st.cur)))
            (by
              intro p hp1 hp2
              have : p = a := by omega
              subst this
              rw [List.getElem?_set_self (by rw [hlen]; exact c.sI_lt hi), oneVal_eq, h3, hs0])
            (by
              intro k hk
              exact List.getElem?_set_ne (hk a (Nat.le_refl _) (Nat.le_refl _)))
          refine ⟨a + 1, v1, Nat.le_refl _, hi1, ?_, ?_, ?_, hnan, ?_, ?_, hnewbef, hg⟩
          · simp only [stOne]; omega
          · simp only [stOne]; omega
          · simp only [stOne, hs0]; simp
          · simp [stOne, hlen]
          · intro p hp1 hp2
            have : p = a + 1 := by omega
            rw [this]; exact hv1
        · rw [if_neg h3]
          apply ih (i + 1) _ (by omega)
          obtain ⟨hhit, hmiss⟩ := writeRun_facts c st.out hlen i a st.rep
            (runVal pct (valid xs).length (st.sum + st.cur) st.rep) hrep hai hi
          have hg := group_good c pct hai hi hrep hcur hsum hrun hbef hgood haft
            (writeRun s st.out i (runVal pct (valid xs).length (st.sum + st.cur) st.rep) st.rep)
            hhit hmiss
          refine ⟨i + 1, v1, Nat.le_refl _, hi1, ?_, ?_, ?_, hnan, ?_, ?_, hnewbef, hg⟩
          · simp only [stGroup]; omega
          · simp only [stGroup]; omega
          · simp only [stGroup]; simp
          · simp [stGroup, writeRun_length, hlen]
          · intro p hp1 hp2
            have : p = i + 1 := by omega
            rw [this]; exact hv1

/-! ### after the loop -/

theorem rankFinish_spec {xs : List Elem} {s : List Nat} {rev : Bool} (c : Ctx xs s rev) (pct : Bool)
    (st : RankSt) (hpost : Post xs s pct rev st) :
    (rankFinish s pct (valid xs).length xs.length st).length = xs.length ∧
    ∀ q, q < xs.length →
      Good xs pct rev (rankFinish s pct (valid xs).length xs.length st) (s.getD q 0) := by
  obtain ⟨hlen, hcase⟩ := hpost
  rcases hcase with ⟨hnan, a, v, hai, hi, hrep, hcur, hsum, _, _, hrun, hbef, hgood⟩ |
    ⟨hnan, hidx, hnl, hgood⟩
  · -- no break: the last run ends at `len - 1`
    unfold rankFinish
    simp only [hnan, Bool.false_eq_true, if_false]
    refine ⟨by rw [setAll_length, hlen], ?_⟩
    have hstart : xs.length - st.rep = a := by omega
    have hmem : ∀ p, p ∈ List.range' (xs.length - st.rep) st.rep ↔ a ≤ p ∧ p ≤ xs.length - 1 := by
      intro p; rw [List.mem_range'_1, hstart]; omega
    have hg := group_good c pct hai hi hrep hcur hsum hrun hbef hgood (by intro h; omega)
      ((List.range' (xs.length - st.rep) st.rep).foldl
        (fun o i => o.set (s.getD i 0) (some (runVal pct (valid xs).length (st.sum + st.cur) st.rep))) st.out)
      (by
        intro p hp1 hp2
        exact setAll_hit s _ _ _ p ((hmem p).mpr ⟨hp1, hp2⟩) (by rw [hlen]; exact c.sI_lt (by omega)))
      (by
        intro k hk
        exact setAll_miss s _ _ _ k (fun p hp => hk p ((hmem p).mp hp).1 ((hmem p).mp hp).2))
    intro q hq
    exact hg q (by omega)
  · -- break: the nulls from position `n` on
    unfold rankFinish
    simp only [hnan, if_true, hidx]
    refine ⟨by rw [setAll_length, hlen], ?_⟩
    have hmem : ∀ p, p ∈ List.range' (valid xs).length (xs.length - (valid xs).length) ↔
        (valid xs).length ≤ p ∧ p < xs.length := by
      intro p; rw [List.mem_range'_1]; omega
    intro q hq
    by_cases hqn : q < (valid xs).length
    · unfold Good
      rw [setAll_miss s _ _ _ _ (fun p hp he => by
        have := c.sI_inj (show p < xs.length from ((hmem p).mp hp).2) hq he
        have := ((hmem p).mp hp).1
        omega)]
      exact hgood q hqn
    · unfold Good
      rw [setAll_hit s _ _ _ q ((hmem q).mpr ⟨by omega, hq⟩) (by rw [hlen]; exact c.sI_lt hq),
        specAt_of_W_none (c.W_null (by omega) hq)]

/-- if every sorted position's slot is final, the output is the specified rank vector -/
theorem all_good_eq {xs : List Elem} {s : List Nat} {rev : Bool} (c : Ctx xs s rev) (pct : Bool)
    (out : List (Option Out)) (hlen : out.length = xs.length)
    (h : ∀ q, q < xs.length → Good xs pct rev out (s.getD q 0)) :
    out = (Spec.rank xs pct rev).map some := by
  apply List.ext_getElem?
  intro k
  by_cases hk : k < xs.length
  · obtain ⟨p, hp, rfl⟩ := c.sI_surj hk
    rw [h p hp]
    unfold specAt Spec.rank
    rw [List.getElem?_map, List.getElem?_map, List.getElem?_eq_getElem hk, getD_of_lt xs none hk]
    simp only [Option.map_some]
    cases xs[s.getD p 0] <;> rfl
  · rw [List.getElem?_eq_none (by omega), List.getElem?_eq_none (by simp [Spec.rank]; omega)]

theorem rank_all_null (xs : List Elem) (pct rev : Bool) (h : (valid xs).length = 0) :
    (Spec.rank xs pct rev).map some = List.replicate xs.length (some .null) := by
  have hall : ∀ x ∈ xs, x = none := by
    intro x hx
    cases x with
    | none => rfl
    | some v =>
      have : v ∈ valid xs := by
        unfold valid; exact List.mem_filterMap.mpr ⟨some v, hx, rfl⟩
      rw [List.length_eq_zero_iff.mp h] at this; cases this
  unfold Spec.rank
  rw [List.map_map]
  rw [List.map_congr_left (g := fun _ => some Out.null) (by
    intro x hx; rw [hall x hx]; rfl)]
  exact List.map_const'

theorem avgRank_single (v : Rat) (pct rev : Bool) : Spec.avgRank [some v] pct rev v = 1 := by
  unfold Spec.avgRank Spec.cntLt Spec.cntGt Spec.cntEq
  have hv : valid [some v] = [v] := by simp [valid]
  rw [hv]
  cases rev <;> cases pct <;> simp [lt_irrefl]

/-- `vrank` computes the specified average ranks -/
theorem vrank_spec {S : Std} (hS : S.Ok) (xs : List Elem) (pct rev : Bool) :
    vrank S xs pct rev = (Spec.rank xs pct rev).map some := by
  unfold vrank
  simp only []
  by_cases h0 : xs.length = 0
  · rw [if_pos h0]
    have : xs = [] := List.length_eq_zero_iff.mp h0
    subst this; rfl
  · rw [if_neg h0]
    by_cases h1 : xs.length = 1
    · rw [if_pos h1]
      obtain ⟨x, rfl⟩ := List.length_eq_one_iff.mp h1
      cases x with
      | none => rfl
      | some v => simp [Spec.rank, avgRank_single]
    · rw [if_neg h1]
      have c := hS.ctx xs rev
      generalize S.sort (leIdx rev xs) (List.range xs.length) = s at c ⊢
      by_cases hfirst : xs.getD (s.getD 0 0) none = none
      · rw [if_pos hfirst]
        have hW : W xs s 0 = none := hfirst
        have hn : (valid xs).length = 0 := by
          have := (c.W_none_iff (show 0 < xs.length by omega)).mp hW
          omega
        rw [rank_all_null xs pct rev hn]
      · rw [if_neg hfirst]
        obtain ⟨v0, hv0⟩ : ∃ v0, W xs s 0 = some v0 := by
          cases h : W xs s 0 with
          | none => exact absurd h hfirst
          | some v0 => exact ⟨v0, rfl⟩
        have hinv : Inv xs s pct rev 0
            { out := List.replicate xs.length none, rep := 1, sum := 0, cur := 1, idx := 0, nan := false } := by
          refine ⟨0, v0, Nat.le_refl _, by omega, rfl, rfl, by simp, rfl, by simp, ?_, ?_, ?_⟩
          · intro p _ hp
            have : p = 0 := by omega
            rw [this]; exact hv0
          · intro q hq; omega
          · intro q hq; omega
        have hpost := rankLoop_spec c pct (xs.length - 1) 0 _ (by omega) hinv
        obtain ⟨hlen, hgood⟩ := rankFinish_spec c pct _ hpost
        exact all_good_eq c pct _ hlen hgood

end Tv.C12
