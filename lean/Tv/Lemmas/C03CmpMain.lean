import Tv.Lemmas.C03Sem
/-!
  The four extrema closures of cmp.rs refine the from-scratch definitions: invariant of the
  closure state before call `i`, one-step lemma, whole-run theorem.
-/
namespace Tv.C03
open Tv

/-- generic from-scratch result (instantiated by `Spec.tsMin/tsMax/tsArgmin/tsArgmax`) -/
def specCmp (E : List Rat → Option Rat) (pj : Proj) (mp : Nat) (L : List (Option Rat)) : Out :=
  Spec.masked mp L (match pj with
    | .val => Spec.ofOpt (E (Spec.vals L))
    | _ => match E (Spec.vals L) with
      | some m => Spec.ofOptNat (Spec.lastPos m L)
      | none => .null)

/-- state of the closure before call `i` for a sliding window of size `W` -/
def CmpInv (le : Option Rat → Option Rat → Bool) (g : Nat → Option Rat) (W : Nat) :
    Nat → CmpSt → Prop
  | 0, st => st = ⟨none, none, 0⟩
  | j+1, st => IsExtLast le g (lo W j) j (st.ext, st.idx) ∧ st.n = cnt g (lo W (j+1)) (j+1)

theorem startAt_cases (W j : Nat) (hW : 1 ≤ W) :
    (startAt W (j+1) = none ∧ lo W (j+1) = lo W j) ∨
    (startAt W (j+1) = some (lo W j) ∧ lo W (j+1) = lo W j) ∨
    (startAt W (j+1) = some (lo W j + 1) ∧ lo W (j+1) = lo W j + 1) := by
  unfold startAt lo
  by_cases h1 : W - 1 ≤ j + 1
  · by_cases h2 : W - 1 ≤ j
    · right; right
      simp only [h1, if_true]
      constructor
      · congr 1; omega
      · omega
    · right; left
      simp only [h1, if_true]
      constructor
      · congr 1; omega
      · omega
  · left
    simp only [h1, if_false]
    refine ⟨trivial, by omega⟩

theorem cmpStep_inv {le : Option Rat → Option Rat → Bool} {E : List Rat → Option Rat}
    (hle : LeOK le) (hE : ExtFn le E) (pj : Proj) (hp : pj = .val ∨ pj = .arg)
    (g : Nat → Option Rat) (W : Nat) (hW : 1 ≤ W) (mp i : Nat) (st : CmpSt)
    (h : CmpInv le g W i st) :
    CmpInv le g W (i+1) (cmpStep le pj g mp st (startAt W i, i, g i)).1 ∧
    (cmpStep le pj g mp st (startAt W i, i, g i)).2 = specCmp E pj mp (winL g (lo W i) i) := by
  -- the cached pair after the call, and the count before it
  have hm : IsExtLast le g (lo W i) i (extStep le g (st.ext, st.idx) (startAt W i) i (g i)) ∧
      st.n = cnt g (lo W i) i := by
    cases i with
    | zero =>
      have hst : st = ⟨none, none, 0⟩ := h
      subst hst
      have hl : lo W 0 = 0 := by simp [lo]
      rw [hl]
      refine ⟨extStep_first hle g _ ?_, by simp [cnt]⟩
      unfold startAt; split <;> simp
    | succ j =>
      obtain ⟨h1, h2⟩ := h
      refine ⟨extStep_next hle g _ (lo W j) j _ _ (startAt_cases W j hW) h1, h2⟩
  obtain ⟨hm1, hm2⟩ := hm
  obtain ⟨hn1, hn2⟩ := cnt_step g W i st.n hm2
  constructor
  · exact ⟨hm1, hn2⟩
  · show (if (if (g i).isSome then st.n + 1 else st.n) ≥ mp then
            pj.out (extStep le g (st.ext, st.idx) (startAt W i) i (g i)) (startAt W i) else Out.null) = _
    rw [hn1]
    unfold specCmp Spec.masked
    rw [vals_length_winL, hE g (lo W i) i _ hm1]
    split
    · -- unmasked
      obtain ⟨k, hk0, hk1, hk2, hk3⟩ := hm1.idx
      generalize hmm : extStep le g (st.ext, st.idx) (startAt W i) i (g i) = m at hm1 hk0 hk3
      rcases hp with rfl | rfl
      · cases hv : m.1 <;> simp [Proj.out, optOut, Spec.ofOpt, hv]
      · cases hv : m.1 with
        | none => simp [Proj.out, offsetOut, hv]
        | some v =>
          simp only [Proj.out, hv, Option.bind_some]
          rw [lastPos_of_isExtLast hle g (lo W i) i m v k hm1 hv hk0, hk0]
          simp [offsetOut, Spec.ofOptNat, startAt_getD]
    · rfl

/-- whole run: for every sliding-window size `W ≥ 1`, the closure driven over the positions
`0..n` emits the from-scratch result of the window `lo W i ..= i` at every position -/
theorem cmp_run {le : Option Rat → Option Rat → Bool} {E : List Rat → Option Rat}
    (hle : LeOK le) (hE : ExtFn le E) (pj : Proj) (hp : pj = .val ∨ pj = .arg)
    (g : Nat → Option Rat) (W : Nat) (hW : 1 ≤ W) (mp n : Nat) :
    runSt (cmpStep le pj g mp) ⟨none, none, 0⟩
        ((List.range n).map fun i => (startAt W i, i, g i))
      = (List.range n).map fun i => specCmp E pj mp (winL g (lo W i) i) := by
  apply runSt_range (cmpStep le pj g mp) _ (CmpInv le g W)
  · rfl
  · intro i s _ hP
    exact cmpStep_inv hle hE pj hp g W hW mp i s hP

end Tv.C03

namespace Tv.C03
open Tv

theorem idxCalls_nil (sh : Shape) (w : Nat) : idxCalls sh ([] : List (Option Rat)) w = [] := by
  cases sh <;> simp [idxCalls, Shape.idx, toIdx, iterIdx]

theorem effW_min (sh : Shape) (len w : Nat) : C02.effW sh (min len w) len = min len w := by
  cases sh <;> simp [C02.effW]

theorem winL_eq_window (xs : List (Option Rat)) (W i : Nat) (hW : 1 ≤ W) (hi : i < xs.length) :
    winL (get xs) (lo W i) i = window xs i W := by
  rw [window_eq_map_get xs W i hW hi]; rfl

/-- entry-point level: clamp of the window, default `min_periods`, either driver shape -/
theorem tsCmp_exact {le : Option Rat → Option Rat → Bool} {E : List Rat → Option Rat}
    (hle : LeOK le) (hE : ExtFn le E) (pj : Proj) (hp : pj = .val ∨ pj = .arg)
    (sh : Shape) (xs : List (Option Rat)) (w : Nat) (mp : Option Nat) (hw : 1 ≤ w) :
    tsCmp le pj sh xs w mp =
      (List.range xs.length).map fun i => specCmp E pj (cmpMp mp w xs.length) (window xs i w) := by
  unfold tsCmp
  by_cases hx : xs = []
  · subst hx; simp [idxCalls_nil, runSt]
  · have hlen : 1 ≤ xs.length := by
      cases xs with
      | nil => exact absurd rfl hx
      | cons _ _ => simp
    have hW : 1 ≤ min xs.length w := by omega
    rw [idxCalls_eq_map sh xs _ hW, effW_min, cmp_run hle hE pj hp (get xs) _ hW]
    apply List.map_congr_left
    intro i hi
    have hi' : i < xs.length := by simpa using hi
    rw [winL_eq_window xs _ i hW hi', Nat.min_comm, window_clamp xs i w hi']

end Tv.C03
