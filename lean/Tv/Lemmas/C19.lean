import Tv.Model.C19Gen
import Tv.Spec.C19Gen
import Mathlib.Tactic.Linarith
import Mathlib.Tactic.Ring
import Mathlib.Tactic.FieldSimp
import Mathlib.Algebra.Order.Field.Rat
import Mathlib.Algebra.Order.Field.Basic
/-! helper lemmas for C19 (generators and collectors) -/
namespace Tv.C19
open Tv.C19.Spec

/-! ### the `Linspace` iterator -/
section lin
variable {α : Type} [Add α] [Mul α] [NatCast α]

@[simp] theorem at_set_index (s : Linspace α) (j i : Nat) :
    ({ s with index := j } : Linspace α).at i = s.at i := rfl

@[simp] theorem at_set_len (s : Linspace α) (j i : Nat) :
    ({ s with len := j } : Linspace α).at i = s.at i := rfl

theorem next_of_lt (s : Linspace α) (h : s.index < s.len) :
    s.next = (some (s.at s.index), { s with index := s.index + 1 }) := by
  unfold Linspace.next
  rw [if_neg (by omega)]

theorem next_of_ge (s : Linspace α) (h : s.len ≤ s.index) : s.next = (none, s) := by
  unfold Linspace.next
  rw [if_pos h]

/-- draining with enough fuel yields the values at positions `index .. len` -/
theorem drain_eq (s : Linspace α) (fuel : Nat) (h : s.len - s.index ≤ fuel) :
    s.drain fuel = (List.range (s.len - s.index)).map fun k => s.at (s.index + k) := by
  induction fuel generalizing s with
  | zero =>
    have : s.len - s.index = 0 := by omega
    simp [Linspace.drain, this]
  | succ f ih =>
    unfold Linspace.drain
    by_cases hlt : s.index < s.len
    · rw [next_of_lt s hlt]
      simp only
      rw [ih _ (by simp only; omega)]
      have e : s.len - s.index = (s.len - (s.index + 1)) + 1 := by omega
      rw [e, List.range_succ_eq_map, List.map_cons, List.map_map]
      simp only [Nat.add_zero, at_set_index, List.cons.injEq, true_and]
      apply List.map_congr_left
      intro k _
      simp only [Function.comp, Nat.succ_eq_add_one]
      congr 1; omega
    · rw [next_of_ge s (by omega)]
      have : s.len - s.index = 0 := by omega
      simp [this]

theorem items_eq (s : Linspace α) :
    s.items = (List.range (s.len - s.index)).map fun k => s.at (s.index + k) :=
  drain_eq s _ (Nat.le_refl _)

theorem items_length (s : Linspace α) : s.items.length = s.len - s.index := by
  simp [items_eq]

theorem items_of_ge (s : Linspace α) (h : s.len ≤ s.index) : s.items = [] := by
  have : s.len - s.index = 0 := by omega
  simp [items_eq, this]

theorem items_cons (s : Linspace α) (h : s.index < s.len) :
    s.items = s.at s.index :: ({ s with index := s.index + 1 } : Linspace α).items := by
  rw [items_eq, items_eq]
  have e : s.len - s.index = (s.len - (s.index + 1)) + 1 := by omega
  rw [e, List.range_succ_eq_map, List.map_cons, List.map_map]
  simp only [Nat.add_zero, at_set_index, List.cons.injEq, true_and]
  apply List.map_congr_left
  intro k _
  simp only [Function.comp, Nat.succ_eq_add_one]
  congr 1; omega

theorem items_snoc (s : Linspace α) (h : s.index < s.len) :
    s.items = ({ s with len := s.len - 1 } : Linspace α).items ++ [s.at (s.len - 1)] := by
  rw [items_eq, items_eq]
  have e : s.len - s.index = (s.len - 1 - s.index) + 1 := by omega
  rw [e, List.range_succ, List.map_append]
  simp only [at_set_len, List.map_cons, List.map_nil]
  congr 3; omega

end lin
/-! ### element counts of `range` -/

theorem countBefore_eq_zero (a b step : Rat) (h : (b - a) / step ≤ 0) :
    countBefore a b step = 0 := by
  unfold countBefore
  have : ((b - a) / step).ceil ≤ 0 := Rat.ceil_le_iff.mpr (by simpa using h)
  omega

theorem ratAsUsize_intCast (n : Int) (h : n.toNat < usizeMod) : ratAsUsize (n : Rat) = n.toNat := by
  unfold ratAsUsize
  rw [Rat.floor_intCast]
  omega

theorem rangeLen_rat (a b step : Rat) (hs : step ≠ 0) (hc : countBefore a b step < usizeMod) :
    rangeLen ratOps a b step = countBefore a b step := by
  unfold rangeLen
  by_cases hdir : (0 < step ∧ a < b) ∨ (step < 0 ∧ b < a)
  · rw [if_pos hdir]
    have hq : (b - a) / step * step = b - a := div_mul_cancel₀ _ hs
    have hle : (b - a) / step ≤ (((b - a) / step).ceil : Rat) := Rat.le_ceil
    have hneg : ¬ ((0 < step ∧ a + ratOps.ceil (ratOps.div (b - a) step) * step < b) ∨
        (step < 0 ∧ b < a + ratOps.ceil (ratOps.div (b - a) step) * step)) := by
      show ¬ ((0 < step ∧ a + (((b - a) / step).ceil : Rat) * step < b) ∨
        (step < 0 ∧ b < a + (((b - a) / step).ceil : Rat) * step))
      rintro (⟨hp, hlt⟩ | ⟨hn, hlt⟩)
      · have := mul_le_mul_of_nonneg_right hle hp.le
        linarith
      · have := mul_le_mul_of_nonpos_right hle hn.le
        linarith
    simp only [if_neg hneg]
    have hlt : (((b - a) / step).ceil : Rat) - 1 < (b - a) / step := by
      have := (Rat.lt_ceil_iff (x := (b - a) / step) (y := ((b - a) / step).ceil - 1)).mp (by omega)
      push_cast at this
      exact this
    have hneg2 : ¬ ((0 < step ∧ ¬ a + (ratOps.ceil (ratOps.div (b - a) step) - 1) * step < b) ∨
        (step < 0 ∧ ¬ b < a + (ratOps.ceil (ratOps.div (b - a) step) - 1) * step)) := by
      show ¬ ((0 < step ∧ ¬ a + ((((b - a) / step).ceil : Rat) - 1) * step < b) ∨
        (step < 0 ∧ ¬ b < a + ((((b - a) / step).ceil : Rat) - 1) * step))
      rintro (⟨hp, hge⟩ | ⟨hn, hge⟩)
      · have := mul_lt_mul_of_pos_right hlt hp
        apply hge
        linarith
      · have := mul_lt_mul_of_neg_right hlt hn
        apply hge
        linarith
    simp only [if_neg hneg2]
    exact ratAsUsize_intCast _ hc
  · rw [if_neg hdir]
    symm
    apply countBefore_eq_zero
    rcases lt_or_gt_of_ne hs with hn | hp
    · have : 0 ≤ b - a := by
        by_contra hh
        exact hdir (Or.inr ⟨hn, by linarith⟩)
      exact div_nonpos_of_nonneg_of_nonpos this hn.le
    · have : b - a ≤ 0 := by
        by_contra hh
        exact hdir (Or.inl ⟨hp, by linarith⟩)
      exact div_nonpos_of_nonpos_of_nonneg this hp.le
theorem ceil_eq_of {x : Rat} {n : Int} (h1 : (n : Rat) - 1 < x) (h2 : x ≤ (n : Rat)) : x.ceil = n := by
  apply le_antisymm (Rat.ceil_le_iff.mpr h2)
  have : n - 1 < x.ceil := Rat.lt_ceil_iff.mpr (by push_cast; exact h1)
  omega

/-- the repaired integer count: truncated quotient, plus one for a trailing partial step -/
def intSteps (span step : Int) : Int :=
  if (0 < step ∧ span.tdiv step * step < span) ∨ (step < 0 ∧ span < span.tdiv step * step)
  then span.tdiv step + 1 else span.tdiv step

theorem intSteps_pos (span step : Int) (hp : 0 < step) (hs : 0 < span) :
    (intSteps span step - 1) * step < span ∧ span ≤ intSteps span step * step := by
  have e := Int.tdiv_mul_add_tmod span step
  have r0 := Int.tmod_nonneg step hs.le
  have r1 := Int.tmod_lt_of_pos span hp
  have e2 : (span.tdiv step + 1) * step = span.tdiv step * step + step := by ring
  have e3 : (span.tdiv step - 1) * step = span.tdiv step * step - step := by ring
  unfold intSteps
  split
  · rename_i h
    rcases h with ⟨_, h⟩ | ⟨h, _⟩
    · constructor
      · simpa using h
      · rw [e2]; omega
    · omega
  · rename_i h
    have h' : ¬ span.tdiv step * step < span := fun hh => h (Or.inl ⟨hp, hh⟩)
    constructor
    · rw [e3]; omega
    · omega

theorem intSteps_neg (span step : Int) (hn : step < 0) (hs : span < 0) :
    span < (intSteps span step - 1) * step ∧ intSteps span step * step ≤ span := by
  have e := Int.tdiv_mul_add_tmod span step
  have hr : span.tmod step = -((-span).tmod (-step)) := by simp [Int.neg_tmod, Int.tmod_neg]
  have r0 := Int.tmod_nonneg (-step) (show 0 ≤ -span by omega)
  have r1 := Int.tmod_lt_of_pos (-span) (show 0 < -step by omega)
  have e2 : (span.tdiv step + 1) * step = span.tdiv step * step + step := by ring
  have e3 : (span.tdiv step - 1) * step = span.tdiv step * step - step := by ring
  unfold intSteps
  split
  · rename_i h
    rcases h with ⟨h, _⟩ | ⟨_, h⟩
    · omega
    · constructor
      · simpa using h
      · rw [e2]; omega
  · rename_i h
    have h' : ¬ span < span.tdiv step * step := fun hh => h (Or.inr ⟨hn, hh⟩)
    constructor
    · rw [e3]; omega
    · omega

theorem intSteps_ceil (span step : Int) (h : (0 < step ∧ 0 < span) ∨ (step < 0 ∧ span < 0)) :
    ((span : Rat) / (step : Rat)).ceil = intSteps span step := by
  apply ceil_eq_of
  · rcases h with ⟨hp, hs⟩ | ⟨hn, hs⟩
    · have hp' : (0 : Rat) < step := by exact_mod_cast hp
      rw [lt_div_iff₀ hp']
      exact_mod_cast (intSteps_pos span step hp hs).1
    · have hn' : (step : Rat) < 0 := by exact_mod_cast hn
      rw [lt_div_iff_of_neg hn']
      exact_mod_cast (intSteps_neg span step hn hs).1
  · rcases h with ⟨hp, hs⟩ | ⟨hn, hs⟩
    · have hp' : (0 : Rat) < step := by exact_mod_cast hp
      rw [div_le_iff₀ hp']
      exact_mod_cast (intSteps_pos span step hp hs).2
    · have hn' : (step : Rat) < 0 := by exact_mod_cast hn
      rw [div_le_iff_of_neg hn']
      exact_mod_cast (intSteps_neg span step hn hs).2

theorem intSteps_pos_of (span step : Int) (h : (0 < step ∧ 0 < span) ∨ (step < 0 ∧ span < 0)) :
    0 < intSteps span step := by
  rcases h with ⟨hp, hs⟩ | ⟨hn, hs⟩
  · have := (intSteps_pos span step hp hs).2
    by_contra hh
    have : intSteps span step * step ≤ 0 := Int.mul_nonpos_of_nonpos_of_nonneg (by omega) hp.le
    omega
  · have := (intSteps_neg span step hn hs).2
    by_contra hh
    have : 0 ≤ intSteps span step * step := Int.mul_nonneg_of_nonpos_of_nonpos (by omega) hn.le
    omega

theorem intAsUsize_of_nonneg (n : Int) (h0 : 0 ≤ n) (h : n.toNat < usizeMod) :
    intAsUsize n = n.toNat := by
  unfold intAsUsize
  unfold usizeMod at *
  simp only [Nat.cast_ofNat]
  omega

theorem rangeLen_int (a b step : Int) (hs : step ≠ 0)
    (hc : countBefore (a : Rat) (b : Rat) (step : Rat) < usizeMod) :
    rangeLen intOps a b step = countBefore (a : Rat) (b : Rat) (step : Rat) := by
  have hcast : (b : Rat) - (a : Rat) = ((b - a : Int) : Rat) := by push_cast; ring
  unfold rangeLen
  by_cases hdir : (0 < step ∧ a < b) ∨ (step < 0 ∧ b < a)
  · rw [if_pos hdir]
    have hd : (0 < step ∧ 0 < b - a) ∨ (step < 0 ∧ b - a < 0) := by omega
    have hneg2 : ¬ ((0 < step ∧ ¬ a + (intSteps (b - a) step - 1) * step < b) ∨
        (step < 0 ∧ ¬ b < a + (intSteps (b - a) step - 1) * step)) := by
      rcases hd with ⟨hp, hs⟩ | ⟨hn, hs⟩
      · have := (intSteps_pos (b - a) step hp hs).1
        rintro (⟨_, h⟩ | ⟨h, _⟩) <;> omega
      · have := (intSteps_neg (b - a) step hn hs).1
        rintro (⟨h, _⟩ | ⟨_, h⟩) <;> omega
    have hcond : ((0 < step ∧ a + (b - a).tdiv step * step < b) ∨ (step < 0 ∧ b < a + (b - a).tdiv step * step)) ↔
        ((0 < step ∧ (b - a).tdiv step * step < b - a) ∨ (step < 0 ∧ b - a < (b - a).tdiv step * step)) := by
      constructor
      · rintro (⟨h1, h2⟩ | ⟨h1, h2⟩)
        · left; exact ⟨h1, by omega⟩
        · right; exact ⟨h1, by omega⟩
      · rintro (⟨h1, h2⟩ | ⟨h1, h2⟩)
        · left; exact ⟨h1, by omega⟩
        · right; exact ⟨h1, by omega⟩
    have hsteps : (if (0 < step ∧ a + (b - a).tdiv step * step < b) ∨ (step < 0 ∧ b < a + (b - a).tdiv step * step)
        then (b - a).tdiv step + 1 else (b - a).tdiv step) = intSteps (b - a) step := by
      unfold intSteps
      by_cases hc : (0 < step ∧ (b - a).tdiv step * step < b - a) ∨ (step < 0 ∧ b - a < (b - a).tdiv step * step)
      · rw [if_pos hc, if_pos (hcond.mpr hc)]
      · rw [if_neg hc, if_neg (fun h => hc (hcond.mp h))]
    show intAsUsize (if (0 < step ∧ ¬ a + ((if (0 < step ∧ a + (b - a).tdiv step * step < b) ∨ (step < 0 ∧ b < a + (b - a).tdiv step * step)
        then (b - a).tdiv step + 1 else (b - a).tdiv step) - 1) * step < b) ∨
        (step < 0 ∧ ¬ b < a + ((if (0 < step ∧ a + (b - a).tdiv step * step < b) ∨ (step < 0 ∧ b < a + (b - a).tdiv step * step)
        then (b - a).tdiv step + 1 else (b - a).tdiv step) - 1) * step)
      then (if (0 < step ∧ a + (b - a).tdiv step * step < b) ∨ (step < 0 ∧ b < a + (b - a).tdiv step * step)
        then (b - a).tdiv step + 1 else (b - a).tdiv step) - 1
      else (if (0 < step ∧ a + (b - a).tdiv step * step < b) ∨ (step < 0 ∧ b < a + (b - a).tdiv step * step)
        then (b - a).tdiv step + 1 else (b - a).tdiv step)) = _
    rw [hsteps]
    show intAsUsize (if (0 < step ∧ ¬ a + (intSteps (b - a) step - 1) * step < b) ∨
        (step < 0 ∧ ¬ b < a + (intSteps (b - a) step - 1) * step)
      then intSteps (b - a) step - 1 else intSteps (b - a) step) = _
    rw [if_neg hneg2]
    have hceil := intSteps_ceil (b - a) step hd
    have hpos := intSteps_pos_of (b - a) step hd
    have hcnt : countBefore (a : Rat) (b : Rat) (step : Rat) = (intSteps (b - a) step).toNat := by
      unfold countBefore
      rw [hcast, hceil]
    rw [hcnt] at hc ⊢
    exact intAsUsize_of_nonneg _ hpos.le hc
  · rw [if_neg hdir]
    symm
    apply countBefore_eq_zero
    rw [hcast]
    rcases lt_or_gt_of_ne hs with hn | hp
    · have h1 : (0 : Rat) ≤ ((b - a : Int) : Rat) := by
        have : 0 ≤ b - a := by omega
        exact_mod_cast this
      have h2 : (step : Rat) ≤ 0 := by exact_mod_cast hn.le
      exact div_nonpos_of_nonneg_of_nonpos h1 h2
    · have h1 : ((b - a : Int) : Rat) ≤ 0 := by
        have : b - a ≤ 0 := by omega
        exact_mod_cast this
      have h2 : (0 : Rat) ≤ (step : Rat) := by exact_mod_cast hp.le
      exact div_nonpos_of_nonpos_of_nonneg h1 h2

end Tv.C19

namespace Tv.C19
open Tv.C19.Spec

/-- `k` is below the exact count iff the `k`-th term lies strictly before `b` -/
theorem lt_countBefore_iff (a b step : Rat) (hs : step ≠ 0) (k : Nat) :
    k < countBefore a b step ↔ Before step (a + step * (k : Rat)) b := by
  unfold countBefore Before
  rw [Int.lt_toNat, Rat.lt_ceil_iff]
  have hk : (((k : Nat) : Int) : Rat) = (k : Rat) := by norm_cast
  rw [hk]
  rcases lt_or_gt_of_ne hs with hn | hp
  · rw [lt_div_iff_of_neg hn]
    constructor
    · intro h; right; exact ⟨hn, by linarith⟩
    · rintro (⟨h, _⟩ | ⟨_, h⟩)
      · linarith
      · linarith
  · rw [lt_div_iff₀ hp]
    constructor
    · intro h; left; exact ⟨hp, by linarith⟩
    · rintro (⟨_, h⟩ | ⟨h, _⟩)
      · linarith
      · linarith

/-! ### raw collectors -/

theorem rawWrite_ok (cap : Nat) (l written : List α) (h : written.length + l.length ≤ cap) :
    rawWrite cap l written = .ok (written.reverse ++ l) := by
  induction l generalizing written with
  | nil => simp [rawWrite]
  | cons v rest ih =>
    simp only [List.length_cons] at h
    unfold rawWrite
    rw [if_pos (by omega), ih _ (by simp only [List.length_cons]; omega)]
    simp

theorem rawWrite_ub (cap : Nat) (l written : List α) (h : cap < written.length + l.length)
    (hw : written.length ≤ cap) : rawWrite cap l written = .ub := by
  induction l generalizing written with
  | nil => simp at h; omega
  | cons v rest ih =>
    simp only [List.length_cons] at h
    unfold rawWrite
    by_cases hlt : written.length < cap
    · rw [if_pos hlt]
      exact ih _ (by simp only [List.length_cons]; omega) (by simp only [List.length_cons]; omega)
    · rw [if_neg hlt]

theorem collectTrustedToVec_exact (es : Nat) (l : List α) (h : capacityOverflow l.length es = false) :
    collectTrustedToVec es (Iter.exact l) = .ok l := by
  unfold collectTrustedToVec Iter.exact
  simp only [h]
  rw [rawWrite_ok _ _ _ (by simp)]
  simp

theorem collectTrustedToVec_wrong_hint (es : Nat) (l : List α) (n : Nat) (hn : n ≠ l.length)
    (h : capacityOverflow n es = false) : collectTrustedToVec es ⟨l, some n⟩ = .ub := by
  unfold collectTrustedToVec
  simp only [h]
  by_cases hlt : l.length < n
  · rw [rawWrite_ok _ _ _ (by simp only [List.length_nil]; omega)]
    have : ¬ (([] : List α).reverse ++ l).length = n := by simp; omega
    simp only [this]
    simp
  · rw [rawWrite_ub _ _ _ (by simp only [List.length_nil]; omega) (by simp)]
    simp

/-! ### fallible collectors -/

theorem firstErr_none_iff (l : List (Except ε α)) :
    firstErr l = none ↔ l = (okValues l).map .ok := by
  induction l with
  | nil => simp [firstErr, okValues]
  | cons x rest ih =>
    cases x with
    | error e =>
      simp only [firstErr, okValues, List.filterMap_cons]
      constructor
      · intro h; cases h
      · intro h
        have := congrArg List.head? h
        cases hh : (okValues rest) <;> simp_all [okValues]
    | ok v => simpa [firstErr, okValues] using ih

theorem consumed_cons_ok (v : α) (rest : List (Except ε α)) :
    consumed (.ok v :: rest) = consumed rest + 1 := rfl

theorem consumed_cons_err (e : ε) (rest : List (Except ε α)) :
    consumed (.error e :: rest : List (Except ε α)) = 1 := rfl

theorem tryLoop_eq (l : List (Except ε α)) (acc : List α) (k : Nat) :
    tryLoop l acc k =
      ⟨match firstErr l with
        | some e => .error e
        | none => .ok (acc.reverse ++ okValues l), k + consumed l⟩ := by
  induction l generalizing acc k with
  | nil => simp [tryLoop, firstErr, okValues, consumed]
  | cons x rest ih =>
    cases x with
    | error e => simp [tryLoop, firstErr, consumed_cons_err]
    | ok v =>
      unfold tryLoop
      rw [ih, consumed_cons_ok]
      simp only [firstErr, okValues, List.filterMap_cons, List.reverse_cons, List.append_assoc,
        List.singleton_append]
      congr 1
      omega

theorem tryRawWrite_eq (cap : Nat) (l : List (Except ε α)) (acc : List α) (k : Nat)
    (h : acc.length + l.length ≤ cap) : tryRawWrite cap l acc k = .ok (tryLoop l acc k) := by
  induction l generalizing acc k with
  | nil => simp [tryRawWrite, tryLoop]
  | cons x rest ih =>
    simp only [List.length_cons] at h
    cases x with
    | error e => simp [tryRawWrite, tryLoop]
    | ok v =>
      unfold tryRawWrite tryLoop
      rw [if_pos (by omega), ih _ _ (by simp only [List.length_cons]; omega)]

theorem okValues_length_of_noErr (l : List (Except ε α)) (h : firstErr l = none) :
    (okValues l).length = l.length := by
  have := (firstErr_none_iff l).mp h
  conv => rhs; rw [this]
  simp

/-! ### `write_trust_iter` -/

/-- the `uset` calls that store `items` at consecutive positions from `i` on -/
def seqWrites (items : List α) (i : Nat) : List (Nat × α) :=
  (items.zipIdx i).map fun p => (p.2, p.1)

theorem writeEach_eq (items : List α) (i n : Nat) (acc : List (Nat × α)) (h : n ≤ items.length) :
    writeEach items i n acc = ⟨.ok, acc.reverse ++ seqWrites (items.take n) i⟩ := by
  induction n generalizing items i acc with
  | zero => cases items <;> simp [writeEach, seqWrites]
  | succ n ih =>
    cases items with
    | nil => simp at h
    | cons v rest =>
      simp only [List.length_cons] at h
      unfold writeEach
      rw [ih _ _ _ (by omega)]
      simp [seqWrites, List.zipIdx_cons]

theorem writeEach_short (items : List α) (i n : Nat) (acc : List (Nat × α)) (h : items.length < n) :
    (writeEach items i n acc).status = .panic := by
  induction n generalizing items i acc with
  | zero => omega
  | succ n ih =>
    cases items with
    | nil => simp [writeEach]
    | cons v rest =>
      simp only [List.length_cons] at h
      unfold writeEach
      exact ih _ _ _ (by omega)

theorem applyWrites_append (buf : List (Option α)) (w1 w2 : List (Nat × α)) :
    applyWrites buf (w1 ++ w2) = applyWrites (applyWrites buf w1) w2 := by
  induction w1 generalizing buf with
  | nil => rfl
  | cons w rest ih => obtain ⟨i, v⟩ := w; simp [applyWrites, ih]

/-- storing `items` one by one behind an initialised prefix `done` -/
theorem applyWrites_seq (done items : List α) (m : Nat) (h : items.length ≤ m) :
    applyWrites (done.map some ++ List.replicate m none) (seqWrites items done.length) =
      (done ++ items).map some ++ List.replicate (m - items.length) none := by
  induction items generalizing done m with
  | nil => simp [seqWrites, applyWrites]
  | cons v rest ih =>
    simp only [List.length_cons] at h
    obtain ⟨m', rfl⟩ : ∃ m', m = m' + 1 := ⟨m - 1, by omega⟩
    simp only [seqWrites, List.zipIdx_cons, List.map_cons, applyWrites]
    have hset : (List.map some done ++ List.replicate (m' + 1) none).set done.length (some v) =
        (done ++ [v]).map some ++ List.replicate m' (none : Option α) := by
      rw [List.set_append_right _ _ (by simp)]
      simp [List.replicate_succ]
    rw [hset]
    have := ih (done ++ [v]) m' (by omega)
    simp only [seqWrites, List.length_append, List.length_cons, List.length_nil, Nat.zero_add] at this
    rw [this]
    simp

/-- storing the same value at positions `d .. d+m` behind `d` slots that already hold it -/
theorem applyWrites_bcast (v : α) (d m : Nat) :
    applyWrites (List.replicate d (some v) ++ List.replicate m none)
        ((List.range m).map fun i => (d + i, v)) = List.replicate (d + m) (some v) := by
  induction m generalizing d with
  | zero => simp [applyWrites]
  | succ m ih =>
    rw [List.range_succ_eq_map, List.map_cons, List.map_map, applyWrites]
    have hset : (List.replicate d (some v) ++ List.replicate (m + 1) none).set (d + 0) (some v) =
        List.replicate (d + 1) (some v) ++ List.replicate m (none : Option α) := by
      rw [List.set_append_right _ _ (by simp)]
      have e0 : d + 0 - (List.replicate d (some v)).length = 0 := by simp
      rw [e0, List.replicate_succ, List.set_cons_zero, List.replicate_succ', List.append_assoc]
      rfl
    rw [hset]
    have := ih (d + 1)
    have e : (fun i => (d + 1 + i, v)) = ((fun i => (d + i, v)) ∘ Nat.succ) := by
      funext i; simp only [Function.comp, Nat.succ_eq_add_one]; congr 1; omega
    rw [e] at this
    rw [this]
    congr 1; omega

/-- items of a fresh `Linspace` = the first `len` terms of the progression -/
theorem fresh_items {α : Type} [Add α] [Mul α] [NatCast α] (a step : α) (n : Nat) :
    (⟨a, step, 0, n⟩ : Linspace α).items = progression a step n := by
  rw [items_eq]
  simp [progression, Linspace.at]

/-- Rust's truncating division is rounding toward zero of the exact quotient -/
theorem tdiv_eq_truncRat (x m : Int) (hm : 0 < m) : Int.tdiv x m = truncRat ((x : Rat) / (m : Rat)) := by
  have hm' : (0 : Rat) < (m : Rat) := by exact_mod_cast hm
  have e := Int.tdiv_mul_add_tmod x m
  have e2 : (x.tdiv m + 1) * m = x.tdiv m * m + m := by ring
  have e3 : (x.tdiv m - 1) * m = x.tdiv m * m - m := by ring
  unfold truncRat
  by_cases hx : 0 ≤ x
  · have hq : (0 : Rat) ≤ (x : Rat) / (m : Rat) := div_nonneg (by exact_mod_cast hx) hm'.le
    rw [if_pos hq]
    have r0 := Int.tmod_nonneg m hx
    have r1 := Int.tmod_lt_of_pos x hm
    symm
    apply le_antisymm
    · have : ((x : Rat) / (m : Rat)).floor < x.tdiv m + 1 := by
        rw [Rat.floor_lt_iff, div_lt_iff₀ hm']
        have : x < (x.tdiv m + 1) * m := by rw [e2]; omega
        exact_mod_cast this
      omega
    · rw [Rat.le_floor_iff, le_div_iff₀ hm']
      have : x.tdiv m * m ≤ x := by omega
      exact_mod_cast this
  · have hq : ¬ (0 : Rat) ≤ (x : Rat) / (m : Rat) := by
      have : (x : Rat) < 0 := by exact_mod_cast (show x < 0 by omega)
      have := div_neg_of_neg_of_pos this hm'
      linarith
    rw [if_neg hq]
    have hr : x.tmod m = -((-x).tmod m) := by simp [Int.neg_tmod]
    have r0 := Int.tmod_nonneg m (show 0 ≤ -x by omega)
    have r1 := Int.tmod_lt_of_pos (-x) hm
    symm
    apply ceil_eq_of
    · rw [lt_div_iff₀ hm']
      have : (x.tdiv m - 1) * m < x := by rw [e3]; omega
      exact_mod_cast this
    · rw [div_le_iff₀ hm']
      have : x ≤ x.tdiv m * m := by omega
      exact_mod_cast this

end Tv.C19
