import Tv.Model.Basic
/-! list facts about `window` / `pre` and the generic refinement theorem `run_refines` -/
namespace Tv

theorem window_eq_pre_snoc (xs : List α) (i w : Nat) (hw : 1 ≤ w) (hi : i < xs.length) :
    window xs i w = pre xs i w ++ [xs[i]] := by
  unfold window pre
  rw [List.take_succ_eq_append_getElem hi]
  have : i + 1 - w = i - (w-1) := by omega
  rw [this, List.drop_append_of_le_length]
  simp; omega

theorem pre_succ_of_lt (xs : List α) (i w : Nat) (h : i < w - 1) :
    pre xs (i+1) w = window xs i w := by
  unfold pre window
  have h1 : i + 1 - (w - 1) = 0 := by omega
  have h2 : i + 1 - w = 0 := by omega
  rw [h1, h2]

theorem window_eq_cons_pre_succ (xs : List α) (i w : Nat) (hw : 1 ≤ w) (hi : i < xs.length)
    (h : w - 1 ≤ i) : window xs i w = xs[i-(w-1)] :: pre xs (i+1) w := by
  unfold pre window
  have h1 : i + 1 - w = i - (w-1) := by omega
  have h2 : i + 1 - (w - 1) = (i - (w-1)) + 1 := by omega
  rw [h1, h2]
  have hlt : i - (w-1) < (xs.take (i+1)).length := by simp; omega
  rw [List.drop_eq_getElem_cons hlt]
  simp

/-- windows longer than the series are the same as windows of the series' length -/
theorem window_clamp (xs : List α) (i w : Nat) (hi : i < xs.length) :
    window xs i (min w xs.length) = window xs i w := by
  unfold window
  by_cases h : w ≤ xs.length
  · rw [Nat.min_eq_left h]
  · have h1 : i + 1 - min w xs.length = 0 := by omega
    have h2 : i + 1 - w = 0 := by omega
    rw [h1, h2]

/-- the element removed at position `i` (specification) -/
def callAt (xs : List α) (w i : Nat) : Option α := if w - 1 ≤ i then xs[i-(w-1)]? else none

/-- the callback arguments, positions `a, a+1, ..., a+k-1` -/
def callsFrom (xs : List α) (w a k : Nat) : List (Option α × α) :=
  (List.range' a k).filterMap (fun i => xs[i]?.map (fun v => (callAt xs w i, v)))

/-- **Generic refinement.** A closure whose state abstracts the FIFO of the current window
contents emits, at every position, a function of exactly the current window. -/
theorem run_refines {σ α β : Type} (r : Roll σ α β) (Inv : σ → List α → Prop) (F : List α → β)
    (hadd : ∀ s q v, Inv s q → Inv (r.add s v) (q ++ [v]))
    (hrem : ∀ s x q, Inv s (x :: q) → Inv (r.remove s x) q)
    (hemit : ∀ s q, Inv s q → r.emit s = F q)
    (xs : List α) (w : Nat) (hw : 1 ≤ w) :
    ∀ (k : Nat) (s : σ), k ≤ xs.length → Inv s (pre xs (xs.length - k) w) →
      r.run s (callsFrom xs w (xs.length - k) k)
        = (List.range' (xs.length - k) k).map (fun i => F (window xs i w)) := by
  intro k
  induction k with
  | zero => intro s _ _; simp [Roll.run, callsFrom]
  | succ k ih =>
    intro s hk hinv
    have hi : xs.length - (k+1) < xs.length := by omega
    unfold callsFrom
    rw [List.range'_succ]
    simp only [List.filterMap_cons, List.map_cons]
    rw [List.getElem?_eq_getElem hi]
    simp only [Option.map_some, Roll.run, Roll.step]
    have hnext : xs.length - (k+1) + 1 = xs.length - k := by omega
    have hwin := window_eq_pre_snoc xs (xs.length - (k+1)) w hw hi
    have hinv1 : Inv (r.add s xs[xs.length - (k+1)]) (window xs (xs.length - (k+1)) w) := by
      rw [hwin]; exact hadd _ _ _ hinv
    congr 1
    · exact hemit _ _ hinv1
    · rw [hnext]
      apply ih _ (by omega)
      unfold callAt
      by_cases hc : w - 1 ≤ xs.length - (k+1)
      · have hlt : xs.length - (k+1) - (w-1) < xs.length := by omega
        simp only [hc, if_true, List.getElem?_eq_getElem hlt]
        rw [← hnext]
        apply hrem
        rw [← window_eq_cons_pre_succ xs _ w hw hi hc]
        exact hinv1
      · simp only [hc, if_false]
        rw [← hnext, pre_succ_of_lt xs _ w (by omega)]
        exact hinv1

/-- whole-series form -/
theorem run_refines_all {σ α β : Type} (r : Roll σ α β) (Inv : σ → List α → Prop) (F : List α → β)
    (hinit : Inv r.init [])
    (hadd : ∀ s q v, Inv s q → Inv (r.add s v) (q ++ [v]))
    (hrem : ∀ s x q, Inv s (x :: q) → Inv (r.remove s x) q)
    (hemit : ∀ s q, Inv s q → r.emit s = F q)
    (xs : List α) (w : Nat) (hw : 1 ≤ w) :
    r.run r.init (callsFrom xs w 0 xs.length)
      = (List.range xs.length).map (fun i => F (window xs i w)) := by
  have := run_refines r Inv F hadd hrem hemit xs w hw xs.length r.init (Nat.le_refl _)
    (by simpa [pre] using hinit)
  simpa [List.range_eq_range'] using this

/-- the output of a run does not depend on what the last call reports as removed -/
theorem run_last_rm_irrelevant {σ α β : Type} (r : Roll σ α β) (s : σ)
    (cs : List (Option α × α)) (rm rm' : Option α) (v : α) :
    r.run s (cs ++ [(rm, v)]) = r.run s (cs ++ [(rm', v)]) := by
  induction cs generalizing s with
  | nil => simp [Roll.run, Roll.step]
  | cons c cs ih => simp only [List.cons_append, Roll.run]; rw [ih]

theorem run_length {σ α β : Type} (r : Roll σ α β) (s : σ) (cs : List (Option α × α)) :
    (r.run s cs).length = cs.length := by
  induction cs generalizing s with
  | nil => simp [Roll.run]
  | cons c cs ih => simp [Roll.run, ih]

end Tv
