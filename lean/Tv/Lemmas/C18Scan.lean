import Tv.Model.C18Parse
import Tv.Spec.C18Spec
/-! C18 — helper lemmas about the `&str` primitives and the scanner of `TimeDelta::parse`. -/
namespace Tv.C18

/-! ### byte offsets and slicing -/

theorem utf8Len_append (a b : List Char) : utf8Len (a ++ b) = utf8Len a + utf8Len b := by
  induction a with
  | nil => simp [utf8Len]
  | cons c cs ih => simp [utf8Len, ih, Nat.add_assoc]

theorem utf8Len_cons (c : Char) (cs : List Char) : utf8Len (c :: cs) = c.utf8Size + utf8Len cs := rfl

theorem dropBytes_zero (s : List Char) : dropBytes s 0 = some s := by
  cases s <;> rfl

theorem takeBytes_zero (s : List Char) : takeBytes s 0 = some [] := by
  cases s <;> rfl

theorem dropBytes_append (pre rest : List Char) : dropBytes (pre ++ rest) (utf8Len pre) = some rest := by
  induction pre with
  | nil => simp [utf8Len, dropBytes_zero]
  | cons c cs ih =>
    have hpos := Char.utf8Size_pos c
    obtain ⟨k, hk⟩ : ∃ k, utf8Len (c :: cs) = k + 1 := ⟨c.utf8Size + utf8Len cs - 1, by simp [utf8Len]; omega⟩
    rw [hk]
    simp only [List.cons_append, dropBytes]
    have h1 : c.utf8Size ≤ k + 1 := by simp [utf8Len] at hk; omega
    have h2 : k + 1 - c.utf8Size = utf8Len cs := by simp [utf8Len] at hk; omega
    simp [h1, h2, ih]

theorem takeBytes_append (mid rest : List Char) : takeBytes (mid ++ rest) (utf8Len mid) = some mid := by
  induction mid with
  | nil => simp [utf8Len, takeBytes_zero]
  | cons c cs ih =>
    have hpos := Char.utf8Size_pos c
    obtain ⟨k, hk⟩ : ∃ k, utf8Len (c :: cs) = k + 1 := ⟨c.utf8Size + utf8Len cs - 1, by simp [utf8Len]; omega⟩
    rw [hk]
    simp only [List.cons_append, takeBytes]
    have h1 : c.utf8Size ≤ k + 1 := by simp [utf8Len] at hk; omega
    have h2 : k + 1 - c.utf8Size = utf8Len cs := by simp [utf8Len] at hk; omega
    simp [h1, h2, ih]

/-- slicing at the offsets of a middle segment returns that segment (never panics) -/
theorem slice_mid (pre mid rest : List Char) :
    slice (pre ++ mid ++ rest) (utf8Len pre) (utf8Len pre + utf8Len mid) = some mid := by
  unfold slice
  simp only [Nat.le_add_right, ↓reduceIte, List.append_assoc, dropBytes_append, Option.bind_some,
    Nat.add_sub_cancel_left, takeBytes_append]

/-! ### totality of the repaired scanner -/

/-- the cursor invariant: `start` and the iterator offset are char boundaries of `s`,
    `start ≤ off`, and the iterator holds exactly the text after `off` -/
def SliceInv (s : List Char) (start off : Nat) (rest : List Char) : Prop :=
  ∃ pre mid, s = pre ++ mid ++ rest ∧ start = utf8Len pre ∧ off = utf8Len pre + utf8Len mid

theorem SliceInv.step {s : List Char} {start off : Nat} {c : Char} {cs : List Char}
    (h : SliceInv s start off (c :: cs)) : SliceInv s start (off + c.utf8Size) cs := by
  obtain ⟨pre, mid, hs, h1, h2⟩ := h
  exact ⟨pre, mid ++ [c], by simp [hs], h1, by simp [h2, utf8Len_append, utf8Len, Nat.add_assoc]⟩

theorem SliceInv.slice {s : List Char} {start off : Nat} {rest : List Char}
    (h : SliceInv s start off rest) : ∃ m, slice s start off = some m := by
  obtain ⟨pre, mid, hs, h1, h2⟩ := h
  exact ⟨mid, by rw [hs, h1, h2]; exact slice_mid ..⟩

theorem unitLoop_inv (s : List Char) (cs : List Char) :
    ∀ (ch : Char) (unit : List Char) (start off : Nat),
      SliceInv s start off (ch :: cs) →
      SliceInv s (unitLoop ch unit start (off + ch.utf8Size) cs).2.1
        (unitLoop ch unit start (off + ch.utf8Size) cs).2.2.1
        (unitLoop ch unit start (off + ch.utf8Size) cs).2.2.2 := by
  induction cs with
  | nil =>
    intro ch unit start off h
    simp only [unitLoop]
    split <;> exact h.step
  | cons c cs ih =>
    intro ch unit start off h
    simp only [unitLoop]
    split
    · apply ih
      obtain ⟨pre, mid, hs, h1, h2⟩ := h
      exact ⟨pre ++ mid ++ [ch], [], by simp [hs], by simp [h2, utf8Len_append, utf8Len, Nat.add_assoc], by
        simp [h2, utf8Len_append, utf8Len, Nat.add_assoc]⟩
    · exact h.step

theorem finish_repaired_total (st : St) : (finish .repaired st).isPanic = false := by
  unfold finish
  simp only
  split
  · rfl
  · split <;> rfl

theorem applyUnit_repaired_error {st : St} {n : Int} {unit : List Char} {e : Res}
    (h : applyUnit .repaired st n unit = .error e) : e.isPanic = false := by
  unfold applyUnit at h
  split at h
  · cases h; rfl
  · simp only at h
    unfold applyRepaired at h
    split at h <;> split at h <;> cases h <;> rfl

theorem scan_total_aux (s : List Char) (st : St) (off : Nat) (rest : List Char)
    (h : SliceInv s st.start off rest) : (scan .repaired s st off rest).isPanic = false := by
  fun_induction scan .repaired s st off rest with
  | case1 st off => exact finish_repaired_total st
  | case2 st off ch cs htrig hsl =>
    obtain ⟨m, hm⟩ := h.slice
    rw [hm] at hsl; cases hsl
  | case3 st off ch cs htrig num hsl hn hv => cases hv
  | case4 => rfl
  | case5 => rfl
  | case6 st off ch cs htrig num hsl n hn unit start' off' rest' hloop hne e happ =>
    exact applyUnit_repaired_error happ
  | case7 st off ch cs htrig num hsl n hn unit start' off' rest' hloop hne st' happ ih =>
    apply ih
    have := unitLoop_inv s cs ch [] st.start off h
    rw [hloop] at this
    exact this
  | case8 st off ch cs htrig ih => exact ih h.step

/-! ### one-step unfoldings of the scanner -/

theorem scan_nil (v : Version) (s : List Char) (st : St) (off : Nat) :
    scan v s st off [] = finish v st := by
  rw [scan]

theorem scan_skip (v : Version) (s : List Char) (st : St) (off : Nat) (ch : Char) (cs : List Char)
    (h : ch.isDigit = true ∨ off = 0) :
    scan v s st off (ch :: cs) = scan v s st (off + ch.utf8Size) cs := by
  conv => lhs; rw [scan.eq_def]
  have : (!ch.isDigit && off != 0) = false := by
    rcases h with h | h <;> simp [h]
  simp only [this, Bool.false_eq_true, ↓reduceIte]

theorem scan_trigger (v : Version) (s : List Char) (st : St) (off : Nat) (ch : Char) (cs : List Char)
    (num : List Char) (n : Int) (unit : List Char) (start' off' : Nat) (rest' : List Char)
    (hd : ch.isDigit = false) (ho : off ≠ 0) (hsl : slice s st.start off = some num)
    (hn : parseI64 num = some n)
    (hl : unitLoop ch [] st.start (off + ch.utf8Size) cs = (unit, start', off', rest'))
    (hu : unit ≠ []) :
    scan v s st off (ch :: cs) =
      match applyUnit v st n unit with
      | .error e => e
      | .ok st' => scan v s { st' with start := start' } off' rest' := by
  conv => lhs; rw [scan.eq_def]
  have : (!ch.isDigit && off != 0) = true := by simp [hd, ho]
  simp only [this, ↓reduceIte, hsl, hn]
  rw [hl]
  have : unit.isEmpty = false := by cases unit <;> simp_all
  simp only [this, Bool.false_eq_true, ↓reduceIte]
  try rfl

theorem scan_trigger_numfail (s : List Char) (st : St) (off : Nat) (ch : Char) (cs : List Char)
    (num : List Char)
    (hd : ch.isDigit = false) (ho : off ≠ 0) (hsl : slice s st.start off = some num)
    (hn : parseI64 num = none) :
    scan .repaired s st off (ch :: cs) = .err .num := by
  rw [scan.eq_def]
  have : (!ch.isDigit && off != 0) = true := by simp [hd, ho]
  simp only [this, ↓reduceIte, hsl, hn]

end Tv.C18
