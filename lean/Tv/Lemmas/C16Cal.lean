import Tv.Lemmas.C16CalDoe
import Mathlib.Tactic.SplitIfs
import Mathlib.Tactic.Set
import Mathlib.Tactic.IntervalCases
/-!
  Round trip of the calendar functions of the C16 / C17 specification: the date computed from a
  day count maps back to that day count, for every integer day count (no range restriction).
-/
namespace Tv.C16.Spec

theorem daysFromCivil_of_parts (era yn doy mp : Int) (h0 : 0 ≤ yn) (h1 : yn ≤ 399) (d0 : 0 ≤ doy) (d1 : doy ≤ 365)
    (hmp : mp = (5 * doy + 2) / 153) :
    daysFromCivil (if (if mp < 10 then mp + 3 else mp - 9) ≤ 2 then yn + era * 400 + 1 else yn + era * 400)
        (if mp < 10 then mp + 3 else mp - 9) (doy - (153 * mp + 2) / 5 + 1)
      = era * 146097 + (yn * 365 + yn / 4 - yn / 100 + doy) - 719468 := by
  have m0 : 0 ≤ mp := by omega
  have m1 : mp ≤ 11 := by omega
  simp only [daysFromCivil]
  by_cases hlt : mp < 10
  · have e1 : ¬ (mp + 3 ≤ 2) := by omega
    have e2 : mp + 3 > 2 := by omega
    simp only [hlt, if_true, e1, if_false, e2]
    omega
  · have e1 : mp - 9 ≤ 2 := by omega
    have e2 : ¬ (mp - 9 > 2) := by omega
    simp only [hlt, if_false, e1, if_true, e2]
    omega

/-- explicit form of `civilFromDays`: era, year-of-era, day-of-year (from March 1) and shifted
month, with their ranges -/
theorem civilFromDays_parts (z : Int) :
    ∃ era yn doy mp : Int, 0 ≤ yn ∧ yn ≤ 399 ∧ 0 ≤ doy ∧ doy ≤ 365 ∧
      (yn * 365 + yn / 4 - yn / 100 + doy < (yn + 1) * 365 + (yn + 1) / 4 - (yn + 1) / 100 ∨ yn = 399) ∧
      mp = (5 * doy + 2) / 153 ∧
      z = era * 146097 + (yn * 365 + yn / 4 - yn / 100 + doy) - 719468 ∧
      civilFromDays z =
        (if (if mp < 10 then mp + 3 else mp - 9) ≤ 2 then yn + era * 400 + 1 else yn + era * 400,
         if mp < 10 then mp + 3 else mp - 9, doy - (153 * mp + 2) / 5 + 1) := by
  simp only [civilFromDays]
  set era := (z + 719468) / 146097 with hE
  set D := z + 719468 - era * 146097 with hD
  have hd0 : 0 ≤ D := by omega
  have hd1 : D < 146097 := by omega
  obtain ⟨n, hn⟩ := Int.eq_ofNat_of_zero_le hd0
  have hn' : n < 146097 := by omega
  clear_value D
  subst hn
  have hk := doeOk_of_lt n hn'
  simp only [doeOk, Bool.and_eq_true, Nat.ble_eq] at hk
  obtain ⟨⟨⟨k1, k2⟩, k3⟩, k4⟩ := hk
  simp only [Bool.or_eq_true, Nat.ble_eq] at k4
  have ht : ((n - n / 1460 + n / 36524 - n / 146096 : Nat) : Int) = (n : Int) - (n : Int) / 1460 + (n : Int) / 36524 - (n : Int) / 146096 := by
    omega
  generalize hT : n - n / 1460 + n / 36524 - n / 146096 = t at k1 k2 k3 k4 ht
  set yoe := ((n : Int) - (n : Int) / 1460 + (n : Int) / 36524 - (n : Int) / 146096) / 365 with hY
  have hy : ((t / 365 : Nat) : Int) = yoe := by omega
  generalize hYn : t / 365 = yn at k1 k2 k3 k4 hy
  clear_value yoe
  subst hy
  set S := 365 * (yn : Int) + (yn : Int) / 4 - (yn : Int) / 100 with hS
  have hs : ((365 * yn + yn / 4 - yn / 100 : Nat) : Int) = S := by omega
  have s0 : S ≤ (n : Int) := by omega
  have s1 : (n : Int) - S ≤ 365 := by omega
  have q4 : (((yn + 1) / 4 : Nat) : Int) = ((yn : Int) + 1) / 4 := by omega
  have q100 : (((yn + 1) / 100 : Nat) : Int) = ((yn : Int) + 1) / 100 := by omega
  have hnext : (yn : Int) * 365 + (yn : Int) / 4 - (yn : Int) / 100 + ((n : Int) - S)
      < ((yn : Int) + 1) * 365 + ((yn : Int) + 1) / 4 - ((yn : Int) + 1) / 100 ∨ (yn : Int) = 399 := by
    rcases k4 with k4 | k4
    · left
      have e1 : ((365 * (yn + 1) + (yn + 1) / 4 - (yn + 1) / 100 : Nat) : Int)
          = 365 * ((yn : Int) + 1) + ((yn : Int) + 1) / 4 - ((yn : Int) + 1) / 100 := by omega
      have k4' : ((n + 1 : Nat) : Int) ≤ ((365 * (yn + 1) + (yn + 1) / 4 - (yn + 1) / 100 : Nat) : Int) := by
        exact_mod_cast k4
      rw [e1] at k4'
      omega
    · right
      have : yn = 399 := Nat.eq_of_beq_eq_true k4
      omega
  set mp := (5 * ((n : Int) - S) + 2) / 153 with hM
  exact ⟨era, yn, (n : Int) - S, mp, by omega, by omega, by omega, s1, hnext, hM, by omega, rfl⟩

/-- **calendar round trip**: the date of a day count is mapped back to that day count -/
theorem daysFromCivil_civilFromDays (z : Int) :
    daysFromCivil (civilFromDays z).1 (civilFromDays z).2.1 (civilFromDays z).2.2 = z := by
  obtain ⟨era, yn, doy, mp, h0, h1, d0, d1, _, hmp, hz, hc⟩ := civilFromDays_parts z
  rw [hc]
  simp only []
  rw [daysFromCivil_of_parts era yn doy mp h0 h1 d0 d1 hmp]
  omega

/-- the month is in `1..=12` and the day in `1..=31` -/
theorem civilFromDays_range (z : Int) :
    1 ≤ (civilFromDays z).2.1 ∧ (civilFromDays z).2.1 ≤ 12 ∧ 1 ≤ (civilFromDays z).2.2 ∧ (civilFromDays z).2.2 ≤ 31 := by
  obtain ⟨era, yn, doy, mp, h0, h1, d0, d1, _, hmp, hz, hc⟩ := civilFromDays_parts z
  rw [hc]
  simp only []
  have m0 : 0 ≤ mp := by omega
  have m1 : mp ≤ 11 := by omega
  split_ifs <;> omega

/-! ## the other direction: dates to day counts and back -/

/-- Gregorian leap year -/
def isLeapYear (y : Int) : Prop := (y % 4 = 0 ∧ y % 100 ≠ 0) ∨ y % 400 = 0
instance (y : Int) : Decidable (isLeapYear y) := by unfold isLeapYear; infer_instance

/-- days in month `m` of year `y` -/
def daysInMonth (y m : Int) : Int :=
  if m = 2 then (if isLeapYear y then 29 else 28)
  else if m = 4 ∨ m = 6 ∨ m = 9 ∨ m = 11 then 30 else 31

/-- a calendar date -/
def ValidDate (y m d : Int) : Prop := 1 ≤ m ∧ m ≤ 12 ∧ 1 ≤ d ∧ d ≤ daysInMonth y m

/-- year-of-era start day: strictly increasing -/
theorem yoeStart_lt (a b : Int) (h0 : 0 ≤ a) (h : a < b) :
    (a + 1) * 365 + (a + 1) / 4 - (a + 1) / 100 ≤ b * 365 + b / 4 - b / 100 := by
  omega

/-- the shifted month and day-of-year of a calendar date, and the range of the day-of-year -/
theorem doy_bounds (y m d : Int) (hv : ValidDate y m d) :
    let mp0 := if m > 2 then m - 3 else m + 9
    let doy0 := (153 * mp0 + 2) / 5 + d - 1
    0 ≤ mp0 ∧ mp0 ≤ 11 ∧ 0 ≤ doy0 ∧ (5 * doy0 + 2) / 153 = mp0 ∧
      (m > 2 → doy0 ≤ 305) ∧ (m ≤ 2 → doy0 ≤ 364 ∨ (isLeapYear y ∧ doy0 = 365)) := by
  obtain ⟨hm1, hm2, hd1, hd2⟩ := hv
  simp only [daysInMonth] at hd2
  interval_cases m <;> simp at hd2 ⊢ <;> (try split at hd2) <;> (try simp_all) <;> omega

/-- the number of days before year-of-era `a + 1` exceeds that before `a` by 365 or 366 -/
theorem yoeStart_step (a : Int) :
    (a + 1) * 365 + (a + 1) / 4 - (a + 1) / 100 - (a * 365 + a / 4 - a / 100) = 365 +
      (if (a + 1) % 4 = 0 then 1 else 0) - (if (a + 1) % 100 = 0 then 1 else 0) := by
  split_ifs <;> omega

/-- **calendar round trip, other direction**: the day count of a calendar date maps back to that date -/
theorem civilFromDays_daysFromCivil (y m d : Int) (hv : ValidDate y m d) :
    civilFromDays (daysFromCivil y m d) = (y, m, d) := by
  have hb := doy_bounds y m d hv
  obtain ⟨hm1, hm2, hd1, hd2⟩ := hv
  obtain ⟨era, yn, doy, mp, h0, h1, d0, d1, hnext, hmp, hz, hc⟩ := civilFromDays_parts (daysFromCivil y m d)
  rw [hc]
  simp only [daysFromCivil] at hz hb
  -- name the parts of `daysFromCivil y m d`
  set y' := (if m ≤ 2 then y - 1 else y) with hy'
  set era0 := y' / 400 with hera0
  set yoe0 := y' - era0 * 400 with hyoe0
  set mp0 := (if m > 2 then m - 3 else m + 9) with hmp0
  set doy0 := (153 * mp0 + 2) / 5 + d - 1 with hdoy0
  obtain ⟨b0, b1, b2, b3, b4, b5⟩ := hb
  have y0 : 0 ≤ yoe0 := by omega
  have y1 : yoe0 ≤ 399 := by omega
  -- both day-of-era values lie in the era
  have e1 : 0 ≤ yn * 365 + yn / 4 - yn / 100 + doy ∧ yn * 365 + yn / 4 - yn / 100 + doy ≤ 146096 := by omega
  have e2 : 0 ≤ yoe0 * 365 + yoe0 / 4 - yoe0 / 100 + doy0 ∧ yoe0 * 365 + yoe0 / 4 - yoe0 / 100 + doy0 ≤ 146096 := by
    rcases Int.lt_or_le 2 m with hm | hm
    · have := b4 hm; omega
    · rcases b5 hm with h | ⟨_, h⟩ <;> omega
  have hera : era = era0 := by omega
  have hdoe : yn * 365 + yn / 4 - yn / 100 + doy = yoe0 * 365 + yoe0 / 4 - yoe0 / 100 + doy0 := by omega
  -- the year-of-era is determined by the day-of-era
  have hyn : yn = yoe0 := by
    rcases Int.lt_trichotomy yn yoe0 with hlt | heq | hgt
    · have := yoeStart_lt yn yoe0 h0 hlt
      rcases hnext with hn | hn <;> omega
    · exact heq
    · exfalso
      have hs := yoeStart_lt yoe0 yn y0 hgt
      have hstep := yoeStart_step yoe0
      rcases Int.lt_or_le 2 m with hm | hm
      · have := b4 hm
        split_ifs at hstep <;> omega
      · rcases b5 hm with h | ⟨hl, h⟩
        · split_ifs at hstep <;> omega
        · have hy'' : y' = y - 1 := by simp only [hy']; split_ifs <;> omega
          unfold isLeapYear at hl
          split_ifs at hstep <;> omega
  subst hyn
  have hdoy : doy = doy0 := by omega
  have hmp' : mp = mp0 := by rw [hmp, hdoy]; exact b3
  rw [hmp', hdoy, hera]
  have hy'' : y' = if m ≤ 2 then y - 1 else y := hy'
  rcases Int.lt_or_le 2 m with hm | hm
  · have c1 : ¬ m ≤ 2 := by omega
    have c2 : m > 2 := hm
    simp only [hmp0, c2, if_true] at b0 b1 ⊢
    simp only [c1, if_false] at hy''
    by_cases c3 : m - 3 < 10
    · have c4 : ¬ (m - 3 + 3 ≤ 2) := by omega
      simp only [c3, if_true, c4, if_false, Prod.mk.injEq]
      refine ⟨by omega, by omega, ?_⟩
      simp only [hdoy0, hmp0, c2, if_true]; omega
    · omega
  · have c1 : m ≤ 2 := hm
    have c2 : ¬ m > 2 := by omega
    simp only [hmp0, c2, if_false] at b0 b1 ⊢
    simp only [c1, if_true] at hy''
    have c3 : ¬ (m + 9 < 10) := by omega
    have c4 : m + 9 - 9 ≤ 2 := by omega
    simp only [c3, if_false, c4, if_true, Prod.mk.injEq]
    refine ⟨by omega, by omega, ?_⟩
    simp only [hdoy0, hmp0, c2, if_false]; omega

end Tv.C16.Spec
