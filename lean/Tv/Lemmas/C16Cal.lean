import Tv.Lemmas.C16CalDoe
import Mathlib.Tactic.SplitIfs
import Mathlib.Tactic.Set
/-!
  Round trip of the calendar functions of the C16 / C17 specification: the date computed from a
  day count maps back to that day count, for every integer day count (no range restriction).
-/
namespace Tv.C16.Spec

theorem daysFromCivil_of_parts (era yn doy mp : Int) (h0 : 0 ≤ yn) (h1 : yn ≤ 399) (d0 : 0 ≤ doy) (d1 : doy ≤ 365)
    (hmp : mp = (5 * doy + 2) / 153) :
    daysFromCivil (if (if mp < 10 then mp + 3 else mp - 9) ≤ 2 then yn + era * 400 + 1 else yn + era * 400)
        (if mp < 10 then mp + 3 else mp - 9) (doy - (153 * mp + 2) / 5 + 1)
      = era * 146097 + (yn * 365 + yn / 4 - yn / 100 + doy) - 719468 := by
  have m0 : 0 ≤ mp := by omega
  have m1 : mp ≤ 11 := by omega
  simp only [daysFromCivil]
  by_cases hlt : mp < 10
  · have e1 : ¬ (mp + 3 ≤ 2) := by omega
    have e2 : mp + 3 > 2 := by omega
    simp only [hlt, if_true, e1, if_false, e2]
    omega
  · have e1 : mp - 9 ≤ 2 := by omega
    have e2 : ¬ (mp - 9 > 2) := by omega
    simp only [hlt, if_false, e1, if_true, e2]
    omega

/-- explicit form of `civilFromDays`: era, year-of-era, day-of-year (from March 1) and shifted
month, with their ranges -/
theorem civilFromDays_parts (z : Int) :
    ∃ era yn doy mp : Int, 0 ≤ yn ∧ yn ≤ 399 ∧ 0 ≤ doy ∧ doy ≤ 365 ∧
      (yn * 365 + yn / 4 - yn / 100 + doy < (yn + 1) * 365 + (yn + 1) / 4 - (yn + 1) / 100 ∨ yn = 399) ∧
      mp = (5 * doy + 2) / 153 ∧
      z = era * 146097 + (yn * 365 + yn / 4 - yn / 100 + doy) - 719468 ∧
      civilFromDays z =
        (if (if mp < 10 then mp + 3 else mp - 9) ≤ 2 then yn + era * 400 + 1 else yn + era * 400,
         if mp < 10 then mp + 3 else mp - 9, doy - (153 * mp + 2) / 5 + 1) := by
  simp only [civilFromDays]
  set era := (z + 719468) / 146097 with hE
  set D := z + 719468 - era * 146097 with hD
  have hd0 : 0 ≤ D := by omega
  have hd1 : D < 146097 := by omega
  obtain ⟨n, hn⟩ := Int.eq_ofNat_of_zero_le hd0
  have hn' : n < 146097 := by omega
  clear_value D
  subst hn
  have hk := doeOk_of_lt n hn'
  simp only [doeOk, Bool.and_eq_true, Nat.ble_eq] at hk
  obtain ⟨⟨⟨k1, k2⟩, k3⟩, k4⟩ := hk
  simp only [Bool.or_eq_true, Nat.ble_eq] at k4
  have ht : ((n - n / 1460 + n / 36524 - n / 146096 : Nat) : Int) = (n : Int) - (n : Int) / 1460 + (n : Int) / 36524 - (n : Int) / 146096 := by
    omega
  generalize hT : n - n / 1460 + n / 36524 - n / 146096 = t at k1 k2 k3 k4 ht
  set yoe := ((n : Int) - (n : Int) / 1460 + (n : Int) / 36524 - (n : Int) / 146096) / 365 with hY
  have hy : ((t / 365 : Nat) : Int) = yoe := by omega
  generalize hYn : t / 365 = yn at k1 k2 k3 k4 hy
  clear_value yoe
  subst hy
  set S := 365 * (yn : Int) + (yn : Int) / 4 - (yn : Int) / 100 with hS
  have hs : ((365 * yn + yn / 4 - yn / 100 : Nat) : Int) = S := by omega
  have s0 : S ≤ (n : Int) := by omega
  have s1 : (n : Int) - S ≤ 365 := by omega
  have q4 : (((yn + 1) / 4 : Nat) : Int) = ((yn : Int) + 1) / 4 := by omega
  have q100 : (((yn + 1) / 100 : Nat) : Int) = ((yn : Int) + 1) / 100 := by omega
  have hnext : (yn : Int) * 365 + (yn : Int) / 4 - (yn : Int) / 100 + ((n : Int) - S)
      < ((yn : Int) + 1) * 365 + ((yn : Int) + 1) / 4 - ((yn : Int) + 1) / 100 ∨ (yn : Int) = 399 := by
    rcases k4 with k4 | k4
    · left
      have e1 : ((365 * (yn + 1) + (yn + 1) / 4 - (yn + 1) / 100 : Nat) : Int)
          = 365 * ((yn : Int) + 1) + ((yn : Int) + 1) / 4 - ((yn : Int) + 1) / 100 := by omega
      have k4' : ((n + 1 : Nat) : Int) ≤ ((365 * (yn + 1) + (yn + 1) / 4 - (yn + 1) / 100 : Nat) : Int) := by
        exact_mod_cast k4
      rw [e1] at k4'
      omega
    · right
      have : yn = 399 := Nat.eq_of_beq_eq_true k4
      omega
  set mp := (5 * ((n : Int) - S) + 2) / 153 with hM
  exact ⟨era, yn, (n : Int) - S, mp, by omega, by omega, by omega, s1, hnext, hM, by omega, rfl⟩

/-- **calendar round trip**: the date of a day count is mapped back to that day count -/
theorem daysFromCivil_civilFromDays (z : Int) :
    daysFromCivil (civilFromDays z).1 (civilFromDays z).2.1 (civilFromDays z).2.2 = z := by
  obtain ⟨era, yn, doy, mp, h0, h1, d0, d1, _, hmp, hz, hc⟩ := civilFromDays_parts z
  rw [hc]
  simp only []
  rw [daysFromCivil_of_parts era yn doy mp h0 h1 d0 d1 hmp]
  omega

/-- the month is in `1..=12` and the day in `1..=31` -/
theorem civilFromDays_range (z : Int) :
    1 ≤ (civilFromDays z).2.1 ∧ (civilFromDays z).2.1 ≤ 12 ∧ 1 ≤ (civilFromDays z).2.2 ∧ (civilFromDays z).2.2 ≤ 31 := by
  obtain ⟨era, yn, doy, mp, h0, h1, d0, d1, _, hmp, hz, hc⟩ := civilFromDays_parts z
  rw [hc]
  simp only []
  have m0 : 0 ≤ mp := by omega
  have m1 : mp ≤ 11 := by omega
  split_ifs <;> omega

end Tv.C16.Spec
