import Tv.Model.C09Iter
import Tv.Spec.C09Len
/-!
  C09 helper lemmas: exactness of every std adaptor of the hint algebra, of `TrustIter`,
  `Linspace`, and item counts of the library constructions.
-/
namespace Tv.C09
open It

theorem Exact.hint0 {it : It α} (h : Exact it) : it.upper 0 0 = some it.len := by
  have := h 0 0 (Nat.zero_le _)
  simpa [It.len] using this

theorem Exact.hintLen {it : It α} (h : Exact it) : it.hintLen = .ok it.len := by
  simp [It.hintLen, h.hint0]

/-! ### std adaptors -/

theorem ofList_exact (xs : List α) : Exact (ofList xs) := by
  intro f b _; simp [ofList]

theorem repeatN_exact (v : α) (n : Nat) : Exact (repeatN v n) := by
  intro f b _; simp [repeatN]

theorem map_exact (g : α → β) {it : It α} (h : Exact it) : Exact (map g it) := by
  intro f b hb
  simp only [map, List.length_map] at hb ⊢
  exact h f b hb

theorem rev_exact {it : It α} (h : Exact it) : Exact (rev it) := by
  intro f b hb
  simp only [rev, List.length_reverse] at hb ⊢
  rw [h b f (by omega)]
  congr 1; omega

theorem chain_exact {a b : It α} (ha : Exact a) (hb : Exact b) : Exact (chain a b) := by
  intro f k hk
  simp only [chain, List.length_append, It.len] at hk ⊢
  by_cases h1 : f > a.items.length
  · have h2 : ¬ k > b.items.length := by omega
    simp only [h1, h2, if_true, if_false]
    rw [hb _ _ (by omega)]
    congr 1; omega
  · by_cases h2 : k > b.items.length
    · simp only [h1, h2, if_true, if_false]
      rw [ha _ _ (by omega)]
      congr 1; omega
    · simp only [h1, h2, if_false]
      rw [ha _ _ (by omega), hb _ _ (by omega)]
      simp only [optAdd]
      congr 1; omega

theorem take_exact {it : It α} (h : Exact it) (n : Nat) : Exact (take it n) := by
  intro f b hb
  simp only [take, List.length_take, It.len] at hb ⊢
  by_cases h0 : n - f - b = 0
  · simp only [h0, if_true]; congr 1; omega
  · simp only [h0, if_false]
    by_cases hb0 : b = 0
    · subst hb0
      simp only [if_true]
      rw [h f 0 (by omega)]
      simp only
      split <;> (congr 1; omega)
    · simp only [hb0, if_false]
      rw [h f _ (by omega)]
      simp only
      split <;> (congr 1; omega)

theorem skip_exact {it : It α} (h : Exact it) (n : Nat) : Exact (skip it n) := by
  intro f b hb
  simp only [skip, List.length_drop] at hb ⊢
  by_cases hf : f = 0
  · subst hf
    simp only [if_true]
    rw [h 0 b (by omega)]
    simp only [Option.map_some]
    congr 1; omega
  · simp only [hf, if_false]
    rw [h _ b (by omega)]
    congr 1; omega

theorem zipWith_exact (g : α → β → γ) {a : It α} {b : It β} (ha : Exact a) (hb : Exact b) :
    Exact (zipWith g a b) := by
  intro f k hk
  simp only [zipWith, List.length_zipWith, It.len] at hk ⊢
  by_cases hk0 : k = 0
  · subst hk0
    simp only [if_true]
    rw [ha f 0 (by omega), hb f 0 (by omega)]
    simp only [optMin]
    congr 1; omega
  · simp only [hk0, if_false]
    rw [ha f _ (by omega), hb f _ (by omega)]
    simp only [optMin]
    congr 1; omega

/-! ### TrustIter, Linspace, single steps -/

/-- the repaired `TrustIter` is exact as soon as it is built with the true length,
whatever the wrapped iterator announces -/
theorem trust_exact (it : It α) {len : Nat} (h : len = it.len) : Exact (trust it len) := by
  intro f b _
  simp only [trust, It.len] at *
  subst h; congr 1; omega

theorem linspaceIt_exact (val : Nat → α) (n : Nat) : Exact (linspaceIt val n) := by
  intro f b _
  simp only [linspaceIt, List.length_map, List.length_range] at *
  congr 1; omega

theorem advF_exact {it : It α} (h : Exact it) : Exact (advF it) := by
  unfold advF
  split
  · exact h
  · rename_i hne
    intro f b hb
    simp only [List.length_tail] at hb ⊢
    have : it.items.length ≠ 0 := by
      intro h0; apply hne; simp [List.length_eq_zero_iff.mp h0]
    rw [h (f + 1) b (by omega)]
    congr 1; omega

theorem advB_exact {it : It α} (h : Exact it) : Exact (advB it) := by
  unfold advB
  split
  · exact h
  · rename_i hne
    intro f b hb
    simp only [List.length_dropLast] at hb ⊢
    have : it.items.length ≠ 0 := by
      intro h0; apply hne; simp [List.length_eq_zero_iff.mp h0]
    rw [h f (b + 1) (by omega)]
    congr 1; omega

theorem advF_len (it : It α) : (advF it).len = it.len - 1 := by
  unfold advF It.len
  split
  · rename_i h; simp [List.isEmpty_iff.mp h]
  · simp

theorem advB_len (it : It α) : (advB it).len = it.len - 1 := by
  unfold advB It.len
  split
  · rename_i h; simp [List.isEmpty_iff.mp h]
  · simp

/-! ### item counts -/

theorem padTake_len (a : It α) (v : α) (n : Nat) : (padTake a v n).len = n := by
  simp only [padTake, It.len, List.length_append, List.length_take, List.length_replicate]
  omega

theorem ffillItems_length (value : Option (Option β)) (last : Option (Option β)) (xs : List (Option β)) :
    (ffillItems value last xs).length = xs.length := by
  induction xs generalizing last with
  | nil => simp [ffillItems]
  | cons x xs ih =>
    cases x with
    | none => simp [ffillItems, ih]
    | some y => simp [ffillItems, ih]

theorem ffill_exact (value : Option (Option β)) {src : It (Option β)} (h : Exact src) :
    Exact (ffill value src) := by
  intro f b hb
  simp only [ffill, ffillItems_length] at hb ⊢
  exact h f b hb

theorem ffill_len (value : Option (Option β)) (src : It (Option β)) : (ffill value src).len = src.len := by
  simp [ffill, It.len, ffillItems_length]

theorem countValid_le (xs : List E) : countValid xs ≤ xs.length := by
  unfold countValid; exact List.length_filter_le _ _

/-! ### the raw collector -/

theorem collectAfter_exact {it : It α} (h : Exact it) (f b : Nat) (hb : f + b ≤ it.len) :
    collectAfter it f b = .ok ((it.items.drop f).take (it.len - f - b)) := by
  unfold collectAfter
  rw [h f b hb]
  simp only [List.length_take, List.length_drop, It.len]
  have : min (it.items.length - f - b) (it.items.length - f) = it.items.length - f - b := by omega
  simp [this]

theorem collectTrusted_exact {it : It α} (h : Exact it) : collectTrusted it = .ok it.items := by
  unfold collectTrusted
  rw [collectAfter_exact h 0 0 (Nat.zero_le _)]
  simp [It.len]

end Tv.C09
