import Tv.Model.C14Cut
import Tv.Spec.C14
/-! helper lemmas for the binning part of C14 -/
set_option linter.unusedSimpArgs false
namespace Tv.C14
open Tv.C14.Spec


theorem windows_getElem? (e : List Int) (k : Nat) :
    (windows e)[k]? = match e[k]?, e[k + 1]? with
      | some a, some b => some (a, b)
      | _, _ => none := by
  fun_induction windows e generalizing k with
  | case1 a b t ih =>
    cases k with
    | zero => simp
    | succ k => simpa using ih k
  | case2 e h =>
    match e, h with
    | [], _ => simp
    | [a], _ => cases k <;> simp
    | a :: b :: t, h => exact absurd rfl (h a b t)


theorem intervals_getElem?_open (bins : List Int) (k : Nat) :
    (intervals bins true)[k]? =
      if k ≤ bins.length then some ⟨if k = 0 then none else bins[k - 1]?, bins[k]?⟩ else none := by
  unfold intervals
  simp only [if_true, List.getElem?_map, List.zip_eq_zipWith, List.getElem?_zipWith', List.getElem?_append,
    List.length_map]
  cases k with
  | zero =>
    cases bins <;> simp
  | succ k =>
    simp only [List.getElem?_cons_succ, List.getElem?_map, Nat.add_sub_cancel, Nat.succ_ne_zero, if_false]
    by_cases h1 : k + 1 < bins.length
    · have h2 : k < bins.length := by omega
      simp [h1, h2, List.getElem?_eq_getElem, Nat.le_of_lt h1]
    · by_cases h2 : k + 1 = bins.length
      · have h3 : k < bins.length := by omega
        simp [h2.symm, h3, List.getElem?_eq_getElem]
      · have h3 : ¬ k < bins.length := by omega
        have h4 : ¬ k + 1 ≤ bins.length := by omega
        simp [h3, h4, List.getElem?_eq_none (Nat.le_of_not_lt h3)]

theorem intervals_getElem?_closed (bins : List Int) (k : Nat) :
    (intervals bins false)[k]? =
      if k + 1 < bins.length then some ⟨bins[k]?, bins[k + 1]?⟩ else none := by
  unfold intervals
  simp only [Bool.false_eq_true, if_false, List.getElem?_map, List.zip_eq_zipWith, List.getElem?_zipWith',
    List.getElem?_drop]
  by_cases h1 : k + 1 < bins.length
  · have h2 : k < bins.length := by omega
    simp [h1, h2, List.getElem?_eq_getElem, Nat.add_comm 1 k]
  · simp only [h1, if_false]
    rw [List.getElem?_eq_none (l := bins) (i := 1 + k) (by omega)]
    cases bins[k]? <;> simp
theorem hit_open (MIN MAX : Int) (bins : List Int) (right : Bool) (v : Int) (k : Nat) :
    ((windows (MIN :: (bins ++ [MAX])))[k]?).map (binTest right true bins.length v k)
      = ((intervals bins true)[k]?).map (·.contains right v) := by
  rw [windows_getElem?, intervals_getElem?_open]
  rcases Nat.lt_trichotomy k bins.length with h | h | h
  · -- inner or first bin
    have hk1 : (MIN :: (bins ++ [MAX]))[k + 1]? = some bins[k] := by
      simp [List.getElem?_append, h]
    have hne : (k == bins.length) = false := by simp; omega
    cases k with
    | zero =>
      simp [binTest, Interval.contains, hne, List.getElem?_eq_getElem h, List.getElem_append_left h]
    | succ k =>
      have hk0 : (MIN :: (bins ++ [MAX]))[k + 1]? = some bins[k] := by
        simp [List.getElem?_append, show k < bins.length by omega]
      simp [hk1, hk0, binTest, Interval.contains, hne, List.getElem?_eq_getElem h,
        List.getElem?_eq_getElem (show k < bins.length by omega), Nat.le_of_lt h]
  · -- last bin
    subst h
    have hk1 : (MIN :: (bins ++ [MAX]))[bins.length + 1]? = some MAX := by
      simp [List.getElem?_append]
    cases hb : bins.length with
    | zero =>
      have : bins = [] := List.eq_nil_of_length_eq_zero hb
      subst this
      simp [binTest, Interval.contains]
    | succ n =>
      have hk0 : (MIN :: (bins ++ [MAX]))[n + 1]? = some bins[n] := by
        simp [List.getElem?_append, show n < bins.length by omega]
      rw [hb] at hk1
      simp [hk1, hk0, binTest, Interval.contains, hb,
        List.getElem?_eq_getElem (show n < bins.length by omega)]
  · have hk1 : (MIN :: (bins ++ [MAX]))[k + 1]? = none :=
      List.getElem?_eq_none (by simp only [List.length_cons, List.length_append, List.length_nil]; omega)
    have : ¬ k ≤ bins.length := by omega
    rw [hk1]
    simp only [this, if_false, Option.map_none]
    cases (MIN :: (bins ++ [MAX]))[k]? <;> simp

theorem hit_closed (bins : List Int) (right : Bool) (lastBin : Nat) (v : Int) (k : Nat) :
    ((windows bins)[k]?).map (binTest right false lastBin v k)
      = ((intervals bins false)[k]?).map (·.contains right v) := by
  rw [windows_getElem?, intervals_getElem?_closed]
  by_cases h : k + 1 < bins.length
  · simp [h, List.getElem?_eq_getElem h, List.getElem?_eq_getElem (show k < bins.length by omega),
      binTest, Interval.contains]
  · simp only [h, if_false, Option.map_none]
    rw [List.getElem?_eq_none (l := bins) (i := k + 1) (by omega)]
    cases bins[k]? <;> simp


/-- label paired with the first `true` of a list of hits -/
def pick {L : Type} (H : List Bool) (ls : List L) : Option L := ((H.zip ls).find? (·.1)).map (·.2)

theorem firstMatch_eq_pick {L : Type} (test : Nat → Int × Int → Bool) (i0 : Nat) (ws : List (Int × Int))
    (ls : List L) :
    firstMatch test i0 (ws.zip ls) = pick ((ws.zipIdx i0).map (fun p => test p.2 p.1)) ls := by
  induction ws generalizing ls i0 with
  | nil => simp [firstMatch, pick]
  | cons w ws ih =>
    cases ls with
    | nil => simp [firstMatch, pick]
    | cons l ls =>
      by_cases h : test i0 w
      · simp [firstMatch, pick, h]
      · have := ih (i0 + 1) ls
        simp only [pick] at this
        simp [firstMatch, pick, h, this]

theorem pick_eq_none_iff {L : Type} (H : List Bool) (ls : List L) (hlen : ls.length = H.length) :
    pick H ls = none ↔ ∀ k : Nat, H[k]? ≠ some true := by
  induction H generalizing ls with
  | nil => simp [pick]
  | cons b H ih =>
    cases ls with
    | nil => simp at hlen
    | cons l ls =>
      have ih' := ih ls (by simpa using hlen)
      cases b with
      | true =>
        simp only [pick, List.zip_cons_cons, List.find?_cons_of_pos, Option.map_some]
        simp only [reduceCtorEq, false_iff]
        intro h
        exact h 0 (by simp)
      | false =>
        simp only [pick] at ih'
        simp only [pick, List.zip_cons_cons, Bool.false_eq_true, not_false_eq_true, List.find?_cons_of_neg, ih']
        constructor
        · intro h k
          cases k with
          | zero => simp
          | succ k => simpa using h k
        · intro h k
          simpa using h (k + 1)

theorem pick_eq_some_of_first {L : Type} (H : List Bool) (ls : List L) (k : Nat) (l : L)
    (hk : H[k]? = some true) (hfirst : ∀ j, j < k → H[j]? ≠ some true) (hl : ls[k]? = some l) :
    pick H ls = some l := by
  induction H generalizing ls k with
  | nil => simp at hk
  | cons b H ih =>
    cases ls with
    | nil => simp at hl
    | cons l' ls =>
      cases k with
      | zero =>
        simp at hk hl
        subst hk hl
        simp [pick]
      | succ k =>
        have hb : b = false := by
          have := hfirst 0 (by omega)
          cases b <;> simp_all
        subst hb
        have := ih ls k (by simpa using hk) (fun j hj => by simpa using hfirst (j + 1) (by omega)) (by simpa using hl)
        simp only [pick] at this
        simp [pick, this]

theorem pick_some_elim {L : Type} (H : List Bool) (ls : List L) (l : L) (h : pick H ls = some l) :
    ∃ k : Nat, H[k]? = some true ∧ ls[k]? = some l ∧ ∀ j : Nat, j < k → H[j]? = some false := by
  induction H generalizing ls with
  | nil => simp [pick] at h
  | cons b H ih =>
    cases ls with
    | nil => simp [pick] at h
    | cons l' ls =>
      cases b with
      | true =>
        simp [pick] at h
        exact ⟨0, by simp, by simp [h], by intro j hj; omega⟩
      | false =>
        have h' : pick H ls = some l := by simpa [pick] using h
        obtain ⟨k, h1, h2, h3⟩ := ih ls h'
        refine ⟨k + 1, by simpa using h1, by simpa using h2, ?_⟩
        intro j hj
        cases j with
        | zero => simp
        | succ j => simpa using h3 j (by omega)

theorem filter_range_singleton (p : Nat → Bool) (n k : Nat) (hk : k < n) (hp : p k = true)
    (huniq : ∀ j, j < n → p j = true → j = k) : (List.range n).filter p = [k] := by
  induction n with
  | zero => omega
  | succ n ih =>
    rw [List.range_succ, List.filter_append]
    by_cases hkn : k = n
    · subst hkn
      have : (List.range k).filter p = [] := by
        rw [List.filter_eq_nil_iff]
        intro a ha hpa
        have := huniq a (by simp at ha; omega) hpa
        simp at ha; omega
      simp [this, hp]
    · have h1 := ih (by omega) (fun j hj hpj => huniq j (by omega) hpj)
      have h2 : p n = false := by
        cases hpn : p n with
        | false => rfl
        | true => exact absurd (huniq n (by omega) hpn) (by omega)
      simp [h1, h2]



/-- ascending (non-strict) edges -/
def Ascending (bins : List Int) : Prop := bins.Pairwise (· ≤ ·)

theorem asc_le (bins : List Int) (hasc : Ascending bins) (i j : Nat) (hij : i ≤ j) (hj : j < bins.length) :
    bins[i]'(by omega) ≤ bins[j] := by
  rcases Nat.lt_or_eq_of_le hij with h | h
  · exact (List.pairwise_iff_getElem.mp hasc) i j (by omega) hj h
  · subst h; exact Int.le_refl _

theorem contains_lt_absurd (bins : List Int) (hasc : Ascending bins) (ab right : Bool) (v : Int)
    (i j : Nat) (I J : Interval) (hij : i < j)
    (hi : (intervals bins ab)[i]? = some I) (hj : (intervals bins ab)[j]? = some J)
    (hI : I.contains right v = true) (hJ : J.contains right v = true) : False := by
  cases ab with
  | true =>
    rw [intervals_getElem?_open] at hi hj
    have hjl : j ≤ bins.length := by
      rcases Nat.lt_or_ge bins.length j with h | h
      · simp [show ¬ j ≤ bins.length by omega] at hj
      · exact h
    have hil : i < bins.length := by omega
    have hj0 : j ≠ 0 := by omega
    simp only [show i ≤ bins.length by omega, hjl, if_true, Option.some.injEq, hj0, if_false] at hi hj
    subst hi hj
    have hle := asc_le bins hasc i (j - 1) (by omega) (by omega)
    simp only [Interval.contains, List.getElem?_eq_getElem hil,
      List.getElem?_eq_getElem (show j - 1 < bins.length by omega)] at hI hJ
    cases right <;> simp at hI hJ <;> omega
  | false =>
    rw [intervals_getElem?_closed] at hi hj
    have hjl : j + 1 < bins.length := by
      rcases Nat.lt_or_ge (j + 1) bins.length with h | h
      · exact h
      · simp [show ¬ j + 1 < bins.length by omega] at hj
    simp only [show i + 1 < bins.length by omega, hjl, if_true, Option.some.injEq] at hi hj
    subst hi hj
    have hle := asc_le bins hasc (i + 1) j (by omega) (by omega)
    simp only [Interval.contains, List.getElem?_eq_getElem (show i + 1 < bins.length by omega),
      List.getElem?_eq_getElem (show j < bins.length by omega)] at hI hJ
    cases right <;> simp at hI hJ <;> omega

theorem contains_unique (bins : List Int) (hasc : Ascending bins) (ab right : Bool) (v : Int)
    (i j : Nat) (I J : Interval)
    (hi : (intervals bins ab)[i]? = some I) (hj : (intervals bins ab)[j]? = some J)
    (hI : I.contains right v = true) (hJ : J.contains right v = true) : i = j := by
  rcases Nat.lt_trichotomy i j with h | h | h
  · exact (contains_lt_absurd bins hasc ab right v i j I J h hi hj hI hJ).elim
  · exact h
  · exact (contains_lt_absurd bins hasc ab right v j i J I h hj hi hJ hI).elim

theorem intervals_length (bins : List Int) (ab : Bool) :
    (intervals bins ab).length + 1 = nEdges bins ab ∨ (ab = false ∧ bins = [] ∧ (intervals bins ab).length = 0) := by
  cases ab with
  | true => left; simp [intervals, nEdges]
  | false =>
    cases bins with
    | nil => right; simp [intervals]
    | cons b t => left; simp [intervals, nEdges]



/-- for every interval of the specification, whether it contains `v` -/
def hits (bins : List Int) (ab right : Bool) (v : Int) : List Bool :=
  (intervals bins ab).map (·.contains right v)

theorem hits_getElem? (bins : List Int) (ab right : Bool) (v : Int) (k : Nat) :
    (hits bins ab right v)[k]? = ((intervals bins ab)[k]?).map (·.contains right v) := by
  simp [hits]

theorem edgesOf_eq (MIN MAX : Int) (bins : List Int) (n : Nat) (ab : Bool) :
    edgesOf MIN MAX bins n ab =
      if n + 1 ≠ nEdges bins ab then none
      else some (if ab then MIN :: (bins ++ [MAX]) else bins) := by
  unfold edgesOf nEdges
  cases ab with
  | true =>
    by_cases h : n = bins.length + 1
    · simp [h]
    · have : ¬ n + 1 = bins.length + 2 := by omega
      simp [h, this]
  | false => simp

theorem model_hits (MIN MAX : Int) (bins : List Int) (ab right : Bool) (v : Int) :
    let edges := if ab then MIN :: (bins ++ [MAX]) else bins
    ((windows edges).zipIdx 0).map (fun p => binTest right ab (edges.length - 2) v p.2 p.1)
      = hits bins ab right v := by
  intro edges
  apply List.ext_getElem?
  intro k
  rw [hits_getElem?, List.getElem?_map, List.getElem?_zipIdx, Option.map_map]
  cases ab with
  | true =>
    have hl : edges.length - 2 = bins.length := by simp [edges]
    rw [hl, ← hit_open MIN MAX bins right v k]
    simp [edges, Function.comp_def]
  | false =>
    rw [← hit_closed bins right (edges.length - 2) v k]
    simp [edges, Function.comp_def]

theorem cutItem_eq_pick {L : Type} (MIN MAX : Int) (bins : List Int) (labels : List L) (ab right : Bool)
    (v : Int) :
    let edges := if ab then MIN :: (bins ++ [MAX]) else bins
    cutItem (binTest right ab (edges.length - 2)) edges labels (some v)
      = match pick (hits bins ab right v) labels with
        | some l => .label l
        | none => .outside := by
  intro edges
  simp only [cutItem]
  rw [firstMatch_eq_pick, model_hits MIN MAX bins ab right v]
  cases pick (hits bins ab right v) labels <;> rfl

/-- the pinned / repaired model outcome as a specification outcome -/
def Item.toOutcome {L : Type} : Item L → Outcome L
  | .label l => .label l
  | .null => .null
  | .outside => .outside

theorem labels_length {L : Type} (bins : List Int) (labels : List L) (ab : Bool)
    (hlen : labels.length + 1 = nEdges bins ab) : labels.length = (intervals bins ab).length := by
  rcases intervals_length bins ab with h | ⟨h1, h2, _⟩
  · omega
  · subst h1 h2; simp [nEdges] at hlen

theorem pick_eq_cutOne {L : Type} (bins : List Int) (hasc : Ascending bins) (labels : List L)
    (ab right : Bool) (v : Int) (hlen : labels.length + 1 = nEdges bins ab) :
    (match pick (hits bins ab right v) labels with
      | some l => Outcome.label l
      | none => Outcome.outside) = cutOne (intervals bins ab) labels right (some v) := by
  have hll := labels_length bins labels ab hlen
  have hpred : ∀ k : Nat, hitAt (intervals bins ab) right v k = true ↔
      (hits bins ab right v)[k]? = some true := by
    intro k
    rw [hits_getElem?]
    unfold hitAt
    cases (intervals bins ab)[k]? <;> simp
  unfold cutOne
  cases hp : pick (hits bins ab right v) labels with
  | none =>
    have hnone := (pick_eq_none_iff _ labels (by simpa [hits] using hll)).mp hp
    have : (List.range (intervals bins ab).length).filter (hitAt (intervals bins ab) right v) = [] := by
      rw [List.filter_eq_nil_iff]
      intro k _ hk
      exact hnone k ((hpred k).mp hk)
    simp only [this]
  | some l =>
    obtain ⟨k, hk, hl, _⟩ := pick_some_elim _ labels l hp
    have hkl : k < (intervals bins ab).length := by
      rw [hits_getElem?] at hk
      rcases Nat.lt_or_ge k (intervals bins ab).length with h | h
      · exact h
      · simp [List.getElem?_eq_none h] at hk
    have : (List.range (intervals bins ab).length).filter (hitAt (intervals bins ab) right v) = [k] := by
      apply filter_range_singleton _ _ k hkl ((hpred k).mpr hk)
      intro j hj hpj
      have hj' := (hpred j).mp hpj
      rw [hits_getElem?] at hj' hk
      cases hJ : (intervals bins ab)[j]? with
      | none => simp [hJ] at hj'
      | some J =>
        cases hI : (intervals bins ab)[k]? with
        | none => simp [hI] at hk
        | some I =>
          simp [hJ] at hj'
          simp [hI] at hk
          exact contains_unique bins hasc ab right v j k J I hJ hI hj' hk
    simp only [this, hl]



/-- with open outer bounds some interval contains `v` (the first one whose upper edge is not below `v`) -/
theorem open_exists_hit (bins : List Int) (right : Bool) (v : Int) :
    ∃ (k : Nat) (I : Interval), (intervals bins true)[k]? = some I ∧ I.contains right v = true := by
  -- `up b`: `v` is below the upper edge `b`
  let up : Int → Bool := fun b => if right then decide (v ≤ b) else decide (v < b)
  have hstep : ∀ m, m ≤ bins.length →
      (∃ (k : Nat) (I : Interval), (intervals bins true)[k]? = some I ∧ I.contains right v = true) ∨
      (∀ j (hj : j < bins.length), j < m → up bins[j] = false) := by
    intro m
    induction m with
    | zero => intro _; right; intro j _ h; omega
    | succ m ih =>
      intro hm
      rcases ih (by omega) with h | h
      · exact Or.inl h
      · by_cases hup : up bins[m] = true
        · left
          refine ⟨m, ⟨if m = 0 then none else bins[m - 1]?, bins[m]?⟩, ?_, ?_⟩
          · rw [intervals_getElem?_open]; simp [show m ≤ bins.length by omega]
          · cases m with
            | zero =>
              simp only [Interval.contains, if_true, List.getElem?_eq_getElem (show 0 < bins.length by omega)]
              simpa [up] using hup
            | succ m =>
              have hprev := h m (by omega) (by omega)
              simp only [Interval.contains, Nat.succ_ne_zero, if_false, Nat.add_sub_cancel,
                List.getElem?_eq_getElem (show m < bins.length by omega),
                List.getElem?_eq_getElem (show m + 1 < bins.length by omega)]
              cases right <;> simp [up] at hup hprev ⊢ <;> omega
        · right
          intro j hj hjm
          by_cases hjm' : j = m
          · subst hjm'; simpa using hup
          · exact h j hj (by omega)
  rcases hstep bins.length (Nat.le_refl _) with h | h
  · exact h
  · refine ⟨bins.length, ⟨if bins.length = 0 then none else bins[bins.length - 1]?, bins[bins.length]?⟩, ?_, ?_⟩
    · rw [intervals_getElem?_open]; simp
    · cases hn : bins.length with
      | zero => simp [Interval.contains, List.getElem?_eq_none (show bins.length ≤ 0 by omega)]
      | succ n =>
        have hprev := h n (by omega) (by omega)
        simp only [Interval.contains, Nat.succ_ne_zero, if_false, Nat.add_sub_cancel,
          List.getElem?_eq_getElem (show n < bins.length by omega),
          List.getElem?_eq_none (show bins.length ≤ n + 1 by omega)]
        cases right <;> simp [up] at hprev ⊢ <;> omega


/-- the outcome for one element in terms of the specification's intervals -/
def itemOf {L : Type} (bins : List Int) (labels : List L) (ab right : Bool) : Option Int → Item L
  | none => .null
  | some v =>
    match pick (hits bins ab right v) labels with
    | some l => .label l
    | none => .outside

/-- `vcut` restated over the specification's intervals: label-count check, then per element the
label paired with the first interval containing the value -/
theorem vcut_eq {L : Type} (MIN MAX : Int) (xs : List (Option Int)) (bins : List Int) (labels : List L)
    (right ab : Bool) :
    vcut MIN MAX xs bins labels right ab =
      if labels.length + 1 ≠ nEdges bins ab then none
      else some (xs.map (itemOf bins labels ab right)) := by
  unfold vcut
  rw [edgesOf_eq]
  by_cases h : labels.length + 1 ≠ nEdges bins ab
  · simp [h]
  · simp only [h, if_false, Option.map_some, Option.some.injEq]
    apply List.map_congr_left
    intro x _
    cases x with
    | none => rfl
    | some v => exact cutItem_eq_pick MIN MAX bins labels ab right v

end Tv.C14
