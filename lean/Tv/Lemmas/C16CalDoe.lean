import Tv.Spec.C16Calendar
/-!
  The one fact about the proleptic Gregorian day-count algorithm that is not linear arithmetic:
  for every day `n` of the 400-year era (`0 ≤ n < 146097`) the year-of-era estimate
  `(n - n/1460 + n/36524 - n/146096) / 365` is at most 399 and its first day is at most `n` and
  at least `n - 365`, and the first day of the next year-of-era lies after `n` (except in year 399).  It is checked for all 146097 days by kernel evaluation (`decide +kernel`
  over `Nat` arithmetic, in chunks of 1000 to bound the recursion depth; about 50 s).
-/
namespace Tv.C16.Spec

def doeOk (n : Nat) : Bool :=
  let t := n - n / 1460 + n / 36524 - n / 146096
  let yoe := t / 365
  let s := 365 * yoe + yoe / 4 - yoe / 100
  let s1 := 365 * (yoe + 1) + (yoe + 1) / 4 - (yoe + 1) / 100
  Nat.ble yoe 399 && Nat.ble s n && Nat.ble (n - s) 365 && (Nat.ble (n + 1) s1 || Nat.beq yoe 399)

def chunkOk (k : Nat) : Bool :=
  (List.range 1000).all fun i => Nat.ble 146097 (1000 * k + i) || doeOk (1000 * k + i)

theorem doeOk_chunks : (List.range 147).all chunkOk = true := by decide +kernel

theorem doeOk_of_lt (n : Nat) (h : n < 146097) : doeOk n = true := by
  have hk : n / 1000 ∈ List.range 147 := by simp; omega
  have hi : n % 1000 ∈ List.range 1000 := by simp; omega
  have h1 := List.all_eq_true.mp doeOk_chunks _ hk
  have h2 := List.all_eq_true.mp h1 _ hi
  have e : 1000 * (n / 1000) + n % 1000 = n := by omega
  rw [e] at h2
  simp only [Bool.or_eq_true, Nat.ble_eq] at h2
  rcases h2 with h2 | h2
  · omega
  · exact h2

end Tv.C16.Spec
