import Tv.Lemmas.C18Render
/-! C18 — the from-scratch recogniser of the specification inverts `render`. -/
set_option linter.unusedSimpArgs false
namespace Tv.C18
open Spec

theorem takeWhile_run {α : Type} (p : α → Bool) (l r : List α) (hl : ∀ x ∈ l, p x = true)
    (hr : ∀ y ∈ r.head?, p y = false) : (l ++ r).takeWhile p = l ∧ (l ++ r).dropWhile p = r := by
  induction l with
  | nil =>
    cases r with
    | nil => simp
    | cons y r => simp [List.takeWhile, List.dropWhile, hr y (by simp)]
  | cons x l ih =>
    have := ih (fun x hx => hl x (by simp [hx]))
    simp [List.takeWhile, List.dropWhile, hl x (by simp), this.1, this.2]

theorem digitOf_digitChar (d : Fin 10) : digitOf (digitChar d) = some d := by revert d; decide
theorem isLetter_digitChar (d : Fin 10) : isLetter (digitChar d) = false := by revert d; decide

theorem filterMap_digitOf (ds : List (Fin 10)) : (ds.map digitChar).filterMap digitOf = ds := by
  induction ds with
  | nil => rfl
  | cons d ds ih => simp [List.filterMap_cons, digitOf_digitChar, ih]

theorem unitOfName_name (u : TUnit) : unitOfName u.name = some u := by cases u <;> rfl

theorem name_letters (u : TUnit) : ∀ c ∈ u.name, isLetter c = true ∧ (digitOf c).isSome = false := by
  cases u <;> decide

/-- the first character of a rendered list is not a letter -/
theorem render_head (ts : List Term) : ∀ y ∈ (render ts).head?, isLetter y = false := by
  cases ts with
  | nil => simp [render]
  | cons t ts =>
    intro y hy
    simp only [render, Term.render] at hy
    cases hs : t.sign <;> simp [hs, Sign.chars] at hy <;> subst hy
    · exact isLetter_digitChar _
    · decide
    · decide

theorem signOf_render (t : Term) (ts : List Term) : signOf (t.render ++ render ts) = t.sign := by
  unfold Term.render
  cases hs : t.sign <;> simp [Sign.chars, signOf, digitChar_ne_minus, digitChar_ne_plus]

theorem bodyOf_render (t : Term) (ts : List Term) :
    bodyOf (t.render ++ render ts) = (t.d0 :: t.ds).map digitChar ++ (t.unit.name ++ render ts) := by
  unfold Term.render
  cases hs : t.sign <;> simp [Sign.chars, bodyOf, digitChar_ne_minus, digitChar_ne_plus]

theorem takeTerm_render (t : Term) (ts : List Term) :
    takeTerm (t.render ++ render ts) = some (t, render ts) := by
  have h1 := takeWhile_run isDigitChar ((t.d0 :: t.ds).map digitChar) (t.unit.name ++ render ts)
    (by intro x hx; obtain ⟨d, _, rfl⟩ := List.mem_map.mp hx; simp [isDigitChar, digitOf_digitChar])
    (by
      intro y hy
      obtain ⟨l, ls, hname, _⟩ := name_shape t.unit
      rw [hname] at hy
      simp at hy
      subst hy
      exact (name_letters t.unit l (by simp [hname])).2)
  have h2 := takeWhile_run isLetter t.unit.name (render ts)
    (fun c hc => (name_letters t.unit c hc).1) (render_head ts)
  unfold takeTerm
  rw [signOf_render, bodyOf_render, h1.1, h1.2, h2.1, h2.2, filterMap_digitOf, unitOfName_name]

theorem recognise_render (ts : List Term) :
    ∀ fuel, ts.length ≤ fuel → recognise fuel (render ts) = some ts := by
  induction ts with
  | nil => intro fuel _; cases fuel <;> rfl
  | cons t ts ih =>
    intro fuel hf
    obtain ⟨fuel, rfl⟩ : ∃ k, fuel = k + 1 := ⟨fuel - 1, by simp at hf; omega⟩
    obtain ⟨c, tl, hnum, _, _⟩ := numChars_shape t
    have hr : render (t :: ts) = c :: (tl ++ t.unit.name ++ render ts) := by
      simp [render, render_eq, hnum]
    have ht := takeTerm_render t ts
    rw [show t.render ++ render ts = render (t :: ts) from rfl, hr] at ht
    rw [hr]
    simp only [recognise, ht]
    rw [ih fuel (by simp at hf; omega)]
    rfl

theorem render_length (ts : List Term) : ts.length ≤ (render ts).length := by
  induction ts with
  | nil => simp
  | cons t ts ih =>
    simp only [render, List.length_append, List.length_cons, Term.render, List.length_map]
    omega

/-! ### soundness: whatever the recogniser accepts is the rendering of the terms it returns -/

theorem digitChar_of_digitOf {c : Char} {d : Fin 10} (h : digitOf c = some d) : digitChar d = c := by
  unfold digitOf at h
  split at h
  · rename_i hc
    cases h
    simp only [digitChar]
    have : 48 + (c.toNat - 48) = c.toNat := by omega
    rw [this]
    exact Char.ofNat_toNat c
  · cases h

theorem mem_takeWhile_sat {α : Type} (p : α → Bool) (l : List α) : ∀ x ∈ l.takeWhile p, p x = true := by
  induction l with
  | nil => simp
  | cons a l ih =>
    intro x hx
    simp only [List.takeWhile] at hx
    split at hx
    · rename_i ha
      rcases List.mem_cons.mp hx with rfl | hm
      · exact ha
      · exact ih x hm
    · cases hx

theorem map_filterMap_digits (l : List Char) (h : ∀ c ∈ l, isDigitChar c = true) :
    (l.filterMap digitOf).map digitChar = l := by
  induction l with
  | nil => rfl
  | cons c l ih =>
    have hc := h c (by simp)
    unfold isDigitChar at hc
    obtain ⟨d, hd⟩ := Option.isSome_iff_exists.mp hc
    simp [List.filterMap_cons, hd, digitChar_of_digitOf hd, ih (fun c hc => h c (by simp [hc]))]

theorem unitOfName_sound {cs : List Char} {u : TUnit} (h : unitOfName cs = some u) : u.name = cs := by
  unfold unitOfName at h
  have := List.find?_some h
  simpa using this

theorem sign_body (s : List Char) : (signOf s).chars ++ bodyOf s = s := by
  cases s with
  | nil => rfl
  | cons c cs =>
    by_cases h1 : c = '-'
    · subst h1; simp [signOf, bodyOf, Sign.chars]
    · by_cases h2 : c = '+'
      · subst h2; simp [signOf, bodyOf, Sign.chars]
      · simp [signOf, bodyOf, Sign.chars, h1, h2]

theorem takeTerm_sound {s : List Char} {t : Term} {tail : List Char}
    (h : takeTerm s = some (t, tail)) : s = t.render ++ tail := by
  unfold takeTerm at h
  split at h
  · rename_i d0 ds u hd hu
    cases h
    have hdig : ∀ c ∈ (bodyOf s).takeWhile isDigitChar, isDigitChar c = true :=
      mem_takeWhile_sat isDigitChar _
    have h1 := map_filterMap_digits _ hdig
    rw [hd] at h1
    have h2 := unitOfName_sound hu
    have h3 := List.takeWhile_append_dropWhile (p := isDigitChar) (l := bodyOf s)
    have h4 := List.takeWhile_append_dropWhile (p := isLetter) (l := (bodyOf s).dropWhile isDigitChar)
    simp only [Term.render]
    rw [h1, h2, List.append_assoc, List.append_assoc, h4, h3, sign_body]
  · cases h

theorem recognise_sound (fuel : Nat) :
    ∀ (s : List Char) (ts : List Term), recognise fuel s = some ts → s = render ts := by
  induction fuel with
  | zero =>
    intro s ts h
    cases s with
    | nil => simp [recognise] at h; subst h; rfl
    | cons c cs => simp [recognise] at h
  | succ fuel ih =>
    intro s ts h
    cases s with
    | nil => simp [recognise] at h; subst h; rfl
    | cons c cs =>
      simp only [recognise] at h
      split at h
      · rename_i t tail ht
        cases hrec : recognise fuel tail with
        | none => rw [hrec] at h; cases h
        | some ts' =>
          rw [hrec] at h
          simp only [Option.map_some, Option.some.injEq] at h
          subst h
          rw [takeTerm_sound ht, ih tail ts' hrec]
          rfl
      · cases h

end Tv.C18
