import Tv.Lemmas.C03CmpMain
import Mathlib.Tactic.Ring
import Mathlib.Tactic.FieldSimp
/-!
  `ts_vrank`: the O(w) recount equals the average rank of the current element among the
  non-null elements of its window.
-/
namespace Tv.C03
open Tv

theorem vals_map (g : Nat → Option Rat) (l : List Nat) : Spec.vals (l.map g) = l.filterMap g := by
  simp [Spec.vals, List.filterMap_map]

/-- the counting loop, for any list of positions and any starting counters -/
theorem rank_foldl (g : Nat → Option Rat) (v : Rat) (l : List Nat) (a b : Nat) :
    l.foldl (rankAcc g v) (a, b)
      = (a + (l.filterMap g).countP (fun x => decide (x < v)),
         b + (l.filterMap g).countP (fun x => decide (x = v))) := by
  induction l generalizing a b with
  | nil => simp
  | cons i r ih =>
    rw [List.foldl_cons, List.filterMap_cons]
    cases hg : g i with
    | none =>
      have : rankAcc g v (a, b) i = (a, b) := by simp [rankAcc, hg]
      rw [this]; exact ih a b
    | some x =>
      simp only
      by_cases h1 : x < v
      · have h2 : ¬ x = v := by intro h; rw [h] at h1; exact absurd h1 (lt_irrefl v)
        have : rankAcc g v (a, b) i = (a + 1, b) := by simp [rankAcc, hg, h1]
        rw [this, ih]
        simp only [List.countP_cons, h1, h2, decide_true, decide_false, if_true]
        simp; omega
      · by_cases h2 : x = v
        · have : rankAcc g v (a, b) i = (a, b + 1) := by simp [rankAcc, hg, h1, h2]
          rw [this, ih]
          simp only [List.countP_cons, h1, h2, decide_true, decide_false, if_true]
          simp; omega
        · have : rankAcc g v (a, b) i = (a, b) := by simp [rankAcc, hg, h1, h2]
          rw [this, ih]
          simp only [List.countP_cons, h1, h2, decide_false]
          simp

theorem rankCount_eq (g : Nat → Option Rat) (lo e : Nat) (v : Rat) :
    rankCount g lo e v =
      (((List.range' lo (e - lo)).filterMap g).countP (fun x => decide (x < v)),
       ((List.range' lo (e - lo)).filterMap g).countP (fun x => decide (x = v))) := by
  unfold rankCount
  rw [rank_foldl]; simp

/-- trichotomy, counted -/
theorem count_trichotomy (v : Rat) (vs : List Rat) :
    vs.countP (fun x => decide (x < v)) + vs.countP (fun x => decide (x = v))
      + vs.countP (fun x => decide (v < x)) = vs.length := by
  induction vs with
  | nil => rfl
  | cons x r ih =>
    simp only [List.countP_cons, List.length_cons]
    rcases lt_trichotomy x v with h | h | h
    · have h2 : ¬ x = v := ne_of_lt h
      have h3 : ¬ v < x := lt_asymm h
      simp [h, h2, h3]; omega
    · subst h; simp [lt_irrefl]; omega
    · have h2 : ¬ x = v := ne_of_gt h
      have h3 : ¬ x < v := lt_asymm h
      simp [h, h2, h3]; omega

theorem winL_snoc (g : Nat → Option Rat) (lo i : Nat) (h : lo ≤ i) :
    winL g lo i = (List.range' lo (i - lo)).map g ++ [g i] := by
  unfold winL
  have e1 : i + 1 - lo = (i - lo) + 1 := by omega
  rw [e1, List.range'_concat, List.map_append]
  have e2 : lo + (i - lo) = i := by omega
  simp [e2]

theorem winL_getLast? (g : Nat → Option Rat) (lo i : Nat) (h : lo ≤ i) :
    (winL g lo i).getLast? = some (g i) := by
  rw [winL_snoc g lo i h]; simp

theorem lo_le (W i : Nat) : lo W i ≤ i := by unfold lo; omega

/-- one call of the rank closure: count invariant kept, output = from-scratch rank -/
theorem rankStep_inv (g : Nat → Option Rat) (W : Nat) (mp : Nat) (pct rev : Bool) (i n : Nat)
    (hn : n = cnt g (lo W i) i) :
    (rankStep g mp (W - 1) pct rev n (startAt W i, i, g i)).1 = cnt g (lo W (i+1)) (i+1) ∧
    (rankStep g mp (W - 1) pct rev n (startAt W i, i, g i)).2
      = Spec.tsRank mp pct rev (winL g (lo W i) i) := by
  obtain ⟨hn1, hn2⟩ := cnt_step g W i n hn
  have hlo := lo_le W i
  constructor
  · show (if i ≥ W - 1 then
            (match startAt W i with
             | some s => if (g s).isSome then (if (g i).isSome then n + 1 else n) - 1
                         else (if (g i).isSome then n + 1 else n)
             | none => (if (g i).isSome then n + 1 else n))
          else (if (g i).isSome then n + 1 else n)) = _
    by_cases hc : W - 1 ≤ i
    · simp only [ge_iff_le, hc, if_true]
      exact hn2
    · have : startAt W i = none := by simp [startAt, hc]
      rw [this] at hn2
      simp only [ge_iff_le, hc, if_false]
      exact hn2
  · unfold Spec.tsRank
    rw [winL_getLast? g _ _ hlo]
    cases hv : g i with
    | none => simp [rankStep, hv]
    | some x =>
      have hn1' : n + 1 = cnt g (lo W i) (i+1) := by rw [← hn1]; simp [hv]
      simp only [rankStep, hv, Option.isSome_some, if_true, Spec.masked]
      rw [vals_length_winL, ← hn1', startAt_getD, rankCount_eq]
      split
      · -- unmasked: arithmetic
        have hvals : Spec.vals (winL g (lo W i) i)
            = (List.range' (lo W i) (i - lo W i)).filterMap g ++ [x] := by
          rw [winL_snoc g _ _ hlo]
          unfold Spec.vals
          rw [List.filterMap_append, List.filterMap_map]
          simp [hv]
        generalize hM : (List.range' (lo W i) (i - lo W i)).filterMap g = M at hvals
        have hlen : n = M.length := by
          have := vals_length_winL g (lo W i) i
          rw [hvals, ← hn1'] at this
          simp at this; omega
        subst hlen
        have htri := count_trichotomy x M
        have htriq : (M.length : Rat) = (M.countP (fun a => decide (a < x)) : Rat)
            + (M.countP (fun a => decide (a = x)) : Rat) + (M.countP (fun a => decide (x < a)) : Rat) := by
          rw [← htri]; push_cast; ring
        rw [hvals]
        have key : (if (!rev) = true then
              (1 + (M.countP (fun a => decide (a < x)) : Rat))
                + 1 / 2 * ((1 + M.countP (fun a => decide (a = x)) - 1 : Nat) : Rat)
            else ((M.length + 1 + 1 : Nat) : Rat) - (1 + (M.countP (fun a => decide (a < x)) : Rat))
                - 1 / 2 * ((1 + M.countP (fun a => decide (a = x)) - 1 : Nat) : Rat))
            = Spec.avgRank rev x (M ++ [x]) := by
          unfold Spec.avgRank
          simp only [List.countP_append, List.countP_cons, List.countP_nil, lt_irrefl, decide_false,
            decide_true, Nat.add_sub_cancel_left]
          cases rev <;> simp only [Bool.not_true, Bool.not_false, if_true, if_false,
            Bool.false_eq_true] <;> push_cast <;> linarith [htriq]
        dsimp only
        rw [key]
        cases pct <;> simp
      · rfl

theorem rank_run (g : Nat → Option Rat) (W mp : Nat) (pct rev : Bool) (n : Nat) :
    runSt (rankStep g mp (W - 1) pct rev) 0 ((List.range n).map fun i => (startAt W i, i, g i))
      = (List.range n).map fun i => Spec.tsRank mp pct rev (winL g (lo W i) i) := by
  apply runSt_range (rankStep g mp (W - 1) pct rev) _ (fun i s => s = cnt g (lo W i) i)
  · simp [cnt]
  · intro i s _ hP
    exact rankStep_inv g W mp pct rev i s hP

theorem tsVrank_exact (sh : Shape) (xs : List (Option Rat)) (w : Nat) (mp : Option Nat)
    (pct rev : Bool) (hw : 1 ≤ w) :
    tsVrank sh xs w mp pct rev =
      (List.range xs.length).map fun i =>
        Spec.tsRank (cmpMp mp w xs.length) pct rev (window xs i w) := by
  unfold tsVrank
  by_cases hx : xs = []
  · subst hx; simp [idxCalls_nil, runSt]
  · have hlen : 1 ≤ xs.length := by
      cases xs with
      | nil => exact absurd rfl hx
      | cons _ _ => simp
    have hW : 1 ≤ min xs.length w := by omega
    simp only
    rw [idxCalls_eq_map sh xs _ hW, effW_min, rank_run (get xs)]
    apply List.map_congr_left
    intro i hi
    have hi' : i < xs.length := by simpa using hi
    rw [winL_eq_window xs _ i hW hi', Nat.min_comm, window_clamp xs i w hi']

end Tv.C03
