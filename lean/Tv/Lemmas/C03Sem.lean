import Tv.Lemmas.C03Ext
import Tv.Lemmas.C03Run
import Tv.Spec.C03Order
/-!
  Meaning of the index-level invariant in terms of the from-scratch definitions on the
  window list: `least` / `greatest` of the non-null elements, `lastPos`, number of
  non-null elements.
-/
namespace Tv.C03
open Tv

/-- the window `lo..=hi` as a list -/
def winL (g : Nat → Option Rat) (lo hi : Nat) : List (Option Rat) :=
  (List.range' lo (hi + 1 - lo)).map g

theorem length_filterMap_eq_countP {α β : Type} (f : α → Option β) (l : List α) :
    (l.filterMap f).length = l.countP (fun j => (f j).isSome) := by
  induction l with
  | nil => rfl
  | cons x r ih =>
    rw [List.filterMap_cons, List.countP_cons]
    cases h : f x <;> simp [ih]

theorem vals_length_map (g : Nat → Option Rat) (a n : Nat) :
    (Spec.vals ((List.range' a n).map g)).length = (List.range' a n).countP (fun j => (g j).isSome) := by
  have : Spec.vals ((List.range' a n).map g) = (List.range' a n).filterMap g := by
    simp [Spec.vals, List.filterMap_map]
  rw [this, length_filterMap_eq_countP]

theorem vals_length_winL (g : Nat → Option Rat) (lo hi : Nat) :
    (Spec.vals (winL g lo hi)).length = cnt g lo (hi+1) := by
  unfold winL cnt
  exact vals_length_map g lo _

theorem mem_vals_winL (g : Nat → Option Rat) (lo hi : Nat) (a : Rat) :
    a ∈ Spec.vals (winL g lo hi) ↔ ∃ j, lo ≤ j ∧ j ≤ hi ∧ g j = some a := by
  unfold Spec.vals winL
  simp only [List.mem_filterMap, List.mem_map, List.mem_range', id]
  constructor
  · rintro ⟨o, ⟨j, ⟨i, hi1, rfl⟩, rfl⟩, ho⟩
    exact ⟨lo + 1 * i, by omega, by omega, ho⟩
  · rintro ⟨j, h1, h2, h3⟩
    exact ⟨g j, ⟨j, ⟨j - lo, by omega, by omega⟩, rfl⟩, h3⟩

/-! ### least / greatest -/

theorem least_spec (vs : List Rat) :
    match Spec.least vs with
    | none => vs = []
    | some m => m ∈ vs ∧ ∀ a ∈ vs, m ≤ a := by
  induction vs with
  | nil => simp [Spec.least]
  | cons x r ih =>
    unfold Spec.least
    cases h : Spec.least r with
    | none =>
      rw [h] at ih
      subst ih
      simp
    | some m =>
      rw [h] at ih
      obtain ⟨hm, hall⟩ := ih
      simp only
      by_cases hx : x ≤ m
      · simp only [hx, if_true]
        refine ⟨by simp, ?_⟩
        intro a ha
        rcases List.mem_cons.mp ha with rfl | ha
        · exact Rat.le_refl
        · exact Rat.le_trans hx (hall a ha)
      · simp only [hx, if_false]
        refine ⟨by simp [hm], ?_⟩
        intro a ha
        rcases List.mem_cons.mp ha with rfl | ha
        · rcases @Rat.le_total a m with h' | h'
          · exact absurd h' hx
          · exact h'
        · exact hall a ha

theorem least_char (vs : List Rat) (m : Rat) (hm : m ∈ vs) (hall : ∀ a ∈ vs, m ≤ a) :
    Spec.least vs = some m := by
  have := least_spec vs
  cases h : Spec.least vs with
  | none => rw [h] at this; subst this; cases hm
  | some m' =>
    rw [h] at this
    obtain ⟨h1, h2⟩ := this
    rw [Rat.le_antisymm (h2 m hm) (hall m' h1)]

theorem greatest_spec (vs : List Rat) :
    match Spec.greatest vs with
    | none => vs = []
    | some m => m ∈ vs ∧ ∀ a ∈ vs, a ≤ m := by
  induction vs with
  | nil => simp [Spec.greatest]
  | cons x r ih =>
    unfold Spec.greatest
    cases h : Spec.greatest r with
    | none =>
      rw [h] at ih
      subst ih
      simp
    | some m =>
      rw [h] at ih
      obtain ⟨hm, hall⟩ := ih
      simp only
      by_cases hx : m ≤ x
      · simp only [hx, if_true]
        refine ⟨by simp, ?_⟩
        intro a ha
        rcases List.mem_cons.mp ha with rfl | ha
        · exact Rat.le_refl
        · exact Rat.le_trans (hall a ha) hx
      · simp only [hx, if_false]
        refine ⟨by simp [hm], ?_⟩
        intro a ha
        rcases List.mem_cons.mp ha with rfl | ha
        · rcases @Rat.le_total a m with h' | h'
          · exact h'
          · exact absurd h' hx
        · exact hall a ha

theorem greatest_char (vs : List Rat) (m : Rat) (hm : m ∈ vs) (hall : ∀ a ∈ vs, a ≤ m) :
    Spec.greatest vs = some m := by
  have := greatest_spec vs
  cases h : Spec.greatest vs with
  | none => rw [h] at this; subst this; cases hm
  | some m' =>
    rw [h] at this
    obtain ⟨h1, h2⟩ := this
    rw [Rat.le_antisymm (hall m' h1) (h2 m hm)]

/-- `E` computes the `le`-least non-null element of a window (or `none` if all are null) -/
def ExtFn (le : Option Rat → Option Rat → Bool) (E : List Rat → Option Rat) : Prop :=
  ∀ (g : Nat → Option Rat) (lo hi : Nat) (m : ExtSt),
    IsExtLast le g lo hi m → E (Spec.vals (winL g lo hi)) = m.1

theorem vals_nil_of_all_none (g : Nat → Option Rat) (lo hi : Nat)
    (h : ∀ j, lo ≤ j → j ≤ hi → g j = none) : Spec.vals (winL g lo hi) = [] := by
  apply List.eq_nil_iff_forall_not_mem.mpr
  intro a ha
  obtain ⟨j, h1, h2, h3⟩ := (mem_vals_winL g lo hi a).mp ha
  rw [h j h1 h2] at h3; cases h3

theorem extFn_least : ExtFn leNL Spec.least := by
  intro g lo hi m h
  obtain ⟨k, hk0, hk1, hk2, hk3⟩ := h.idx
  cases hm : m.1 with
  | none =>
    have : Spec.vals (winL g lo hi) = [] := by
      apply vals_nil_of_all_none
      intro j h1 h2
      have := h.isMin j h1 h2
      rw [hm] at this
      cases hj : g j with
      | none => rfl
      | some a => rw [hj] at this; simp [leNL] at this
    rw [this]; rfl
  | some v =>
    apply least_char
    · exact (mem_vals_winL g lo hi v).mpr ⟨k, hk1, hk2, by rw [hk3, hm]⟩
    · intro a ha
      obtain ⟨j, h1, h2, h3⟩ := (mem_vals_winL g lo hi a).mp ha
      have := h.isMin j h1 h2
      rw [hm, h3] at this
      simpa [leNL] using this

theorem extFn_greatest : ExtFn geNL Spec.greatest := by
  intro g lo hi m h
  obtain ⟨k, hk0, hk1, hk2, hk3⟩ := h.idx
  cases hm : m.1 with
  | none =>
    have : Spec.vals (winL g lo hi) = [] := by
      apply vals_nil_of_all_none
      intro j h1 h2
      have := h.isMin j h1 h2
      rw [hm] at this
      cases hj : g j with
      | none => rfl
      | some a => rw [hj] at this; simp [geNL] at this
    rw [this]; rfl
  | some v =>
    apply greatest_char
    · exact (mem_vals_winL g lo hi v).mpr ⟨k, hk1, hk2, by rw [hk3, hm]⟩
    · intro a ha
      obtain ⟨j, h1, h2, h3⟩ := (mem_vals_winL g lo hi a).mp ha
      have := h.isMin j h1 h2
      rw [hm, h3] at this
      simpa [geNL] using this

/-! ### position of the most recent occurrence -/

theorem getLast?_filter_range (P : Nat → Bool) (n p : Nat) (hp : p < n) (hP : P p = true)
    (hlast : ∀ q, p < q → q < n → P q = false) :
    ((List.range n).filter P).getLast? = some p := by
  rw [range_split n (p+1) (by omega), List.filter_append]
  have h2 : ((List.range (n - (p+1))).map (· + (p+1))).filter P = [] := by
    apply List.filter_eq_nil_iff.mpr
    intro a ha
    obtain ⟨b, hb, rfl⟩ := List.mem_map.mp ha
    have hb' : b < n - (p+1) := by simpa using hb
    simp [hlast (b + (p+1)) (by omega) (by omega)]
  rw [h2, List.append_nil, List.range_succ, List.filter_append]
  simp [hP]

/-- in a window whose `le`-least value `some v` was last seen at `k`, the most recent position
holding `v` is `k` -/
theorem lastPos_of_isExtLast {le : Option Rat → Option Rat → Bool} (hle : LeOK le)
    (g : Nat → Option Rat) (lo hi : Nat) (m : ExtSt) (v : Rat) (k : Nat)
    (h : IsExtLast le g lo hi m) (hv : m.1 = some v) (hk : m.2 = some k) :
    Spec.lastPos v (winL g lo hi) = some (k - lo + 1) := by
  obtain ⟨k', hk0, hk1, hk2, hk3⟩ := h.idx
  have : k' = k := by rw [hk] at hk0; cases hk0; rfl
  subst this
  have hlen : (winL g lo hi).length = hi + 1 - lo := by simp [winL]
  have hget : ∀ q, q < hi + 1 - lo → (winL g lo hi)[q]? = some (g (lo + q)) := by
    intro q hq
    simp [winL, hq]
  unfold Spec.lastPos
  rw [getLast?_filter_range _ _ (k' - lo) (by rw [hlen]; omega)]
  · simp
  · rw [hget _ (by omega)]
    have : lo + (k' - lo) = k' := by omega
    simp [this, hk3, hv]
  · intro q h1 h2
    rw [hlen] at h2
    rw [hget q h2]
    have := h.isLast k' hk (lo + q) (by omega) (by omega)
    simp only [decide_eq_false_iff_not]
    intro hc
    have hc' : g (lo + q) = some v := by simpa using hc
    rw [hc', hv, hle.refl] at this
    cases this

end Tv.C03

namespace Tv.C03
open Tv

/-- `lastPos` is the most recent occurrence: a position holding `m` after which `m` does not
occur again -/
theorem lastPos_char (m : Rat) (L : List (Option Rat)) (p : Nat) (hp : p < L.length)
    (hat : L[p]? = some (some m))
    (hlast : ∀ q, p < q → q < L.length → L[q]? ≠ some (some m)) :
    Spec.lastPos m L = some (p + 1) := by
  unfold Spec.lastPos
  rw [getLast?_filter_range _ _ p hp]
  · simp
  · simp [hat]
  · intro q h1 h2
    simp only [decide_eq_false_iff_not]
    exact hlast q h1 h2

theorem lastPos_none (m : Rat) (L : List (Option Rat)) (h : ∀ q : Nat, L[q]? ≠ some (some m)) :
    Spec.lastPos m L = none := by
  unfold Spec.lastPos
  have : (List.range L.length).filter (fun k => decide (L[k]? = some (some m))) = [] := by
    apply List.filter_eq_nil_iff.mpr
    intro a _
    simp [h a]
  rw [this]; rfl

end Tv.C03
