import Tv.Lemmas.Window
/-! Locality of windowed functions: anything of the form `i ↦ F (window xs i w)` is
prefix-stable (no look-ahead) and independent of everything before the window. These two
lemmas turn every `_exact` theorem into the C06 statements. -/
namespace Tv

theorem window_take (xs : List α) (i w k : Nat) (h : i < k) :
    window (xs.take k) i w = window xs i w := by
  unfold window
  rw [List.take_take]
  congr 2
  omega

/-- a windowed map evaluated on a prefix is the prefix of the windowed map -/
theorem windowed_prefix (F : List α → β) (xs : List α) (w k : Nat) :
    (List.range (xs.take k).length).map (fun i => F (window (xs.take k) i w))
      = ((List.range xs.length).map (fun i => F (window xs i w))).take k := by
  apply List.ext_getElem
  · simp
  · intro n h1 h2
    simp only [List.length_map, List.length_range, List.length_take] at h1
    simp only [List.getElem_map, List.getElem_range, List.getElem_take]
    rw [window_take xs n w k (by omega)]

/-- the window only sees positions `i+1-w ..= i` -/
theorem window_congr (xs ys : List α) (i w : Nat)
    (h : ∀ j, i + 1 - w ≤ j → j ≤ i → xs[j]? = ys[j]?) : window xs i w = window ys i w := by
  unfold window
  apply List.ext_getElem?
  intro n
  simp only [List.getElem?_drop, List.getElem?_take]
  by_cases hn : i + 1 - w + n < i + 1
  · simp only [hn, if_true]
    exact h _ (by omega) (by omega)
  · simp [hn]

theorem windowed_local (F : List α → β) (xs ys : List α) (w i : Nat)
    (h : ∀ j, i + 1 - w ≤ j → j ≤ i → xs[j]? = ys[j]?) :
    F (window xs i w) = F (window ys i w) := by rw [window_congr xs ys i w h]

theorem window_length_le (xs : List α) (i w : Nat) : (window xs i w).length ≤ w := by
  unfold window; simp; omega

end Tv
