import Tv.Model.C03Cmp
import Tv.Lemmas.Driver
import Tv.Lemmas.Window
import Tv.Thm.C02
/-!
  Plumbing shared by the C03 proofs: running a stateful closure over the driver's call list
  with an invariant indexed by the position, the call list as a `map`, the window as a
  `map` over its index range, counting valid elements of an index range.
-/
namespace Tv.C03
open Tv

/-- invariant rule for `runSt` over calls `c a, c (a+1), ..` -/
theorem runSt_range' {σ γ β : Type} (f : σ → γ → σ × β) (c : Nat → γ) (P : Nat → σ → Prop)
    (out : Nat → β) (n : Nat)
    (hstep : ∀ i s, i < n → P i s → P (i+1) (f s (c i)).1 ∧ (f s (c i)).2 = out i) :
    ∀ (k a : Nat) (s : σ), a + k = n → P a s →
      runSt f s ((List.range' a k).map c) = (List.range' a k).map out := by
  intro k
  induction k with
  | zero => intro a s _ _; simp [runSt]
  | succ k ih =>
    intro a s hak hP
    rw [List.range'_succ]
    simp only [List.map_cons, runSt]
    obtain ⟨h1, h2⟩ := hstep a s (by omega) hP
    rw [h2, ih (a+1) _ (by omega) h1]

theorem runSt_range {σ γ β : Type} (f : σ → γ → σ × β) (c : Nat → γ) (P : Nat → σ → Prop)
    (out : Nat → β) (n : Nat) (s0 : σ) (h0 : P 0 s0)
    (hstep : ∀ i s, i < n → P i s → P (i+1) (f s (c i)).1 ∧ (f s (c i)).2 = out i) :
    runSt f s0 ((List.range n).map c) = (List.range n).map out := by
  have := runSt_range' f c P out n hstep n 0 s0 (by omega) h0
  simpa [List.range_eq_range'] using this

theorem get_eq (xs : List (Option Rat)) (i : Nat) (hi : i < xs.length) : get xs i = xs[i] := by
  simp [get, List.getElem?_eq_getElem hi]

/-- the call list of `rolling_apply_idx(_to)` as a map over the positions (C02) -/
theorem idxCalls_eq_map (sh : Shape) (xs : List (Option Rat)) (w : Nat) (hw : 1 ≤ w) :
    idxCalls sh xs w =
      (List.range xs.length).map (fun i => (startAt (C02.effW sh w xs.length) i, i, get xs i)) := by
  rw [C02.idxCalls_spec sh xs w hw]
  rw [← List.filterMap_eq_map]
  apply filterMap_congr'
  intro i hi
  have hi' : i < xs.length := by simpa using hi
  simp [List.getElem?_eq_getElem hi', get_eq xs i hi']

/-- first index of the window ending at `i` -/
def lo (W i : Nat) : Nat := i - (W - 1)

theorem startAt_getD (W i : Nat) : (startAt W i).getD 0 = lo W i := by
  unfold startAt lo; split <;> simp; omega

/-- the window ending at `i`, as the values at positions `lo W i ..= i` -/
theorem window_eq_map_get (xs : List (Option Rat)) (W i : Nat) (hW : 1 ≤ W) (hi : i < xs.length) :
    window xs i W = (List.range' (lo W i) (i + 1 - lo W i)).map (get xs) := by
  unfold window lo
  have e : i + 1 - W = i - (W - 1) := by omega
  rw [e]
  apply List.ext_getElem?
  intro j
  simp only [List.getElem?_drop, List.getElem?_take, List.getElem?_map, List.getElem?_range']
  by_cases hj : j < i + 1 - (i - (W - 1))
  · have h1 : i - (W - 1) + j < i + 1 := by omega
    have h2 : i - (W - 1) + j < xs.length := by omega
    simp [hj, h1, get, List.getElem?_eq_getElem h2]
  · have h1 : ¬ (i - (W - 1) + j < i + 1) := by omega
    simp [hj, h1]

/-- number of non-null positions in `lo .. hi` (half open) -/
def cnt (g : Nat → Option Rat) (lo hi : Nat) : Nat :=
  (List.range' lo (hi - lo)).countP (fun j => (g j).isSome)

theorem cnt_empty (g : Nat → Option Rat) (a : Nat) : cnt g a a = 0 := by simp [cnt]

theorem cnt_snoc (g : Nat → Option Rat) (lo e : Nat) (h : lo ≤ e) :
    cnt g lo (e+1) = cnt g lo e + (if (g e).isSome then 1 else 0) := by
  unfold cnt
  have e1 : e + 1 - lo = (e - lo) + 1 := by omega
  rw [e1, List.range'_concat, List.countP_append]
  have e2 : lo + 1 * (e - lo) = e := by omega
  rw [e2]
  simp [List.countP_cons]

theorem cnt_drop (g : Nat → Option Rat) (lo hi : Nat) (h : lo < hi) :
    cnt g lo hi = (if (g lo).isSome then 1 else 0) + cnt g (lo+1) hi := by
  unfold cnt
  have e1 : hi - lo = (hi - (lo+1)) + 1 := by omega
  rw [e1, List.range'_succ, List.countP_cons]
  omega

/-- the count update of every index-based closure: `if v.is_some() { n += 1 }` before the
emit, `if start.is_some() && uget(start).not_none() { n -= 1 }` after it -/
theorem cnt_step (g : Nat → Option Rat) (W i n : Nat) (hn : n = cnt g (lo W i) i) :
    let n1 := if (g i).isSome then n + 1 else n
    n1 = cnt g (lo W i) (i+1) ∧
    (match startAt W i with
      | some s => if (g s).isSome then n1 - 1 else n1
      | none => n1) = cnt g (lo W (i+1)) (i+1) := by
  intro n1
  have hlo : lo W i ≤ i := by unfold lo; omega
  have h1 : n1 = cnt g (lo W i) (i+1) := by
    rw [cnt_snoc g _ _ hlo, ← hn]
    show (if (g i).isSome then n + 1 else n) = _
    split <;> simp
  refine ⟨h1, ?_⟩
  unfold startAt
  by_cases hc : W - 1 ≤ i
  · have e1 : lo W (i+1) = lo W i + 1 := by unfold lo; omega
    have e2 : i - (W - 1) = lo W i := rfl
    simp only [hc, if_true, e1, e2]
    rw [h1, cnt_drop g (lo W i) (i+1) (by omega)]
    split <;> simp
  · have e1 : lo W (i+1) = lo W i := by unfold lo; omega
    simp only [hc, if_false, e1]
    exact h1

end Tv.C03
