import Tv.Lemmas.C04Run
/-!
  The `rolling2_apply_idx` residual closures: their state evolves like the value-driven cross
  closure, and the positions `start.unwrap_or(0) ..= end` they re-read are exactly the window.
-/
namespace Tv.C04
open Tv Tv.Spec Tv.C04.Spec

/-- an index-driven closure is the zip of its state trajectory (a value-driven `Roll` emitting its
state) with the `(start?, end)` arguments -/
theorem idxRun_eq (rm : Nat → α) (add remove : σ → α → σ) (emit : σ → Option Nat → Nat → β)
    (s0 s : σ) (C : List (Option Nat × Nat × α)) :
    idxRun rm add remove emit s C
      = List.zipWith (fun st c => emit st c.1 c.2.1)
          (Roll.run ⟨s0, add, id, remove⟩ s (C.map fun c => (c.1.map rm, c.2.2))) C := by
  induction C generalizing s with
  | nil => rfl
  | cons c C ih =>
    obtain ⟨st, e, v⟩ := c
    simp only [idxRun, List.map_cons, Roll.run, Roll.step, List.zipWith_cons_cons, id]
    congr 1
    cases st with
    | none => simpa using ih (add s v)
    | some k => simpa using ih (remove (add s v) (rm k))

/-- the run of a `Roll` does not depend on its `init` field -/
theorem run_init_irrelevant (r : Roll σ α β) (s0 s : σ) (cs : List (Option α × α)) :
    Roll.run { r with init := s0 } s cs = r.run s cs := by
  induction cs generalizing s with
  | nil => rfl
  | cons c cs ih => simp only [Roll.run, Roll.step]; rw [ih]

theorem ugetPair_eq (xs ys : List (Option Rat)) (hlen : ys.length = xs.length) (k : Nat) (hk : k < xs.length) :
    (xs.zip ys)[k]? = some (ugetPair xs ys k) := by
  rw [zip_getElem?]
  have h1 : xs[k]? = some xs[k] := List.getElem?_eq_getElem hk
  have h2 : ys[k]? = some (ys[k]'(by omega)) := List.getElem?_eq_getElem (by omega)
  rw [h1, h2]
  simp [ugetPair, List.getD_eq_getElem?_getD, h1, h2]

/-- `rolling2_apply_idx(_to)` as a map over positions -/
theorem idx2Calls_map (sh : Shape) (xs ys : List (Option Rat)) (w : Nat) (hw : 1 ≤ w)
    (hlen : ys.length = xs.length) :
    idx2Calls sh xs ys w = (List.range xs.length).map fun i =>
      (startAt (C02.effW sh w xs.length) i, i, ugetPair xs ys i) := by
  unfold idx2Calls
  rw [C02.idx_spec sh _ w hw, List.filterMap_map]
  apply filterMap_eq_map'
  intro i hi
  have hi' : i < xs.length := by simpa using hi
  have h1 : xs[i]? = some xs[i] := List.getElem?_eq_getElem hi'
  have h2 : ys[i]? = some (ys[i]'(by omega)) := List.getElem?_eq_getElem (by omega)
  simp [h1, h2, ugetPair, List.getD_eq_getElem?_getD]

/-- the element re-read for removal is the one the value driver would have passed -/
theorem idx2Calls_toCalls (sh : Shape) (xs ys : List (Option Rat)) (w : Nat) (hw : 1 ≤ w)
    (hlen : ys.length = xs.length) :
    (idx2Calls sh xs ys w).map (fun c => (c.1.map (ugetPair xs ys), c.2.2))
      = callsFrom (xs.zip ys) (C02.effW sh w xs.length) 0 xs.length := by
  rw [idx2Calls_map sh xs ys w hw hlen, List.map_map]
  unfold callsFrom
  rw [← List.range_eq_range']
  symm
  apply filterMap_eq_map'
  intro i hi
  have hi' : i < xs.length := by simpa using hi
  rw [ugetPair_eq xs ys hlen i hi', callAt_eq_bind]
  simp only [Option.map_some, Function.comp_def]
  congr 2
  unfold startAt
  split
  · rename_i h
    simp only [Option.bind_some, Option.map_some]
    exact ugetPair_eq xs ys hlen _ (by omega)
  · rfl

/-- the positions `start.unwrap_or(0) ..= i` hold the window ending at `i` -/
theorem idxWindow_eq (xs ys : List (Option Rat)) (hlen : ys.length = xs.length) (W i : Nat) (hW : 1 ≤ W)
    (hi : i < xs.length) :
    idxWindow xs ys (startAt W i) i = window (xs.zip ys) i W := by
  have ha : (startAt W i).getD 0 = i + 1 - W := by
    unfold startAt; split <;> simp <;> omega
  unfold idxWindow window
  rw [ha]
  apply List.ext_getElem?
  intro j
  by_cases hj : j < i + 1 - (i + 1 - W)
  · have hlt : i + 1 - W + j < xs.length := by omega
    rw [List.getElem?_map, List.getElem?_range' hj, Option.map_some, Nat.one_mul, List.getElem?_drop,
      List.getElem?_take_of_lt (by omega), ugetPair_eq xs ys hlen _ hlt]
  · rw [List.getElem?_eq_none (by simp; omega), List.getElem?_eq_none (by simp; omega)]

/-- the three residual closures emit, at every position, the aggregate of the least-squares
residuals of the pairwise-complete observations of the window -/
theorem resid_run (agg : List Rat → Out) (mp : Nat) (sh : Shape) (xs ys : List (Option Rat)) (w : Nat)
    (hw : 1 ≤ w) (hlen : ys.length = xs.length) :
    idxRun (ugetPair xs ys) Cross.add Cross.remove (emitResid agg mp xs ys) Cross.zero (idx2Calls sh xs ys w)
      = (List.range xs.length).map fun i =>
          let l := complete (window (xs.zip ys) i w)
          if l.length ≥ mp then (if undefinedReg l then Out.degen else agg (residuals l)) else Out.null := by
  rw [idxRun_eq _ _ _ _ Cross.zero, idx2Calls_toCalls sh xs ys w hw hlen, ← apply2Calls_spec sh xs ys w hw]
  have hrun := cross_run (fun s => s) sh xs ys w hw hlen
  have hr : Roll.run ⟨Cross.zero, Cross.add, id, Cross.remove⟩ Cross.zero (apply2Calls sh xs ys w)
      = (crossRoll (fun s => s)).run Cross.zero (apply2Calls sh xs ys w) := rfl
  rw [hr, hrun, idx2Calls_map sh xs ys w hw hlen, zipWith_map_map]
  apply List.map_congr_left
  intro i hi
  have hi' : i < xs.length := by simpa using hi
  have hz : (xs.zip ys).length = xs.length := by simp [hlen]
  have hW1 : 1 ≤ C02.effW sh w xs.length := by cases sh <;> simp only [C02.effW] <;> omega
  simp only
  unfold emitResid
  rw [idxWindow_eq xs ys hlen _ i hW1 hi', window_effW sh _ w xs.length i hz hi', resids_eq]
  generalize complete (window (xs.zip ys) i w) = l
  by_cases hm : l.length ≥ mp
  · rw [if_pos hm, if_pos (show (crossOf l).n ≥ mp from hm)]
    by_cases hd : undefinedReg l
    · rw [if_pos ((degenerate_iff l).mpr hd), if_pos hd]
    · rw [if_neg (fun h => hd ((degenerate_iff l).mp h)), if_neg hd]
      rw [normal_eq_alpha l hd, normal_eq_beta l hd]
      rfl
  · rw [if_neg hm, if_neg (show ¬ (crossOf l).n ≥ mp from hm)]

end Tv.C04
