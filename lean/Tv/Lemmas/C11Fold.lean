import Tv.Model.C11
import Tv.Spec.C11
import Mathlib.Tactic.Ring
import Mathlib.Data.Rat.Defs
/-!
  C11 helper lemmas, part 1: every null-skipping fold of the model is a function of
  `valid xs` (the list of non-null elements), and the running power sums are the sums
  `Σ x^k` over it.
-/
namespace Tv.C11
open Tv

/-! ### `valid` -/

@[simp] theorem valid_nil : valid ([] : List (Option α)) = [] := rfl
@[simp] theorem valid_cons_some (x : α) (xs : List (Option α)) : valid (some x :: xs) = x :: valid xs := by
  simp [valid]
@[simp] theorem valid_cons_none (xs : List (Option α)) : valid (none :: xs) = valid xs := by
  simp [valid]

theorem valid_append (xs ys : List (Option α)) : valid (xs ++ ys) = valid xs ++ valid ys := by
  simp [valid]

/-- nulls are transparent to `valid` -/
theorem valid_filter_isSome (xs : List (Option α)) : valid (xs.filter (·.isSome)) = valid xs := by
  induction xs with
  | nil => rfl
  | cons x xs ih => cases x <;> simp [ih]

theorem valid_perm {xs ys : List (Option α)} (h : xs.Perm ys) : (valid xs).Perm (valid ys) :=
  h.filterMap id

theorem valid_map_some (l : List α) : valid (l.map some) = l := by
  induction l with
  | nil => rfl
  | cons x l ih => simp [ih]

theorem mem_valid {x : α} {xs : List (Option α)} : x ∈ valid xs ↔ some x ∈ xs := by
  simp [valid]

theorem valid_length_le (xs : List (Option α)) : (valid xs).length ≤ xs.length := by
  induction xs with
  | nil => simp
  | cons x xs ih => cases x <;> simp <;> omega

/-! ### the null-skipping folds -/

theorem vfold_eq (f : β → α → β) (init : β) (xs : List (Option α)) :
    vfold f init xs = (valid xs).foldl f init := by
  unfold vfold
  induction xs generalizing init with
  | nil => rfl
  | cons x xs ih => cases x <;> simp [vfoldStep, ih]

theorem vfoldN_eq (f : β → α → β) (init : β) (xs : List (Option α)) :
    vfoldN f init xs = ((valid xs).length, (valid xs).foldl f init) := by
  unfold vfoldN
  suffices h : ∀ (k : Nat) (init : β),
      xs.foldl (vfoldNStep f) (k, init) = (k + (valid xs).length, (valid xs).foldl f init) by
    simpa using h 0 init
  induction xs with
  | nil => intro k init; rfl
  | cons x xs ih =>
    intro k init
    cases x with
    | none => simpa [vfoldNStep] using ih k init
    | some x =>
      simp only [List.foldl_cons, vfoldNStep, valid_cons_some, List.length_cons]
      rw [ih]; congr 1; omega

/-- `Σ x` as a left fold from an arbitrary start -/
theorem foldl_add_eq (l : List Rat) (a : Rat) : l.foldl (· + ·) a = a + Spec.sum l := by
  induction l generalizing a with
  | nil => simp [Spec.sum]
  | cons x l ih =>
    simp only [List.foldl_cons, ih, Spec.sum, List.foldr_cons]
    ring

theorem sum_nil : Spec.sum [] = 0 := rfl
theorem sum_cons (x : Rat) (l : List Rat) : Spec.sum (x :: l) = x + Spec.sum l := rfl

theorem sum_append (l₁ l₂ : List Rat) : Spec.sum (l₁ ++ l₂) = Spec.sum l₁ + Spec.sum l₂ := by
  induction l₁ with
  | nil => simp [Spec.sum]
  | cons x l ih => simp only [List.cons_append, sum_cons, ih]; ring

theorem sum_perm {l₁ l₂ : List Rat} (h : l₁.Perm l₂) : Spec.sum l₁ = Spec.sum l₂ := by
  induction h with
  | nil => rfl
  | cons x _ ih => simp only [sum_cons, ih]
  | swap x y l => simp only [sum_cons]; ring
  | trans _ _ ih₁ ih₂ => exact ih₁.trans ih₂

/-- power sum `Σ x^k` -/
def psum (k : Nat) (l : List Rat) : Rat := Spec.sum (l.map (· ^ k))

theorem psum_nil (k : Nat) : psum k [] = 0 := rfl
theorem psum_cons (k : Nat) (x : Rat) (l : List Rat) : psum k (x :: l) = x ^ k + psum k l := rfl

theorem psum_zero (l : List Rat) : psum 0 l = l.length := by
  induction l with
  | nil => simp [psum, Spec.sum]
  | cons x l ih => rw [psum_cons, ih]; simp; ring

theorem psum_one (l : List Rat) : psum 1 l = Spec.sum l := by
  induction l with
  | nil => rfl
  | cons x l ih => rw [psum_cons, ih, sum_cons]; ring

theorem psum_perm (k : Nat) {l₁ l₂ : List Rat} (h : l₁.Perm l₂) : psum k l₁ = psum k l₂ :=
  sum_perm (h.map _)

/-- the state of the `vapply_n` power-sum closures after the whole series -/
theorem pows_eq (xs : List (Option Rat)) :
    pows xs = ⟨(valid xs).length, psum 1 (valid xs), psum 2 (valid xs), psum 3 (valid xs),
      psum 4 (valid xs)⟩ := by
  unfold pows
  suffices h : ∀ s : Pow, xs.foldl Pow.step s =
      ⟨s.n + (valid xs).length, s.s1 + psum 1 (valid xs), s.s2 + psum 2 (valid xs),
        s.s3 + psum 3 (valid xs), s.s4 + psum 4 (valid xs)⟩ by
    simpa [Pow.zero] using h Pow.zero
  induction xs with
  | nil => intro s; simp [psum_nil]
  | cons x xs ih =>
    intro s
    cases x with
    | none => simpa [Pow.step] using ih s
    | some v =>
      simp only [List.foldl_cons, Pow.step, ih, valid_cons_some, List.length_cons, psum_cons]
      congr 1
      · omega
      · ring
      · ring
      · ring
      · ring

@[simp] theorem pairOf_some (a b : Rat) : Spec.pairOf (some a, some b) = some (a, b) := rfl
@[simp] theorem pairOf_none_left (b : Option Rat) : Spec.pairOf (none, b) = none := by
  cases b <;> rfl
@[simp] theorem pairOf_none_right (a : Option Rat) : Spec.pairOf (a, none) = none := by
  cases a <;> rfl

/-- running pair sums of `vcov` / `vcorr_pearson` -/
theorem pairs_eq (xs ys : List (Option Rat)) :
    pairs xs ys =
      let l := Spec.pairsValid xs ys
      ⟨l.length, Spec.sum (l.map (·.1)), Spec.sum (l.map (·.2)),
        Spec.sum (l.map fun p => p.1 * p.2), Spec.sum (l.map fun p => p.1 * p.1),
        Spec.sum (l.map fun p => p.2 * p.2)⟩ := by
  unfold pairs Spec.pairsValid
  generalize xs.zip ys = zs
  suffices h : ∀ s : Pair, zs.foldl Pair.step s =
      let l := zs.filterMap Spec.pairOf
      ⟨s.n + l.length, s.sa + Spec.sum (l.map (·.1)), s.sb + Spec.sum (l.map (·.2)),
        s.sab + Spec.sum (l.map fun p => p.1 * p.2), s.saa + Spec.sum (l.map fun p => p.1 * p.1),
        s.sbb + Spec.sum (l.map fun p => p.2 * p.2)⟩ by
    simpa [Pair.zero] using h Pair.zero
  induction zs with
  | nil => intro s; simp [sum_nil]
  | cons z zs ih =>
    intro s
    obtain ⟨a, b⟩ := z
    cases a with
    | none => simpa [Pair.step] using ih s
    | some a =>
      cases b with
      | none => simpa [Pair.step] using ih s
      | some b =>
        simp only [List.foldl_cons, Pair.step, ih, List.filterMap_cons, pairOf_some, List.length_cons,
          List.map_cons, sum_cons]
        congr 1
        · omega
        · ring
        · ring
        · ring
        · ring
        · ring

end Tv.C11
