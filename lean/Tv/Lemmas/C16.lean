import Tv.Model.C16Time
import Tv.Spec.C16Calendar
/-! helper lemmas for C16 (core Lean only: `omega`, `simp`, `decide`) -/
namespace Tv.C16

/-- the instant of `x` (unit `a`) floored to unit `b`: what every conversion must produce -/
def floorTo (a b : U) (x : Int) : Int := x * a.mult / b.mult

/-! ### ratios of the unit constants -/
theorem md1 (x : Int) : x * 1000000000 / 1000000 = x * 1000 := by omega
theorem md2 (x : Int) : x * 1000000000 / 1000 = x * 1000000 := by omega
theorem md3 (x : Int) : x * 1000000 / 1000 = x * 1000 := by omega
theorem md4 (x : Int) : x * 1000000 / 1000000000 = x / 1000 := by omega
theorem md5 (x : Int) : x * 1000 / 1000000000 = x / 1000000 := by omega
theorem md6 (x : Int) : x * 1000 / 1000000 = x / 1000 := by omega

theorem mult_pos (u : U) : 0 < u.mult := by cases u <;> decide

/-- closed form of the repaired `into_unit` on valid input -/
theorem intoUnit_closed (a b : U) (x : Int) (hx : x ≠ NaT) (hr : InI64 x) :
    intoUnit a b x = if InI64 (floorTo a b x) then .ok (floorTo a b x) else .panic := by
  unfold floorTo
  cases a <;> cases b <;>
    simp [intoUnit, hx, lookup, unitTable, applyOp, U.mult, NANOS_PER_MICRO, NANOS_PER_MILLI,
      NANOS_PER_SEC, MICROS_PER_MILLI, MICROS_PER_SEC, MILLIS_PER_SEC, md1, md2, md3, md4, md5, md6]
  all_goals (simp only [InI64, i64Min, i64Max, NaT] at *)
  all_goals omega

/-- the floor of a valid value is never the sentinel -/
theorem floorTo_ne_nat (a b : U) (x : Int) (hx : x ≠ NaT) (hr : InI64 x) : floorTo a b x ≠ NaT := by
  unfold floorTo
  cases a <;> cases b <;> simp only [U.mult, InI64, i64Min, i64Max, NaT] at * <;> omega

/-- defining property of the floor -/
theorem floorTo_bracket (a b : U) (x : Int) :
    b.mult * floorTo a b x ≤ a.mult * x ∧ a.mult * x < b.mult * (floorTo a b x + 1) := by
  unfold floorTo
  cases a <;> cases b <;> simp only [U.mult] <;> omega

theorem floorTo_mono (a b : U) (x y : Int) (h : x ≤ y) : floorTo a b x ≤ floorTo a b y := by
  unfold floorTo
  cases a <;> cases b <;> simp only [U.mult] <;> omega

/-- going to a finer (or the same) unit and back is the identity on the numbers -/
theorem floorTo_back (a b : U) (x : Int) (h : b.mult ≤ a.mult) : floorTo b a (floorTo a b x) = x := by
  unfold floorTo
  cases a <;> cases b <;> simp only [U.mult] at * <;> omega

theorem nsPer_eq_mult (u : U) : Spec.nsPer u = u.mult := by cases u <;> decide

theorem unitsAt_eq (u : U) (t : Int) : Spec.unitsAt u t = t / u.mult := by
  unfold Spec.unitsAt
  rw [nsPer_eq_mult, Int.fdiv_eq_ediv_of_nonneg _ (Int.le_of_lt (mult_pos u))]

theorem valid64_iff (x : Int) : Spec.Valid64 x ↔ (x ≠ NaT ∧ InI64 x) := by
  simp only [Spec.Valid64, NaT, InI64, i64Min, i64Max]
  omega

/-! ### model outcome vs. specification outcome -/

theorem toOutcome_ok (v : Int) (h : v ≠ NaT) : (Res.ok v).toOutcome = .val v := by
  simp [Res.toOutcome, h]

theorem mk64_val (v : Int) (h1 : v ≠ NaT) (h2 : InI64 v) : Spec.mk64 v = .val v := by
  simp [Spec.mk64, valid64_iff, h1, h2]

theorem mk64_unrep (v : Int) (h : ¬ InI64 v) : Spec.mk64 v = .unrepresentable := by
  simp [Spec.mk64, valid64_iff, h]

/-- chrono's range constants of the model are the calendar's years −262143 … 262142 -/
theorem crRange_eq : crMinNs = Spec.calMinNs ∧ crMaxNs = Spec.calMaxNs := by decide

theorem inCal_iff (t : Int) : Spec.InCal t ↔ InCr t := by
  unfold Spec.InCal InCr
  rw [crRange_eq.1, crRange_eq.2]

/-- the specification of `Time ± duration` on valid operands, with the model's range predicates -/
theorem spec_timeShift_valid (sgn x m n : Int) :
    Spec.timeShift sgn (some x) (some (m, n)) =
      if m ≠ 0 then .unrepresentable
      else if ¬ InI64 n then .nat
      else if x + sgn * n = NaT then .nat
      else Spec.mk64 (x + sgn * n) := by
  have e1 : (-2 ^ 63 ≤ n ∧ n < 2 ^ 63) ↔ InI64 n := by
    simp only [InI64, i64Min, i64Max]; omega
  have e2 : (x + sgn * n = -2 ^ 63) ↔ (x + sgn * n = NaT) := by
    simp only [NaT, i64Min]; omega
  simp only [Spec.timeShift, e1, e2]

/-- the `i32` / `Duration` range checks of the model are the specification's -/
theorem tdMk_eq_spec (m i : Int) : (tdMk m i).toOutcomeTd = Spec.mkDur m i := by
  have e1 : Spec.DurOk i ↔ InDur i := by
    simp only [Spec.DurOk, InDur, durMaxNs, i64Max]; omega
  have e2 : Spec.Valid32 m ↔ (InI32 m ∧ m ≠ i32Min) := by
    simp only [Spec.Valid32, InI32, i32Min, i32Max]; omega
  have e3 : (m = -2 ^ 31) ↔ m = i32Min := by simp only [i32Min]; omega
  simp only [Spec.mkDur, e1, e2, e3, tdMk]
  by_cases hi : InDur i
  · by_cases hm : m = i32Min
    · subst hm
      have : InI32 i32Min := by decide
      simp [hi, this, Res.toOutcomeTd, TD.isNat]
    · by_cases h32 : InI32 m
      · simp [hi, hm, h32, Res.toOutcomeTd, TD.isNat]
      · simp [hi, hm, h32, Res.toOutcomeTd]
  · simp [hi, Res.toOutcomeTd]

theorem tdNaT_isNat : tdNaT.isNat = true := by decide

end Tv.C16
