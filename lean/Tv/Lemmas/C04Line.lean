import Tv.Lemmas.C04Resid
/-!
  Two consequences of the normal equations: a window whose observations lie on a line is fitted
  exactly (zero residuals), and the least-squares line minimises the squared-residual sum.
-/
namespace Tv.C04
open Tv Tv.Spec Tv.C04.Spec

theorem line_sums (l : List (Rat × Rat)) (a b : Rat) (h : ∀ p ∈ l, p.1 = a + b * p.2) :
    sA l = (l.length : Rat) * a + b * sB l ∧ sAB l = a * sB l + b * sBB l := by
  unfold sA sB sAB sBB ys xs
  induction l with
  | nil => simp
  | cons p l ih =>
    have hp := h p (by simp)
    obtain ⟨h1, h2⟩ := ih (fun q hq => h q (by simp [hq]))
    simp only [List.map_cons, sum_cons, List.length_cons] at *
    rw [h1, h2, hp]
    constructor <;> (push_cast; ring)

/-- on a perfect line `y = a + b x` (x not constant) least squares recovers `(a, b)` -/
theorem line_beta_alpha (l : List (Rat × Rat)) (a b : Rat) (h : ∀ p ∈ l, p.1 = a + b * p.2)
    (hd : ¬ undefinedReg l) : beta l = b ∧ alpha l = a := by
  have hn : l.length ≠ 0 := fun h0 => hd (Or.inl h0)
  have hx : cxx l ≠ 0 := fun h0 => hd (Or.inr h0)
  have hn' : (l.length : Rat) ≠ 0 := by exact_mod_cast hn
  obtain ⟨h1, h2⟩ := line_sums l a b h
  have hb : beta l = b := by
    unfold Spec.beta
    rw [div_eq_iff hx, cross_sum_centered l hn, cxx_closed l hn, h1, h2]
    field_simp
    ring
  refine ⟨hb, ?_⟩
  unfold Spec.alpha
  rw [hb, mean_ys, mean_xs, h1]
  field_simp
  ring

theorem line_residuals (l : List (Rat × Rat)) (a b : Rat) (h : ∀ p ∈ l, p.1 = a + b * p.2)
    (hd : ¬ undefinedReg l) : residuals l = l.map fun _ => 0 := by
  obtain ⟨hb, ha⟩ := line_beta_alpha l a b h hd
  unfold residuals residualsOf
  rw [hb, ha]
  apply List.map_congr_left
  intro p hp
  rw [h p hp]; ring

theorem sum_zeros (l : List α) : sum (l.map fun _ => (0 : Rat)) = 0 := by
  rw [sum_map_const]; ring

/-- a single observation never determines a line -/
theorem undefined_of_length_le_one (l : List (Rat × Rat)) (h : l.length ≤ 1) : undefinedReg l := by
  match l, h with
  | [], _ => exact Or.inl rfl
  | [p], _ =>
    right
    simp [cxx, xs, mean, csum, sum]

/-- sums of squares are non-negative -/
theorem sum_sq_nonneg (f : α → Rat) (l : List α) : 0 ≤ sum (l.map fun x => f x * f x) := by
  induction l with
  | nil => simp
  | cons x l ih =>
    simp only [List.map_cons, sum_cons]
    have := mul_self_nonneg (f x)
    linarith

theorem sq_line_expand (u v : Rat) (l : List (Rat × Rat)) :
    sum (l.map fun p => (u + v * p.2) * (u + v * p.2))
      = (l.length : Rat) * u * u + 2 * u * v * sB l + v * v * sBB l := by
  unfold sB sBB xs
  induction l with
  | nil => simp
  | cons x l ih =>
    simp only [List.map_cons, sum_cons, List.length_cons] at *
    rw [ih]; push_cast; ring

end Tv.C04
