import Tv.Lemmas.C04Trend
import Tv.Lemmas.Window
import Tv.Lemmas.Driver
import Tv.Thm.C02
/-!
  Run-level lemmas for C04: the running sums are an additive abstraction of the FIFO of the
  window (`run_refines`), the two-series drivers hand the closures the zipped series, and the
  index-driven residual closures see exactly the window.
-/
namespace Tv.C04
open Tv Tv.Spec Tv.C04.Spec

/-! ### list facts -/

theorem zip_getElem? (xs : List α) (ys : List β) (k : Nat) :
    (xs.zip ys)[k]? = match xs[k]?, ys[k]? with
      | some x, some y => some (x, y)
      | _, _ => none := by
  induction xs generalizing ys k with
  | nil => simp
  | cons x xs ih =>
    cases ys with
    | nil => cases k <;> simp
    | cons y ys =>
      cases k with
      | zero => simp
      | succ k => simpa using ih ys k

theorem filterMap_eq_map' {f : α → Option β} {g : α → β} {l : List α}
    (h : ∀ a ∈ l, f a = some (g a)) : l.filterMap f = l.map g := by
  induction l with
  | nil => rfl
  | cons a l ih =>
    rw [List.filterMap_cons, h a (by simp), List.map_cons, ih (fun b hb => h b (by simp [hb]))]

theorem zipWith_map_map (F : γ → δ → ε) (f : α → γ) (g : α → δ) (l : List α) :
    List.zipWith F (l.map f) (l.map g) = l.map fun a => F (f a) (g a) := by
  induction l with
  | nil => rfl
  | cons a l ih => simp [ih]

theorem complete_append (q r : List Pair) : complete (q ++ r) = complete q ++ complete r := by
  unfold complete; rw [List.filterMap_append]

/-! ### the cross sums are additive over the window FIFO -/

theorem crossOf_snoc (l : List (Rat × Rat)) (a b : Rat) :
    crossOf (l ++ [(a, b)]) = ⟨l.length + 1, sA l + a, sB l + b, sAB l + a * b, sAA l + a * a, sBB l + b * b⟩ := by
  unfold crossOf sA sB sAB sAA sBB ys xs
  simp only [List.map_append, sum_append, List.map_cons, List.map_nil, sum_cons, sum_nil,
    List.length_append, List.length_cons, List.length_nil, add_zero]

theorem crossOf_cons (l : List (Rat × Rat)) (a b : Rat) :
    crossOf ((a, b) :: l) = ⟨l.length + 1, a + sA l, b + sB l, a * b + sAB l, a * a + sAA l, b * b + sBB l⟩ := by
  unfold crossOf sA sB sAB sAA sBB ys xs
  simp only [List.map_cons, sum_cons, List.length_cons]

def CrossInv (s : Cross) (q : List Pair) : Prop := s = crossOf (complete q)

theorem cross_init : CrossInv Cross.zero [] := rfl

theorem cross_add (s : Cross) (q : List Pair) (v : Pair) (h : CrossInv s q) :
    CrossInv (s.add v) (q ++ [v]) := by
  unfold CrossInv at *
  subst h
  rw [complete_append]
  obtain ⟨a, b⟩ := v
  cases a with
  | none => simp [complete, Cross.add]
  | some a =>
    cases b with
    | none => simp [complete, Cross.add]
    | some b =>
      have : complete [(some a, some b)] = [(a, b)] := rfl
      rw [this, crossOf_snoc]
      rfl

theorem cross_rem (s : Cross) (x : Pair) (q : List Pair) (h : CrossInv s (x :: q)) :
    CrossInv (s.remove x) q := by
  unfold CrossInv at *
  subst h
  obtain ⟨a, b⟩ := x
  cases a with
  | none => simp [complete, Cross.remove]
  | some a =>
    cases b with
    | none => simp [complete, Cross.remove]
    | some b =>
      have : complete ((some a, some b) :: q) = (a, b) :: complete q := rfl
      rw [this, crossOf_cons]
      simp only [Cross.remove, crossOf]
      congr 1 <;> first | omega | ring

/-! ### the two-series drivers -/

theorem callAt_eq_bind (zs : List α) (W i : Nat) : callAt zs W i = (startAt W i).bind (zs[·]?) := by
  unfold callAt startAt
  split <;> simp

/-- `rolling2_apply(_to)`: the callback sees the zipped series -/
theorem apply2Calls_spec (sh : Shape) (xs : List α) (ys : List β) (w : Nat) (hw : 1 ≤ w) :
    apply2Calls sh xs ys w = callsFrom (xs.zip ys) (C02.effW sh w xs.length) 0 xs.length := by
  unfold apply2Calls callsFrom
  rw [C02.idx_spec sh _ w hw, List.filterMap_map, ← List.range_eq_range']
  apply filterMap_congr'
  intro i _
  simp only [Function.comp_def]
  rw [callAt_eq_bind, zip_getElem?]
  have hb : ∀ k : Nat, (match xs[k]?, ys[k]? with
      | some x, some y => some (x, y)
      | _, _ => none : Option (α × β)) = (xs.zip ys)[k]? := fun k => (zip_getElem? xs ys k).symm
  simp only [hb]
  rw [zip_getElem? xs ys i]
  cases xs[i]? <;> cases ys[i]? <;> try rfl
  show some (_, _, _) = some (_, _, _)
  congr 3
  funext k
  exact (zip_getElem? xs ys k).symm

theorem window_effW (sh : Shape) (zs : List α) (w len i : Nat) (hlen : zs.length = len) (hi : i < len) :
    window zs i (C02.effW sh w len) = window zs i w := by
  cases sh
  · subst hlen; exact window_clamp zs i w hi
  · rfl

/-- every closure over the cross sums emits, at every position, `emit` of the sums of the
pairwise-complete observations of the window -/
theorem cross_run (emit : Cross → β) (sh : Shape) (xs ys : List (Option Rat)) (w : Nat) (hw : 1 ≤ w)
    (hlen : ys.length = xs.length) :
    (crossRoll emit).run Cross.zero (apply2Calls sh xs ys w)
      = (List.range xs.length).map fun i => emit (crossOf (complete (window (xs.zip ys) i w))) := by
  have hz : (xs.zip ys).length = xs.length := by simp [hlen]
  rw [apply2Calls_spec sh xs ys w hw]
  by_cases h0 : xs.length = 0
  · simp [h0, callsFrom, Roll.run]
  · have hW1 : 1 ≤ C02.effW sh w xs.length := by cases sh <;> simp only [C02.effW] <;> omega
    have := run_refines_all (crossRoll emit) CrossInv (fun q => emit (crossOf (complete q)))
      cross_init cross_add cross_rem (fun s q h => by unfold CrossInv at h; subst h; rfl)
      (xs.zip ys) (C02.effW sh w xs.length) hW1
    rw [hz] at this
    rw [show (crossRoll emit).init = Cross.zero from rfl] at this
    rw [this]
    apply List.map_congr_left
    intro i hi
    rw [window_effW sh _ w xs.length i hz (by simpa using hi)]

/-! ### trend closures -/

def TrendInv (s : Trend) (q : List (Option Rat)) : Prop := s = trendOf (valid q)

theorem valid_snoc_some (q : List (Option Rat)) (v : Rat) : valid (q ++ [some v]) = valid q ++ [v] := by
  simp [valid]
theorem valid_snoc_none (q : List (Option Rat)) : valid (q ++ [none]) = valid q := by
  simp [valid]
theorem valid_cons_some (q : List (Option Rat)) (v : Rat) : valid (some v :: q) = v :: valid q := by
  simp [valid]
theorem valid_cons_none (q : List (Option Rat)) : valid (none :: q) = valid q := by
  simp [valid]

theorem trendOf_snoc (l : List Rat) (v : Rat) :
    trendOf (l ++ [v]) = ⟨l.length + 1, sum l + v, wsum 0 l + ((l.length + 1 : Nat) : Rat) * v, p2 l + v * v⟩ := by
  unfold trendOf p2
  rw [wsum_append]
  simp [sum_append]

theorem trendOf_cons_remove (x : Rat) (l : List Rat) : (trendOf (x :: l)).remove (some x) = trendOf l := by
  unfold trendOf p2
  simp only [Trend.remove, wsum, wsum_succ, List.map_cons, sum_cons, List.length_cons]
  congr 1 <;> first | omega | (push_cast; ring)

theorem trend_add (s : Trend) (q : List (Option Rat)) (v : Option Rat) (h : TrendInv s q) :
    TrendInv (s.add v) (q ++ [v]) := by
  unfold TrendInv at *
  subst h
  cases v with
  | none => rw [valid_snoc_none]; rfl
  | some v => rw [valid_snoc_some, trendOf_snoc]; rfl

theorem trend_rem (s : Trend) (x : Option Rat) (q : List (Option Rat)) (h : TrendInv s (x :: q)) :
    TrendInv (s.remove x) q := by
  unfold TrendInv at *
  subst h
  cases x with
  | none => rw [valid_cons_none]; rfl
  | some x => rw [valid_cons_some, trendOf_cons_remove]

/-- every trend closure emits, at every position, `emit` of the sums of the valid values of the
window taken in order with `t = 1..n` -/
theorem trend_run (emit : Trend → Out) (sh : Shape) (xs : List (Option Rat)) (w : Nat) (hw : 1 ≤ w) :
    (trendRoll emit).run Trend.zero (applyCalls sh xs w)
      = (List.range xs.length).map fun i => emit (trendOf (vwin xs i w)) := by
  rw [C02.applyCalls_spec sh xs w hw]
  by_cases h0 : xs.length = 0
  · simp [h0, callsFrom, Roll.run]
  · have hW1 : 1 ≤ C02.effW sh w xs.length := by cases sh <;> simp only [C02.effW] <;> omega
    have := run_refines_all (trendRoll emit) TrendInv (fun q => emit (trendOf (valid q)))
      rfl trend_add trend_rem (fun s q h => by unfold TrendInv at h; subst h; rfl)
      xs (C02.effW sh w xs.length) hW1
    rw [show (trendRoll emit).init = Trend.zero from rfl] at this
    rw [this]
    apply List.map_congr_left
    intro i hi
    unfold vwin
    rw [window_effW sh _ w xs.length i rfl (by simpa using hi)]

end Tv.C04
