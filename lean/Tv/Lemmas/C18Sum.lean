import Tv.Lemmas.C18Render
/-! C18 — the accumulation of the scanner against the from-scratch sum (`NoOverflow`). -/
set_option linter.unusedSimpArgs false
namespace Tv.C18
open Spec

/-- scanner accumulators = running totals of the specification -/
def Agree (st : St) (a : Acc) : Prop := st.nsecs = a.sub ∧ st.secs = a.sec ∧ st.months = a.cal

def fieldOf : Class → Field
  | .sub => .nsecs
  | .sec => .secs
  | .cal => .months

theorem lookup_name (u : TUnit) : lookupUnit u.name = some (fieldOf u.cls, u.mult) := by
  cases u <;> rfl

theorem add_cal (a : Acc) (t : Term) : (a.add t).cal = a.cal + t.value * t.unit.months := by
  unfold Acc.add
  cases t.unit <;> simp [TUnit.cls, TUnit.mult, TUnit.months]

theorem add_nanos (a : Acc) (t : Term) :
    (a.add t).sec * 1000000000 + (a.add t).sub = a.sec * 1000000000 + a.sub + t.value * t.unit.nanos := by
  unfold Acc.add
  cases t.unit <;> simp [TUnit.cls, TUnit.mult, TUnit.nanos] <;> omega

/-- one unit arm of the repaired code against `Term.fits` / `Acc.add` -/
theorem applyUnit_fits (st : St) (a : Acc) (t : Term) (hag : Agree st a) (hv : inI64 t.value = true) :
    (t.fits a = true → ∃ st', applyUnit .repaired st t.value t.unit.name = .ok st' ∧ Agree st' (a.add t)) ∧
    (t.fits a = false → applyUnit .repaired st t.value t.unit.name = .error (.err .overflow)) := by
  obtain ⟨h1, h2, h3⟩ := hag
  have hv' : i64Ok t.value = true := hv
  unfold applyUnit
  rw [lookup_name]
  simp only
  unfold applyRepaired Term.fits Acc.add Agree
  cases hc : t.unit.cls <;>
    simp only [fieldOf, addScaled, addMonths, h1, h2, h3, hv', inI64_eq_i64Ok, inI32_eq_i32Ok, Bool.true_and]
  · by_cases ha : i64Ok (t.value * t.unit.mult) = true <;> by_cases hb : i64Ok (a.sub + t.value * t.unit.mult) = true <;>
      simp [ha, hb, h2, h3]
  · by_cases ha : i64Ok (t.value * t.unit.mult) = true <;> by_cases hb : i64Ok (a.sec + t.value * t.unit.mult) = true <;>
      simp [ha, hb, h1, h3]
  · by_cases h0 : i32Ok t.value = true <;> by_cases ha : i32Ok (t.value * t.unit.mult) = true <;>
      by_cases hb : i32Ok (a.cal + t.value * t.unit.mult) = true <;> simp [h0, ha, hb, h1, h2]

theorem finish_final (st : St) (a : Acc) (hag : Agree st a) :
    (a.final = true → finish .repaired st = .ok a.cal (a.sec * 1000000000 + a.sub)) ∧
    (a.final = false → finish .repaired st = .err .overflow) := by
  obtain ⟨h1, h2, h3⟩ := hag
  unfold finish Acc.final durMaxSecs durMaxNanos
  simp only [h1, h2, h3, Bool.and_eq_true, decide_eq_true_eq]
  constructor
  · rintro ⟨⟨⟨ha, hb⟩, hc⟩, hd⟩
    rw [if_neg (by omega), if_neg (by omega)]
  · intro h
    by_cases hs : a.sec < -9223372036854775 ∨ 9223372036854775 < a.sec
    · rw [if_pos hs]
    · rw [if_neg hs]
      by_cases ht : a.sec * 1000000000 + a.sub < -9223372036854775807000000 ∨
          9223372036854775807000000 < a.sec * 1000000000 + a.sub
      · rw [if_pos ht]
      · exfalso
        have : (decide (-9223372036854775 ≤ a.sec) && decide (a.sec ≤ 9223372036854775) &&
            decide (-9223372036854775807000000 ≤ a.sec * 1000000000 + a.sub) &&
            decide (a.sec * 1000000000 + a.sub ≤ 9223372036854775807000000)) = true := by
          simp only [Bool.and_eq_true, decide_eq_true_eq]
          omega
        rw [this] at h
        cases h

theorem runTerms_ok (ts : List Term) :
    ∀ (st : St) (a : Acc), Agree st a → noOverflowFrom a ts = true →
      runTerms st ts = .ok (a.cal + sumMonths ts) (a.sec * 1000000000 + a.sub + sumNanos ts) := by
  induction ts with
  | nil =>
    intro st a hag h
    simp only [noOverflowFrom] at h
    simp [runTerms, (finish_final st a hag).1 h, sumMonths, sumNanos]
  | cons t ts ih =>
    intro st a hag h
    simp only [noOverflowFrom, Bool.and_eq_true] at h
    obtain ⟨hf, hrest⟩ := h
    have hv : inI64 t.value = true := by
      unfold Term.fits at hf
      simp only [Bool.and_eq_true] at hf
      exact hf.1
    obtain ⟨st', happ, hag'⟩ := (applyUnit_fits st a t hag hv).1 hf
    simp only [runTerms, hv, ↓reduceIte, happ]
    rw [ih st' (a.add t) hag' hrest, add_cal, add_nanos]
    simp only [sumMonths, sumNanos, List.map_cons, List.sum_cons]
    congr 1 <;> omega

theorem runTerms_err (ts : List Term) :
    ∀ (st : St) (a : Acc), Agree st a → noOverflowFrom a ts = false →
      runTerms st ts = .err .num ∨ runTerms st ts = .err .overflow := by
  induction ts with
  | nil =>
    intro st a hag h
    simp only [noOverflowFrom] at h
    exact Or.inr (by simp [runTerms, (finish_final st a hag).2 h])
  | cons t ts ih =>
    intro st a hag h
    simp only [runTerms]
    by_cases hv : inI64 t.value = true
    · simp only [hv, ↓reduceIte]
      by_cases hf : t.fits a = true
      · obtain ⟨st', happ, hag'⟩ := (applyUnit_fits st a t hag hv).1 hf
        simp only [happ]
        apply ih st' (a.add t) hag'
        simpa [noOverflowFrom, hf] using h
      · have := (applyUnit_fits st a t hag hv).2 (by simpa using hf)
        simp only [this]
        exact Or.inr trivial
    · exact Or.inl (by simp [hv])

end Tv.C18
