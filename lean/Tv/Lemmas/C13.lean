import Tv.Model.C13MapOps
import Tv.Spec.C13
/-!
  Helper lemmas for C13: positional (`getElem?`) descriptions of the list constructions the
  model is built from (`replicate ++ take`, `drop ++ replicate`, `zipWith`, the stateful
  `fillGo`), and order facts about clipping. Core Lean only.
-/
namespace Tv.C13
open Spec

/-! ### operand lookup -/

theorem opnd_in (xs : List α) (j : Int) (h0 : 0 ≤ j) (h1 : j < xs.length) :
    opnd xs j = some (xs[j.toNat]'(by omega)) := by
  unfold opnd
  rw [if_pos ⟨h0, h1⟩, List.getElem?_eq_getElem]

theorem opnd_out (xs : List α) (j : Int) (h : ¬ (0 ≤ j ∧ j < xs.length)) : opnd xs j = none := by
  unfold opnd
  rw [if_neg h]

/-! ### shift -/

theorem shift_length (n : Int) (v : α) (xs : List α) : (shift n v xs).length = xs.length := by
  unfold shift
  simp only []
  split
  · simp
  · split
    · simp; omega
    · split
      · simp; omega
      · rfl

theorem shift_getElem? (n : Int) (v : α) (xs : List α) (i : Nat) (hi : i < xs.length) :
    (shift n v xs)[i]? = some ((opnd xs ((i : Int) - n)).getD v) := by
  unfold shift opnd
  simp only []
  split
  · rw [if_neg (by omega)]; simp [hi]
  · split
    · by_cases h : i < n.natAbs
      · rw [if_neg (by omega)]; simp [List.getElem?_append_left, h]
      · rw [if_pos (by omega)]
        rw [List.getElem?_append_right (by simp; omega)]
        have e : ((i : Int) - n).toNat = i - n.natAbs := by omega
        simp only [List.length_replicate, e]
        rw [List.getElem?_take_of_lt (by omega)]
        simp [List.getElem?_eq_getElem (show i - n.natAbs < xs.length by omega)]
    · split
      · by_cases h : i < xs.length - n.natAbs
        · rw [if_pos (by omega)]
          rw [List.getElem?_append_left (by simp; omega)]
          have e : ((i : Int) - n).toNat = n.natAbs + i := by omega
          simp only [e, List.getElem?_drop]
          simp [List.getElem?_eq_getElem (show n.natAbs + i < xs.length by omega)]
        · rw [if_neg (by omega)]
          rw [List.getElem?_append_right (by simp; omega)]
          rw [List.getElem?_replicate, if_pos (by simp only [List.length_drop]; omega)]
          rfl
      · have e : n = 0 := by omega
        subst e
        rw [if_pos (by omega)]
        simp [List.getElem?_eq_getElem hi]

theorem shift_eq_spec (n : Int) (v : α) (xs : List α) : shift n v xs = shiftS n v xs := by
  apply List.ext_getElem?
  intro i
  by_cases hi : i < xs.length
  · rw [shift_getElem? n v xs i hi]
    simp [shiftS, List.getElem?_mapIdx, List.getElem?_eq_getElem hi]
  · rw [List.getElem?_eq_none (by rw [shift_length]; omega)]
    rw [List.getElem?_eq_none (by simp [shiftS]; omega)]

theorem vshift_eq_shift (n : Int) (value : Option (Option β)) (xs : List (Option β)) :
    vshift n value xs = shift n (value.getD none) xs := rfl

/-! ### lagged pairings -/

/-- `repeat_n(v, k).chain(take(len-k).zip(skip(k)).map(f))` position by position -/
theorem lagPos_getElem? (f : α → α → γ) (v : γ) (xs : List α) (k i : Nat) (hk : k < xs.length)
    (hi : i < xs.length) :
    (List.replicate k v ++ List.zipWith f (xs.take (xs.length - k)) (xs.drop k))[i]? =
      some (if h : i < k then v else f (xs[i - k]'(by omega)) xs[i]) := by
  by_cases h : i < k
  · rw [dif_pos h, List.getElem?_append_left (by simpa using h)]
    simp [h]
  · rw [dif_neg h, List.getElem?_append_right (by simp; omega)]
    simp only [List.length_replicate, List.getElem?_zipWith, List.getElem?_drop]
    rw [List.getElem?_take_of_lt (by omega)]
    rw [List.getElem?_eq_getElem (show i - k < xs.length by omega)]
    rw [List.getElem?_eq_getElem (show k + (i - k) < xs.length by omega)]
    have e : k + (i - k) = i := by omega
    simp [e]

/-- `skip(k).zip(self).map(f).chain(repeat_n(v, k))` position by position -/
theorem lagNeg_getElem? (f : α → α → γ) (v : γ) (xs : List α) (k i : Nat)
    (hi : i < xs.length) :
    (List.zipWith f (xs.drop k) xs ++ List.replicate k v)[i]? =
      some (if h : i + k < xs.length then f xs[i + k] xs[i] else v) := by
  by_cases h : i + k < xs.length
  · rw [dif_pos h, List.getElem?_append_left (by simp; omega)]
    simp only [List.getElem?_zipWith, List.getElem?_drop]
    rw [List.getElem?_eq_getElem (show k + i < xs.length by omega)]
    rw [List.getElem?_eq_getElem hi]
    have e : k + i = i + k := by omega
    simp [e]
  · rw [dif_neg h, List.getElem?_append_right (by simp; omega)]
    rw [List.getElem?_replicate, if_pos (by simp; omega)]

/-- `repeat_n(v, k).chain(take(len-k)).zip(self).map(f)` position by position -/
theorem lagPosZip_getElem? (f : α → α → γ) (v : α) (xs : List α) (k i : Nat) (hk : k < xs.length)
    (hi : i < xs.length) :
    (List.zipWith f (List.replicate k v ++ xs.take (xs.length - k)) xs)[i]? =
      some (if h : i < k then f v xs[i] else f (xs[i - k]'(by omega)) xs[i]) := by
  rw [List.getElem?_zipWith, List.getElem?_eq_getElem hi]
  by_cases h : i < k
  · rw [dif_pos h, List.getElem?_append_left (by simpa using h)]
    simp [h]
  · rw [dif_neg h, List.getElem?_append_right (by simp; omega)]
    simp only [List.length_replicate]
    rw [List.getElem?_take_of_lt (by omega)]
    rw [List.getElem?_eq_getElem (show i - k < xs.length by omega)]

/-! ### vdiff / vpct_change -/

theorem vdiff_length (n : Int) (value : Option (Option Rat)) (xs : List (Option Rat)) :
    (vdiff n value xs).length = xs.length := by
  unfold vdiff
  simp only []
  split
  · simp
  · split
    · simp; omega
    · simp; omega

theorem vdiff_getElem? (n : Int) (value : Option (Option Rat)) (xs : List (Option Rat)) (i : Nat)
    (hi : i < xs.length) :
    (vdiff n value xs)[i]? =
      some (match opnd xs ((i : Int) - n) with
            | none => value.getD none
            | some a => osub xs[i] a) := by
  unfold vdiff
  simp only []
  split
  · rw [opnd_out _ _ (by omega)]; simp [hi]
  · split
    · rw [lagPos_getElem? _ _ _ _ _ (by omega) hi]
      by_cases h : i < n.natAbs
      · rw [dif_pos h, opnd_out _ _ (by omega)]
      · rw [dif_neg h, opnd_in _ _ (by omega) (by omega)]
        have e : ((i : Int) - n).toNat = i - n.natAbs := by omega
        simp [e]
    · rw [lagNeg_getElem? _ _ _ _ _ hi]
      by_cases h : i + n.natAbs < xs.length
      · rw [dif_pos h, opnd_in _ _ (by omega) (by omega)]
        have e : ((i : Int) - n).toNat = i + n.natAbs := by omega
        simp [e]
      · rw [dif_neg h, opnd_out _ _ (by omega)]

theorem vdiff_eq_spec (n : Int) (value : Option (Option Rat)) (xs : List (Option Rat)) :
    vdiff n value xs = diffS n (value.getD none) xs := by
  apply List.ext_getElem?
  intro i
  by_cases hi : i < xs.length
  · rw [vdiff_getElem? n value xs i hi]
    simp only [diffS, List.getElem?_mapIdx, List.getElem?_eq_getElem hi, Option.map_some]
    cases opnd xs ((i : Int) - n) <;> rfl
  · rw [List.getElem?_eq_none (by rw [vdiff_length]; omega)]
    rw [List.getElem?_eq_none (by simp [diffS]; omega)]

theorem vpctChange_length (n : Int) (xs : List (Option Rat)) :
    (vpctChange n xs).length = xs.length := by
  unfold vpctChange
  simp only []
  split
  · simp
  · split
    · simp; omega
    · simp; omega

theorem vpctChange_getElem? (n : Int) (xs : List (Option Rat)) (i : Nat) (hi : i < xs.length) :
    (vpctChange n xs)[i]? =
      some (match opnd xs ((i : Int) - n) with
            | none => none
            | some a => pct a xs[i]) := by
  unfold vpctChange
  simp only []
  split
  · rw [opnd_out _ _ (by omega)]; simp [hi]
  · split
    · rw [lagPosZip_getElem? _ _ _ _ _ (by omega) hi]
      by_cases h : i < n.natAbs
      · rw [dif_pos h, opnd_out _ _ (by omega)]
        rfl
      · rw [dif_neg h, opnd_in _ _ (by omega) (by omega)]
        have e : ((i : Int) - n).toNat = i - n.natAbs := by omega
        simp [e]
    · rw [lagNeg_getElem? _ _ _ _ _ hi]
      by_cases h : i + n.natAbs < xs.length
      · rw [dif_pos h, opnd_in _ _ (by omega) (by omega)]
        have e : ((i : Int) - n).toNat = i + n.natAbs := by omega
        simp [e]
      · rw [dif_neg h, opnd_out _ _ (by omega)]

theorem vpctChange_eq_spec (n : Int) (xs : List (Option Rat)) : vpctChange n xs = pctS n xs := by
  apply List.ext_getElem?
  intro i
  by_cases hi : i < xs.length
  · rw [vpctChange_getElem? n xs i hi]
    simp only [pctS, List.getElem?_mapIdx, List.getElem?_eq_getElem hi, Option.map_some]
    rcases opnd xs ((i : Int) - n) with _ | _ | a <;> rcases xs[i] with _ | b <;> rfl
  · rw [List.getElem?_eq_none (by rw [vpctChange_length]; omega)]
    rw [List.getElem?_eq_none (by simp [pctS]; omega)]

/-! ### the stateful fill closure -/

theorem fillGo_length (mask : α → Bool) (d : α) (lv : Option α) (xs : List α) :
    (fillGo mask d lv xs).length = xs.length := by
  induction xs generalizing lv with
  | nil => rfl
  | cons x xs ih =>
    unfold fillGo
    split <;> simp [ih]

theorem fillGo_cons_masked (mask : α → Bool) (d : α) (lv : Option α) (x : α) (xs : List α)
    (hm : mask x = true) :
    fillGo mask d lv (x :: xs) = lv.getD d :: fillGo mask d lv xs := by
  conv => lhs; unfold fillGo
  rw [if_pos hm]
  cases lv <;> rfl

theorem fillGo_cons_unmasked (mask : α → Bool) (d : α) (lv : Option α) (x : α) (xs : List α)
    (hm : mask x = false) :
    fillGo mask d lv (x :: xs) = x :: fillGo mask d (some x) xs := by
  conv => lhs; unfold fillGo
  rw [if_neg (by simp [hm])]

/-- output `i` of the closure started with `last_valid = lv`: an unmasked element passes; a masked
one becomes the last unmasked element before it, else `lv`, else the default -/
theorem fillGo_getElem (mask : α → Bool) (d : α) (lv : Option α) (xs : List α) (i : Nat)
    (hi : i < xs.length) :
    (fillGo mask d lv xs)[i]'(by rw [fillGo_length]; exact hi) =
      if mask xs[i] then ((((xs.take i).reverse.find? fun y => !mask y).or lv).getD d) else xs[i] := by
  induction xs generalizing lv i with
  | nil => simp at hi
  | cons x xs ih =>
    cases hm : mask x with
    | true =>
      simp only [fillGo_cons_masked mask d lv x xs hm]
      cases i with
      | zero => simp [hm]
      | succ i =>
        have hi' : i < xs.length := by simpa using hi
        simp only [List.getElem_cons_succ, List.take_succ_cons, List.reverse_cons, List.find?_append]
        rw [ih lv i hi']
        simp [hm]
    | false =>
      simp only [fillGo_cons_unmasked mask d lv x xs hm]
      cases i with
      | zero => simp [hm]
      | succ i =>
        have hi' : i < xs.length := by simpa using hi
        simp only [List.getElem_cons_succ, List.take_succ_cons, List.reverse_cons, List.find?_append]
        rw [ih (some x) i hi']
        simp [hm]

theorem ffillMask_length (mask : Option β → Bool) (value : Option (Option β)) (xs : List (Option β)) :
    (ffillMask mask value xs).length = xs.length := fillGo_length _ _ _ _

theorem bfillMask_length (mask : Option β → Bool) (value : Option (Option β)) (xs : List (Option β)) :
    (bfillMask mask value xs).length = xs.length := by
  simp [bfillMask, fillGo_length]

theorem ffillMask_getElem (mask : Option β → Bool) (value : Option (Option β)) (xs : List (Option β))
    (i : Nat) (hi : i < xs.length) :
    (ffillMask mask value xs)[i]'(by rw [ffillMask_length]; exact hi) =
      if mask xs[i] then (((xs.take i).reverse.find? fun y => !mask y).getD (value.getD none)) else xs[i] := by
  unfold ffillMask
  rw [fillGo_getElem mask _ none xs i hi]
  simp

theorem bfillMask_getElem (mask : Option β → Bool) (value : Option (Option β)) (xs : List (Option β))
    (i : Nat) (hi : i < xs.length) :
    (bfillMask mask value xs)[i]'(by rw [bfillMask_length]; exact hi) =
      if mask xs[i] then (((xs.drop (i + 1)).find? fun y => !mask y).getD (value.getD none)) else xs[i] := by
  unfold bfillMask
  rw [List.getElem_reverse]
  rw [fillGo_getElem mask _ none xs.reverse _ (by simp [fillGo_length]; omega)]
  simp only [fillGo_length, List.length_reverse, List.getElem_reverse, Option.or_none]
  have e1 : xs.length - 1 - (xs.length - 1 - i) = i := by omega
  have e2 : (xs.reverse.take (xs.length - 1 - i)).reverse = xs.drop (i + 1) := by
    rw [List.take_reverse, List.reverse_reverse]
    congr 1
    omega
  simp only [e1, e2]

theorem ffillMask_eq_spec (mask : Option β → Bool) (value : Option (Option β)) (xs : List (Option β)) :
    ffillMask mask value xs = ffillS mask (value.getD none) xs := by
  apply List.ext_getElem
  · simp [ffillMask_length, ffillS]
  · intro i h1 h2
    have hi : i < xs.length := by rw [ffillMask_length] at h1; exact h1
    rw [ffillMask_getElem mask value xs i hi]
    simp [ffillS]

theorem bfillMask_eq_spec (mask : Option β → Bool) (value : Option (Option β)) (xs : List (Option β)) :
    bfillMask mask value xs = bfillS mask (value.getD none) xs := by
  apply List.ext_getElem
  · simp [bfillMask_length, bfillS]
  · intro i h1 h2
    have hi : i < xs.length := by rw [bfillMask_length] at h1; exact h1
    rw [bfillMask_getElem mask value xs i hi]
    simp [bfillS]

/-! ### nearest unmasked neighbour, stated without `find?` -/

/-- the nearest position before `i` satisfying `p` is what `find?` on the reversed prefix returns -/
theorem find?_reverse_take_eq (p : α → Bool) (xs : List α) (i j : Nat) (hj : j < i) (hi : i ≤ xs.length)
    (hp : p (xs[j]'(by omega)) = true) (hnp : ∀ k (_ : j < k) (h2 : k < i), p (xs[k]'(by omega)) = false) :
    (xs.take i).reverse.find? p = some (xs[j]'(by omega)) := by
  rw [List.find?_eq_some_iff_getElem]
  refine ⟨hp, i - 1 - j, by simp; omega, ?_, ?_⟩
  · simp only [List.getElem_reverse, List.getElem_take, List.length_take]
    congr 1
    omega
  · intro m hm
    simp only [List.getElem_reverse, List.getElem_take, List.length_take]
    rw [hnp _ (by omega) (by omega)]
    rfl

theorem find?_reverse_take_none (p : α → Bool) (xs : List α) (i : Nat) (hi : i ≤ xs.length)
    (hnp : ∀ k (h : k < i), p (xs[k]'(by omega)) = false) :
    (xs.take i).reverse.find? p = none := by
  rw [List.find?_eq_none]
  intro x hx
  rw [List.mem_reverse, List.mem_iff_getElem] at hx
  obtain ⟨k, hk, rfl⟩ := hx
  have hk' : k < i := by simp at hk; omega
  simp [hnp k hk']

/-- the nearest position after `i` satisfying `p` is what `find?` on the suffix returns -/
theorem find?_drop_eq (p : α → Bool) (xs : List α) (i j : Nat) (hj : i < j) (hl : j < xs.length)
    (hp : p xs[j] = true) (hnp : ∀ k (_ : i < k) (h2 : k < j), p (xs[k]'(by omega)) = false) :
    (xs.drop (i + 1)).find? p = some xs[j] := by
  rw [List.find?_eq_some_iff_getElem]
  refine ⟨hp, j - (i + 1), by simp; omega, ?_, ?_⟩
  · simp only [List.getElem_drop]
    congr 1
    omega
  · intro m hm
    simp only [List.getElem_drop]
    rw [hnp _ (by omega) (by omega)]
    rfl

theorem find?_drop_none (p : α → Bool) (xs : List α) (i : Nat)
    (hnp : ∀ k (_ : i < k) (h2 : k < xs.length), p xs[k] = false) :
    (xs.drop (i + 1)).find? p = none := by
  rw [List.find?_eq_none]
  intro x hx
  rw [List.mem_iff_getElem] at hx
  obtain ⟨k, hk, rfl⟩ := hx
  simp only [List.length_drop] at hk
  simp only [List.getElem_drop]
  simp [hnp (i + 1 + k) (by omega) (by omega)]

/-! ### clip -/

/-- the bounds are ordered whenever both are present -/
def Ordered (lo hi : Option Rat) : Prop := ∀ l h, lo = some l → hi = some h → l ≤ h

theorem clip1_idem (lo hi : Option Rat) (x : Rat) (hb : Ordered lo hi) :
    clip1 lo hi (clip1 lo hi x) = clip1 lo hi x := by
  unfold clip1
  rcases lo with _ | l <;> rcases hi with _ | h
  · rfl
  · grind
  · grind
  · have := hb l h rfl rfl
    grind

theorem clip1_within (lo hi : Option Rat) (x : Rat) (hb : Ordered lo hi) :
    (∀ l, lo = some l → l ≤ clip1 lo hi x) ∧ (∀ h, hi = some h → clip1 lo hi x ≤ h) := by
  unfold clip1
  rcases lo with _ | l <;> rcases hi with _ | h
  · simp
  · grind
  · grind
  · have := hb l h rfl rfl
    grind

/-- a value already inside the bounds is left alone -/
theorem clip1_inside (lo hi : Option Rat) (x : Rat)
    (h1 : ∀ l, lo = some l → l ≤ x) (h2 : ∀ h, hi = some h → x ≤ h) : clip1 lo hi x = x := by
  unfold clip1
  rcases lo with _ | l <;> rcases hi with _ | h
  · rfl
  · have := h2 h rfl; grind
  · have := h1 l rfl; grind
  · have := h1 l rfl; have := h2 h rfl; grind

/-- below the lower bound gives the lower bound, above the upper bound the upper bound -/
theorem clip1_below (l : Rat) (hi : Option Rat) (x : Rat) (hb : Ordered (some l) hi) (h : x < l) :
    clip1 (some l) hi x = l := by
  unfold clip1
  rcases hi with _ | h'
  · grind
  · have := hb l h' rfl rfl; grind

theorem clip1_above (lo : Option Rat) (h : Rat) (x : Rat) (hb : Ordered lo (some h)) (hx : h < x) :
    clip1 lo (some h) x = h := by
  unfold clip1
  rcases lo with _ | l
  · grind
  · have := hb l h rfl rfl; grind

theorem vclip_eq_clipS (lo hi : Option Rat) (xs : List (Option Rat)) : vclip lo hi xs = clipS lo hi xs := by
  unfold vclip clipS
  rcases lo with _ | l <;> rcases hi with _ | h
  · have e : clip1 none none = fun x => x := by funext x; rfl
    simp [e]
  · simp only []
    apply List.map_congr_left
    intro v _
    rcases v with _ | x
    · rfl
    · simp only [Option.map_some, clip1]; grind
  · simp only []
    apply List.map_congr_left
    intro v _
    rcases v with _ | x
    · rfl
    · simp only [Option.map_some, clip1]; grind
  · simp only []
    apply List.map_congr_left
    intro v _
    rcases v with _ | x
    · rfl
    · simp only [Option.map_some, clip1]; grind

/-! ### abs -/

theorem rabs_eq_absq (q : Rat) : rabs q = absq q := by
  unfold rabs absq; grind

theorem rabs_nonneg (q : Rat) : 0 ≤ rabs q := by
  unfold rabs; grind

theorem rabs_cases (q : Rat) : (0 ≤ q ∧ rabs q = q) ∨ (q < 0 ∧ rabs q = -q) := by
  unfold rabs; grind

end Tv.C13
