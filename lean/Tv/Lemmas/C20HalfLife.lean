import Tv.Model.C20
import Tv.Spec.C20
/-!
  Helper lemmas for C20 / `half_life`: loop invariants of the doubling search and of the
  bisection (core Lean only).
-/
namespace Tv.C20
open Tv

/-- what the library guarantees about the oracle: a lag autocorrelation can only be above 0.5
when it is defined, and `vcorr_pearson` needs at least `max(min_periods, 2)` valid pairs while a
shift by `l` leaves at most `len - l` of them. -/
def OracleOk (c : Nat → Cls) (len : Nat) : Prop := ∀ l, c l = .above → l + 2 ≤ len

/-! ### doubling -/

theorem four_mul_le_two_pow (n : Nat) : 4 * n ≤ 2 ^ (n + 1) := by
  induction n with
  | zero => simp
  | succ k ih =>
    rw [Nat.pow_succ]
    rcases k with _ | k
    · decide
    · have : 1 ≤ k + 1 := by omega
      have h2 : 4 ≤ 2 ^ (k + 1 + 1) := by
        calc 4 = 2 ^ 2 := rfl
          _ ≤ 2 ^ (k + 1 + 1) := Nat.pow_le_pow_right (by decide) (by omega)
      omega

/-- the fuel of the doubling search never runs out -/
theorem doubling_some (c : Nat → Cls) (len : Nat) :
    ∀ fuel n last i, 1 ≤ fuel → (1 ≤ i → n = 2 ^ (i - 1)) → 4 * len ≤ 2 ^ (i + fuel) →
      ∃ r, doubling c len fuel n last i = some r := by
  intro fuel
  induction fuel with
  | zero => intro n last i h; omega
  | succ f ih =>
    intro n last i _ hn hpow
    unfold doubling
    by_cases hlt : n < len
    · simp only [hlt, if_true]
      by_cases ha : c (2 ^ i) = .above
      · simp only [ha, if_true]
        have hf : 1 ≤ f := by
          rcases f with _ | f
          · exfalso
            rcases i with _ | k
            · simp at hpow; omega
            · have := hn (by omega)
              simp only [Nat.add_sub_cancel] at this
              have e : 2 ^ (k + 1 + (0 + 1)) = 4 * 2 ^ k := by
                rw [show k + 1 + (0 + 1) = k + 2 from rfl, Nat.pow_add]; omega
              omega
          · omega
        apply ih _ _ _ hf
        · intro _; simp
        · rw [show i + 1 + f = i + (f + 1) by omega]; exact hpow
      · simp only [ha, if_false]; exact ⟨_, rfl⟩
    · simp only [hlt, if_false]; exact ⟨_, rfl⟩

/-- loop invariant of the doubling search -/
def DInv (c : Nat → Cls) (n last i : Nat) : Prop :=
  (i = 0 ∧ n = 0 ∧ last = 0) ∨ (1 ≤ i ∧ n = 2 ^ (i - 1) ∧ last = n ∧ c n = .above)

/-- postcondition of the doubling search: the lower end of the bracket is 0 or a lag that is
above 0.5; the loop either broke at a lag `n' > last'` that is not above, or ran past the end of
the series on a lag that is above (impossible for an admissible oracle) -/
theorem doubling_post (c : Nat → Cls) (len : Nat) :
    ∀ fuel n last i r, DInv c n last i → doubling c len fuel n last i = some r →
      (r.2 = 0 ∨ c r.2 = .above) ∧
      ((c r.1 ≠ .above ∧ r.2 < r.1) ∨ (len ≤ r.1 ∧ 1 ≤ r.1 ∧ c r.1 = .above) ∨ (len = 0)) := by
  intro fuel
  induction fuel with
  | zero => intro n last i r _ h; simp [doubling] at h
  | succ f ih =>
    intro n last i r hinv h
    unfold doubling at h
    by_cases hlt : n < len
    · simp only [hlt, if_true] at h
      by_cases ha : c (2 ^ i) = .above
      · simp only [ha, if_true] at h
        apply ih _ _ _ _ _ h
        right
        exact ⟨by omega, by simp, rfl, by simpa using ha⟩
      · simp only [ha, if_false] at h
        cases h
        rcases hinv with ⟨hi, _, hl⟩ | ⟨hi, hn, hl, hc⟩
        · subst hl
          refine ⟨Or.inl rfl, Or.inl ⟨ha, ?_⟩⟩
          exact Nat.two_pow_pos i
        · refine ⟨Or.inr (by rw [hl]; exact hc), Or.inl ⟨ha, ?_⟩⟩
          show last < 2 ^ i
          rw [hl, hn]
          exact Nat.pow_lt_pow_right (by decide) (by omega)
    · simp only [hlt, if_false] at h
      cases h
      rcases hinv with ⟨_, hn, hl⟩ | ⟨hi, hn, hl, hc⟩
      · subst hn hl
        exact ⟨Or.inl rfl, Or.inr (Or.inr (by omega))⟩
      · refine ⟨Or.inr (by rw [hl]; exact hc), Or.inr (Or.inl ⟨by omega, ?_, hc⟩)⟩
        rw [hn]
        exact Nat.two_pow_pos _

/-! ### bisection -/

/-- the fuel of the bisection never runs out -/
theorem bisect_ne_timeout (c : Nat → Cls) :
    ∀ fuel n last, 1 ≤ fuel → n < last + fuel → bisect c fuel n last ≠ .timeout := by
  intro fuel
  induction fuel with
  | zero => intro n last h; omega
  | succ f ih =>
    intro n last _ hlt
    unfold bisect
    by_cases h1 : n < last
    · simp [h1]
    · simp only [h1, if_false]
      by_cases h2 : n - last > 1
      · simp only [h2, if_true]
        have hl1 : last < (n + last) / 2 := by omega
        have hl2 : (n + last) / 2 < n := by omega
        by_cases ha : c ((n + last) / 2) = .above
        · simp only [ha, if_true]
          exact ih _ _ (by omega) (by omega)
        · simp only [ha, if_false]
          exact ih _ _ (by omega) (by omega)
      · simp [h2]

/-- bracket invariant of the bisection: with `last < n`, `last` zero or above and `n` not above,
the loop ends (no panic, enough fuel) on a down-crossing `r` inside the bracket -/
theorem bisect_spec (c : Nat → Cls) :
    ∀ fuel n last, last < n → n < last + fuel + 1 → (last = 0 ∨ c last = .above) → c n ≠ .above →
      ∃ r, bisect c fuel n last = .ok r ∧ last < r ∧ r ≤ n ∧ c r ≠ .above ∧
        (r = 1 ∨ c (r - 1) = .above) := by
  intro fuel
  induction fuel with
  | zero => intro n last h1 h2; omega
  | succ f ih =>
    intro n last hlt hf hlast hn
    unfold bisect
    have h1 : ¬ n < last := by omega
    simp only [h1, if_false]
    by_cases h2 : n - last > 1
    · simp only [h2, if_true]
      have hl1 : last < (n + last) / 2 := by omega
      have hl2 : (n + last) / 2 < n := by omega
      by_cases ha : c ((n + last) / 2) = .above
      · simp only [ha, if_true]
        obtain ⟨r, hr, h3, h4, h5, h6⟩ := ih n ((n + last) / 2) hl2 (by omega) (Or.inr ha) hn
        exact ⟨r, hr, by omega, h4, h5, h6⟩
      · simp only [ha, if_false]
        obtain ⟨r, hr, h3, h4, h5, h6⟩ := ih ((n + last) / 2) last hl1 (by omega) hlast ha
        exact ⟨r, hr, h3, by omega, h5, h6⟩
    · simp only [h2, if_false]
      refine ⟨n, rfl, hlt, Nat.le_refl _, hn, ?_⟩
      have : n = last + 1 := by omega
      rcases hlast with h0 | ha
      · left; omega
      · right; rw [this]; simpa using ha

end Tv.C20

namespace Tv.C20

/-! ### the whole routine -/

theorem halfLife_zero (c : Nat → Cls) : halfLife c 0 = .ok 0 := by simp [halfLife]

theorem halfLife_one (c : Nat → Cls) (h : OracleOk c 1) : halfLife c 1 = .ok 0 := by
  have h1 : c 1 ≠ .above := fun e => by have := h 1 e; omega
  simp [halfLife, doubling, bisect, h1]

/-- for an admissible oracle and at least two observations: no panic, enough fuel, and the
returned lag is a down-crossing in `1..=len-1` -/
theorem halfLife_ok (c : Nat → Cls) (len : Nat) (h : OracleOk c len) (h2 : 2 ≤ len) :
    ∃ r, halfLife c len = .ok r ∧ 1 ≤ r ∧ r ≤ len - 1 ∧ c r ≠ .above ∧
      (r = 1 ∨ c (r - 1) = .above) := by
  obtain ⟨r0, hr0⟩ := doubling_some c len (len + 1) 0 0 0 (by omega) (by intro h; omega)
    (by simpa using four_mul_le_two_pow len)
  have hpost := doubling_post c len (len + 1) 0 0 0 r0 (Or.inl ⟨rfl, rfl, rfl⟩) hr0
  obtain ⟨hlow, hup⟩ := hpost
  have hup' : c r0.1 ≠ .above ∧ r0.2 < r0.1 := by
    rcases hup with hb | ⟨hlen, _, ha⟩ | h0
    · exact hb
    · have := h _ ha; omega
    · omega
  obtain ⟨hn, hlt⟩ := hup'
  have hlen1 : c (len - 1) ≠ .above := fun e => by have := h _ e; omega
  have hlast : r0.2 < len - 1 := by
    rcases hlow with h0 | ha
    · omega
    · have := h _ ha; omega
  have hmin_lt : r0.2 < min r0.1 (len - 1) := by
    rw [Nat.lt_min]; exact ⟨hlt, hlast⟩
  have hmin_c : c (min r0.1 (len - 1)) ≠ .above := by
    rcases Nat.le_total r0.1 (len - 1) with hle | hle
    · rw [Nat.min_eq_left hle]; exact hn
    · rw [Nat.min_eq_right hle]; exact hlen1
  have hmin_le : min r0.1 (len - 1) ≤ len - 1 := Nat.min_le_right _ _
  obtain ⟨r, hr, h3, h4, h5, h6⟩ :=
    bisect_spec c len (min r0.1 (len - 1)) r0.2 hmin_lt (by omega) hlow hmin_c
  refine ⟨r, ?_, by omega, by omega, h5, h6⟩
  unfold halfLife
  have hne : len ≠ 0 := by omega
  simp only [hne, if_false, hr0]
  exact hr

/-! ### the from-scratch linear search -/

theorem firstNotAbove_spec (c : Nat → Cls) : ∀ bound,
    match Spec.firstNotAbove c bound with
    | some f => 1 ≤ f ∧ f ≤ bound ∧ c f ≠ .above ∧ ∀ l, 1 ≤ l → l < f → c l = .above
    | none => ∀ l, 1 ≤ l → l ≤ bound → c l = .above := by
  intro bound
  induction bound with
  | zero => simp [Spec.firstNotAbove]; intro l h1 h2; omega
  | succ b ih =>
    unfold Spec.firstNotAbove at ih ⊢
    rw [List.range_succ, List.map_append, List.find?_append]
    cases hf : List.find? (fun l => decide (c l ≠ .above)) (List.map (· + 1) (List.range b)) with
    | some f =>
      rw [hf] at ih
      simp only [Option.some_or]
      obtain ⟨a, b', c', d⟩ := ih
      exact ⟨a, by omega, c', d⟩
    | none =>
      rw [hf] at ih
      simp only [Option.none_or, List.map_cons, List.map_nil, List.find?_cons, List.find?_nil]
      by_cases hc : c (b + 1) = .above
      · simp only [hc, ne_eq, not_true_eq_false, decide_false]
        intro l h1 h2
        rcases Nat.lt_or_ge l (b + 1) with h | h
        · exact ih l h1 (by omega)
        · have : l = b + 1 := by omega
          rw [this]; exact hc
      · simp only [hc, ne_eq, not_false_eq_true, decide_true]
        exact ⟨by omega, Nat.le_refl _, by first | exact hc | trivial, fun l h1 h2 => ih l h1 (by omega)⟩

end Tv.C20
