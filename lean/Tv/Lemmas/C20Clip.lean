import Mathlib.Algebra.Order.Field.Rat
import Tv.Model.C20
import Tv.Spec.C20
/-!
  Helper lemmas for C20 / `winsorize`: `vclip` as an element-wise map and the order facts about
  the clipping function of one value.
-/
namespace Tv.C20
open Tv

/-- what `vclip(lower, upper)` does to one valid value -/
def clipVal (lo hi : Option Rat) (x : Rat) : Rat :=
  match lo, hi with
  | some l, some h => if x < l then l else if x > h then h else x
  | some l, none => if x < l then l else x
  | none, some h => if x > h then h else x
  | none, none => x

/-- `vclip` is the element-wise map of `clipVal` over the valid entries -/
theorem vclip_eq_map (lo hi : Option Rat) (xs : List (Option Rat)) :
    vclip lo hi xs = xs.map (Option.map (clipVal lo hi)) := by
  unfold vclip
  cases lo <;> cases hi <;> simp only []
  · have : clipVal none none = id := by funext x; rfl
    rw [this]; simp
  all_goals
    apply List.map_congr_left
    intro v _
    cases v with
    | none => rfl
    | some x =>
      simp only [Option.map_some, clipVal]
      split <;> (try split) <;> rfl

theorem vclip_getElem? (lo hi : Option Rat) (xs : List (Option Rat)) (i : Nat) :
    (vclip lo hi xs)[i]? = xs[i]?.map (Option.map (clipVal lo hi)) := by
  rw [vclip_eq_map, List.getElem?_map]

/-- bounds, where both present, are ordered -/
def Ordered (lo hi : Option Rat) : Prop := ∀ l h, lo = some l → hi = some h → l ≤ h

theorem clipVal_inside (lo hi : Option Rat) (x : Rat)
    (hl : ∀ l, lo = some l → l ≤ x) (hh : ∀ h, hi = some h → x ≤ h) : clipVal lo hi x = x := by
  unfold clipVal
  cases lo with
  | none =>
    cases hi with
    | none => rfl
    | some h => simp only []; rw [if_neg (not_lt.mpr (hh h rfl))]
  | some l =>
    have h1 : ¬ x < l := not_lt.mpr (hl l rfl)
    cases hi with
    | none => simp only []; rw [if_neg h1]
    | some h => simp only []; rw [if_neg h1, if_neg (not_lt.mpr (hh h rfl))]

theorem clipVal_below (hi : Option Rat) (l x : Rat) (h : x < l) : clipVal (some l) hi x = l := by
  unfold clipVal
  cases hi <;> simp only [] <;> rw [if_pos h]

theorem clipVal_above (lo : Option Rat) (h x : Rat) (hx : h < x) (ho : Ordered lo (some h)) :
    clipVal lo (some h) x = h := by
  unfold clipVal
  cases lo with
  | none => simp only []; rw [if_pos hx]
  | some l =>
    have : ¬ x < l := not_lt.mpr (le_of_lt (lt_of_le_of_lt (ho l h rfl rfl) hx))
    simp only []; rw [if_neg this, if_pos hx]

/-- for ordered bounds `clipVal` is the textbook `max lo (min x hi)` -/
theorem clipVal_eq_clip1 (lo hi : Option Rat) (x : Rat) (ho : Ordered lo hi) :
    clipVal lo hi x = Spec.clip1 lo hi x := by
  unfold clipVal Spec.clip1
  cases lo with
  | none =>
    cases hi with
    | none => rfl
    | some h =>
      simp only []
      by_cases hx : x > h
      · rw [if_pos hx, min_eq_right (le_of_lt hx)]
      · rw [if_neg hx, min_eq_left (not_lt.mp hx)]
  | some l =>
    cases hi with
    | none =>
      simp only []
      by_cases hx : x < l
      · rw [if_pos hx, max_eq_left (le_of_lt hx)]
      · rw [if_neg hx, max_eq_right (not_lt.mp hx)]
    | some h =>
      have hlh := ho l h rfl rfl
      simp only []
      by_cases hx : x < l
      · rw [if_pos hx, min_eq_left (le_trans (le_of_lt hx) hlh), max_eq_left (le_of_lt hx)]
      · rw [if_neg hx]
        by_cases hx2 : x > h
        · rw [if_pos hx2, min_eq_right (le_of_lt hx2), max_eq_right hlh]
        · rw [if_neg hx2, min_eq_left (not_lt.mp hx2), max_eq_right (not_lt.mp hx)]

theorem clip1_mono (lo hi : Option Rat) (x y : Rat) (h : x ≤ y) :
    Spec.clip1 lo hi x ≤ Spec.clip1 lo hi y := by
  unfold Spec.clip1
  cases lo <;> cases hi <;> simp only []
  · exact h
  · exact min_le_min_right _ h
  · exact max_le_max_left _ h
  · exact max_le_max_left _ (min_le_min_right _ h)

theorem clipVal_mono (lo hi : Option Rat) (x y : Rat) (ho : Ordered lo hi) (h : x ≤ y) :
    clipVal lo hi x ≤ clipVal lo hi y := by
  rw [clipVal_eq_clip1 lo hi x ho, clipVal_eq_clip1 lo hi y ho]
  exact clip1_mono lo hi x y h

/-- the clipped value lies within the (present, ordered) bounds -/
theorem clipVal_within (lo hi : Option Rat) (x : Rat) (ho : Ordered lo hi) :
    (∀ l, lo = some l → l ≤ clipVal lo hi x) ∧ (∀ h, hi = some h → clipVal lo hi x ≤ h) := by
  rw [clipVal_eq_clip1 lo hi x ho]
  unfold Spec.clip1
  constructor
  · intro l hl; subst hl; exact le_max_left _ _
  · intro h hh; subst hh
    cases lo with
    | none => exact min_le_right _ _
    | some l => exact max_le (ho l h rfl rfl) (min_le_right _ _)

end Tv.C20
