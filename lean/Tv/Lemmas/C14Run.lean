import Tv.Model.C14Unique
/-! generic facts about the `enumerate().filter_map` state machine `run` (C14) -/
namespace Tv.C14

/-- the captured state after the closure has consumed `p` (first index `i`) -/
def stateAfter {σ α β : Type} (step : σ → Nat → α → σ × Option β) : σ → Nat → List α → σ
  | s, _, [] => s
  | s, i, x :: t => stateAfter step (step s i x).1 (i + 1) t

/-- `run` emits, at every position `j`, what the closure returns in the state reached after the
first `j` elements -/
theorem run_eq_filterMap {σ α β : Type} (step : σ → Nat → α → σ × Option β) (s : σ) (i0 : Nat)
    (xs : List α) :
    run step s i0 xs = (List.range xs.length).filterMap (fun j =>
      (xs[j]?).bind fun x => (step (stateAfter step s i0 (xs.take j)) (i0 + j) x).2) := by
  induction xs generalizing s i0 with
  | nil => simp [run]
  | cons x t ih =>
    rw [List.length_cons, List.range_succ_eq_map, List.filterMap_cons, List.filterMap_map]
    have hfun : ((fun j => ((x :: t)[j]?).bind fun y =>
          (step (stateAfter step s i0 ((x :: t).take j)) (i0 + j) y).2) ∘ Nat.succ)
        = fun j => (t[j]?).bind fun y =>
          (step (stateAfter step (step s i0 x).1 (i0 + 1) (t.take j)) (i0 + 1 + j) y).2 := by
      funext j
      simp [stateAfter, Nat.add_assoc, Nat.add_comm 1 j]
    rw [hfun, ← ih]
    simp only [List.getElem?_cons_zero, List.take_zero, stateAfter, Nat.add_zero, Option.bind_some]
    cases h : (step s i0 x).2 <;> simp [run, h]

end Tv.C14
