import Tv.Lemmas.C11Fold
/-!
  C11 helper lemmas, part 5: counting folds, first / last valid element, boolean folds and
  the masked selection.
-/
namespace Tv.C11
open Tv

theorem foldl_count {α : Type _} (P : α → Prop) [DecidablePred P] (l : List α) (k : Nat) :
    l.foldl (fun acc x => if P x then acc + 1 else acc) k
      = k + (l.filter fun x => decide (P x)).length := by
  induction l generalizing k with
  | nil => simp
  | cons x l ih =>
    simp only [List.foldl_cons, List.filter_cons]
    by_cases h : P x
    · simp only [h, if_true, decide_true, List.length_cons]; rw [ih]; omega
    · simp only [h, if_false, decide_false]; rw [ih]; simp

theorem filter_valid_eq {α : Type _} [DecidableEq α] (c : α) (xs : List (Option α)) :
    ((valid xs).filter fun x => decide (x = c)).length
      = (xs.filter fun x => decide (x = some c)).length := by
  induction xs with
  | nil => rfl
  | cons x xs ih =>
    cases x with
    | none => simpa using ih
    | some a =>
      by_cases h : a = c
      · simp [h, ih]
      · simp [h, ih]

theorem filter_isNone_eq {α : Type _} [DecidableEq α] (xs : List (Option α)) :
    (xs.filter fun x => decide (x.isNone = true)) = xs.filter fun x => decide (x = none) := by
  apply List.filter_congr
  intro x _
  cases x <;> simp

/-! ### first / last valid -/

theorem find_isSome_eq (xs : List (Option α)) :
    xs.find? (·.isSome) = ((valid xs).head?).map some := by
  induction xs with
  | nil => rfl
  | cons x xs ih => cases x <;> simp [ih]

theorem valid_reverse (xs : List (Option α)) : valid xs.reverse = (valid xs).reverse := by
  simp [valid, List.filterMap_reverse]

/-! ### boolean folds -/

theorem foldl_or (l : List Bool) (a : Bool) :
    l.foldl (fun acc x => acc || x) a = (a || l.contains true) := by
  induction l generalizing a with
  | nil => simp
  | cons x t ih => rw [List.foldl_cons, ih]; cases a <;> cases x <;> simp

theorem foldl_and (l : List Bool) (a : Bool) :
    l.foldl (fun acc x => acc && x) a = (a && !l.contains false) := by
  induction l generalizing a with
  | nil => simp
  | cons x t ih => rw [List.foldl_cons, ih]; cases a <;> cases x <;> simp

theorem any_id_eq (l : List Bool) : l.any id = l.contains true := by
  induction l with
  | nil => rfl
  | cons x t ih => cases x <;> simp [ih]

theorem all_id_eq (l : List Bool) : l.all id = !l.contains false := by
  induction l with
  | nil => rfl
  | cons x t ih => cases x <;> simp [ih]

/-! ### masked selection -/

/-- the index-free form of `Spec.selected` -/
theorem selected_cons (x : Option Rat) (xs : List (Option Rat)) (m : Option Bool)
    (ms : List (Option Bool)) :
    Spec.selected (x :: xs) (m :: ms)
      = (if m = some true then x.toList else []) ++ Spec.selected xs ms := by
  unfold Spec.selected
  simp only [List.length_cons, Nat.succ_min_succ]
  rw [List.range_succ_eq_map, List.filterMap_cons, List.filterMap_map]
  have hf : ((fun i => if (m :: ms)[i]? = some (some true) then ((x :: xs)[i]?).join else none)
      ∘ Nat.succ) = fun i => if ms[i]? = some (some true) then (xs[i]?).join else none := by
    funext i; simp
  rw [hf]
  by_cases hm : m = some true
  · subst hm
    cases x <;> simp
  · have : ¬ ((m :: ms)[0]? = some (some true)) := by simpa using hm
    simp [hm]

theorem selected_nil_left (ms : List (Option Bool)) : Spec.selected [] ms = [] := by
  simp [Spec.selected]

theorem selected_nil_right (xs : List (Option Rat)) : Spec.selected xs [] = [] := by
  simp [Spec.selected]

theorem valid_keepFlag (xs : List (Option Rat)) (ms : List (Option Bool)) :
    valid ((xs.zip ms).filterMap keepFlag) = Spec.selected xs ms := by
  induction xs generalizing ms with
  | nil => simp [selected_nil_left]
  | cons x xs ih =>
    cases ms with
    | nil => simp [selected_nil_right]
    | cons m ms =>
      rw [selected_cons, List.zip_cons_cons, List.filterMap_cons]
      cases m with
      | none => simpa [keepFlag] using ih ms
      | some b =>
        cases b with
        | false => simpa [keepFlag] using ih ms
        | true =>
          cases x with
          | none => simpa [keepFlag] using ih ms
          | some v => simpa [keepFlag] using ih ms

end Tv.C11
