import Tv.Lemmas.Weighted
/-! fractional-difference coefficients: `fdiff_coef(d, w)` and the window sums of tevec/src/rolling.rs -/
namespace Tv
open Tv.Spec

theorem spec_gbinom_succ (d : Rat) (k : Nat) :
    Spec.gbinom d (k + 1) = Spec.gbinom d k * (d - (k : Rat)) / ((k : Rat) + 1) := by
  simp [Spec.gbinom, List.range_succ, List.foldl_append]

theorem gbinom_eq (d : Rat) (k : Nat) : Tv.gbinom d k = Spec.gbinom d k := by
  induction k with
  | zero => simp [Tv.gbinom, Spec.gbinom]
  | succ k ih => rw [Tv.gbinom, spec_gbinom_succ, ih]

/-- sign `(-1)^k` as the code / spec write it -/
def sgnPow (k : Nat) : Rat := if k % 2 = 0 then 1 else -1

theorem sgnPow_succ (k : Nat) : sgnPow (k + 1) = - sgnPow k := by
  unfold sgnPow
  rcases Nat.mod_two_eq_zero_or_one k with h | h
  · have : (k + 1) % 2 = 1 := by omega
    simp [h, this]
  · have : (k + 1) % 2 = 0 := by omega
    simp [h, this]

/-- weight of the element with lag `k` -/
def fcoef (d : Rat) (k : Nat) : Rat := gbinom d k * sgnPow k

/-- the sign-flipping fold of `fdiff_coef` over `(0..k).rev()` started with sign `(-1)^k` -/
theorem fdiffCoef_fold (d : Rat) (k : Nat) (acc : List Rat) :
    ((List.range k).reverse.foldl
        (fun (a : Rat × List Rat) v => let s := -a.1; (s, a.2 ++ [gbinom d v * s])) (sgnPow k, acc)).2
      = acc ++ (List.range k).reverse.map (fcoef d) := by
  induction k generalizing acc with
  | zero => simp
  | succ k ih =>
    rw [List.range_succ, List.reverse_append, List.reverse_singleton, List.singleton_append,
      List.foldl_cons]
    have hs : -sgnPow (k + 1) = sgnPow k := by rw [sgnPow_succ]; ring
    simp only [hs]
    rw [ih]
    simp [fcoef, List.append_assoc]

/-- **`fdiff_coef(d, w)`**: the coefficient stored at position `j` is `(-1)^(w-1-j) C(d, w-1-j)` -/
theorem fdiffCoef_eq (d : Rat) (w : Nat) : fdiffCoef d w = (List.range w).reverse.map (fcoef d) := by
  unfold fdiffCoef
  have h0 : ((if w % 2 = 0 then 1 else -1 : Rat)) = sgnPow w := rfl
  rw [h0, fdiffCoef_fold]
  simp

/-- lag-indexed weighted sum: `Σ_j c(k+j) * r[j]` over a newest-first list -/
def lagSum (c : Nat → Rat) : Nat → List Rat → Rat
  | _, [] => 0
  | k, x :: r => c k * x + lagSum c (k + 1) r

theorem fdiffSum_eq_lagSum (d : Rat) (k : Nat) (r : List Rat) :
    fdiffSum d k r = lagSum (fcoef d) k r := by
  induction r generalizing k with
  | nil => rfl
  | cons x r ih =>
    simp only [fdiffSum, lagSum, ih, fcoef, sgnPow, gbinom_eq]
    ring

theorem lagSum_snoc (c : Nat → Rat) (k : Nat) (r : List Rat) (x : Rat) :
    lagSum c k (r ++ [x]) = lagSum c k r + c (k + r.length) * x := by
  induction r generalizing k with
  | nil => simp [lagSum]
  | cons y r ih =>
    simp only [List.cons_append, lagSum, ih, List.length_cons]
    have : k + 1 + r.length = k + (r.length + 1) := by omega
    rw [this]; ring

theorem dot_foldl (l cs : List Rat) (a : Rat) :
    ((l.zip cs).map fun p => p.1 * p.2).foldl (· + ·) a = a + dot l cs := by
  unfold dot
  induction (l.zip cs).map (fun p => p.1 * p.2) generalizing a with
  | nil => simp
  | cons y ys ih => simp only [List.foldl_cons]; rw [ih, ih (0 + y)]; ring

theorem dot_cons (x c : Rat) (l cs : List Rat) : dot (x :: l) (c :: cs) = x * c + dot l cs := by
  unfold dot
  simp only [List.zip_cons_cons, List.map_cons, List.foldl_cons]
  have := dot_foldl l cs (0 + x * c)
  unfold dot at this
  rw [this]; ring

/-- oldest-first list against the reversed-range coefficients: element `j` of `l` (length `n`)
meets `c (n-1-j)`, i.e. the newest element meets `c 0` -/
theorem dot_rev_range (c : Nat → Rat) (l : List Rat) :
    dot l ((List.range l.length).reverse.map c) = lagSum c 0 l.reverse := by
  induction l with
  | nil => simp [dot, lagSum]
  | cons x l ih =>
    rw [List.length_cons, List.range_succ, List.reverse_append, List.reverse_singleton,
      List.singleton_append, List.map_cons, dot_cons, ih, List.reverse_cons, lagSum_snoc]
    simp only [List.length_reverse, Nat.zero_add]
    ring

/-- newest-first list against the forward coefficients `c 0, c 1, ...` (possibly more
coefficients than elements: warm-up windows) -/
theorem dot_range' (c : Nat → Rat) (r : List Rat) (k m : Nat) (h : r.length ≤ m) :
    dot r ((List.range' k m).map c) = lagSum c k r := by
  induction r generalizing k m with
  | nil => simp [dot, lagSum]
  | cons x r ih =>
    obtain ⟨m', rfl⟩ : ∃ m', m = m' + 1 := ⟨m - 1, by simp at h; omega⟩
    rw [List.range'_succ, List.map_cons, dot_cons, ih (k + 1) m' (by simpa using h)]
    simp only [lagSum]; ring

theorem valid_map_some (l : List Rat) : valid (l.map some) = l := by
  induction l with
  | nil => rfl
  | cons x l ih => simp only [List.map_cons, valid, List.filterMap_cons, id] at ih ⊢; rw [ih]

theorem all_valid_of_length (arr : List (Option Rat)) (h : (valid arr).length = arr.length) :
    arr = (valid arr).map some := by
  induction arr with
  | nil => rfl
  | cons a arr ih =>
    have hle : (valid arr).length ≤ arr.length := by unfold valid; exact List.length_filterMap_le _ _
    cases a with
    | none =>
      have : valid (none :: arr) = valid arr := by simp [valid]
      rw [this] at h
      simp only [List.length_cons] at h
      omega
    | some q =>
      have hv : valid (some q :: arr) = q :: valid arr := by simp [valid]
      rw [hv] at h ⊢
      simp only [List.length_cons, Nat.add_right_cancel_iff] at h
      simp only [List.map_cons]
      congr 1
      exact ih h

theorem zip_some_sum (l cs : List Rat) :
    ((l.map some).zip cs).map optMul = (l.zip cs).map fun p => p.1 * p.2 := by
  induction l generalizing cs with
  | nil => simp
  | cons x l ih =>
    cases cs with
    | nil => simp
    | cons c cs => simp only [List.map_cons, List.zip_cons_cons]; rw [ih]; rfl

/-- **`ts_vfdiff` closure = spec** on one window slice of length ≤ `w` -/
theorem vfdiffEmit_spec (d : Rat) (w mp : Nat) (arr : List (Option Rat)) (hlen : arr.length ≤ w)
    (hmp : mp ≤ w) :
    vfdiffEmit d w mp arr = Spec.tsVfdiff d mp (valid arr) := by
  have hv : (valid arr).length ≤ arr.length := by
    unfold valid; exact List.length_filterMap_le _ _
  by_cases hn : (valid arr).length = w
  · -- full, null-free window: every element is valid
    obtain ⟨l, rfl⟩ : ∃ l, arr = l.map some := ⟨valid arr, all_valid_of_length arr (by omega)⟩
    rw [valid_map_some] at hn ⊢
    unfold vfdiffEmit Spec.tsVfdiff Spec.masked
    simp only [valid_map_some, hn, if_true, ge_iff_le, hmp]
    congr 1
    rw [zip_some_sum]
    have := dot_foldl l (fdiffCoef d w) 0
    rw [this, fdiffCoef_eq, ← hn, dot_rev_range, fdiffSum_eq_lagSum]; ring
  · unfold vfdiffEmit Spec.tsVfdiff Spec.masked
    simp only [hn, if_false, ge_iff_le]
    split
    · congr 1
      rw [fdiffCoef_eq, dot_rev_range, fdiffSum_eq_lagSum]
    · rfl

/-- **`ts_fdiff` closure = spec** (repaired alignment) on a window slice of length ≤ `w` -/
theorem fdiffEmit_spec (d : Rat) (w : Nat) (arr : List Rat) (hlen : arr.length ≤ w) :
    fdiffEmit d w arr = Spec.tsFdiff d arr := by
  unfold fdiffEmit Spec.tsFdiff
  congr 1
  rw [fdiffCoef_eq, ← List.map_reverse, List.reverse_reverse, List.range_eq_range',
    dot_range' (fcoef d) arr.reverse 0 w (by simpa using hlen), fdiffSum_eq_lagSum]

end Tv
