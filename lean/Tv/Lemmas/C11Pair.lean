import Tv.Lemmas.C11Moments
/-!
  C11 helper lemmas, part 6: closed forms of the two-series aggregations (`vcov`,
  `vcorr_pearson`) against the centred cross sum of the pairwise-complete pairs.
-/
namespace Tv.C11
open Tv Tv.Spec

theorem sum_map_sq_fst (l : List (Rat × Rat)) :
    Spec.sum (l.map fun p => p.1 * p.1) = psum 2 (l.map (·.1)) := by
  induction l with
  | nil => rfl
  | cons p l ih => simp only [List.map_cons, sum_cons, psum_cons, ih]; ring

theorem sum_map_sq_snd (l : List (Rat × Rat)) :
    Spec.sum (l.map fun p => p.2 * p.2) = psum 2 (l.map (·.2)) := by
  induction l with
  | nil => rfl
  | cons p l ih => simp only [List.map_cons, sum_cons, psum_cons, ih]; ring

/-- `Σ (a-c)(b-d) = Σab − d·Σa − c·Σb + n·c·d` -/
theorem cross_expand (c d : Rat) (l : List (Rat × Rat)) :
    Spec.sum (l.map fun p => (p.1 - c) * (p.2 - d))
      = Spec.sum (l.map fun p => p.1 * p.2) - d * Spec.sum (l.map (·.1))
        - c * Spec.sum (l.map (·.2)) + (l.length : Rat) * c * d := by
  induction l with
  | nil => simp [sum_nil]
  | cons p l ih =>
    simp only [List.map_cons, sum_cons, ih, List.length_cons]; push_cast; ring

/-- `Σ(a-ā)(b-b̄) = Σab − Σa·Σb/n` -/
theorem ccross_eq (l : List (Rat × Rat)) (hn : l.length ≠ 0) :
    Spec.ccross l = Spec.sum (l.map fun p => p.1 * p.2)
      - Spec.sum (l.map (·.1)) * Spec.sum (l.map (·.2)) / (l.length : Rat) := by
  have h : (l.length : Rat) ≠ 0 := by exact_mod_cast hn
  unfold Spec.ccross
  simp only [cross_expand, Spec.mean, List.length_map]
  field_simp
  ring

/-- the one-pass covariance numerator over `n - 1` -/
theorem cov_value (l : List (Rat × Rat)) (h2 : 2 ≤ l.length) :
    (Spec.sum (l.map fun p => p.1 * p.2)
        - Spec.sum (l.map (·.1)) * Spec.sum (l.map (·.2)) / (l.length : Rat))
      / (((l.length - 1 : Nat)) : Rat)
      = Spec.ccross l / ((l.length : Rat) - 1) := by
  rw [ccross_eq l (by omega), cast_pred _ (by omega)]

/-- `exy − exey = Σ(a-ā)(b-b̄)/n` -/
theorem corr_num (l : List (Rat × Rat)) (hn : l.length ≠ 0) :
    Spec.sum (l.map fun p => p.1 * p.2) / (l.length : Rat)
        - Spec.sum (l.map (·.1)) * Spec.sum (l.map (·.2)) / ((l.length : Rat) * (l.length : Rat))
      = Spec.ccross l / (l.length : Rat) := by
  have h : (l.length : Rat) ≠ 0 := by exact_mod_cast hn
  rw [ccross_eq l hn]
  field_simp

theorem pairVarA (l : List (Rat × Rat)) (hn : l.length ≠ 0) :
    Spec.sum (l.map fun p => p.1 * p.1) / (l.length : Rat)
        - Spec.sum (l.map (·.1)) / (l.length : Rat) * (Spec.sum (l.map (·.1)) / (l.length : Rat))
      = cmom 2 (l.map (·.1)) := by
  have := pvar_eq_cmom2 (l.map (·.1)) (by simpa using hn)
  rw [← this, sum_map_sq_fst, psum_one]; simp

theorem pairVarB (l : List (Rat × Rat)) (hn : l.length ≠ 0) :
    Spec.sum (l.map fun p => p.2 * p.2) / (l.length : Rat)
        - Spec.sum (l.map (·.2)) / (l.length : Rat) * (Spec.sum (l.map (·.2)) / (l.length : Rat))
      = cmom 2 (l.map (·.2)) := by
  have := pvar_eq_cmom2 (l.map (·.2)) (by simpa using hn)
  rw [← this, sum_map_sq_snd, psum_one]; simp

theorem sgn_div_pos (c n : Rat) (hn : 0 < n) : Spec.sgn (c / n) = Spec.sgn c := by
  unfold Spec.sgn
  have h1 : c / n < 0 ↔ c < 0 := by
    constructor
    · intro h
      by_contra hc
      have : 0 ≤ c / n := div_nonneg (not_lt.mp hc) (le_of_lt hn)
      linarith
    · intro h; exact div_neg_of_neg_of_pos h hn
  have h2 : c / n = 0 ↔ c = 0 := by
    constructor
    · intro h
      rcases div_eq_zero_iff.mp h with h | h
      · exact h
      · exact absurd h (ne_of_gt hn)
    · intro h; simp [h]
  simp only [h1, h2]

/-- the squared correlation: `c²/(varA·varB)` with `c = S/n`, `Σ(a-ā)² = varA·n` -/
theorem corr_sq (S A B n : Rat) (hn : n ≠ 0) (hA : A ≠ 0) (hB : B ≠ 0) :
    S / n * (S / n) / (A * B) = S * S / (A * n * (B * n)) := by
  field_simp

theorem maxWithNat_eq (a b : Nat) : maxWithNat a b = max a b := by
  unfold maxWithNat; split <;> omega

theorem foldl_nsum (xs : List Rat) (k : Nat) (a : Rat) :
    xs.foldl (fun (p : Nat × Rat) x => (p.1 + 1, p.2 + x)) (k, a) = (k + xs.length, a + Spec.sum xs) := by
  induction xs generalizing k a with
  | nil => simp [sum_nil]
  | cons x t ih =>
    simp only [List.foldl_cons, ih, List.length_cons, sum_cons]
    congr 1
    · omega
    · ring

end Tv.C11
