import Tv.Lemmas.C11Alg
/-!
  C11 helper lemmas, part 3: the moment aggregations of the model written as functions of
  `valid xs` and the central moments (the bridge between the fold state and the spec).
-/
namespace Tv.C11
open Tv Tv.Spec

theorem EPS_eq : C11.EPS = Spec.EPS := rfl

theorem sgn_eq (q : Rat) : C11.sgn q = Spec.sgn q := rfl

theorem cast_pred (n : Nat) (h : 1 ≤ n) : ((n - 1 : Nat) : Rat) = (n : Rat) - 1 := by
  rw [Nat.cast_sub h]; simp

/-- `pvar` of the fold state is the second central moment (needs one observation) -/
theorem pows_pvar (xs : List (Option Rat)) (hn : (valid xs).length ≠ 0) :
    (pows xs).pvar = cmom 2 (valid xs) := by
  rw [pows_eq]; exact pvar_eq_cmom2 _ hn

theorem pows_n (xs : List (Option Rat)) : (pows xs).n = (valid xs).length := by rw [pows_eq]
theorem pows_s1 (xs : List (Option Rat)) : (pows xs).s1 = psum 1 (valid xs) := by rw [pows_eq]
theorem pows_s3 (xs : List (Option Rat)) : (pows xs).s3 = psum 3 (valid xs) := by rw [pows_eq]
theorem pows_s4 (xs : List (Option Rat)) : (pows xs).s4 = psum 4 (valid xs) := by rw [pows_eq]

/-- `pvar · n / (n-1)` is the textbook sample variance -/
theorem var_value (l : List Rat) (h2 : 2 ≤ l.length) :
    cmom 2 l * (l.length : Rat) / (((l.length - 1 : Nat)) : Rat) = Spec.sampleVar l := by
  unfold Spec.sampleVar
  rw [csum2_eq_n_mul_cmom2 l (by omega), cast_pred _ (by omega)]


theorem EPS_pos : (0 : Rat) < Spec.EPS := by
  unfold Spec.EPS; norm_num

theorem csum4_nonneg (c : Rat) (l : List Rat) : 0 ≤ csum 4 c l := by
  induction l with
  | nil => simp [csum_nil]
  | cons x l ih =>
    rw [csum_cons]
    have : 0 ≤ (x - c) ^ 4 := by positivity
    linarith

theorem csum2_nonneg (c : Rat) (l : List Rat) : 0 ≤ csum 2 c l := by
  induction l with
  | nil => simp [csum_nil]
  | cons x l ih =>
    rw [csum_cons]
    have : 0 ≤ (x - c) ^ 2 := by positivity
    linarith

theorem csum2_zero_of_csum4_zero (c : Rat) (l : List Rat) (h : csum 4 c l = 0) :
    csum 2 c l = 0 := by
  induction l with
  | nil => rfl
  | cons x l ih =>
    rw [csum_cons] at h ⊢
    have h1 : 0 ≤ (x - c) ^ 4 := by positivity
    have h2 := csum4_nonneg c l
    have hx : (x - c) ^ 4 = 0 := by linarith
    have hl : csum 4 c l = 0 := by linarith
    have hz : x - c = 0 := by
      rcases pow_eq_zero_iff (n := 4) (by norm_num) |>.mp hx with h
      exact h
    rw [ih hl, hz]; simp

/-- a positive spread has a positive fourth central moment -/
theorem cmom4_ne_zero (l : List Rat) (hn : l.length ≠ 0) (hv : cmom 2 l ≠ 0) : cmom 4 l ≠ 0 := by
  have h : (l.length : Rat) ≠ 0 := by exact_mod_cast hn
  intro h4
  apply hv
  unfold cmom at h4 ⊢
  have : csum 4 (Spec.mean l) l = 0 := by
    rcases div_eq_zero_iff.mp h4 with h' | h'
    · exact h'
    · exact absurd h' h
  rw [csum2_zero_of_csum4_zero _ _ this]; simp

theorem cmom2_nonneg (l : List Rat) : 0 ≤ cmom 2 l := by
  unfold cmom
  exact div_nonneg (csum2_nonneg _ _) (by positivity)

/-- the integer factors of the excess-kurtosis adjustment, as rationals -/
theorem kurt_final (L : Nat) (h : 4 ≤ L) (res : Rat) :
    1 / ((((L - 2) * (L - 3) : Nat)) : Rat)
        * ((((L ^ 2 - 1 : Nat)) : Rat) * res - (((3 * (L - 1) ^ 2 : Nat)) : Rat))
      = (((L : Rat) * L - 1) * res - 3 * (((L : Rat) - 1) * ((L : Rat) - 1)))
          / (((L : Rat) - 2) * ((L : Rat) - 3)) := by
  obtain ⟨k, rfl⟩ : ∃ k, L = k + 4 := ⟨L - 4, by omega⟩
  have e1 : k + 4 - 2 = k + 2 := by omega
  have e2 : k + 4 - 3 = k + 1 := by omega
  have e3 : k + 4 - 1 = k + 3 := by omega
  have e4 : (k + 4) ^ 2 - 1 = k * k + 8 * k + 15 := by
    have : (k + 4) ^ 2 = k * k + 8 * k + 16 := by ring
    omega
  rw [e1, e2, e3, e4]
  have p1 : ((k : Rat) + 2) ≠ 0 := by positivity
  have p2 : ((k : Rat) + 1) ≠ 0 := by positivity
  push_cast
  have q1 : ((k : Rat) + 4 - 2) = (k : Rat) + 2 := by ring
  have q2 : ((k : Rat) + 4 - 3) = (k : Rat) + 1 := by ring
  rw [q1, q2]
  field_simp
  ring

end Tv.C11
