import Tv.Model.C12
import Tv.Spec.C12
import Mathlib.Algebra.Order.Field.Rat
import Mathlib.Tactic.Linarith
/-!
C12 helper lemmas, part 1: the null-last orders `leE rev`, insertion sort, the executable `Std.exec`
satisfies the contract `Std.Ok`, uniqueness of sorted permutations, the canonical sorted form of a
series (`sortedE`).
-/
namespace Tv.C12
open Tv

/-! ### the null-last orders -/

theorem leE_some_some (rev : Bool) (a b : Rat) :
    leE rev (some a) (some b) = true ↔ (if rev then b ≤ a else a ≤ b) := by
  rcases lt_trichotomy a b with h | h | h
  · cases rev <;> simp [leE, leOf, cmpOf, sortCmp, sortCmpRev, cmpRat, h, h.le, not_le.mpr h]
  · subst h; cases rev <;> simp [leE, leOf, cmpOf, sortCmp, sortCmpRev, cmpRat]
  · cases rev <;>
      simp [leE, leOf, cmpOf, sortCmp, sortCmpRev, cmpRat, h, h.le, not_lt.mpr h.le, h.ne', not_le.mpr h]

@[simp] theorem leE_none_right (rev : Bool) (a : Elem) : leE rev a none = true := by
  cases rev <;> cases a <;> simp [leE, leOf, cmpOf, sortCmp, sortCmpRev]

@[simp] theorem leE_none_some (rev : Bool) (b : Rat) : leE rev none (some b) = false := by
  cases rev <;> simp [leE, leOf, cmpOf, sortCmp, sortCmpRev]

theorem leE_none_left {rev : Bool} {a : Elem} (h : leE rev none a = true) : a = none := by
  cases a with
  | none => rfl
  | some b => simp at h

theorem leE_total (rev : Bool) (a b : Elem) : leE rev a b = true ∨ leE rev b a = true := by
  cases a <;> cases b <;> simp [leE_some_some]
  cases rev <;> simp <;> exact le_total _ _

theorem leE_trans (rev : Bool) (a b c : Elem) :
    leE rev a b = true → leE rev b c = true → leE rev a c = true := by
  cases a <;> cases b <;> cases c <;> simp [leE_some_some]
  cases rev <;> simp
  · exact fun h1 h2 => le_trans h1 h2
  · exact fun h1 h2 => le_trans h2 h1

theorem leE_antisymm (rev : Bool) (a b : Elem) :
    leE rev a b = true → leE rev b a = true → a = b := by
  cases a <;> cases b <;> simp [leE_some_some]
  cases rev <;> simp
  · exact fun h1 h2 => le_antisymm h1 h2
  · exact fun h1 h2 => le_antisymm h2 h1

theorem leE_refl (rev : Bool) (a : Elem) : leE rev a a = true := by
  rcases leE_total rev a a with h | h <;> exact h

/-- index comparators inherit totality and transitivity -/
theorem leIdx_total (rev : Bool) (xs : List Elem) (a b : Nat) :
    leIdx rev xs a b = true ∨ leIdx rev xs b a = true := leE_total _ _ _

theorem leIdx_trans (rev : Bool) (xs : List Elem) (a b c : Nat) :
    leIdx rev xs a b = true → leIdx rev xs b c = true → leIdx rev xs a c = true := leE_trans _ _ _ _

/-! ### insertion sort -/

section isort
variable {α : Type} (le : α → α → Bool)

theorem insertBy_perm (a : α) (l : List α) : (insertBy le a l).Perm (a :: l) := by
  induction l with
  | nil => simp [insertBy]
  | cons b l ih =>
    simp only [insertBy]
    split
    · exact List.Perm.refl _
    · exact (List.Perm.cons b ih).trans (List.Perm.swap a b l)

theorem isort_perm (l : List α) : (isort le l).Perm l := by
  induction l with
  | nil => simp [isort]
  | cons a l ih => exact (insertBy_perm le a _).trans (List.Perm.cons a ih)

theorem insertBy_pairwise (tot : ∀ a b, le a b = true ∨ le b a = true)
    (tr : ∀ a b c, le a b = true → le b c = true → le a c = true) (a : α) (l : List α)
    (h : l.Pairwise (fun a b => le a b = true)) :
    (insertBy le a l).Pairwise (fun a b => le a b = true) := by
  induction l with
  | nil => simp [insertBy]
  | cons b l ih =>
    simp only [insertBy]
    rw [List.pairwise_cons] at h
    split
    · rename_i hab
      refine List.Pairwise.cons ?_ (List.Pairwise.cons h.1 h.2)
      intro c hc
      rcases List.mem_cons.mp hc with rfl | hc
      · exact hab
      · exact tr _ _ _ hab (h.1 c hc)
    · rename_i hab
      have hba : le b a = true := by
        rcases tot a b with h' | h'
        · exact absurd h' hab
        · exact h'
      refine List.Pairwise.cons ?_ (ih h.2)
      intro c hc
      have : c ∈ a :: l := (insertBy_perm le a l).mem_iff.mp hc
      rcases List.mem_cons.mp this with rfl | hc
      · exact hba
      · exact h.1 c hc

theorem isort_pairwise (tot : ∀ a b, le a b = true ∨ le b a = true)
    (tr : ∀ a b c, le a b = true → le b c = true → le a c = true) (l : List α) :
    (isort le l).Pairwise (fun a b => le a b = true) := by
  induction l with
  | nil => simp [isort]
  | cons a l ih => exact insertBy_pairwise le tot tr a _ ih

end isort

/-- a sorted list splits at any position into two blocks with everything left ≤ everything right -/
theorem pairwise_take_drop {α : Type} {R : α → α → Prop} {l : List α} (h : l.Pairwise R) (j : Nat) :
    ∀ a ∈ l.take j, ∀ b ∈ l.drop j, R a b := by
  have := List.take_append_drop j l ▸ h
  exact (List.pairwise_append.mp this).2.2

/-- the executable sort / selection satisfy the contract -/
theorem Std.exec_ok : Std.exec.Ok where
  sort_perm := fun le l => isort_perm le l
  sort_sorted := fun le tot tr l => isort_pairwise le tot tr l
  select_spec := by
    intro α le tot tr l j hj
    have hlen : j < (isort le l).length := by rw [(isort_perm le l).length_eq]; exact hj
    refine ⟨((isort le l).take j).reverse, (isort le l)[j], (isort le l).drop (j + 1), ?_, ?_, ?_, ?_, ?_⟩
    · simp [Std.exec, List.getElem?_eq_getElem hlen]
    · have h1 : (((isort le l).take j).reverse ++ (isort le l)[j] :: (isort le l).drop (j + 1)).Perm
          ((isort le l).take j ++ (isort le l)[j] :: (isort le l).drop (j + 1)) :=
        List.Perm.append_right _ (List.reverse_perm _)
      have h2 : (isort le l).take j ++ (isort le l)[j] :: (isort le l).drop (j + 1) = isort le l := by
        rw [← List.drop_eq_getElem_cons hlen]; exact List.take_append_drop j _
      exact (h1.trans (List.Perm.of_eq h2)).trans (isort_perm le l)
    · simp; omega
    · intro a ha
      have hs := isort_pairwise le tot tr l
      have ha' : a ∈ (isort le l).take j := by simpa using ha
      have hm : (isort le l)[j] ∈ (isort le l).drop j := by
        rw [List.drop_eq_getElem_cons hlen]; exact List.mem_cons_self
      exact pairwise_take_drop hs j a ha' _ hm
    · intro b hb
      have hs := isort_pairwise le tot tr l
      have hm : (isort le l)[j] ∈ (isort le l).take (j + 1) := by
        rw [List.take_succ_eq_append_getElem hlen]
        exact List.mem_append_right _ (List.mem_singleton.mpr rfl)
      exact pairwise_take_drop hs (j + 1) _ hm b hb

/-! ### uniqueness of sorted permutations -/

/-- two lists sorted by `leE rev` with the same elements are equal -/
theorem sorted_unique (rev : Bool) {l₁ l₂ : List Elem} (hp : l₁.Perm l₂)
    (h1 : l₁.Pairwise (fun a b => leE rev a b = true))
    (h2 : l₂.Pairwise (fun a b => leE rev a b = true)) : l₁ = l₂ :=
  List.Perm.eq_of_pairwise (fun a b _ _ => leE_antisymm rev a b) h1 h2 hp

/-- the order on valid numbers selected by `rev` -/
def leR (rev : Bool) (a b : Rat) : Bool := if rev then decide (b ≤ a) else decide (a ≤ b)

theorem leR_total (rev : Bool) (a b : Rat) : (leR rev a b || leR rev b a) = true := by
  cases rev <;> simp [leR] <;> exact le_total _ _

theorem leR_trans (rev : Bool) (a b c : Rat) : leR rev a b = true → leR rev b c = true → leR rev a c = true := by
  cases rev <;> simp [leR]
  · exact fun h1 h2 => le_trans h1 h2
  · exact fun h1 h2 => le_trans h2 h1

theorem sortedValid_eq (xs : List Elem) (rev : Bool) :
    Spec.sortedValid xs rev = (valid xs).mergeSort (leR rev) := by
  unfold Spec.sortedValid leR
  cases rev <;> simp

theorem sortedValid_perm (xs : List Elem) (rev : Bool) : (Spec.sortedValid xs rev).Perm (valid xs) := by
  rw [sortedValid_eq]; exact List.mergeSort_perm _ _

theorem sortedValid_pairwise (xs : List Elem) (rev : Bool) :
    (Spec.sortedValid xs rev).Pairwise (fun a b => leR rev a b = true) := by
  rw [sortedValid_eq]
  exact List.pairwise_mergeSort (leR_trans rev) (leR_total rev) _

@[simp] theorem sortedValid_length (xs : List Elem) (rev : Bool) :
    (Spec.sortedValid xs rev).length = (valid xs).length := (sortedValid_perm xs rev).length_eq

/-- the canonical sorted form of a series: sorted valid elements, then the nulls -/
def sortedE (rev : Bool) (xs : List Elem) : List Elem :=
  (Spec.sortedValid xs rev).map some ++ List.replicate (xs.length - (valid xs).length) none

theorem valid_length_le (xs : List Elem) : (valid xs).length ≤ xs.length := by
  unfold valid; exact List.length_filterMap_le _ _

theorem perm_valid_nulls (xs : List Elem) :
    xs.Perm ((valid xs).map some ++ List.replicate (xs.length - (valid xs).length) none) := by
  induction xs with
  | nil => simp [valid]
  | cons x xs ih =>
    cases x with
    | some v =>
      have : valid (some v :: xs) = v :: valid xs := by simp [valid]
      rw [this]
      simp only [List.map_cons, List.length_cons, Nat.add_sub_add_right, List.cons_append]
      exact List.Perm.cons _ ih
    | none =>
      have : valid (none :: xs) = valid xs := by simp [valid]
      rw [this]
      have hl := valid_length_le xs
      have : xs.length + 1 - (valid xs).length = (xs.length - (valid xs).length) + 1 := by omega
      simp only [List.length_cons, this, List.replicate_succ]
      exact (List.Perm.cons none ih).trans List.perm_middle.symm

theorem sortedE_perm (rev : Bool) (xs : List Elem) : (sortedE rev xs).Perm xs := by
  unfold sortedE
  exact (List.Perm.append_right _ ((sortedValid_perm xs rev).map some)).trans (perm_valid_nulls xs).symm

theorem sortedE_pairwise (rev : Bool) (xs : List Elem) :
    (sortedE rev xs).Pairwise (fun a b => leE rev a b = true) := by
  unfold sortedE
  rw [List.pairwise_append]
  refine ⟨?_, ?_, ?_⟩
  · rw [List.pairwise_map]
    refine (sortedValid_pairwise xs rev).imp ?_
    intro a b h
    rw [leE_some_some]
    cases rev <;> simpa [leR] using h
  · rw [List.pairwise_replicate]; right; simp
  · intro a _ b hb
    rw [List.mem_replicate] at hb
    rw [hb.2]; simp

/-- **any** sorted permutation of `xs` is the canonical one -/
theorem sorted_eq_sortedE (rev : Bool) {s xs : List Elem} (hp : s.Perm xs)
    (hs : s.Pairwise (fun a b => leE rev a b = true)) : s = sortedE rev xs :=
  sorted_unique rev (hp.trans (sortedE_perm rev xs).symm) hs (sortedE_pairwise rev xs)

theorem sortedE_length (rev : Bool) (xs : List Elem) : (sortedE rev xs).length = xs.length :=
  (sortedE_perm rev xs).length_eq

theorem Std.Ok.sort_eq {S : Std} (h : S.Ok) (rev : Bool) (xs : List Elem) :
    S.sort (leE rev) xs = sortedE rev xs :=
  sorted_eq_sortedE rev (h.sort_perm _ _) (h.sort_sorted _ (leE_total rev) (leE_trans rev) _)

/-- descending order is the reverse of ascending order -/
theorem sortedValid_rev (xs : List Elem) : Spec.sortedValid xs true = (Spec.sortedValid xs false).reverse := by
  apply List.Perm.eq_of_pairwise (le := fun a b => leR true a b = true)
  · intro a b _ _ h1 h2
    simp [leR] at h1 h2
    exact le_antisymm h2 h1
  · exact sortedValid_pairwise xs true
  · rw [List.pairwise_reverse]
    refine (sortedValid_pairwise xs false).imp ?_
    intro a b h
    simpa [leR] using h
  · exact (sortedValid_perm xs true).trans
      ((sortedValid_perm xs false).symm.trans (List.reverse_perm _).symm)

end Tv.C12
