import Tv.Lemmas.C15
/-!
  C15 — `to_string` of a number or bool is never the null string `"None"` (every character is a
  digit, `-` or `.`; `true`, `false`, `inf`, `-inf`, `NaN` are checked directly).
-/
namespace Tv.C15

/-- characters a number can be printed with -/
def OkChar (c : Char) : Prop := c.isDigit = true ∨ c = '-' ∨ c = '.'

def AllOk (s : String) : Prop := ∀ c ∈ s.toList, OkChar c

theorem AllOk.append {s t : String} (hs : AllOk s) (ht : AllOk t) : AllOk (s ++ t) := by
  intro c hc
  rw [String.toList_append, List.mem_append] at hc
  exact hc.elim (hs c) (ht c)

theorem allOk_natRepr (n : Nat) : AllOk n.repr := by
  intro c hc
  rw [Nat.toList_repr] at hc
  exact Or.inl (Nat.isDigit_of_mem_toDigits (by decide) (by decide) hc)

theorem allOk_int (i : Int) : AllOk (toString i) := by
  rw [Int.toString_eq_repr, Int.repr_eq_if]
  split
  · exact allOk_natRepr _
  · refine AllOk.append ?_ (allOk_natRepr _)
    intro c hc
    have : c = '-' := by simpa using hc
    exact Or.inr (Or.inl this)

theorem AllOk.ne_None {s : String} (h : AllOk s) : s ≠ "None" := by
  rintro rfl
  have := h 'N' (by decide)
  revert this; unfold OkChar; decide

theorem allOk_ofList {l : List Char} (h : ∀ c ∈ l, OkChar c) : AllOk (String.ofList l) := by
  intro c hc; rw [String.toList_ofList] at hc; exact h c hc

theorem allOk_showDyadic (q : Rat) : AllOk (showDyadic q) := by
  unfold showDyadic
  split
  · exact allOk_int _
  · simp only []
    have hd : ∀ c ∈ List.replicate (Nat.log2 q.den + 1 - (toString (q.num.natAbs * 5 ^ Nat.log2 q.den)).toList.length) '0' ++
        (toString (q.num.natAbs * 5 ^ Nat.log2 q.den)).toList, OkChar c := by
      intro c hc
      rw [List.mem_append] at hc
      rcases hc with hc | hc
      · rw [List.mem_replicate] at hc; rw [hc.2]; exact Or.inl (by decide)
      · exact allOk_natRepr _ c (by simpa using hc)
    refine AllOk.append (AllOk.append (AllOk.append ?_ ?_) ?_) ?_
    · split
      · intro c hc; have : c = '-' := by simpa using hc
        exact Or.inr (Or.inl this)
      · intro c hc; simp at hc
    · exact allOk_ofList fun c hc => hd c (List.mem_of_mem_take hc)
    · intro c hc; have : c = '.' := by simpa using hc
      exact Or.inr (Or.inr this)
    · exact allOk_ofList fun c hc => hd c (List.mem_of_mem_drop hc)


/-- the `Display` form of any integer, float or bool value is not the null string -/
theorem displayVal_ne_None (v : Val) (h : ∀ s, v ≠ .str s) (h' : ∀ m n, v ≠ .td m n) : displayVal v ≠ "None" := by
  cases v with
  | int i => exact (allOk_int i).ne_None
  | bool b => cases b <;> decide
  | flt x =>
    cases x with
    | fin q => exact (allOk_showDyadic q).ne_None
    | nan => decide
    | inf n => cases n <;> decide
  | str s => exact absurd rfl (h s)
  | td m n => exact absurd rfl (h' m n)

end Tv.C15
