import Tv.Lemmas.C12Quant
import Mathlib.Tactic.FieldSimp
import Mathlib.Tactic.Ring
/-!
C12 helper lemmas, part 5: `vrank`, counting in a sorted list.

`W p` is the value at sorted position `p` (`self.uget(idx_sorted.uget(p))`). Everything is derived
from three facts about the argsort result `s` (`Ctx`): it has the length of the input, it is a
permutation of `0..len`, and the values it points at are ordered (nulls last).
-/
set_option linter.unusedSimpArgs false
set_option linter.unusedVariables false
namespace Tv.C12
open Tv

theorem getD_of_lt {α : Type} (l : List α) (d : α) {i : Nat} (h : i < l.length) : l.getD i d = l[i] := by
  simp [List.getD_eq_getElem?_getD, List.getElem?_eq_getElem h]

/-- value at sorted position `p` -/
def W (xs : List Elem) (s : List Nat) (p : Nat) : Elem := xs.getD (s.getD p 0) none

structure Ctx (xs : List Elem) (s : List Nat) (rev : Bool) : Prop where
  slen : s.length = xs.length
  sperm : s.Perm (List.range xs.length)
  sorted : ∀ p q, p ≤ q → q < xs.length → leE rev (W xs s p) (W xs s q) = true

theorem Std.Ok.ctx {S : Std} (hS : S.Ok) (xs : List Elem) (rev : Bool) :
    Ctx xs (S.sort (leIdx rev xs) (List.range xs.length)) rev := by
  have hperm := hS.sort_perm (leIdx rev xs) (List.range xs.length)
  have hsorted := hS.sort_sorted (leIdx rev xs) (leIdx_total rev xs) (leIdx_trans rev xs)
    (List.range xs.length)
  have hlen : (S.sort (leIdx rev xs) (List.range xs.length)).length = xs.length := by
    rw [hperm.length_eq]; simp
  refine ⟨hlen, hperm, ?_⟩
  intro p q hpq hq
  rcases Nat.lt_or_eq_of_le hpq with h | h
  · have hp' : p < (S.sort (leIdx rev xs) (List.range xs.length)).length := by rw [hlen]; omega
    have hq' : q < (S.sort (leIdx rev xs) (List.range xs.length)).length := by rw [hlen]; omega
    have := List.pairwise_iff_getElem.mp hsorted p q hp' hq' h
    simp only [W, getD_of_lt _ _ hp', getD_of_lt _ _ hq']
    exact this
  · subst h; exact leE_refl _ _

namespace Ctx
variable {xs : List Elem} {s : List Nat} {rev : Bool}

theorem sI_lt (c : Ctx xs s rev) {p : Nat} (hp : p < xs.length) : s.getD p 0 < xs.length := by
  have hp' : p < s.length := by rw [c.slen]; exact hp
  have : s.getD p 0 ∈ s := by
    rw [List.getD_eq_getElem?_getD, List.getElem?_eq_getElem hp']; simp
  simpa using c.sperm.mem_iff.mp this

theorem sI_inj (c : Ctx xs s rev) {p q : Nat} (hp : p < xs.length) (hq : q < xs.length)
    (h : s.getD p 0 = s.getD q 0) : p = q := by
  have hp' : p < s.length := by rw [c.slen]; exact hp
  have hq' : q < s.length := by rw [c.slen]; exact hq
  have hnd : s.Nodup := c.sperm.nodup_iff.mpr List.nodup_range
  exact (List.getD_inj hp' hq' hnd).mp h

/-- every index is some sorted position -/
theorem sI_surj (c : Ctx xs s rev) {k : Nat} (hk : k < xs.length) : ∃ p, p < xs.length ∧ s.getD p 0 = k := by
  have : k ∈ s := c.sperm.mem_iff.mpr (by simpa using hk)
  obtain ⟨p, hp, hpk⟩ := List.getElem_of_mem this
  refine ⟨p, by rw [← c.slen]; exact hp, ?_⟩
  rw [List.getD_eq_getElem?_getD, List.getElem?_eq_getElem hp]; simpa using hpk

/-- the values in sorted order -/
theorem vals_eq (c : Ctx xs s rev) : s.map (key xs) = sortedE rev xs := by
  apply sorted_eq_sortedE rev
  · have := c.sperm.map (key xs)
    rwa [map_key_range] at this
  · rw [List.pairwise_iff_getElem]
    intro i j hi hj hij
    have hi' : i < s.length := by simpa using hi
    have hj' : j < s.length := by simpa using hj
    have := c.sorted i j (Nat.le_of_lt hij) (by rw [← c.slen]; exact hj')
    simpa [W, key, List.getD_eq_getElem?_getD, List.getElem?_eq_getElem hi',
      List.getElem?_eq_getElem hj'] using this

theorem vals_get (c : Ctx xs s rev) {p : Nat} (hp : p < xs.length) :
    (s.map (key xs))[p]? = some (W xs s p) := by
  have hp' : p < s.length := by rw [c.slen]; exact hp
  simp [W, key, List.getD_eq_getElem?_getD, List.getElem?_eq_getElem hp']

theorem vals_perm (c : Ctx xs s rev) : (s.map (key xs)).Perm xs := by
  rw [c.vals_eq]; exact sortedE_perm rev xs

/-- positions below the valid count hold values … -/
theorem W_valid (c : Ctx xs s rev) {p : Nat} (hp : p < (valid xs).length) : ∃ v, W xs s p = some v := by
  have hlen := valid_length_le xs
  have h1 := c.vals_get (show p < xs.length by omega)
  rw [c.vals_eq, sortedE_get rev xs hp] at h1
  cases hsv : (Spec.sortedValid xs rev)[p]? with
  | none => rw [hsv] at h1; simp at h1
  | some v => rw [hsv] at h1; exact ⟨v, by simpa using h1.symm⟩

/-- … and positions from the valid count on hold nulls -/
theorem W_null (c : Ctx xs s rev) {p : Nat} (hp : (valid xs).length ≤ p) (hpl : p < xs.length) :
    W xs s p = none := by
  have h1 := c.vals_get hpl
  rw [c.vals_eq] at h1
  unfold sortedE at h1
  rw [List.getElem?_append_right (by simpa using hp)] at h1
  rw [List.getElem?_replicate] at h1
  split at h1
  · simpa using h1.symm
  · simp at h1

theorem W_none_iff (c : Ctx xs s rev) {p : Nat} (hpl : p < xs.length) :
    W xs s p = none ↔ (valid xs).length ≤ p := by
  constructor
  · intro h
    by_contra hlt
    obtain ⟨v, hv⟩ := c.W_valid (Nat.lt_of_not_le hlt)
    rw [hv] at h; cases h
  · intro h; exact c.W_null h hpl

/-- the element index `s[p]` holds the value `W p` -/
theorem xs_at (c : Ctx xs s rev) {p : Nat} (hp : p < xs.length) : xs[s.getD p 0]? = some (W xs s p) := by
  have := c.sI_lt hp
  unfold W
  rw [getD_of_lt xs none this, List.getElem?_eq_getElem this]

end Ctx

/-! ### counting -/

theorem countP_prefix {α : Type} (p : α → Bool) (l : List α) (a : Nat)
    (h : ∀ q (hq : q < l.length), p l[q] = true ↔ q < a) (ha : a ≤ l.length) : l.countP p = a := by
  induction l generalizing a with
  | nil => simp at ha; simp [ha]
  | cons x l ih =>
    cases a with
    | zero =>
      rw [List.countP_eq_zero]
      intro y hy
      obtain ⟨q, hq, rfl⟩ := List.getElem_of_mem hy
      have := h q hq
      simpa using this
    | succ a =>
      have hx : p x = true := (h 0 (by simp)).mpr (by omega)
      rw [List.countP_cons_of_pos hx]
      congr 1
      apply ih
      · intro q hq
        have := h (q + 1) (by simpa using hq)
        simpa using this
      · simpa using ha

theorem countP_split {α : Type} (p q : α → Bool) (l : List α) (h : ∀ e, q e = true → p e = true) :
    l.countP p = l.countP (fun e => p e && !q e) + l.countP q := by
  induction l with
  | nil => simp
  | cons x l ih =>
    simp only [List.countP_cons, ih]
    cases hq : q x
    · cases hp : p x <;> simp; omega
    · have := h x hq; simp [this]; omega

/-- "strictly before `some v`" in the null-last order selected by `rev` -/
def beforeE (rev : Bool) (v : Rat) (e : Elem) : Bool := leE rev e (some v) && !(e == some v)

/-- the number of valid elements before `v`: smaller (ascending) or larger (descending) -/
def cntBefore (xs : List Elem) (rev : Bool) (v : Rat) : Nat :=
  if rev then Spec.cntGt xs v else Spec.cntLt xs v

theorem cntBefore_eq (xs : List Elem) (rev : Bool) (v : Rat) :
    cntBefore xs rev v = xs.countP (beforeE rev v) := by
  unfold cntBefore Spec.cntGt Spec.cntLt valid
  cases rev
  · simp only [Bool.false_eq_true, if_false]
    rw [List.countP_filterMap]
    apply List.countP_congr
    intro e _
    cases e with
    | none => simp [beforeE]
    | some x =>
      have hle : leE false (some x) (some v) = true ↔ x ≤ v := by simpa using leE_some_some false x v
      simp only [Option.map_some, Option.getD_some, id, beforeE, Bool.and_eq_true, hle]
      simp
      exact ⟨fun h => ⟨le_of_lt h, ne_of_lt h⟩, fun ⟨h1, h2⟩ => lt_of_le_of_ne h1 h2⟩
  · simp only [if_true]
    rw [List.countP_filterMap]
    apply List.countP_congr
    intro e _
    cases e with
    | none => simp [beforeE]
    | some x =>
      have hle : leE true (some x) (some v) = true ↔ v ≤ x := by simpa using leE_some_some true x v
      simp only [Option.map_some, Option.getD_some, id, beforeE, Bool.and_eq_true, hle]
      simp
      exact ⟨fun h => ⟨le_of_lt h, ne_of_gt h⟩, fun ⟨h1, h2⟩ => lt_of_le_of_ne h1 (Ne.symm h2)⟩

theorem cntEq_eq (xs : List Elem) (v : Rat) : Spec.cntEq xs v = xs.countP (fun e => e == some v) := by
  unfold Spec.cntEq valid
  rw [List.countP_filterMap]
  apply List.countP_congr
  intro e _
  cases e <;> simp

/-- **counting in the sorted order**: if the sorted positions `a..=i` are exactly the run of the value
`v` (nothing equal before `a`, the next position differs), then `a` valid elements come strictly
before `v` and `i+1-a` are equal to it -/
theorem Ctx.run_counts {xs : List Elem} {s : List Nat} {rev : Bool} (c : Ctx xs s rev)
    {a i : Nat} {v : Rat} (hai : a ≤ i) (hi : i < xs.length)
    (hrun : ∀ p, a ≤ p → p ≤ i → W xs s p = some v)
    (hbef : ∀ q, q < a → W xs s q ≠ some v)
    (haft : i + 1 < xs.length → W xs s (i + 1) ≠ some v) :
    cntBefore xs rev v = a ∧ Spec.cntEq xs v = i + 1 - a := by
  have hlen : (s.map (key xs)).length = xs.length := by simp [c.slen]
  have hget : ∀ q (hq : q < (s.map (key xs)).length), (s.map (key xs))[q] = W xs s q := by
    intro q hq
    have := c.vals_get (show q < xs.length by omega)
    exact (List.getElem?_eq_some_iff.mp this).2
  have hWi : W xs s i = some v := hrun i hai (Nat.le_refl _)
  -- beyond the run nothing is ≤ v
  have hbeyond : ∀ q, i < q → q < xs.length → leE rev (W xs s q) (some v) = false := by
    intro q hiq hq
    by_contra hle
    have hle : leE rev (W xs s q) (some v) = true := by simpa using hle
    have h1 : leE rev (W xs s (i + 1)) (W xs s q) = true := c.sorted (i + 1) q (by omega) hq
    have h2 : leE rev (W xs s i) (W xs s (i + 1)) = true := c.sorted i (i + 1) (by omega) (by omega)
    rw [hWi] at h2
    have h3 := leE_trans rev _ _ _ h1 hle
    exact haft (by omega) (leE_antisymm rev _ _ h3 h2)
  have hle_iff : ∀ q (hq : q < (s.map (key xs)).length),
      leE rev (s.map (key xs))[q] (some v) = true ↔ q < i + 1 := by
    intro q hq
    rw [hget q hq]
    constructor
    · intro h
      by_contra hn
      have := hbeyond q (by omega) (by omega)
      rw [h] at this; cases this
    · intro h
      have := c.sorted q i (by omega) hi
      rwa [hWi] at this
  have hbef_iff : ∀ q (hq : q < (s.map (key xs)).length),
      beforeE rev v (s.map (key xs))[q] = true ↔ q < a := by
    intro q hq
    rw [hget q hq]
    unfold beforeE
    constructor
    · intro h
      simp only [Bool.and_eq_true, Bool.not_eq_true', beq_eq_false_iff_ne, ne_eq] at h
      by_contra hn
      by_cases hqi : q ≤ i
      · exact h.2 (hrun q (by omega) hqi)
      · have := hbeyond q (by omega) (by omega)
        rw [h.1] at this; cases this
    · intro h
      have h1 := c.sorted q i (by omega) hi
      rw [hWi] at h1
      simp only [Bool.and_eq_true, Bool.not_eq_true', beq_eq_false_iff_ne, ne_eq]
      exact ⟨h1, hbef q h⟩
  have c1 := countP_prefix (beforeE rev v) (s.map (key xs)) a hbef_iff (by omega)
  have c2 := countP_prefix (fun e => leE rev e (some v)) (s.map (key xs)) (i + 1) hle_iff (by omega)
  have c3 : List.countP (fun e => leE rev e (some v)) (s.map (key xs))
      = List.countP (beforeE rev v) (s.map (key xs)) + List.countP (fun e => e == some v) (s.map (key xs)) :=
    countP_split (fun e => leE rev e (some v)) (fun e => e == some v) (s.map (key xs))
      (by intro e he; simp only [beq_iff_eq] at he; subst he; exact leE_refl _ _)
  have hp := c.vals_perm
  rw [cntBefore_eq, cntEq_eq, ← hp.countP_eq, ← hp.countP_eq]
  refine ⟨c1, ?_⟩
  omega

/-! ### writing a run -/

theorem writeRun_length (s : List Nat) (out : List (Option Out)) (i : Nat) (v : Out) (r : Nat) :
    (writeRun s out i v r).length = out.length := by
  induction r with
  | zero => rfl
  | succ r ih => simp [writeRun, ih]

theorem writeRun_miss (s : List Nat) (out : List (Option Out)) (i : Nat) (v : Out) (r k : Nat)
    (h : ∀ r', r' < r → s.getD (i - r') 0 ≠ k) : (writeRun s out i v r)[k]? = out[k]? := by
  induction r with
  | zero => rfl
  | succ r ih =>
    simp only [writeRun]
    rw [List.getElem?_set_ne (h r (by omega))]
    exact ih (fun r' hr' => h r' (by omega))

theorem writeRun_hit (s : List Nat) (out : List (Option Out)) (i : Nat) (v : Out) (r r' : Nat)
    (hr : r' < r) (hk : s.getD (i - r') 0 < out.length) :
    (writeRun s out i v r)[s.getD (i - r') 0]? = some (some v) := by
  induction r with
  | zero => omega
  | succ r ih =>
    simp only [writeRun]
    by_cases he : s.getD (i - r) 0 = s.getD (i - r') 0
    · rw [he, List.getElem?_set_self (by rw [writeRun_length]; exact hk)]
    · rw [List.getElem?_set_ne he]
      have : r' < r := by
        rcases Nat.lt_succ_iff_lt_or_eq.mp hr with h | h
        · exact h
        · subst h; exact absurd rfl he
      exact ih this

/-- `for p in ps { out.uset(idx_sorted.uget(p), v) }` -/
theorem setAll_length (s : List Nat) (v : Out) (ps : List Nat) (out : List (Option Out)) :
    (ps.foldl (fun o p => o.set (s.getD p 0) (some v)) out).length = out.length := by
  induction ps generalizing out with
  | nil => rfl
  | cons p ps ih => rw [List.foldl_cons, ih, List.length_set]

theorem setAll_miss (s : List Nat) (v : Out) (ps : List Nat) (out : List (Option Out)) (k : Nat)
    (h : ∀ p ∈ ps, s.getD p 0 ≠ k) :
    (ps.foldl (fun o p => o.set (s.getD p 0) (some v)) out)[k]? = out[k]? := by
  induction ps generalizing out with
  | nil => rfl
  | cons p ps ih =>
    rw [List.foldl_cons, ih _ (fun p' hp' => h p' (List.mem_cons_of_mem _ hp'))]
    exact List.getElem?_set_ne (h p List.mem_cons_self)

theorem setAll_hit (s : List Nat) (v : Out) (ps : List Nat) (out : List (Option Out)) (p : Nat)
    (hp : p ∈ ps) (hk : s.getD p 0 < out.length) :
    (ps.foldl (fun o p => o.set (s.getD p 0) (some v)) out)[s.getD p 0]? = some (some v) := by
  induction ps generalizing out p with
  | nil => cases hp
  | cons p0 ps ih =>
    rw [List.foldl_cons]
    by_cases hex : ∃ p' ∈ ps, s.getD p' 0 = s.getD p 0
    · obtain ⟨p', hp', he⟩ := hex
      rw [← he]
      exact ih _ p' hp' (by rw [List.length_set, he]; exact hk)
    · have hmiss : ∀ p' ∈ ps, s.getD p' 0 ≠ s.getD p 0 := fun p' hp' he => hex ⟨p', hp', he⟩
      rw [setAll_miss s v ps _ _ hmiss]
      rcases List.mem_cons.mp hp with rfl | hp'
      · exact List.getElem?_set_self hk
      · exact absurd rfl (hmiss p hp')

end Tv.C12
