import Tv.Lemmas.C04Alg
/-!
  Emit-level lemmas for C04: when the running sums are those of the complete pairs `l` of the
  window, each closure's result is the from-scratch statistic of `l`; the aggregate helpers
  applied to a residual list are the textbook moments of that list.
-/
namespace Tv.C04
open Tv Tv.Spec Tv.C04.Spec

theorem EPS_eq : Tv.EPS = Tv.Spec.EPS := rfl
theorem EPS_pos : (0 : Rat) < Tv.Spec.EPS := by unfold Tv.Spec.EPS; norm_num
theorem sgn_eq (q : Rat) : Tv.sgn q = Tv.Spec.sgn q := rfl

theorem sgn_div_pos (x n : Rat) (hn : 0 < n) : Tv.Spec.sgn (x / n) = Tv.Spec.sgn x := by
  unfold Tv.Spec.sgn
  have h1 : x / n < 0 ↔ x < 0 := by
    constructor
    · intro h
      by_contra hx
      have : 0 ≤ x / n := div_nonneg (not_lt.mp hx) hn.le
      linarith
    · intro h; rw [div_eq_mul_inv]; exact mul_neg_of_neg_of_pos h (inv_pos.mpr hn)
  have h2 : x / n = 0 ↔ x = 0 := by
    constructor
    · intro h
      rcases div_eq_zero_iff.mp h with h | h
      · exact h
      · linarith
    · intro h; simp [h]
  simp only [h1, h2]

theorem nat_lt_two_iff (n : Nat) : ((n : Rat) = 0 ∨ (n : Rat) - 1 = 0) ↔ n < 2 := by
  constructor
  · rintro (h | h)
    · have : n = 0 := by exact_mod_cast h
      omega
    · have h' : (n : Rat) = 1 := by linarith
      have : n = 1 := by exact_mod_cast h'
      omega
  · intro h
    rcases (by omega : n = 0 ∨ n = 1) with h | h <;> simp [h]

/-! ### two-series closures -/

theorem regx_eval (f : List (Rat × Rat) → Out) (mp : Nat) (l : List (Rat × Rat)) :
    regx f mp l = if l.length ≥ mp then (if undefinedReg l then Out.degen else f l) else Out.null := rfl

theorem emitCov_spec (mp : Nat) (l : List (Rat × Rat)) : emitCov mp (crossOf l) = cov mp l := by
  unfold emitCov cov Tv.C04.Spec.masked
  simp only
  by_cases hm : l.length ≥ mp
  · simp only [hm, if_true]
    by_cases h2 : l.length < 2
    · simp only [if_pos ((nat_lt_two_iff l.length).mpr h2), if_pos h2]
    · have hn : l.length ≠ 0 := by omega
      have h2' : ¬ ((l.length : Rat) = 0 ∨ (l.length : Rat) - 1 = 0) := fun h => h2 ((nat_lt_two_iff _).mp h)
      simp only [h2', h2, if_false]
      rw [cross_sum_centered l hn]
  · simp [hm]

theorem emitCorr_spec (mp : Nat) (l : List (Rat × Rat)) : emitCorr mp (crossOf l) = corr mp l := by
  unfold emitCorr corr Tv.C04.Spec.masked
  simp only
  by_cases hm : l.length ≥ mp
  · simp only [hm, if_true]
    by_cases hn : l.length = 0
    · simp [hn]
    · have hn' : (l.length : Rat) ≠ 0 := by exact_mod_cast hn
      have hpos : (0 : Rat) < (l.length : Rat) := by
        have : 0 < l.length := Nat.pos_of_ne_zero hn
        exact_mod_cast this
      have hA := cmom2_closed (ys l) (by simpa using hn)
      have hB := cmom2_closed (xs l) (by simpa using hn)
      rw [p2_ys, p1_ys, ys_length] at hA
      rw [p2_xs, p1_xs, xs_length] at hB
      simp only [if_neg hn', if_neg hn]
      simp only [← hA, ← hB, EPS_eq]
      by_cases hc : cmom 2 (ys l) > Tv.Spec.EPS ∧ cmom 2 (xs l) > Tv.Spec.EPS
      · simp only [hc, and_self, if_true]
        have hc1 : cmom 2 (ys l) ≠ 0 := by have := EPS_pos; linarith [hc.1]
        have hc2 : cmom 2 (xs l) ≠ 0 := by have := EPS_pos; linarith [hc.2]
        have hcyy : cyy l = cmom 2 (ys l) * (l.length : Rat) := by
          unfold cyy cmom; rw [ys_length]; field_simp
        have hcxx : cxx l = cmom 2 (xs l) * (l.length : Rat) := by
          unfold cxx cmom; rw [xs_length]; field_simp
        have hcxy : sAB l / (l.length : Rat) - sA l * sB l / ((l.length : Rat) * (l.length : Rat))
            = cxy l / (l.length : Rat) := by
          rw [cross_sum_centered l hn]; field_simp
        rw [hcxy, sgn_eq, sgn_div_pos _ _ hpos, hcyy, hcxx]
        congr 1
        field_simp
      · simp only [hc, if_false]
  · simp [hm]

theorem emitBeta_spec (mp : Nat) (l : List (Rat × Rat)) : emitBeta mp (crossOf l) = regxBeta mp l := by
  unfold emitBeta regxBeta regx Tv.C04.Spec.masked
  have hlen : (crossOf l).n = l.length := rfl
  rw [hlen]
  by_cases hm : l.length ≥ mp
  · simp only [hm, if_true]
    by_cases hd : undefinedReg l
    · simp [(degenerate_iff l).mpr hd, hd]
    · have hd' : ¬ (crossOf l).degenerate := fun h => hd ((degenerate_iff l).mp h)
      simp only [hd, hd', if_false]
      rw [normal_eq_beta l hd]
  · simp [hm]

theorem emitAlpha_spec (mp : Nat) (l : List (Rat × Rat)) : emitAlpha mp (crossOf l) = regxAlpha mp l := by
  unfold emitAlpha regxAlpha regx Tv.C04.Spec.masked
  have hlen : (crossOf l).n = l.length := rfl
  rw [hlen]
  by_cases hm : l.length ≥ mp
  · simp only [hm, if_true]
    by_cases hd : undefinedReg l
    · simp [(degenerate_iff l).mpr hd, hd]
    · have hd' : ¬ (crossOf l).degenerate := fun h => hd ((degenerate_iff l).mp h)
      simp only [hd, hd', if_false]
      rw [normal_eq_alpha l hd]
  · simp [hm]

theorem emitSse_spec (mp : Nat) (l : List (Rat × Rat)) : emitSse mp (crossOf l) = regxSse mp l := by
  unfold emitSse regxSse regx Tv.C04.Spec.masked
  have hlen : (crossOf l).n = l.length := rfl
  rw [hlen]
  by_cases hm : l.length ≥ mp
  · simp only [hm, if_true]
    by_cases hd : undefinedReg l
    · simp [(degenerate_iff l).mpr hd, hd]
    · have hd' : ¬ (crossOf l).degenerate := fun h => hd ((degenerate_iff l).mp h)
      simp only [hd, hd', if_false]
      rw [sse_identity l hd]
  · simp [hm]

/-! ### aggregates of a residual list -/

theorem aggMean_spec (e : List Rat) (hn : e.length ≠ 0) : aggMean e = .val (mean e) := by
  unfold aggMean mean
  have : e.length ≥ 1 := by omega
  simp only [this, if_true, msum_eq, List.map_id]

theorem aggStd_spec (e : List Rat) :
    aggStd 2 e =
      (if e.length < 2 then Out.degen
       else if cmom 2 e ≤ Tv.Spec.EPS then .val 0
       else .root 1 (csum 2 (mean e) e / ((e.length : Rat) - 1))) := by
  unfold aggStd
  by_cases h2 : e.length < 2
  · have : e.length < 2 ∨ e.length = 0 := Or.inl h2
    simp only [if_pos this, if_pos h2]
  · have hn : e.length ≠ 0 := by omega
    have hn' : (e.length : Rat) ≠ 0 := by exact_mod_cast hn
    have h2' : ¬ (e.length < 2 ∨ e.length = 0) := by omega
    have hge : e.length ≥ 2 := by omega
    have hm := cmom2_closed e hn
    unfold p2 p1 at hm
    simp only [if_neg h2', if_neg h2, if_pos hge, msum_eq, List.map_id]
    rw [← hm, EPS_eq]
    by_cases hc : cmom 2 e ≤ Tv.Spec.EPS
    · simp only [if_pos hc]
    · simp only [if_neg hc]
      congr 1
      unfold cmom
      field_simp

theorem aggSkew_spec (e : List Rat) :
    aggSkew 3 e =
      (if e.length < 3 then Out.degen
       else if cmom 2 e ≤ Tv.Spec.EPS then .val 0
       else .root (Tv.Spec.sgn (cmom 3 e))
          ((e.length : Rat) * ((e.length : Rat) - 1) * (cmom 3 e * cmom 3 e)
            / (((e.length : Rat) - 2) * ((e.length : Rat) - 2) * (cmom 2 e * cmom 2 e * cmom 2 e)))) := by
  unfold aggSkew
  by_cases h3 : e.length < 3
  · simp [h3]
  · have hn : e.length ≠ 0 := by omega
    have hge : e.length ≥ 3 := by omega
    have hm2 := cmom2_closed e hn
    have hm3 := cmom3_closed e hn
    unfold p3 p2 p1 at hm3
    unfold p2 p1 at hm2
    rw [← hm2] at hm3
    simp only [if_neg h3, if_pos hge, msum_eq, List.map_id]
    rw [← hm2, EPS_eq]
    by_cases hc : cmom 2 e ≤ Tv.Spec.EPS
    · simp only [if_pos hc]
    · simp only [if_neg hc]
      rw [← hm3, sgn_eq]

/-- the NaN-skipping residual map of the closures is the residual list of the complete pairs -/
theorem resids_eq (a b : Rat) (q : List Pair) : resids a b q = residualsOf a b (complete q) := by
  unfold resids residualsOf complete
  induction q with
  | nil => rfl
  | cons p q ih =>
    obtain ⟨y, x⟩ := p
    cases y <;> cases x <;> simp [ih]

theorem residualsOf_length (a b : Rat) (l : List (Rat × Rat)) : (residualsOf a b l).length = l.length := by
  simp [residualsOf]

end Tv.C04
