import Tv.Model.C12
import Tv.Generated
/-! C12: reading of the comparator arm tables extracted by translator/extract.py -/
namespace Tv.C12
open Tv

def ordOf : String → Option Ordering
  | "Less" => some .lt
  | "Equal" => some .eq
  | "Greater" => some .gt
  | _ => none

/-- the comparator denoted by an extracted arm table (`none` if an arm could not be parsed) -/
def cmpOfTable (t : List (String × String)) (a b : Elem) : Option Ordering :=
  match a, b with
  | some x, some y =>
    match t.lookup "some,some" with
    | some "partial_cmp" => some (cmpRat x y)
    | some "partial_cmp.reverse" => some (cmpRat x y).swap
    | _ => none
  | none, none => (t.lookup "none,none").bind ordOf
  | none, some _ => (t.lookup "none,some").bind ordOf
  | some _, none => (t.lookup "some,none").bind ordOf

end Tv.C12
