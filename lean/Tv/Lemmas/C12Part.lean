import Tv.Lemmas.C12Order
/-!
C12 helper lemmas, part 2: what a selection says about the sorted list, `padTake`, and the
partition / arg-partition kernels.
-/
namespace Tv.C12
open Tv

/-! ### a selection determines a prefix of the sorted list -/

/-- if `h ++ m :: t` rearranges `xs` with `h ≤ m ≤ t`, then sorting the two blocks gives *the* sorted
form of `xs` -/
theorem select_sorted (rev : Bool) {xs h t : List Elem} {m : Elem}
    (hp : (h ++ m :: t).Perm xs) (hh : ∀ a ∈ h, leE rev a m = true) (ht : ∀ b ∈ t, leE rev m b = true) :
    isort (leE rev) h ++ m :: isort (leE rev) t = sortedE rev xs := by
  apply sorted_eq_sortedE rev
  · exact ((isort_perm _ h).append (List.Perm.cons m (isort_perm _ t))).trans hp
  · rw [List.pairwise_append]
    refine ⟨isort_pairwise _ (leE_total rev) (leE_trans rev) h, ?_, ?_⟩
    · refine List.Pairwise.cons ?_ (isort_pairwise _ (leE_total rev) (leE_trans rev) t)
      intro b hb
      exact ht b ((isort_perm _ t).mem_iff.mp hb)
    · intro a ha b hb
      have ha' := hh a ((isort_perm _ h).mem_iff.mp ha)
      rcases List.mem_cons.mp hb with rfl | hb
      · exact ha'
      · exact leE_trans rev _ _ _ ha' (ht b ((isort_perm _ t).mem_iff.mp hb))

theorem select_take (rev : Bool) {xs h t : List Elem} {m : Elem} {j : Nat}
    (hp : (h ++ m :: t).Perm xs) (hj : h.length = j)
    (hh : ∀ a ∈ h, leE rev a m = true) (ht : ∀ b ∈ t, leE rev m b = true) :
    (sortedE rev xs).take (j + 1) = isort (leE rev) h ++ [m] := by
  rw [← select_sorted rev hp hh ht]
  have hl : (isort (leE rev) h).length = j := by rw [(isort_perm _ h).length_eq, hj]
  rw [List.take_append, hl, List.take_of_length_le (by omega : (isort (leE rev) h).length ≤ j + 1)]
  simp

theorem select_nth (rev : Bool) {xs h t : List Elem} {m : Elem} {j : Nat}
    (hp : (h ++ m :: t).Perm xs) (hj : h.length = j)
    (hh : ∀ a ∈ h, leE rev a m = true) (ht : ∀ b ∈ t, leE rev m b = true) :
    (sortedE rev xs)[j]? = some m := by
  rw [← select_sorted rev hp hh ht]
  have hl : (isort (leE rev) h).length = j := by rw [(isort_perm _ h).length_eq, hj]
  rw [List.getElem?_append_right (by omega), hl]
  simp

theorem select_head (rev : Bool) {xs h t : List Elem} {m : Elem} {j : Nat}
    (hp : (h ++ m :: t).Perm xs) (hj : h.length = j)
    (hh : ∀ a ∈ h, leE rev a m = true) (ht : ∀ b ∈ t, leE rev m b = true) :
    h.Perm ((sortedE rev xs).take j) := by
  rw [← select_sorted rev hp hh ht]
  have hl : (isort (leE rev) h).length = j := by rw [(isort_perm _ h).length_eq, hj]
  rw [List.take_append, hl, List.take_of_length_le (Nat.le_of_eq hl)]
  simp
  exact (isort_perm _ h).symm

/-! ### prefixes of the canonical sorted form -/

theorem sortedE_take_le (rev : Bool) (xs : List Elem) {j : Nat} (hj : j ≤ (valid xs).length) :
    (sortedE rev xs).take j = ((Spec.sortedValid xs rev).take j).map some := by
  unfold sortedE
  rw [List.take_append_of_le_length (by simpa using hj), List.map_take]

theorem take_pairwise {α : Type} {R : α → α → Prop} {l : List α} (h : l.Pairwise R) (j : Nat) :
    (l.take j).Pairwise R := h.sublist (List.take_sublist j l)

/-! ### padTake -/

theorem padTake_of_le {α : Type} (l : List α) (pad : α) (k1 : Nat) (h : l.length ≤ k1) :
    padTake l pad k1 = l ++ List.replicate (k1 - l.length) pad := by
  unfold padTake
  apply List.take_of_length_le
  simp; omega

theorem padTake_length {α : Type} (l : List α) (pad : α) (k1 : Nat) : (padTake l pad k1).length = k1 := by
  unfold padTake
  simp; omega

/-- padding a block `A` followed by `p` pads -/
theorem padTake_block {α : Type} (A : List α) (pad : α) (p k1 : Nat) (h : A.length ≤ k1) :
    padTake (A ++ List.replicate p pad) pad k1 = A ++ List.replicate (k1 - A.length) pad := by
  unfold padTake
  rw [List.append_assoc, List.replicate_append_replicate, List.take_append, List.take_of_length_le h,
    List.take_replicate]
  congr 2
  simp; omega

/-! ### the spec's partition -/

theorem spec_partition_eq (xs : List Elem) (k : Nat) (rev : Bool) :
    Spec.partition xs k rev =
      ((Spec.sortedValid xs rev).take (k + 1)).map some ++
        List.replicate (k + 1 - min (k + 1) (valid xs).length) none := by
  simp [Spec.partition]

theorem spec_partition_length (xs : List Elem) (k : Nat) (rev : Bool) :
    (Spec.partition xs k rev).length = k + 1 := by
  rw [spec_partition_eq]; simp

theorem spec_partition_small (xs : List Elem) (k : Nat) (rev : Bool) (h : (valid xs).length ≤ k + 1) :
    Spec.partition xs k rev =
      (Spec.sortedValid xs rev).map some ++ List.replicate (k + 1 - (valid xs).length) none := by
  rw [spec_partition_eq, List.take_of_length_le (by simpa using h), Nat.min_eq_right h]

theorem spec_partition_large (xs : List Elem) (k : Nat) (rev : Bool) (h : k + 1 ≤ (valid xs).length) :
    Spec.partition xs k rev = (sortedE rev xs).take (k + 1) := by
  rw [spec_partition_eq, sortedE_take_le rev xs h, Nat.min_eq_left h]; simp

theorem spec_partition_pairwise (xs : List Elem) (k : Nat) (rev : Bool) :
    (Spec.partition xs k rev).Pairwise (fun a b => leE rev a b = true) := by
  rcases Nat.le_total (valid xs).length (k + 1) with h | h
  · rw [spec_partition_small xs k rev h, List.pairwise_append]
    refine ⟨?_, ?_, ?_⟩
    · have := sortedE_pairwise rev xs
      unfold sortedE at this
      exact (List.pairwise_append.mp this).1
    · rw [List.pairwise_replicate]; right; simp
    · intro a _ b hb
      rw [List.mem_replicate] at hb
      rw [hb.2]; simp
  · rw [spec_partition_large xs k rev h]
    exact take_pairwise (sortedE_pairwise rev xs) _

theorem filter_isSome_eq (xs : List Elem) : xs.filter (·.isSome) = (valid xs).map some := by
  induction xs with
  | nil => simp [valid]
  | cons x xs ih =>
    cases x with
    | none => simpa [valid] using ih
    | some v => simpa [valid] using ih

/-! ### vpartition -/

theorem vpartition_spec {S : Std} (hS : S.Ok) (xs : List Elem) (k : Nat) (sort rev : Bool) :
    ∃ r, vpartition S xs k sort rev = some r ∧ r.Perm (Spec.partition xs k rev) ∧
      (sort = true → r = Spec.partition xs k rev) := by
  unfold vpartition
  simp only []
  by_cases h1 : (valid xs).length = k + 1 ∧ (!sort) = true
  · rw [if_pos h1]
    refine ⟨_, rfl, ?_, ?_⟩
    · rw [spec_partition_small xs k rev (Nat.le_of_eq h1.1), filter_isSome_eq, h1.1]
      simpa using (sortedValid_perm xs rev).symm.map some
    · intro hs; simp [hs] at h1
  · rw [if_neg h1]
    by_cases h2 : (valid xs).length ≤ k + 1
    · rw [if_pos h2]
      cases sort with
      | false =>
        simp only [Bool.not_false, if_true]
        refine ⟨_, rfl, ?_, by simp⟩
        rw [spec_partition_small xs k rev h2, filter_isSome_eq,
          padTake_of_le _ _ _ (by simpa using h2)]
        simp only [List.length_map]
        exact List.Perm.append_right _ ((sortedValid_perm xs rev).symm.map some)
      | true =>
        simp only [Bool.not_true, Bool.false_eq_true, if_false]
        refine ⟨_, rfl, ?_⟩
        have : padTake (S.sort (leE rev) xs) none (k + 1) = Spec.partition xs k rev := by
          rw [hS.sort_eq, spec_partition_small xs k rev h2]
          unfold sortedE
          rw [padTake_block _ _ _ _ (by simpa using h2)]
          simp
        rw [this]
        exact ⟨List.Perm.refl _, fun _ => rfl⟩
    · rw [if_neg h2]
      have hk : k < xs.length := by have := valid_length_le xs; omega
      obtain ⟨h, m, t, hsel, hp, hj, hh, ht⟩ :=
        hS.select_spec (leE rev) (leE_total rev) (leE_trans rev) xs k hk
      rw [hsel]
      simp only []
      have hspec : Spec.partition xs k rev = isort (leE rev) h ++ [m] := by
        rw [spec_partition_large xs k rev (by omega)]
        exact select_take rev hp hj hh ht
      have hperm : (h ++ [m]).Perm (Spec.partition xs k rev) := by
        rw [hspec]; exact List.Perm.append_right _ (isort_perm _ h).symm
      cases sort with
      | false => exact ⟨_, rfl, hperm, by simp⟩
      | true =>
        simp only [if_true]
        have : S.sort (leE rev) (h ++ [m]) = Spec.partition xs k rev :=
          sorted_unique rev ((hS.sort_perm _ _).trans hperm)
            (hS.sort_sorted _ (leE_total rev) (leE_trans rev) _) (spec_partition_pairwise xs k rev)
        rw [this]
        exact ⟨_, rfl, List.Perm.refl _, fun _ => rfl⟩

/-! ### varg_partition -/

/-- the element an index points at -/
def key (xs : List Elem) (i : Nat) : Elem := xs.getD i none

theorem map_key_range (xs : List Elem) : (List.range xs.length).map (key xs) = xs := by
  apply List.ext_getElem
  · simp
  · intro i h1 h2
    simp [key, List.getElem?_eq_getElem h2]

theorem validIdx_map_key (xs : List Elem) : (validIdx xs).map (key xs) = (valid xs).map some := by
  unfold validIdx
  rw [← filter_isSome_eq]
  conv => rhs; rw [← map_key_range xs]
  rw [List.filter_map]
  rfl

theorem validIdx_length (xs : List Elem) : (validIdx xs).length = (valid xs).length := by
  have := congrArg List.length (validIdx_map_key xs)
  simpa using this

/-- an arg-partition result in the form the property talks about: indices `idx` (distinct, in range,
pointing at non-null elements) followed by `-1` padding up to `k+1` entries -/
structure ArgOk (xs : List Elem) (k : Nat) (r : List Int) (idx : List Nat) : Prop where
  shape : r = idx.map Int.ofNat ++ List.replicate (k + 1 - idx.length) (-1)
  len : idx.length ≤ k + 1
  nodup : idx.Nodup
  valid : ∀ i ∈ idx, i < xs.length ∧ ∃ v, xs[i]? = some (some v)

/-- the values an arg-partition result refers to (`none` for `-1`) -/
def argValues (xs : List Elem) (k : Nat) (idx : List Nat) : List Elem :=
  idx.map (key xs) ++ List.replicate (k + 1 - idx.length) none

theorem key_some_of_mem {xs : List Elem} {idx : List Nat} {vs : List Rat}
    (h : idx.map (key xs) = vs.map some) : ∀ i ∈ idx, ∃ v, key xs i = some v := by
  intro i hi
  have : key xs i ∈ vs.map some := h ▸ List.mem_map_of_mem hi
  obtain ⟨v, _, hv⟩ := List.mem_map.mp this
  exact ⟨v, hv.symm⟩

theorem valid_of_key {xs : List Elem} {i : Nat} (hi : i < xs.length) {v : Rat} (h : key xs i = some v) :
    i < xs.length ∧ ∃ v, xs[i]? = some (some v) := by
  refine ⟨hi, v, ?_⟩
  simp only [key, List.getD_eq_getElem?_getD, List.getElem?_eq_getElem hi, Option.getD_some] at h
  simp [List.getElem?_eq_getElem hi, h]

theorem pairwise_leIdx_map {rev : Bool} {xs : List Elem} {l : List Nat}
    (h : l.Pairwise (fun a b => leIdx rev xs a b = true)) :
    (l.map (key xs)).Pairwise (fun a b => leE rev a b = true) := by
  rw [List.pairwise_map]
  exact h.imp (fun hab => hab)

theorem vargPartition_spec {S : Std} (hS : S.Ok) (xs : List Elem) (k : Nat) (sort rev : Bool) :
    ∃ r idx, vargPartition S xs k sort rev = some r ∧ ArgOk xs k r idx ∧
      (argValues xs k idx).Perm (Spec.partition xs k rev) ∧
      (sort = true → argValues xs k idx = Spec.partition xs k rev) := by
  unfold vargPartition
  simp only []
  by_cases h2 : (valid xs).length ≤ k + 1
  · rw [if_pos h2]
    cases sort with
    | false =>
      simp only [Bool.not_false, if_true]
      refine ⟨_, validIdx xs, rfl, ⟨?_, ?_, ?_, ?_⟩, ?_, by simp⟩
      · rw [padTake_of_le _ _ _ (by simpa [validIdx_length] using h2)]; simp
      · simpa [validIdx_length] using h2
      · exact (List.nodup_range).filter _
      · intro i hi
        have hi' : i < xs.length := by
          have := (List.mem_filter.mp hi).1; simpa using this
        obtain ⟨v, hv⟩ := key_some_of_mem (validIdx_map_key xs) i hi
        exact valid_of_key hi' hv
      · unfold argValues
        rw [validIdx_map_key, validIdx_length, spec_partition_small xs k rev h2]
        exact List.Perm.append_right _ ((sortedValid_perm xs rev).symm.map some)
    | true =>
      simp only [Bool.not_true, Bool.false_eq_true, if_false]
      have hperm := hS.sort_perm (leIdx rev xs) (List.range xs.length)
      have hsorted := hS.sort_sorted (leIdx rev xs) (leIdx_total rev xs) (leIdx_trans rev xs)
        (List.range xs.length)
      have hmap : (S.sort (leIdx rev xs) (List.range xs.length)).map (key xs) = sortedE rev xs := by
        apply sorted_eq_sortedE rev
        · have := hperm.map (key xs)
          rwa [map_key_range] at this
        · exact pairwise_leIdx_map hsorted
      have hn := valid_length_le xs
      have htake : ((S.sort (leIdx rev xs) (List.range xs.length)).take (valid xs).length).map (key xs)
          = (Spec.sortedValid xs rev).map some := by
        rw [List.map_take, hmap, sortedE_take_le rev xs (Nat.le_refl _)]
        rw [List.take_of_length_le (by simp)]
      have hlen : ((S.sort (leIdx rev xs) (List.range xs.length)).take (valid xs).length).length
          = (valid xs).length := by
        rw [List.length_take, hperm.length_eq]; simp; omega
      refine ⟨_, (S.sort (leIdx rev xs) (List.range xs.length)).take (valid xs).length, rfl,
        ⟨?_, ?_, ?_, ?_⟩, ?_, ?_⟩
      · rw [padTake_of_le _ _ _ (by rw [List.length_map, hlen]; exact h2)]; simp
      · rw [hlen]; exact h2
      · exact (hperm.nodup_iff.mpr List.nodup_range).sublist (List.take_sublist _ _)
      · intro i hi
        have hi' : i < xs.length := by
          have := hperm.mem_iff.mp (List.mem_of_mem_take hi); simpa using this
        obtain ⟨v, hv⟩ := key_some_of_mem htake i hi
        exact valid_of_key hi' hv
      · unfold argValues
        rw [htake, hlen, spec_partition_small xs k rev h2]
      · intro _
        unfold argValues
        rw [htake, hlen, spec_partition_small xs k rev h2]
  · rw [if_neg h2]
    have hk : k < (List.range xs.length).length := by
      have := valid_length_le xs; simp; omega
    obtain ⟨h, m, t, hsel, hp, hj, hh, ht⟩ :=
      hS.select_spec (leIdx rev xs) (leIdx_total rev xs) (leIdx_trans rev xs) (List.range xs.length) k hk
    rw [hsel]
    simp only []
    -- the selection, seen through the values
    have hp' : (h.map (key xs) ++ key xs m :: t.map (key xs)).Perm xs := by
      have := hp.map (key xs)
      rwa [map_key_range, List.map_append, List.map_cons] at this
    have hh' : ∀ a ∈ h.map (key xs), leE rev a (key xs m) = true := by
      intro a ha
      obtain ⟨i, hi, rfl⟩ := List.mem_map.mp ha
      exact hh i hi
    have ht' : ∀ b ∈ t.map (key xs), leE rev (key xs m) b = true := by
      intro b hb
      obtain ⟨i, hi, rfl⟩ := List.mem_map.mp hb
      exact ht i hi
    have hspec : Spec.partition xs k rev = isort (leE rev) (h.map (key xs)) ++ [key xs m] := by
      rw [spec_partition_large xs k rev (by omega)]
      exact select_take rev hp' (by simpa using hj) hh' ht'
    have hvals : ((h ++ [m]).map (key xs)).Perm (Spec.partition xs k rev) := by
      rw [hspec, List.map_append]
      exact List.Perm.append_right _ (isort_perm _ _).symm
    have hnd : (h ++ [m]).Nodup := by
      have h1 : (h ++ m :: t).Nodup := hp.nodup_iff.mpr List.nodup_range
      have h2 : h ++ m :: t = (h ++ [m]) ++ t := by simp
      rw [h2] at h1
      exact (List.nodup_append.mp h1).1
    have hmem : ∀ i ∈ h ++ [m], i < xs.length := by
      intro i hi
      have : i ∈ h ++ m :: t := by
        have h2 : h ++ m :: t = (h ++ [m]) ++ t := by simp
        rw [h2]; exact List.mem_append_left _ hi
      simpa using hp.mem_iff.mp this
    have hlen : (h ++ [m]).length = k + 1 := by simp [hj]
    have hsv : Spec.partition xs k rev = ((Spec.sortedValid xs rev).take (k + 1)).map some := by
      rw [spec_partition_eq, Nat.min_eq_left (by omega)]; simp
    -- generic conclusion for any rearrangement `idx` of `h ++ [m]`
    have concl : ∀ idx : List Nat, idx.Perm (h ++ [m]) →
        ArgOk xs k (idx.map Int.ofNat) idx ∧ (argValues xs k idx).Perm (Spec.partition xs k rev) := by
      intro idx hidx
      have hl : idx.length = k + 1 := by rw [hidx.length_eq, hlen]
      have hv : (idx.map (key xs)).Perm (Spec.partition xs k rev) := (hidx.map _).trans hvals
      refine ⟨⟨by simp [hl], by omega, hidx.nodup_iff.mpr hnd, ?_⟩, ?_⟩
      · intro i hi
        have hi' := hmem i (hidx.mem_iff.mp hi)
        have : key xs i ∈ Spec.partition xs k rev := hv.mem_iff.mp (List.mem_map_of_mem hi)
        rw [hsv] at this
        obtain ⟨v, _, hv⟩ := List.mem_map.mp this
        exact valid_of_key hi' hv.symm
      · unfold argValues
        simpa [hl] using hv
    cases sort with
    | false =>
      obtain ⟨hok, hpv⟩ := concl (h ++ [m]) (List.Perm.refl _)
      exact ⟨_, h ++ [m], rfl, hok, hpv, by simp⟩
    | true =>
      simp only [if_true]
      have hsp := hS.sort_perm (leIdx rev xs) (h ++ [m])
      obtain ⟨hok, hpv⟩ := concl _ hsp
      refine ⟨_, S.sort (leIdx rev xs) (h ++ [m]), rfl, hok, hpv, fun _ => ?_⟩
      have hl : (S.sort (leIdx rev xs) (h ++ [m])).length = k + 1 := by rw [hsp.length_eq, hlen]
      have hpv' : ((S.sort (leIdx rev xs) (h ++ [m])).map (key xs)).Perm (Spec.partition xs k rev) := by
        simpa [argValues, hl] using hpv
      have := sorted_unique rev hpv'
        (pairwise_leIdx_map (hS.sort_sorted _ (leIdx_total rev xs) (leIdx_trans rev xs) _))
        (spec_partition_pairwise xs k rev)
      simpa [argValues, hl] using this

end Tv.C12
