import Tv.Lemmas.C11Fold
import Mathlib.Order.Basic
import Mathlib.Algebra.Order.Field.Rat
/-!
  C11 helper lemmas, part 4: extrema and first arg-extrema, proved once for an arbitrary
  total order `R` on `Rat` (`R = (· ≤ ·)` gives min / argmin, `R = (· ≥ ·)` gives max / argmax).
-/
namespace Tv.C11
open Tv

/-- generic fold invariant indexed by the prefix consumed so far -/
theorem foldl_prefix_inv {α σ : Type _} {Inv : List α → σ → Prop} (step : σ → α → σ)
    (h : ∀ p s v, Inv p s → Inv (p ++ [v]) (step s v)) :
    ∀ (xs p : List α) (s : σ), Inv p s → Inv (p ++ xs) (xs.foldl step s) := by
  intro xs
  induction xs with
  | nil => intro p s hi; simpa using hi
  | cons v t ih =>
    intro p s hi
    have := ih (p ++ [v]) (step s v) (h p s v hi)
    simpa using this

section Ext
variable (R : Rat → Rat → Prop) [DecidableRel R]

structure GoodOrder : Prop where
  total : ∀ a b, R a b ∨ R b a
  trans : ∀ a b c, R a b → R b c → R a c
  antisymm : ∀ a b, R a b → R b a → a = b

/-- `m` is an extreme element of `l`: a member related to every member -/
def IsExt (l : List Rat) (m : Rat) : Prop := m ∈ l ∧ ∀ x ∈ l, R m x

/-- the from-scratch definition: the first member related to every member -/
def extFind (l : List Rat) : Option Rat := l.find? fun m => l.all fun x => decide (R m x)

def extWith (self other : Rat) : Rat := if R self other then self else other

def extStep (acc : Option Rat) (x : Rat) : Option Rat :=
  match acc with
  | none => some x
  | some v => some (extWith R v x)

def argStep (s : ArgSt) (v : Option Rat) : ArgSt :=
  match v with
  | some v =>
    match s.best with
    | some m => if R m v then ⟨s.best, s.idx, s.cur + 1⟩ else ⟨some v, some s.cur, s.cur + 1⟩
    | none => ⟨some v, some s.cur, s.cur + 1⟩
  | none => ⟨s.best, s.idx, s.cur + 1⟩

variable {R}

omit [DecidableRel R] in
theorem IsExt.unique (g : GoodOrder R) {l : List Rat} {a b : Rat} (ha : IsExt R l a)
    (hb : IsExt R l b) : a = b :=
  g.antisymm a b (ha.2 b hb.1) (hb.2 a ha.1)

theorem extFind_eq_some_iff (g : GoodOrder R) (l : List Rat) (m : Rat) :
    extFind R l = some m ↔ IsExt R l m := by
  unfold extFind
  constructor
  · intro h
    have h1 := List.find?_some h
    have h2 := List.mem_of_find?_eq_some h
    refine ⟨h2, ?_⟩
    intro x hx
    have := List.all_eq_true.mp h1 x hx
    simpa using this
  · intro h
    have hp : (l.all fun x => decide (R m x)) = true := by
      rw [List.all_eq_true]; intro x hx; simpa using h.2 x hx
    cases hf : l.find? (fun m => l.all fun x => decide (R m x)) with
    | none =>
      have := List.find?_eq_none.mp hf m h.1
      simp [hp] at this
    | some m' =>
      have h1 := List.find?_some hf
      have h2 := List.mem_of_find?_eq_some hf
      have : IsExt R l m' := by
        refine ⟨h2, ?_⟩
        intro x hx
        have := List.all_eq_true.mp h1 x hx
        simpa using this
      rw [this.unique g h]

theorem extFind_nil : extFind R [] = none := rfl

theorem extWith_mem (a b : Rat) : extWith R a b = a ∨ extWith R a b = b := by
  unfold extWith; split <;> simp

theorem extWith_left (g : GoodOrder R) (a b : Rat) : R (extWith R a b) a := by
  unfold extWith
  split
  · rcases g.total a a with h | h <;> exact h
  · next h => rcases g.total a b with h' | h'
              · exact absurd h' h
              · exact h'

theorem extWith_right (g : GoodOrder R) (a b : Rat) : R (extWith R a b) b := by
  unfold extWith
  split
  · next h => exact h
  · rcases g.total b b with h | h <;> exact h

/-- folding `extWith` from `some a` yields the extreme element of `a :: l` -/
theorem foldl_extStep_some (g : GoodOrder R) (l : List Rat) (a : Rat) :
    ∃ m, l.foldl (extStep R) (some a) = some m ∧ IsExt R (a :: l) m := by
  induction l generalizing a with
  | nil =>
    refine ⟨a, rfl, by simp, ?_⟩
    intro x hx
    have : x = a := by simpa using hx
    subst this
    rcases g.total x x with h | h <;> exact h
  | cons x t ih =>
    obtain ⟨m, hm, hmem, hle⟩ := ih (extWith R a x)
    refine ⟨m, by simpa [extStep] using hm, ?_, ?_⟩
    · rcases List.mem_cons.mp hmem with h | h
      · rcases extWith_mem (R := R) a x with h' | h' <;> simp [h, h']
      · simp [h]
    · intro y hy
      have hw := hle (extWith R a x) (by simp)
      rcases List.mem_cons.mp hy with h | h
      · subst h; exact g.trans _ _ _ hw (extWith_left g _ x)
      · rcases List.mem_cons.mp h with h | h
        · subst h; exact g.trans _ _ _ hw (extWith_right g a _)
        · exact hle y (by simp [h])

theorem foldl_extStep_eq_extFind (g : GoodOrder R) (l : List Rat) :
    l.foldl (extStep R) none = extFind R l := by
  cases l with
  | nil => rfl
  | cons a t =>
    obtain ⟨m, hm, hext⟩ := foldl_extStep_some g t a
    have : (a :: t).foldl (extStep R) none = t.foldl (extStep R) (some a) := rfl
    rw [this, hm, ((extFind_eq_some_iff g _ _).mpr hext)]

/-- a non-empty list has an extreme element -/
theorem extFind_isSome (g : GoodOrder R) (l : List Rat) (h : l ≠ []) : (extFind R l).isSome := by
  cases l with
  | nil => exact absurd rfl h
  | cons a t =>
    rw [← foldl_extStep_eq_extFind g]
    obtain ⟨m, hm, -⟩ := foldl_extStep_some g t a
    have : (a :: t).foldl (extStep R) none = t.foldl (extStep R) (some a) := rfl
    rw [this, hm]; rfl

theorem extFind_eq_none_iff (g : GoodOrder R) (l : List Rat) : extFind R l = none ↔ l = [] := by
  constructor
  · intro h
    by_contra hne
    have := extFind_isSome g l hne
    rw [h] at this; exact absurd this (by simp)
  · intro h; subst h; rfl

theorem extFind_perm (g : GoodOrder R) {l₁ l₂ : List Rat} (h : l₁.Perm l₂) :
    extFind R l₁ = extFind R l₂ := by
  cases h2 : extFind R l₂ with
  | none =>
    have := (extFind_eq_none_iff g l₂).mp h2
    subst this
    rw [h.eq_nil]; rfl
  | some m =>
    have := (extFind_eq_some_iff g _ _).mp h2
    apply (extFind_eq_some_iff g _ _).mpr
    exact ⟨h.mem_iff.mpr this.1, fun x hx => this.2 x (h.mem_iff.mp hx)⟩

/-! ### first arg-extremum -/

/-- invariant of the arg-extremum loop after the prefix `p` -/
def ArgInv (R : Rat → Rat → Prop) (p : List (Option Rat)) (s : ArgSt) : Prop :=
  s.cur = p.length ∧
  match s.best with
  | none => valid p = [] ∧ s.idx = none
  | some m => IsExt R (valid p) m ∧ s.idx = p.findIdx? (· = some m)

theorem findIdx?_none_of_not_mem (p : List (Option Rat)) (v : Rat) (h : v ∉ valid p) :
    p.findIdx? (· = some v) = none := by
  rw [List.findIdx?_eq_none_iff]
  intro x hx
  simp only [decide_eq_false_iff_not]
  intro hxv
  subst hxv
  exact h (mem_valid.mpr hx)

theorem findIdx?_snoc_self (p : List (Option Rat)) (v : Rat) (h : v ∉ valid p) :
    (p ++ [some v]).findIdx? (· = some v) = some p.length := by
  rw [List.findIdx?_append, findIdx?_none_of_not_mem p v h]
  simp

theorem findIdx?_snoc_of_mem (p : List (Option Rat)) (m : Rat) (w : Option Rat)
    (h : m ∈ valid p) :
    (p ++ [w]).findIdx? (· = some m) = p.findIdx? (· = some m) := by
  rw [List.findIdx?_append]
  have : (p.findIdx? (· = some m)).isSome := by
    rw [List.findIdx?_isSome, List.any_eq_true]
    exact ⟨some m, mem_valid.mp h, by simp⟩
  obtain ⟨i, hi⟩ := Option.isSome_iff_exists.mp this
  rw [hi]; rfl

theorem argStep_inv (g : GoodOrder R) (p : List (Option Rat)) (s : ArgSt) (v : Option Rat)
    (h : ArgInv R p s) : ArgInv R (p ++ [v]) (argStep R s v) := by
  obtain ⟨hc, hb⟩ := h
  cases v with
  | none =>
    refine ⟨by simp [argStep, hc], ?_⟩
    simp only [argStep]
    cases hbest : s.best with
    | none =>
      rw [hbest] at hb
      simpa [valid_append] using hb
    | some m =>
      rw [hbest] at hb
      refine ⟨by simpa [valid_append] using hb.1, ?_⟩
      rw [findIdx?_snoc_of_mem p m none hb.1.1]; exact hb.2
  | some v =>
    cases hbest : s.best with
    | none =>
      rw [hbest] at hb
      refine ⟨by simp [argStep, hbest, hc], ?_⟩
      simp only [argStep, hbest]
      refine ⟨?_, ?_⟩
      · rw [valid_append, hb.1]
        refine ⟨by simp, ?_⟩
        intro x hx
        have : x = v := by simpa using hx
        subst this
        rcases g.total x x with h | h <;> exact h
      · rw [findIdx?_snoc_self p v (by rw [hb.1]; simp), hc]
    | some m =>
      rw [hbest] at hb
      obtain ⟨⟨hmem, hle⟩, hidx⟩ := hb
      by_cases hr : R m v
      · refine ⟨by simp [argStep, hbest, hr, hc], ?_⟩
        simp only [argStep, hbest, hr, if_true]
        refine ⟨⟨?_, ?_⟩, ?_⟩
        · rw [valid_append]; simp [hmem]
        · intro x hx
          rw [valid_append] at hx
          rcases List.mem_append.mp hx with h | h
          · exact hle x h
          · have : x = v := by simpa using h
            subst this; exact hr
        · rw [findIdx?_snoc_of_mem p m (some v) hmem]; exact hidx
      · have hvm : R v m := by
          rcases g.total m v with h | h
          · exact absurd h hr
          · exact h
        have hnot : v ∉ valid p := by
          intro hv
          exact hr (hle v hv)
        refine ⟨by simp [argStep, hbest, hr, hc], ?_⟩
        simp only [argStep, hbest, hr, if_false]
        refine ⟨⟨?_, ?_⟩, ?_⟩
        · rw [valid_append]; simp
        · intro x hx
          rw [valid_append] at hx
          rcases List.mem_append.mp hx with h | h
          · exact g.trans _ _ _ hvm (hle x h)
          · have : x = v := by simpa using h
            subst this
            rcases g.total x x with h | h <;> exact h
        · rw [findIdx?_snoc_self p v hnot, hc]

theorem argFold_inv (g : GoodOrder R) (xs : List (Option Rat)) :
    ArgInv R xs (xs.foldl (argStep R) ⟨none, none, 0⟩) := by
  have := foldl_prefix_inv (Inv := ArgInv R) (argStep R) (argStep_inv g) xs []
    ⟨none, none, 0⟩ ⟨rfl, rfl, rfl⟩
  simpa using this

/-- the arg loop returns the position of the first occurrence of the extreme valid element -/
theorem argFold_eq (g : GoodOrder R) (xs : List (Option Rat)) :
    (xs.foldl (argStep R) ⟨none, none, 0⟩).idx =
      (extFind R (valid xs)).bind fun m => xs.findIdx? (· = some m) := by
  obtain ⟨-, hb⟩ := argFold_inv g xs
  cases hbest : (xs.foldl (argStep R) ⟨none, none, 0⟩).best with
  | none =>
    rw [hbest] at hb
    rw [hb.2, hb.1]; rfl
  | some m =>
    rw [hbest] at hb
    rw [(extFind_eq_some_iff g _ _).mpr hb.1]
    exact hb.2

end Ext

/-! ### the two instances -/

def leR : Rat → Rat → Prop := fun a b => a ≤ b
def geR : Rat → Rat → Prop := fun a b => b ≤ a
instance : DecidableRel leR := fun a b => inferInstanceAs (Decidable (a ≤ b))
instance : DecidableRel geR := fun a b => inferInstanceAs (Decidable (b ≤ a))

theorem leR_good : GoodOrder leR :=
  ⟨fun a b => le_total a b, fun _ _ _ h1 h2 => le_trans h1 h2, fun _ _ h1 h2 => le_antisymm h1 h2⟩

theorem geR_good : GoodOrder geR :=
  ⟨fun a b => le_total b a, fun _ _ _ h1 h2 => le_trans h2 h1, fun _ _ h1 h2 => le_antisymm h2 h1⟩

theorem least_eq (l : List Rat) : Spec.least l = extFind leR l := rfl
theorem greatest_eq (l : List Rat) : Spec.greatest l = extFind geR l := rfl

theorem minWith_eq (a b : Rat) : minWith a b = extWith leR a b := by
  unfold minWith extWith leR
  by_cases h : b < a
  · simp [h, not_le.mpr h]
  · simp [h, not_lt.mp h]

theorem maxWith_eq (a b : Rat) : maxWith a b = extWith geR a b := by
  unfold maxWith extWith geR
  by_cases h : b > a
  · simp [h, not_le.mpr h]
  · simp [h, not_lt.mp h]

theorem vargminStep_eq (s : ArgSt) (v : Option Rat) : vargminStep s v = argStep leR s v := by
  unfold vargminStep argStep leR
  cases v with
  | none => rfl
  | some v =>
    cases hb : s.best with
    | none => simp
    | some m =>
      by_cases h : v < m
      · simp [h, not_le.mpr h]
      · simp [h, not_lt.mp h]

theorem vargmaxStep_eq (s : ArgSt) (v : Option Rat) : vargmaxStep s v = argStep geR s v := by
  unfold vargmaxStep argStep geR
  cases v with
  | none => rfl
  | some v =>
    cases hb : s.best with
    | none => simp
    | some m =>
      by_cases h : v > m
      · simp [h, not_le.mpr h]
      · simp [h, not_lt.mp h]

end Tv.C11
