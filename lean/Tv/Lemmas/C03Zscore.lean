import Tv.Model.C03Norm
import Tv.Lemmas.C03Norm
import Mathlib.Tactic.NormNum
/-!
  `ts_vzscore`: the power-sum closure is an instance of the generic refinement theorem
  `run_refines_all`; the one-pass variance `sum2/n - (sum/n)²` equals the centred sum of
  squares divided by `n`.
-/
namespace Tv.C03
open Tv

theorem vals_append (a b : List (Option Rat)) : Spec.vals (a ++ b) = Spec.vals a ++ Spec.vals b := by
  simp [Spec.vals, List.filterMap_append]

theorem sum_append (a b : List Rat) : Spec.sum (a ++ b) = Spec.sum a + Spec.sum b := by
  induction a with
  | nil => simp [Spec.sum]
  | cons x r ih =>
    simp only [Spec.sum, List.cons_append, List.foldr_cons] at ih ⊢
    rw [ih]; ring

def sumsq (l : List Rat) : Rat := Spec.sum (l.map fun x => x * x)

theorem css_expand (c : Rat) (l : List Rat) :
    Spec.css c l = sumsq l - 2 * c * Spec.sum l + (l.length : Rat) * c * c := by
  induction l with
  | nil => simp [Spec.css, sumsq, Spec.sum]
  | cons x xs ih =>
    simp only [Spec.css, sumsq, Spec.sum, List.map_cons, List.foldr_cons, List.length_cons] at *
    rw [ih]; push_cast; ring

/-- one-pass population variance = centred sum of squares / n -/
theorem pvar_closed (l : List Rat) (hn : 1 ≤ l.length) :
    sumsq l / (l.length : Rat) - Spec.sum l / (l.length : Rat) * (Spec.sum l / (l.length : Rat))
      = Spec.css (Spec.mean l) l / (l.length : Rat) := by
  have hn0 : (l.length : Rat) ≠ 0 := by
    have : (1 : Rat) ≤ (l.length : Rat) := by exact_mod_cast hn
    linarith
  rw [css_expand]
  unfold Spec.mean
  field_simp
  ring

/-- abstraction relation: the state holds the power sums of the non-null window contents
and (when the window is non-empty) its most recent element -/
def ZInv (s : ZSt) (q : List (Option Rat)) : Prop :=
  s.n = (Spec.vals q).length ∧ s.sum = Spec.sum (Spec.vals q) ∧ s.sum2 = sumsq (Spec.vals q) ∧
  (∀ y, q.getLast? = some y → s.last = y)

theorem zinv_add (s : ZSt) (q : List (Option Rat)) (v : Option Rat) (h : ZInv s q) :
    ZInv (s.add v) (q ++ [v]) := by
  obtain ⟨h1, h2, h3, _⟩ := h
  cases v with
  | none =>
    refine ⟨?_, ?_, ?_, ?_⟩ <;> simp [ZSt.add, Spec.vals, h1, h2, h3]
  | some x =>
    have hv : Spec.vals (q ++ [some x]) = Spec.vals q ++ [x] := by
      rw [vals_append]; simp [Spec.vals]
    refine ⟨?_, ?_, ?_, ?_⟩
    · rw [hv]; simp [ZSt.add, h1]
    · rw [hv, sum_append]; simp [ZSt.add, h2, Spec.sum]
    · rw [hv]; unfold sumsq at h3 ⊢; rw [List.map_append, sum_append]; simp [ZSt.add, h3, Spec.sum]
    · intro y hy; simp at hy; simp [ZSt.add, hy]

theorem zinv_remove (s : ZSt) (x : Option Rat) (q : List (Option Rat)) (h : ZInv s (x :: q)) :
    ZInv (s.remove x) q := by
  obtain ⟨h1, h2, h3, h4⟩ := h
  have hlast : ∀ y, q.getLast? = some y → s.last = y := by
    intro y hy
    apply h4
    cases q with
    | nil => cases hy
    | cons a r => rw [List.getLast?_cons_cons]; exact hy
  cases x with
  | none =>
    refine ⟨?_, ?_, ?_, hlast⟩
    · simpa [ZSt.remove, Spec.vals] using h1
    · simpa [ZSt.remove, Spec.vals] using h2
    · simpa [ZSt.remove, Spec.vals] using h3
  | some v =>
    have hv : Spec.vals (some v :: q) = v :: Spec.vals q := by simp [Spec.vals]
    rw [hv] at h1 h2 h3
    refine ⟨?_, ?_, ?_, hlast⟩
    · simp [ZSt.remove, h1]
    · simp only [ZSt.remove, h2, Spec.sum, List.foldr_cons]; ring
    · simp only [ZSt.remove, h3, sumsq, Spec.sum, List.map_cons, List.foldr_cons]; ring

theorem eps_pos : (0 : Rat) < EPS := by norm_num [EPS]

theorem zinv_emit (mp : Nat) (s : ZSt) (q : List (Option Rat)) (h : ZInv s q) :
    zEmit mp s = Spec.tsZscore mp q := by
  obtain ⟨h1, h2, h3, h4⟩ := h
  unfold Spec.tsZscore
  cases hq : q.getLast? with
  | none =>
    have : q = [] := by
      cases q with
      | nil => rfl
      | cons a r => simp [List.getLast?_cons] at hq
    subst this
    simp only [Spec.vals, List.filterMap_nil, List.length_nil, Spec.sum, List.foldr_nil, sumsq,
      List.map_nil] at h1 h2 h3
    unfold zEmit
    cases s.last with
    | none => rfl
    | some v =>
      simp only [h1, h2, h3]
      have : ¬ ((0 : Rat) / ((0 : Nat) : Rat) - 0 / ((0 : Nat) : Rat) * (0 / ((0 : Nat) : Rat)) > EPS) := by
        have := eps_pos
        simp only [Nat.cast_zero, div_zero, mul_zero, sub_zero, gt_iff_lt, not_lt]
        exact le_of_lt this
      simp only [this, if_false]
      split <;> rfl
  | some y =>
    have hl := h4 y hq
    cases y with
    | none => simp [zEmit, hl]
    | some x =>
      have hx : x ∈ Spec.vals q := by
        have : some x ∈ q := List.mem_of_getLast? hq
        simp [Spec.vals, List.mem_filterMap]; exact this
      have hn : 1 ≤ (Spec.vals q).length := List.length_pos_of_mem hx
      have hn0 : ((Spec.vals q).length : Rat) ≠ 0 := by
        have : (1 : Rat) ≤ ((Spec.vals q).length : Rat) := by exact_mod_cast hn
        linarith
      have hvar := pvar_closed (Spec.vals q) hn
      simp only [zEmit, hl, h1, h2, h3, Spec.masked]
      have hmean : Spec.sum (Spec.vals q) / ((Spec.vals q).length : Rat) = Spec.mean (Spec.vals q) := rfl
      rw [hvar, hmean]
      have hE : Spec.EPS = EPS := rfl
      have hS : Spec.sgn = sgn := rfl
      simp only [hE, hS]
      split
      · by_cases hc : Spec.css (Spec.mean (Spec.vals q)) (Spec.vals q) / ((Spec.vals q).length : Rat) ≤ EPS
        · have : ¬ (Spec.css (Spec.mean (Spec.vals q)) (Spec.vals q) / ((Spec.vals q).length : Rat) > EPS) :=
            not_lt.mpr hc
          rw [if_neg this, if_pos hc]
        · have : Spec.css (Spec.mean (Spec.vals q)) (Spec.vals q) / ((Spec.vals q).length : Rat) > EPS :=
            not_le.mp hc
          rw [if_pos this, if_neg hc]
          by_cases h1' : (Spec.vals q).length = 1
          · have : ((Spec.vals q).length : Rat) - 1 = 0 := by
              have : ((Spec.vals q).length : Rat) = 1 := by exact_mod_cast h1'
              rw [this]; norm_num
            rw [if_pos this, if_pos h1']
          · have hne : ((Spec.vals q).length : Rat) - 1 ≠ 0 := by
              intro hz
              apply h1'
              have : ((Spec.vals q).length : Rat) = 1 := by linarith
              exact_mod_cast this
            rw [if_neg hne, if_neg h1']
            congr 2
            field_simp
      · rfl

end Tv.C03

namespace Tv.C03
open Tv

theorem tsVzscore_exact (sh : Shape) (xs : List (Option Rat)) (w : Nat) (mp : Option Nat)
    (hw : 1 ≤ w) :
    tsVzscore sh xs w mp =
      (List.range xs.length).map fun i => Spec.tsZscore (normMp mp w) (window xs i w) := by
  unfold tsVzscore
  rw [C02.applyCalls_spec sh xs w hw]
  by_cases hx : xs = []
  · subst hx; simp [callsFrom, Roll.run]
  · have hlen : 1 ≤ xs.length := by
      cases xs with
      | nil => exact absurd rfl hx
      | cons _ _ => simp
    have hW := effW_ge_one sh w xs.length hw hlen
    have := run_refines_all (zRoll (normMp mp w)) ZInv (Spec.tsZscore (normMp mp w))
      (by simp [zRoll, ZInv, Spec.vals, Spec.sum, sumsq])
      (fun s q v h => zinv_add s q v h) (fun s x q h => zinv_remove s x q h)
      (fun s q h => zinv_emit (normMp mp w) s q h) xs _ hW
    rw [show (⟨0, 0, 0, none⟩ : ZSt) = (zRoll (normMp mp w)).init from rfl, this]
    apply List.map_congr_left
    intro i hi
    have hi' : i < xs.length := by simpa using hi
    rw [window_effW sh xs w i hi']

end Tv.C03
