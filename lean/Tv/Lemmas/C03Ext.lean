import Tv.Model.C03Cmp
import Mathlib.Algebra.Order.Field.Rat
import Mathlib.Tactic.Linarith
/-!
  The cached-extreme invariant of cmp.rs, for an arbitrary null-last total preorder `le`
  (instantiated with `leNL` = `sort_cmp` and `geNL` = `sort_cmp_rev`).

  `IsExtLast le g lo hi (m, k)`: `k` is the *last* position in `lo..=hi` whose value is
  `le`-minimal, and `m` is that value.
-/
namespace Tv.C03
open Tv

/-- what the proofs need from a comparator -/
structure LeOK (le : Option Rat → Option Rat → Bool) : Prop where
  refl : ∀ a, le a a = true
  total : ∀ a b, le a b = true ∨ le b a = true
  trans : ∀ {a b c}, le a b = true → le b c = true → le a c = true

theorem leNL_ok : LeOK leNL where
  refl := by intro a; cases a <;> simp [leNL]
  total := by
    intro a b; cases a <;> cases b <;> simp [leNL]
    exact Rat.le_total
  trans := by
    intro a b c h1 h2
    cases a <;> cases b <;> cases c <;> simp_all [leNL]
    exact Rat.le_trans h1 h2

theorem geNL_ok : LeOK geNL where
  refl := by intro a; cases a <;> simp [geNL]
  total := by
    intro a b; cases a <;> cases b <;> simp [geNL]
    exact Rat.le_total
  trans := by
    intro a b c h1 h2
    cases a <;> cases b <;> cases c <;> simp_all [geNL]
    exact Rat.le_trans h2 h1

theorem LeOK.of_false {le} (h : LeOK le) {a b : Option Rat} (hab : le a b = false) : le b a = true := by
  cases h.total a b with
  | inl h' => rw [hab] at h'; cases h'
  | inr h' => exact h'

structure IsExtLast (le : Option Rat → Option Rat → Bool) (g : Nat → Option Rat)
    (lo hi : Nat) (st : ExtSt) : Prop where
  idx : ∃ k, st.2 = some k ∧ lo ≤ k ∧ k ≤ hi ∧ g k = st.1
  isMin : ∀ i, lo ≤ i → i ≤ hi → le st.1 (g i) = true
  isLast : ∀ k, st.2 = some k → ∀ i, k < i → i ≤ hi → le (g i) st.1 = false

variable {le : Option Rat → Option Rat → Bool}

/-- extending the window on the right by one position -/
theorem upd_extends (hle : LeOK le) (g : Nat → Option Rat) (lo hi : Nat) (st : ExtSt)
    (h : IsExtLast le g lo hi st) : IsExtLast le g lo (hi+1) (upd le g st (hi+1)) := by
  unfold upd updV
  by_cases hc : le (g (hi+1)) st.1 = true
  · simp only [hc, if_true]
    refine ⟨⟨hi+1, rfl, ?_, Nat.le_refl _, rfl⟩, ?_, ?_⟩
    · obtain ⟨k, _, hk1, hk2, _⟩ := h.idx; omega
    · intro i hi1 hi2
      by_cases hlast : i = hi+1
      · subst hlast; exact hle.refl _
      · exact hle.trans hc (h.isMin i hi1 (by omega))
    · intro k hk i hki hi2
      simp at hk; omega
  · have hc' : le (g (hi+1)) st.1 = false := by simpa using hc
    simp only [hc', Bool.false_eq_true, if_false]
    refine ⟨?_, ?_, ?_⟩
    · obtain ⟨k, hk0, hk1, hk2, hk3⟩ := h.idx
      exact ⟨k, hk0, hk1, by omega, hk3⟩
    · intro i hi1 hi2
      by_cases hlast : i = hi+1
      · subst hlast; exact hle.of_false hc'
      · exact h.isMin i hi1 (by omega)
    · intro k hk i hki hi2
      by_cases hlast : i = hi+1
      · subst hlast; exact hc'
      · exact h.isLast k hk i hki (by omega)

/-- a singleton window -/
theorem isExtLast_single (hle : LeOK le) (g : Nat → Option Rat) (i : Nat) (k : Option Nat) :
    IsExtLast le g i i (upd le g (g i, k) i) := by
  unfold upd updV
  simp only [hle.refl, if_true]
  refine ⟨⟨i, rfl, Nat.le_refl _, Nat.le_refl _, rfl⟩, ?_, ?_⟩
  · intro j h1 h2; have : j = i := by omega
    subst this; exact hle.refl _
  · intro k hk j h1 h2; simp at hk; omega

theorem foldl_upd_extends (hle : LeOK le) (g : Nat → Option Rat) (lo : Nat) :
    ∀ (n hi : Nat) (st : ExtSt), IsExtLast le g lo hi st →
      IsExtLast le g lo (hi+n) ((List.range' (hi+1) n).foldl (upd le g) st) := by
  intro n
  induction n with
  | zero => intro hi st h; simpa using h
  | succ n ih =>
    intro hi st h
    rw [List.range'_succ, List.foldl_cons]
    have := ih (hi+1) _ (upd_extends hle g lo hi st h)
    have e : hi + 1 + n = hi + (n+1) := by omega
    rw [e] at this
    exact this

/-- the rescan loop computes the last extreme of `s..=e`, whatever the state was -/
theorem rescan_spec (hle : LeOK le) (g : Nat → Option Rat) (st : ExtSt) (s e : Nat) (h : s ≤ e) :
    IsExtLast le g s e (rescan le g st s e) := by
  unfold rescan
  have hlen : e + 1 - s = (e - s) + 1 := by omega
  rw [hlen, List.range'_succ, List.foldl_cons]
  have h0 := isExtLast_single hle g s st.2
  have := foldl_upd_extends hle g s (e - s) s _ h0
  have e2 : s + (e - s) = e := by omega
  rw [e2] at this
  exact this

/-- dropping the head of the window keeps the cached extreme if it is not the head -/
theorem isExtLast_drop_head (g : Nat → Option Rat) (lo hi : Nat) (st : ExtSt)
    (h : IsExtLast le g lo hi st) (hk : ∀ k, st.2 = some k → lo < k) :
    IsExtLast le g (lo+1) hi st := by
  refine ⟨?_, ?_, h.isLast⟩
  · obtain ⟨k, hk0, hk1, hk2, hk3⟩ := h.idx
    exact ⟨k, hk0, hk k hk0, hk2, hk3⟩
  · intro i h1 h2; exact h.isMin i (by omega) h2

/-- the first call of the closure (state `(None, None)`, position 0) -/
theorem extStep_first (hle : LeOK le) (g : Nat → Option Rat) (start : Option Nat)
    (hs : start = none ∨ start = some 0) :
    IsExtLast le g 0 0 (extStep le g (none, none) start 0 (g 0)) := by
  have key : IsExtLast le g 0 0 (g 0, some 0) := by
    have := isExtLast_single hle g 0 none
    unfold upd updV at this
    simpa [hle.refl] using this
  unfold extStep
  cases hv : g 0 with
  | none =>
    rcases hs with hs | hs <;> subst hs
    · simp [ltON, updV, hle.refl]
      rw [hv] at key; exact key
    · simp only [Option.isSome_none, Bool.false_and, Bool.false_eq_true, if_false, ltON, if_true]
      exact rescan_spec hle g _ 0 0 (Nat.le_refl _)
  | some x =>
    rw [hv] at key
    rcases hs with hs | hs <;> subst hs <;> simp [ltON, updV, hle.refl] <;> exact key

/-- every later call: the window `lo..=e` either grows on the right (`start` is `None` or still
`Some(lo)`) or slides by one (`start = Some(lo+1)`) -/
theorem extStep_next (hle : LeOK le) (g : Nat → Option Rat) (st : ExtSt) (lo e : Nat)
    (start : Option Nat) (lo' : Nat)
    (hs : (start = none ∧ lo' = lo) ∨ (start = some lo ∧ lo' = lo) ∨ (start = some (lo+1) ∧ lo' = lo+1))
    (h : IsExtLast le g lo e st) :
    IsExtLast le g lo' (e+1) (extStep le g st start (e+1) (g (e+1))) := by
  obtain ⟨k, hk0, hk1, hk2, hk3⟩ := h.idx
  have hsome : st.2.isNone = false := by rw [hk0]; rfl
  unfold extStep
  simp only [hsome, Bool.and_false, Bool.false_eq_true, if_false]
  rcases hs with ⟨hs, hl⟩ | ⟨hs, hl⟩ | ⟨hs, hl⟩ <;> subst hs <;> subst hl
  · have : ltON st.2 none = false := by cases st.2 <;> rfl
    simp only [this, Bool.false_eq_true, if_false]
    exact upd_extends hle g lo' e st h
  · have : ltON st.2 (some lo') = false := by rw [hk0]; simp [ltON]; omega
    simp only [this, Bool.false_eq_true, if_false]
    exact upd_extends hle g lo' e st h
  · by_cases hexp : ltON st.2 (some (lo+1)) = true
    · simp only [hexp, if_true]
      exact rescan_spec hle g st (lo+1) (e+1) (by omega)
    · have hexp' : ltON st.2 (some (lo+1)) = false := by simpa using hexp
      simp only [hexp', Bool.false_eq_true, if_false]
      have hks : lo + 1 ≤ k := by
        rw [hk0] at hexp'; simp [ltON] at hexp'; exact hexp'
      have hd := isExtLast_drop_head g lo e st h
        (by intro k' hk'; rw [hk0] at hk'; cases hk'; omega)
      exact upd_extends hle g (lo+1) e st hd

/-- the predicate determines the pair: it really is "the extreme, most recent on ties" -/
theorem isExtLast_unique (hle : LeOK le) (hanti : ∀ a b, le a b = true → le b a = true → a = b)
    (g : Nat → Option Rat) (lo hi : Nat) (s t : ExtSt)
    (hs : IsExtLast le g lo hi s) (ht : IsExtLast le g lo hi t) : s = t := by
  obtain ⟨k, hk0, hk1, hk2, hk3⟩ := hs.idx
  obtain ⟨j, hj0, hj1, hj2, hj3⟩ := ht.idx
  have hv : s.1 = t.1 := by
    apply hanti
    · rw [← hj3]; exact hs.isMin j hj1 hj2
    · rw [← hk3]; exact ht.isMin k hk1 hk2
  have hkj : k = j := by
    rcases Nat.lt_trichotomy k j with hlt | heq | hgt
    · have := hs.isLast k hk0 j hlt hj2
      rw [hj3, ← hv, hle.refl] at this; cases this
    · exact heq
    · have := ht.isLast j hj0 k hgt hk2
      rw [hk3, hv, hle.refl] at this; cases this
  have hi2 : s.2 = t.2 := by rw [hk0, hj0, hkj]
  exact Prod.ext hv hi2

theorem leNL_antisymm (a b : Option Rat) (h1 : leNL a b = true) (h2 : leNL b a = true) : a = b := by
  cases a <;> cases b <;> simp_all [leNL]
  exact Rat.le_antisymm h1 h2

theorem geNL_antisymm (a b : Option Rat) (h1 : geNL a b = true) (h2 : geNL b a = true) : a = b := by
  cases a <;> cases b <;> simp_all [geNL]
  exact Rat.le_antisymm h2 h1

end Tv.C03
