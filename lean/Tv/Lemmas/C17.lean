import Tv.Model.C17
import Tv.Spec.C17
import Mathlib.Tactic.IntervalCases
/-! Helper lemmas for C17 (date-time / duration / time-of-day arithmetic). -/
namespace Tv.C17

/-! ### numeric constants -/

theorem band_decide (p q : Prop) [Decidable p] [Decidable q] : (decide p && decide q) = true ↔ p ∧ q := by
  rw [Bool.and_eq_true, decide_eq_true_iff, decide_eq_true_iff]

theorem crMin_val : crMin = -8334601228800000000000 := by decide
theorem crMax_val : crMax = 8210266876799999999999 := by decide

theorem inCr_iff (t : Int) : inCr t = true ↔ -8334601228800000000000 ≤ t ∧ t ≤ 8210266876799999999999 := by
  unfold inCr; rw [crMin_val, crMax_val]; exact band_decide _ _

theorem inI64_iff (t : Int) : inI64 t = true ↔ -9223372036854775808 ≤ t ∧ t ≤ 9223372036854775807 := by
  unfold inI64 i64Min i64Max; exact band_decide _ _

theorem inI32_iff (t : Int) : inI32 t = true ↔ -2147483648 ≤ t ∧ t ≤ 2147483647 := by
  unfold inI32 i32Min i32Max; exact band_decide _ _

theorem inDur_iff (n : Int) : inDur n = true ↔ -9223372036854775807000000 ≤ n ∧ n ≤ 9223372036854775807000000 := by
  unfold inDur durMax i64Max; rw [band_decide]; norm_num

theorem mulOk_iff (n k : Int) :
    mulOk n k = true ↔ -9223372036854775808 < n * k / 1000000000 ∧ n * k / 1000000000 < 9223372036854775807 := by
  unfold mulOk i64Min i64Max nsPerSec; exact band_decide _ _

/-- every `i64` nanosecond instant is inside chrono's range -/
theorem inCr_of_inI64 {t : Int} (h : inI64 t = true) : inCr t = true := by
  rw [inI64_iff] at h; rw [inCr_iff]; omega

/-! ### `Res` -/

@[simp] theorem Res.bind_ok (v : α) (f : α → Res β) : (Res.ok v).bind f = f v := rfl
@[simp] theorem Res.bind_panic (f : α → Res β) : (Res.panic : Res α).bind f = .panic := rfl

/-! ### the range in which a `DateTime<u>` operation is defined -/

/-- instant `t` is inside chrono's range and, at nanosecond precision, a non-NaT `i64` -/
def DtOk (u : TUnit) (t : Int) : Prop :=
  inCr t = true ∧ (u = .ns → i64Min < t ∧ t ≤ i64Max)

theorem TUnit.mult_pos (u : TUnit) : 0 < u.mult := by cases u <;> decide

/-- a value whose instant is in range is not the NaT marker -/
theorem ne_nat_of_DtOk {u : TUnit} {x : Int} (h : DtOk u (x * u.mult)) : x ≠ nat64 := by
  obtain ⟨h1, h2⟩ := h
  rw [inCr_iff] at h1
  intro hx
  subst hx
  cases u
  · simp [TUnit.mult, nat64, i64Min] at h1
  · simp [TUnit.mult, nat64, i64Min] at h1
  · simp [TUnit.mult, nat64, i64Min] at h1
  · have := h2 rfl
    simp [TUnit.mult, nat64, i64Min] at this

theorem asCr_of_DtOk {u : TUnit} {x : Int} (h : DtOk u (x * u.mult)) : asCr u x = some (x * u.mult) := by
  have hx := ne_nat_of_DtOk h
  simp [asCr, hx, h.1]

/-- `fromCr` of a whole number of units -/
theorem fromCr_mul {u : TUnit} {x : Int} (h : DtOk u (x * u.mult)) : fromCr u (x * u.mult) = .ok x := by
  obtain ⟨_, h2⟩ := h
  cases u
  · simp [fromCr, TUnit.mult]
  · simp [fromCr, TUnit.mult]
  · simp [fromCr, TUnit.mult]
  · have := h2 rfl
    simp [TUnit.mult, i64Min, i64Max] at this
    simp [fromCr, TUnit.mult, inI64_iff]; omega

theorem fromCr_floor {u : TUnit} {t : Int} (h : DtOk u t) : fromCr u t = .ok (t / u.mult) := by
  obtain ⟨_, h2⟩ := h
  cases u
  · simp [fromCr, TUnit.mult]
  · simp [fromCr, TUnit.mult]
  · simp [fromCr, TUnit.mult]
  · have := h2 rfl
    simp [i64Min, i64Max] at this
    simp [fromCr, TUnit.mult, inI64_iff]; omega

theorem addMonthsCr_zero (t : Int) : addMonthsCr t 0 = .ok t := by simp [addMonthsCr]

theorem td0_not_nat (n : Int) : (TD.mk 0 n).isNat = false := by simp [TD.isNat, i32Min]

/-! ### floor to a multiple -/

/-- `n * (t / n)` is the greatest multiple of `n > 0` that is not after `t` -/
theorem floor_mul_greatest (t n : Int) (hn : 0 < n) :
    n * (t / n) ≤ t ∧ t < n * (t / n) + n ∧ n ∣ n * (t / n) ∧
    ∀ k, n ∣ k → k ≤ t → k ≤ n * (t / n) := by
  have h1 := Int.mul_ediv_add_emod t n
  have h2 := Int.emod_nonneg t (Int.ne_of_gt hn)
  have h3 := Int.emod_lt_of_pos t hn
  refine ⟨by omega, by omega, Int.dvd_mul_right _ _, ?_⟩
  rintro k ⟨j, rfl⟩ hk
  have : j ≤ t / n := by
    rw [Int.le_ediv_iff_mul_le hn, Int.mul_comm]; exact hk
  exact Int.mul_le_mul_of_nonneg_left this (Int.le_of_lt hn)

/-- the truncating remainder expressed through the floor quotient -/
theorem tmod_cases (t n : Int) (hn : 0 < n) :
    (t.tmod n = 0 ∧ n * (t / n) = t) ∨
    (t.tmod n > 0 ∧ t - t.tmod n = n * (t / n)) ∨
    (t.tmod n < 0 ∧ t - (n - (t.tmod n).natAbs) = n * (t / n)) := by
  have h1 := Int.mul_ediv_add_emod t n
  have h2 := Int.emod_nonneg t (Int.ne_of_gt hn)
  have h3 := Int.emod_lt_of_pos t hn
  have h4 := @Int.tmod_eq_emod t n
  have hna : (n.natAbs : Int) = n := Int.natAbs_of_nonneg (Int.le_of_lt hn)
  by_cases hc : 0 ≤ t ∨ n ∣ t
  · rw [if_pos hc] at h4
    have h4' : t.tmod n = t % n := by rw [h4]; simp
    rw [h4']
    by_cases h0 : t % n = 0
    · left; exact ⟨h0, by omega⟩
    · right; left; exact ⟨by omega, by omega⟩
  · rw [if_neg hc, hna] at h4
    have hnd : t % n ≠ 0 := fun h => hc (Or.inr (Int.dvd_of_emod_eq_zero h))
    right; right
    refine ⟨by omega, ?_⟩
    have : ((t.tmod n).natAbs : Int) = n - t % n := by omega
    omega

/-- chrono's `duration_trunc` on an `i64` nanosecond instant -/
theorem chronoTrunc_eq (t n : Int) (hn : 0 < n) (hn64 : inI64 n = true) (ht : inI64 t = true) :
    chronoTrunc t n = .ok (n * (t / n)) := by
  have hfl := floor_mul_greatest t n hn
  have hin : inCr (n * (t / n)) = true := by
    rw [inI64_iff] at hn64 ht; rw [inCr_iff]; omega
  have hle : ¬ n ≤ 0 := by omega
  simp only [chronoTrunc, hn64, ht, Bool.not_true, Bool.false_eq_true, if_false, hle]
  rcases tmod_cases t n hn with ⟨h0, e⟩ | ⟨h0, e⟩ | ⟨h0, e⟩
  · simp only [h0, if_true, e]
  · have hne : t.tmod n ≠ 0 := by omega
    have e' : t + -t.tmod n = n * (t / n) := by omega
    simp only [hne, if_false, h0, if_true, addDurCr, e', hin]
  · have hne : t.tmod n ≠ 0 := by omega
    have hng : ¬ t.tmod n > 0 := by omega
    have e' : t + -(n - ↑(t.tmod n).natAbs) = n * (t / n) := by omega
    simp only [hne, if_false, hng, addDurCr, e', hin, if_true]

/-! ### calendar -/

/-- the month reported by `civilFromDays` is a month -/
theorem civil_month_range (z : Int) : 1 ≤ (civilFromDays z).2.1 ∧ (civilFromDays z).2.1 ≤ 12 := by
  simp only [civilFromDays]
  split <;> omega

/-- month-bucket arithmetic for a divisor of 12 -/
theorem month_bucket (y m dm : Int) (hm : 1 ≤ m ∧ m ≤ 12) (hdm : 0 < dm) (hd : 12 % dm = 0) :
    (y * 12 + (m - 1) - (y * 12 + (m - 1)) % dm) / 12 = y ∧
    (y * 12 + (m - 1) - (y * 12 + (m - 1)) % dm) % 12 + 1 = 1 + dm * ((m - 1) / dm) := by
  have hle : dm ≤ 12 := by
    by_contra h
    have : 12 % dm = 12 := Int.emod_eq_of_lt (by omega) (by omega)
    omega
  interval_cases dm <;> omega

/-! ### the counting calendar of the specification agrees with the model's closed forms -/

theorem leap_eq (y : Int) : Spec.leap y = isLeap y := by
  simp only [Spec.leap, isLeap]
  by_cases h4 : y % 4 = 0 <;> by_cases h100 : y % 100 = 0 <;> by_cases h400 : y % 400 = 0 <;>
    simp [h4, h100, h400] <;> omega

theorem monthLen_eq (y m : Int) (hm : 1 ≤ m ∧ m ≤ 12) :
    (Spec.monthLengths y).getD (m - 1).toNat 31 = daysInMonth y m := by
  obtain ⟨h1, h2⟩ := hm
  simp only [Spec.monthLengths, daysInMonth, leap_eq]
  interval_cases m <;> simp

/-- counting days (days before the year + lengths of the preceding months) gives the same day
number as the closed form used by the model -/
theorem dayNumber_eq (y m d : Int) (hm : 1 ≤ m ∧ m ≤ 12) :
    Spec.dayNumber y m d = daysFromCivil y m d := by
  obtain ⟨h1, h2⟩ := hm
  simp only [Spec.dayNumber, Spec.daysBeforeYear, Spec.monthLengths, daysFromCivil, leap_eq, isLeap]
  interval_cases m <;> simp <;> (try split) <;> omega

theorem iter_next (n : Nat) (y m : Int) (hm : 1 ≤ m ∧ m ≤ 12) :
    Spec.iter Spec.nextMonth n (y, m) =
      ((y * 12 + (m - 1) + n) / 12, (y * 12 + (m - 1) + n) % 12 + 1) := by
  induction n generalizing y m with
  | zero =>
    simp only [Spec.iter]
    ext <;> simp <;> omega
  | succ n ih =>
    simp only [Spec.iter, Spec.nextMonth]
    split
    · rw [ih _ _ (by omega)]
      ext <;> simp <;> omega
    · rw [ih _ _ (by omega)]
      ext <;> simp <;> omega

theorem iter_prev (n : Nat) (y m : Int) (hm : 1 ≤ m ∧ m ≤ 12) :
    Spec.iter Spec.prevMonth n (y, m) =
      ((y * 12 + (m - 1) - n) / 12, (y * 12 + (m - 1) - n) % 12 + 1) := by
  induction n generalizing y m with
  | zero =>
    simp only [Spec.iter]
    ext <;> simp <;> omega
  | succ n ih =>
    simp only [Spec.iter, Spec.prevMonth]
    split
    · rw [ih _ _ (by omega)]
      ext <;> simp <;> omega
    · rw [ih _ _ (by omega)]
      ext <;> simp <;> omega

end Tv.C17
