import Tv.Lemmas.Features
import Mathlib.Algebra.Group.Nat.Even
/-! positional accumulators: exponentially and linearly weighted means -/
namespace Tv
open Tv.Spec

theorem valid_cons_some (q : List (Option Rat)) (v : Rat) : valid (some v :: q) = v :: valid q := by
  simp [valid]
theorem valid_cons_none (q : List (Option Rat)) : valid (none :: q) = valid q := by
  simp [valid]

theorem sum_append_single (l : List Rat) (v : Rat) : Spec.sum (l ++ [v]) = Spec.sum l + v := by
  induction l with
  | nil => simp [Spec.sum]
  | cons x l ih => simp only [List.cons_append, Spec.sum, List.foldr_cons] at *; rw [ih]; ring

theorem sum_reverse (l : List Rat) : Spec.sum l.reverse = Spec.sum l := by
  induction l with
  | nil => rfl
  | cons x l ih => rw [List.reverse_cons, sum_append_single, ih]; simp only [Spec.sum, List.foldr_cons]; ring

/-! ### ewm -/

theorem ewmNum_snoc (oma : Rat) (r : List Rat) (v : Rat) :
    ewmNum oma (r ++ [v]) = ewmNum oma r + oma ^ r.length * v := by
  induction r with
  | nil => simp [ewmNum]
  | cons x r ih => simp only [List.cons_append, ewmNum, ih, List.length_cons]; ring

theorem geom_closed (alpha : Rat) (n : Nat) : alpha * geom (1 - alpha) n = 1 - (1 - alpha) ^ n := by
  induction n with
  | zero => simp [geom]
  | succ n ih =>
    simp only [geom]
    have : alpha * (1 + (1 - alpha) * geom (1 - alpha) n) = alpha + (1 - alpha) * (alpha * geom (1 - alpha) n) := by ring
    rw [this, ih]; ring

def EwmInv (oma : Rat) (s : Ewm) (q : List (Option Rat)) : Prop :=
  s.n = (valid q).length ∧ s.qx = ewmNum oma (valid q).reverse

theorem ewm_add (w mp : Nat) (s : Ewm) (q : List (Option Rat)) (v : Option Rat)
    (h : EwmInv (1 - 2 / (w : Rat)) s q) : EwmInv (1 - 2 / (w : Rat)) ((ewmRoll w mp).add s v) (q ++ [v]) := by
  obtain ⟨h1, h2⟩ := h
  cases v with
  | none => simp only [ewmRoll, EwmInv, valid_append_none]; exact ⟨h1, h2⟩
  | some v =>
    simp only [ewmRoll, valid_append_some, EwmInv, List.length_append, List.length_singleton,
      List.reverse_append, List.reverse_singleton, List.singleton_append, ewmNum]
    refine ⟨by rw [h1], ?_⟩
    rw [← h2]; ring

theorem ewm_remove (w mp : Nat) (s : Ewm) (x : Option Rat) (q : List (Option Rat))
    (h : EwmInv (1 - 2 / (w : Rat)) s (x :: q)) : EwmInv (1 - 2 / (w : Rat)) ((ewmRoll w mp).remove s x) q := by
  obtain ⟨h1, h2⟩ := h
  cases x with
  | none => simp only [ewmRoll]; rw [valid_cons_none] at h1 h2; exact ⟨h1, h2⟩
  | some v =>
    rw [valid_cons_some] at h1 h2
    simp only [List.length_cons] at h1
    simp only [List.reverse_cons, ewmNum_snoc, List.length_reverse] at h2
    simp only [ewmRoll, EwmInv]
    refine ⟨by omega, ?_⟩
    rw [h2, h1]
    simp only [Nat.add_sub_cancel]
    ring

theorem ewm_emit (w mp : Nat) (hw : 1 ≤ w) (s : Ewm) (q : List (Option Rat))
    (h : EwmInv (1 - 2 / (w : Rat)) s q) : (ewmRoll w mp).emit s = Spec.tsEwm w mp (valid q) := by
  obtain ⟨h1, h2⟩ := h
  simp only [ewmRoll, Spec.tsEwm, Spec.masked, ← h1, ge_iff_le]
  split
  · have hw0 : (w : Rat) ≠ 0 := by
      have : (1 : Rat) ≤ (w : Rat) := by exact_mod_cast hw
      linarith
    have ha : (2 : Rat) / (w : Rat) ≠ 0 := by
      apply div_ne_zero (by norm_num) hw0
    have hg := geom_closed (2 / (w : Rat)) s.n
    simp only [Out.div, ← hg, ← h2]
    by_cases hz : geom (1 - 2 / (w : Rat)) s.n = 0
    · simp [hz]
    · have : 2 / (w : Rat) * geom (1 - 2 / (w : Rat)) s.n ≠ 0 := mul_ne_zero ha hz
      simp only [this, hz, if_false]
      congr 1
      field_simp
  · rfl

/-! ### wma -/

theorem wmaNum_snoc (r : List Rat) (v : Rat) : wmaNum (r ++ [v]) = wmaNum r + Spec.sum r + v := by
  induction r with
  | nil => simp [wmaNum, Spec.sum]
  | cons x r ih =>
    simp only [List.cons_append, wmaNum, ih, List.length_append, List.length_singleton, Spec.sum, List.foldr_cons]
    push_cast; ring

theorem tri_cast (n : Nat) : (((n * (n + 1)) / 2 : Nat) : Rat) = (n : Rat) * ((n : Rat) + 1) / 2 := by
  have h2 : 2 ∣ n * (n + 1) := (Nat.even_mul_succ_self n).two_dvd
  obtain ⟨k, hk⟩ := h2
  rw [hk, Nat.mul_div_cancel_left k (by norm_num)]
  have : ((n * (n + 1) : Nat) : Rat) = ((2 * k : Nat) : Rat) := by rw [hk]
  push_cast at this
  linarith

def WmaInv (s : Wma) (q : List (Option Rat)) : Prop :=
  s.n = (valid q).length ∧ s.sum = Spec.sum (valid q) ∧ s.sxt = wmaNum (valid q).reverse

theorem wma_add (mp : Nat) (s : Wma) (q : List (Option Rat)) (v : Option Rat) (h : WmaInv s q) :
    WmaInv ((wmaRoll mp).add s v) (q ++ [v]) := by
  obtain ⟨h1, h2, h3⟩ := h
  cases v with
  | none => simp only [wmaRoll, WmaInv, valid_append_none]; exact ⟨h1, h2, h3⟩
  | some v =>
    simp only [wmaRoll, valid_append_some, WmaInv, List.length_append, List.length_singleton,
      List.reverse_append, List.reverse_singleton, List.singleton_append, wmaNum, sum_append_single,
      List.length_reverse]
    refine ⟨by rw [h1], by rw [h2], ?_⟩
    rw [h3, h1]; ring

theorem wma_remove (mp : Nat) (s : Wma) (x : Option Rat) (q : List (Option Rat)) (h : WmaInv s (x :: q)) :
    WmaInv ((wmaRoll mp).remove s x) q := by
  obtain ⟨h1, h2, h3⟩ := h
  cases x with
  | none => simp only [wmaRoll]; rw [valid_cons_none] at h1 h2 h3; exact ⟨h1, h2, h3⟩
  | some v =>
    rw [valid_cons_some] at h1 h2 h3
    simp only [List.length_cons] at h1
    simp only [Spec.sum, List.foldr_cons] at h2
    simp only [List.reverse_cons, wmaNum_snoc, sum_reverse] at h3
    simp only [wmaRoll, WmaInv]
    refine ⟨by omega, ?_, ?_⟩
    · rw [h2]; simp only [Spec.sum]; ring
    · rw [h3, h2]; simp only [Spec.sum]; ring

theorem wma_emit (mp : Nat) (s : Wma) (q : List (Option Rat)) (h : WmaInv s q) :
    (wmaRoll mp).emit s = Spec.tsWma mp (valid q) := by
  obtain ⟨h1, _, h3⟩ := h
  simp only [wmaRoll, Spec.tsWma, Spec.masked, ← h1, ge_iff_le]
  split
  · rw [tri_cast, h3]
  · rfl

end Tv
