import Tv.Lemmas.C04Emit
/-!
  The time-trend family: the running sums of the trend closures are the cross sums of the
  pairs `(y_k, k)`, `k = 1..n`; `Σk = n(n+1)/2`, `Σk² = n(n+1)(2n+1)/6`.
-/
namespace Tv.C04
open Tv Tv.Spec Tv.C04.Spec

/-- `Σ_j (k + j) · y_j`, `j = 1..` -/
def wsum : Nat → List Rat → Rat
  | _, [] => 0
  | k, x :: r => ((k + 1 : Nat) : Rat) * x + wsum (k + 1) r

/-- the state a trend closure must hold when the valid values of its window are `v` -/
@[reducible] def trendOf (v : List Rat) : Trend := ⟨v.length, sum v, wsum 0 v, p2 v⟩

theorem wsum_append (k : Nat) (l : List Rat) (v : Rat) :
    wsum k (l ++ [v]) = wsum k l + ((k + l.length + 1 : Nat) : Rat) * v := by
  induction l generalizing k with
  | nil => simp [wsum]
  | cons x l ih =>
    simp only [List.cons_append, wsum, ih, List.length_cons]
    push_cast; ring

theorem wsum_succ (k : Nat) (l : List Rat) : wsum (k + 1) l = wsum k l + sum l := by
  induction l generalizing k with
  | nil => simp [wsum]
  | cons x l ih =>
    simp only [wsum, ih, sum_cons]
    push_cast; ring

@[simp] theorem timed_length (k : Nat) (v : List Rat) : (timed k v).length = v.length := by
  induction v generalizing k with
  | nil => rfl
  | cons x v ih => simp [timed, ih]

theorem sA_timed (k : Nat) (v : List Rat) : sA (timed k v) = sum v := by
  unfold sA ys
  induction v generalizing k with
  | nil => rfl
  | cons x v ih => simp only [timed, List.map_cons, sum_cons, ih]

theorem sAA_timed (k : Nat) (v : List Rat) : sAA (timed k v) = p2 v := by
  unfold sAA p2
  induction v generalizing k with
  | nil => rfl
  | cons x v ih => simp only [timed, List.map_cons, sum_cons, ih]

theorem sAB_timed (k : Nat) (v : List Rat) : sAB (timed k v) = wsum k v := by
  unfold sAB
  induction v generalizing k with
  | nil => rfl
  | cons x v ih => simp only [timed, List.map_cons, sum_cons, ih, wsum]; ring

/-- **sum_t** (shifted): `Σ_{j=1..n} (k + j) = n k + n(n+1)/2` -/
theorem sB_timed (k : Nat) (v : List Rat) :
    sB (timed k v) = (v.length : Rat) * k + (v.length : Rat) * ((v.length : Rat) + 1) / 2 := by
  unfold sB xs
  induction v generalizing k with
  | nil => simp [timed]
  | cons x v ih =>
    simp only [timed, List.map_cons, sum_cons, ih, List.length_cons]
    push_cast; ring

/-- **sum_tt** (shifted): `Σ_{j=1..n} (k + j)² = n k² + k n(n+1) + n(n+1)(2n+1)/6` -/
theorem sBB_timed (k : Nat) (v : List Rat) :
    sBB (timed k v) = (v.length : Rat) * k * k + (k : Rat) * (v.length : Rat) * ((v.length : Rat) + 1)
      + (v.length : Rat) * ((v.length : Rat) + 1) * (2 * (v.length : Rat) + 1) / 6 := by
  unfold sBB
  induction v generalizing k with
  | nil => simp [timed]
  | cons x v ih =>
    simp only [timed, List.map_cons, sum_cons, ih, List.length_cons]
    push_cast; ring

/-- **sum_t**: `Σ_{k=1..n} k = n(n+1)/2` -/
theorem sum_t (v : List Rat) : sB (timed 0 v) = (v.length : Rat) * ((v.length : Rat) + 1) / 2 := by
  rw [sB_timed]; push_cast; ring

/-- **sum_tt**: `Σ_{k=1..n} k² = n(n+1)(2n+1)/6` -/
theorem sum_tt (v : List Rat) :
    sBB (timed 0 v) = (v.length : Rat) * ((v.length : Rat) + 1) * (2 * (v.length : Rat) + 1) / 6 := by
  rw [sBB_timed]; push_cast; ring

/-- `(n*n + n) >> 1` is exact -/
theorem half_cast (n : Nat) : (((n * n + n) / 2 : Nat) : Rat) = (n : Rat) * ((n : Rat) + 1) / 2 := by
  have h : 2 ∣ n * n + n := by
    have e : n * n + n = n * (n + 1) := by ring
    rw [e]; exact (Nat.even_mul_succ_self n).two_dvd
  obtain ⟨k, hk⟩ := h
  have hc : ((n * n + n : Nat) : Rat) = ((2 * k : Nat) : Rat) := by rw [hk]
  rw [hk, Nat.mul_div_cancel_left k (by norm_num : 0 < 2)]
  push_cast at hc
  linarith

theorem trend_sumT (v : List Rat) : (trendOf v).sumT = (crossOf (timed 0 v)).sb := by
  show (((v.length * v.length + v.length) / 2 : Nat) : Rat) = sB (timed 0 v)
  rw [half_cast, sum_t]

theorem trend_sumTT (v : List Rat) : (trendOf v).sumTT = (crossOf (timed 0 v)).sbb := by
  show (((v.length * v.length + v.length) * (2 * v.length + 1) : Nat) : Rat) / 6 = sBB (timed 0 v)
  rw [sum_tt]; push_cast; ring

theorem trend_nSumTT (v : List Rat) :
    (trendOf v).nSumTT = (v.length : Rat) * (crossOf (timed 0 v)).sbb := by
  show (v.length : Rat) * (((v.length * v.length + v.length) * (2 * v.length + 1) : Nat) : Rat) / 6 = (v.length : Rat) * sBB (timed 0 v)
  rw [sum_tt]; push_cast; ring

theorem trend_divisor (v : List Rat) : (trendOf v).divisor = (crossOf (timed 0 v)).den := by
  unfold Trend.divisor Cross.den
  rw [trend_nSumTT, trend_sumT]
  simp

theorem trend_divisor' (v : List Rat) : (trendOf v).divisor' = (crossOf (timed 0 v)).den := by
  unfold Trend.divisor' Cross.den
  rw [trend_sumTT, trend_sumT]
  simp

theorem trend_slope (v : List Rat) : (trendOf v).slope = (crossOf (timed 0 v)).beta := by
  unfold Trend.slope Cross.beta
  rw [trend_divisor, trend_sumT]
  simp only [timed_length, sAB_timed, sA_timed]
  congr 1; ring

theorem trend_beta' (v : List Rat) : (trendOf v).beta' = (crossOf (timed 0 v)).beta := by
  unfold Trend.beta' Cross.beta
  rw [trend_divisor', trend_sumT]
  simp only [timed_length, sAB_timed, sA_timed]
  congr 1; ring

theorem trend_intercept (v : List Rat) : (trendOf v).intercept = (crossOf (timed 0 v)).alpha := by
  unfold Trend.intercept Cross.alpha
  rw [trend_slope, trend_sumT]
  simp only [timed_length, sA_timed]
  congr 1; ring

theorem trend_alpha' (v : List Rat) : (trendOf v).alpha' = (crossOf (timed 0 v)).alpha := by
  unfold Trend.alpha' Cross.alpha
  rw [trend_beta', trend_sumT]
  simp only [timed_length, sA_timed]
  congr 1; ring

theorem trend_degenerate_iff (v : List Rat) : (trendOf v).degenerate ↔ undefinedReg (timed 0 v) := by
  rw [← degenerate_iff]
  unfold Trend.degenerate Cross.degenerate
  rw [trend_divisor]
  simp

theorem trend_degenerate'_iff (v : List Rat) :
    ((trendOf v).divisor' = 0 ∨ (trendOf v).n = 0) ↔ undefinedReg (timed 0 v) := by
  rw [← degenerate_iff]
  unfold Cross.degenerate
  rw [trend_divisor']
  simp

/-- generic emit lemma for the four closed-form trend statistics -/
theorem trendEmit_spec (f : Trend → Rat) (g : List (Rat × Rat) → Rat) (mp : Nat) (v : List Rat)
    (h : ¬ undefinedReg (timed 0 v) → f (trendOf v) = g (timed 0 v)) :
    trendEmit f mp (trendOf v) = trend g mp v := by
  unfold trendEmit trend
  by_cases hm : v.length ≥ mp
  · simp only [if_pos hm]
    by_cases hd : undefinedReg (timed 0 v)
    · rw [if_pos ((trend_degenerate_iff v).mpr hd), if_pos hd]
    · rw [if_neg (fun hh => hd ((trend_degenerate_iff v).mp hh)), if_neg hd, h hd]
  · simp only [if_neg hm]

theorem trend_slope_spec (mp : Nat) (v : List Rat) :
    trendEmit Trend.slope mp (trendOf v) = trendSlope mp v :=
  trendEmit_spec _ _ mp v fun hd => by rw [trend_slope, normal_eq_beta _ hd]

theorem trend_intercept_spec (mp : Nat) (v : List Rat) :
    trendEmit Trend.intercept mp (trendOf v) = trendIntercept mp v :=
  trendEmit_spec _ _ mp v fun hd => by rw [trend_intercept, normal_eq_alpha _ hd]

theorem trend_fitted_spec (mp : Nat) (v : List Rat) :
    trendEmit Trend.fitted mp (trendOf v) = trendFitted mp v :=
  trendEmit_spec _ _ mp v fun hd => by
    unfold Trend.fitted
    rw [trend_slope, trend_intercept, normal_eq_beta _ hd, normal_eq_alpha _ hd, timed_length]
    ring

theorem trend_forecast_spec (mp : Nat) (v : List Rat) :
    trendEmit Trend.forecast mp (trendOf v) = trendForecast mp v :=
  trendEmit_spec _ _ mp v fun hd => by
    unfold Trend.forecast
    rw [trend_slope, trend_intercept, normal_eq_beta _ hd, normal_eq_alpha _ hd, timed_length]
    push_cast; ring

/-- the expanded squared-residual sum of the repaired `ts_vreg_resid_mean` is `SSE / n` -/
theorem trend_msr_spec (mp : Nat) (v : List Rat) : emitMsr mp (trendOf v) = trendMsr mp v := by
  unfold emitMsr trendMsr trend
  by_cases hm : v.length ≥ mp
  · simp only [if_pos hm]
    by_cases hd : undefinedReg (timed 0 v)
    · rw [if_pos ((trend_degenerate'_iff v).mpr hd), if_pos hd]
    · rw [if_neg (fun hh => hd ((trend_degenerate'_iff v).mp hh)), if_neg hd]
      congr 1
      unfold Trend.msr Spec.sse residuals
      rw [sse_expand, trend_alpha', trend_beta', normal_eq_alpha _ hd, normal_eq_beta _ hd,
        trend_sumT, trend_sumTT]
      simp only [timed_length, sAB_timed, sA_timed, sAA_timed]
      congr 1; ring
  · simp only [if_neg hm]

end Tv.C04
