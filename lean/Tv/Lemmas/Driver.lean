import Tv.Model.Basic
/-! Index-level facts about the two driver shapes (no Mathlib). -/
namespace Tv

theorem filterMap_congr' {f g : α → Option β} {l : List α} (h : ∀ a ∈ l, f a = g a) :
    l.filterMap f = l.filterMap g := by
  induction l with
  | nil => rfl
  | cons a l ih =>
    simp only [List.filterMap_cons, h a (by simp)]
    rw [ih (fun b hb => h b (by simp [hb]))]

theorem range_split (len k : Nat) (h : k ≤ len) :
    List.range len = List.range k ++ (List.range (len - k)).map (· + k) := by
  have : len = k + (len - k) := by omega
  conv => lhs; rw [this]
  rw [List.range_add]
  congr 1
  apply List.map_congr_left
  intro a _; omega

theorem toIdx_eq (len w : Nat) (hw : 1 ≤ w) :
    toIdx len w = (List.range len).map (fun i => (startAt (min w len) i, i)) := by
  unfold toIdx
  simp only
  by_cases h0 : min w len = 0
  · have : len = 0 := by omega
    subst this; simp
  · simp only [h0, if_false]
    have hk : min w len - 1 ≤ len := by omega
    rw [range_split len (min w len - 1) hk, List.map_append, List.map_map]
    congr 1
    · apply List.map_congr_left
      intro i hi
      have : i < min w len - 1 := by simpa using hi
      simp [startAt]; omega
    · apply List.map_congr_left
      intro s _
      simp [startAt]; omega

theorem iterIdx_eq (len w : Nat) (hw : 1 ≤ w) :
    iterIdx len w = (List.range len).map (fun i => (startAt w i, i)) := by
  unfold iterIdx
  apply List.ext_getElem
  · simp
  · intro i h1 h2
    have hi : i < len := by simpa using h2
    simp only [List.getElem_zip, List.getElem_map, List.getElem_range]
    congr 1
    rw [List.getElem_append]
    unfold startAt
    by_cases hc : i < w - 1
    · simp [hc]; omega
    · simp [hc]; omega

theorem Shape.idx_eq (sh : Shape) (len w : Nat) (hw : 1 ≤ w) :
    sh.idx len w = (List.range len).map
      (fun i => (startAt (match sh with | .to => min w len | .iter => w) i, i)) := by
  cases sh
  · exact toIdx_eq len w hw
  · exact iterIdx_eq len w hw

/-- the two shapes agree except for the start reported at the final position when `w > len` -/
theorem startAt_clamp (len w i : Nat) (h : w ≤ len ∨ i + 1 < len) :
    startAt (min w len) i = startAt w i := by
  unfold startAt
  rcases h with h | h
  · rw [Nat.min_eq_left h]
  · by_cases hw : w ≤ len
    · rw [Nat.min_eq_left hw]
    · have : min w len = len := by omega
      rw [this]
      have h1 : ¬ (len - 1 ≤ i) := by omega
      have h2 : ¬ (w - 1 ≤ i) := by omega
      simp [h1, h2]

end Tv
