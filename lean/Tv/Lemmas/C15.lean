import Tv.Model.C15Cast
import Tv.Model.C15Ord
/-!
  C15 — definitions used to state the theorems (`Lawful`, canonical values, typing of the
  untyped carrier `Val`) and helper lemmas about the instances.
-/
namespace Tv.C15

/-- the algebraic laws of one `IsNone` instance on its canonical values `Canon` -/
structure Lawful (R : NullRepr α ι) (Canon : α → Prop) : Prop where
  /-- `is_none` agrees with `to_opt` -/
  isNone_iff_toOpt : ∀ x, R.isNone x = (R.toOpt x).isNone
  /-- `not_none` (often re-implemented) is the negation of `is_none` -/
  notNone_eq_not : ∀ x, R.notNone x = !R.isNone x
  /-- the borrowed option agrees with the owned one -/
  asOpt_eq_toOpt : ∀ x, R.asOpt x = R.toOpt x
  /-- the null constructor, where it exists, produces a null -/
  none_isNone : ∀ n, R.noneV = .ok n → R.isNone n = true
  /-- wrapping the unwrapped inner of a non-null value is the identity -/
  fromInner_unwrap : ∀ x, Canon x → R.isNone x = false → ∃ v, R.unwrap x = .ok v ∧ R.fromInner v = x
  /-- `from_opt ∘ to_opt` is the identity (for nulls too) -/
  fromOpt_toOpt : ∀ x, Canon x → R.fromOpt (R.toOpt x) = .ok x

/-- value classes of the base types inside the untyped carrier `Val` -/
def ValOf (b : Base) (v : Val) : Prop :=
  match b, v with
  | .u8, .int i => 0 ≤ i ∧ i ≤ 255
  | .u64, .int i => 0 ≤ i ∧ i ≤ 18446744073709551615
  | .usize, .int i => 0 ≤ i ∧ i ≤ 18446744073709551615
  | .i32, .int i => -2147483648 ≤ i ∧ i ≤ 2147483647
  | .i64, .int i => -9223372036854775808 ≤ i ∧ i ≤ 9223372036854775807
  | .isize, .int i => -9223372036854775808 ≤ i ∧ i ≤ 9223372036854775807
  | .f32, .flt _ => True
  | .f64, .flt _ => True
  | .bool, .bool _ => True
  | .str, .str _ => True
  | .sref, .str _ => True
  | .dt, .int i => -9223372036854775808 ≤ i ∧ i ≤ 9223372036854775807
  | .time, .int i => -9223372036854775808 ≤ i ∧ i ≤ 9223372036854775807
  | .td, .td m n => -2147483648 ≤ m ∧ m ≤ 2147483647 ∧ (m = -2147483648 → n = 0)
  | _, _ => False

/-- canonical values of `Option<T>`: never `Some(null)` (DESIGN 5.4) -/
def CanonOpt (R : NullRepr ι ι) (C : ι → Prop) : Option ι → Prop
  | none => True
  | some v => C v ∧ R.isNone v = false

/-- a well-typed canonical runtime value of type `t` -/
def Typed (t : Ty) : XV → Prop
  | .v a => t.opt = false ∧ ValOf t.base a
  | .o none => t.opt = true
  | .o (some a) => t.opt = true ∧ ValOf t.base a ∧ isNoneOf t.base a = false

/-- `is_none` of a runtime value of type `t` -/
def xvIsNone (t : Ty) : XV → Bool
  | .v a => isNoneOf t.base a
  | .o a => a.isNone

/-- can `t` represent a null? (`Option<_>`, floats, strings, time types) -/
def Ty.nullable (t : Ty) : Bool := t.opt || t.base.fltTy.isSome || t.base.isStr || t.base.isTime

/-- the value of type `d` holding the non-null inner `v` -/
def wrapXV (d : Ty) (v : Val) : XV := if d.opt then .o (some v) else .v v

/-- the null of type `d`: `None`, or `<D as IsNone>::none()` (a panic when `D` has no null) -/
def nullXV (d : Ty) : Res XV := if d.opt then .ok (.o none) else (noneOf d.base).map .v

/-- both names denote numeric base types of the model, and they differ -/
def isNumPair (p : String × String) : Bool :=
  match Base.ofName p.1, Base.ofName p.2 with
  | some s, some d => s.isNum && d.isNum && s != d
  | _, _ => false

theorem isNanV_eq (x : Val) : isNanV x = true ↔ x = .flt .nan := by
  cases x with
  | flt v => cases v <;> simp [isNanV]
  | _ => simp [isNanV]

theorem isNoneStr_eq (x : Val) : isNoneStr x = true ↔ x = .str "None" := by
  cases x <;> simp [isNoneStr]

/-! ### null-ness of `as` -/

theorem roundFlt_ne_nan (f : FltTy) (q : Rat) : roundFlt f q ≠ .nan := by
  unfold roundFlt fltOfMag
  split
  · simp
  · split <;> simp

theorem isNanV_asNum_flt (d : Base) (f : FltTy) (hf : d.fltTy = some f) (v : Val) :
    isNanV (asNum d v) = isNanV v := by
  have hi : d.intTy = none := by cases d <;> simp_all [Base.fltTy, Base.intTy]
  cases v with
  | int i =>
    simp only [asNum, hi, hf, isNanV]
    have := roundFlt_ne_nan f i
    cases h : roundFlt f i <;> simp_all
  | flt x =>
    simp only [asNum, hi, hf]
    cases x with
    | fin q =>
      have := roundFlt_ne_nan f q
      simp only [fltToFlt, isNanV]
      cases h : roundFlt f q <;> simp_all
    | nan => rfl
    | inf n => rfl
  | bool b => rfl
  | str s => rfl
  | td m n => rfl

theorem isNoneOf_int (d : Base) (h : d.intTy.isSome = true) (v : Val) : isNoneOf d v = false := by
  cases d <;> first | rfl | simp [Base.intTy] at h

theorem isNoneOf_bool (v : Val) : isNoneOf .bool v = false := rfl

theorem isNoneOf_flt (d : Base) (f : FltTy) (hf : d.fltTy = some f) (v : Val) : isNoneOf d v = isNanV v := by
  cases d <;> first | rfl | simp [Base.fltTy] at hf

/-- `none()` of any base, when it exists, is a null of that base -/
theorem noneOf_isNone (b : Base) (n : Val) (h : noneOf b = .ok n) : isNoneOf b n = true := by
  cases b <;> simp only [noneOf, reprOf, neverRepr, floatRepr, strRepr, timeRepr, tdRepr] at h <;>
    first
    | (cases h; rfl)
    | (exact absurd h (by simp))

/-- a typed non-float value is not NaN -/
theorem isNanV_of_int (b : Base) (h : b.intTy.isSome = true) (v : Val) (hv : ValOf b v) : isNanV v = false := by
  cases b <;> simp [Base.intTy] at h <;> cases v <;> simp_all [ValOf, isNanV]

/-! ### the four-arm scheme -/

/-- numeric or bool: the base types of the 18 x 18 cast lattice -/
def Base.inLattice (b : Base) : Bool := b.isNum || b == .bool

/-- the plain `S → D` conversion of the lattice: identity, `as`, through-i32 to bool, through-u8 from bool -/
def convL (sb db : Base) (a : Val) : Res Val :=
  if sb == db then .ok a
  else if db == .bool then toBool sb a
  else if sb == .bool then .ok (boolTo db a)
  else .ok (arm1 db a)

/-- the scheme every `(S, D)` of the lattice follows, given the plain conversion `conv` -/
def liftCast (conv : Val → Res Val) (s d : Ty) (x : XV) : Res XV :=
  match s.opt, d.opt, x with
  | false, false, .v a => (conv a).map .v
  | false, true, .v a => if isNoneOf s.base a then .ok (.o none) else (conv a).map fun w => .o (some w)
  | true, true, .o none => .ok (.o none)
  | true, true, .o (some v) => (conv v).map fun w => .o (some w)
  | true, false, .o none => nullXV d
  | true, false, .o (some v) => (conv v).map .v
  | _, _, _ => .panic

theorem inLattice_cases (b : Base) (h : b.inLattice = true) :
    (b.isNum = true ∧ (b == Base.bool) = false) ∨ (b = .bool) := by
  cases b <;> simp_all [Base.inLattice, Base.isNum, Base.intTy, Base.fltTy]

theorem isNum_not_special (b : Base) (h : b.isNum = true) :
    (b == Base.bool) = false ∧ b.isStr = false ∧ b.isTime = false ∧ (b == Base.str) = false := by
  cases b <;> simp_all [Base.isNum, Base.intTy, Base.fltTy, Base.isStr, Base.isTime]

theorem Res.map_map (r : Res α) (f : α → β) (g : β → γ) : (r.map f).map g = r.map (g ∘ f) := by
  cases r <;> rfl

/-! ### each impl family follows the four-arm scheme -/

theorem castSame_eq (sb : Base) (so dopt : Bool) (x : XV) :
    castSame sb so dopt x = liftCast (fun a => Res.ok a) ⟨sb, so⟩ ⟨sb, dopt⟩ x := by
  simp only [castSame, liftCast]
  cases so <;> cases dopt <;> rcases x with a | (_ | a) <;>
    simp [Res.map, blanketOpt, mainArm, nullXV]
  all_goals (split <;> rfl)

theorem castNumNum_eq (sb db : Base) (so dopt : Bool) (x : XV) :
    castNumNum sb db so dopt x = liftCast (fun a => Res.ok (arm1 db a)) ⟨sb, so⟩ ⟨db, dopt⟩ x := by
  simp only [castNumNum, liftCast]
  cases so <;> cases dopt <;> rcases x with a | (_ | a) <;>
    simp [Res.map, arm2, arm3, arm4, arm1, nullXV]
  all_goals (split <;> rfl)

theorem castNumBool_eq (sb : Base) (so dopt : Bool) (x : XV) :
    castNumBool sb so dopt x = liftCast (toBool sb) ⟨sb, so⟩ ⟨.bool, dopt⟩ x := by
  simp only [castNumBool, liftCast]
  cases so <;> cases dopt <;> rcases x with a | (_ | a) <;>
    simp [Res.map, toOptBool, optToOptBool, optToBool, nullXV, noneOf, reprOf, neverRepr]
  · by_cases h : isNoneOf sb a = true
    · simp [h]
    · simp only [h]; cases toBool sb a <;> rfl
  · cases toBool sb a <;> rfl

theorem castBoolNum_eq (db : Base) (so dopt : Bool) (x : XV) :
    castBoolNum db so dopt x = liftCast (fun a => Res.ok (boolTo db a)) ⟨.bool, so⟩ ⟨db, dopt⟩ x := by
  simp only [castBoolNum, liftCast]
  cases so <;> cases dopt <;> rcases x with a | (_ | a) <;>
    simp [Res.map, optBoolTo, nullXV, isNoneOf_bool]

theorem castBoolBool_eq (so dopt : Bool) (x : XV) :
    castBoolBool so dopt x = liftCast (fun a => Res.ok a) ⟨.bool, so⟩ ⟨.bool, dopt⟩ x := by
  simp only [castBoolBool, liftCast]
  cases so <;> cases dopt <;> rcases x with a | (_ | a) <;>
    simp [Res.map, blanketOpt, nullXV, noneOf, reprOf, neverRepr, isNoneOf_bool]

theorem convL_same (sb : Base) : convL sb sb = fun a => Res.ok a := by
  funext a; simp [convL]

theorem convL_num (sb db : Base) (h1 : (sb == db) = false) (h2 : (db == Base.bool) = false)
    (h3 : (sb == Base.bool) = false) : convL sb db = fun a => Res.ok (arm1 db a) := by
  funext a; simp [convL, h1, h2, h3]

theorem convL_toBool (sb : Base) (h : (sb == Base.bool) = false) : convL sb .bool = toBool sb := by
  funext a; simp [convL, h]

theorem convL_fromBool (db : Base) (h : (Base.bool == db) = false) (h2 : (db == Base.bool) = false) :
    convL .bool db = fun a => Res.ok (boolTo db a) := by
  funext a; simp [convL, h, h2]

/-- the non-null inner value of a runtime value, if any (`to_opt`) -/
def innerOf (s : Ty) : XV → Option Val
  | .v a => if isNoneOf s.base a then none else some a
  | .o a => a

/-- `T → Option<T>` on runtime values -/
def toOptXV : XV → XV
  | .v a => .o (some a)
  | .o a => .o a

theorem isNoneOf_eq_isNanV (sb : Base) (hs : sb.isNum = true) (a : Val) (ha : ValOf sb a) :
    isNoneOf sb a = isNanV a := by
  cases sb <;> simp [Base.isNum, Base.intTy, Base.fltTy] at hs <;>
    first
    | rfl
    | (cases a <;> simp_all [ValOf, isNanV] <;> rfl)

theorem asNum_int_not_nan (db : Base) (i : Int) : isNanV (asNum db (.int i)) = false := by
  cases hf : db.fltTy with
  | some f => rw [isNanV_asNum_flt db f hf]; rfl
  | none =>
    cases hi : db.intTy with
    | none => simp [asNum, hi, hf, isNanV]
    | some t => simp [asNum, hi, isNanV]

theorem boolTo_not_nan (db : Base) (a : Val) : isNanV (boolTo db a) = false := by
  have h : ∀ u : Int, isNanV (if (db == Base.u8) = true then Val.int u else asNum db (.int u)) = false := by
    intro u
    split
    · rfl
    · exact asNum_int_not_nan db u
  unfold boolTo
  split <;> exact h _

/-- the plain conversion into a float target keeps null-ness -/
theorem convL_null (sb db : Base) (hs : sb.inLattice = true) (f : FltTy) (hf : db.fltTy = some f)
    (a w : Val) (ha : ValOf sb a) (h : convL sb db a = .ok w) : isNoneOf db w = isNoneOf sb a := by
  have hdb : (db == Base.bool) = false := by cases db <;> simp_all [Base.fltTy]
  unfold convL at h
  by_cases e : (sb == db) = true
  · simp only [e, if_true] at h
    cases h; rw [eq_of_beq e]
  · simp only [e, hdb, Bool.false_eq_true, if_false] at h
    rcases inLattice_cases sb hs with ⟨hsn, hsb⟩ | rfl
    · simp only [hsb, Bool.false_eq_true, if_false] at h
      cases h
      rw [isNoneOf_flt db f hf, arm1, isNanV_asNum_flt db f hf, isNoneOf_eq_isNanV sb hsn a ha]
    · simp only [beq_self_eq_true, if_true] at h
      cases h
      rw [isNoneOf_flt db f hf, boolTo_not_nan]; rfl

/-- the three shapes of a typed value -/
theorem Typed.shape {sb : Base} {so : Bool} {x : XV} (hx : Typed ⟨sb, so⟩ x) :
    (∃ a, so = false ∧ x = .v a ∧ ValOf sb a) ∨ (so = true ∧ x = .o none) ∨
    (∃ a, so = true ∧ x = .o (some a) ∧ ValOf sb a ∧ isNoneOf sb a = false) := by
  rcases x with a | (_ | a)
  · exact Or.inl ⟨a, hx.1, rfl, hx.2⟩
  · exact Or.inr (Or.inl ⟨hx, rfl⟩)
  · exact Or.inr (Or.inr ⟨a, hx.1, rfl, hx.2.1, hx.2.2⟩)

theorem Res.map_eq_ok {r : Res α} {f : α → β} {y : β} (h : r.map f = .ok y) : ∃ w, r = .ok w ∧ y = f w := by
  cases r with
  | ok w => exact ⟨w, rfl, by simpa [Res.map] using h.symm⟩
  | panic => simp [Res.map] at h

/-- a type with the `impl_not_none!` instance is modelled by `neverRepr` -/
theorem notNoneImpl_repr (b : Base) (h : b.notNoneImpl = true) : reprOf b = neverRepr := by
  cases b <;> first | rfl | (simp [Base.notNoneImpl, Base.intTy] at h)

/-- inside the lattice a non-`Option` target is nullable exactly when it is a float -/
theorem lattice_nullable_plain (d : Ty) (hd : d.base.inLattice = true) (ho : d.opt = false)
    (hn : d.nullable = true) : ∃ f, d.base.fltTy = some f := by
  obtain ⟨db, dopt⟩ := d
  simp only at hd ho; subst ho
  cases db <;> simp_all [Ty.nullable, Base.inLattice, Base.isNum, Base.intTy, Base.fltTy, Base.isStr, Base.isTime]


theorem Lawful.mono {R : NullRepr α ι} {C C' : α → Prop} (h : Lawful R C) (hc : ∀ x, C' x → C x) :
    Lawful R C' where
  isNone_iff_toOpt := h.isNone_iff_toOpt
  notNone_eq_not := h.notNone_eq_not
  asOpt_eq_toOpt := h.asOpt_eq_toOpt
  none_isNone := h.none_isNone
  fromInner_unwrap x hx := h.fromInner_unwrap x (hc x hx)
  fromOpt_toOpt x hx := h.fromOpt_toOpt x (hc x hx)


end Tv.C15
