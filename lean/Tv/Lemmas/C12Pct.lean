import Tv.Lemmas.C12Order
import Mathlib.Tactic.FieldSimp
import Mathlib.Tactic.Ring
/-!
C12 helper lemmas, part 3: the counting loop of `vpercentile_of`.
-/
namespace Tv.C12
open Tv

theorem valid_cons_some (v : Rat) (xs : List Elem) : valid (some v :: xs) = v :: valid xs := by
  simp [valid]

theorem valid_cons_none (xs : List Elem) : valid (none :: xs) = valid xs := by
  simp [valid]

/-- the three counters after the loop -/
theorem pct_fold (s : Rat) (xs : List Elem) (a b c : Nat) :
    xs.foldl (pctStep s) (a, b, c) =
      (a + Spec.cntLt xs s, b + Spec.cntEq xs s, c + (valid xs).length) := by
  induction xs generalizing a b c with
  | nil => simp [Spec.cntLt, Spec.cntEq, valid]
  | cons x xs ih =>
    cases x with
    | none =>
      simp only [List.foldl_cons, pctStep, Spec.cntLt, Spec.cntEq, valid_cons_none]
      simpa [Spec.cntLt, Spec.cntEq] using ih a b c
    | some v =>
      simp only [List.foldl_cons, pctStep, Spec.cntLt, Spec.cntEq, valid_cons_some, List.countP_cons,
        List.length_cons]
      by_cases h1 : v < s
      · have h2 : v ≠ s := ne_of_lt h1
        simp only [h1, if_true, decide_true, h2, decide_false]
        rw [ih]; simp [Spec.cntLt, Spec.cntEq]; omega
      · by_cases h2 : v = s
        · simp only [h1, if_false, h2, if_true, decide_true, decide_false]
          rw [ih]; simp [Spec.cntLt, Spec.cntEq, lt_irrefl]; omega
        · simp only [h1, if_false, h2, decide_false]
          rw [ih]; simp [Spec.cntLt, Spec.cntEq]; omega

/-- `#≤ = #< + #=` -/
theorem cntLe_eq (xs : List Elem) (s : Rat) : Spec.cntLe xs s = Spec.cntLt xs s + Spec.cntEq xs s := by
  unfold Spec.cntLe Spec.cntLt Spec.cntEq
  induction valid xs with
  | nil => simp
  | cons v l ih =>
    simp only [List.countP_cons, ih]
    rcases lt_trichotomy v s with h | h | h
    · simp [h, h.le, ne_of_lt h]; omega
    · subst h; simp
      omega
    · simp [not_le.mpr h, not_lt.mpr h.le, ne_of_gt h]

theorem vpercentileOf_rank (xs : List Elem) (s : Rat) :
    vpercentileOf xs (some s) .rank = Spec.percentileOf xs (some s) .rank := by
  simp only [vpercentileOf, Spec.percentileOf, pct_fold, Nat.zero_add]
  by_cases hn : (valid xs).length = 0
  · simp [hn]
  · simp only [hn, if_false, cntLe_eq]
    have hn' : ((valid xs).length : Rat) ≠ 0 := by exact_mod_cast hn
    generalize Spec.cntLt xs s = lt
    generalize Spec.cntEq xs s = eq
    by_cases h1 : eq > 1
    · have hgt : lt + eq > lt := by omega
      simp only [h1, if_true, hgt, Out.div, hn', if_false]
      congr 1
      have : ((lt + 1 + (lt + 1 + (eq - 1)) : Nat) : Rat) = (lt : Rat) + (lt + eq : Nat) + 1 := by
        have : lt + 1 + (lt + 1 + (eq - 1)) = lt + (lt + eq) + 1 := by omega
        rw [this]; push_cast; ring
      rw [this]
      push_cast
      field_simp
    · simp only [h1, if_false, Out.div, hn']
      congr 1
      rcases Nat.eq_zero_or_pos eq with h0 | h0
      · subst h0
        simp
        field_simp
        ring
      · have : eq = 1 := by omega
        subst this
        simp
        field_simp
        ring

theorem vpercentileOf_weak (xs : List Elem) (s : Rat) :
    vpercentileOf xs (some s) .weak = Spec.percentileOf xs (some s) .weak := by
  simp only [vpercentileOf, Spec.percentileOf, pct_fold, Nat.zero_add]
  by_cases hn : (valid xs).length = 0
  · simp [hn]
  · have hn' : ((valid xs).length : Rat) ≠ 0 := by exact_mod_cast hn
    simp [hn, cntLe_eq, Out.div, hn']

theorem vpercentileOf_strict (xs : List Elem) (s : Rat) :
    vpercentileOf xs (some s) .strict = Spec.percentileOf xs (some s) .strict := by
  simp only [vpercentileOf, Spec.percentileOf, pct_fold, Nat.zero_add]
  by_cases hn : (valid xs).length = 0
  · simp [hn]
  · have hn' : ((valid xs).length : Rat) ≠ 0 := by exact_mod_cast hn
    simp [hn, Out.div, hn']

end Tv.C12
