import Tv.Lemmas.C03CmpMain
import Tv.Lemmas.C03Rank
import Tv.Lemmas.C03Norm
import Tv.Lemmas.C03Zscore
import Tv.Generated
/-!
# C03 — rolling extrema, arg-extrema, rank and normalisation are exact per window

Property theorems only (helper lemmas live in `Tv/Lemmas/C03*.lean`). The models
(`Tv/Model/C03Cmp.lean`, `Tv/Model/C03Norm.lean`) transcribe the closures of
tea-rolling/src/cmp.rs and norm.rs; the right-hand sides are the from-scratch definitions of
`Tv/Spec/C03Order.lean` evaluated on `window xs i w` (positions `max(0,i-w+1) ..= i`).

All `*_exact` statements hold for every series (any values, any null pattern, any length),
every window `w ≥ 1` (also `w > len`), every `min_periods` (omitted or explicit, also `> w`),
at every position, for both driver shapes (`Shape.to`: two-phase loop of Vec / slice /
ndarray and of every caller-buffer path, `Shape.iter`: default iterator body of VecDeque /
Polars). Equality is equality of exact rationals: there is no tolerance anywhere.

The model of `ts_vargmin` / `ts_vargmax` is the model of the *repaired* code (commit
`fix: ts_vargmin/ts_vargmax return null for an all-null window`); `vargmin_pinned_wrong` /
`vargmax_pinned_wrong` exhibit the pinned behaviour (finding F24).
-/
namespace Tv.C03
open Tv

/-! ## the seven entry points -/

/-- **rolling minimum** = least non-null element of the window (null when there is none or
fewer than `min_periods` non-null elements) -/
theorem vmin_exact (sh : Shape) (xs : List (Option Rat)) (w : Nat) (mp : Option Nat) (hw : 1 ≤ w) :
    tsVmin sh xs w mp =
      (List.range xs.length).map fun i => Spec.tsMin (cmpMp mp w xs.length) (window xs i w) :=
  tsCmp_exact leNL_ok extFn_least .val (Or.inl rfl) sh xs w mp hw

/-- **rolling maximum** = greatest non-null element of the window -/
theorem vmax_exact (sh : Shape) (xs : List (Option Rat)) (w : Nat) (mp : Option Nat) (hw : 1 ≤ w) :
    tsVmax sh xs w mp =
      (List.range xs.length).map fun i => Spec.tsMax (cmpMp mp w xs.length) (window xs i w) :=
  tsCmp_exact geNL_ok extFn_greatest .val (Or.inl rfl) sh xs w mp hw

/-- **rolling arg-min** = 1-based offset from the window start of the most recent position
holding the minimum; null for an all-null window -/
theorem vargmin_exact (sh : Shape) (xs : List (Option Rat)) (w : Nat) (mp : Option Nat) (hw : 1 ≤ w) :
    tsVargmin sh xs w mp =
      (List.range xs.length).map fun i => Spec.tsArgmin (cmpMp mp w xs.length) (window xs i w) :=
  tsCmp_exact leNL_ok extFn_least .arg (Or.inr rfl) sh xs w mp hw

/-- **rolling arg-max** = 1-based offset of the most recent position holding the maximum -/
theorem vargmax_exact (sh : Shape) (xs : List (Option Rat)) (w : Nat) (mp : Option Nat) (hw : 1 ≤ w) :
    tsVargmax sh xs w mp =
      (List.range xs.length).map fun i => Spec.tsArgmax (cmpMp mp w xs.length) (window xs i w) :=
  tsCmp_exact geNL_ok extFn_greatest .arg (Or.inr rfl) sh xs w mp hw

/-- **rolling rank** = average rank of the current element among the non-null elements of its
window, ascending or descending (`rev`), optionally divided by their number (`pct`); null when
the current element is null -/
theorem vrank_exact (sh : Shape) (xs : List (Option Rat)) (w : Nat) (mp : Option Nat)
    (pct rev : Bool) (hw : 1 ≤ w) :
    tsVrank sh xs w mp pct rev =
      (List.range xs.length).map fun i =>
        Spec.tsRank (cmpMp mp w xs.length) pct rev (window xs i w) :=
  tsVrank_exact sh xs w mp pct rev hw

/-- **min-max normalisation** = `(x - min) / (max - min)` over the non-null window; null when
`x` is null, below `min_periods`, or `max = min` -/
theorem vminmaxnorm_exact (sh : Shape) (xs : List (Option Rat)) (w : Nat) (mp : Option Nat)
    (hw : 1 ≤ w) :
    tsVminmaxnorm sh xs w mp =
      (List.range xs.length).map fun i => Spec.tsMinmaxnorm (normMp mp w) (window xs i w) :=
  tsVminmaxnorm_exact sh xs w mp hw

/-- **z-score** = `(x - mean) / sample-std` over the non-null window (as `sign · sqrt` of an
exact quotient); null when `x` is null, below `min_periods`, or the spread is zero -/
theorem vzscore_exact (sh : Shape) (xs : List (Option Rat)) (w : Nat) (mp : Option Nat)
    (hw : 1 ≤ w) :
    tsVzscore sh xs w mp =
      (List.range xs.length).map fun i => Spec.tsZscore (normMp mp w) (window xs i w) :=
  tsVzscore_exact sh xs w mp hw

/-! ## what the from-scratch definitions mean (so that the right-hand sides above say what
the property says) -/

/-- `Spec.least` is *the* least element: a member that is `≤` every member -/
theorem least_is_min (vs : List Rat) (m : Rat) :
    Spec.least vs = some m ↔ (m ∈ vs ∧ ∀ a ∈ vs, m ≤ a) := by
  constructor
  · intro h; have := least_spec vs; rw [h] at this; exact this
  · intro ⟨h1, h2⟩; exact least_char vs m h1 h2

/-- `Spec.greatest` is *the* greatest element -/
theorem greatest_is_max (vs : List Rat) (m : Rat) :
    Spec.greatest vs = some m ↔ (m ∈ vs ∧ ∀ a ∈ vs, a ≤ m) := by
  constructor
  · intro h; have := greatest_spec vs; rw [h] at this; exact this
  · intro ⟨h1, h2⟩; exact greatest_char vs m h1 h2

/-- no extreme exactly for a window without non-null elements -/
theorem least_none_iff (vs : List Rat) : Spec.least vs = none ↔ vs = [] := by
  constructor
  · intro h; have := least_spec vs; rw [h] at this; exact this
  · intro h; subst h; rfl

/-- **rolling minimum ≤ rolling maximum, null together**: at every position the two outputs are
either both null or both values `a ≤ b` -/
theorem vmin_le_vmax (sh : Shape) (xs : List (Option Rat)) (w : Nat) (mp : Option Nat) (hw : 1 ≤ w)
    (i : Nat) (hi : i < xs.length) :
    ((tsVmin sh xs w mp)[i]? = some .null ∧ (tsVmax sh xs w mp)[i]? = some .null) ∨
    ∃ a b, (tsVmin sh xs w mp)[i]? = some (.val a) ∧ (tsVmax sh xs w mp)[i]? = some (.val b) ∧
      a ≤ b := by
  rw [vmin_exact sh xs w mp hw, vmax_exact sh xs w mp hw]
  simp only [List.getElem?_map, List.getElem?_range hi, Option.map_some]
  unfold Spec.tsMin Spec.tsMax Spec.masked
  split
  · cases hl : Spec.least (Spec.vals (window xs i w)) with
    | none =>
      have he := (least_none_iff _).1 hl
      left
      simp [he, Spec.ofOpt, Spec.greatest]
    | some a =>
      have ha := (least_is_min _ a).1 hl
      cases hg : Spec.greatest (Spec.vals (window xs i w)) with
      | none =>
        exfalso
        have : Spec.vals (window xs i w) ≠ [] := List.ne_nil_of_mem ha.1
        have hs := greatest_spec (Spec.vals (window xs i w))
        rw [hg] at hs
        exact this hs
      | some b =>
        have hb := (greatest_is_max _ b).1 hg
        right
        exact ⟨a, b, by simp [Spec.ofOpt], by simp [Spec.ofOpt], ha.2 b hb.1⟩
  · left; simp

/-- `Spec.lastPos m l` is the 1-based offset of the most recent position holding `m` (ties
resolve to the newest element) -/
theorem lastPos_is_most_recent (m : Rat) (L : List (Option Rat)) (p : Nat) (hp : p < L.length)
    (hat : L[p]? = some (some m))
    (hlast : ∀ q, p < q → q < L.length → L[q]? ≠ some (some m)) :
    Spec.lastPos m L = some (p + 1) :=
  lastPos_char m L p hp hat hlast

/-- ascending and descending average ranks are mirror images: they add up to `n + 1` -/
theorem avgRank_asc_add_desc (v : Rat) (vs : List Rat) :
    Spec.avgRank false v vs + Spec.avgRank true v vs = (vs.length : Rat) + 1 := by
  have h := count_trichotomy v vs
  have hq : (vs.length : Rat) = (vs.countP (fun a => decide (a < v)) : Rat)
      + (vs.countP (fun a => decide (a = v)) : Rat) + (vs.countP (fun a => decide (v < a)) : Rat) := by
    rw [← h]; push_cast; ring
  unfold Spec.avgRank
  simp only [Bool.false_eq_true, if_false, if_true]
  rw [hq]; ring

/-! ## the cached-extreme invariant -/

/-- the invariant carried by `(min, min_idx)` determines the pair: it is the minimum of the
window in the null-last order together with the *last* position attaining it -/
theorem cached_min_unique (g : Nat → Option Rat) (lo hi : Nat) (s t : ExtSt)
    (hs : IsExtLast leNL g lo hi s) (ht : IsExtLast leNL g lo hi t) : s = t :=
  isExtLast_unique leNL_ok leNL_antisymm g lo hi s t hs ht

theorem cached_max_unique (g : Nat → Option Rat) (lo hi : Nat) (s t : ExtSt)
    (hs : IsExtLast geNL g lo hi s) (ht : IsExtLast geNL g lo hi t) : s = t :=
  isExtLast_unique geNL_ok geNL_antisymm g lo hi s t hs ht

/-- ... and it means what it should: the cached value is the least non-null element of the
window (`none` exactly when the window is all-null) and the cached index is the most recent
position holding it -/
theorem cached_min_is_least (g : Nat → Option Rat) (lo hi : Nat) (m : ExtSt)
    (h : IsExtLast leNL g lo hi m) :
    Spec.least (Spec.vals (winL g lo hi)) = m.1 ∧
    ∀ v k, m.1 = some v → m.2 = some k → Spec.lastPos v (winL g lo hi) = some (k - lo + 1) :=
  ⟨extFn_least g lo hi m h, fun v k hv hk => lastPos_of_isExtLast leNL_ok g lo hi m v k h hv hk⟩

theorem cached_max_is_greatest (g : Nat → Option Rat) (lo hi : Nat) (m : ExtSt)
    (h : IsExtLast geNL g lo hi m) :
    Spec.greatest (Spec.vals (winL g lo hi)) = m.1 ∧
    ∀ v k, m.1 = some v → m.2 = some k → Spec.lastPos v (winL g lo hi) = some (k - lo + 1) :=
  ⟨extFn_greatest g lo hi m h, fun v k hv hk => lastPos_of_isExtLast geNL_ok g lo hi m v k h hv hk⟩

/-- after every call the cached pair of `ts_vmin` / `ts_vargmin` satisfies the invariant for
the current window `lo W i ..= i` and the valid count is the number of non-null elements that
remain for the next window (state-level statement behind `vmin_exact`) -/
theorem cached_min_invariant (pj : Proj) (hp : pj = .val ∨ pj = .arg) (g : Nat → Option Rat)
    (W : Nat) (hW : 1 ≤ W) (mp i : Nat) (st : CmpSt) (h : CmpInv leNL g W i st) :
    CmpInv leNL g W (i+1) (cmpStep leNL pj g mp st (startAt W i, i, g i)).1 :=
  (cmpStep_inv leNL_ok extFn_least pj hp g W hW mp i st h).1

/-- the rescan branch (expired extreme) re-establishes the invariant from any state -/
theorem rescan_reestablishes (g : Nat → Option Rat) (st : ExtSt) (s e : Nat) (h : s ≤ e) :
    IsExtLast leNL g s e (rescan leNL g st s e) :=
  rescan_spec leNL_ok g st s e h

/-- `ts_vrank` evaluates `start.unwrap()` only when `start` is `Some` -/
theorem vrank_unwrap_safe (sh : Shape) (xs : List (Option Rat)) (w : Nat) (hw : 1 ≤ w) :
    ∀ c ∈ idxCalls sh xs (min xs.length w), c.2.1 ≥ min xs.length w - 1 → c.1.isSome = true := by
  intro c hc hge
  by_cases hx : xs = []
  · subst hx; rw [idxCalls_nil] at hc; cases hc
  · have hlen : 1 ≤ xs.length := by
      cases xs with
      | nil => exact absurd rfl hx
      | cons _ _ => simp
    have hW : 1 ≤ min xs.length w := by omega
    rw [idxCalls_eq_map sh xs _ hW, effW_min] at hc
    obtain ⟨i, _, rfl⟩ := List.mem_map.mp hc
    simp only [startAt] at hge ⊢
    simp only [ge_iff_le] at hge
    simp [hge]

/-! ## finding F24: the pinned arg functions on an all-null window -/

/-- pinned `ts_vargmin`, `min_periods = 0`, window `[null, null]`: returns offset 2 where
the specification (no minimum exists) is null -/
theorem vargmin_pinned_wrong :
    tsVargminPinned .to [some 1, none, none] 2 (some 0) = [.val 1, .val 1, .val 2] ∧
    ((List.range 3).map fun i => Spec.tsArgmin (cmpMp (some 0) 2 3) (window [some 1, none, none] i 2))
      = [.val 1, .val 1, .null] ∧
    tsVargmin .to [some 1, none, none] 2 (some 0) = [.val 1, .val 1, .null] := by
  decide +kernel

theorem vargmax_pinned_wrong :
    tsVargmaxPinned .iter [none] 1 (some 0) = [.val 1] ∧
    ((List.range 1).map fun i => Spec.tsArgmax (cmpMp (some 0) 1 1) (window [none] i 1)) = [.null] ∧
    tsVargmax .iter [none] 1 (some 0) = [.null] := by
  decide +kernel

/-! ## ties to the source (regenerated by the translator on every run) -/

/-- the mask expressions, window clamp and driver of the seven entry points, as extracted from
cmp.rs / norm.rs, are the ones the model is built from: the cmp family clamps `window` to
`len` first and never clamps `min_periods` (`cmpMp`), the norm family clamps `min_periods` to
the requested window (`normMp`); zscore uses `rolling_apply`, the others `rolling_apply_idx` -/
theorem maskTable_matches :
    Generated.maskTable.filter (fun r => r.1 ∈ ["ts_vmin", "ts_vmax", "ts_vargmin", "ts_vargmax",
      "ts_vrank", "ts_vminmaxnorm", "ts_vzscore"]) =
    [("ts_vargmax", false, true, 0, "rolling_apply_idx", "std"),
     ("ts_vargmin", false, true, 0, "rolling_apply_idx", "std"),
     ("ts_vmax", false, true, 0, "rolling_apply_idx", "std"),
     ("ts_vmin", false, true, 0, "rolling_apply_idx", "std"),
     ("ts_vminmaxnorm", true, false, 0, "rolling_apply_idx", "std"),
     ("ts_vrank", false, true, 0, "rolling_apply_idx", "std"),
     ("ts_vzscore", true, false, 0, "rolling_apply", "std")] := by
  decide

/-- `EPS` of the z-score spread test is the constant of tea-core/src/prelude.rs -/
theorem eps_matches : EPS = (Generated.epsNum : Rat) / (Generated.epsDen : Rat) ∧ Spec.EPS = EPS := by
  decide +kernel

/-! ## non-vacuity: concrete series with nulls, ties, an expiring extreme, an all-null window,
`w > len`, both shapes -/

example : tsVmin .to [some 3, some 1, none, some 1, none, none, none, some 2] 3 (some 1) =
    [.val 3, .val 1, .val 1, .val 1, .val 1, .val 1, .null, .val 2] := by decide +kernel
example : tsVmax .iter [some 3, some 1, none, some 1, none, none, none, some 2] 3 none =
    [.val 3, .val 3, .val 3, .val 1, .val 1, .val 1, .null, .val 2] := by decide +kernel
example : tsVargmin .to [some 3, some 1, none, some 1, none, none, none, some 2] 3 (some 0) =
    [.val 1, .val 2, .val 2, .val 3, .val 2, .val 1, .null, .val 3] := by decide +kernel
example : tsVargmax .to [some 2, some 2, some 1, some 2, some 0] 9 (some 1) =
    [.val 1, .val 2, .val 2, .val 4, .val 4] := by decide +kernel
example : tsVrank .to [some 3, some 1, none, some 1, some 2] 3 none false false =
    [.val 1, .val 1, .null, .val (3/2), .val 2] := by decide +kernel
example : tsVrank .iter [some 3, some 1, none, some 1, some 2] 3 (some 1) true true =
    [.val 1, .val 1, .null, .val (3/4), .val (1/2)] := by decide +kernel
example : tsVminmaxnorm .to [some 3, some 1, none, some 1, some 2, some (3/2)] 3 none =
    [.null, .val 0, .null, .null, .val 1, .val (1/2)] := by decide +kernel
example : tsVzscore .iter [some 3, some 1, none, some 1, some 2] 3 none =
    [.null, .root (-1) (1/2), .null, .null, .root 1 (1/2)] := by decide +kernel
example : IsExtLast leNL (get [some 3, some 1, none, some 1]) 1 3 (some 1, some 3) :=
  rescan_spec leNL_ok _ (none, none) 1 3 (by decide)

end Tv.C03
