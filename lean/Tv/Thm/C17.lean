import Tv.Lemmas.C17
import Tv.Lemmas.C16Cal
import Mathlib.Tactic.SplitIfs
import Tv.Generated
/-!
  C17 — date-time, duration and time-of-day arithmetic obeys its inverse laws.

  All statements are about the executable model `Tv.Model.C17` (tied to the Rust code by the
  correspondence run); `DtOk u t` says that instant `t` is representable (inside chrono's
  range, and a non-NaT `i64` at nanosecond precision).
-/
namespace Tv.C17

/-! ### date-time ± month-free duration -/

/-- `x + d` for a month-free duration is the floor, at the unit, of the exact instant. -/
theorem dtAdd_fixed (u : TUnit) (x n : Int)
    (h0 : DtOk u (x * u.mult)) (h1 : DtOk u (x * u.mult + n)) :
    dtAdd u x ⟨0, n⟩ = .ok ((x * u.mult + n) / u.mult) := by
  have hx := ne_nat_of_DtOk h0
  simp only [dtAdd, hx, ne_eq, not_false_eq_true, td0_not_nat, Bool.not_false, and_self, if_true,
    asCr_of_DtOk h0, addMonthsCr_zero, Res.bind_ok, addDurCr, h1.1, fromCr_floor h1]

/-- `x - d` for a month-free duration. -/
theorem dtSub_fixed (u : TUnit) (x n : Int)
    (h0 : DtOk u (x * u.mult)) (h1 : DtOk u (x * u.mult - n)) :
    dtSub u x ⟨0, n⟩ = .ok ((x * u.mult - n) / u.mult) := by
  have hx := ne_nat_of_DtOk h0
  have e : x * u.mult + -n = x * u.mult - n := by omega
  simp only [dtSub, hx, ne_eq, not_false_eq_true, td0_not_nat, Bool.not_false, and_self, if_true,
    asCr_of_DtOk h0, Int.neg_zero, addMonthsCr_zero, Res.bind_ok, addDurCr, e, h1.1, fromCr_floor h1]

/-- **Inverse law.** Adding a month-free duration that is a whole number of units and
subtracting it again returns the original value. -/
theorem add_sub_cancel (u : TUnit) (x n : Int) (hdiv : u.mult ∣ n)
    (h0 : DtOk u (x * u.mult)) (h1 : DtOk u (x * u.mult + n)) :
    (dtAdd u x ⟨0, n⟩).bind (fun y => dtSub u y ⟨0, n⟩) = .ok x := by
  obtain ⟨k, rfl⟩ := hdiv
  have hm := TUnit.mult_pos u
  have e1 : (x * u.mult + u.mult * k) / u.mult = x + k := by
    rw [Int.add_mul_ediv_left _ _ (Int.ne_of_gt hm), Int.mul_ediv_cancel _ (Int.ne_of_gt hm)]
  have e2 : (x + k) * u.mult = x * u.mult + u.mult * k := by
    rw [Int.add_mul, Int.mul_comm k]
  have e3 : (x + k) * u.mult - u.mult * k = x * u.mult := by omega
  rw [dtAdd_fixed u x _ h0 h1, e1, Res.bind_ok,
    dtSub_fixed u (x + k) _ (by rw [e2]; exact h1) (by rw [e3]; exact h0), e3,
    Int.mul_ediv_cancel _ (Int.ne_of_gt hm)]

/-- **Sharpness (finding F23).** On a coarse unit, a month-free duration that is *not* a whole
number of units does not cancel: the round trip loses exactly one unit. -/
theorem add_sub_coarse (u : TUnit) (x n : Int) (hdiv : ¬ u.mult ∣ n)
    (h0 : DtOk u (x * u.mult)) (h0' : DtOk u (x * u.mult - u.mult))
    (h1 : DtOk u (x * u.mult + n)) (h1' : DtOk u (x * u.mult + n - u.mult)) :
    (dtAdd u x ⟨0, n⟩).bind (fun y => dtSub u y ⟨0, n⟩) = .ok (x - 1) := by
  rw [dtAdd_fixed u x _ h0 h1, Res.bind_ok]
  have hne : n % u.mult ≠ 0 := fun h => hdiv (Int.dvd_of_emod_eq_zero h)
  cases u
  case ns => exact absurd (Int.one_dvd n) hdiv
  all_goals
    simp only [TUnit.mult] at *
    obtain ⟨a0, _⟩ := h0
    obtain ⟨a0', _⟩ := h0'
    obtain ⟨a1, _⟩ := h1
    obtain ⟨a1', _⟩ := h1'
    rw [inCr_iff] at a0 a0' a1 a1'
    rw [dtSub_fixed] <;> simp only [TUnit.mult]
    · congr 1; omega
    · exact ⟨by rw [inCr_iff]; omega, by intro h; cases h⟩
    · exact ⟨by rw [inCr_iff]; omega, by intro h; cases h⟩

/-- **Difference law.** The difference of two date-times added to the subtrahend gives the
minuend, at every unit. -/
theorem diff_add (u : TUnit) (a b : Int)
    (ha : DtOk u (a * u.mult)) (hb : DtOk u (b * u.mult)) :
    (dtDiff u a b).bind (fun d => dtAdd u b d) = .ok a := by
  have hane := ne_nat_of_DtOk ha
  have hbne := ne_nat_of_DtOk hb
  have e : b * u.mult + (a * u.mult - b * u.mult) = a * u.mult := by omega
  have hm := TUnit.mult_pos u
  simp only [dtDiff, hane, hbne, ne_eq, not_false_eq_true, and_self, if_true, asCr_of_DtOk ha,
    asCr_of_DtOk hb, Res.bind_ok]
  rw [dtAdd_fixed u b _ hb (by rw [e]; exact ha), e, Int.mul_ediv_cancel _ (Int.ne_of_gt hm)]

/-- The difference of two date-times is the month-free duration between their instants. -/
theorem dtDiff_val (u : TUnit) (a b : Int)
    (ha : DtOk u (a * u.mult)) (hb : DtOk u (b * u.mult)) :
    dtDiff u a b = .ok ⟨0, (a - b) * u.mult⟩ := by
  have hane := ne_nat_of_DtOk ha
  have hbne := ne_nat_of_DtOk hb
  simp only [dtDiff, hane, hbne, ne_eq, not_false_eq_true, and_self, if_true, asCr_of_DtOk ha,
    asCr_of_DtOk hb, Int.sub_mul]

/-! ### durations form a group; integer scaling distributes -/

/-- the mathematical operations on durations (component-wise) -/
def TD.add (a b : TD) : TD := ⟨a.months + b.months, a.inner + b.inner⟩
def TD.neg (a : TD) : TD := ⟨-a.months, -a.inner⟩
def TD.smul (k : Int) (a : TD) : TD := ⟨a.months * k, a.inner * k⟩

/-- a representable, non-NaT duration: `i32` months other than the NaT marker and a fixed part
within chrono's `±i64::MAX` ms -/
def TD.Valid (a : TD) : Prop := i32Min < a.months ∧ a.months ≤ i32Max ∧ inDur a.inner = true

theorem TD.Valid.not_nat {a : TD} (h : a.Valid) : a.isNat = false := by
  simp only [TD.isNat, decide_eq_false_iff_not]; exact Int.ne_of_gt h.1

theorem TD.Valid.inI32 {a : TD} (h : a.Valid) : inI32 a.months = true := by
  rw [inI32_iff]; have := h.1; have := h.2.1; simp only [i32Min, i32Max] at *; omega

/-- `+` computes the component-wise sum whenever the sum is representable. -/
theorem tdAdd_exact {a b : TD} (ha : a.Valid) (hb : b.Valid) (hab : (a.add b).Valid) :
    tdAdd a b = .ok (a.add b) := by
  simp only [tdAdd, ha.not_nat, hb.not_nat, Bool.not_false, Bool.and_self, if_true]
  have h1 : inI32 (a.months + b.months) = true := hab.inI32
  have h2 : inDur (a.inner + b.inner) = true := hab.2.2
  simp only [h1, h2, Bool.and_self, if_true, TD.add]

/-- `-` (binary) computes the component-wise difference. -/
theorem tdSub_exact {a b : TD} (ha : a.Valid) (hb : b.Valid) (hab : (a.add b.neg).Valid) :
    tdSub a b = .ok (a.add b.neg) := by
  simp only [tdSub, ha.not_nat, hb.not_nat, Bool.not_false, Bool.and_self, if_true]
  have h1 : inI32 (a.months - b.months) = true := by
    have := hab.inI32; simpa only [TD.add, TD.neg, ← Int.sub_eq_add_neg] using this
  have h2 : inDur (a.inner - b.inner) = true := by
    have := hab.2.2; simpa only [TD.add, TD.neg, ← Int.sub_eq_add_neg] using this
  rw [h1, h2]
  simp only [Bool.and_self, if_true, TD.add, TD.neg, Int.sub_eq_add_neg]

/-- unary `-` computes the component-wise negation (and stays representable). -/
theorem tdNeg_exact {a : TD} (ha : a.Valid) : tdNeg a = a.neg ∧ a.neg.Valid := by
  refine ⟨by simp only [tdNeg, ha.not_nat, Bool.not_false, if_true, TD.neg], ?_⟩
  obtain ⟨h1, h2, h3⟩ := ha
  rw [inDur_iff] at h3
  refine ⟨?_, ?_, ?_⟩
  · simp only [TD.neg, i32Min, i32Max] at *; omega
  · simp only [TD.neg, i32Min, i32Max] at *; omega
  · rw [inDur_iff]; simp only [TD.neg]; omega

/-- `* i32` computes the component-wise product whenever the product is representable. -/
theorem tdMul_exact {a : TD} {k : Int} (ha : a.Valid) (hk : (TD.smul k a).Valid) :
    tdMul a k = .ok (TD.smul k a) := by
  have h1 : inI32 (a.months * k) = true := hk.inI32
  have h2 : mulOk a.inner k = true := by
    have := hk.2.2
    rw [inDur_iff] at this
    rw [mulOk_iff]
    simp only [TD.smul] at this
    omega
  simp only [tdMul, ha.not_nat, Bool.not_false, if_true, h1, h2, Bool.and_self, TD.smul]

/-- **Group laws** of the component-wise operations: associativity, commutativity, identity,
inverse. -/
theorem td_group (a b c : TD) :
    (a.add b).add c = a.add (b.add c) ∧ a.add b = b.add a ∧ a.add TD.zero = a ∧
    a.add a.neg = TD.zero ∧ a.neg.neg = a := by
  refine ⟨?_, ?_, ?_, ?_, ?_⟩
  · simp only [TD.add, Int.add_assoc]
  · simp only [TD.add, Int.add_comm]
  · simp only [TD.add, TD.zero, Int.add_zero]
  · simp only [TD.add, TD.neg, TD.zero, Int.add_right_neg]
  · simp only [TD.neg, Int.neg_neg]

/-- **Scaling distributes** over addition of durations and over addition of scalars;
`1` is the unit and `0` annihilates. -/
theorem td_scale_distrib (a b : TD) (k l : Int) :
    TD.smul k (a.add b) = (TD.smul k a).add (TD.smul k b) ∧
    TD.smul (k + l) a = (TD.smul k a).add (TD.smul l a) ∧
    TD.smul 1 a = a ∧ TD.smul 0 a = TD.zero := by
  refine ⟨?_, ?_, ?_, ?_⟩
  · simp only [TD.smul, TD.add, Int.add_mul]
  · simp only [TD.smul, TD.add, Int.mul_add]
  · simp only [TD.smul, Int.mul_one]
  · simp only [TD.smul, TD.zero, Int.mul_zero]

/-- Associativity of the operator itself: whenever both inner sums are representable, the
two bracketings behave identically (same value, or both panic). -/
theorem tdAdd_assoc {a b c : TD} (ha : a.Valid) (hb : b.Valid) (hc : c.Valid)
    (hab : (a.add b).Valid) (hbc : (b.add c).Valid) :
    (tdAdd a b).bind (fun x => tdAdd x c) = (tdAdd b c).bind (fun y => tdAdd a y) := by
  rw [tdAdd_exact ha hb hab, tdAdd_exact hb hc hbc, Res.bind_ok, Res.bind_ok]
  have hab' : (TD.mk (a.months + b.months) (a.inner + b.inner)).isNat = false := hab.not_nat
  have hbc' : (TD.mk (b.months + c.months) (b.inner + c.inner)).isNat = false := hbc.not_nat
  simp only [tdAdd, ha.not_nat, hc.not_nat, hab', hbc', TD.add, Int.add_assoc, Bool.not_false,
    Bool.and_self, if_true]
  rfl

/-- Commutativity of the operator, unconditionally (NaT and panics included). -/
theorem tdAdd_comm (a b : TD) : tdAdd a b = tdAdd b a := by
  simp only [tdAdd, Int.add_comm a.months, Int.add_comm a.inner, Bool.and_comm (!a.isNat)]

/-- Identity and inverse for the operator. -/
theorem tdAdd_zero_neg {a : TD} (ha : a.Valid) :
    tdAdd a TD.zero = .ok a ∧ tdAdd TD.zero a = .ok a ∧ tdAdd a (tdNeg a) = .ok TD.zero := by
  have hz : TD.zero.Valid := by
    refine ⟨by decide, by decide, by decide⟩
  have e1 : a.add TD.zero = a := (td_group a a a).2.2.1
  refine ⟨?_, ?_, ?_⟩
  · rw [tdAdd_exact ha hz (by rw [e1]; exact ha), e1]
  · rw [tdAdd_comm, tdAdd_exact ha hz (by rw [e1]; exact ha), e1]
  · obtain ⟨e, hv⟩ := tdNeg_exact ha
    have e2 : a.add a.neg = TD.zero := (td_group a a a).2.2.2.1
    rw [e, tdAdd_exact ha hv (by rw [e2]; exact hz), e2]

/-- Subtraction is addition of the negation (operator form). -/
theorem tdSub_eq_add_neg {a b : TD} (ha : a.Valid) (hb : b.Valid) (hab : (a.add b.neg).Valid) :
    tdSub a b = tdAdd a (tdNeg b) := by
  obtain ⟨e, hv⟩ := tdNeg_exact hb
  rw [tdSub_exact ha hb hab, e, tdAdd_exact ha hv hab]

/-- Distributivity for the operators: `(a + b) * k = a * k + b * k` whenever every
intermediate duration is representable. -/
theorem tdMul_distrib {a b : TD} {k : Int} (ha : a.Valid) (hb : b.Valid) (hab : (a.add b).Valid)
    (hak : (TD.smul k a).Valid) (hbk : (TD.smul k b).Valid) (habk : (TD.smul k (a.add b)).Valid) :
    (tdAdd a b).bind (fun x => tdMul x k) =
      (tdMul a k).bind (fun x => (tdMul b k).bind fun y => tdAdd x y) := by
  have e := (td_scale_distrib a b k 0).1
  rw [tdAdd_exact ha hb hab, tdMul_exact ha hak, tdMul_exact hb hbk, Res.bind_ok, Res.bind_ok,
    Res.bind_ok, tdMul_exact hab habk, tdAdd_exact hak hbk (by rw [← e]; exact habk), e]

/-! ### time of day -/

/-- the nanoseconds-since-midnight value of `h:m:s` plus `f` nanoseconds -/
def todOf (h m s f : Int) : Int := (h * 3600 + m * 60 + s) * 1000000000 + f

/-- **Components.** A time built by `from_hms_nano / _micro / _milli` (`k` = 1, 10³, 10⁶ ns per
sub-second unit) from in-range components reports exactly those components. -/
theorem time_components (k h m s f : Int)
    (hh : 0 ≤ h ∧ h < 24) (hm : 0 ≤ m ∧ m < 60) (hs : 0 ≤ s ∧ s < 60)
    (hf : 0 ≤ f * k ∧ f * k < 1000000000) :
    timeFromHmsSub k h m s f = .ok (todOf h m s (f * k)) ∧
    timeFields (todOf h m s (f * k)) = .ok (h, m, s, f * k) := by
  constructor
  · have c1 : inI64 (h * 3600) = true := by rw [inI64_iff]; omega
    have c2 : inI64 (m * 60) = true := by rw [inI64_iff]; omega
    have c3 : inI64 (h * 3600 + m * 60) = true := by rw [inI64_iff]; omega
    have c4 : inI64 (h * 3600 + m * 60 + s) = true := by rw [inI64_iff]; omega
    have c5 : inI64 ((h * 3600 + m * 60 + s) * nsPerSec) = true := by
      rw [inI64_iff]; simp only [nsPerSec]; omega
    have c6 : inI64 (f * k) = true := by rw [inI64_iff]; omega
    have c7 : inI64 ((h * 3600 + m * 60 + s) * nsPerSec + f * k) = true := by
      rw [inI64_iff]; simp only [nsPerSec]; omega
    simp only [timeFromHmsSub, timeFromHms, chk, c1, c2, c3, c4, c5, c6, c7, if_true, Res.bind_ok]
    simp only [todOf, nsPerSec]
  · generalize hq : f * k = q at *
    have e1 : (todOf h m s q).tdiv nsPerSec = h * 3600 + m * 60 + s := by
      simp only [todOf, nsPerSec]
      rw [Int.tdiv_eq_ediv_of_nonneg (by omega)]; omega
    have e2 : (todOf h m s q).tmod nsPerSec = q := by
      simp only [todOf, nsPerSec]
      rw [Int.tmod_eq_emod_of_nonneg (by omega)]; omega
    simp only [timeFields, timeAsCr, e1, e2, two32]
    have g1 : (h * 3600 + m * 60 + s) % 4294967296 = h * 3600 + m * 60 + s := by omega
    have g2 : q % 4294967296 = q := by omega
    rw [g1, g2]
    have g3 : ¬ (h * 3600 + m * 60 + s ≥ 86400 ∨ q ≥ 2000000000 ∨
        (q ≥ 1000000000 ∧ (h * 3600 + m * 60 + s) % 60 ≠ 59)) := by omega
    simp only [g3, if_false]
    congr 2
    · omega
    · congr 1
      · omega
      · congr 1; omega

/-- `from_hms` is `from_hms_nano` with no sub-second part. -/
theorem time_from_hms (h m s : Int)
    (hh : 0 ≤ h ∧ h < 24) (hm : 0 ≤ m ∧ m < 60) (hs : 0 ≤ s ∧ s < 60) :
    timeFromHms h m s = .ok (todOf h m s 0) := by
  have c1 : inI64 (h * 3600) = true := by rw [inI64_iff]; omega
  have c2 : inI64 (m * 60) = true := by rw [inI64_iff]; omega
  have c3 : inI64 (h * 3600 + m * 60) = true := by rw [inI64_iff]; omega
  have c4 : inI64 (h * 3600 + m * 60 + s) = true := by rw [inI64_iff]; omega
  have c5 : inI64 ((h * 3600 + m * 60 + s) * nsPerSec) = true := by
    rw [inI64_iff]; simp only [nsPerSec]; omega
  simp only [timeFromHms, chk, c1, c2, c3, c4, c5, if_true, Res.bind_ok]
  simp only [todOf, nsPerSec, Int.add_zero]

/-- **Round trip through the calendar time type.** Every time of day `0 ≤ t < 86400 s`
converts to a `NaiveTime` (`secs = t / 10⁹`, `frac = t % 10⁹`) and back to itself. -/
theorem time_cr_roundtrip (t : Int) (h : 0 ≤ t ∧ t < 86400000000000) :
    timeAsCr t = some (t / 1000000000, t % 1000000000) ∧
    (timeAsCr t).map timeFromCr = some t := by
  have e1 : t.tdiv nsPerSec = t / 1000000000 := by
    simp only [nsPerSec]; rw [Int.tdiv_eq_ediv_of_nonneg h.1]
  have e2 : t.tmod nsPerSec = t % 1000000000 := by
    simp only [nsPerSec]; rw [Int.tmod_eq_emod_of_nonneg h.1]
  have g1 : t / 1000000000 % 4294967296 = t / 1000000000 := by omega
  have g2 : t % 1000000000 % 4294967296 = t % 1000000000 := by omega
  have g3 : ¬ (t / 1000000000 ≥ 86400 ∨ t % 1000000000 ≥ 2000000000 ∨
      (t % 1000000000 ≥ 1000000000 ∧ t / 1000000000 % 60 ≠ 59)) := by omega
  have e : timeAsCr t = some (t / 1000000000, t % 1000000000) := by
    simp only [timeAsCr, e1, e2, two32, g1, g2, g3, if_false]
  refine ⟨e, ?_⟩
  rw [e]
  simp only [Option.map_some, timeFromCr, nsPerSec]
  congr 1; omega

/-- **Exact shift.** `Time ± d` for a month-free duration moves the raw value by exactly
`d` nanoseconds, and the opposite operation undoes it. -/
theorem time_shift_exact (t n : Int) (ht : inI64 t = true) (hn : inI64 n = true)
    (hs : inI64 (t + n) = true) :
    timeShift false t ⟨0, n⟩ = .ok (t + n) ∧
    (timeShift false t ⟨0, n⟩).bind (fun r => timeShift true r ⟨0, n⟩) = .ok t := by
  have e : t + n - n = t := by omega
  have h1 : timeShift false t ⟨0, n⟩ = .ok (t + n) := by
    simp only [timeShift, td0_not_nat, Bool.not_false, if_true, ne_eq, not_true_eq_false, if_false, hn,
      chk, hs, Bool.false_eq_true]
  refine ⟨h1, ?_⟩
  rw [h1, Res.bind_ok]
  simp only [timeShift, td0_not_nat, Bool.not_false, if_true, ne_eq, not_true_eq_false, if_false, hn,
    chk, e, ht]

/-- The same for subtraction first. -/
theorem time_shift_exact_sub (t n : Int) (ht : inI64 t = true) (hn : inI64 n = true)
    (hs : inI64 (t - n) = true) :
    timeShift true t ⟨0, n⟩ = .ok (t - n) ∧
    (timeShift true t ⟨0, n⟩).bind (fun r => timeShift false r ⟨0, n⟩) = .ok t := by
  have e : t - n + n = t := by omega
  have h1 : timeShift true t ⟨0, n⟩ = .ok (t - n) := by
    simp only [timeShift, td0_not_nat, Bool.not_false, if_true, ne_eq, not_true_eq_false, if_false, hn,
      chk, hs]
  refine ⟨h1, ?_⟩
  rw [h1, Res.bind_ok]
  simp only [timeShift, td0_not_nat, Bool.not_false, if_true, ne_eq, not_true_eq_false, if_false, hn,
    chk, e, ht, Bool.false_eq_true]

/-! ### truncation -/

/-- **Truncation to a month-free duration.** For an instant `t = x·mult u` inside the `i64`
nanosecond range and a span `0 < n` (an `i64` number of nanoseconds), `duration_trunc` is the
value at the unit of `n·⌊t/n⌋`. -/
theorem trunc_fixed (u : TUnit) (x n : Int) (hx : x ≠ nat64) (hn : 0 < n) (hn64 : inI64 n = true)
    (ht : inI64 (x * u.mult) = true) :
    durationTrunc u x ⟨0, n⟩ = fromCr u (n * (x * u.mult / n)) := by
  have hcr : inCr (x * u.mult) = true := inCr_of_inI64 ht
  have ha : asCr u x = some (x * u.mult) := by simp [asCr, hx, hcr]
  simp only [durationTrunc, hx, if_false, ha, ne_eq, not_true_eq_false, chronoTrunc_eq _ _ hn hn64 ht,
    Res.bind_ok]

/-- `n·⌊t/n⌋` is **the greatest multiple of the duration not after the instant**. -/
theorem trunc_fixed_greatest (t n : Int) (hn : 0 < n) :
    n * (t / n) ≤ t ∧ n ∣ n * (t / n) ∧ ∀ k, n ∣ k → k ≤ t → k ≤ n * (t / n) :=
  ⟨(floor_mul_greatest t n hn).1, (floor_mul_greatest t n hn).2.2.1, (floor_mul_greatest t n hn).2.2.2⟩

/-- **truncation is idempotent and order preserving**: truncating the truncated instant to the same
span changes nothing, an earlier instant never truncates to a later one, and the truncated instant
lies less than one span before the instant -/
theorem trunc_fixed_idem_mono (s t n : Int) (hn : 0 < n) :
    n * ((n * (t / n)) / n) = n * (t / n) ∧
    (s ≤ t → n * (s / n) ≤ n * (t / n)) ∧
    t - n < n * (t / n) := by
  refine ⟨?_, ?_, ?_⟩
  · rw [Int.mul_ediv_cancel_left _ (Int.ne_of_gt hn)]
  · intro hst
    exact Int.mul_le_mul_of_nonneg_left (Int.ediv_le_ediv hn hst) (Int.le_of_lt hn)
  · have h1 := Int.emod_lt_of_pos t hn
    have h2 := Int.mul_ediv_add_emod t n
    omega

/-- When the span is a whole number of units the truncated value is exact: it denotes the
instant `n·⌊t/n⌋` itself (at nanosecond precision provided that instant is an `i64`). -/
theorem trunc_fixed_exact (u : TUnit) (x n : Int) (hx : x ≠ nat64) (hn : 0 < n)
    (hn64 : inI64 n = true) (ht : inI64 (x * u.mult) = true) (hdiv : u.mult ∣ n)
    (hr : inI64 (n * (x * u.mult / n)) = true) :
    ∃ r, durationTrunc u x ⟨0, n⟩ = .ok r ∧ r * u.mult = n * (x * u.mult / n) := by
  rw [trunc_fixed u x n hx hn hn64 ht]
  obtain ⟨k, rfl⟩ := hdiv
  have hm := TUnit.mult_pos u
  have e : u.mult * k * (x * u.mult / (u.mult * k)) = k * (x * u.mult / (u.mult * k)) * u.mult := by
    rw [Int.mul_comm (u.mult) k, Int.mul_assoc, Int.mul_comm u.mult, ← Int.mul_assoc]
  refine ⟨k * (x * u.mult / (u.mult * k)), ?_, e.symm⟩
  rw [e]
  cases u
  · simp only [fromCr, TUnit.mult]; rw [Int.mul_ediv_cancel _ (by decide)]
  · simp only [fromCr, TUnit.mult]; rw [Int.mul_ediv_cancel _ (by decide)]
  · simp only [fromCr, TUnit.mult]; rw [Int.mul_ediv_cancel _ (by decide)]
  · rw [e] at hr
    simp only [fromCr, TUnit.mult, Int.mul_one] at hr ⊢
    simp only [hr, if_true]

/-- **Sharpness (finding F23).** On a coarse unit the result is the *floor to the unit* of the
greatest multiple, so for a span that is not a whole number of units it need not be a
multiple of the span: `x = 2 s` truncated to 1.5 s is `1 s`. -/
theorem trunc_fixed_coarse :
    durationTrunc .s 2 ⟨0, 1500000000⟩ = .ok 1 ∧ ¬ (1500000000 : Int) ∣ 1 * TUnit.s.mult := by
  constructor
  · decide
  · decide

/-- **Truncation to whole months dividing 12.** With `(y, m, _)` the calendar date of the
instant, `duration_trunc(dm months)` is the first instant of month `1 + dm·⌊(m-1)/dm⌋` of year
`y`: the calendar month (`dm = 1`), quarter (3), half-year (6) or year (12) containing it. -/
theorem trunc_months (u : TUnit) (x dm : Int) (hx : DtOk u (x * u.mult)) (hdm : 0 < dm)
    (hd : 12 % dm = 0)
    (hy : crMinYear ≤ (civilFromDays (x * u.mult / nsPerDay)).1 ∧
      (civilFromDays (x * u.mult / nsPerDay)).1 ≤ crMaxYear) :
    durationTrunc u x ⟨dm, 0⟩ =
      fromCr u (daysFromCivil (civilFromDays (x * u.mult / nsPerDay)).1
        (1 + dm * (((civilFromDays (x * u.mult / nsPerDay)).2.1 - 1) / dm)) 1 * nsPerDay) := by
  have hne := ne_nat_of_DtOk hx
  have hmr := civil_month_range (x * u.mult / nsPerDay)
  obtain ⟨b1, b2⟩ := month_bucket (civilFromDays (x * u.mult / nsPerDay)).1
    (civilFromDays (x * u.mult / nsPerDay)).2.1 dm hmr hdm hd
  have hdm0 : dm ≠ 0 := Int.ne_of_gt hdm
  have hdm1 : ¬ dm < 0 := by omega
  have hyr : ¬ ((civilFromDays (x * u.mult / nsPerDay)).1 < crMinYear ∨
      crMaxYear < (civilFromDays (x * u.mult / nsPerDay)).1) := by omega
  simp only [durationTrunc, hne, if_false, asCr_of_DtOk hx, ne_eq, hdm0, not_false_eq_true, if_true,
    hdm1, b1, b2, hyr]

/-- The same statement against the from-scratch calendar of the specification: the result is
`Spec.firstInstant y m'` (days counted year by year and month by month). -/
theorem trunc_months_spec (u : TUnit) (x dm : Int) (hx : DtOk u (x * u.mult)) (hdm : 0 < dm)
    (hd : 12 % dm = 0)
    (hy : crMinYear ≤ (civilFromDays (x * u.mult / nsPerDay)).1 ∧
      (civilFromDays (x * u.mult / nsPerDay)).1 ≤ crMaxYear) :
    durationTrunc u x ⟨dm, 0⟩ =
      fromCr u (Spec.firstInstant (civilFromDays (x * u.mult / nsPerDay)).1
        (1 + dm * (((civilFromDays (x * u.mult / nsPerDay)).2.1 - 1) / dm))) := by
  have hmr := civil_month_range (x * u.mult / nsPerDay)
  obtain ⟨_, b2⟩ := month_bucket (civilFromDays (x * u.mult / nsPerDay)).1
    (civilFromDays (x * u.mult / nsPerDay)).2.1 dm hmr hdm hd
  rw [trunc_months u x dm hx hdm hd hy, Spec.firstInstant, dayNumber_eq _ _ _ (by omega)]
  rfl

/-- The month buckets for the four calendar periods, spelled out. -/
theorem trunc_months_periods (m : Int) (hm : 1 ≤ m ∧ m ≤ 12) :
    1 + 1 * ((m - 1) / 1) = m ∧
    (1 + 3 * ((m - 1) / 3) = if m ≤ 3 then 1 else if m ≤ 6 then 4 else if m ≤ 9 then 7 else 10) ∧
    (1 + 6 * ((m - 1) / 6) = if m ≤ 6 then 1 else 7) ∧
    1 + 12 * ((m - 1) / 12) = 1 := by
  refine ⟨by omega, ?_, ?_, by omega⟩
  · split <;> [omega; (split <;> [omega; (split <;> omega)])]
  · split <;> omega

/-- **Finding F9 (repaired).** The pinned body of `duration_trunc` was wrong for every month
count: on 2023-05-15 14:30:45 it left the value unchanged for 1 month, returned 2023-03-15
14:30:45 for 3 months and 2022-12-15 14:30:45 for 1 year; the repaired code returns
2023-05-01, 2023-04-01 and 2023-01-01 00:00:00. -/
theorem trunc_months_pinned_wrong :
    durationTruncPinned .ns 1684161045000000000 ⟨1, 0⟩ = .ok 1684161045000000000 ∧
    durationTruncPinned .ns 1684161045000000000 ⟨3, 0⟩ = .ok 1678890645000000000 ∧
    durationTruncPinned .ns 1684161045000000000 ⟨12, 0⟩ = .ok 1671114645000000000 ∧
    durationTrunc .ns 1684161045000000000 ⟨1, 0⟩ = .ok 1682899200000000000 ∧
    durationTrunc .ns 1684161045000000000 ⟨3, 0⟩ = .ok 1680307200000000000 ∧
    durationTrunc .ns 1684161045000000000 ⟨12, 0⟩ = .ok 1672531200000000000 := by
  refine ⟨by decide, by decide, by decide, by decide, by decide, by decide⟩

/-! ### calendar months -/

/-- **End-of-month clamping.** Moving `(y, m, d)` by `k` months moves the month index
`12·y + (m-1)` by exactly `k`, yields a month in `1..12`, and keeps the day unless the target
month is shorter, in which case the day is the last day of that month; days up to 28 are
never changed. -/
theorem addMonths_clamp (y m d k : Int) :
    (addMonthsCivil (y, m, d) k).1 * 12 + ((addMonthsCivil (y, m, d) k).2.1 - 1) = y * 12 + (m - 1) + k ∧
    1 ≤ (addMonthsCivil (y, m, d) k).2.1 ∧ (addMonthsCivil (y, m, d) k).2.1 ≤ 12 ∧
    (addMonthsCivil (y, m, d) k).2.2 =
      min d (daysInMonth (addMonthsCivil (y, m, d) k).1 (addMonthsCivil (y, m, d) k).2.1) ∧
    (d ≤ 28 → (addMonthsCivil (y, m, d) k).2.2 = d) := by
  simp only [addMonthsCivil]
  refine ⟨by omega, by omega, by omega, trivial, ?_⟩
  intro hd
  have : 28 ≤ daysInMonth ((y * 12 + (m - 1) + k) / 12) ((y * 12 + (m - 1) + k) % 12 + 1) := by
    simp only [daysInMonth]; split <;> split <;> omega
  omega

/-- **Model = specification for month addition**: the closed form used by the calendar library
(`diff_months`) equals stepping month by month and clamping the day with the table of month
lengths. -/
theorem addMonths_eq_spec (y m d k : Int) (hm : 1 ≤ m ∧ m ≤ 12) :
    addMonthsCivil (y, m, d) k = Spec.addMonths (y, m, d) k := by
  have key : ∀ (t : Int), (1 ≤ t % 12 + 1 ∧ t % 12 + 1 ≤ 12) := fun t => by omega
  simp only [addMonthsCivil, Spec.addMonths]
  by_cases hk : k ≥ 0
  · have e : ((k.toNat : Nat) : Int) = k := Int.toNat_of_nonneg hk
    simp only [hk, if_true, iter_next _ _ _ hm, e, monthLen_eq _ _ (key _)]
    ext
    · rfl
    · rfl
    · simp only [Int.min_def]; split <;> split <;> omega
  · have e : (((-k).toNat : Nat) : Int) = -k := Int.toNat_of_nonneg (by omega)
    have e2 : y * 12 + (m - 1) - -k = y * 12 + (m - 1) + k := by omega
    simp only [hk, if_false, iter_prev _ _ _ hm, e, e2, monthLen_eq _ _ (key _)]
    ext
    · rfl
    · rfl
    · simp only [Int.min_def]; split <;> split <;> omega

/-- **`x + (k months, n ns)`**: the date part of the instant moves by `k` calendar months
(clamped), the time of day is kept, then the fixed part is added and the result is floored to
the unit. -/
theorem dtAdd_months (u : TUnit) (x k n : Int) (hx : DtOk u (x * u.mult)) (hk0 : k ≠ 0)
    (hk : i32Min < k)
    (hidx : inI32 ((civilFromDays (x * u.mult / nsPerDay)).1 * 12 +
      ((civilFromDays (x * u.mult / nsPerDay)).2.1 - 1) + k) = true)
    (hy : crMinYear ≤ (addMonthsCivil (civilFromDays (x * u.mult / nsPerDay)) k).1 ∧
      (addMonthsCivil (civilFromDays (x * u.mult / nsPerDay)) k).1 ≤ crMaxYear)
    (hr : DtOk u (daysFromCivil (addMonthsCivil (civilFromDays (x * u.mult / nsPerDay)) k).1
      (addMonthsCivil (civilFromDays (x * u.mult / nsPerDay)) k).2.1
      (addMonthsCivil (civilFromDays (x * u.mult / nsPerDay)) k).2.2 * nsPerDay
      + x * u.mult % nsPerDay + n)) :
    dtAdd u x ⟨k, n⟩ = .ok ((daysFromCivil (addMonthsCivil (civilFromDays (x * u.mult / nsPerDay)) k).1
      (addMonthsCivil (civilFromDays (x * u.mult / nsPerDay)) k).2.1
      (addMonthsCivil (civilFromDays (x * u.mult / nsPerDay)) k).2.2 * nsPerDay
      + x * u.mult % nsPerDay + n) / u.mult) := by
  have hne := ne_nat_of_DtOk hx
  have hnat : (TD.mk k n).isNat = false := by
    simp only [TD.isNat, decide_eq_false_iff_not]; exact Int.ne_of_gt hk
  have hyr : ¬ ((addMonthsCivil (civilFromDays (x * u.mult / nsPerDay)) k).1 < crMinYear ∨
      crMaxYear < (addMonthsCivil (civilFromDays (x * u.mult / nsPerDay)) k).1) := by omega
  simp only [dtAdd, hne, ne_eq, not_false_eq_true, hnat, Bool.not_false, and_self, if_true,
    asCr_of_DtOk hx, addMonthsCr, hk0, if_false, hidx, Bool.not_true, Bool.false_eq_true, hyr,
    Res.bind_ok, addDurCr, hr.1, fromCr_floor hr]

/-! ### translator tie -/

/-- The time constants (tea-time/src/convert.rs) and NaT markers (`nat()` constructors) that the
translator extracts from the sources on every run are the ones the model is built from:
`TUnit.mult`, `nsPerSec`, `nsPerDay`, the `3600 / 60` of `from_hms`, `nat64 = i64::MIN`,
`TD.nat.months = i32::MIN`. -/
theorem consts_matches :
    Generated.c17TimeConsts =
      [("NANOS_PER_MICRO", TUnit.us.mult), ("NANOS_PER_MILLI", TUnit.ms.mult),
       ("NANOS_PER_SEC", nsPerSec), ("MICROS_PER_MILLI", TUnit.ms.mult / TUnit.us.mult),
       ("MICROS_PER_SEC", TUnit.s.mult / TUnit.us.mult), ("MILLIS_PER_SEC", TUnit.s.mult / TUnit.ms.mult),
       ("SECS_PER_MINUTE", 60), ("SECS_PER_HOUR", 3600), ("SECS_PER_DAY", nsPerDay / nsPerSec),
       ("SECS_PER_WEEK", 7 * (nsPerDay / nsPerSec))] ∧
    Generated.c17NatMarkers = [("DateTime", "i64::MIN"), ("Time", "i64::MIN"), ("TimeDelta", "i32::MIN")] ∧
    nat64 = -2 ^ 63 ∧ TD.nat.months = -2 ^ 31 := by
  refine ⟨by decide, by decide, by decide, by decide⟩

/-! ### non-vacuity: the hypotheses are satisfiable on concrete, non-trivial inputs -/

/-- 2023-05-15 14:30:45 at second precision, plus / minus 90 minutes -/
example : DtOk .s (1684161045 * TUnit.s.mult) ∧ DtOk .s (1684161045 * TUnit.s.mult + 5400000000000) ∧
    TUnit.s.mult ∣ 5400000000000 ∧
    (dtAdd .s 1684161045 ⟨0, 5400000000000⟩).bind (fun y => dtSub .s y ⟨0, 5400000000000⟩) = .ok 1684161045 := by
  refine ⟨⟨by decide, by decide⟩, ⟨by decide, by decide⟩, by decide, by decide⟩

/-- F23 on a concrete input: 5 s + 1 ns − 1 ns = 4 s -/
example : (dtAdd .s 5 ⟨0, 1⟩).bind (fun y => dtSub .s y ⟨0, 1⟩) = .ok 4 := by decide

/-- a date-time before 1970 and one after, millisecond precision -/
example : (dtDiff .ms (-86400001) 1684161045123).bind (fun d => dtAdd .ms 1684161045123 d) = .ok (-86400001) ∧
    dtDiff .ms (-86400001) 1684161045123 = .ok ⟨0, -1684247445124000000⟩ := by
  refine ⟨by decide, by decide⟩

/-- valid durations with months of both signs -/
example : (TD.mk 14 (-86400000000000)).Valid ∧ (TD.mk (-25) 1500000000).Valid ∧
    tdAdd ⟨14, -86400000000000⟩ ⟨-25, 1500000000⟩ = .ok ⟨-11, -86398500000000⟩ ∧
    tdMul ⟨14, -86400000000000⟩ (-3) = .ok ⟨-42, 259200000000000⟩ := by
  refine ⟨⟨by decide, by decide, by decide⟩, ⟨by decide, by decide, by decide⟩, by decide, by decide⟩

/-- 12:34:56.000000789 -/
example : timeFromHmsSub 1 12 34 56 789 = .ok 45296000000789 ∧
    timeFields 45296000000789 = .ok (12, 34, 56, 789) ∧
    (timeAsCr 45296000000789).map timeFromCr = some 45296000000789 := by
  refine ⟨by decide, by decide, by decide⟩

/-- truncation to one hour before 1970 rounds toward the past; a quarter; end-of-month clamping -/
example : durationTrunc .s (-1) ⟨0, 3600000000000⟩ = .ok (-3600) ∧
    durationTrunc .s 1684161045 ⟨3, 0⟩ = .ok 1680307200 ∧
    dtAdd .s 1675123200 ⟨1, 0⟩ = .ok 1677542400 ∧
    addMonthsCivil (2023, 1, 31) 1 = (2023, 2, 28) ∧ addMonthsCivil (2024, 1, 31) 1 = (2024, 2, 29) ∧
    addMonthsCivil (2023, 3, 31) (-13) = (2022, 2, 28) := by
  refine ⟨by decide, by decide, by decide, by decide, by decide, by decide⟩

/-- hypotheses of `trunc_months` on 2023-05-15 14:30:45 ns -/
example : DtOk .ns (1684161045000000000 * TUnit.ns.mult) ∧
    civilFromDays (1684161045000000000 * TUnit.ns.mult / nsPerDay) = (2023, 5, 15) := by
  refine ⟨⟨by decide, fun _ => ⟨by decide, by decide⟩⟩, by decide⟩

/-! ## the model's calendar is consistent (shared with the C16 specification) -/

theorem civilFromDays_eq (z : Int) : civilFromDays z = C16.Spec.civilFromDays z := rfl

theorem daysFromCivil_eq (y m d : Int) (h1 : 1 ≤ m) (h2 : m ≤ 12) :
    daysFromCivil y m d = C16.Spec.daysFromCivil y m d := by
  simp only [daysFromCivil, C16.Spec.daysFromCivil]
  split_ifs <;> omega

/-- the model's day-count and date functions round-trip for every day count -/
theorem calendar_roundtrip (z : Int) :
    daysFromCivil (civilFromDays z).1 (civilFromDays z).2.1 (civilFromDays z).2.2 = z := by
  rw [civilFromDays_eq]
  obtain ⟨h1, h2, _, _⟩ := C16.Spec.civilFromDays_range z
  rw [daysFromCivil_eq _ _ _ h1 h2]
  exact C16.Spec.daysFromCivil_civilFromDays z
theorem daysInMonth_eq (y m : Int) : daysInMonth y m = C16.Spec.daysInMonth y m := by
  unfold daysInMonth C16.Spec.daysInMonth isLeap C16.Spec.isLeapYear
  by_cases h2 : m = 2
  · simp only [h2, if_true]
    by_cases a : y % 4 = 0 <;> by_cases b : y % 100 = 0 <;> by_cases c : y % 400 = 0 <;> simp [a, b, c]
  · simp only [h2, if_false]

/-- the model's date of the model's day count of a calendar date is that date -/
theorem calendar_roundtrip_date (y m d : Int) (h1 : 1 ≤ m) (h2 : m ≤ 12) (h3 : 1 ≤ d) (h4 : d ≤ daysInMonth y m) :
    civilFromDays (daysFromCivil y m d) = (y, m, d) := by
  rw [civilFromDays_eq, daysFromCivil_eq y m d h1 h2]
  exact C16.Spec.civilFromDays_daysFromCivil y m d ⟨h1, h2, h3, by rw [← daysInMonth_eq]; exact h4⟩
end Tv.C17
