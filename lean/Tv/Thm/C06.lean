import Tv.Thm.C01
import Tv.Lemmas.Local
/-!
# C06 — rolling and lagging results never depend on later (or pre-window) data

Corollaries of the `_exact` theorems through `windowed_prefix` / `windowed_local`.
Part 1: the feature family. (Exact in the model; the size of the floating-point residue of
pre-window history in the implementation is a rounding fact — DESIGN 5.1 — observed by the
relational correspondence run.)
-/
namespace Tv.C06
open Tv

/-- **no look-ahead**: the function evaluated on any prefix is the prefix of the result -/
theorem feat_prefix (f : Feat) (sh : Shape) (xs : List (Option Rat)) (w : Nat) (mp : Option Nat)
    (hw : 1 ≤ w) (k : Nat) :
    tsFeat f sh (xs.take k) w mp = (tsFeat f sh xs w mp).take k := by
  rw [C01.tsFeat_exact f sh _ w mp hw, C01.tsFeat_exact f sh xs w mp hw]
  exact windowed_prefix (fun l => Spec.feat f w mp (valid l)) xs w k

/-- **no dependence on pre-window data**: two series of equal length that agree on positions
`i+1-w ..= i` have the same output `i` -/
theorem feat_prewindow (f : Feat) (sh : Shape) (xs ys : List (Option Rat)) (w : Nat) (mp : Option Nat)
    (hw : 1 ≤ w) (hlen : xs.length = ys.length) (i : Nat)
    (h : ∀ j, i + 1 - w ≤ j → j ≤ i → xs[j]? = ys[j]?) :
    (tsFeat f sh xs w mp)[i]? = (tsFeat f sh ys w mp)[i]? := by
  rw [C01.tsFeat_exact f sh xs w mp hw, C01.tsFeat_exact f sh ys w mp hw]
  simp only [List.getElem?_map, hlen]
  cases hr : (List.range ys.length)[i]? with
  | none => rfl
  | some n =>
    have : n = i := by
      have := List.getElem?_eq_some_iff.mp hr
      obtain ⟨hlt, he⟩ := this
      simpa using he.symm
    subst this
    simp only [Option.map_some, vwin]
    rw [window_congr xs ys n w h]

example : tsFeat .mean .to ([some 1, some 2, some 3, some 4].take 2) 2 none
    = (tsFeat .mean .to [some 1, some 2, some 3, some 4] 2 none).take 2 :=
  feat_prefix _ _ _ _ _ (by decide) _

end Tv.C06
