import Tv.Thm.C06Reg
import Tv.Thm.C01
import Tv.Lemmas.Local
import Tv.Thm.C03
/-!
# C06 — rolling and lagging results never depend on later (or pre-window) data

Corollaries of the `_exact` theorems through `windowed_prefix` / `windowed_local`.
Part 1: the feature family. (Exact in the model; the size of the floating-point residue of
pre-window history in the implementation is a rounding fact — DESIGN 5.1 — observed by the
relational correspondence run.)
-/
namespace Tv.C06
open Tv

/-- **no look-ahead**: the function evaluated on any prefix is the prefix of the result -/
theorem feat_prefix (f : Feat) (sh : Shape) (xs : List (Option Rat)) (w : Nat) (mp : Option Nat)
    (hw : 1 ≤ w) (k : Nat) :
    tsFeat f sh (xs.take k) w mp = (tsFeat f sh xs w mp).take k := by
  rw [C01.tsFeat_exact f sh _ w mp hw, C01.tsFeat_exact f sh xs w mp hw]
  exact windowed_prefix (fun l => Spec.feat f w mp (valid l)) xs w k

/-- **no dependence on pre-window data**: two series of equal length that agree on positions
`i+1-w ..= i` have the same output `i` -/
theorem feat_prewindow (f : Feat) (sh : Shape) (xs ys : List (Option Rat)) (w : Nat) (mp : Option Nat)
    (hw : 1 ≤ w) (hlen : xs.length = ys.length) (i : Nat)
    (h : ∀ j, i + 1 - w ≤ j → j ≤ i → xs[j]? = ys[j]?) :
    (tsFeat f sh xs w mp)[i]? = (tsFeat f sh ys w mp)[i]? := by
  rw [C01.tsFeat_exact f sh xs w mp hw, C01.tsFeat_exact f sh ys w mp hw]
  simp only [List.getElem?_map, hlen]
  cases hr : (List.range ys.length)[i]? with
  | none => rfl
  | some n =>
    have : n = i := by
      have := List.getElem?_eq_some_iff.mp hr
      obtain ⟨hlt, he⟩ := this
      simpa using he.symm
    subst this
    simp only [Option.map_some, vwin]
    rw [window_congr xs ys n w h]

example : tsFeat .mean .to ([some 1, some 2, some 3, some 4].take 2) 2 none
    = (tsFeat .mean .to [some 1, some 2, some 3, some 4] 2 none).take 2 :=
  feat_prefix _ _ _ _ _ (by decide) _


/-! ## Part 2 — extrema / arg-extrema / rank / normalisation family

For the five cmp.rs functions an *explicit* `min_periods` makes the effective minimum independent
of the series length; with an omitted one it is `min len w / 2`, which is the same for a prefix of
length `≥ w` (DESIGN 5.3). The two norm.rs functions never look at the length. All results are
exact in the model; min / max / arg / rank are exact in the implementation too. -/

/-- generic: a function that is `i ↦ F (window xs i w)` for every series is prefix-stable -/
theorem prefix_of_windowed {β : Type} (G : List (Option Rat) → List β) (F : List (Option Rat) → β) (w : Nat)
    (hG : ∀ xs, G xs = (List.range xs.length).map fun i => F (window xs i w)) (xs : List (Option Rat)) (k : Nat) :
    G (xs.take k) = (G xs).take k := by
  rw [hG, hG]; exact windowed_prefix F xs w k

/-- generic: ... and local to the window -/
theorem local_of_windowed {β : Type} (G : List (Option Rat) → List β) (F : List (Option Rat) → β) (w : Nat)
    (hG : ∀ xs, G xs = (List.range xs.length).map fun i => F (window xs i w))
    (xs ys : List (Option Rat)) (hlen : xs.length = ys.length) (i : Nat)
    (h : ∀ j, i + 1 - w ≤ j → j ≤ i → xs[j]? = ys[j]?) : (G xs)[i]? = (G ys)[i]? := by
  rw [hG, hG]
  simp only [List.getElem?_map, hlen]
  cases hr : (List.range ys.length)[i]? with
  | none => rfl
  | some n =>
    have : n = i := by
      obtain ⟨hlt, he⟩ := List.getElem?_eq_some_iff.mp hr
      simpa using he.symm
    subst this
    simp only [Option.map_some]
    rw [window_congr xs ys n w h]

/-- **no look-ahead**, extrema / arg / rank with explicit `min_periods` -/
theorem c03_cmp_prefix (sh : Shape) (xs : List (Option Rat)) (w m : Nat) (hw : 1 ≤ w) (k : Nat) :
    C03.tsVmin sh (xs.take k) w (some m) = (C03.tsVmin sh xs w (some m)).take k ∧
    C03.tsVmax sh (xs.take k) w (some m) = (C03.tsVmax sh xs w (some m)).take k ∧
    C03.tsVargmin sh (xs.take k) w (some m) = (C03.tsVargmin sh xs w (some m)).take k ∧
    C03.tsVargmax sh (xs.take k) w (some m) = (C03.tsVargmax sh xs w (some m)).take k ∧
    (∀ pct rev, C03.tsVrank sh (xs.take k) w (some m) pct rev = (C03.tsVrank sh xs w (some m) pct rev).take k) := by
  refine ⟨?_, ?_, ?_, ?_, ?_⟩
  · exact prefix_of_windowed (fun xs => C03.tsVmin sh xs w (some m)) (C03.Spec.tsMin m) w
      (fun xs => C03.vmin_exact sh xs w (some m) hw) xs k
  · exact prefix_of_windowed (fun xs => C03.tsVmax sh xs w (some m)) (C03.Spec.tsMax m) w
      (fun xs => C03.vmax_exact sh xs w (some m) hw) xs k
  · exact prefix_of_windowed (fun xs => C03.tsVargmin sh xs w (some m)) (C03.Spec.tsArgmin m) w
      (fun xs => C03.vargmin_exact sh xs w (some m) hw) xs k
  · exact prefix_of_windowed (fun xs => C03.tsVargmax sh xs w (some m)) (C03.Spec.tsArgmax m) w
      (fun xs => C03.vargmax_exact sh xs w (some m) hw) xs k
  · intro pct rev
    exact prefix_of_windowed (fun xs => C03.tsVrank sh xs w (some m) pct rev) (C03.Spec.tsRank m pct rev) w
      (fun xs => C03.vrank_exact sh xs w (some m) pct rev hw) xs k

/-- omitted `min_periods`: prefix-stable for prefixes at least as long as the window (5.3) -/
theorem c03_vmin_prefix_none (sh : Shape) (xs : List (Option Rat)) (w : Nat) (hw : 1 ≤ w) (k : Nat)
    (hk : w ≤ k) (hkl : k ≤ xs.length) :
    C03.tsVmin sh (xs.take k) w none = (C03.tsVmin sh xs w none).take k := by
  rw [C03.vmin_exact sh _ w none hw, C03.vmin_exact sh xs w none hw]
  have e : C03.cmpMp none w (xs.take k).length = C03.cmpMp none w xs.length := by
    simp only [C03.cmpMp, List.length_take, Option.getD_none]
    rw [Nat.min_eq_left hkl, Nat.min_eq_right hk, Nat.min_eq_right (by omega : w ≤ xs.length)]
  rw [e]
  exact windowed_prefix (C03.Spec.tsMin (C03.cmpMp none w xs.length)) xs w k

/-- **no look-ahead**, normalisation family, any `min_periods` -/
theorem c03_norm_prefix (sh : Shape) (xs : List (Option Rat)) (w : Nat) (mp : Option Nat) (hw : 1 ≤ w) (k : Nat) :
    C03.tsVminmaxnorm sh (xs.take k) w mp = (C03.tsVminmaxnorm sh xs w mp).take k ∧
    C03.tsVzscore sh (xs.take k) w mp = (C03.tsVzscore sh xs w mp).take k := by
  constructor
  · exact prefix_of_windowed (fun xs => C03.tsVminmaxnorm sh xs w mp) (C03.Spec.tsMinmaxnorm (C03.normMp mp w)) w
      (fun xs => C03.vminmaxnorm_exact sh xs w mp hw) xs k
  · exact prefix_of_windowed (fun xs => C03.tsVzscore sh xs w mp) (C03.Spec.tsZscore (C03.normMp mp w)) w
      (fun xs => C03.vzscore_exact sh xs w mp hw) xs k

/-- **no dependence on pre-window data (exactly)**: min / max / arg / rank / normalisation of two
equally long series that agree on `i+1-w ..= i` agree at `i` -/
theorem c03_prewindow (sh : Shape) (xs ys : List (Option Rat)) (w : Nat) (mp : Option Nat) (hw : 1 ≤ w)
    (hlen : xs.length = ys.length) (i : Nat) (h : ∀ j, i + 1 - w ≤ j → j ≤ i → xs[j]? = ys[j]?) :
    (C03.tsVmin sh xs w mp)[i]? = (C03.tsVmin sh ys w mp)[i]? ∧
    (C03.tsVmax sh xs w mp)[i]? = (C03.tsVmax sh ys w mp)[i]? ∧
    (C03.tsVargmin sh xs w mp)[i]? = (C03.tsVargmin sh ys w mp)[i]? ∧
    (C03.tsVargmax sh xs w mp)[i]? = (C03.tsVargmax sh ys w mp)[i]? ∧
    (∀ pct rev, (C03.tsVrank sh xs w mp pct rev)[i]? = (C03.tsVrank sh ys w mp pct rev)[i]?) ∧
    (C03.tsVminmaxnorm sh xs w mp)[i]? = (C03.tsVminmaxnorm sh ys w mp)[i]? ∧
    (C03.tsVzscore sh xs w mp)[i]? = (C03.tsVzscore sh ys w mp)[i]? := by
  have key : ∀ {β : Type} (F : List (Option Rat) → β),
      ((List.range xs.length).map fun i => F (window xs i w))[i]? =
      ((List.range ys.length).map fun i => F (window ys i w))[i]? := by
    intro β F
    exact local_of_windowed (fun zs => (List.range zs.length).map fun i => F (window zs i w)) F w
      (fun _ => rfl) xs ys hlen i h
  refine ⟨?_, ?_, ?_, ?_, ?_, ?_, ?_⟩
  · rw [C03.vmin_exact sh xs w mp hw, C03.vmin_exact sh ys w mp hw, hlen]; rw [← hlen]
    have := key (C03.Spec.tsMin (C03.cmpMp mp w xs.length)); rw [hlen] at this ⊢; exact this
  · rw [C03.vmax_exact sh xs w mp hw, C03.vmax_exact sh ys w mp hw]
    have := key (C03.Spec.tsMax (C03.cmpMp mp w xs.length)); rw [hlen] at this ⊢; exact this
  · rw [C03.vargmin_exact sh xs w mp hw, C03.vargmin_exact sh ys w mp hw]
    have := key (C03.Spec.tsArgmin (C03.cmpMp mp w xs.length)); rw [hlen] at this ⊢; exact this
  · rw [C03.vargmax_exact sh xs w mp hw, C03.vargmax_exact sh ys w mp hw]
    have := key (C03.Spec.tsArgmax (C03.cmpMp mp w xs.length)); rw [hlen] at this ⊢; exact this
  · intro pct rev
    rw [C03.vrank_exact sh xs w mp pct rev hw, C03.vrank_exact sh ys w mp pct rev hw]
    have := key (C03.Spec.tsRank (C03.cmpMp mp w xs.length) pct rev); rw [hlen] at this ⊢; exact this
  · rw [C03.vminmaxnorm_exact sh xs w mp hw, C03.vminmaxnorm_exact sh ys w mp hw]
    exact key (C03.Spec.tsMinmaxnorm (C03.normMp mp w))
  · rw [C03.vzscore_exact sh xs w mp hw, C03.vzscore_exact sh ys w mp hw]
    exact key (C03.Spec.tsZscore (C03.normMp mp w))

end Tv.C06
