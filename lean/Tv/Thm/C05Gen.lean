import Tv.GenClosures
import Tv.Lemmas.GenSim
import Tv.Lemmas.Features
import Tv.Lemmas.C04Run
import Tv.Thm.C05
/-!
# C05 — length and warm-up nulls of the closures regenerated from source

`Tv.Gen.<fn>.step` is written by translator/closures.py from the Rust source on every run.  For
each of the 27 translated closures this file proves, *from the regenerated code alone* (the only
model ingredient is the count of valid elements, so a change of a closed form does not disturb
these proofs):

* `<fn>_length`  — one output per input position;
* `<fn>_warmup`  — a position whose window holds fewer valid (resp. pairwise-complete) elements
  than the regenerated `min_periods` expression is the literal `f64::NAN`;
* `<fn>_minPeriods` — that expression is `min_periods.unwrap_or(window/2).min(window).max(k)`.

All three hold for every series, window ≥ 1, `min_periods` and position.
-/
set_option linter.unusedSimpArgs false
set_option linter.unusedTactic false
set_option linter.unreachableTactic false
set_option linter.unnecessarySeqFocus false
namespace Tv.C05Gen
open Tv Tv.GenSim

/-- below the threshold the result is the NaN literal -/
def Masked (mp : Nat) (o : Option Rat) (n : Nat) : Prop := n < mp → o = none
def Masked3 (mp : Nat) (o : Option Rat × Option Rat × Option Rat) (n : Nat) : Prop := n < mp → o = (none, none, none)

/-- the count of valid elements in the window, as a rolling closure -/
def cnt1 : Roll Mom (Option Rat) Nat :=
  { init := Mom.zero, add := Mom.add, emit := fun m => m.n, remove := Mom.remove }
abbrev cnt2 : Roll C04.Cross C04.Pair Nat := C04.crossRoll (fun m => m.n)

theorem cnt1_run (sh : Shape) (xs : List (Option Rat)) (w : Nat) (hw : 1 ≤ w) :
    cnt1.run Mom.zero (applyCalls sh xs w) = (List.range xs.length).map fun i => (vwin xs i w).length := by
  rw [C02.applyCalls_spec sh xs w hw]
  have hW : 1 ≤ C02.effW sh w xs.length ∨ xs.length = 0 := by
    cases sh
    · show 1 ≤ min w xs.length ∨ xs.length = 0
      omega
    · left; exact hw
  rcases hW with hW | h0
  · have := run_refines_all cnt1 MomInv (fun q => (valid q).length) momInv_init
      (fun s q v hi => momInv_add s q v hi) (fun s x q hi => momInv_remove s x q hi)
      (fun s q hi => by rw [hi]; exact momOf_n _) xs (C02.effW sh w xs.length) hW
    rw [show cnt1.init = Mom.zero from rfl] at this
    rw [this]
    apply List.map_congr_left
    intro i hi
    have hi' : i < xs.length := by simpa using hi
    unfold vwin
    cases sh
    · simp only [C02.effW]; rw [window_clamp xs i w hi']
    · rfl
  · have : xs = [] := List.length_eq_zero_iff.mp h0
    subst this
    simp [callsFrom, Roll.run]

theorem cnt2_run (sh : Shape) (xs ys : List (Option Rat)) (w : Nat) (hw : 1 ≤ w) (hlen : ys.length = xs.length) :
    cnt2.run C04.Cross.zero (apply2Calls sh xs ys w)
      = (List.range xs.length).map fun i => (C04.Spec.complete (window (xs.zip ys) i w)).length :=
  C04.cross_run _ sh xs ys w hw hlen

theorem nth_of_forall2 {β : Type} {A : β → Nat → Prop} {l1 : List β} {l2 : List Nat}
    (h : List.Forall₂ A l1 l2) (i : Nat) (n : Nat) (h2 : l2[i]? = some n) : ∃ o, l1[i]? = some o ∧ A o n := by
  induction h generalizing i with
  | nil => simp at h2
  | cons hab _ ih =>
    cases i with
    | zero =>
      simp only [List.getElem?_cons_zero, Option.some.injEq] at h2
      subst h2
      exact ⟨_, by simp, hab⟩
    | succ i => simpa using ih i (by simpa using h2)

/-! ### `ts_vsum` -/
theorem ts_vsum_add (w : Nat) (g : Gen.ts_vsum.St) (m : Mom) (v : Option Rat) (h : g.n = m.n) :
    (Gen.ts_vsum.add w g v).n = (cnt1.add m v).n := by
  cases v <;> simp [Gen.ts_vsum.add, cnt1, Mom.add, h]
theorem ts_vsum_post (w : Nat) (g : Gen.ts_vsum.St) (m : Mom) (x : Option Rat) (h : g.n = m.n) :
    (Gen.ts_vsum.post w g (some x)).n = (cnt1.remove m x).n := by
  cases x <;> simp [Gen.ts_vsum.post, cnt1, Mom.remove, h]
theorem ts_vsum_emit (sqrt : Rat → Rat) (w mp : Nat) (g : Gen.ts_vsum.St) (m : Mom) (v : Option Rat) (h : g.n = m.n) :
    Masked mp (Gen.ts_vsum.emit sqrt w mp g v) (cnt1.emit m) := by
  intro hlt
  have hlt' : ¬ (g.n ≥ mp) := by simp only [cnt1] at hlt; omega
  simp only [Gen.ts_vsum.emit, decide_eq_true_eq, if_neg hlt']
theorem ts_vsum_step (sqrt : Rat → Rat) (w mp : Nat) (g : Gen.ts_vsum.St) (m : Mom) (rm : Option (Option Rat)) (v : Option Rat) (h : g.n = m.n) :
    (Gen.ts_vsum.step sqrt w mp g rm v).1.n = (cnt1.step m (rm.map id) (id v)).1.n ∧
    Masked mp (Gen.ts_vsum.step sqrt w mp g rm v).2 (cnt1.step m (rm.map id) (id v)).2 :=
  hstep_of_parts id (Gen.ts_vsum.step sqrt w mp) (Gen.ts_vsum.pre sqrt w mp) (Gen.ts_vsum.post w) (Gen.ts_vsum.add w)
    (Gen.ts_vsum.emit sqrt w mp) cnt1 (fun g m => g.n = m.n) (Masked mp)
    (Gen.ts_vsum.step_eq sqrt w mp) (Gen.ts_vsum.pre_eq sqrt w mp) (ts_vsum_add w) (ts_vsum_post w) (fun _ => rfl)
    (ts_vsum_emit sqrt w mp) g m rm v h
theorem ts_vsum_minPeriods (w : Nat) (mp : Option Nat) : Gen.ts_vsum.minPeriods w mp = effMp mp w 0 := by
  simp [Gen.ts_vsum.minPeriods, effMp]
theorem ts_vsum_length (sqrt : Rat → Rat) (sh : Shape) (xs : List (Option Rat)) (w mp : Nat) (hw : 1 ≤ w) :
    (genRun (Gen.ts_vsum.step sqrt w mp) (Gen.ts_vsum.init w) (applyCalls sh xs w)).length = xs.length := by
  rw [genRun_length, C02.applyCalls_length sh xs w hw]
/-- fewer valid elements in the window than `mp`: the regenerated closure returns the NaN literal -/
theorem ts_vsum_warmup (sqrt : Rat → Rat) (sh : Shape) (xs : List (Option Rat)) (w mp : Nat) (hw : 1 ≤ w)
    (i : Nat) (hi : i < xs.length) (h : (vwin xs i w).length < mp) :
    (genRun (Gen.ts_vsum.step sqrt w mp) (Gen.ts_vsum.init w) (applyCalls sh xs w))[i]? = some none := by
  have hs := run_sim id _ cnt1 (fun g m => g.n = m.n) (Masked mp) (ts_vsum_step sqrt w mp)
    (applyCalls sh xs w) (Gen.ts_vsum.init w) Mom.zero (by simp [Gen.ts_vsum.init, Mom.zero])
  rw [mapCalls_id, cnt1_run sh xs w hw] at hs
  obtain ⟨o, ho, hm⟩ := nth_of_forall2 hs i (vwin xs i w).length (by
    simp only [List.getElem?_map, List.length_map, List.getElem?_range hi, Option.map_some])
  rw [ho, hm h]

/-! ### `ts_vmean` -/
theorem ts_vmean_add (w : Nat) (g : Gen.ts_vmean.St) (m : Mom) (v : Option Rat) (h : g.n = m.n) :
    (Gen.ts_vmean.add w g v).n = (cnt1.add m v).n := by
  cases v <;> simp [Gen.ts_vmean.add, cnt1, Mom.add, h]
theorem ts_vmean_post (w : Nat) (g : Gen.ts_vmean.St) (m : Mom) (x : Option Rat) (h : g.n = m.n) :
    (Gen.ts_vmean.post w g (some x)).n = (cnt1.remove m x).n := by
  cases x <;> simp [Gen.ts_vmean.post, cnt1, Mom.remove, h]
theorem ts_vmean_emit (sqrt : Rat → Rat) (w mp : Nat) (g : Gen.ts_vmean.St) (m : Mom) (v : Option Rat) (h : g.n = m.n) :
    Masked mp (Gen.ts_vmean.emit sqrt w mp g v) (cnt1.emit m) := by
  intro hlt
  have hlt' : ¬ (g.n ≥ mp) := by simp only [cnt1] at hlt; omega
  simp only [Gen.ts_vmean.emit, decide_eq_true_eq, if_neg hlt']
theorem ts_vmean_step (sqrt : Rat → Rat) (w mp : Nat) (g : Gen.ts_vmean.St) (m : Mom) (rm : Option (Option Rat)) (v : Option Rat) (h : g.n = m.n) :
    (Gen.ts_vmean.step sqrt w mp g rm v).1.n = (cnt1.step m (rm.map id) (id v)).1.n ∧
    Masked mp (Gen.ts_vmean.step sqrt w mp g rm v).2 (cnt1.step m (rm.map id) (id v)).2 :=
  hstep_of_parts id (Gen.ts_vmean.step sqrt w mp) (Gen.ts_vmean.pre sqrt w mp) (Gen.ts_vmean.post w) (Gen.ts_vmean.add w)
    (Gen.ts_vmean.emit sqrt w mp) cnt1 (fun g m => g.n = m.n) (Masked mp)
    (Gen.ts_vmean.step_eq sqrt w mp) (Gen.ts_vmean.pre_eq sqrt w mp) (ts_vmean_add w) (ts_vmean_post w) (fun _ => rfl)
    (ts_vmean_emit sqrt w mp) g m rm v h
theorem ts_vmean_minPeriods (w : Nat) (mp : Option Nat) : Gen.ts_vmean.minPeriods w mp = effMp mp w 0 := by
  simp [Gen.ts_vmean.minPeriods, effMp]
theorem ts_vmean_length (sqrt : Rat → Rat) (sh : Shape) (xs : List (Option Rat)) (w mp : Nat) (hw : 1 ≤ w) :
    (genRun (Gen.ts_vmean.step sqrt w mp) (Gen.ts_vmean.init w) (applyCalls sh xs w)).length = xs.length := by
  rw [genRun_length, C02.applyCalls_length sh xs w hw]
/-- fewer valid elements in the window than `mp`: the regenerated closure returns the NaN literal -/
theorem ts_vmean_warmup (sqrt : Rat → Rat) (sh : Shape) (xs : List (Option Rat)) (w mp : Nat) (hw : 1 ≤ w)
    (i : Nat) (hi : i < xs.length) (h : (vwin xs i w).length < mp) :
    (genRun (Gen.ts_vmean.step sqrt w mp) (Gen.ts_vmean.init w) (applyCalls sh xs w))[i]? = some none := by
  have hs := run_sim id _ cnt1 (fun g m => g.n = m.n) (Masked mp) (ts_vmean_step sqrt w mp)
    (applyCalls sh xs w) (Gen.ts_vmean.init w) Mom.zero (by simp [Gen.ts_vmean.init, Mom.zero])
  rw [mapCalls_id, cnt1_run sh xs w hw] at hs
  obtain ⟨o, ho, hm⟩ := nth_of_forall2 hs i (vwin xs i w).length (by
    simp only [List.getElem?_map, List.length_map, List.getElem?_range hi, Option.map_some])
  rw [ho, hm h]

/-! ### `ts_vewm` -/
theorem ts_vewm_add (w : Nat) (g : Gen.ts_vewm.St) (m : Mom) (v : Option Rat) (h : g.n = m.n) :
    (Gen.ts_vewm.add w g v).n = (cnt1.add m v).n := by
  cases v <;> simp [Gen.ts_vewm.add, cnt1, Mom.add, h]
theorem ts_vewm_post (w : Nat) (g : Gen.ts_vewm.St) (m : Mom) (x : Option Rat) (h : g.n = m.n) :
    (Gen.ts_vewm.post w g (some x)).n = (cnt1.remove m x).n := by
  cases x <;> simp [Gen.ts_vewm.post, cnt1, Mom.remove, h]
theorem ts_vewm_emit (sqrt : Rat → Rat) (w mp : Nat) (g : Gen.ts_vewm.St) (m : Mom) (v : Option Rat) (h : g.n = m.n) :
    Masked mp (Gen.ts_vewm.emit sqrt w mp g v) (cnt1.emit m) := by
  intro hlt
  have hlt' : ¬ (g.n ≥ mp) := by simp only [cnt1] at hlt; omega
  simp only [Gen.ts_vewm.emit, decide_eq_true_eq, if_neg hlt']
theorem ts_vewm_step (sqrt : Rat → Rat) (w mp : Nat) (g : Gen.ts_vewm.St) (m : Mom) (rm : Option (Option Rat)) (v : Option Rat) (h : g.n = m.n) :
    (Gen.ts_vewm.step sqrt w mp g rm v).1.n = (cnt1.step m (rm.map id) (id v)).1.n ∧
    Masked mp (Gen.ts_vewm.step sqrt w mp g rm v).2 (cnt1.step m (rm.map id) (id v)).2 :=
  hstep_of_parts id (Gen.ts_vewm.step sqrt w mp) (Gen.ts_vewm.pre sqrt w mp) (Gen.ts_vewm.post w) (Gen.ts_vewm.add w)
    (Gen.ts_vewm.emit sqrt w mp) cnt1 (fun g m => g.n = m.n) (Masked mp)
    (Gen.ts_vewm.step_eq sqrt w mp) (Gen.ts_vewm.pre_eq sqrt w mp) (ts_vewm_add w) (ts_vewm_post w) (fun _ => rfl)
    (ts_vewm_emit sqrt w mp) g m rm v h
theorem ts_vewm_minPeriods (w : Nat) (mp : Option Nat) : Gen.ts_vewm.minPeriods w mp = effMp mp w 0 := by
  simp [Gen.ts_vewm.minPeriods, effMp]
theorem ts_vewm_length (sqrt : Rat → Rat) (sh : Shape) (xs : List (Option Rat)) (w mp : Nat) (hw : 1 ≤ w) :
    (genRun (Gen.ts_vewm.step sqrt w mp) (Gen.ts_vewm.init w) (applyCalls sh xs w)).length = xs.length := by
  rw [genRun_length, C02.applyCalls_length sh xs w hw]
/-- fewer valid elements in the window than `mp`: the regenerated closure returns the NaN literal -/
theorem ts_vewm_warmup (sqrt : Rat → Rat) (sh : Shape) (xs : List (Option Rat)) (w mp : Nat) (hw : 1 ≤ w)
    (i : Nat) (hi : i < xs.length) (h : (vwin xs i w).length < mp) :
    (genRun (Gen.ts_vewm.step sqrt w mp) (Gen.ts_vewm.init w) (applyCalls sh xs w))[i]? = some none := by
  have hs := run_sim id _ cnt1 (fun g m => g.n = m.n) (Masked mp) (ts_vewm_step sqrt w mp)
    (applyCalls sh xs w) (Gen.ts_vewm.init w) Mom.zero (by simp [Gen.ts_vewm.init, Mom.zero])
  rw [mapCalls_id, cnt1_run sh xs w hw] at hs
  obtain ⟨o, ho, hm⟩ := nth_of_forall2 hs i (vwin xs i w).length (by
    simp only [List.getElem?_map, List.length_map, List.getElem?_range hi, Option.map_some])
  rw [ho, hm h]

/-! ### `ts_vwma` -/
theorem ts_vwma_add (w : Nat) (g : Gen.ts_vwma.St) (m : Mom) (v : Option Rat) (h : g.n = m.n) :
    (Gen.ts_vwma.add w g v).n = (cnt1.add m v).n := by
  cases v <;> simp [Gen.ts_vwma.add, cnt1, Mom.add, h]
theorem ts_vwma_post (w : Nat) (g : Gen.ts_vwma.St) (m : Mom) (x : Option Rat) (h : g.n = m.n) :
    (Gen.ts_vwma.post w g (some x)).n = (cnt1.remove m x).n := by
  cases x <;> simp [Gen.ts_vwma.post, cnt1, Mom.remove, h]
theorem ts_vwma_emit (sqrt : Rat → Rat) (w mp : Nat) (g : Gen.ts_vwma.St) (m : Mom) (v : Option Rat) (h : g.n = m.n) :
    Masked mp (Gen.ts_vwma.emit sqrt w mp g v) (cnt1.emit m) := by
  intro hlt
  have hlt' : ¬ (g.n ≥ mp) := by simp only [cnt1] at hlt; omega
  simp only [Gen.ts_vwma.emit, decide_eq_true_eq, if_neg hlt']
theorem ts_vwma_step (sqrt : Rat → Rat) (w mp : Nat) (g : Gen.ts_vwma.St) (m : Mom) (rm : Option (Option Rat)) (v : Option Rat) (h : g.n = m.n) :
    (Gen.ts_vwma.step sqrt w mp g rm v).1.n = (cnt1.step m (rm.map id) (id v)).1.n ∧
    Masked mp (Gen.ts_vwma.step sqrt w mp g rm v).2 (cnt1.step m (rm.map id) (id v)).2 :=
  hstep_of_parts id (Gen.ts_vwma.step sqrt w mp) (Gen.ts_vwma.pre sqrt w mp) (Gen.ts_vwma.post w) (Gen.ts_vwma.add w)
    (Gen.ts_vwma.emit sqrt w mp) cnt1 (fun g m => g.n = m.n) (Masked mp)
    (Gen.ts_vwma.step_eq sqrt w mp) (Gen.ts_vwma.pre_eq sqrt w mp) (ts_vwma_add w) (ts_vwma_post w) (fun _ => rfl)
    (ts_vwma_emit sqrt w mp) g m rm v h
theorem ts_vwma_minPeriods (w : Nat) (mp : Option Nat) : Gen.ts_vwma.minPeriods w mp = effMp mp w 0 := by
  simp [Gen.ts_vwma.minPeriods, effMp]
theorem ts_vwma_length (sqrt : Rat → Rat) (sh : Shape) (xs : List (Option Rat)) (w mp : Nat) (hw : 1 ≤ w) :
    (genRun (Gen.ts_vwma.step sqrt w mp) (Gen.ts_vwma.init w) (applyCalls sh xs w)).length = xs.length := by
  rw [genRun_length, C02.applyCalls_length sh xs w hw]
/-- fewer valid elements in the window than `mp`: the regenerated closure returns the NaN literal -/
theorem ts_vwma_warmup (sqrt : Rat → Rat) (sh : Shape) (xs : List (Option Rat)) (w mp : Nat) (hw : 1 ≤ w)
    (i : Nat) (hi : i < xs.length) (h : (vwin xs i w).length < mp) :
    (genRun (Gen.ts_vwma.step sqrt w mp) (Gen.ts_vwma.init w) (applyCalls sh xs w))[i]? = some none := by
  have hs := run_sim id _ cnt1 (fun g m => g.n = m.n) (Masked mp) (ts_vwma_step sqrt w mp)
    (applyCalls sh xs w) (Gen.ts_vwma.init w) Mom.zero (by simp [Gen.ts_vwma.init, Mom.zero])
  rw [mapCalls_id, cnt1_run sh xs w hw] at hs
  obtain ⟨o, ho, hm⟩ := nth_of_forall2 hs i (vwin xs i w).length (by
    simp only [List.getElem?_map, List.length_map, List.getElem?_range hi, Option.map_some])
  rw [ho, hm h]

/-! ### `ts_vstd` -/
theorem ts_vstd_add (w : Nat) (g : Gen.ts_vstd.St) (m : Mom) (v : Option Rat) (h : g.n = m.n) :
    (Gen.ts_vstd.add w g v).n = (cnt1.add m v).n := by
  cases v <;> simp [Gen.ts_vstd.add, cnt1, Mom.add, h]
theorem ts_vstd_post (w : Nat) (g : Gen.ts_vstd.St) (m : Mom) (x : Option Rat) (h : g.n = m.n) :
    (Gen.ts_vstd.post w g (some x)).n = (cnt1.remove m x).n := by
  cases x <;> simp [Gen.ts_vstd.post, cnt1, Mom.remove, h]
theorem ts_vstd_emit (sqrt : Rat → Rat) (w mp : Nat) (g : Gen.ts_vstd.St) (m : Mom) (v : Option Rat) (h : g.n = m.n) :
    Masked mp (Gen.ts_vstd.emit sqrt w mp g v) (cnt1.emit m) := by
  intro hlt
  have hlt' : ¬ (g.n ≥ mp) := by simp only [cnt1] at hlt; omega
  simp only [Gen.ts_vstd.emit, decide_eq_true_eq, if_neg hlt']
theorem ts_vstd_step (sqrt : Rat → Rat) (w mp : Nat) (g : Gen.ts_vstd.St) (m : Mom) (rm : Option (Option Rat)) (v : Option Rat) (h : g.n = m.n) :
    (Gen.ts_vstd.step sqrt w mp g rm v).1.n = (cnt1.step m (rm.map id) (id v)).1.n ∧
    Masked mp (Gen.ts_vstd.step sqrt w mp g rm v).2 (cnt1.step m (rm.map id) (id v)).2 :=
  hstep_of_parts id (Gen.ts_vstd.step sqrt w mp) (Gen.ts_vstd.pre sqrt w mp) (Gen.ts_vstd.post w) (Gen.ts_vstd.add w)
    (Gen.ts_vstd.emit sqrt w mp) cnt1 (fun g m => g.n = m.n) (Masked mp)
    (Gen.ts_vstd.step_eq sqrt w mp) (Gen.ts_vstd.pre_eq sqrt w mp) (ts_vstd_add w) (ts_vstd_post w) (fun _ => rfl)
    (ts_vstd_emit sqrt w mp) g m rm v h
theorem ts_vstd_minPeriods (w : Nat) (mp : Option Nat) : Gen.ts_vstd.minPeriods w mp = effMp mp w 2 := by
  simp [Gen.ts_vstd.minPeriods, effMp]
theorem ts_vstd_length (sqrt : Rat → Rat) (sh : Shape) (xs : List (Option Rat)) (w mp : Nat) (hw : 1 ≤ w) :
    (genRun (Gen.ts_vstd.step sqrt w mp) (Gen.ts_vstd.init w) (applyCalls sh xs w)).length = xs.length := by
  rw [genRun_length, C02.applyCalls_length sh xs w hw]
/-- fewer valid elements in the window than `mp`: the regenerated closure returns the NaN literal -/
theorem ts_vstd_warmup (sqrt : Rat → Rat) (sh : Shape) (xs : List (Option Rat)) (w mp : Nat) (hw : 1 ≤ w)
    (i : Nat) (hi : i < xs.length) (h : (vwin xs i w).length < mp) :
    (genRun (Gen.ts_vstd.step sqrt w mp) (Gen.ts_vstd.init w) (applyCalls sh xs w))[i]? = some none := by
  have hs := run_sim id _ cnt1 (fun g m => g.n = m.n) (Masked mp) (ts_vstd_step sqrt w mp)
    (applyCalls sh xs w) (Gen.ts_vstd.init w) Mom.zero (by simp [Gen.ts_vstd.init, Mom.zero])
  rw [mapCalls_id, cnt1_run sh xs w hw] at hs
  obtain ⟨o, ho, hm⟩ := nth_of_forall2 hs i (vwin xs i w).length (by
    simp only [List.getElem?_map, List.length_map, List.getElem?_range hi, Option.map_some])
  rw [ho, hm h]

/-! ### `ts_vvar` -/
theorem ts_vvar_add (w : Nat) (g : Gen.ts_vvar.St) (m : Mom) (v : Option Rat) (h : g.n = m.n) :
    (Gen.ts_vvar.add w g v).n = (cnt1.add m v).n := by
  cases v <;> simp [Gen.ts_vvar.add, cnt1, Mom.add, h]
theorem ts_vvar_post (w : Nat) (g : Gen.ts_vvar.St) (m : Mom) (x : Option Rat) (h : g.n = m.n) :
    (Gen.ts_vvar.post w g (some x)).n = (cnt1.remove m x).n := by
  cases x <;> simp [Gen.ts_vvar.post, cnt1, Mom.remove, h]
theorem ts_vvar_emit (sqrt : Rat → Rat) (w mp : Nat) (g : Gen.ts_vvar.St) (m : Mom) (v : Option Rat) (h : g.n = m.n) :
    Masked mp (Gen.ts_vvar.emit sqrt w mp g v) (cnt1.emit m) := by
  intro hlt
  have hlt' : ¬ (g.n ≥ mp) := by simp only [cnt1] at hlt; omega
  simp only [Gen.ts_vvar.emit, decide_eq_true_eq, if_neg hlt']
theorem ts_vvar_step (sqrt : Rat → Rat) (w mp : Nat) (g : Gen.ts_vvar.St) (m : Mom) (rm : Option (Option Rat)) (v : Option Rat) (h : g.n = m.n) :
    (Gen.ts_vvar.step sqrt w mp g rm v).1.n = (cnt1.step m (rm.map id) (id v)).1.n ∧
    Masked mp (Gen.ts_vvar.step sqrt w mp g rm v).2 (cnt1.step m (rm.map id) (id v)).2 :=
  hstep_of_parts id (Gen.ts_vvar.step sqrt w mp) (Gen.ts_vvar.pre sqrt w mp) (Gen.ts_vvar.post w) (Gen.ts_vvar.add w)
    (Gen.ts_vvar.emit sqrt w mp) cnt1 (fun g m => g.n = m.n) (Masked mp)
    (Gen.ts_vvar.step_eq sqrt w mp) (Gen.ts_vvar.pre_eq sqrt w mp) (ts_vvar_add w) (ts_vvar_post w) (fun _ => rfl)
    (ts_vvar_emit sqrt w mp) g m rm v h
theorem ts_vvar_minPeriods (w : Nat) (mp : Option Nat) : Gen.ts_vvar.minPeriods w mp = effMp mp w 2 := by
  simp [Gen.ts_vvar.minPeriods, effMp]
theorem ts_vvar_length (sqrt : Rat → Rat) (sh : Shape) (xs : List (Option Rat)) (w mp : Nat) (hw : 1 ≤ w) :
    (genRun (Gen.ts_vvar.step sqrt w mp) (Gen.ts_vvar.init w) (applyCalls sh xs w)).length = xs.length := by
  rw [genRun_length, C02.applyCalls_length sh xs w hw]
/-- fewer valid elements in the window than `mp`: the regenerated closure returns the NaN literal -/
theorem ts_vvar_warmup (sqrt : Rat → Rat) (sh : Shape) (xs : List (Option Rat)) (w mp : Nat) (hw : 1 ≤ w)
    (i : Nat) (hi : i < xs.length) (h : (vwin xs i w).length < mp) :
    (genRun (Gen.ts_vvar.step sqrt w mp) (Gen.ts_vvar.init w) (applyCalls sh xs w))[i]? = some none := by
  have hs := run_sim id _ cnt1 (fun g m => g.n = m.n) (Masked mp) (ts_vvar_step sqrt w mp)
    (applyCalls sh xs w) (Gen.ts_vvar.init w) Mom.zero (by simp [Gen.ts_vvar.init, Mom.zero])
  rw [mapCalls_id, cnt1_run sh xs w hw] at hs
  obtain ⟨o, ho, hm⟩ := nth_of_forall2 hs i (vwin xs i w).length (by
    simp only [List.getElem?_map, List.length_map, List.getElem?_range hi, Option.map_some])
  rw [ho, hm h]

/-! ### `ts_vskew` -/
theorem ts_vskew_add (w : Nat) (g : Gen.ts_vskew.St) (m : Mom) (v : Option Rat) (h : g.n = m.n) :
    (Gen.ts_vskew.add w g v).n = (cnt1.add m v).n := by
  cases v <;> simp [Gen.ts_vskew.add, cnt1, Mom.add, h]
theorem ts_vskew_post (w : Nat) (g : Gen.ts_vskew.St) (m : Mom) (x : Option Rat) (h : g.n = m.n) :
    (Gen.ts_vskew.post w g (some x)).n = (cnt1.remove m x).n := by
  cases x <;> simp [Gen.ts_vskew.post, cnt1, Mom.remove, h]
theorem ts_vskew_emit (sqrt : Rat → Rat) (w mp : Nat) (g : Gen.ts_vskew.St) (m : Mom) (v : Option Rat) (h : g.n = m.n) :
    Masked mp (Gen.ts_vskew.emit sqrt w mp g v) (cnt1.emit m) := by
  intro hlt
  have hlt' : ¬ (g.n ≥ mp) := by simp only [cnt1] at hlt; omega
  simp only [Gen.ts_vskew.emit, decide_eq_true_eq, if_neg hlt']
theorem ts_vskew_step (sqrt : Rat → Rat) (w mp : Nat) (g : Gen.ts_vskew.St) (m : Mom) (rm : Option (Option Rat)) (v : Option Rat) (h : g.n = m.n) :
    (Gen.ts_vskew.step sqrt w mp g rm v).1.n = (cnt1.step m (rm.map id) (id v)).1.n ∧
    Masked mp (Gen.ts_vskew.step sqrt w mp g rm v).2 (cnt1.step m (rm.map id) (id v)).2 :=
  hstep_of_parts id (Gen.ts_vskew.step sqrt w mp) (Gen.ts_vskew.pre sqrt w mp) (Gen.ts_vskew.post w) (Gen.ts_vskew.add w)
    (Gen.ts_vskew.emit sqrt w mp) cnt1 (fun g m => g.n = m.n) (Masked mp)
    (Gen.ts_vskew.step_eq sqrt w mp) (Gen.ts_vskew.pre_eq sqrt w mp) (ts_vskew_add w) (ts_vskew_post w) (fun _ => rfl)
    (ts_vskew_emit sqrt w mp) g m rm v h
theorem ts_vskew_minPeriods (w : Nat) (mp : Option Nat) : Gen.ts_vskew.minPeriods w mp = effMp mp w 3 := by
  simp [Gen.ts_vskew.minPeriods, effMp]
theorem ts_vskew_length (sqrt : Rat → Rat) (sh : Shape) (xs : List (Option Rat)) (w mp : Nat) (hw : 1 ≤ w) :
    (genRun (Gen.ts_vskew.step sqrt w mp) (Gen.ts_vskew.init w) (applyCalls sh xs w)).length = xs.length := by
  rw [genRun_length, C02.applyCalls_length sh xs w hw]
/-- fewer valid elements in the window than `mp`: the regenerated closure returns the NaN literal -/
theorem ts_vskew_warmup (sqrt : Rat → Rat) (sh : Shape) (xs : List (Option Rat)) (w mp : Nat) (hw : 1 ≤ w)
    (i : Nat) (hi : i < xs.length) (h : (vwin xs i w).length < mp) :
    (genRun (Gen.ts_vskew.step sqrt w mp) (Gen.ts_vskew.init w) (applyCalls sh xs w))[i]? = some none := by
  have hs := run_sim id _ cnt1 (fun g m => g.n = m.n) (Masked mp) (ts_vskew_step sqrt w mp)
    (applyCalls sh xs w) (Gen.ts_vskew.init w) Mom.zero (by simp [Gen.ts_vskew.init, Mom.zero])
  rw [mapCalls_id, cnt1_run sh xs w hw] at hs
  obtain ⟨o, ho, hm⟩ := nth_of_forall2 hs i (vwin xs i w).length (by
    simp only [List.getElem?_map, List.length_map, List.getElem?_range hi, Option.map_some])
  rw [ho, hm h]

/-! ### `ts_vkurt` -/
theorem ts_vkurt_add (w : Nat) (g : Gen.ts_vkurt.St) (m : Mom) (v : Option Rat) (h : g.n = m.n) :
    (Gen.ts_vkurt.add w g v).n = (cnt1.add m v).n := by
  cases v <;> simp [Gen.ts_vkurt.add, cnt1, Mom.add, h]
theorem ts_vkurt_post (w : Nat) (g : Gen.ts_vkurt.St) (m : Mom) (x : Option Rat) (h : g.n = m.n) :
    (Gen.ts_vkurt.post w g (some x)).n = (cnt1.remove m x).n := by
  cases x <;> simp [Gen.ts_vkurt.post, cnt1, Mom.remove, h]
theorem ts_vkurt_emit (sqrt : Rat → Rat) (w mp : Nat) (g : Gen.ts_vkurt.St) (m : Mom) (v : Option Rat) (h : g.n = m.n) :
    Masked mp (Gen.ts_vkurt.emit sqrt w mp g v) (cnt1.emit m) := by
  intro hlt
  have hlt' : ¬ (g.n ≥ mp) := by simp only [cnt1] at hlt; omega
  simp only [Gen.ts_vkurt.emit, decide_eq_true_eq, if_neg hlt']
theorem ts_vkurt_step (sqrt : Rat → Rat) (w mp : Nat) (g : Gen.ts_vkurt.St) (m : Mom) (rm : Option (Option Rat)) (v : Option Rat) (h : g.n = m.n) :
    (Gen.ts_vkurt.step sqrt w mp g rm v).1.n = (cnt1.step m (rm.map id) (id v)).1.n ∧
    Masked mp (Gen.ts_vkurt.step sqrt w mp g rm v).2 (cnt1.step m (rm.map id) (id v)).2 :=
  hstep_of_parts id (Gen.ts_vkurt.step sqrt w mp) (Gen.ts_vkurt.pre sqrt w mp) (Gen.ts_vkurt.post w) (Gen.ts_vkurt.add w)
    (Gen.ts_vkurt.emit sqrt w mp) cnt1 (fun g m => g.n = m.n) (Masked mp)
    (Gen.ts_vkurt.step_eq sqrt w mp) (Gen.ts_vkurt.pre_eq sqrt w mp) (ts_vkurt_add w) (ts_vkurt_post w) (fun _ => rfl)
    (ts_vkurt_emit sqrt w mp) g m rm v h
theorem ts_vkurt_minPeriods (w : Nat) (mp : Option Nat) : Gen.ts_vkurt.minPeriods w mp = effMp mp w 4 := by
  simp [Gen.ts_vkurt.minPeriods, effMp]
theorem ts_vkurt_length (sqrt : Rat → Rat) (sh : Shape) (xs : List (Option Rat)) (w mp : Nat) (hw : 1 ≤ w) :
    (genRun (Gen.ts_vkurt.step sqrt w mp) (Gen.ts_vkurt.init w) (applyCalls sh xs w)).length = xs.length := by
  rw [genRun_length, C02.applyCalls_length sh xs w hw]
/-- fewer valid elements in the window than `mp`: the regenerated closure returns the NaN literal -/
theorem ts_vkurt_warmup (sqrt : Rat → Rat) (sh : Shape) (xs : List (Option Rat)) (w mp : Nat) (hw : 1 ≤ w)
    (i : Nat) (hi : i < xs.length) (h : (vwin xs i w).length < mp) :
    (genRun (Gen.ts_vkurt.step sqrt w mp) (Gen.ts_vkurt.init w) (applyCalls sh xs w))[i]? = some none := by
  have hs := run_sim id _ cnt1 (fun g m => g.n = m.n) (Masked mp) (ts_vkurt_step sqrt w mp)
    (applyCalls sh xs w) (Gen.ts_vkurt.init w) Mom.zero (by simp [Gen.ts_vkurt.init, Mom.zero])
  rw [mapCalls_id, cnt1_run sh xs w hw] at hs
  obtain ⟨o, ho, hm⟩ := nth_of_forall2 hs i (vwin xs i w).length (by
    simp only [List.getElem?_map, List.length_map, List.getElem?_range hi, Option.map_some])
  rw [ho, hm h]

/-! ### `ts_vreg` -/
theorem ts_vreg_add (w : Nat) (g : Gen.ts_vreg.St) (m : Mom) (v : Option Rat) (h : g.n = m.n) :
    (Gen.ts_vreg.add w g v).n = (cnt1.add m v).n := by
  cases v <;> simp [Gen.ts_vreg.add, cnt1, Mom.add, h]
theorem ts_vreg_post (w : Nat) (g : Gen.ts_vreg.St) (m : Mom) (x : Option Rat) (h : g.n = m.n) :
    (Gen.ts_vreg.post w g (some x)).n = (cnt1.remove m x).n := by
  cases x <;> simp [Gen.ts_vreg.post, cnt1, Mom.remove, h]
theorem ts_vreg_emit (sqrt : Rat → Rat) (w mp : Nat) (g : Gen.ts_vreg.St) (m : Mom) (v : Option Rat) (h : g.n = m.n) :
    Masked mp (Gen.ts_vreg.emit sqrt w mp g v) (cnt1.emit m) := by
  intro hlt
  have hlt' : ¬ (g.n ≥ mp) := by simp only [cnt1] at hlt; omega
  simp only [Gen.ts_vreg.emit, decide_eq_true_eq, if_neg hlt']
theorem ts_vreg_step (sqrt : Rat → Rat) (w mp : Nat) (g : Gen.ts_vreg.St) (m : Mom) (rm : Option (Option Rat)) (v : Option Rat) (h : g.n = m.n) :
    (Gen.ts_vreg.step sqrt w mp g rm v).1.n = (cnt1.step m (rm.map id) (id v)).1.n ∧
    Masked mp (Gen.ts_vreg.step sqrt w mp g rm v).2 (cnt1.step m (rm.map id) (id v)).2 :=
  hstep_of_parts id (Gen.ts_vreg.step sqrt w mp) (Gen.ts_vreg.pre sqrt w mp) (Gen.ts_vreg.post w) (Gen.ts_vreg.add w)
    (Gen.ts_vreg.emit sqrt w mp) cnt1 (fun g m => g.n = m.n) (Masked mp)
    (Gen.ts_vreg.step_eq sqrt w mp) (Gen.ts_vreg.pre_eq sqrt w mp) (ts_vreg_add w) (ts_vreg_post w) (fun _ => rfl)
    (ts_vreg_emit sqrt w mp) g m rm v h
theorem ts_vreg_minPeriods (w : Nat) (mp : Option Nat) : Gen.ts_vreg.minPeriods w mp = effMp mp w 0 := by
  simp [Gen.ts_vreg.minPeriods, effMp]
theorem ts_vreg_length (sqrt : Rat → Rat) (sh : Shape) (xs : List (Option Rat)) (w mp : Nat) (hw : 1 ≤ w) :
    (genRun (Gen.ts_vreg.step sqrt w mp) (Gen.ts_vreg.init w) (applyCalls sh xs w)).length = xs.length := by
  rw [genRun_length, C02.applyCalls_length sh xs w hw]
/-- fewer valid elements in the window than `mp`: the regenerated closure returns the NaN literal -/
theorem ts_vreg_warmup (sqrt : Rat → Rat) (sh : Shape) (xs : List (Option Rat)) (w mp : Nat) (hw : 1 ≤ w)
    (i : Nat) (hi : i < xs.length) (h : (vwin xs i w).length < mp) :
    (genRun (Gen.ts_vreg.step sqrt w mp) (Gen.ts_vreg.init w) (applyCalls sh xs w))[i]? = some none := by
  have hs := run_sim id _ cnt1 (fun g m => g.n = m.n) (Masked mp) (ts_vreg_step sqrt w mp)
    (applyCalls sh xs w) (Gen.ts_vreg.init w) Mom.zero (by simp [Gen.ts_vreg.init, Mom.zero])
  rw [mapCalls_id, cnt1_run sh xs w hw] at hs
  obtain ⟨o, ho, hm⟩ := nth_of_forall2 hs i (vwin xs i w).length (by
    simp only [List.getElem?_map, List.length_map, List.getElem?_range hi, Option.map_some])
  rw [ho, hm h]

/-! ### `ts_vtsf` -/
theorem ts_vtsf_add (w : Nat) (g : Gen.ts_vtsf.St) (m : Mom) (v : Option Rat) (h : g.n = m.n) :
    (Gen.ts_vtsf.add w g v).n = (cnt1.add m v).n := by
  cases v <;> simp [Gen.ts_vtsf.add, cnt1, Mom.add, h]
theorem ts_vtsf_post (w : Nat) (g : Gen.ts_vtsf.St) (m : Mom) (x : Option Rat) (h : g.n = m.n) :
    (Gen.ts_vtsf.post w g (some x)).n = (cnt1.remove m x).n := by
  cases x <;> simp [Gen.ts_vtsf.post, cnt1, Mom.remove, h]
theorem ts_vtsf_emit (sqrt : Rat → Rat) (w mp : Nat) (g : Gen.ts_vtsf.St) (m : Mom) (v : Option Rat) (h : g.n = m.n) :
    Masked mp (Gen.ts_vtsf.emit sqrt w mp g v) (cnt1.emit m) := by
  intro hlt
  have hlt' : ¬ (g.n ≥ mp) := by simp only [cnt1] at hlt; omega
  simp only [Gen.ts_vtsf.emit, decide_eq_true_eq, if_neg hlt']
theorem ts_vtsf_step (sqrt : Rat → Rat) (w mp : Nat) (g : Gen.ts_vtsf.St) (m : Mom) (rm : Option (Option Rat)) (v : Option Rat) (h : g.n = m.n) :
    (Gen.ts_vtsf.step sqrt w mp g rm v).1.n = (cnt1.step m (rm.map id) (id v)).1.n ∧
    Masked mp (Gen.ts_vtsf.step sqrt w mp g rm v).2 (cnt1.step m (rm.map id) (id v)).2 :=
  hstep_of_parts id (Gen.ts_vtsf.step sqrt w mp) (Gen.ts_vtsf.pre sqrt w mp) (Gen.ts_vtsf.post w) (Gen.ts_vtsf.add w)
    (Gen.ts_vtsf.emit sqrt w mp) cnt1 (fun g m => g.n = m.n) (Masked mp)
    (Gen.ts_vtsf.step_eq sqrt w mp) (Gen.ts_vtsf.pre_eq sqrt w mp) (ts_vtsf_add w) (ts_vtsf_post w) (fun _ => rfl)
    (ts_vtsf_emit sqrt w mp) g m rm v h
theorem ts_vtsf_minPeriods (w : Nat) (mp : Option Nat) : Gen.ts_vtsf.minPeriods w mp = effMp mp w 0 := by
  simp [Gen.ts_vtsf.minPeriods, effMp]
theorem ts_vtsf_length (sqrt : Rat → Rat) (sh : Shape) (xs : List (Option Rat)) (w mp : Nat) (hw : 1 ≤ w) :
    (genRun (Gen.ts_vtsf.step sqrt w mp) (Gen.ts_vtsf.init w) (applyCalls sh xs w)).length = xs.length := by
  rw [genRun_length, C02.applyCalls_length sh xs w hw]
/-- fewer valid elements in the window than `mp`: the regenerated closure returns the NaN literal -/
theorem ts_vtsf_warmup (sqrt : Rat → Rat) (sh : Shape) (xs : List (Option Rat)) (w mp : Nat) (hw : 1 ≤ w)
    (i : Nat) (hi : i < xs.length) (h : (vwin xs i w).length < mp) :
    (genRun (Gen.ts_vtsf.step sqrt w mp) (Gen.ts_vtsf.init w) (applyCalls sh xs w))[i]? = some none := by
  have hs := run_sim id _ cnt1 (fun g m => g.n = m.n) (Masked mp) (ts_vtsf_step sqrt w mp)
    (applyCalls sh xs w) (Gen.ts_vtsf.init w) Mom.zero (by simp [Gen.ts_vtsf.init, Mom.zero])
  rw [mapCalls_id, cnt1_run sh xs w hw] at hs
  obtain ⟨o, ho, hm⟩ := nth_of_forall2 hs i (vwin xs i w).length (by
    simp only [List.getElem?_map, List.length_map, List.getElem?_range hi, Option.map_some])
  rw [ho, hm h]

/-! ### `ts_vreg_slope` -/
theorem ts_vreg_slope_add (w : Nat) (g : Gen.ts_vreg_slope.St) (m : Mom) (v : Option Rat) (h : g.n = m.n) :
    (Gen.ts_vreg_slope.add w g v).n = (cnt1.add m v).n := by
  cases v <;> simp [Gen.ts_vreg_slope.add, cnt1, Mom.add, h]
theorem ts_vreg_slope_post (w : Nat) (g : Gen.ts_vreg_slope.St) (m : Mom) (x : Option Rat) (h : g.n = m.n) :
    (Gen.ts_vreg_slope.post w g (some x)).n = (cnt1.remove m x).n := by
  cases x <;> simp [Gen.ts_vreg_slope.post, cnt1, Mom.remove, h]
theorem ts_vreg_slope_emit (sqrt : Rat → Rat) (w mp : Nat) (g : Gen.ts_vreg_slope.St) (m : Mom) (v : Option Rat) (h : g.n = m.n) :
    Masked mp (Gen.ts_vreg_slope.emit sqrt w mp g v) (cnt1.emit m) := by
  intro hlt
  have hlt' : ¬ (g.n ≥ mp) := by simp only [cnt1] at hlt; omega
  simp only [Gen.ts_vreg_slope.emit, decide_eq_true_eq, if_neg hlt']
theorem ts_vreg_slope_step (sqrt : Rat → Rat) (w mp : Nat) (g : Gen.ts_vreg_slope.St) (m : Mom) (rm : Option (Option Rat)) (v : Option Rat) (h : g.n = m.n) :
    (Gen.ts_vreg_slope.step sqrt w mp g rm v).1.n = (cnt1.step m (rm.map id) (id v)).1.n ∧
    Masked mp (Gen.ts_vreg_slope.step sqrt w mp g rm v).2 (cnt1.step m (rm.map id) (id v)).2 :=
  hstep_of_parts id (Gen.ts_vreg_slope.step sqrt w mp) (Gen.ts_vreg_slope.pre sqrt w mp) (Gen.ts_vreg_slope.post w) (Gen.ts_vreg_slope.add w)
    (Gen.ts_vreg_slope.emit sqrt w mp) cnt1 (fun g m => g.n = m.n) (Masked mp)
    (Gen.ts_vreg_slope.step_eq sqrt w mp) (Gen.ts_vreg_slope.pre_eq sqrt w mp) (ts_vreg_slope_add w) (ts_vreg_slope_post w) (fun _ => rfl)
    (ts_vreg_slope_emit sqrt w mp) g m rm v h
theorem ts_vreg_slope_minPeriods (w : Nat) (mp : Option Nat) : Gen.ts_vreg_slope.minPeriods w mp = effMp mp w 0 := by
  simp [Gen.ts_vreg_slope.minPeriods, effMp]
theorem ts_vreg_slope_length (sqrt : Rat → Rat) (sh : Shape) (xs : List (Option Rat)) (w mp : Nat) (hw : 1 ≤ w) :
    (genRun (Gen.ts_vreg_slope.step sqrt w mp) (Gen.ts_vreg_slope.init w) (applyCalls sh xs w)).length = xs.length := by
  rw [genRun_length, C02.applyCalls_length sh xs w hw]
/-- fewer valid elements in the window than `mp`: the regenerated closure returns the NaN literal -/
theorem ts_vreg_slope_warmup (sqrt : Rat → Rat) (sh : Shape) (xs : List (Option Rat)) (w mp : Nat) (hw : 1 ≤ w)
    (i : Nat) (hi : i < xs.length) (h : (vwin xs i w).length < mp) :
    (genRun (Gen.ts_vreg_slope.step sqrt w mp) (Gen.ts_vreg_slope.init w) (applyCalls sh xs w))[i]? = some none := by
  have hs := run_sim id _ cnt1 (fun g m => g.n = m.n) (Masked mp) (ts_vreg_slope_step sqrt w mp)
    (applyCalls sh xs w) (Gen.ts_vreg_slope.init w) Mom.zero (by simp [Gen.ts_vreg_slope.init, Mom.zero])
  rw [mapCalls_id, cnt1_run sh xs w hw] at hs
  obtain ⟨o, ho, hm⟩ := nth_of_forall2 hs i (vwin xs i w).length (by
    simp only [List.getElem?_map, List.length_map, List.getElem?_range hi, Option.map_some])
  rw [ho, hm h]

/-! ### `ts_vreg_intercept` -/
theorem ts_vreg_intercept_add (w : Nat) (g : Gen.ts_vreg_intercept.St) (m : Mom) (v : Option Rat) (h : g.n = m.n) :
    (Gen.ts_vreg_intercept.add w g v).n = (cnt1.add m v).n := by
  cases v <;> simp [Gen.ts_vreg_intercept.add, cnt1, Mom.add, h]
theorem ts_vreg_intercept_post (w : Nat) (g : Gen.ts_vreg_intercept.St) (m : Mom) (x : Option Rat) (h : g.n = m.n) :
    (Gen.ts_vreg_intercept.post w g (some x)).n = (cnt1.remove m x).n := by
  cases x <;> simp [Gen.ts_vreg_intercept.post, cnt1, Mom.remove, h]
theorem ts_vreg_intercept_emit (sqrt : Rat → Rat) (w mp : Nat) (g : Gen.ts_vreg_intercept.St) (m : Mom) (v : Option Rat) (h : g.n = m.n) :
    Masked mp (Gen.ts_vreg_intercept.emit sqrt w mp g v) (cnt1.emit m) := by
  intro hlt
  have hlt' : ¬ (g.n ≥ mp) := by simp only [cnt1] at hlt; omega
  simp only [Gen.ts_vreg_intercept.emit, decide_eq_true_eq, if_neg hlt']
theorem ts_vreg_intercept_step (sqrt : Rat → Rat) (w mp : Nat) (g : Gen.ts_vreg_intercept.St) (m : Mom) (rm : Option (Option Rat)) (v : Option Rat) (h : g.n = m.n) :
    (Gen.ts_vreg_intercept.step sqrt w mp g rm v).1.n = (cnt1.step m (rm.map id) (id v)).1.n ∧
    Masked mp (Gen.ts_vreg_intercept.step sqrt w mp g rm v).2 (cnt1.step m (rm.map id) (id v)).2 :=
  hstep_of_parts id (Gen.ts_vreg_intercept.step sqrt w mp) (Gen.ts_vreg_intercept.pre sqrt w mp) (Gen.ts_vreg_intercept.post w) (Gen.ts_vreg_intercept.add w)
    (Gen.ts_vreg_intercept.emit sqrt w mp) cnt1 (fun g m => g.n = m.n) (Masked mp)
    (Gen.ts_vreg_intercept.step_eq sqrt w mp) (Gen.ts_vreg_intercept.pre_eq sqrt w mp) (ts_vreg_intercept_add w) (ts_vreg_intercept_post w) (fun _ => rfl)
    (ts_vreg_intercept_emit sqrt w mp) g m rm v h
theorem ts_vreg_intercept_minPeriods (w : Nat) (mp : Option Nat) : Gen.ts_vreg_intercept.minPeriods w mp = effMp mp w 0 := by
  simp [Gen.ts_vreg_intercept.minPeriods, effMp]
theorem ts_vreg_intercept_length (sqrt : Rat → Rat) (sh : Shape) (xs : List (Option Rat)) (w mp : Nat) (hw : 1 ≤ w) :
    (genRun (Gen.ts_vreg_intercept.step sqrt w mp) (Gen.ts_vreg_intercept.init w) (applyCalls sh xs w)).length = xs.length := by
  rw [genRun_length, C02.applyCalls_length sh xs w hw]
/-- fewer valid elements in the window than `mp`: the regenerated closure returns the NaN literal -/
theorem ts_vreg_intercept_warmup (sqrt : Rat → Rat) (sh : Shape) (xs : List (Option Rat)) (w mp : Nat) (hw : 1 ≤ w)
    (i : Nat) (hi : i < xs.length) (h : (vwin xs i w).length < mp) :
    (genRun (Gen.ts_vreg_intercept.step sqrt w mp) (Gen.ts_vreg_intercept.init w) (applyCalls sh xs w))[i]? = some none := by
  have hs := run_sim id _ cnt1 (fun g m => g.n = m.n) (Masked mp) (ts_vreg_intercept_step sqrt w mp)
    (applyCalls sh xs w) (Gen.ts_vreg_intercept.init w) Mom.zero (by simp [Gen.ts_vreg_intercept.init, Mom.zero])
  rw [mapCalls_id, cnt1_run sh xs w hw] at hs
  obtain ⟨o, ho, hm⟩ := nth_of_forall2 hs i (vwin xs i w).length (by
    simp only [List.getElem?_map, List.length_map, List.getElem?_range hi, Option.map_some])
  rw [ho, hm h]

/-! ### `ts_vreg_resid_mean` -/
theorem ts_vreg_resid_mean_add (w : Nat) (g : Gen.ts_vreg_resid_mean.St) (m : Mom) (v : Option Rat) (h : g.n = m.n) :
    (Gen.ts_vreg_resid_mean.add w g v).n = (cnt1.add m v).n := by
  cases v <;> simp [Gen.ts_vreg_resid_mean.add, cnt1, Mom.add, h]
theorem ts_vreg_resid_mean_post (w : Nat) (g : Gen.ts_vreg_resid_mean.St) (m : Mom) (x : Option Rat) (h : g.n = m.n) :
    (Gen.ts_vreg_resid_mean.post w g (some x)).n = (cnt1.remove m x).n := by
  cases x <;> simp [Gen.ts_vreg_resid_mean.post, cnt1, Mom.remove, h]
theorem ts_vreg_resid_mean_emit (sqrt : Rat → Rat) (w mp : Nat) (g : Gen.ts_vreg_resid_mean.St) (m : Mom) (v : Option Rat) (h : g.n = m.n) :
    Masked mp (Gen.ts_vreg_resid_mean.emit sqrt w mp g v) (cnt1.emit m) := by
  intro hlt
  have hlt' : ¬ (g.n ≥ mp) := by simp only [cnt1] at hlt; omega
  simp only [Gen.ts_vreg_resid_mean.emit, decide_eq_true_eq, if_neg hlt']
theorem ts_vreg_resid_mean_step (sqrt : Rat → Rat) (w mp : Nat) (g : Gen.ts_vreg_resid_mean.St) (m : Mom) (rm : Option (Option Rat)) (v : Option Rat) (h : g.n = m.n) :
    (Gen.ts_vreg_resid_mean.step sqrt w mp g rm v).1.n = (cnt1.step m (rm.map id) (id v)).1.n ∧
    Masked mp (Gen.ts_vreg_resid_mean.step sqrt w mp g rm v).2 (cnt1.step m (rm.map id) (id v)).2 :=
  hstep_of_parts id (Gen.ts_vreg_resid_mean.step sqrt w mp) (Gen.ts_vreg_resid_mean.pre sqrt w mp) (Gen.ts_vreg_resid_mean.post w) (Gen.ts_vreg_resid_mean.add w)
    (Gen.ts_vreg_resid_mean.emit sqrt w mp) cnt1 (fun g m => g.n = m.n) (Masked mp)
    (Gen.ts_vreg_resid_mean.step_eq sqrt w mp) (Gen.ts_vreg_resid_mean.pre_eq sqrt w mp) (ts_vreg_resid_mean_add w) (ts_vreg_resid_mean_post w) (fun _ => rfl)
    (ts_vreg_resid_mean_emit sqrt w mp) g m rm v h
theorem ts_vreg_resid_mean_minPeriods (w : Nat) (mp : Option Nat) : Gen.ts_vreg_resid_mean.minPeriods w mp = effMp mp w 0 := by
  simp [Gen.ts_vreg_resid_mean.minPeriods, effMp]
theorem ts_vreg_resid_mean_length (sqrt : Rat → Rat) (sh : Shape) (xs : List (Option Rat)) (w mp : Nat) (hw : 1 ≤ w) :
    (genRun (Gen.ts_vreg_resid_mean.step sqrt w mp) (Gen.ts_vreg_resid_mean.init w) (applyCalls sh xs w)).length = xs.length := by
  rw [genRun_length, C02.applyCalls_length sh xs w hw]
/-- fewer valid elements in the window than `mp`: the regenerated closure returns the NaN literal -/
theorem ts_vreg_resid_mean_warmup (sqrt : Rat → Rat) (sh : Shape) (xs : List (Option Rat)) (w mp : Nat) (hw : 1 ≤ w)
    (i : Nat) (hi : i < xs.length) (h : (vwin xs i w).length < mp) :
    (genRun (Gen.ts_vreg_resid_mean.step sqrt w mp) (Gen.ts_vreg_resid_mean.init w) (applyCalls sh xs w))[i]? = some none := by
  have hs := run_sim id _ cnt1 (fun g m => g.n = m.n) (Masked mp) (ts_vreg_resid_mean_step sqrt w mp)
    (applyCalls sh xs w) (Gen.ts_vreg_resid_mean.init w) Mom.zero (by simp [Gen.ts_vreg_resid_mean.init, Mom.zero])
  rw [mapCalls_id, cnt1_run sh xs w hw] at hs
  obtain ⟨o, ho, hm⟩ := nth_of_forall2 hs i (vwin xs i w).length (by
    simp only [List.getElem?_map, List.length_map, List.getElem?_range hi, Option.map_some])
  rw [ho, hm h]

/-! ### `ts_sum` -/
theorem ts_sum_add (w : Nat) (g : Gen.ts_sum.St) (m : Mom) (v : Rat) (h : g.n = m.n) :
    (Gen.ts_sum.add w g v).n = (cnt1.add m (some v)).n := by
  simp [Gen.ts_sum.add, cnt1, Mom.add, h]
theorem ts_sum_post (w : Nat) (g : Gen.ts_sum.St) (m : Mom) (x : Rat) (h : g.n = m.n) :
    (Gen.ts_sum.post w g (some x)).n = (cnt1.remove m (some x)).n := by
  simp [Gen.ts_sum.post, cnt1, Mom.remove, h]
theorem ts_sum_emit (sqrt : Rat → Rat) (w mp : Nat) (g : Gen.ts_sum.St) (m : Mom) (v : Rat) (h : g.n = m.n) :
    Masked mp (Gen.ts_sum.emit sqrt w mp g v) (cnt1.emit m) := by
  intro hlt
  have hlt' : ¬ (g.n ≥ mp) := by simp only [cnt1] at hlt; omega
  simp only [Gen.ts_sum.emit, decide_eq_true_eq, if_neg hlt']
theorem ts_sum_step (sqrt : Rat → Rat) (w mp : Nat) (g : Gen.ts_sum.St) (m : Mom) (rm : Option (Rat)) (v : Rat) (h : g.n = m.n) :
    (Gen.ts_sum.step sqrt w mp g rm v).1.n = (cnt1.step m (rm.map some) (some v)).1.n ∧
    Masked mp (Gen.ts_sum.step sqrt w mp g rm v).2 (cnt1.step m (rm.map some) (some v)).2 :=
  hstep_of_parts some (Gen.ts_sum.step sqrt w mp) (Gen.ts_sum.pre sqrt w mp) (Gen.ts_sum.post w) (Gen.ts_sum.add w)
    (Gen.ts_sum.emit sqrt w mp) cnt1 (fun g m => g.n = m.n) (Masked mp)
    (Gen.ts_sum.step_eq sqrt w mp) (Gen.ts_sum.pre_eq sqrt w mp) (ts_sum_add w) (ts_sum_post w) (fun _ => rfl)
    (ts_sum_emit sqrt w mp) g m rm v h
theorem ts_sum_minPeriods (w : Nat) (mp : Option Nat) : Gen.ts_sum.minPeriods w mp = effMp mp w 0 := by
  simp [Gen.ts_sum.minPeriods, effMp]
theorem ts_sum_length (sqrt : Rat → Rat) (sh : Shape) (xs : List Rat) (w mp : Nat) (hw : 1 ≤ w) :
    (genRun (Gen.ts_sum.step sqrt w mp) (Gen.ts_sum.init w) (applyCalls sh xs w)).length = xs.length := by
  rw [genRun_length, C02.applyCalls_length sh xs w hw]
/-- fewer valid elements in the window than `mp`: the regenerated closure returns the NaN literal -/
theorem ts_sum_warmup (sqrt : Rat → Rat) (sh : Shape) (xs : List Rat) (w mp : Nat) (hw : 1 ≤ w)
    (i : Nat) (hi : i < xs.length) (h : (vwin (xs.map some) i w).length < mp) :
    (genRun (Gen.ts_sum.step sqrt w mp) (Gen.ts_sum.init w) (applyCalls sh xs w))[i]? = some none := by
  have hs := run_sim some _ cnt1 (fun g m => g.n = m.n) (Masked mp) (ts_sum_step sqrt w mp)
    (applyCalls sh xs w) (Gen.ts_sum.init w) Mom.zero (by simp [Gen.ts_sum.init, Mom.zero])
  rw [← applyCalls_map, cnt1_run sh (xs.map some) w hw] at hs
  obtain ⟨o, ho, hm⟩ := nth_of_forall2 hs i (vwin (xs.map some) i w).length (by
    simp only [List.getElem?_map, List.length_map, List.getElem?_range hi, Option.map_some])
  rw [ho, hm h]

/-! ### `ts_mean` -/
theorem ts_mean_add (w : Nat) (g : Gen.ts_mean.St) (m : Mom) (v : Rat) (h : g.n = m.n) :
    (Gen.ts_mean.add w g v).n = (cnt1.add m (some v)).n := by
  simp [Gen.ts_mean.add, cnt1, Mom.add, h]
theorem ts_mean_post (w : Nat) (g : Gen.ts_mean.St) (m : Mom) (x : Rat) (h : g.n = m.n) :
    (Gen.ts_mean.post w g (some x)).n = (cnt1.remove m (some x)).n := by
  simp [Gen.ts_mean.post, cnt1, Mom.remove, h]
theorem ts_mean_emit (sqrt : Rat → Rat) (w mp : Nat) (g : Gen.ts_mean.St) (m : Mom) (v : Rat) (h : g.n = m.n) :
    Masked mp (Gen.ts_mean.emit sqrt w mp g v) (cnt1.emit m) := by
  intro hlt
  have hlt' : ¬ (g.n ≥ mp) := by simp only [cnt1] at hlt; omega
  simp only [Gen.ts_mean.emit, decide_eq_true_eq, if_neg hlt']
theorem ts_mean_step (sqrt : Rat → Rat) (w mp : Nat) (g : Gen.ts_mean.St) (m : Mom) (rm : Option (Rat)) (v : Rat) (h : g.n = m.n) :
    (Gen.ts_mean.step sqrt w mp g rm v).1.n = (cnt1.step m (rm.map some) (some v)).1.n ∧
    Masked mp (Gen.ts_mean.step sqrt w mp g rm v).2 (cnt1.step m (rm.map some) (some v)).2 :=
  hstep_of_parts some (Gen.ts_mean.step sqrt w mp) (Gen.ts_mean.pre sqrt w mp) (Gen.ts_mean.post w) (Gen.ts_mean.add w)
    (Gen.ts_mean.emit sqrt w mp) cnt1 (fun g m => g.n = m.n) (Masked mp)
    (Gen.ts_mean.step_eq sqrt w mp) (Gen.ts_mean.pre_eq sqrt w mp) (ts_mean_add w) (ts_mean_post w) (fun _ => rfl)
    (ts_mean_emit sqrt w mp) g m rm v h
theorem ts_mean_minPeriods (w : Nat) (mp : Option Nat) : Gen.ts_mean.minPeriods w mp = effMp mp w 0 := by
  simp [Gen.ts_mean.minPeriods, effMp]
theorem ts_mean_length (sqrt : Rat → Rat) (sh : Shape) (xs : List Rat) (w mp : Nat) (hw : 1 ≤ w) :
    (genRun (Gen.ts_mean.step sqrt w mp) (Gen.ts_mean.init w) (applyCalls sh xs w)).length = xs.length := by
  rw [genRun_length, C02.applyCalls_length sh xs w hw]
/-- fewer valid elements in the window than `mp`: the regenerated closure returns the NaN literal -/
theorem ts_mean_warmup (sqrt : Rat → Rat) (sh : Shape) (xs : List Rat) (w mp : Nat) (hw : 1 ≤ w)
    (i : Nat) (hi : i < xs.length) (h : (vwin (xs.map some) i w).length < mp) :
    (genRun (Gen.ts_mean.step sqrt w mp) (Gen.ts_mean.init w) (applyCalls sh xs w))[i]? = some none := by
  have hs := run_sim some _ cnt1 (fun g m => g.n = m.n) (Masked mp) (ts_mean_step sqrt w mp)
    (applyCalls sh xs w) (Gen.ts_mean.init w) Mom.zero (by simp [Gen.ts_mean.init, Mom.zero])
  rw [← applyCalls_map, cnt1_run sh (xs.map some) w hw] at hs
  obtain ⟨o, ho, hm⟩ := nth_of_forall2 hs i (vwin (xs.map some) i w).length (by
    simp only [List.getElem?_map, List.length_map, List.getElem?_range hi, Option.map_some])
  rw [ho, hm h]

/-! ### `ts_ewm` -/
theorem ts_ewm_add (w : Nat) (g : Gen.ts_ewm.St) (m : Mom) (v : Rat) (h : g.n = m.n) :
    (Gen.ts_ewm.add w g v).n = (cnt1.add m (some v)).n := by
  simp [Gen.ts_ewm.add, cnt1, Mom.add, h]
theorem ts_ewm_post (w : Nat) (g : Gen.ts_ewm.St) (m : Mom) (x : Rat) (h : g.n = m.n) :
    (Gen.ts_ewm.post w g (some x)).n = (cnt1.remove m (some x)).n := by
  simp [Gen.ts_ewm.post, cnt1, Mom.remove, h]
theorem ts_ewm_emit (sqrt : Rat → Rat) (w mp : Nat) (g : Gen.ts_ewm.St) (m : Mom) (v : Rat) (h : g.n = m.n) :
    Masked mp (Gen.ts_ewm.emit sqrt w mp g v) (cnt1.emit m) := by
  intro hlt
  have hlt' : ¬ (g.n ≥ mp) := by simp only [cnt1] at hlt; omega
  simp only [Gen.ts_ewm.emit, decide_eq_true_eq, if_neg hlt']
theorem ts_ewm_step (sqrt : Rat → Rat) (w mp : Nat) (g : Gen.ts_ewm.St) (m : Mom) (rm : Option (Rat)) (v : Rat) (h : g.n = m.n) :
    (Gen.ts_ewm.step sqrt w mp g rm v).1.n = (cnt1.step m (rm.map some) (some v)).1.n ∧
    Masked mp (Gen.ts_ewm.step sqrt w mp g rm v).2 (cnt1.step m (rm.map some) (some v)).2 :=
  hstep_of_parts some (Gen.ts_ewm.step sqrt w mp) (Gen.ts_ewm.pre sqrt w mp) (Gen.ts_ewm.post w) (Gen.ts_ewm.add w)
    (Gen.ts_ewm.emit sqrt w mp) cnt1 (fun g m => g.n = m.n) (Masked mp)
    (Gen.ts_ewm.step_eq sqrt w mp) (Gen.ts_ewm.pre_eq sqrt w mp) (ts_ewm_add w) (ts_ewm_post w) (fun _ => rfl)
    (ts_ewm_emit sqrt w mp) g m rm v h
theorem ts_ewm_minPeriods (w : Nat) (mp : Option Nat) : Gen.ts_ewm.minPeriods w mp = effMp mp w 0 := by
  simp [Gen.ts_ewm.minPeriods, effMp]
theorem ts_ewm_length (sqrt : Rat → Rat) (sh : Shape) (xs : List Rat) (w mp : Nat) (hw : 1 ≤ w) :
    (genRun (Gen.ts_ewm.step sqrt w mp) (Gen.ts_ewm.init w) (applyCalls sh xs w)).length = xs.length := by
  rw [genRun_length, C02.applyCalls_length sh xs w hw]
/-- fewer valid elements in the window than `mp`: the regenerated closure returns the NaN literal -/
theorem ts_ewm_warmup (sqrt : Rat → Rat) (sh : Shape) (xs : List Rat) (w mp : Nat) (hw : 1 ≤ w)
    (i : Nat) (hi : i < xs.length) (h : (vwin (xs.map some) i w).length < mp) :
    (genRun (Gen.ts_ewm.step sqrt w mp) (Gen.ts_ewm.init w) (applyCalls sh xs w))[i]? = some none := by
  have hs := run_sim some _ cnt1 (fun g m => g.n = m.n) (Masked mp) (ts_ewm_step sqrt w mp)
    (applyCalls sh xs w) (Gen.ts_ewm.init w) Mom.zero (by simp [Gen.ts_ewm.init, Mom.zero])
  rw [← applyCalls_map, cnt1_run sh (xs.map some) w hw] at hs
  obtain ⟨o, ho, hm⟩ := nth_of_forall2 hs i (vwin (xs.map some) i w).length (by
    simp only [List.getElem?_map, List.length_map, List.getElem?_range hi, Option.map_some])
  rw [ho, hm h]

/-! ### `ts_wma` -/
theorem ts_wma_add (w : Nat) (g : Gen.ts_wma.St) (m : Mom) (v : Rat) (h : g.n = m.n) :
    (Gen.ts_wma.add w g v).n = (cnt1.add m (some v)).n := by
  simp [Gen.ts_wma.add, cnt1, Mom.add, h]
theorem ts_wma_post (w : Nat) (g : Gen.ts_wma.St) (m : Mom) (x : Rat) (h : g.n = m.n) :
    (Gen.ts_wma.post w g (some x)).n = (cnt1.remove m (some x)).n := by
  simp [Gen.ts_wma.post, cnt1, Mom.remove, h]
theorem ts_wma_emit (sqrt : Rat → Rat) (w mp : Nat) (g : Gen.ts_wma.St) (m : Mom) (v : Rat) (h : g.n = m.n) :
    Masked mp (Gen.ts_wma.emit sqrt w mp g v) (cnt1.emit m) := by
  intro hlt
  have hlt' : ¬ (g.n ≥ mp) := by simp only [cnt1] at hlt; omega
  simp only [Gen.ts_wma.emit, decide_eq_true_eq, if_neg hlt']
theorem ts_wma_step (sqrt : Rat → Rat) (w mp : Nat) (g : Gen.ts_wma.St) (m : Mom) (rm : Option (Rat)) (v : Rat) (h : g.n = m.n) :
    (Gen.ts_wma.step sqrt w mp g rm v).1.n = (cnt1.step m (rm.map some) (some v)).1.n ∧
    Masked mp (Gen.ts_wma.step sqrt w mp g rm v).2 (cnt1.step m (rm.map some) (some v)).2 :=
  hstep_of_parts some (Gen.ts_wma.step sqrt w mp) (Gen.ts_wma.pre sqrt w mp) (Gen.ts_wma.post w) (Gen.ts_wma.add w)
    (Gen.ts_wma.emit sqrt w mp) cnt1 (fun g m => g.n = m.n) (Masked mp)
    (Gen.ts_wma.step_eq sqrt w mp) (Gen.ts_wma.pre_eq sqrt w mp) (ts_wma_add w) (ts_wma_post w) (fun _ => rfl)
    (ts_wma_emit sqrt w mp) g m rm v h
theorem ts_wma_minPeriods (w : Nat) (mp : Option Nat) : Gen.ts_wma.minPeriods w mp = effMp mp w 0 := by
  simp [Gen.ts_wma.minPeriods, effMp]
theorem ts_wma_length (sqrt : Rat → Rat) (sh : Shape) (xs : List Rat) (w mp : Nat) (hw : 1 ≤ w) :
    (genRun (Gen.ts_wma.step sqrt w mp) (Gen.ts_wma.init w) (applyCalls sh xs w)).length = xs.length := by
  rw [genRun_length, C02.applyCalls_length sh xs w hw]
/-- fewer valid elements in the window than `mp`: the regenerated closure returns the NaN literal -/
theorem ts_wma_warmup (sqrt : Rat → Rat) (sh : Shape) (xs : List Rat) (w mp : Nat) (hw : 1 ≤ w)
    (i : Nat) (hi : i < xs.length) (h : (vwin (xs.map some) i w).length < mp) :
    (genRun (Gen.ts_wma.step sqrt w mp) (Gen.ts_wma.init w) (applyCalls sh xs w))[i]? = some none := by
  have hs := run_sim some _ cnt1 (fun g m => g.n = m.n) (Masked mp) (ts_wma_step sqrt w mp)
    (applyCalls sh xs w) (Gen.ts_wma.init w) Mom.zero (by simp [Gen.ts_wma.init, Mom.zero])
  rw [← applyCalls_map, cnt1_run sh (xs.map some) w hw] at hs
  obtain ⟨o, ho, hm⟩ := nth_of_forall2 hs i (vwin (xs.map some) i w).length (by
    simp only [List.getElem?_map, List.length_map, List.getElem?_range hi, Option.map_some])
  rw [ho, hm h]

/-! ### `ts_std` -/
theorem ts_std_add (w : Nat) (g : Gen.ts_std.St) (m : Mom) (v : Rat) (h : g.n = m.n) :
    (Gen.ts_std.add w g v).n = (cnt1.add m (some v)).n := by
  simp [Gen.ts_std.add, cnt1, Mom.add, h]
theorem ts_std_post (w : Nat) (g : Gen.ts_std.St) (m : Mom) (x : Rat) (h : g.n = m.n) :
    (Gen.ts_std.post w g (some x)).n = (cnt1.remove m (some x)).n := by
  simp [Gen.ts_std.post, cnt1, Mom.remove, h]
theorem ts_std_emit (sqrt : Rat → Rat) (w mp : Nat) (g : Gen.ts_std.St) (m : Mom) (v : Rat) (h : g.n = m.n) :
    Masked mp (Gen.ts_std.emit sqrt w mp g v) (cnt1.emit m) := by
  intro hlt
  have hlt' : ¬ (g.n ≥ mp) := by simp only [cnt1] at hlt; omega
  simp only [Gen.ts_std.emit, decide_eq_true_eq, if_neg hlt']
theorem ts_std_step (sqrt : Rat → Rat) (w mp : Nat) (g : Gen.ts_std.St) (m : Mom) (rm : Option (Rat)) (v : Rat) (h : g.n = m.n) :
    (Gen.ts_std.step sqrt w mp g rm v).1.n = (cnt1.step m (rm.map some) (some v)).1.n ∧
    Masked mp (Gen.ts_std.step sqrt w mp g rm v).2 (cnt1.step m (rm.map some) (some v)).2 :=
  hstep_of_parts some (Gen.ts_std.step sqrt w mp) (Gen.ts_std.pre sqrt w mp) (Gen.ts_std.post w) (Gen.ts_std.add w)
    (Gen.ts_std.emit sqrt w mp) cnt1 (fun g m => g.n = m.n) (Masked mp)
    (Gen.ts_std.step_eq sqrt w mp) (Gen.ts_std.pre_eq sqrt w mp) (ts_std_add w) (ts_std_post w) (fun _ => rfl)
    (ts_std_emit sqrt w mp) g m rm v h
theorem ts_std_minPeriods (w : Nat) (mp : Option Nat) : Gen.ts_std.minPeriods w mp = effMp mp w 2 := by
  simp [Gen.ts_std.minPeriods, effMp]
theorem ts_std_length (sqrt : Rat → Rat) (sh : Shape) (xs : List Rat) (w mp : Nat) (hw : 1 ≤ w) :
    (genRun (Gen.ts_std.step sqrt w mp) (Gen.ts_std.init w) (applyCalls sh xs w)).length = xs.length := by
  rw [genRun_length, C02.applyCalls_length sh xs w hw]
/-- fewer valid elements in the window than `mp`: the regenerated closure returns the NaN literal -/
theorem ts_std_warmup (sqrt : Rat → Rat) (sh : Shape) (xs : List Rat) (w mp : Nat) (hw : 1 ≤ w)
    (i : Nat) (hi : i < xs.length) (h : (vwin (xs.map some) i w).length < mp) :
    (genRun (Gen.ts_std.step sqrt w mp) (Gen.ts_std.init w) (applyCalls sh xs w))[i]? = some none := by
  have hs := run_sim some _ cnt1 (fun g m => g.n = m.n) (Masked mp) (ts_std_step sqrt w mp)
    (applyCalls sh xs w) (Gen.ts_std.init w) Mom.zero (by simp [Gen.ts_std.init, Mom.zero])
  rw [← applyCalls_map, cnt1_run sh (xs.map some) w hw] at hs
  obtain ⟨o, ho, hm⟩ := nth_of_forall2 hs i (vwin (xs.map some) i w).length (by
    simp only [List.getElem?_map, List.length_map, List.getElem?_range hi, Option.map_some])
  rw [ho, hm h]

/-! ### `ts_var` -/
theorem ts_var_add (w : Nat) (g : Gen.ts_var.St) (m : Mom) (v : Rat) (h : g.n = m.n) :
    (Gen.ts_var.add w g v).n = (cnt1.add m (some v)).n := by
  simp [Gen.ts_var.add, cnt1, Mom.add, h]
theorem ts_var_post (w : Nat) (g : Gen.ts_var.St) (m : Mom) (x : Rat) (h : g.n = m.n) :
    (Gen.ts_var.post w g (some x)).n = (cnt1.remove m (some x)).n := by
  simp [Gen.ts_var.post, cnt1, Mom.remove, h]
theorem ts_var_emit (sqrt : Rat → Rat) (w mp : Nat) (g : Gen.ts_var.St) (m : Mom) (v : Rat) (h : g.n = m.n) :
    Masked mp (Gen.ts_var.emit sqrt w mp g v) (cnt1.emit m) := by
  intro hlt
  have hlt' : ¬ (g.n ≥ mp) := by simp only [cnt1] at hlt; omega
  simp only [Gen.ts_var.emit, decide_eq_true_eq, if_neg hlt']
theorem ts_var_step (sqrt : Rat → Rat) (w mp : Nat) (g : Gen.ts_var.St) (m : Mom) (rm : Option (Rat)) (v : Rat) (h : g.n = m.n) :
    (Gen.ts_var.step sqrt w mp g rm v).1.n = (cnt1.step m (rm.map some) (some v)).1.n ∧
    Masked mp (Gen.ts_var.step sqrt w mp g rm v).2 (cnt1.step m (rm.map some) (some v)).2 :=
  hstep_of_parts some (Gen.ts_var.step sqrt w mp) (Gen.ts_var.pre sqrt w mp) (Gen.ts_var.post w) (Gen.ts_var.add w)
    (Gen.ts_var.emit sqrt w mp) cnt1 (fun g m => g.n = m.n) (Masked mp)
    (Gen.ts_var.step_eq sqrt w mp) (Gen.ts_var.pre_eq sqrt w mp) (ts_var_add w) (ts_var_post w) (fun _ => rfl)
    (ts_var_emit sqrt w mp) g m rm v h
theorem ts_var_minPeriods (w : Nat) (mp : Option Nat) : Gen.ts_var.minPeriods w mp = effMp mp w 2 := by
  simp [Gen.ts_var.minPeriods, effMp]
theorem ts_var_length (sqrt : Rat → Rat) (sh : Shape) (xs : List Rat) (w mp : Nat) (hw : 1 ≤ w) :
    (genRun (Gen.ts_var.step sqrt w mp) (Gen.ts_var.init w) (applyCalls sh xs w)).length = xs.length := by
  rw [genRun_length, C02.applyCalls_length sh xs w hw]
/-- fewer valid elements in the window than `mp`: the regenerated closure returns the NaN literal -/
theorem ts_var_warmup (sqrt : Rat → Rat) (sh : Shape) (xs : List Rat) (w mp : Nat) (hw : 1 ≤ w)
    (i : Nat) (hi : i < xs.length) (h : (vwin (xs.map some) i w).length < mp) :
    (genRun (Gen.ts_var.step sqrt w mp) (Gen.ts_var.init w) (applyCalls sh xs w))[i]? = some none := by
  have hs := run_sim some _ cnt1 (fun g m => g.n = m.n) (Masked mp) (ts_var_step sqrt w mp)
    (applyCalls sh xs w) (Gen.ts_var.init w) Mom.zero (by simp [Gen.ts_var.init, Mom.zero])
  rw [← applyCalls_map, cnt1_run sh (xs.map some) w hw] at hs
  obtain ⟨o, ho, hm⟩ := nth_of_forall2 hs i (vwin (xs.map some) i w).length (by
    simp only [List.getElem?_map, List.length_map, List.getElem?_range hi, Option.map_some])
  rw [ho, hm h]

/-! ### `ts_skew` -/
theorem ts_skew_add (w : Nat) (g : Gen.ts_skew.St) (m : Mom) (v : Rat) (h : g.n = m.n) :
    (Gen.ts_skew.add w g v).n = (cnt1.add m (some v)).n := by
  simp [Gen.ts_skew.add, cnt1, Mom.add, h]
theorem ts_skew_post (w : Nat) (g : Gen.ts_skew.St) (m : Mom) (x : Rat) (h : g.n = m.n) :
    (Gen.ts_skew.post w g (some x)).n = (cnt1.remove m (some x)).n := by
  simp [Gen.ts_skew.post, cnt1, Mom.remove, h]
theorem ts_skew_emit (sqrt : Rat → Rat) (w mp : Nat) (g : Gen.ts_skew.St) (m : Mom) (v : Rat) (h : g.n = m.n) :
    Masked mp (Gen.ts_skew.emit sqrt w mp g v) (cnt1.emit m) := by
  intro hlt
  have hlt' : ¬ (g.n ≥ mp) := by simp only [cnt1] at hlt; omega
  simp only [Gen.ts_skew.emit, decide_eq_true_eq, if_neg hlt']
theorem ts_skew_step (sqrt : Rat → Rat) (w mp : Nat) (g : Gen.ts_skew.St) (m : Mom) (rm : Option (Rat)) (v : Rat) (h : g.n = m.n) :
    (Gen.ts_skew.step sqrt w mp g rm v).1.n = (cnt1.step m (rm.map some) (some v)).1.n ∧
    Masked mp (Gen.ts_skew.step sqrt w mp g rm v).2 (cnt1.step m (rm.map some) (some v)).2 :=
  hstep_of_parts some (Gen.ts_skew.step sqrt w mp) (Gen.ts_skew.pre sqrt w mp) (Gen.ts_skew.post w) (Gen.ts_skew.add w)
    (Gen.ts_skew.emit sqrt w mp) cnt1 (fun g m => g.n = m.n) (Masked mp)
    (Gen.ts_skew.step_eq sqrt w mp) (Gen.ts_skew.pre_eq sqrt w mp) (ts_skew_add w) (ts_skew_post w) (fun _ => rfl)
    (ts_skew_emit sqrt w mp) g m rm v h
theorem ts_skew_minPeriods (w : Nat) (mp : Option Nat) : Gen.ts_skew.minPeriods w mp = effMp mp w 3 := by
  simp [Gen.ts_skew.minPeriods, effMp]
theorem ts_skew_length (sqrt : Rat → Rat) (sh : Shape) (xs : List Rat) (w mp : Nat) (hw : 1 ≤ w) :
    (genRun (Gen.ts_skew.step sqrt w mp) (Gen.ts_skew.init w) (applyCalls sh xs w)).length = xs.length := by
  rw [genRun_length, C02.applyCalls_length sh xs w hw]
/-- fewer valid elements in the window than `mp`: the regenerated closure returns the NaN literal -/
theorem ts_skew_warmup (sqrt : Rat → Rat) (sh : Shape) (xs : List Rat) (w mp : Nat) (hw : 1 ≤ w)
    (i : Nat) (hi : i < xs.length) (h : (vwin (xs.map some) i w).length < mp) :
    (genRun (Gen.ts_skew.step sqrt w mp) (Gen.ts_skew.init w) (applyCalls sh xs w))[i]? = some none := by
  have hs := run_sim some _ cnt1 (fun g m => g.n = m.n) (Masked mp) (ts_skew_step sqrt w mp)
    (applyCalls sh xs w) (Gen.ts_skew.init w) Mom.zero (by simp [Gen.ts_skew.init, Mom.zero])
  rw [← applyCalls_map, cnt1_run sh (xs.map some) w hw] at hs
  obtain ⟨o, ho, hm⟩ := nth_of_forall2 hs i (vwin (xs.map some) i w).length (by
    simp only [List.getElem?_map, List.length_map, List.getElem?_range hi, Option.map_some])
  rw [ho, hm h]

/-! ### `ts_kurt` -/
theorem ts_kurt_add (w : Nat) (g : Gen.ts_kurt.St) (m : Mom) (v : Rat) (h : g.n = m.n) :
    (Gen.ts_kurt.add w g v).n = (cnt1.add m (some v)).n := by
  simp [Gen.ts_kurt.add, cnt1, Mom.add, h]
theorem ts_kurt_post (w : Nat) (g : Gen.ts_kurt.St) (m : Mom) (x : Rat) (h : g.n = m.n) :
    (Gen.ts_kurt.post w g (some x)).n = (cnt1.remove m (some x)).n := by
  simp [Gen.ts_kurt.post, cnt1, Mom.remove, h]
theorem ts_kurt_emit (sqrt : Rat → Rat) (w mp : Nat) (g : Gen.ts_kurt.St) (m : Mom) (v : Rat) (h : g.n = m.n) :
    Masked mp (Gen.ts_kurt.emit sqrt w mp g v) (cnt1.emit m) := by
  intro hlt
  have hlt' : ¬ (g.n ≥ mp) := by simp only [cnt1] at hlt; omega
  simp only [Gen.ts_kurt.emit, decide_eq_true_eq, if_neg hlt']
theorem ts_kurt_step (sqrt : Rat → Rat) (w mp : Nat) (g : Gen.ts_kurt.St) (m : Mom) (rm : Option (Rat)) (v : Rat) (h : g.n = m.n) :
    (Gen.ts_kurt.step sqrt w mp g rm v).1.n = (cnt1.step m (rm.map some) (some v)).1.n ∧
    Masked mp (Gen.ts_kurt.step sqrt w mp g rm v).2 (cnt1.step m (rm.map some) (some v)).2 :=
  hstep_of_parts some (Gen.ts_kurt.step sqrt w mp) (Gen.ts_kurt.pre sqrt w mp) (Gen.ts_kurt.post w) (Gen.ts_kurt.add w)
    (Gen.ts_kurt.emit sqrt w mp) cnt1 (fun g m => g.n = m.n) (Masked mp)
    (Gen.ts_kurt.step_eq sqrt w mp) (Gen.ts_kurt.pre_eq sqrt w mp) (ts_kurt_add w) (ts_kurt_post w) (fun _ => rfl)
    (ts_kurt_emit sqrt w mp) g m rm v h
theorem ts_kurt_minPeriods (w : Nat) (mp : Option Nat) : Gen.ts_kurt.minPeriods w mp = effMp mp w 4 := by
  simp [Gen.ts_kurt.minPeriods, effMp]
theorem ts_kurt_length (sqrt : Rat → Rat) (sh : Shape) (xs : List Rat) (w mp : Nat) (hw : 1 ≤ w) :
    (genRun (Gen.ts_kurt.step sqrt w mp) (Gen.ts_kurt.init w) (applyCalls sh xs w)).length = xs.length := by
  rw [genRun_length, C02.applyCalls_length sh xs w hw]
/-- fewer valid elements in the window than `mp`: the regenerated closure returns the NaN literal -/
theorem ts_kurt_warmup (sqrt : Rat → Rat) (sh : Shape) (xs : List Rat) (w mp : Nat) (hw : 1 ≤ w)
    (i : Nat) (hi : i < xs.length) (h : (vwin (xs.map some) i w).length < mp) :
    (genRun (Gen.ts_kurt.step sqrt w mp) (Gen.ts_kurt.init w) (applyCalls sh xs w))[i]? = some none := by
  have hs := run_sim some _ cnt1 (fun g m => g.n = m.n) (Masked mp) (ts_kurt_step sqrt w mp)
    (applyCalls sh xs w) (Gen.ts_kurt.init w) Mom.zero (by simp [Gen.ts_kurt.init, Mom.zero])
  rw [← applyCalls_map, cnt1_run sh (xs.map some) w hw] at hs
  obtain ⟨o, ho, hm⟩ := nth_of_forall2 hs i (vwin (xs.map some) i w).length (by
    simp only [List.getElem?_map, List.length_map, List.getElem?_range hi, Option.map_some])
  rw [ho, hm h]

/-! ### `ts_vzscore` (the result is computed inside the `not_none` branch: `pre`/`post` decomposition) -/
theorem ts_vzscore_pre (sqrt : Rat → Rat) (w mp : Nat) (g : Gen.ts_vzscore.St) (m : Mom) (v : Option Rat) (h : g.n = m.n) :
    (Gen.ts_vzscore.pre sqrt w mp g v).1.n = (cnt1.add m v).n ∧
    Masked mp (Gen.ts_vzscore.pre sqrt w mp g v).2 (cnt1.emit (cnt1.add m v)) := by
  cases v with
  | none => simp [Gen.ts_vzscore.pre, cnt1, Mom.add, h, Masked]
  | some v =>
    refine ⟨by simp [Gen.ts_vzscore.pre, cnt1, Mom.add, h], ?_⟩
    intro hlt
    have hlt' : ¬ (g.n + 1 ≥ mp) := by simp only [cnt1, Mom.add] at hlt; omega
    simp only [Gen.ts_vzscore.pre, decide_eq_true_eq, if_neg hlt']
theorem ts_vzscore_post (w : Nat) (g : Gen.ts_vzscore.St) (m : Mom) (x : Option Rat) (h : g.n = m.n) :
    (Gen.ts_vzscore.post w g (some x)).n = (cnt1.remove m x).n := by
  cases x <;> simp [Gen.ts_vzscore.post, cnt1, Mom.remove, h]
theorem ts_vzscore_step (sqrt : Rat → Rat) (w mp : Nat) (g : Gen.ts_vzscore.St) (m : Mom) (rm : Option (Option Rat)) (v : Option Rat) (h : g.n = m.n) :
    (Gen.ts_vzscore.step sqrt w mp g rm v).1.n = (cnt1.step m (rm.map id) (id v)).1.n ∧
    Masked mp (Gen.ts_vzscore.step sqrt w mp g rm v).2 (cnt1.step m (rm.map id) (id v)).2 :=
  hstep_of_pre id (Gen.ts_vzscore.step sqrt w mp) (Gen.ts_vzscore.pre sqrt w mp) (Gen.ts_vzscore.post w)
    cnt1 (fun g m => g.n = m.n) (Masked mp)
    (Gen.ts_vzscore.step_eq sqrt w mp) (ts_vzscore_pre sqrt w mp) (ts_vzscore_post w) (fun _ => rfl) g m rm v h
theorem ts_vzscore_minPeriods (w : Nat) (mp : Option Nat) : Gen.ts_vzscore.minPeriods w mp = effMp mp w 0 := by
  simp [Gen.ts_vzscore.minPeriods, effMp]
theorem ts_vzscore_length (sqrt : Rat → Rat) (sh : Shape) (xs : List (Option Rat)) (w mp : Nat) (hw : 1 ≤ w) :
    (genRun (Gen.ts_vzscore.step sqrt w mp) (Gen.ts_vzscore.init w) (applyCalls sh xs w)).length = xs.length := by
  rw [genRun_length, C02.applyCalls_length sh xs w hw]
/-- fewer valid elements in the window than `mp`: the regenerated closure returns the NaN literal -/
theorem ts_vzscore_warmup (sqrt : Rat → Rat) (sh : Shape) (xs : List (Option Rat)) (w mp : Nat) (hw : 1 ≤ w)
    (i : Nat) (hi : i < xs.length) (h : (vwin xs i w).length < mp) :
    (genRun (Gen.ts_vzscore.step sqrt w mp) (Gen.ts_vzscore.init w) (applyCalls sh xs w))[i]? = some none := by
  have hs := run_sim id _ cnt1 (fun g m => g.n = m.n) (Masked mp) (ts_vzscore_step sqrt w mp)
    (applyCalls sh xs w) (Gen.ts_vzscore.init w) Mom.zero (by simp [Gen.ts_vzscore.init, Mom.zero])
  rw [mapCalls_id, cnt1_run sh xs w hw] at hs
  obtain ⟨o, ho, hm⟩ := nth_of_forall2 hs i (vwin xs i w).length (by
    simp only [List.getElem?_map, List.length_map, List.getElem?_range hi, Option.map_some])
  rw [ho, hm h]

/-! ### `ts_vcov` -/
theorem ts_vcov_add (w : Nat) (g : Gen.ts_vcov.St) (m : C04.Cross) (v : C04.Pair) (h : g.n = m.n) :
    (Gen.ts_vcov.add w g v).n = (cnt2.add m v).n := by
  obtain ⟨a, b⟩ := v
  cases a <;> cases b <;> simp [Gen.ts_vcov.add, C04.crossRoll, C04.Cross.add, h]
theorem ts_vcov_post (w : Nat) (g : Gen.ts_vcov.St) (m : C04.Cross) (x : C04.Pair) (h : g.n = m.n) :
    (Gen.ts_vcov.post w g (some x)).n = (cnt2.remove m x).n := by
  obtain ⟨a, b⟩ := x
  cases a <;> cases b <;> simp [Gen.ts_vcov.post, C04.crossRoll, C04.Cross.remove, h]
theorem ts_vcov_emit (sqrt : Rat → Rat) (w mp : Nat) (g : Gen.ts_vcov.St) (m : C04.Cross) (v : C04.Pair) (h : g.n = m.n) :
    Masked mp (Gen.ts_vcov.emit sqrt w mp g v) (cnt2.emit m) := by
  intro hlt
  have hlt' : ¬ (g.n ≥ mp) := by simp only [C04.crossRoll] at hlt; omega
  simp only [Gen.ts_vcov.emit, decide_eq_true_eq, if_neg hlt']
theorem ts_vcov_step (sqrt : Rat → Rat) (w mp : Nat) (g : Gen.ts_vcov.St) (m : C04.Cross) (rm : Option C04.Pair) (v : C04.Pair) (h : g.n = m.n) :
    (Gen.ts_vcov.step sqrt w mp g rm v).1.n = (cnt2.step m (rm.map id) (id v)).1.n ∧
    Masked mp (Gen.ts_vcov.step sqrt w mp g rm v).2 (cnt2.step m (rm.map id) (id v)).2 :=
  hstep_of_parts id (Gen.ts_vcov.step sqrt w mp) (Gen.ts_vcov.pre sqrt w mp) (Gen.ts_vcov.post w) (Gen.ts_vcov.add w)
    (Gen.ts_vcov.emit sqrt w mp) cnt2 (fun g m => g.n = m.n) (Masked mp)
    (Gen.ts_vcov.step_eq sqrt w mp) (Gen.ts_vcov.pre_eq sqrt w mp) (ts_vcov_add w) (ts_vcov_post w) (fun _ => rfl)
    (ts_vcov_emit sqrt w mp) g m rm v h
theorem ts_vcov_minPeriods (w : Nat) (mp : Option Nat) : Gen.ts_vcov.minPeriods w mp = effMp mp w 2 := by
  simp [Gen.ts_vcov.minPeriods, effMp]
theorem ts_vcov_length (sqrt : Rat → Rat) (sh : Shape) (xs ys : List (Option Rat)) (w mp : Nat) (hw : 1 ≤ w)
    (hlen : ys.length = xs.length) :
    (genRun (Gen.ts_vcov.step sqrt w mp) (Gen.ts_vcov.init w) (apply2Calls sh xs ys w)).length = xs.length := by
  have := congrArg List.length (cnt2_run sh xs ys w hw hlen)
  rw [run_length, List.length_map, List.length_range] at this
  rw [genRun_length, this]
/-- fewer pairwise-complete observations in the window than `mp`: the NaN literal -/
theorem ts_vcov_warmup (sqrt : Rat → Rat) (sh : Shape) (xs ys : List (Option Rat)) (w mp : Nat) (hw : 1 ≤ w)
    (hlen : ys.length = xs.length) (i : Nat) (hi : i < xs.length)
    (h : (C04.Spec.complete (window (xs.zip ys) i w)).length < mp) :
    (genRun (Gen.ts_vcov.step sqrt w mp) (Gen.ts_vcov.init w) (apply2Calls sh xs ys w))[i]? = some none := by
  have hs := run_sim id _ cnt2 (fun g m => g.n = m.n) (Masked mp) (ts_vcov_step sqrt w mp)
    (apply2Calls sh xs ys w) (Gen.ts_vcov.init w) C04.Cross.zero (by simp [Gen.ts_vcov.init, C04.Cross.zero])
  rw [mapCalls_id, cnt2_run sh xs ys w hw hlen] at hs
  obtain ⟨o, ho, hm⟩ := nth_of_forall2 hs i (C04.Spec.complete (window (xs.zip ys) i w)).length (by
    simp only [List.getElem?_map, List.getElem?_range hi, Option.map_some])
  rw [ho, hm h]

/-! ### `ts_vcorr` -/
theorem ts_vcorr_add (w : Nat) (g : Gen.ts_vcorr.St) (m : C04.Cross) (v : C04.Pair) (h : g.n = m.n) :
    (Gen.ts_vcorr.add w g v).n = (cnt2.add m v).n := by
  obtain ⟨a, b⟩ := v
  cases a <;> cases b <;> simp [Gen.ts_vcorr.add, C04.crossRoll, C04.Cross.add, h]
theorem ts_vcorr_post (w : Nat) (g : Gen.ts_vcorr.St) (m : C04.Cross) (x : C04.Pair) (h : g.n = m.n) :
    (Gen.ts_vcorr.post w g (some x)).n = (cnt2.remove m x).n := by
  obtain ⟨a, b⟩ := x
  cases a <;> cases b <;> simp [Gen.ts_vcorr.post, C04.crossRoll, C04.Cross.remove, h]
theorem ts_vcorr_emit (sqrt : Rat → Rat) (w mp : Nat) (g : Gen.ts_vcorr.St) (m : C04.Cross) (v : C04.Pair) (h : g.n = m.n) :
    Masked mp (Gen.ts_vcorr.emit sqrt w mp g v) (cnt2.emit m) := by
  intro hlt
  have hlt' : ¬ (g.n ≥ mp) := by simp only [C04.crossRoll] at hlt; omega
  simp only [Gen.ts_vcorr.emit, decide_eq_true_eq, if_neg hlt']
theorem ts_vcorr_step (sqrt : Rat → Rat) (w mp : Nat) (g : Gen.ts_vcorr.St) (m : C04.Cross) (rm : Option C04.Pair) (v : C04.Pair) (h : g.n = m.n) :
    (Gen.ts_vcorr.step sqrt w mp g rm v).1.n = (cnt2.step m (rm.map id) (id v)).1.n ∧
    Masked mp (Gen.ts_vcorr.step sqrt w mp g rm v).2 (cnt2.step m (rm.map id) (id v)).2 :=
  hstep_of_parts id (Gen.ts_vcorr.step sqrt w mp) (Gen.ts_vcorr.pre sqrt w mp) (Gen.ts_vcorr.post w) (Gen.ts_vcorr.add w)
    (Gen.ts_vcorr.emit sqrt w mp) cnt2 (fun g m => g.n = m.n) (Masked mp)
    (Gen.ts_vcorr.step_eq sqrt w mp) (Gen.ts_vcorr.pre_eq sqrt w mp) (ts_vcorr_add w) (ts_vcorr_post w) (fun _ => rfl)
    (ts_vcorr_emit sqrt w mp) g m rm v h
theorem ts_vcorr_minPeriods (w : Nat) (mp : Option Nat) : Gen.ts_vcorr.minPeriods w mp = effMp mp w 0 := by
  simp [Gen.ts_vcorr.minPeriods, effMp]
theorem ts_vcorr_length (sqrt : Rat → Rat) (sh : Shape) (xs ys : List (Option Rat)) (w mp : Nat) (hw : 1 ≤ w)
    (hlen : ys.length = xs.length) :
    (genRun (Gen.ts_vcorr.step sqrt w mp) (Gen.ts_vcorr.init w) (apply2Calls sh xs ys w)).length = xs.length := by
  have := congrArg List.length (cnt2_run sh xs ys w hw hlen)
  rw [run_length, List.length_map, List.length_range] at this
  rw [genRun_length, this]
/-- fewer pairwise-complete observations in the window than `mp`: the NaN literal -/
theorem ts_vcorr_warmup (sqrt : Rat → Rat) (sh : Shape) (xs ys : List (Option Rat)) (w mp : Nat) (hw : 1 ≤ w)
    (hlen : ys.length = xs.length) (i : Nat) (hi : i < xs.length)
    (h : (C04.Spec.complete (window (xs.zip ys) i w)).length < mp) :
    (genRun (Gen.ts_vcorr.step sqrt w mp) (Gen.ts_vcorr.init w) (apply2Calls sh xs ys w))[i]? = some none := by
  have hs := run_sim id _ cnt2 (fun g m => g.n = m.n) (Masked mp) (ts_vcorr_step sqrt w mp)
    (apply2Calls sh xs ys w) (Gen.ts_vcorr.init w) C04.Cross.zero (by simp [Gen.ts_vcorr.init, C04.Cross.zero])
  rw [mapCalls_id, cnt2_run sh xs ys w hw hlen] at hs
  obtain ⟨o, ho, hm⟩ := nth_of_forall2 hs i (C04.Spec.complete (window (xs.zip ys) i w)).length (by
    simp only [List.getElem?_map, List.getElem?_range hi, Option.map_some])
  rw [ho, hm h]

/-! ### `ts_vregx_alpha` -/
theorem ts_vregx_alpha_add (w : Nat) (g : Gen.ts_vregx_alpha.St) (m : C04.Cross) (v : C04.Pair) (h : g.n = m.n) :
    (Gen.ts_vregx_alpha.add w g v).n = (cnt2.add m v).n := by
  obtain ⟨a, b⟩ := v
  cases a <;> cases b <;> simp [Gen.ts_vregx_alpha.add, C04.crossRoll, C04.Cross.add, h]
theorem ts_vregx_alpha_post (w : Nat) (g : Gen.ts_vregx_alpha.St) (m : C04.Cross) (x : C04.Pair) (h : g.n = m.n) :
    (Gen.ts_vregx_alpha.post w g (some x)).n = (cnt2.remove m x).n := by
  obtain ⟨a, b⟩ := x
  cases a <;> cases b <;> simp [Gen.ts_vregx_alpha.post, C04.crossRoll, C04.Cross.remove, h]
theorem ts_vregx_alpha_emit (sqrt : Rat → Rat) (w mp : Nat) (g : Gen.ts_vregx_alpha.St) (m : C04.Cross) (v : C04.Pair) (h : g.n = m.n) :
    Masked mp (Gen.ts_vregx_alpha.emit sqrt w mp g v) (cnt2.emit m) := by
  intro hlt
  have hlt' : ¬ (g.n ≥ mp) := by simp only [C04.crossRoll] at hlt; omega
  simp only [Gen.ts_vregx_alpha.emit, decide_eq_true_eq, if_neg hlt']
theorem ts_vregx_alpha_step (sqrt : Rat → Rat) (w mp : Nat) (g : Gen.ts_vregx_alpha.St) (m : C04.Cross) (rm : Option C04.Pair) (v : C04.Pair) (h : g.n = m.n) :
    (Gen.ts_vregx_alpha.step sqrt w mp g rm v).1.n = (cnt2.step m (rm.map id) (id v)).1.n ∧
    Masked mp (Gen.ts_vregx_alpha.step sqrt w mp g rm v).2 (cnt2.step m (rm.map id) (id v)).2 :=
  hstep_of_parts id (Gen.ts_vregx_alpha.step sqrt w mp) (Gen.ts_vregx_alpha.pre sqrt w mp) (Gen.ts_vregx_alpha.post w) (Gen.ts_vregx_alpha.add w)
    (Gen.ts_vregx_alpha.emit sqrt w mp) cnt2 (fun g m => g.n = m.n) (Masked mp)
    (Gen.ts_vregx_alpha.step_eq sqrt w mp) (Gen.ts_vregx_alpha.pre_eq sqrt w mp) (ts_vregx_alpha_add w) (ts_vregx_alpha_post w) (fun _ => rfl)
    (ts_vregx_alpha_emit sqrt w mp) g m rm v h
theorem ts_vregx_alpha_minPeriods (w : Nat) (mp : Option Nat) : Gen.ts_vregx_alpha.minPeriods w mp = effMp mp w 0 := by
  simp [Gen.ts_vregx_alpha.minPeriods, effMp]
theorem ts_vregx_alpha_length (sqrt : Rat → Rat) (sh : Shape) (xs ys : List (Option Rat)) (w mp : Nat) (hw : 1 ≤ w)
    (hlen : ys.length = xs.length) :
    (genRun (Gen.ts_vregx_alpha.step sqrt w mp) (Gen.ts_vregx_alpha.init w) (apply2Calls sh xs ys w)).length = xs.length := by
  have := congrArg List.length (cnt2_run sh xs ys w hw hlen)
  rw [run_length, List.length_map, List.length_range] at this
  rw [genRun_length, this]
/-- fewer pairwise-complete observations in the window than `mp`: the NaN literal -/
theorem ts_vregx_alpha_warmup (sqrt : Rat → Rat) (sh : Shape) (xs ys : List (Option Rat)) (w mp : Nat) (hw : 1 ≤ w)
    (hlen : ys.length = xs.length) (i : Nat) (hi : i < xs.length)
    (h : (C04.Spec.complete (window (xs.zip ys) i w)).length < mp) :
    (genRun (Gen.ts_vregx_alpha.step sqrt w mp) (Gen.ts_vregx_alpha.init w) (apply2Calls sh xs ys w))[i]? = some none := by
  have hs := run_sim id _ cnt2 (fun g m => g.n = m.n) (Masked mp) (ts_vregx_alpha_step sqrt w mp)
    (apply2Calls sh xs ys w) (Gen.ts_vregx_alpha.init w) C04.Cross.zero (by simp [Gen.ts_vregx_alpha.init, C04.Cross.zero])
  rw [mapCalls_id, cnt2_run sh xs ys w hw hlen] at hs
  obtain ⟨o, ho, hm⟩ := nth_of_forall2 hs i (C04.Spec.complete (window (xs.zip ys) i w)).length (by
    simp only [List.getElem?_map, List.getElem?_range hi, Option.map_some])
  rw [ho, hm h]

/-! ### `ts_vregx_beta` -/
theorem ts_vregx_beta_add (w : Nat) (g : Gen.ts_vregx_beta.St) (m : C04.Cross) (v : C04.Pair) (h : g.n = m.n) :
    (Gen.ts_vregx_beta.add w g v).n = (cnt2.add m v).n := by
  obtain ⟨a, b⟩ := v
  cases a <;> cases b <;> simp [Gen.ts_vregx_beta.add, C04.crossRoll, C04.Cross.add, h]
theorem ts_vregx_beta_post (w : Nat) (g : Gen.ts_vregx_beta.St) (m : C04.Cross) (x : C04.Pair) (h : g.n = m.n) :
    (Gen.ts_vregx_beta.post w g (some x)).n = (cnt2.remove m x).n := by
  obtain ⟨a, b⟩ := x
  cases a <;> cases b <;> simp [Gen.ts_vregx_beta.post, C04.crossRoll, C04.Cross.remove, h]
theorem ts_vregx_beta_emit (sqrt : Rat → Rat) (w mp : Nat) (g : Gen.ts_vregx_beta.St) (m : C04.Cross) (v : C04.Pair) (h : g.n = m.n) :
    Masked mp (Gen.ts_vregx_beta.emit sqrt w mp g v) (cnt2.emit m) := by
  intro hlt
  have hlt' : ¬ (g.n ≥ mp) := by simp only [C04.crossRoll] at hlt; omega
  simp only [Gen.ts_vregx_beta.emit, decide_eq_true_eq, if_neg hlt']
theorem ts_vregx_beta_step (sqrt : Rat → Rat) (w mp : Nat) (g : Gen.ts_vregx_beta.St) (m : C04.Cross) (rm : Option C04.Pair) (v : C04.Pair) (h : g.n = m.n) :
    (Gen.ts_vregx_beta.step sqrt w mp g rm v).1.n = (cnt2.step m (rm.map id) (id v)).1.n ∧
    Masked mp (Gen.ts_vregx_beta.step sqrt w mp g rm v).2 (cnt2.step m (rm.map id) (id v)).2 :=
  hstep_of_parts id (Gen.ts_vregx_beta.step sqrt w mp) (Gen.ts_vregx_beta.pre sqrt w mp) (Gen.ts_vregx_beta.post w) (Gen.ts_vregx_beta.add w)
    (Gen.ts_vregx_beta.emit sqrt w mp) cnt2 (fun g m => g.n = m.n) (Masked mp)
    (Gen.ts_vregx_beta.step_eq sqrt w mp) (Gen.ts_vregx_beta.pre_eq sqrt w mp) (ts_vregx_beta_add w) (ts_vregx_beta_post w) (fun _ => rfl)
    (ts_vregx_beta_emit sqrt w mp) g m rm v h
theorem ts_vregx_beta_minPeriods (w : Nat) (mp : Option Nat) : Gen.ts_vregx_beta.minPeriods w mp = effMp mp w 0 := by
  simp [Gen.ts_vregx_beta.minPeriods, effMp]
theorem ts_vregx_beta_length (sqrt : Rat → Rat) (sh : Shape) (xs ys : List (Option Rat)) (w mp : Nat) (hw : 1 ≤ w)
    (hlen : ys.length = xs.length) :
    (genRun (Gen.ts_vregx_beta.step sqrt w mp) (Gen.ts_vregx_beta.init w) (apply2Calls sh xs ys w)).length = xs.length := by
  have := congrArg List.length (cnt2_run sh xs ys w hw hlen)
  rw [run_length, List.length_map, List.length_range] at this
  rw [genRun_length, this]
/-- fewer pairwise-complete observations in the window than `mp`: the NaN literal -/
theorem ts_vregx_beta_warmup (sqrt : Rat → Rat) (sh : Shape) (xs ys : List (Option Rat)) (w mp : Nat) (hw : 1 ≤ w)
    (hlen : ys.length = xs.length) (i : Nat) (hi : i < xs.length)
    (h : (C04.Spec.complete (window (xs.zip ys) i w)).length < mp) :
    (genRun (Gen.ts_vregx_beta.step sqrt w mp) (Gen.ts_vregx_beta.init w) (apply2Calls sh xs ys w))[i]? = some none := by
  have hs := run_sim id _ cnt2 (fun g m => g.n = m.n) (Masked mp) (ts_vregx_beta_step sqrt w mp)
    (apply2Calls sh xs ys w) (Gen.ts_vregx_beta.init w) C04.Cross.zero (by simp [Gen.ts_vregx_beta.init, C04.Cross.zero])
  rw [mapCalls_id, cnt2_run sh xs ys w hw hlen] at hs
  obtain ⟨o, ho, hm⟩ := nth_of_forall2 hs i (C04.Spec.complete (window (xs.zip ys) i w)).length (by
    simp only [List.getElem?_map, List.getElem?_range hi, Option.map_some])
  rw [ho, hm h]

/-! ### `ts_vregx_all` -/
theorem ts_vregx_all_add (w : Nat) (g : Gen.ts_vregx_all.St) (m : C04.Cross) (v : C04.Pair) (h : g.n = m.n) :
    (Gen.ts_vregx_all.add w g v).n = (cnt2.add m v).n := by
  obtain ⟨a, b⟩ := v
  cases a <;> cases b <;> simp [Gen.ts_vregx_all.add, C04.crossRoll, C04.Cross.add, h]
theorem ts_vregx_all_post (w : Nat) (g : Gen.ts_vregx_all.St) (m : C04.Cross) (x : C04.Pair) (h : g.n = m.n) :
    (Gen.ts_vregx_all.post w g (some x)).n = (cnt2.remove m x).n := by
  obtain ⟨a, b⟩ := x
  cases a <;> cases b <;> simp [Gen.ts_vregx_all.post, C04.crossRoll, C04.Cross.remove, h]
theorem ts_vregx_all_emit (sqrt : Rat → Rat) (w mp : Nat) (g : Gen.ts_vregx_all.St) (m : C04.Cross) (v : C04.Pair) (h : g.n = m.n) :
    Masked3 mp (Gen.ts_vregx_all.emit sqrt w mp g v) (cnt2.emit m) := by
  intro hlt
  have hlt' : ¬ (g.n ≥ mp) := by simp only [C04.crossRoll] at hlt; omega
  simp only [Gen.ts_vregx_all.emit, decide_eq_true_eq, if_neg hlt']
theorem ts_vregx_all_step (sqrt : Rat → Rat) (w mp : Nat) (g : Gen.ts_vregx_all.St) (m : C04.Cross) (rm : Option C04.Pair) (v : C04.Pair) (h : g.n = m.n) :
    (Gen.ts_vregx_all.step sqrt w mp g rm v).1.n = (cnt2.step m (rm.map id) (id v)).1.n ∧
    Masked3 mp (Gen.ts_vregx_all.step sqrt w mp g rm v).2 (cnt2.step m (rm.map id) (id v)).2 :=
  hstep_of_parts id (Gen.ts_vregx_all.step sqrt w mp) (Gen.ts_vregx_all.pre sqrt w mp) (Gen.ts_vregx_all.post w) (Gen.ts_vregx_all.add w)
    (Gen.ts_vregx_all.emit sqrt w mp) cnt2 (fun g m => g.n = m.n) (Masked3 mp)
    (Gen.ts_vregx_all.step_eq sqrt w mp) (Gen.ts_vregx_all.pre_eq sqrt w mp) (ts_vregx_all_add w) (ts_vregx_all_post w) (fun _ => rfl)
    (ts_vregx_all_emit sqrt w mp) g m rm v h
theorem ts_vregx_all_minPeriods (w : Nat) (mp : Option Nat) : Gen.ts_vregx_all.minPeriods w mp = effMp mp w 0 := by
  simp [Gen.ts_vregx_all.minPeriods, effMp]
theorem ts_vregx_all_length (sqrt : Rat → Rat) (sh : Shape) (xs ys : List (Option Rat)) (w mp : Nat) (hw : 1 ≤ w)
    (hlen : ys.length = xs.length) :
    (genRun (Gen.ts_vregx_all.step sqrt w mp) (Gen.ts_vregx_all.init w) (apply2Calls sh xs ys w)).length = xs.length := by
  have := congrArg List.length (cnt2_run sh xs ys w hw hlen)
  rw [run_length, List.length_map, List.length_range] at this
  rw [genRun_length, this]
/-- fewer pairwise-complete observations in the window than `mp`: the NaN literal -/
theorem ts_vregx_all_warmup (sqrt : Rat → Rat) (sh : Shape) (xs ys : List (Option Rat)) (w mp : Nat) (hw : 1 ≤ w)
    (hlen : ys.length = xs.length) (i : Nat) (hi : i < xs.length)
    (h : (C04.Spec.complete (window (xs.zip ys) i w)).length < mp) :
    (genRun (Gen.ts_vregx_all.step sqrt w mp) (Gen.ts_vregx_all.init w) (apply2Calls sh xs ys w))[i]? = some (none, none, none) := by
  have hs := run_sim id _ cnt2 (fun g m => g.n = m.n) (Masked3 mp) (ts_vregx_all_step sqrt w mp)
    (apply2Calls sh xs ys w) (Gen.ts_vregx_all.init w) C04.Cross.zero (by simp [Gen.ts_vregx_all.init, C04.Cross.zero])
  rw [mapCalls_id, cnt2_run sh xs ys w hw hlen] at hs
  obtain ⟨o, ho, hm⟩ := nth_of_forall2 hs i (C04.Spec.complete (window (xs.zip ys) i w)).length (by
    simp only [List.getElem?_map, List.getElem?_range hi, Option.map_some])
  rw [ho, hm h]

/-! ### the index-driven closures of cmp.rs: their `min_periods` expression (no clamp of an explicit value; the window is clamped to the series length first) -/
theorem ts_vmin_minPeriods (len w : Nat) (mp : Option Nat) (h : 1 ≤ len) :
    Gen.ts_vmin.minPeriods len w mp = C03.cmpMp mp w len := by
  have : ¬ len = 0 := by omega
  simp [Gen.ts_vmin.minPeriods, C03.cmpMp, this]

theorem ts_vmax_minPeriods (len w : Nat) (mp : Option Nat) (h : 1 ≤ len) :
    Gen.ts_vmax.minPeriods len w mp = C03.cmpMp mp w len := by
  have : ¬ len = 0 := by omega
  simp [Gen.ts_vmax.minPeriods, C03.cmpMp, this]

theorem ts_vargmin_minPeriods (len w : Nat) (mp : Option Nat) (h : 1 ≤ len) :
    Gen.ts_vargmin.minPeriods len w mp = C03.cmpMp mp w len := by
  have : ¬ len = 0 := by omega
  simp [Gen.ts_vargmin.minPeriods, C03.cmpMp, this]

theorem ts_vargmax_minPeriods (len w : Nat) (mp : Option Nat) (h : 1 ≤ len) :
    Gen.ts_vargmax.minPeriods len w mp = C03.cmpMp mp w len := by
  have : ¬ len = 0 := by omega
  simp [Gen.ts_vargmax.minPeriods, C03.cmpMp, this]

theorem ts_vrank_minPeriods (len w : Nat) (mp : Option Nat) (h : 1 ≤ len) :
    Gen.ts_vrank.minPeriods len w mp = C03.cmpMp mp w len := by
  have : ¬ len = 0 := by omega
  simp [Gen.ts_vrank.minPeriods, C03.cmpMp, this]

/-- `ts_vminmaxnorm` (norm.rs): an explicit `min_periods` is clamped to the window -/
theorem ts_vminmaxnorm_minPeriods (len w : Nat) (mp : Option Nat) :
    Gen.ts_vminmaxnorm.minPeriods len w mp = C03.normMp mp w := by
  simp [Gen.ts_vminmaxnorm.minPeriods, C03.normMp]

end Tv.C05Gen
