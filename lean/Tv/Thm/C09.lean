import Tv.Lemmas.C09
import Tv.Lemmas.C09Range
import Tv.Generated
/-!
  C09 — trusted-length iterators yield exactly as many items as they announce.

  `Exact it` (Tv/Spec/C09Len.lean): after `f` items were taken from the front and `b` from the
  back (`f + b ≤ length`) the upper bound of `size_hint` is `length - f - b`.

  Part 1: every library construction is exact for *all* parameters, and shift-like constructions
          preserve the length of their input.
  Part 2: arbitrary pipelines (`Pipe`: a source, double-ended std adaptors, then any sequence of
          library adaptors) are exact, by induction over the pipeline.
  Part 3: consequently the raw collectors return a fully initialised container holding exactly the
          remaining items, at every point of the consumption.
  Part 4: the pinned tree violates the property (F12, F13): concrete witnesses.
-/
namespace Tv.C09
open It

/-! ## Part 1 — constructions -/

/-- `MapBasic::shift` (repaired) / `MapValidBasic::vshift`: for every `i32` lag `n`, including
`|n| ≥ len` and empty input, the result is exact and has the length of the input. -/
theorem shiftCore_exact (n : Int) (v : α) {src : It α} (h : Exact src) :
    ∃ r, shiftCore n v src = .ok r ∧ Exact r ∧ r.len = src.len := by
  unfold shiftCore
  rw [h.hintLen]
  simp only [bind, Except.bind, pure, Except.pure]
  by_cases h1 : src.len ≤ n.natAbs
  · simp only [h1, if_true]
    exact ⟨_, rfl, repeatN_exact _ _, by simp [repeatN, It.len]⟩
  · simp only [h1, if_false]
    simp only [It.len] at h1
    by_cases h2 : n > 0
    · simp only [h2, if_true]
      refine ⟨_, rfl, trust_exact _ ?_, ?_⟩ <;>
        simp only [trust, chain, take, repeatN, It.len, List.length_append, List.length_replicate,
          List.length_take] <;> omega
    · simp only [h2, if_false]
      by_cases h3 : n < 0
      · simp only [h3, if_true]
        refine ⟨_, rfl, trust_exact _ ?_, ?_⟩ <;>
          simp only [trust, chain, skip, repeatN, It.len, List.length_append, List.length_replicate,
            List.length_drop] <;> omega
      · simp only [h3, if_false]
        exact ⟨_, rfl, h, rfl⟩

/-- `MapBasic::shift(n, value)` -/
theorem shift_exact (n : Int) (v : α) {src : It α} (h : Exact src) :
    ∃ r, shift n v src = .ok r ∧ Exact r ∧ r.len = src.len := shiftCore_exact n v h

/-- `MapValidBasic::vshift(n, value)` -/
theorem vshift_exact (n : Int) (v : Option E) {src : It E} (h : Exact src) :
    ∃ r, vshift n v src = .ok r ∧ Exact r ∧ r.len = src.len := shiftCore_exact n _ h

/-- `abs`, `vabs`, `ffill_mask`, `ffill`, `fill_mask`, `fill`, `enumerate`, `iter_cast`: a `Map` -/
theorem mapLike_exact (g : α → α) {src : It α} (h : Exact src) :
    Exact (mapLike g src) ∧ (mapLike g src).len = src.len :=
  ⟨map_exact g h, by simp [mapLike, map, It.len]⟩

/-- `vclip(lower, upper)`, all four bound shapes -/
theorem vclip_exact (lo hi : Option Rat) {src : It E} (h : Exact src) :
    Exact (vclip lo hi src) ∧ (vclip lo hi src).len = src.len := by
  cases lo <;> cases hi
  · exact ⟨h, rfl⟩
  · exact ⟨map_exact _ h, by simp [vclip, map, It.len]⟩
  · exact ⟨map_exact _ h, by simp [vclip, map, It.len]⟩
  · exact ⟨map_exact _ h, by simp [vclip, map, It.len]⟩

/-- `bfill_mask` / `bfill`: the raw collector it runs internally is given an exact iterator, so the
construction succeeds, and the reversed `vec::IntoIter` it returns is exact. -/
theorem bfill_exact (v : Option (Option β)) {src : It (Option β)} (h : Exact src) :
    ∃ r, bfill v src = .ok r ∧ Exact r ∧ r.len = src.len := by
  unfold bfill
  rw [collectTrusted_exact (ffill_exact v (rev_exact h))]
  refine ⟨_, rfl, rev_exact (ofList_exact _), ?_⟩
  simp [rev, ofList, ffill, It.len, ffillItems_length]

/-- `vcut(bins, labels, right, add_bounds)`: either the label-count error, or a `Map` -/
theorem vcut_exact (bins labels : List Rat) (right ab : Bool) {src : It E} (h : Exact src) :
    vcut bins labels right ab src = .error "E" ∨
    ∃ r, vcut bins labels right ab src = .ok r ∧ Exact r ∧ r.len = src.len := by
  unfold vcut
  split
  · split
    · exact Or.inl rfl
    · exact Or.inr ⟨_, rfl, map_exact _ h, by simp [map, It.len]⟩
  · split
    · exact Or.inl rfl
    · exact Or.inr ⟨_, rfl, map_exact _ h, by simp [map, It.len]⟩

/-- `vdiff(n, value)`: exact and input-length for every lag -/
theorem vdiff_exact (n : Int) (v : Option E) (xs : List E) :
    Exact (vdiff n v xs) ∧ (vdiff n v xs).len = xs.length := by
  unfold vdiff
  simp only
  by_cases h1 : xs.length ≤ n.natAbs
  · simp only [h1, if_true]
    exact ⟨repeatN_exact _ _, by simp [repeatN, It.len]⟩
  · simp only [h1, if_false]
    by_cases h2 : n > 0
    · simp only [h2, if_true]
      refine ⟨trust_exact _ ?_, ?_⟩ <;>
        simp only [trust, zipWith, chain, take, skip, repeatN, ofList, It.len, List.length_zipWith,
          List.length_append, List.length_replicate, List.length_take, List.length_drop] <;> omega
    · simp only [h2, if_false]
      refine ⟨trust_exact _ ?_, ?_⟩ <;>
        simp only [trust, zipWith, chain, skip, repeatN, ofList, It.len, List.length_zipWith,
          List.length_append, List.length_replicate, List.length_drop] <;> omega

/-- `vpct_change(n)` -/
theorem vpctChange_exact (n : Int) (xs : List E) :
    Exact (vpctChange n xs) ∧ (vpctChange n xs).len = xs.length := by
  unfold vpctChange
  simp only
  by_cases h1 : xs.length ≤ n.natAbs
  · simp only [h1, if_true]
    exact ⟨repeatN_exact _ _, by simp [repeatN, It.len]⟩
  · simp only [h1, if_false]
    by_cases h2 : n > 0
    · simp only [h2, if_true]
      refine ⟨trust_exact _ ?_, ?_⟩ <;>
        simp only [trust, zipWith, chain, take, map, repeatN, ofList, It.len, List.length_zipWith,
          List.length_append, List.length_replicate, List.length_take, List.length_map] <;> omega
    · simp only [h2, if_false]
      refine ⟨trust_exact _ ?_, ?_⟩ <;>
        simp only [trust, zipWith, chain, skip, repeatN, ofList, It.len, List.length_zipWith,
          List.length_append, List.length_replicate, List.length_drop] <;> omega

/-- `varg_partition(kth, sort, rev)`: exactly `kth + 1` indices for every `kth` (also `kth ≥ len`,
empty input, all-null input), in every branch -/
theorem vargPartition_exact (kth : Nat) (sort rev : Bool) (xs : List E) :
    Exact (vargPartition kth sort rev xs) ∧ (vargPartition kth sort rev xs).len = kth + 1 := by
  unfold vargPartition
  simp only
  split
  · split
    · exact ⟨trust_exact _ (by simp only [map, It.len]; rw [← It.len, padTake_len]) , by
        simp only [trust, It.len]; rw [← It.len, padTake_len]⟩
    · exact ⟨trust_exact _ (padTake_len _ _ _).symm, by
        simp only [trust, It.len]; rw [← It.len, padTake_len]⟩
  · rename_i hn
    have hlen : kth + 1 < xs.length := by
      have := countValid_le xs; omega
    have hl : ((List.map (fun i => (Int.ofNat i, xs.getD i none)) (List.range xs.length)).mergeSort
        (fun a b => leE rev a.2 b.2)).length = xs.length := by
      simp [List.length_mergeSort]
    refine ⟨trust_exact _ ?_, ?_⟩ <;>
      simp only [trust, ofList, It.len, List.length_map, List.length_take, hl] <;> omega

/-- `vpartition(kth, sort, rev)`: exact in every branch (the sorted short branch pads with nulls up to `kth + 1` — repaired, F19) -/
theorem vpartition_exact (kth : Nat) (sort rev : Bool) (xs : List E) :
    Exact (vpartition kth sort rev xs) := by
  unfold vpartition
  simp only
  split
  · rename_i h
    exact trust_exact _ (by simp [filter, ofList, It.len]; unfold countValid at h; omega)
  · split
    · split
      · exact trust_exact _ (padTake_len _ _ _).symm
      · exact trust_exact _ (padTake_len _ _ _).symm
    · rename_i hn
      have hlen : kth + 1 < xs.length := by
        have := countValid_le xs; omega
      refine trust_exact _ ?_
      simp only [ofList, It.len, List.length_take, List.length_mergeSort]; omega

/-- unsorted partitions hand out `kth + 1` entries -/
theorem vpartition_len (kth : Nat) (rev : Bool) (xs : List E) :
    (vpartition kth false rev xs).len = kth + 1 := by
  unfold vpartition
  simp only
  split
  · rename_i h
    simp [trust, filter, ofList, It.len]; unfold countValid at h; omega
  · split
    · simp only [Bool.not_false, if_true, trust, It.len]; rw [← It.len, padTake_len]
    · rename_i hn
      have hlen : kth + 1 < xs.length := by
        have := countValid_le xs; omega
      simp only [trust, ofList, It.len, List.length_take, List.length_mergeSort]; omega

/-- `winsorize`: `iter_cast` optionally followed by `vclip`, for whatever bounds the aggregations
return -/
theorem winsorize_exact (bounds : Option (Option Rat × Option Rat)) (xs : List E) :
    Exact (winsorize bounds xs) ∧ (winsorize bounds xs).len = xs.length := by
  unfold winsorize
  cases bounds with
  | none => exact ⟨map_exact _ (ofList_exact _), by simp [map, ofList, It.len]⟩
  | some p =>
    have := vclip_exact p.1 p.2 (map_exact id (ofList_exact xs))
    exact ⟨this.1, by rw [this.2]; simp [map, ofList, It.len]⟩

/-- the lazy rolling iterator `rolling_custom_iter(window, f)`: for every `window ≥ 1`
(also `window > len`) exact and input-length -/
theorem rollingCustomIter_exact (w : Nat) (hw : 1 ≤ w) (g : List α → β) (xs : List α) :
    ∃ r, rollingCustomIter w g xs = .ok r ∧ Exact r ∧ r.len = xs.length := by
  unfold rollingCustomIter
  have : ¬ w = 0 := by omega
  simp only [this, if_false]
  refine ⟨_, rfl, trust_exact _ ?_, ?_⟩ <;>
    simp only [trust, zipWith, chain, repeatN, ofList, It.len, List.length_zipWith, List.length_map,
      List.length_range, List.length_append, List.length_replicate] <;> omega

/-- `linspace(a, b, n)` yields `n` items and is exact from either end -/
theorem linspace_exact (a b : Rat) (n : Nat) : Exact (linspace a b n) ∧ (linspace a b n).len = n :=
  ⟨linspaceIt_exact _ _, by simp [linspace, linspaceIt, It.len]⟩

/-- `range(a, b, step)` is exact from either end -/
theorem range_exact (a b s : Rat) : Exact (range a b s) := linspaceIt_exact _ _

/-! ## Part 2 — arbitrary pipelines -/

theorem src_exact (s : Src) : Exact s.eval := by
  cases s with
  | titer xs => exact ofList_exact xs
  | chain xs ys => exact chain_exact (ofList_exact _) (ofList_exact _)
  | zip xs ys => exact zipWith_exact _ (ofList_exact _) (ofList_exact _)
  | linspace n => exact map_exact _ (linspace_exact 0 1 n).1
  | range a b s => exact map_exact _ (range_exact _ _ _)
  | repeatN n => exact repeatN_exact _ _

theorem deop_exact {it : It E} (h : Exact it) (d : DeOp) : Exact (d.eval it) := by
  cases d with
  | rev => exact rev_exact h
  | map => exact map_exact _ h
  | trust => exact trust_exact _ rfl
  | next => exact advF_exact h
  | nextBack => exact advB_exact h

theorem source_exact (p : Pipe) : Exact p.source := by
  unfold Pipe.source
  suffices ∀ (l : List DeOp) (it : It E), Exact it → Exact (l.foldl DeOp.eval it) from
    this _ _ (src_exact _)
  intro l
  induction l with
  | nil => intro it h; exact h
  | cons d ds ih => intro it h; exact ih _ (deop_exact h d)

/-- every library adaptor maps an exact iterator to an exact iterator (or reports an error) -/
theorem op_exact {it it' : It E} (h : Exact it) (o : Op) (he : o.eval it = .ok it') : Exact it' := by
  cases o with
  | abs => cases he; exact map_exact _ h
  | vabs => cases he; exact map_exact _ h
  | enumerate => cases he; exact map_exact _ (map_exact _ h)
  | ffill v => cases he; exact ffill_exact v h
  | bfill v =>
    obtain ⟨r, hr, hx, _⟩ := bfill_exact v h
    simp only [Op.eval] at he; rw [hr] at he; cases he; exact hx
  | fill v => cases he; exact map_exact _ h
  | vclip lo hi => cases he; exact (vclip_exact lo hi h).1
  | shift n v =>
    obtain ⟨r, hr, hx, _⟩ := shift_exact n v h
    simp only [Op.eval] at he; rw [hr] at he; cases he; exact hx
  | vshift n v =>
    obtain ⟨r, hr, hx, _⟩ := vshift_exact n v h
    simp only [Op.eval] at he; rw [hr] at he; cases he; exact hx
  | vcut bins labels right ab =>
    simp only [Op.eval] at he
    rcases vcut_exact bins labels right ab h with hr | ⟨r, hr, hx, _⟩
    · rw [hr] at he; cases he
    · rw [hr] at he; cases he; exact hx
  | take k => cases he; exact take_exact h k
  | next => cases he; exact advF_exact h
  | chainWith ys => cases he; exact chain_exact h (ofList_exact _)
  | zipWith ys => cases he; exact zipWith_exact _ h (ofList_exact _)
  | vdiff n v => cases he; exact (vdiff_exact n v _).1
  | vpct n => cases he; exact (vpctChange_exact n _).1
  | vargPart k s r => cases he; exact map_exact _ (vargPartition_exact k s r _).1
  | vpart k s r => cases he; exact vpartition_exact k s r _
  | winsorize bounds => cases he; exact (winsorize_exact bounds _).1
  | rolling w =>
    simp only [Op.eval] at he
    by_cases hw : w = 0
    · simp [rollingCustomIter, hw] at he
    · obtain ⟨r, hr, hx, _⟩ := rollingCustomIter_exact w (by omega) (fun l => some (l.length : Rat)) it.items
      rw [hr] at he; cases he; exact hx

theorem evalOps_exact {it it' : It E} (h : Exact it) (ops : List Op) (he : evalOps it ops = .ok it') :
    Exact it' := by
  induction ops generalizing it with
  | nil => simp only [evalOps] at he; cases he; exact h
  | cons o os ih =>
    simp only [evalOps] at he
    split at he
    · rename_i it1 h1; exact ih (op_exact h o h1) he
    · cases he

/-- **C09, main theorem.** Whatever iterator a pipeline of library adaptors of any depth hands
out — any source, any stack of double-ended std adaptors and partial consumption before the first
adaptor, any adaptor parameters — it announces, at every point of its consumption from either
end, exactly the number of items it will still yield. -/
theorem pipeline_exact (p : Pipe) {it : It E} (he : p.eval = .ok it) : Exact it :=
  evalOps_exact (source_exact p) p.ops he

/-- an adaptor application is well formed: rolling window `≥ 1` (DESIGN 5.6) and one label per bin -/
def Op.WellFormed : Op → Prop
  | .rolling w => 1 ≤ w
  | .vcut bins labels _ ab => if ab then labels.length = bins.length + 1 else labels.length + 1 = bins.length
  | _ => True

theorem op_total {it : It E} (h : Exact it) (o : Op) (hw : o.WellFormed) : ∃ it', o.eval it = .ok it' := by
  cases o with
  | bfill v => obtain ⟨r, hr, _⟩ := bfill_exact v h; exact ⟨r, hr⟩
  | shift n v => obtain ⟨r, hr, _⟩ := shift_exact n v h; exact ⟨r, hr⟩
  | vshift n v => obtain ⟨r, hr, _⟩ := vshift_exact n v h; exact ⟨r, hr⟩
  | vcut bins labels right ab =>
    simp only [Op.WellFormed] at hw
    simp only [Op.eval, vcut]
    cases ab <;> simp_all
  | rolling w =>
    obtain ⟨r, hr, _⟩ := rollingCustomIter_exact w hw (fun l => some (l.length : Rat)) it.items
    exact ⟨r, hr⟩
  | _ => exact ⟨_, rfl⟩

/-- a pipeline of well-formed adaptor applications never panics and never reports an error: no
`unwrap` on a missing upper bound, no underflow for lags larger than the series -/
theorem pipeline_total (p : Pipe) (hw : ∀ o ∈ p.ops, o.WellFormed) : ∃ it, p.eval = .ok it := by
  unfold Pipe.eval
  suffices ∀ (ops : List Op) (it : It E), Exact it → (∀ o ∈ ops, o.WellFormed) →
      ∃ it', evalOps it ops = .ok it' from this _ _ (source_exact p) hw
  intro ops
  induction ops with
  | nil => intro it _ _; exact ⟨it, rfl⟩
  | cons o os ih =>
    intro it h hw
    obtain ⟨it1, h1⟩ := op_total h o (hw o (by simp))
    obtain ⟨it2, h2⟩ := ih it1 (op_exact h o h1) (fun o' ho' => hw o' (by simp [ho']))
    exact ⟨it2, by simp only [evalOps, h1, h2]⟩

/-! ## Part 3 — consequences for the raw collectors -/

/-- collecting an exact iterator with `collect_from_trusted` returns exactly its items: nothing is
written outside the allocation and no slot is left uninitialised -/
theorem collect_exact {it : It α} (h : Exact it) : collectTrusted it = .ok it.items :=
  collectTrusted_exact h

/-- … and so does collecting the remainder after any partial consumption from either end -/
theorem collect_after_exact {it : It α} (h : Exact it) (f b : Nat) (hb : f + b ≤ it.len) :
    collectAfter it f b = .ok ((it.items.drop f).take (it.len - f - b)) :=
  collectAfter_exact h f b hb

/-- the collectors are safe on the output of every pipeline -/
theorem pipeline_collect (p : Pipe) {it : It E} (he : p.eval = .ok it) (f b : Nat) (hb : f + b ≤ it.len) :
    collectAfter it f b = .ok ((it.items.drop f).take (it.len - f - b)) :=
  collect_after_exact (pipeline_exact p he) f b hb

/-- conversely the collector is *only* safe on an iterator whose hint is its item count -/
theorem collect_ok_iff (it : It α) : (∃ xs, collectTrusted it = .ok xs) ↔ it.upper 0 0 = some it.len := by
  unfold collectTrusted collectAfter
  simp only [Nat.sub_zero, List.drop_zero, List.take_length, It.len]
  constructor
  · intro ⟨xs, h⟩
    split at h
    · cases h
    · rename_i cap hc
      rw [hc]
      split at h
      · rename_i hl; rw [hl]
      · split at h <;> cases h
  · intro h
    rw [h]
    exact ⟨it.items, by simp⟩

/-- a shift-like adaptor (shift, vshift, vdiff, vpct_change, fills, clip, abs, cut, winsorize,
rolling) preserves the length of its input, for all parameters -/
theorem shiftlike_len {it it' : It E} (h : Exact it) (o : Op) (he : o.eval it = .ok it')
    (hs : match o with
      | .abs | .vabs | .enumerate | .ffill _ | .bfill _ | .fill _ | .vclip _ _ | .shift _ _ | .vshift _ _
      | .vcut _ _ _ _ | .vdiff _ _ | .vpct _ | .winsorize _ | .rolling _ => True
      | _ => False) :
    it'.len = it.len := by
  cases o with
  | abs => cases he; simp [abs, map, It.len]
  | vabs => cases he; simp [mapLike, map, It.len]
  | enumerate => cases he; simp [map, It.len]
  | ffill v => cases he; exact ffill_len v it
  | bfill v =>
    obtain ⟨r, hr, _, hl⟩ := bfill_exact v h
    simp only [Op.eval] at he; rw [hr] at he; cases he; exact hl
  | fill v => cases he; simp [mapLike, map, It.len]
  | vclip lo hi => cases he; exact (vclip_exact lo hi h).2
  | shift n v =>
    obtain ⟨r, hr, _, hl⟩ := shift_exact n v h
    simp only [Op.eval] at he; rw [hr] at he; cases he; exact hl
  | vshift n v =>
    obtain ⟨r, hr, _, hl⟩ := vshift_exact n v h
    simp only [Op.eval] at he; rw [hr] at he; cases he; exact hl
  | vcut bins labels right ab =>
    simp only [Op.eval] at he
    rcases vcut_exact bins labels right ab h with hr | ⟨r, hr, _, hl⟩
    · rw [hr] at he; cases he
    · rw [hr] at he; cases he; exact hl
  | vdiff n v => cases he; exact (vdiff_exact n v _).2
  | vpct n => cases he; exact (vpctChange_exact n _).2
  | winsorize bounds => cases he; exact (winsorize_exact bounds _).2
  | rolling w =>
    simp only [Op.eval] at he
    by_cases hw : w = 0
    · simp [rollingCustomIter, hw] at he
    · obtain ⟨r, hr, _, hl⟩ := rollingCustomIter_exact w (by omega) (fun l => some (l.length : Rat)) it.items
      rw [hr] at he; cases he; exact hl
  | take k => exact absurd hs (by simp)
  | next => exact absurd hs (by simp)
  | chainWith ys => exact absurd hs (by simp)
  | zipWith ys => exact absurd hs (by simp)
  | vargPart k s r => exact absurd hs (by simp)
  | vpart k s r => exact absurd hs (by simp)

/-! ## Part 3b — the model agrees with the from-scratch length specification -/

theorem vpartition_sorted_len (kth : Nat) (rev : Bool) (xs : List E) :
    (vpartition kth true rev xs).len = kth + 1 := by
  unfold vpartition
  simp only
  split
  · rename_i h; simp at h
  · split
    · simp only [Bool.not_true, Bool.false_eq_true, if_false, trust, It.len]
      rw [← It.len, padTake_len]
    · rename_i hn
      have hlen : kth + 1 < xs.length := by
        have := countValid_le xs; omega
      simp only [trust, ofList, It.len, List.length_take, List.length_mergeSort]; omega

/-- every adaptor yields the number of items the specification asks for -/
theorem op_len_spec {it it' : It E} (h : Exact it) (o : Op) (he : o.eval it = .ok it') :
    o.specLen it.len = some it'.len := by
  cases o with
  | take k => cases he; simp [Op.specLen, take, It.len, Nat.min_comm]
  | next => cases he; simp [Op.specLen, advF_len]
  | chainWith ys => cases he; simp [Op.specLen, chain, ofList, It.len]
  | zipWith ys => cases he; simp [Op.specLen, zipWith, ofList, It.len]
  | vargPart k s r =>
    cases he
    have := (vargPartition_exact k s r it.items).2
    simp only [Op.specLen, map, It.len, List.length_map] at this ⊢
    rw [this]
  | vpart k s r =>
    cases he
    cases s with
    | true =>
      have := vpartition_sorted_len k r it.items
      simp only [Op.specLen, It.len] at this ⊢
      rw [this]
    | false => simp [Op.specLen, vpartition_len]
  | vcut bins labels right ab =>
    have hl := shiftlike_len h _ he trivial
    simp only [Op.eval, vcut] at he
    simp only [Op.specLen]
    cases ab
    · by_cases hc : labels.length + 1 = bins.length
      · simp [hc, hl]
      · simp [hc] at he
    · by_cases hc : labels.length = bins.length + 1
      · simp [hc, hl]
      · simp [hc] at he
  | abs => rw [shiftlike_len h _ he trivial]; rfl
  | vabs => rw [shiftlike_len h _ he trivial]; rfl
  | enumerate => rw [shiftlike_len h _ he trivial]; rfl
  | ffill v => rw [shiftlike_len h _ he trivial]; rfl
  | bfill v => rw [shiftlike_len h _ he trivial]; rfl
  | fill v => rw [shiftlike_len h _ he trivial]; rfl
  | vclip lo hi => rw [shiftlike_len h _ he trivial]; rfl
  | shift n v => rw [shiftlike_len h _ he trivial]; rfl
  | vshift n v => rw [shiftlike_len h _ he trivial]; rfl
  | vdiff n v => rw [shiftlike_len h _ he trivial]; rfl
  | vpct n => rw [shiftlike_len h _ he trivial]; rfl
  | winsorize b => rw [shiftlike_len h _ he trivial]; rfl
  | rolling w => rw [shiftlike_len h _ he trivial]; rfl

theorem deop_len_spec (it : It E) (d : DeOp) : d.specLen it.len = (d.eval it).len := by
  cases d with
  | rev => simp [DeOp.specLen, DeOp.eval, rev, It.len]
  | map => simp [DeOp.specLen, DeOp.eval, map, It.len]
  | trust => simp [DeOp.specLen, DeOp.eval, trust, It.len]
  | next => simp [DeOp.specLen, DeOp.eval, advF_len]
  | nextBack => simp [DeOp.specLen, DeOp.eval, advB_len]

theorem evalOps_len_spec {it it' : It E} (h : Exact it) (ops : List Op) (he : evalOps it ops = .ok it') :
    specLenOps it.len ops = some it'.len := by
  induction ops generalizing it with
  | nil => simp only [evalOps] at he; cases he; rfl
  | cons o os ih =>
    simp only [evalOps] at he
    split at he
    · rename_i it1 h1
      simp only [specLenOps, op_len_spec h o h1]
      exact ih (op_exact h o h1) he
    · cases he

/-- `Vec1Create::range` is called with a non-zero step -/
def Src.WellFormed : Src → Prop
  | .range _ _ s => s ≠ 0
  | _ => True

theorem src_len_spec (s : Src) (hs : s.WellFormed) : s.specLen = s.eval.len := by
  cases s with
  | titer xs => simp [Src.specLen, Src.eval, ofList, It.len]
  | chain xs ys => simp [Src.specLen, Src.eval, chain, ofList, It.len]
  | zip xs ys => simp [Src.specLen, Src.eval, zipWith, ofList, It.len]
  | linspace n => simp [Src.specLen, Src.eval, map, linspace, linspaceIt, It.len]
  | range a b s =>
    simp only [Src.WellFormed] at hs
    simp only [Src.specLen, Src.eval, map, range, linspaceIt, It.len, List.length_map, List.length_range]
    exact (range_count a b s hs).symm
  | repeatN n => simp [Src.specLen, Src.eval, repeatN, It.len]

/-- **model = spec.** A pipeline that evaluates yields exactly the number of items the
from-scratch specification `Pipe.specLen` prescribes (length-preserving adaptors, `kth + 1`
partitions, `⌈(b-a)/s⌉` range points = the points strictly before `b`, ...). -/
theorem pipeline_len_spec (p : Pipe) (hs : p.src.WellFormed) {it : It E} (he : p.eval = .ok it) :
    p.specLen = some it.len := by
  unfold Pipe.specLen
  have hsrc : p.de.foldl DeOp.specLen p.src.specLen = p.source.len := by
    unfold Pipe.source
    rw [src_len_spec _ hs]
    generalize p.src.eval = it0
    induction p.de generalizing it0 with
    | nil => rfl
    | cons d ds ih => simp only [List.foldl_cons]; rw [deop_len_spec]; exact ih _
  rw [hsrc]
  exact evalOps_len_spec (source_exact p) p.ops he

/-! ## Part 4 — the pinned tree (findings F12, F13) -/

/-- F13: the pinned `TrustIter` keeps announcing its initial length: after one `next()` a
three-item iterator still claims three items -/
theorem trustIter_pinned_wrong :
    ¬ Exact (trustPinned (ofList [1, 2, 3]) 3) := by
  intro h
  have := h 1 0 (by simp [trustPinned, ofList])
  simp [trustPinned, ofList] at this

/-- … and collecting the remainder exposes one uninitialised slot -/
theorem trustIter_pinned_uninit :
    (match collectAfter (trustPinned (ofList [1, 2, 3]) 3) 1 0 with | .uninit 1 => true | _ => false) = true := by
  decide

/-- F12: the pinned `shift(-5, 0)` of a two-item iterator yields five items under a hint of two
(three writes past the allocation in `collect_from_trusted`) -/
theorem shift_pinned_wrong :
    ∃ r, shiftPinned (-5) 0 (ofList [1, 2]) = .ok r ∧ r.len = 5 ∧ r.upper 0 0 = some 2 ∧ ¬ Exact r := by
  refine ⟨_, rfl, by decide, by decide, ?_⟩
  intro h
  have := h 0 0 (Nat.zero_le _)
  revert this
  decide

theorem shift_pinned_overflow :
    (match (shiftPinned (-5) 0 (ofList [1, 2])).toOption.map collectTrusted with
     | some (.overflow 3) => true | _ => false) = true := by
  decide

/-- F12, other sign: the pinned `shift(3, 0)` of a two-item iterator panics (`len - n_abs`) -/
theorem shift_pinned_panics : shiftPinned 3 0 (ofList [1, 2]) = .error "P" := by
  rfl

/-- additional finding: the pinned tree declares `std::iter::Scan` `TrustedLen`, but a scan ends
with the first `None` of its closure: two items under a hint of five, three uninitialised slots in
the collected vector (the repair removes the declaration) -/
theorem scan_pinned_wrong :
    let it := scanPinned (fun (_ : Unit) (x : Nat) => if x > 2 then none else some ((), x)) () (ofList [1, 2, 3, 4, 5])
    it.len = 2 ∧ it.upper 0 0 = some 5 ∧ ¬ Exact it ∧
    (match collectTrusted it with | .uninit 3 => true | _ => false) = true := by
  refine ⟨by decide, by decide, ?_, by decide⟩
  intro h
  have := h 0 0 (Nat.zero_le _)
  revert this
  decide

/-- the repaired `shift` on the same inputs -/
example : ∃ r, shift (-5) 0 (ofList [1, 2]) = .ok r ∧ r.items = [0, 0] ∧ r.upper 0 0 = some 2 :=
  ⟨_, rfl, by decide, by decide⟩
example : ∃ r, shift 3 0 (ofList [1, 2]) = .ok r ∧ r.items = [0, 0] := ⟨_, rfl, by decide⟩

/-! ## Part 5 — the transcription is pinned to the sources (translator) -/

/-- the lag guards, the lengths asserted through `to_trust` / `TrustIter::new` and the sizes of the
`take` / `skip` / `repeat_n` adaptors that translator/extract.py reads off the Rust sources on
every run are exactly the ones the model constructions above are written with; an edit of any of
them (for instance dropping the guard of `shift` again) breaks this theorem before a single input
is run -/
theorem trustTable_matches : Tv.Generated.trustTable = [
    ("shift", true, ["len", "len"], ["repeat_n:len", "repeat_n:n_abs", "take:len-n_abs", "skip:n_abs", "repeat_n:n_abs"]),
    ("vshift", true, ["len", "len"], ["repeat_n:len", "repeat_n:n_abs", "take:len-n_abs", "skip:n_abs", "repeat_n:n_abs"]),
    ("vdiff", true, ["len", "len"], ["repeat_n:len", "repeat_n:n_abs", "take:len-n_abs", "skip:n_abs", "skip:n_abs", "repeat_n:n_abs"]),
    ("vpct_change", true, ["len", "len"], ["repeat_n:len", "repeat_n:n_abs", "take:len-n_abs", "skip:n_abs", "repeat_n:n_abs"]),
    ("varg_partition", false, ["kth+1", "kth+1", "kth+1", "kth+1"], ["take:kth+1", "take:n", "take:kth+1"]),
    ("vpartition", false, ["kth+1", "kth+1", "kth+1", "kth+1"], ["take:kth+1", "take:kth+1"]),
    ("rolling_custom_iter", false, ["self.len()"], ["repeat_n:window-1"])] := by
  decide

/-- `TrustIter::size_hint` returns the stored length, which `next` and `next_back` count down;
`Scan` is not declared `TrustedLen` -/
theorem trustIter_matches :
    Tv.Generated.trustIterHintIsLen = true ∧ Tv.Generated.trustIterCountDowns = 2 ∧
    Tv.Generated.scanDeclaredTrusted = false := by
  decide

/-! ## non-vacuity -/

/-- a depth-5 pipeline with a lag larger than the series, `kth ≥ len`, a window larger than the
series and a partially consumed, reversed source evaluates, and its hints count down -/
example :
    let p : Pipe := ⟨.chain [some 1, none, some 3] [some 4], [.rev, .next, .trust],
      [.vshift (-9) none, .vdiff 2 none, .rolling 7, .vpart 5 false true, .take 4]⟩
    ∃ it, p.eval = .ok it ∧ it.len = 4 ∧ it.upper 0 0 = some 4 ∧ it.upper 3 0 = some 1 := by
  refine ⟨_, rfl, ?_, ?_, ?_⟩ <;> decide

example : Exact (vdiff 7 none [some 1, some 2]) := (vdiff_exact _ _ _).1
example : (vargPartition 4 false false [none, some 2]).len = 5 := (vargPartition_exact _ _ _ _).2

end Tv.C09
