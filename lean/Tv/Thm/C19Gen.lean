import Tv.GenLin
import Tv.Thm.C19
/-!
# C19 — `linspace` and `range` regenerated from linspace.rs are the model's constructors

`Tv.GenLin.<fn>.run` is written by translator/gens.py from the Rust source on every run, generic in
the element type (division, `ceil` and `as usize` from the model's `NumOps`).  This file proves,
for every element type with the listed operations and every argument: the regenerated `linspace`
returns exactly the fields of the model's `Linspace`, and the regenerated `range` panics exactly
when the model's does (zero step) and otherwise returns exactly the model's fields — in particular
the element count `rangeLen`, whose exactness against the mathematical count is `C19.range_exact_*`.
-/
set_option linter.unusedSimpArgs false
set_option linter.unusedSectionVars false
namespace Tv.C19Gen
open Tv Tv.C19

variable {α : Type} [Add α] [Sub α] [Mul α] [NatCast α] [OfNat α 0] [OfNat α 1]
  [LT α] [DecidableLT α] [DecidableEq α]

theorem linspace_eq (ops : NumOps α) (a b : α) (n : Nat) :
    GenLin.linspace.run ops a b n =
      some ((linspace ops a b n).start, (linspace ops a b n).step, (linspace ops a b n).index, (linspace ops a b n).len) := by
  simp only [GenLin.linspace.run, C19.linspace, decide_eq_true_eq]

theorem range_eq (ops : NumOps α) (a b step : α) :
    GenLin.range.run ops a b step =
      match C19.range ops a b step with
      | .ok s => some (s.start, s.step, s.index, s.len)
      | _ => none := by
  simp only [GenLin.range.run, C19.range, C19.rangeLen]
  by_cases hs : step = 0
  · simp [hs]
  · simp only [hs, decide_not, decide_false, Bool.not_false, Bool.not_true, Bool.false_eq_true, if_false,
      decide_eq_true_eq, Bool.and_eq_true, Bool.or_eq_true, ne_eq, not_false_eq_true, decide_true, gt_iff_lt,
      Bool.not_eq_true', decide_eq_false_iff_not]

/-- on exactly representable rationals (the `f64` reading) the regenerated `range` yields
`countBefore a b step` elements: the number of `k` with `a + k·step` strictly before `b` -/
theorem range_len_rat (a b step : Rat) (hs : step ≠ 0) (hc : Spec.countBefore a b step < usizeMod) :
    GenLin.range.run ratOps a b step = some (a, step, 0, Spec.countBefore a b step) := by
  rw [range_eq]
  simp only [C19.range, hs, if_false, rangeLen_rat a b step hs hc]

/-- integers (truncating division, identity `ceil`): the same count, so no element is dropped when
the span is not a multiple of the step -/
theorem range_len_int (a b step : Int) (hs : step ≠ 0)
    (hc : Spec.countBefore (a : Rat) (b : Rat) (step : Rat) < usizeMod) :
    GenLin.range.run intOps a b step = some (a, step, 0, Spec.countBefore (a : Rat) (b : Rat) (step : Rat)) := by
  rw [range_eq]
  simp only [C19.range, hs, if_false, rangeLen_int a b step hs hc]

theorem functions_present : GenLin.functions = ["linspace", "range"] := rfl

end Tv.C19Gen
