import Tv.Thm.C02
import Tv.Model.Kernel
/-!
# C10 — kernels never index out of bounds and initialise every output slot exactly once

The theorems are about the index arithmetic of the drivers and window kernels; that the
compiled code performs exactly these accesses is observed on every run by the instrumented
containers of the harness (`LogVec`, `LogOut`) and the debug-profile precondition checks.
-/
namespace Tv.C10
open Tv

/-- every unchecked element read of the driver loops is in bounds -/
theorem reads_in_bounds (sh : Shape) (len w : Nat) (hw : 1 ≤ w) : ∀ i ∈ reads sh len w, i < len :=
  C02.reads_in_bounds sh len w hw

/-- every output slot is written exactly once (and nothing else is written) -/
theorem writes_once (sh : Shape) (len w : Nat) (hw : 1 ≤ w) :
    (∀ i, i < len → (writes sh len w).count i = 1) ∧ (∀ i ∈ writes sh len w, i < len) := by
  rw [C02.writes_eq_range sh len w hw]
  constructor
  · intro i hi
    exact (List.nodup_range).count (a := i) |>.trans (by simp [hi])
  · intro i hi; exact List.mem_range.mp hi

/-- every index in `start.getD 0 ..= end` of every callback is in bounds, and `start ≤ end`:
covers the rescans of cmp.rs / norm.rs, the residual loops of reg.rs and the expiry reads -/
theorem kernel_range_in_bounds (sh : Shape) (len w : Nat) (hw : 1 ≤ w) :
    ∀ p ∈ sh.idx len w, p.1.getD 0 ≤ p.2 ∧ ∀ j ∈ kernelRange p.1 p.2, j < len := by
  intro p hp
  rw [C02.idx_spec sh len w hw] at hp
  simp only [List.mem_map, List.mem_range] at hp
  obtain ⟨i, hi, rfl⟩ := hp
  have hs : (startAt (C02.effW sh w len) i).getD 0 ≤ i := by
    unfold startAt; split <;> simp
  refine ⟨hs, ?_⟩
  intro j hj
  unfold kernelRange at hj
  rw [List.mem_range'_1] at hj
  omega

/-- the window slices handed to the slice drivers satisfy `0 ≤ start ≤ end ≤ len` -/
theorem slices_ok (sh : Shape) (len w : Nat) (hw : 1 ≤ w) :
    ∀ p ∈ sh.idx len w, p.1.getD 0 ≤ p.2 + 1 ∧ p.2 + 1 ≤ len := by
  intro p hp
  have h := kernel_range_in_bounds sh len w hw p hp
  rw [C02.idx_spec sh len w hw] at hp
  simp only [List.mem_map, List.mem_range] at hp
  obtain ⟨i, hi, rfl⟩ := hp
  exact ⟨by have := h.1; omega, by simp only; omega⟩

theorem toIdx_zero_len (w : Nat) : toIdx 0 w = [] := by simp [toIdx]

/-- **degenerate parameters are clean**: for any window (including 0), any length (including 0)
and any length of the second series, the driver either panics or returns with every slot of
its output written exactly once, in order. -/
theorem degenerate_clean (sh : Shape) (len len2 w : Nat) (two : Bool) :
    driverOutcome sh len len2 w two = .panic ∨
    ∃ n, driverOutcome sh len len2 w two = .ok (List.range n) ∧ n ≤ len := by
  cases sh
  · simp only [driverOutcome]
    by_cases h0 : w = 0 ∧ len ≠ 0
    · left; simp [h0]
    · by_cases h2 : two = true ∧ len2 < len
      · left; simp [h0, h2]
      · right
        refine ⟨len, ?_, Nat.le_refl _⟩
        simp only [h0, h2, if_false]
        by_cases hw : 1 ≤ w
        · rw [C02.writes_eq_range .to len w hw]
        · have hw0 : w = 0 := by omega
          have hl : len = 0 := Classical.byContradiction (fun hc => h0 ⟨hw0, hc⟩)
          subst hl
          simp [writes, Shape.idx, toIdx_zero_len]
  · simp only [driverOutcome]
    by_cases h0 : w = 0
    · left; simp [h0]
    · right
      refine ⟨if two = true then min len len2 else len, by simp [h0], ?_⟩
      split <;> omega

/-- in the `*_to` form a second series that is long enough is only read inside its bounds -/
theorem second_series_reads (len len2 w : Nat) (hw : 1 ≤ w) (h : len ≤ len2) :
    ∀ i ∈ reads .to len w, i < len2 := by
  intro i hi
  have := reads_in_bounds .to len w hw i hi
  omega

example : driverOutcome .to 3 3 0 false = .panic := by decide
example : driverOutcome .to 0 0 0 false = .ok [] := by decide
example : driverOutcome .to 3 2 2 true = .panic := by decide
example : driverOutcome .to 3 3 2 true = .ok [0, 1, 2] := by decide
example : kernelRange (some 2) 4 = [2, 3, 4] := by decide

end Tv.C10
