import Tv.GenDrv
import Tv.Thm.C02
import Tv.Lemmas.GenSim
import Tv.Generated
/-!
# C02 — the rolling drivers regenerated from view.rs perform the model's callback sequence

`Tv.GenDrv.<fn>.run len window` is written by translator/drivers.py from the Rust source of the
five two-phase drivers (`rolling_apply_to`, `rolling2_apply_to`, `rolling_apply_idx_to`,
`rolling2_apply_idx_to`, `rolling_custom_to`) on every run: the loops in source order, every
`out.uset(p, f(a, …))` appended to a log as the event `(p, a, …)` with unchecked reads represented
by their index, `assert!` failures as `none`.  For each driver this file proves that the log is
**exactly** the model's index sequence `toIdx len window` (`Shape.to`), rendered as that driver's
events — for every length and window — and that the driver rejects `window = 0` on a non-empty
series.  With `C02.idx_spec` this gives the property's statement for the regenerated code
(`*_calls`): one callback per position, in increasing order, written at its own position, with
the element at `i - w + 1` reported as removed once `i ≥ w - 1` (for the clamped window).  The
closures run over these callbacks are the subject of `C01Gen`, `C03Gen`, `C04Gen`.
The default (iterator) bodies `rolling_apply`, `rolling2_apply`, `rolling_apply_idx`,
`rolling2_apply_idx`, `rolling_custom_iter` are translated too (second part of this file) and
proved equal to `iterIdx`.  Not translated: the backend overrides in backends_impl (they call the
`*_to` drivers on a fresh buffer) and `rolling2_custom`.
-/
set_option linter.unusedSimpArgs false
namespace Tv.C02Gen
open Tv

/-- a loop that appends one event per iteration builds `acc ++ l.map g` -/
theorem foldl_append {α β : Type} (f : List α → β → List α) (g : β → α)
    (hf : ∀ log i, f log i = log ++ [g i]) (acc : List α) (l : List β) :
    List.foldl f acc l = acc ++ l.map g := by
  induction l generalizing acc with
  | nil => simp
  | cons x l ih => simp [List.foldl_cons, hf, ih]

theorem rolling_apply_to_eq (len w : Nat) (h : 0 < w ∨ len = 0) :
    GenDrv.rolling_apply_to.run len w = some ((toIdx len w).map fun p => (p.2, p.1, p.2)) := by
  unfold GenDrv.rolling_apply_to.run toIdx
  have hc : (decide (w > 0) || decide (len = 0)) = true := by
    rcases h with h | h <;> simp [h]
  simp only [hc, Bool.not_true, Bool.false_eq_true, if_false, decide_eq_true_eq]
  by_cases h0 : min w len = 0
  · simp [h0]
  · simp only [h0, if_false]
    rw [foldl_append _ (fun i => (i, none, i)) (fun log i => rfl)]
    rw [foldl_append _ (fun s => (min w len - 1 + s, some s, min w len - 1 + s)) (fun log i => rfl)]
    simp [List.range_eq_range', Nat.add_comm]
    rfl

theorem rolling_apply_to_panics (len w : Nat) (h : ¬ (0 < w ∨ len = 0)) :
    GenDrv.rolling_apply_to.run len w = none := by
  have hw : ¬ (w > 0) := fun x => h (Or.inl x)
  have hl : ¬ (len = 0) := fun x => h (Or.inr x)
  simp [GenDrv.rolling_apply_to.run, hw, hl]

theorem rolling2_apply_to_eq (len len2 w : Nat) (h : 0 < w ∨ len = 0) (h2 : len ≤ len2) :
    GenDrv.rolling2_apply_to.run len len2 w
      = some ((toIdx len w).map fun p => (p.2, p.1.map (fun s => (s, s)), (p.2, p.2))) := by
  unfold GenDrv.rolling2_apply_to.run toIdx
  have hc : (decide (w > 0) || decide (len = 0)) = true := by
    rcases h with h | h <;> simp [h]
  have hc2 : decide (len2 ≥ len) = true := by simp [h2]
  simp only [hc, hc2, Bool.not_true, Bool.false_eq_true, if_false, decide_eq_true_eq]
  by_cases h0 : min w len = 0
  · simp [h0]
  · simp only [h0, if_false]
    rw [foldl_append _ (fun i => (i, none, (i, i))) (fun log i => rfl)]
    rw [foldl_append _ (fun s => (min w len - 1 + s, some (s, s), (min w len - 1 + s, min w len - 1 + s)))
      (fun log i => rfl)]
    simp [List.range_eq_range', Nat.add_comm]
    rfl

theorem rolling_apply_idx_to_eq (len w : Nat) (h : 0 < w ∨ len = 0) :
    GenDrv.rolling_apply_idx_to.run len w = some ((toIdx len w).map fun p => (p.2, p.1, p.2, p.2)) := by
  unfold GenDrv.rolling_apply_idx_to.run toIdx
  have hc : (decide (w > 0) || decide (len = 0)) = true := by
    rcases h with h | h <;> simp [h]
  simp only [hc, Bool.not_true, Bool.false_eq_true, if_false, decide_eq_true_eq]
  by_cases h0 : min w len = 0
  · simp [h0]
  · simp only [h0, if_false]
    rw [foldl_append _ (fun i => (i, none, i, i)) (fun log i => rfl)]
    rw [foldl_append _ (fun s => (min w len - 1 + s, some s, min w len - 1 + s, min w len - 1 + s)) (fun log i => rfl)]
    simp [List.range_eq_range', Nat.add_comm]
    rfl

theorem rolling2_apply_idx_to_eq (len len2 w : Nat) (h : 0 < w ∨ len = 0) (h2 : len ≤ len2) :
    GenDrv.rolling2_apply_idx_to.run len len2 w
      = some ((toIdx len w).map fun p => (p.2, p.1, p.2, (p.2, p.2))) := by
  unfold GenDrv.rolling2_apply_idx_to.run toIdx
  have hc : (decide (w > 0) || decide (len = 0)) = true := by
    rcases h with h | h <;> simp [h]
  have hc2 : decide (len2 ≥ len) = true := by simp [h2]
  simp only [hc, hc2, Bool.not_true, Bool.false_eq_true, if_false, decide_eq_true_eq]
  by_cases h0 : min w len = 0
  · simp [h0]
  · simp only [h0, if_false]
    rw [foldl_append _ (fun i => (i, none, i, (i, i))) (fun log i => rfl)]
    rw [foldl_append _ (fun s => (min w len - 1 + s, some s, min w len - 1 + s, (min w len - 1 + s, min w len - 1 + s)))
      (fun log i => rfl)]
    simp [List.range_eq_range', Nat.add_comm]
    rfl

/-- `rolling_custom_to` hands the closure the slice `start.unwrap_or(0) .. end + 1` -/
theorem rolling_custom_to_eq (len w : Nat) (h : 0 < w ∨ len = 0) :
    GenDrv.rolling_custom_to.run len w = some ((toIdx len w).map fun p => (p.2, (p.1.getD 0, p.2 + 1))) := by
  unfold GenDrv.rolling_custom_to.run toIdx
  have hc : (decide (w > 0) || decide (len = 0)) = true := by
    rcases h with h | h <;> simp [h]
  simp only [hc, Bool.not_true, Bool.false_eq_true, if_false, decide_eq_true_eq]
  by_cases h0 : min w len = 0
  · simp [h0]
  · simp only [h0, if_false]
    rw [foldl_append _ (fun i => (i, (0, i + 1))) (fun log i => rfl)]
    rw [foldl_append _ (fun s => (min w len - 1 + s, (s, min w len - 1 + s + 1))) (fun log i => rfl)]
    simp only [List.nil_append, List.map_append, List.map_map, List.range_eq_range', Nat.sub_zero, Option.some.injEq]
    congr 1
    apply List.map_congr_left
    intro s _
    simp [Nat.add_comm]


/-- the regenerated `rolling_apply_to` calls back once per position `i`, in increasing order, writes
result `i` at position `i`, and reports position `i - (W-1)` as removed exactly when `i ≥ W-1`,
`W = min(window, len)` -/
theorem rolling_apply_to_calls (len w : Nat) (hw : 1 ≤ w) :
    GenDrv.rolling_apply_to.run len w
      = some ((List.range len).map fun i => (i, startAt (min w len) i, i)) := by
  rw [rolling_apply_to_eq len w (Or.inl hw), toIdx_eq len w hw]
  simp [List.map_map, Function.comp_def]

/-- every slot is written exactly once, in order, and every unchecked read is in bounds -/
theorem rolling_apply_to_safe (len w : Nat) (hw : 1 ≤ w) :
    ∃ log, GenDrv.rolling_apply_to.run len w = some log ∧ log.map (·.1) = List.range len ∧
      (∀ ev ∈ log, ev.2.2 < len ∧ ∀ s, ev.2.1 = some s → s < len) := by
  refine ⟨_, rolling_apply_to_calls len w hw, by simp [List.map_map, Function.comp_def], ?_⟩
  intro ev hev
  simp only [List.mem_map, List.mem_range] at hev
  obtain ⟨i, hi, rfl⟩ := hev
  refine ⟨hi, ?_⟩
  intro s hs
  simp only [startAt] at hs
  split at hs
  · injection hs with hs; omega
  · cases hs

/-! ## the default (iterator) bodies — the returned path of backends without a `*_to` override

`GenDrv.rolling_apply.run` … `rolling_custom_iter.run` are the `else` branches of the default
methods (the `if let Some(out) = out` branch delegates to the `*_to` driver above, which the
translator checks), with an iterator read as the list of the items it yields and an element of
`self.titer()` represented by its index.  Each is exactly the model's `iterIdx len window`
(`Shape.iter`).  `rolling_custom_iter` has no `assert!`: `window - 1` at `window = 0` underflows in
the real code (outside the generated semantics: truncated subtraction), hence `1 ≤ w`. -/

theorem map_pair_id {α β : Type} (l : List (α × β)) : (l.map fun (p : α × β) => match p with | (a, b) => (a, b)) = l := by
  induction l with
  | nil => rfl
  | cons x l ih => obtain ⟨a, b⟩ := x; simp [ih]

theorem rolling_apply_iter_eq (len w : Nat) (hw : 1 ≤ w) :
    GenDrv.rolling_apply.run len w = some (iterIdx len w) := by
  have : decide (w > 0) = true := by simp; omega
  simp only [GenDrv.rolling_apply.run, this, Bool.not_true, Bool.false_eq_true, if_false, iterIdx]
  congr 1
  exact map_pair_id _

theorem rolling_apply_iter_panics (len : Nat) : GenDrv.rolling_apply.run len 0 = none := by
  simp [GenDrv.rolling_apply.run]

theorem rolling2_apply_iter_eq (len w : Nat) (hw : 1 ≤ w) :
    GenDrv.rolling2_apply.run len len w = some ((iterIdx len w).map fun p => (p.1.map (fun s => (s, s)), (p.2, p.2))) := by
  have : decide (w > 0) = true := by simp; omega
  simp only [GenDrv.rolling2_apply.run, this, Bool.not_true, Bool.false_eq_true, if_false, iterIdx]
  have hz : (List.range len).zip (List.range len) = (List.range len).map fun i => (i, i) := by
    generalize List.range len = l
    induction l with
    | nil => rfl
    | cons x l ih => simp [ih]
  have ha : List.replicate (w - 1) (none : Option (Nat × Nat)) ++ List.map some ((List.range len).map fun i => (i, i))
      = (List.replicate (w - 1) none ++ List.map some (List.range len)).map (Option.map fun s => (s, s)) := by
    simp [List.map_append, List.map_replicate, List.map_map, Function.comp_def]
  rw [hz, ha, List.zip_map]
  simp [List.map_map, Function.comp_def]

theorem rolling_apply_idx_iter_eq (len w : Nat) (hw : 1 ≤ w) :
    GenDrv.rolling_apply_idx.run len w = some ((iterIdx len w).map fun p => (p.1, p.2, p.2)) := by
  have : decide (w > 0) = true := by simp; omega
  simp only [GenDrv.rolling_apply_idx.run, this, Bool.not_true, Bool.false_eq_true, if_false, iterIdx,
    Nat.sub_zero, ← List.range_eq_range']
  congr 1
  apply List.ext_getElem
  · simp
  · intro i h1 h2
    simp only [List.length_map, List.length_zipIdx, List.length_zip, List.length_range, List.length_append,
      List.length_replicate] at h1
    simp [List.getElem_zipIdx]

theorem rolling2_apply_idx_iter_eq (len w : Nat) (hw : 1 ≤ w) :
    GenDrv.rolling2_apply_idx.run len len w = some ((iterIdx len w).map fun p => (p.1, p.2, (p.2, p.2))) := by
  have : decide (w > 0) = true := by simp; omega
  simp only [GenDrv.rolling2_apply_idx.run, this, Bool.not_true, Bool.false_eq_true, if_false, iterIdx,
    Nat.sub_zero, ← List.range_eq_range']
  congr 1
  apply List.ext_getElem
  · simp
  · intro i h1 h2
    simp only [List.length_map, List.length_zipIdx, List.length_zip, List.length_range, List.length_append,
      List.length_replicate] at h1
    simp [List.getElem_zipIdx]

/-- `rolling_custom_iter` hands the closure the slice `start.unwrap_or(0) .. end + 1` -/
theorem rolling_custom_iter_eq (len w : Nat) (hw : 1 ≤ w) :
    GenDrv.rolling_custom_iter.run len w = some ((iterIdx len w).map fun p => (p.1.getD 0, p.2 + 1)) := by
  simp only [GenDrv.rolling_custom_iter.run, iterIdx, Nat.sub_zero, Nat.add_sub_cancel, ← List.range_eq_range']
  congr 1
  apply List.ext_getElem
  · simp
  · intro i h1 h2
    simp only [List.length_map, List.length_zip, List.length_range, List.length_append, List.length_range',
      List.length_replicate] at h1
    simp [List.getElem_append, List.getElem_range']
    split <;> simp <;> omega
/-! ## replaying a regenerated driver log on a series -/

/-- the callback arguments a closure receives when the regenerated `rolling_apply_to` log is
replayed on a series: element at the reported removed index (if any) and element at the added index -/
def callsOfLogTo {α : Type} (xs : List α) (log : List (Nat × Option Nat × Nat)) : List (Option α × α) :=
  log.filterMap fun ev => (xs[ev.2.2]?).map fun v => (ev.2.1.bind (xs[·]?), v)

def callsOfLogIter {α : Type} (xs : List α) (log : List (Option Nat × Nat)) : List (Option α × α) :=
  log.filterMap fun ev => (xs[ev.2]?).map fun v => (ev.1.bind (xs[·]?), v)

/-- the model's callback sequence of the `*_to` shape is the replay of the regenerated driver's log -/
theorem applyCalls_to_of_log {α : Type} (xs : List α) (w : Nat) (hw : 1 ≤ w) :
    ∃ log, GenDrv.rolling_apply_to.run xs.length w = some log ∧ applyCalls .to xs w = callsOfLogTo xs log := by
  refine ⟨_, rolling_apply_to_eq xs.length w (Or.inl hw), ?_⟩
  unfold applyCalls callsOfLogTo Shape.idx
  rw [List.filterMap_map]
  apply List.filterMap_congr
  rintro ⟨s, e⟩ _
  simp only [Function.comp]
  cases h : xs[e]? <;> simp [h]

theorem applyCalls_iter_of_log {α : Type} (xs : List α) (w : Nat) (hw : 1 ≤ w) :
    ∃ log, GenDrv.rolling_apply.run xs.length w = some log ∧ applyCalls .iter xs w = callsOfLogIter xs log := by
  refine ⟨_, rolling_apply_iter_eq xs.length w hw, ?_⟩
  unfold applyCalls callsOfLogIter Shape.idx
  apply List.filterMap_congr
  rintro ⟨s, e⟩ _
  simp only []
  cases h : xs[e]? <;> simp [h]

def calls2OfLogTo {α β : Type} (xs : List α) (ys : List β) (log : List (Nat × Option (Nat × Nat) × (Nat × Nat))) :
    List (Option (α × β) × (α × β)) :=
  log.filterMap fun ev =>
    match xs[ev.2.2.1]?, ys[ev.2.2.2]? with
    | some a, some b => some (ev.2.1.bind (fun p => match xs[p.1]?, ys[p.2]? with
                                        | some x, some y => some (x, y) | _, _ => none), (a, b))
    | _, _ => none

def calls2OfLogIter {α β : Type} (xs : List α) (ys : List β) (log : List (Option (Nat × Nat) × (Nat × Nat))) :
    List (Option (α × β) × (α × β)) :=
  log.filterMap fun ev =>
    match xs[ev.2.1]?, ys[ev.2.2]? with
    | some a, some b => some (ev.1.bind (fun p => match xs[p.1]?, ys[p.2]? with
                                        | some x, some y => some (x, y) | _, _ => none), (a, b))
    | _, _ => none

theorem apply2Calls_to_of_log {α β : Type} (xs : List α) (ys : List β) (w : Nat) (hw : 1 ≤ w)
    (hlen : xs.length ≤ ys.length) :
    ∃ log, GenDrv.rolling2_apply_to.run xs.length ys.length w = some log ∧
      apply2Calls .to xs ys w = calls2OfLogTo xs ys log := by
  refine ⟨_, rolling2_apply_to_eq xs.length ys.length w (Or.inl hw) hlen, ?_⟩
  unfold apply2Calls calls2OfLogTo Shape.idx
  rw [List.filterMap_map]
  apply List.filterMap_congr
  rintro ⟨s, e⟩ _
  simp only [Function.comp]
  cases h1 : xs[e]? <;> cases h2 : ys[e]? <;> simp [h1, h2]
  cases s with
  | none => simp
  | some k => simp; cases xs[k]? <;> cases ys[k]? <;> rfl

theorem apply2Calls_iter_of_log {α β : Type} (xs : List α) (ys : List β) (w : Nat) (hw : 1 ≤ w) :
    ∃ log, GenDrv.rolling2_apply.run xs.length xs.length w = some log ∧
      apply2Calls .iter xs ys w = calls2OfLogIter xs ys log := by
  refine ⟨_, rolling2_apply_iter_eq xs.length w hw, ?_⟩
  unfold apply2Calls calls2OfLogIter Shape.idx
  rw [List.filterMap_map]
  apply List.filterMap_congr
  rintro ⟨s, e⟩ _
  simp only [Function.comp]
  cases h1 : xs[e]? <;> cases h2 : ys[e]? <;> simp [h1, h2]
  cases s with
  | none => simp
  | some k => simp; cases xs[k]? <;> cases ys[k]? <;> rfl

def idxCallsOfLogTo {α : Type} (xs : List α) (log : List (Nat × Option Nat × Nat × Nat)) :
    List (Option Nat × Nat × α) :=
  log.filterMap fun ev => (xs[ev.2.2.2]?).map fun v => (ev.2.1, ev.2.2.1, v)

def idxCallsOfLogIter {α : Type} (xs : List α) (log : List (Option Nat × Nat × Nat)) :
    List (Option Nat × Nat × α) :=
  log.filterMap fun ev => (xs[ev.2.2]?).map fun v => (ev.1, ev.2.1, v)

theorem idxCalls_to_of_log {α : Type} (xs : List α) (w : Nat) (hw : 1 ≤ w) :
    ∃ log, GenDrv.rolling_apply_idx_to.run xs.length w = some log ∧ idxCalls .to xs w = idxCallsOfLogTo xs log := by
  refine ⟨_, rolling_apply_idx_to_eq xs.length w (Or.inl hw), ?_⟩
  unfold idxCalls idxCallsOfLogTo Shape.idx
  rw [List.filterMap_map]
  apply List.filterMap_congr
  rintro ⟨s, e⟩ _
  rfl

theorem idxCalls_iter_of_log {α : Type} (xs : List α) (w : Nat) (hw : 1 ≤ w) :
    ∃ log, GenDrv.rolling_apply_idx.run xs.length w = some log ∧ idxCalls .iter xs w = idxCallsOfLogIter xs log := by
  refine ⟨_, rolling_apply_idx_iter_eq xs.length w hw, ?_⟩
  unfold idxCalls idxCallsOfLogIter Shape.idx
  rw [List.filterMap_map]
  apply List.filterMap_congr
  rintro ⟨s, e⟩ _
  rfl

/-! ### end-to-end statements: a property of the callback sequence holds for the replay of the
regenerated driver's log, for both driver shapes -/

def E2E {α : Type} (P : List (Option α × α) → Prop) (xs : List α) (w : Nat) : Prop :=
  (∃ log, GenDrv.rolling_apply_to.run xs.length w = some log ∧ P (callsOfLogTo xs log)) ∧
  (∃ log, GenDrv.rolling_apply.run xs.length w = some log ∧ P (callsOfLogIter xs log))

theorem e2e_apply {α : Type} (P : List (Option α × α) → Prop) (xs : List α) (w : Nat) (hw : 1 ≤ w)
    (hto : P (applyCalls .to xs w)) (hit : P (applyCalls .iter xs w)) : E2E P xs w := by
  obtain ⟨l1, a1, b1⟩ := applyCalls_to_of_log xs w hw
  obtain ⟨l2, a2, b2⟩ := applyCalls_iter_of_log xs w hw
  exact ⟨⟨l1, a1, b1 ▸ hto⟩, ⟨l2, a2, b2 ▸ hit⟩⟩

def E2E2 {α β : Type} (P : List (Option (α × β) × (α × β)) → Prop) (xs : List α) (ys : List β) (w : Nat) : Prop :=
  (∃ log, GenDrv.rolling2_apply_to.run xs.length ys.length w = some log ∧ P (calls2OfLogTo xs ys log)) ∧
  (∃ log, GenDrv.rolling2_apply.run xs.length xs.length w = some log ∧ P (calls2OfLogIter xs ys log))

theorem e2e_apply2 {α β : Type} (P : List (Option (α × β) × (α × β)) → Prop) (xs : List α) (ys : List β)
    (w : Nat) (hw : 1 ≤ w) (hlen : xs.length ≤ ys.length)
    (hto : P (apply2Calls .to xs ys w)) (hit : P (apply2Calls .iter xs ys w)) : E2E2 P xs ys w := by
  obtain ⟨l1, a1, b1⟩ := apply2Calls_to_of_log xs ys w hw hlen
  obtain ⟨l2, a2, b2⟩ := apply2Calls_iter_of_log xs ys w hw
  exact ⟨⟨l1, a1, b1 ▸ hto⟩, ⟨l2, a2, b2 ▸ hit⟩⟩

def E2EIdx {α : Type} (P : List (Option Nat × Nat × α) → Prop) (xs : List α) (w : Nat) : Prop :=
  (∃ log, GenDrv.rolling_apply_idx_to.run xs.length w = some log ∧ P (idxCallsOfLogTo xs log)) ∧
  (∃ log, GenDrv.rolling_apply_idx.run xs.length w = some log ∧ P (idxCallsOfLogIter xs log))

theorem e2e_idx {α : Type} (P : List (Option Nat × Nat × α) → Prop) (xs : List α) (w : Nat) (hw : 1 ≤ w)
    (hto : P (idxCalls .to xs w)) (hit : P (idxCalls .iter xs w)) : E2EIdx P xs w := by
  obtain ⟨l1, a1, b1⟩ := idxCalls_to_of_log xs w hw
  obtain ⟨l2, a2, b2⟩ := idxCalls_iter_of_log xs w hw
  exact ⟨⟨l1, a1, b1 ▸ hto⟩, ⟨l2, a2, b2 ▸ hit⟩⟩

/-! ### the two-series index drivers (`rolling2_apply_idx_to` / `rolling2_apply_idx`) -/

def idx2CallsOfLogTo {α β : Type} (xs : List α) (ys : List β) (log : List (Nat × Option Nat × Nat × (Nat × Nat))) :
    List (Option Nat × Nat × (α × β)) :=
  log.filterMap fun ev =>
    match xs[ev.2.2.2.1]?, ys[ev.2.2.2.2]? with
    | some a, some b => some (ev.2.1, ev.2.2.1, (a, b))
    | _, _ => none

def idx2CallsOfLogIter {α β : Type} (xs : List α) (ys : List β) (log : List (Option Nat × Nat × (Nat × Nat))) :
    List (Option Nat × Nat × (α × β)) :=
  log.filterMap fun ev =>
    match xs[ev.2.2.1]?, ys[ev.2.2.2]? with
    | some a, some b => some (ev.1, ev.2.1, (a, b))
    | _, _ => none

theorem idx2Calls_to_of_log {α β : Type} (xs : List α) (ys : List β) (w : Nat) (hw : 1 ≤ w)
    (hlen : xs.length ≤ ys.length) :
    ∃ log, GenDrv.rolling2_apply_idx_to.run xs.length ys.length w = some log ∧
      idx2Calls .to xs ys w = idx2CallsOfLogTo xs ys log := by
  refine ⟨_, rolling2_apply_idx_to_eq xs.length ys.length w (Or.inl hw) hlen, ?_⟩
  unfold idx2Calls idx2CallsOfLogTo Shape.idx
  rw [List.filterMap_map]
  apply List.filterMap_congr
  rintro ⟨s, e⟩ _
  simp only [Function.comp]
  cases h1 : xs[e]? <;> cases h2 : ys[e]? <;> simp [h1, h2]

theorem idx2Calls_iter_of_log {α β : Type} (xs : List α) (ys : List β) (w : Nat) (hw : 1 ≤ w) :
    ∃ log, GenDrv.rolling2_apply_idx.run xs.length xs.length w = some log ∧
      idx2Calls .iter xs ys w = idx2CallsOfLogIter xs ys log := by
  refine ⟨_, rolling2_apply_idx_iter_eq xs.length w hw, ?_⟩
  unfold idx2Calls idx2CallsOfLogIter Shape.idx
  rw [List.filterMap_map]
  apply List.filterMap_congr
  rintro ⟨s, e⟩ _
  simp only [Function.comp]
  cases h1 : xs[e]? <;> cases h2 : ys[e]? <;> simp [h1, h2]

def E2EIdx2 {α β : Type} (P : List (Option Nat × Nat × (α × β)) → Prop) (xs : List α) (ys : List β) (w : Nat) : Prop :=
  (∃ log, GenDrv.rolling2_apply_idx_to.run xs.length ys.length w = some log ∧ P (idx2CallsOfLogTo xs ys log)) ∧
  (∃ log, GenDrv.rolling2_apply_idx.run xs.length xs.length w = some log ∧ P (idx2CallsOfLogIter xs ys log))

theorem e2e_idx2 {α β : Type} (P : List (Option Nat × Nat × (α × β)) → Prop) (xs : List α) (ys : List β)
    (w : Nat) (hw : 1 ≤ w) (hlen : xs.length ≤ ys.length)
    (hto : P (idx2Calls .to xs ys w)) (hit : P (idx2Calls .iter xs ys w)) : E2EIdx2 P xs ys w := by
  obtain ⟨l1, a1, b1⟩ := idx2Calls_to_of_log xs ys w hw hlen
  obtain ⟨l2, a2, b2⟩ := idx2Calls_iter_of_log xs ys w hw
  exact ⟨⟨l1, a1, b1 ▸ hto⟩, ⟨l2, a2, b2 ▸ hit⟩⟩

/-! ### the slice drivers (`rolling_custom_to` / `rolling_custom_iter`) -/

/-- the slices a closure receives when the regenerated `rolling_custom_to` log is replayed on a series -/
def customCallsOfLogTo {α : Type} (xs : List α) (log : List (Nat × (Nat × Nat))) : List (List α) :=
  log.map fun ev => xs.extract ev.2.1 ev.2.2

def customCallsOfLogIter {α : Type} (xs : List α) (log : List (Nat × Nat)) : List (List α) :=
  log.map fun ev => xs.extract ev.1 ev.2

theorem customCalls_to_of_log {α : Type} (xs : List α) (w : Nat) (hw : 1 ≤ w) :
    ∃ log, GenDrv.rolling_custom_to.run xs.length w = some log ∧ customCalls .to xs w = customCallsOfLogTo xs log := by
  refine ⟨_, rolling_custom_to_eq xs.length w (Or.inl hw), ?_⟩
  unfold customCalls customCallsOfLogTo Shape.idx
  rw [List.map_map]
  apply List.map_congr_left
  rintro ⟨s, e⟩ _
  rfl

theorem customCalls_iter_of_log {α : Type} (xs : List α) (w : Nat) (hw : 1 ≤ w) :
    ∃ log, GenDrv.rolling_custom_iter.run xs.length w = some log ∧ customCalls .iter xs w = customCallsOfLogIter xs log := by
  refine ⟨_, rolling_custom_iter_eq xs.length w hw, ?_⟩
  unfold customCalls customCallsOfLogIter Shape.idx
  rw [List.map_map]
  apply List.map_congr_left
  rintro ⟨s, e⟩ _
  rfl

def E2ECustom {α : Type} (P : List (List α) → Prop) (xs : List α) (w : Nat) : Prop :=
  (∃ log, GenDrv.rolling_custom_to.run xs.length w = some log ∧ P (customCallsOfLogTo xs log)) ∧
  (∃ log, GenDrv.rolling_custom_iter.run xs.length w = some log ∧ P (customCallsOfLogIter xs log))

theorem e2e_custom {α : Type} (P : List (List α) → Prop) (xs : List α) (w : Nat) (hw : 1 ≤ w)
    (hto : P (customCalls .to xs w)) (hit : P (customCalls .iter xs w)) : E2ECustom P xs w := by
  obtain ⟨l1, a1, b1⟩ := customCalls_to_of_log xs w hw
  obtain ⟨l2, a2, b2⟩ := customCalls_iter_of_log xs w hw
  exact ⟨⟨l1, a1, b1 ▸ hto⟩, ⟨l2, a2, b2 ▸ hit⟩⟩

/-! ## the backend overrides run the `*_to` drivers on a buffer of `self.len()` slots -/

/-- every override of a rolling method in backends_impl/vec.rs and ndarray.rs binds `len` to
`self.len()`, passes the caller's buffer, or a fresh buffer of `len` slots, to the `*_to` driver of
the same name; arc.rs forwards to the pointee's method of the same name (table re-extracted from
the sources on every run) -/
theorem backendOverrides_match :
    Generated.backendOverrides =
      (["vec.rs", "ndarray.rs"].flatMap fun f =>
        ["rolling_custom", "rolling_apply", "rolling2_apply", "rolling_apply_idx", "rolling2_apply_idx"].map fun m =>
          (f, m, "self.len()", m ++ "_to", m ++ "_to", "len")) ++
      (["rolling_custom", "rolling_apply", "rolling2_apply", "rolling_apply_idx", "rolling2_apply_idx"].map fun m =>
          ("arc.rs", m, "forward", m, "", "")) := by decide

theorem iterFunctions_present :
    GenDrv.iterFunctions = ["rolling_apply", "rolling2_apply", "rolling_apply_idx", "rolling2_apply_idx",
      "rolling_custom_iter"] := rfl

theorem functions_present :
    GenDrv.functions = ["rolling_apply_to", "rolling2_apply_to", "rolling_apply_idx_to", "rolling2_apply_idx_to",
      "rolling_custom_to"] := rfl

end Tv.C02Gen
