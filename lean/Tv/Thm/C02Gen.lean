import Tv.GenDrv
import Tv.Thm.C02
/-!
# C02 — the rolling drivers regenerated from view.rs perform the model's callback sequence

`Tv.GenDrv.<fn>.run len window` is written by translator/drivers.py from the Rust source of the
five two-phase drivers (`rolling_apply_to`, `rolling2_apply_to`, `rolling_apply_idx_to`,
`rolling2_apply_idx_to`, `rolling_custom_to`) on every run: the loops in source order, every
`out.uset(p, f(a, …))` appended to a log as the event `(p, a, …)` with unchecked reads represented
by their index, `assert!` failures as `none`.  For each driver this file proves that the log is
**exactly** the model's index sequence `toIdx len window` (`Shape.to`), rendered as that driver's
events — for every length and window — and that the driver rejects `window = 0` on a non-empty
series.  With `C02.idx_spec` this gives the property's statement for the regenerated code
(`*_calls`): one callback per position, in increasing order, written at its own position, with
the element at `i - w + 1` reported as removed once `i ≥ w - 1` (for the clamped window).  The
closures run over these callbacks are the subject of `C01Gen`, `C03Gen`, `C04Gen`.
Not translated: the default (iterator) bodies `rolling_apply`, `rolling2_apply`, …,
`rolling_custom_iter` (model `iterIdx`), tied by the correspondence run.
-/
set_option linter.unusedSimpArgs false
namespace Tv.C02Gen
open Tv

/-- a loop that appends one event per iteration builds `acc ++ l.map g` -/
theorem foldl_append {α β : Type} (f : List α → β → List α) (g : β → α)
    (hf : ∀ log i, f log i = log ++ [g i]) (acc : List α) (l : List β) :
    List.foldl f acc l = acc ++ l.map g := by
  induction l generalizing acc with
  | nil => simp
  | cons x l ih => simp [List.foldl_cons, hf, ih]

theorem rolling_apply_to_eq (len w : Nat) (h : 0 < w ∨ len = 0) :
    GenDrv.rolling_apply_to.run len w = some ((toIdx len w).map fun p => (p.2, p.1, p.2)) := by
  unfold GenDrv.rolling_apply_to.run toIdx
  have hc : (decide (w > 0) || decide (len = 0)) = true := by
    rcases h with h | h <;> simp [h]
  simp only [hc, Bool.not_true, Bool.false_eq_true, if_false, decide_eq_true_eq]
  by_cases h0 : min w len = 0
  · simp [h0]
  · simp only [h0, if_false]
    rw [foldl_append _ (fun i => (i, none, i)) (fun log i => rfl)]
    rw [foldl_append _ (fun s => (min w len - 1 + s, some s, min w len - 1 + s)) (fun log i => rfl)]
    simp [List.range_eq_range', Nat.add_comm]
    rfl

theorem rolling_apply_to_panics (len w : Nat) (h : ¬ (0 < w ∨ len = 0)) :
    GenDrv.rolling_apply_to.run len w = none := by
  have hw : ¬ (w > 0) := fun x => h (Or.inl x)
  have hl : ¬ (len = 0) := fun x => h (Or.inr x)
  simp [GenDrv.rolling_apply_to.run, hw, hl]

theorem rolling2_apply_to_eq (len len2 w : Nat) (h : 0 < w ∨ len = 0) (h2 : len ≤ len2) :
    GenDrv.rolling2_apply_to.run len len2 w
      = some ((toIdx len w).map fun p => (p.2, p.1.map (fun s => (s, s)), (p.2, p.2))) := by
  unfold GenDrv.rolling2_apply_to.run toIdx
  have hc : (decide (w > 0) || decide (len = 0)) = true := by
    rcases h with h | h <;> simp [h]
  have hc2 : decide (len2 ≥ len) = true := by simp [h2]
  simp only [hc, hc2, Bool.not_true, Bool.false_eq_true, if_false, decide_eq_true_eq]
  by_cases h0 : min w len = 0
  · simp [h0]
  · simp only [h0, if_false]
    rw [foldl_append _ (fun i => (i, none, (i, i))) (fun log i => rfl)]
    rw [foldl_append _ (fun s => (min w len - 1 + s, some (s, s), (min w len - 1 + s, min w len - 1 + s)))
      (fun log i => rfl)]
    simp [List.range_eq_range', Nat.add_comm]
    rfl

theorem rolling_apply_idx_to_eq (len w : Nat) (h : 0 < w ∨ len = 0) :
    GenDrv.rolling_apply_idx_to.run len w = some ((toIdx len w).map fun p => (p.2, p.1, p.2, p.2)) := by
  unfold GenDrv.rolling_apply_idx_to.run toIdx
  have hc : (decide (w > 0) || decide (len = 0)) = true := by
    rcases h with h | h <;> simp [h]
  simp only [hc, Bool.not_true, Bool.false_eq_true, if_false, decide_eq_true_eq]
  by_cases h0 : min w len = 0
  · simp [h0]
  · simp only [h0, if_false]
    rw [foldl_append _ (fun i => (i, none, i, i)) (fun log i => rfl)]
    rw [foldl_append _ (fun s => (min w len - 1 + s, some s, min w len - 1 + s, min w len - 1 + s)) (fun log i => rfl)]
    simp [List.range_eq_range', Nat.add_comm]
    rfl

theorem rolling2_apply_idx_to_eq (len len2 w : Nat) (h : 0 < w ∨ len = 0) (h2 : len ≤ len2) :
    GenDrv.rolling2_apply_idx_to.run len len2 w
      = some ((toIdx len w).map fun p => (p.2, p.1, p.2, (p.2, p.2))) := by
  unfold GenDrv.rolling2_apply_idx_to.run toIdx
  have hc : (decide (w > 0) || decide (len = 0)) = true := by
    rcases h with h | h <;> simp [h]
  have hc2 : decide (len2 ≥ len) = true := by simp [h2]
  simp only [hc, hc2, Bool.not_true, Bool.false_eq_true, if_false, decide_eq_true_eq]
  by_cases h0 : min w len = 0
  · simp [h0]
  · simp only [h0, if_false]
    rw [foldl_append _ (fun i => (i, none, i, (i, i))) (fun log i => rfl)]
    rw [foldl_append _ (fun s => (min w len - 1 + s, some s, min w len - 1 + s, (min w len - 1 + s, min w len - 1 + s)))
      (fun log i => rfl)]
    simp [List.range_eq_range', Nat.add_comm]
    rfl

/-- `rolling_custom_to` hands the closure the slice `start.unwrap_or(0) .. end + 1` -/
theorem rolling_custom_to_eq (len w : Nat) (h : 0 < w ∨ len = 0) :
    GenDrv.rolling_custom_to.run len w = some ((toIdx len w).map fun p => (p.2, (p.1.getD 0, p.2 + 1))) := by
  unfold GenDrv.rolling_custom_to.run toIdx
  have hc : (decide (w > 0) || decide (len = 0)) = true := by
    rcases h with h | h <;> simp [h]
  simp only [hc, Bool.not_true, Bool.false_eq_true, if_false, decide_eq_true_eq]
  by_cases h0 : min w len = 0
  · simp [h0]
  · simp only [h0, if_false]
    rw [foldl_append _ (fun i => (i, (0, i + 1))) (fun log i => rfl)]
    rw [foldl_append _ (fun s => (min w len - 1 + s, (s, min w len - 1 + s + 1))) (fun log i => rfl)]
    simp only [List.nil_append, List.map_append, List.map_map, List.range_eq_range', Nat.sub_zero, Option.some.injEq]
    congr 1
    apply List.map_congr_left
    intro s _
    simp [Nat.add_comm]


/-- the regenerated `rolling_apply_to` calls back once per position `i`, in increasing order, writes
result `i` at position `i`, and reports position `i - (W-1)` as removed exactly when `i ≥ W-1`,
`W = min(window, len)` -/
theorem rolling_apply_to_calls (len w : Nat) (hw : 1 ≤ w) :
    GenDrv.rolling_apply_to.run len w
      = some ((List.range len).map fun i => (i, startAt (min w len) i, i)) := by
  rw [rolling_apply_to_eq len w (Or.inl hw), toIdx_eq len w hw]
  simp [List.map_map, Function.comp_def]

/-- every slot is written exactly once, in order, and every unchecked read is in bounds -/
theorem rolling_apply_to_safe (len w : Nat) (hw : 1 ≤ w) :
    ∃ log, GenDrv.rolling_apply_to.run len w = some log ∧ log.map (·.1) = List.range len ∧
      (∀ ev ∈ log, ev.2.2 < len ∧ ∀ s, ev.2.1 = some s → s < len) := by
  refine ⟨_, rolling_apply_to_calls len w hw, by simp [List.map_map, Function.comp_def], ?_⟩
  intro ev hev
  simp only [List.mem_map, List.mem_range] at hev
  obtain ⟨i, hi, rfl⟩ := hev
  refine ⟨hi, ?_⟩
  intro s hs
  simp only [startAt] at hs
  split at hs
  · injection hs with hs; omega
  · cases hs

theorem functions_present :
    GenDrv.functions = ["rolling_apply_to", "rolling2_apply_to", "rolling_apply_idx_to", "rolling2_apply_idx_to",
      "rolling_custom_to"] := rfl

end Tv.C02Gen
