import Tv.Thm.C11GenA
import Tv.Lemmas.GenSim
import Tv.Thm.C11
import Mathlib.Tactic.Ring
import Mathlib.Tactic.SplitIfs
import Mathlib.Tactic.NormNum
set_option linter.unusedSimpArgs false
set_option linter.unusedTactic false
set_option linter.unreachableTactic false
/-!
# C11 — the aggregations regenerated from tea-core/src/agg.rs are the model's aggregations

`Tv.GenAgg.<fn>.run` is written by translator/aggs.py from the Rust source of the trait
`AggValidBasic` on every run (function body in source order; the iteration calls `vapply_n`,
`vfold_n`, `vfold`, `for_each`, `zip().for_each` are the combinators of `GenPrelude.lean`, a
hand-written reading of iter_traits.rs, applied to the translated closure).  For the eleven
functions `vsum`, `vmean`, `vmean_var`, `vvar`, `vstd`, `vskew`, `vmax`, `vmin`, `count_none`,
`vcov`, `vcorr_pearson` this file proves that the regenerated function agrees with the
hand-written model (`*_agree` / `*_eq`, fold-fusion lemmas `vapplyN_pow2/3`, `fold_pairs4/6`) and,
through the C11 theorems, with the textbook definition over the non-null elements (`*_spec`).
`vskew` (zero test on a `sqrt` expression) and `vcorr_pearson` (closed form rewritten under the
root sign in the model) are proved up to the mask / branch structure; their values are compared
by the correspondence run.  Also regenerated and proved equal to the model: `count_valid`, `vfirst`, `vlast`, `vcount_value`,
`vargmax`, `vargmin` (agg.rs) and `vkurt` (tea-agg/src/lib.rs, value for value).  Not translated:
`vany`/`vall` (boolean elements), the plain `AggBasic` trait, the masked aggregations and
`vpercentile_of` of tea-agg.  The moment aggregations are in `C11GenA.lean`.
-/
namespace Tv.C11Gen
open Tv Tv.GenSim Tv.C11

theorem vmax_eq (sqrt : Rat → Rat) (xs : List (Option Rat)) : GenAgg.vmax.run sqrt xs = C11.vmax xs := by
  unfold GenAgg.vmax.run C11.vmax
  simp only [vfold_eq]
  congr 1

theorem vmin_eq (sqrt : Rat → Rat) (xs : List (Option Rat)) : GenAgg.vmin.run sqrt xs = C11.vmin xs := by
  unfold GenAgg.vmin.run C11.vmin
  simp only [vfold_eq]
  congr 1

theorem count_none_eq (sqrt : Rat → Rat) (xs : List (Option Rat)) : GenAgg.count_none.run sqrt xs = C11.countNone xs := by
  unfold GenAgg.count_none.run C11.countNone
  rfl

/-- a `zip … for_each` closure accumulating `n, Σa, Σb, Σab` over the pairwise-complete pairs -/
theorem fold_pairs4 (L : Nat × Rat × Rat × Rat → Option Rat × Option Rat → Nat × Rat × Rat × Rat)
    (hL : ∀ n a b c va vb, L (n, a, b, c) (va, vb) =
      match va, vb with
      | some x, some y => (n + 1, a + x, b + y, c + x * y)
      | _, _ => (n, a, b, c))
    (l : List (Option Rat × Option Rat)) :
    List.foldl L (0, 0, 0, 0) l =
      ((l.foldl Pair.step Pair.zero).n, (l.foldl Pair.step Pair.zero).sa, (l.foldl Pair.step Pair.zero).sb,
        (l.foldl Pair.step Pair.zero).sab) := by
  have e0 : ((0 : Nat), (0 : Rat), (0 : Rat), (0 : Rat)) = (Pair.zero.n, Pair.zero.sa, Pair.zero.sb, Pair.zero.sab) := rfl
  rw [e0]
  generalize Pair.zero = s
  induction l generalizing s with
  | nil => rfl
  | cons p l ih =>
    obtain ⟨va, vb⟩ := p
    rw [List.foldl_cons, List.foldl_cons, hL]
    cases va with
    | none => exact ih s
    | some x =>
      cases vb with
      | none => exact ih s
      | some y => exact ih ⟨s.n + 1, s.sa + x, s.sb + y, s.sab + x * y, s.saa + x * x, s.sbb + y * y⟩

theorem fold_pairs6 (L : Nat × Rat × Rat × Rat × Rat × Rat → Option Rat × Option Rat → Nat × Rat × Rat × Rat × Rat × Rat)
    (hL : ∀ n a aa b bb c va vb, L (n, a, aa, b, bb, c) (va, vb) =
      match va, vb with
      | some x, some y => (n + 1, a + x, aa + x * x, b + y, bb + y * y, c + x * y)
      | _, _ => (n, a, aa, b, bb, c))
    (l : List (Option Rat × Option Rat)) :
    List.foldl L (0, 0, 0, 0, 0, 0) l =
      ((l.foldl Pair.step Pair.zero).n, (l.foldl Pair.step Pair.zero).sa, (l.foldl Pair.step Pair.zero).saa,
        (l.foldl Pair.step Pair.zero).sb, (l.foldl Pair.step Pair.zero).sbb, (l.foldl Pair.step Pair.zero).sab) := by
  have e0 : ((0 : Nat), (0 : Rat), (0 : Rat), (0 : Rat), (0 : Rat), (0 : Rat)) =
      (Pair.zero.n, Pair.zero.sa, Pair.zero.saa, Pair.zero.sb, Pair.zero.sbb, Pair.zero.sab) := rfl
  rw [e0]
  generalize Pair.zero = s
  induction l generalizing s with
  | nil => rfl
  | cons p l ih =>
    obtain ⟨va, vb⟩ := p
    rw [List.foldl_cons, List.foldl_cons, hL]
    cases va with
    | none => exact ih s
    | some x =>
      cases vb with
      | none => exact ih s
      | some y => exact ih ⟨s.n + 1, s.sa + x, s.sb + y, s.sab + x * y, s.saa + x * x, s.sbb + y * y⟩

theorem vcov_agree (sqrt : Rat → Rat) (xs ys : List (Option Rat)) (mp : Nat) :
    Agree sqrt (GenAgg.vcov.run sqrt xs ys mp) (C11.vcov mp xs ys) := by
  unfold GenAgg.vcov.run
  simp only []
  rw [fold_pairs4 _ (fun n a b c va vb => by cases va <;> cases vb <;> rfl)]
  simp only [C11.vcov, C11.pairs, decide_eq_true_eq]
  have hm : Gen.maxWithNat mp 2 = C11.maxWithNat mp 2 := rfl
  rw [hm]
  by_cases h : (List.foldl Pair.step Pair.zero (xs.zip ys)).n ≥ C11.maxWithNat mp 2
  · simp only [h, ↓reduceIte]; rfl
  · simp only [h, ↓reduceIte]; rfl

theorem vcorr_agree (sqrt : Rat → Rat) (xs ys : List (Option Rat)) (mp : Nat) :
    AgreeW (GenAgg.vcorr_pearson.run sqrt xs ys mp) (C11.vcorr mp xs ys) := by
  unfold GenAgg.vcorr_pearson.run
  simp only []
  rw [fold_pairs6 _ (fun n a aa b bb c va vb => by cases va <;> cases vb <;> rfl)]
  simp only [C11.vcorr, C11.pairs, decide_eq_true_eq, eps_eq, sq, Bool.and_eq_true]
  have hm : Gen.maxWithNat mp 2 = C11.maxWithNat mp 2 := rfl
  rw [hm]
  by_cases h : (List.foldl Pair.step Pair.zero (xs.zip ys)).n ≥ C11.maxWithNat mp 2
  · simp only [h, ↓reduceIte]
    split_ifs <;> first | rfl | trivial | contradiction | (simp only [*, ↓reduceIte, and_self, not_true_eq_false, not_false_eq_true] <;> first | rfl | trivial)
  · simp only [h, ↓reduceIte]; rfl

/-! ## the regenerated aggregations against the textbook definitions (`Spec`, via the C11 theorems) -/

theorem vsum_spec (sqrt : Rat → Rat) (xs : List (Option Rat)) :
    Agree sqrt (GenAgg.vsum.run sqrt xs) (Spec.vsum xs) := by
  rw [← C11.vsum_exact]; exact vsum_agree sqrt xs
theorem vmean_spec (sqrt : Rat → Rat) (xs : List (Option Rat)) :
    Agree sqrt (GenAgg.vmean.run sqrt xs) (Spec.vmean xs) := by
  rw [← C11.vmean_exact]; exact vmean_agree sqrt xs
theorem vmean_var_spec (sqrt : Rat → Rat) (xs : List (Option Rat)) (mp : Nat) :
    Agree2 sqrt (GenAgg.vmean_var.run sqrt xs mp) (Spec.vmeanVar mp xs) := by
  rw [← C11.vmean_var_exact]; exact vmean_var_agree sqrt xs mp
theorem vvar_spec (sqrt : Rat → Rat) (xs : List (Option Rat)) (mp : Nat) :
    Agree sqrt (GenAgg.vvar.run sqrt xs mp) (Spec.vvar mp xs) := by
  rw [← C11.vvar_exact]; exact vvar_agree sqrt xs mp
theorem vstd_spec (sqrt : Rat → Rat) (xs : List (Option Rat)) (mp : Nat) :
    Agree sqrt (GenAgg.vstd.run sqrt xs mp) (Spec.vstd mp xs) := by
  rw [← C11.vstd_exact]; exact vstd_agree sqrt xs mp
/-- `vskew` is NaN exactly below `max(min_periods, 3)` valid elements -/
theorem vskew_nan_iff (sqrt : Rat → Rat) (xs : List (Option Rat)) (mp : Nat) :
    GenAgg.vskew.run sqrt xs mp = none ↔ (valid xs).length < max mp 3 := by
  rw [← C11.vskew_null_iff]; exact (vskew_mask sqrt xs mp).symm
theorem vmax_spec (sqrt : Rat → Rat) (xs : List (Option Rat)) : GenAgg.vmax.run sqrt xs = Spec.vmax xs := by
  rw [vmax_eq, C11.vmax_exact]
theorem vmin_spec (sqrt : Rat → Rat) (xs : List (Option Rat)) : GenAgg.vmin.run sqrt xs = Spec.vmin xs := by
  rw [vmin_eq, C11.vmin_exact]
theorem count_none_spec (sqrt : Rat → Rat) (xs : List (Option Rat)) :
    GenAgg.count_none.run sqrt xs = Spec.countNone xs := by
  rw [count_none_eq, C11.count_none_exact]
theorem vcov_spec (sqrt : Rat → Rat) (xs ys : List (Option Rat)) (mp : Nat) :
    Agree sqrt (GenAgg.vcov.run sqrt xs ys mp) (Spec.vcov mp xs ys) := by
  rw [← C11.vcov_exact]; exact vcov_agree sqrt xs ys mp
theorem vcorr_spec (sqrt : Rat → Rat) (xs ys : List (Option Rat)) (mp : Nat) :
    AgreeW (GenAgg.vcorr_pearson.run sqrt xs ys mp) (Spec.vcorr mp xs ys) := by
  rw [← C11.vcorr_exact]; exact vcorr_agree sqrt xs ys mp

/-! ## counts, first / last valid, arg-extrema (agg.rs) and `vkurt` (tea-agg/src/lib.rs) -/


theorem count_valid_eq (sqrt : Rat → Rat) (xs : List (Option Rat)) :
    GenAgg.count_valid.run sqrt xs = C11.countValid xs := by
  simp only [GenAgg.count_valid.run, C11.countValid, vfoldN_eq]

/-- the deprecated alias `count` -/
theorem count_eq (sqrt : Rat → Rat) (xs : List (Option Rat)) :
    GenAgg.count.run sqrt xs = C11.countValid xs := by
  simp only [GenAgg.count.run, C11.countValid, vfoldN_eq]

theorem vfirst_eq (sqrt : Rat → Rat) (xs : List (Option Rat)) :
    GenAgg.vfirst.run sqrt xs = C11.vfirst xs := rfl

theorem vlast_eq (sqrt : Rat → Rat) (xs : List (Option Rat)) :
    GenAgg.vlast.run sqrt xs = C11.vlast xs := rfl

theorem vcount_value_eq (sqrt : Rat → Rat) (xs : List (Option Rat)) (value : Option Rat) :
    GenAgg.vcount_value.run sqrt xs value = C11.vcountValue value xs := by
  cases value with
  | none => simp [GenAgg.vcount_value.run, C11.vcountValue]
  | some c => simp [GenAgg.vcount_value.run, C11.vcountValue, vfold_eq]

theorem cmpRat_gt (a b : Rat) : (Gen.cmpRat a b = .gt) ↔ a > b := by
  unfold Gen.cmpRat
  by_cases h1 : a < b
  · simp [h1]; exact le_of_lt h1
  · by_cases h2 : a = b
    · simp [h2]
    · simp [h1, h2]; exact lt_of_le_of_ne (not_lt.mp h1) (Ne.symm h2)

theorem cmpRat_lt (a b : Rat) : (Gen.cmpRat a b = .lt) ↔ a < b := by
  unfold Gen.cmpRat
  by_cases h1 : a < b
  · simp [h1]
  · by_cases h2 : a = b <;> simp [h1, h2]

/-- a `for_each` closure keeping `(best, best index, current index)` -/
theorem fold_arg (step : ArgSt → Option Rat → ArgSt)
    (F : Option Rat × Option Nat × Nat → Option Rat → Option Rat × Option Nat × Nat)
    (hF : ∀ a b c v, F (a, b, c) v = ((step ⟨a, b, c⟩ v).best, (step ⟨a, b, c⟩ v).idx, (step ⟨a, b, c⟩ v).cur))
    (xs : List (Option Rat)) (s : ArgSt) :
    List.foldl F (s.best, s.idx, s.cur) xs =
      ((xs.foldl step s).best, (xs.foldl step s).idx, (xs.foldl step s).cur) := by
  induction xs generalizing s with
  | nil => rfl
  | cons v xs ih =>
    rw [List.foldl_cons, List.foldl_cons, hF]
    exact ih (step s v)

theorem vargmax_eq (sqrt : Rat → Rat) (xs : List (Option Rat)) :
    GenAgg.vargmax.run sqrt xs = C11.vargmax xs := by
  unfold GenAgg.vargmax.run C11.vargmax
  simp only []
  rw [fold_arg vargmaxStep _ (by
    intro a b c v
    cases v with
    | none => simp [vargmaxStep]
    | some x =>
      cases a with
      | none => simp [vargmaxStep]
      | some m =>
        by_cases h : x > m
        · simp [vargmaxStep, h, (cmpRat_gt x m).mpr h]
        · have : ¬ Gen.cmpRat x m = .gt := fun hc => h ((cmpRat_gt x m).mp hc)
          simp [vargmaxStep, h, this]) xs ⟨none, none, 0⟩]

theorem vargmin_eq (sqrt : Rat → Rat) (xs : List (Option Rat)) :
    GenAgg.vargmin.run sqrt xs = C11.vargmin xs := by
  unfold GenAgg.vargmin.run C11.vargmin
  simp only []
  rw [fold_arg vargminStep _ (by
    intro a b c v
    cases v with
    | none => simp [vargminStep]
    | some x =>
      cases a with
      | none => simp [vargminStep]
      | some m =>
        by_cases h : x < m
        · simp [vargminStep, h, (cmpRat_lt x m).mpr h]
        · have : ¬ Gen.cmpRat x m = .lt := fun hc => h ((cmpRat_lt x m).mp hc)
          simp [vargminStep, h, this]) xs ⟨none, none, 0⟩]

theorem vapplyN_pow4 (f : Rat × Rat × Rat × Rat → Rat → Rat × Rat × Rat × Rat)
    (hf : ∀ a b c d v, f (a, b, c, d) v = (a + v, b + v * v, c + v * v * v, d + (v * v) * (v * v)))
    (xs : List (Option Rat)) :
    Gen.vapplyN f (0, 0, 0, 0) xs = (((pows xs).s1, (pows xs).s2, (pows xs).s3, (pows xs).s4), (pows xs).n) := by
  unfold Gen.vapplyN pows
  have e0 : (((0 : Rat), (0 : Rat), (0 : Rat), (0 : Rat)), 0) =
      ((Pow.zero.s1, Pow.zero.s2, Pow.zero.s3, Pow.zero.s4), Pow.zero.n) := rfl
  rw [e0]
  generalize Pow.zero = s
  induction xs generalizing s with
  | nil => rfl
  | cons v xs ih =>
    cases v with
    | none => exact ih s
    | some x =>
      rw [List.foldl_cons, List.foldl_cons]
      show List.foldl _ (f _ x, s.n + 1) xs = _
      rw [hf]
      exact ih ⟨s.n + 1, s.s1 + x, s.s2 + x * x, s.s3 + x * x * x, s.s4 + (x * x) * (x * x)⟩

/-- `vkurt` (tea-agg/src/lib.rs) regenerated = the model's `vkurt`, value for value -/
theorem vkurt_agree (sqrt : Rat → Rat) (xs : List (Option Rat)) (mp : Nat) :
    Agree sqrt (GenAgg.vkurt.run sqrt xs mp) (C11.vkurt mp xs) := by
  unfold GenAgg.vkurt.run
  simp only []
  rw [vapplyN_pow4 _ (fun a b c d v => by first | rfl | (simp only [pow_two]) | (simp [pow_two, pow_succ]; try ring)) xs]
  simp only [C11.vkurt, eps_eq, decide_eq_true_eq, sq, Pow.pvar]
  generalize pows xs = s
  by_cases h1 : s.n < mp
  · simp [h1, Agree]
  · by_cases h2 : s.n ≥ 4
    · simp only [h1, h2, if_false, if_true]
      by_cases h3 : s.s2 / ↑s.n - s.s1 / ↑s.n * (s.s1 / ↑s.n) ≤ EPS
      · simp [h3, Agree]
      · simp only [h3, if_false]
        split_ifs <;> simp_all [Agree]
    · simp [h1, h2, Agree]

theorem vkurt_spec (sqrt : Rat → Rat) (xs : List (Option Rat)) (mp : Nat) :
    Agree sqrt (GenAgg.vkurt.run sqrt xs mp) (Spec.vkurt mp xs) := by
  rw [← C11.vkurt_exact]; exact vkurt_agree sqrt xs mp
theorem count_valid_spec (sqrt : Rat → Rat) (xs : List (Option Rat)) :
    GenAgg.count_valid.run sqrt xs = Spec.countValid xs := by
  rw [count_valid_eq, C11.count_valid_exact]
theorem vfirst_spec (sqrt : Rat → Rat) (xs : List (Option Rat)) :
    GenAgg.vfirst.run sqrt xs = (Spec.firstValid xs).map some := by
  rw [vfirst_eq, C11.vfirst_exact]
theorem vlast_spec (sqrt : Rat → Rat) (xs : List (Option Rat)) :
    GenAgg.vlast.run sqrt xs = (Spec.lastValid xs).map some := by
  rw [vlast_eq, C11.vlast_exact]
theorem vcount_value_spec (sqrt : Rat → Rat) (xs : List (Option Rat)) (value : Option Rat) :
    GenAgg.vcount_value.run sqrt xs value = Spec.countValue value xs := by
  rw [vcount_value_eq, C11.vcount_value_exact]
theorem vargmax_spec (sqrt : Rat → Rat) (xs : List (Option Rat)) : GenAgg.vargmax.run sqrt xs = Spec.vargmax xs := by
  rw [vargmax_eq, C11.vargmax_exact]
theorem vargmin_spec (sqrt : Rat → Rat) (xs : List (Option Rat)) : GenAgg.vargmin.run sqrt xs = Spec.vargmin xs := by
  rw [vargmin_eq, C11.vargmin_exact]

/-- all eighteen functions were found and translated (an unparsed one has no `run`, which breaks
the theorems above; one that disappears breaks this) -/
theorem functions_present :
    ∀ n ∈ ["vsum", "vmean", "vmean_var", "vvar", "vstd", "vskew", "vmax", "vmin", "count_none",
      "vcov", "vcorr_pearson", "count_valid", "vfirst", "vlast", "vcount_value", "vargmax", "vargmin", "vkurt"],
      n ∈ GenAgg.functions := by
  simp [GenAgg.functions]

/-! ## the plain trait `AggBasic` (null-free items), regenerated -/

theorem plain_count_value_eq (sqrt : Rat → Rat) (xs : List Rat) (v : Rat) :
    GenAgg.plain.count_value.run sqrt xs v = C11.countValueP v xs := by
  simp only [GenAgg.plain.count_value.run, C11.countValueP]
  congr 1
  funext acc x
  by_cases h : x = v <;> simp [h]

theorem plain_first_eq (sqrt : Rat → Rat) (xs : List Rat) : GenAgg.plain.first.run sqrt xs = C11.firstP xs := rfl
theorem plain_last_eq (sqrt : Rat → Rat) (xs : List Rat) : GenAgg.plain.last.run sqrt xs = C11.lastP xs := rfl

theorem fold_nsum (F : Nat × Rat → Rat → Nat × Rat) (hF : ∀ n a x, F (n, a) x = (n + 1, a + x))
    (xs : List Rat) (n : Nat) (a : Rat) :
    List.foldl F (n, a) xs = List.foldl (fun (p : Nat × Rat) x => (p.1 + 1, p.2 + x)) (n, a) xs := by
  induction xs generalizing n a with
  | nil => rfl
  | cons x xs ih => rw [List.foldl_cons, List.foldl_cons, hF]; exact ih _ _

theorem plain_n_sum_agree (sqrt : Rat → Rat) (xs : List Rat) :
    (GenAgg.plain.n_sum.run sqrt xs).1 = (C11.nSumP xs).1 ∧
    Agree sqrt (GenAgg.plain.n_sum.run sqrt xs).2 (C11.nSumP xs).2 := by
  unfold GenAgg.plain.n_sum.run C11.nSumP
  simp only []
  rw [fold_nsum _ (fun n a x => rfl) xs 0 0]
  generalize List.foldl (fun (p : Nat × Rat) x => (p.1 + 1, p.2 + x)) (0, 0) xs = p
  by_cases h : p.1 ≥ 1 <;> simp [h, Agree]

theorem plain_sum_agree (sqrt : Rat → Rat) (xs : List Rat) :
    Agree sqrt (GenAgg.plain.sum.run sqrt xs) (C11.sumP xs) := (plain_n_sum_agree sqrt xs).2

theorem plain_mean_agree (sqrt : Rat → Rat) (xs : List Rat) :
    Agree sqrt (GenAgg.plain.mean.run sqrt xs) (C11.meanP xs) := by
  unfold GenAgg.plain.mean.run C11.meanP GenAgg.plain.n_sum.run C11.nSumP
  simp only []
  rw [fold_nsum _ (fun n a x => rfl) xs 0 0]
  generalize List.foldl (fun (p : Nat × Rat) x => (p.1 + 1, p.2 + x)) (0, 0) xs = p
  by_cases h : p.1 ≥ 1 <;> simp [h, Agree]

theorem maxWith_eq (a b : Rat) : Gen.maxWith a b = C11.maxWith a b := rfl
theorem minWith_eq (a b : Rat) : Gen.minWith a b = C11.minWith a b := rfl

theorem plain_max_eq (sqrt : Rat → Rat) (xs : List Rat) : GenAgg.plain.max.run sqrt xs = C11.maxP xs := by
  unfold GenAgg.plain.max.run C11.maxP
  congr 1

theorem plain_min_eq (sqrt : Rat → Rat) (xs : List Rat) : GenAgg.plain.min.run sqrt xs = C11.minP xs := by
  unfold GenAgg.plain.min.run C11.minP
  congr 1

theorem fold_argP (step : ArgSt → Rat → ArgSt)
    (F : Option Rat × Option Nat × Nat → Rat → Option Rat × Option Nat × Nat)
    (hF : ∀ a b c v, F (a, b, c) v = ((step ⟨a, b, c⟩ v).best, (step ⟨a, b, c⟩ v).idx, (step ⟨a, b, c⟩ v).cur))
    (xs : List Rat) (s : ArgSt) :
    List.foldl F (s.best, s.idx, s.cur) xs =
      ((xs.foldl step s).best, (xs.foldl step s).idx, (xs.foldl step s).cur) := by
  induction xs generalizing s with
  | nil => rfl
  | cons v xs ih =>
    rw [List.foldl_cons, List.foldl_cons, hF]
    exact ih (step s v)

theorem plain_argmax_eq (sqrt : Rat → Rat) (xs : List Rat) :
    GenAgg.plain.argmax.run sqrt xs = C11.argmaxP xs := by
  unfold GenAgg.plain.argmax.run C11.argmaxP
  simp only []
  rw [fold_argP argmaxStepP _ (by
    intro a b c x
    cases a with
    | none => simp [argmaxStepP]
    | some m =>
      by_cases h : x > m
      · simp [argmaxStepP, h, (cmpRat_gt x m).mpr h]
      · have : ¬ Gen.cmpRat x m = .gt := fun hc => h ((cmpRat_gt x m).mp hc)
        simp [argmaxStepP, h, this]) xs ⟨none, none, 0⟩]

theorem plain_argmin_eq (sqrt : Rat → Rat) (xs : List Rat) :
    GenAgg.plain.argmin.run sqrt xs = C11.argminP xs := by
  unfold GenAgg.plain.argmin.run C11.argminP
  simp only []
  rw [fold_argP argminStepP _ (by
    intro a b c x
    cases a with
    | none => simp [argminStepP]
    | some m =>
      by_cases h : x < m
      · simp [argminStepP, h, (cmpRat_lt x m).mpr h]
      · have : ¬ Gen.cmpRat x m = .lt := fun hc => h ((cmpRat_lt x m).mp hc)
        simp [argminStepP, h, this]) xs ⟨none, none, 0⟩]

theorem plain_functions_present :
    ∀ n ∈ ["count_value", "first", "last", "n_sum", "sum", "mean", "max", "min", "argmax", "argmin", "any", "all"],
      n ∈ GenAgg.plain.functions := by
  simp [GenAgg.plain.functions]

/-! ## boolean elements: `vany`, `vall` (`AggValidBasic`), `any`, `all` (`AggBasic`), regenerated -/

theorem vfoldB_eq {σ : Type} (f : σ → Bool → σ) (init : σ) (xs : List (Option Bool)) :
    Gen.vfoldB f init xs = C11.vfold f init xs := by
  unfold Gen.vfoldB C11.vfold
  congr 1
  funext acc v
  cases v <;> rfl

theorem vany_eq (sqrt : Rat → Rat) (xs : List (Option Bool)) : GenAgg.vany.run sqrt xs = C11.vany xs := by
  simp only [GenAgg.vany.run, C11.vany, vfoldB_eq]

theorem vall_eq (sqrt : Rat → Rat) (xs : List (Option Bool)) : GenAgg.vall.run sqrt xs = C11.vall xs := by
  simp only [GenAgg.vall.run, C11.vall, vfoldB_eq]

/-- the regenerated `vany` is "some non-null element is true" -/
theorem vany_spec (sqrt : Rat → Rat) (xs : List (Option Bool)) : GenAgg.vany.run sqrt xs = C11.Spec.anyValid xs := by
  rw [vany_eq, C11.vany_exact]

/-- the regenerated `vall` is "no non-null element is false" -/
theorem vall_spec (sqrt : Rat → Rat) (xs : List (Option Bool)) : GenAgg.vall.run sqrt xs = C11.Spec.allValid xs := by
  rw [vall_eq, C11.vall_exact]

theorem plain_any_eq (sqrt : Rat → Rat) (xs : List Bool) : GenAgg.plain.any.run sqrt xs = C11.anyP xs := by
  simp only [GenAgg.plain.any.run, C11.anyP]; rfl

theorem plain_all_eq (sqrt : Rat → Rat) (xs : List Bool) : GenAgg.plain.all.run sqrt xs = C11.allP xs := by
  simp only [GenAgg.plain.all.run, C11.allP]; rfl

theorem bool_functions_present : ∀ n ∈ ["vany", "vall"], n ∈ GenAgg.functions := by
  simp [GenAgg.functions]
/-! ## the masked aggregations of tea-agg (`n_vsum_filter`, `n_sum_filter`, `vmean_filter`), regenerated -/

theorem filterMap_keepFlag (F : Option Rat × Option Bool → Option (Option Rat)) (hF : ∀ v f, F (v, f) = keepFlag (v, f))
    (l : List (Option Rat × Option Bool)) : l.filterMap F = l.filterMap keepFlag := by
  apply List.filterMap_congr
  rintro ⟨v, f⟩ _
  exact hF v f

theorem n_vsum_filter_eq (sqrt : Rat → Rat) (xs : List (Option Rat)) (mask : List (Option Bool)) :
    GenAgg.n_vsum_filter.run sqrt xs mask = C11.nVsumFilter xs mask := by
  unfold GenAgg.n_vsum_filter.run C11.nVsumFilter
  simp only [vfoldN_eq]
  rw [filterMap_keepFlag _ (fun v f => by cases f with
    | none => rfl
    | some b => cases b <;> rfl)]

theorem n_sum_filter_agree (sqrt : Rat → Rat) (xs : List (Option Rat)) (mask : List (Option Bool)) :
    Agree sqrt (GenAgg.n_sum_filter.run sqrt xs mask) (C11.nSumFilter xs mask) := by
  unfold GenAgg.n_sum_filter.run C11.nSumFilter
  simp only [n_vsum_filter_eq]
  generalize C11.nVsumFilter xs mask = p
  obtain ⟨n, s⟩ := p
  by_cases h : n > 0 <;> simp [h, Agree]

theorem vmean_filter_agree (sqrt : Rat → Rat) (xs : List (Option Rat)) (mask : List (Option Bool)) (mp : Nat) :
    Agree sqrt (GenAgg.vmean_filter.run sqrt xs mask mp) (C11.vmeanFilter mp xs mask) := by
  unfold GenAgg.vmean_filter.run C11.vmeanFilter
  simp only [n_vsum_filter_eq]
  generalize C11.nVsumFilter xs mask = p
  obtain ⟨n, s⟩ := p
  by_cases h : n ≥ mp
  · simp only [h, decide_true, if_true, Out.div]
    split_ifs <;> simp [Agree]
  · simp [h, Agree]

theorem n_vsum_filter_spec (sqrt : Rat → Rat) (xs : List (Option Rat)) (mask : List (Option Bool)) :
    GenAgg.n_vsum_filter.run sqrt xs mask = Spec.nVsumFilter xs mask := by
  rw [n_vsum_filter_eq, C11.n_vsum_filter_exact]
end Tv.C11Gen
