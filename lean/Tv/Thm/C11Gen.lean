import Tv.GenAgg
import Tv.Lemmas.GenSim
import Tv.Thm.C11
import Mathlib.Tactic.Ring
import Mathlib.Tactic.NormNum
set_option linter.unusedSimpArgs false
set_option linter.unusedTactic false
set_option linter.unreachableTactic false
/-!
# C11 — the aggregations regenerated from tea-core/src/agg.rs are the model's aggregations

`Tv.GenAgg.<fn>.run` is written by translator/aggs.py from the Rust source of the trait
`AggValidBasic` on every run (function body in source order; the iteration calls `vapply_n`,
`vfold_n`, `vfold`, `for_each`, `zip().for_each` are the combinators of `GenPrelude.lean`, a
hand-written reading of iter_traits.rs, applied to the translated closure).  For the eleven
functions `vsum`, `vmean`, `vmean_var`, `vvar`, `vstd`, `vskew`, `vmax`, `vmin`, `count_none`,
`vcov`, `vcorr_pearson` this file proves that the regenerated function agrees with the
hand-written model (`*_agree` / `*_eq`, fold-fusion lemmas `vapplyN_pow2/3`, `fold_pairs4/6`) and,
through the C11 theorems, with the textbook definition over the non-null elements (`*_spec`).
`vskew` (zero test on a `sqrt` expression) and `vcorr_pearson` (closed form rewritten under the
root sign in the model) are proved up to the mask / branch structure; their values are compared
by the correspondence run.  Not translated: `vargmax`/`vargmin` (untyped `None` initialisers and
`if let Some(Ordering::…)` patterns), `vfirst`/`vlast`/`vany`/`vall`/`vcount_value` (std `find`,
boolean elements), the plain `AggBasic` trait, tea-agg's `AggValidExt`.
-/
namespace Tv.C11Gen
open Tv Tv.GenSim Tv.C11

theorem eps_eq : GenAgg.EPS = C11.EPS := by norm_num [GenAgg.EPS, C11.EPS]

/-- the prelude's reading of `vfold_n` is the model's -/
theorem vfoldN_eq {σ : Type} (f : σ → Rat → σ) (init : σ) (xs : List (Option Rat)) :
    Gen.vfoldN f init xs = C11.vfoldN f init xs := by
  unfold Gen.vfoldN C11.vfoldN
  congr 1
  funext p v
  cases v <;> rfl

theorem vfold_eq {σ : Type} (f : σ → Rat → σ) (init : σ) (xs : List (Option Rat)) :
    Gen.vfold f init xs = C11.vfold f init xs := by
  unfold Gen.vfold C11.vfold
  congr 1
  funext p v
  cases v <;> rfl

theorem vsum_agree (sqrt : Rat → Rat) (xs : List (Option Rat)) :
    Agree sqrt (GenAgg.vsum.run sqrt xs) (C11.vsum xs) := by
  simp only [GenAgg.vsum.run, C11.vsum, vfoldN_eq]
  generalize C11.vfoldN (fun acc x => acc + x) (0 : Rat) xs = p
  obtain ⟨n, s⟩ := p
  by_cases h : n ≥ 1 <;> simp [h, Agree]

theorem vmean_agree (sqrt : Rat → Rat) (xs : List (Option Rat)) :
    Agree sqrt (GenAgg.vmean.run sqrt xs) (C11.vmean xs) := by
  simp only [GenAgg.vmean.run, C11.vmean, vfoldN_eq]
  generalize C11.vfoldN (fun acc x => acc + x) (0 : Rat) xs = p
  obtain ⟨n, s⟩ := p
  by_cases h : n ≥ 1 <;> simp [h, Agree]

/-- componentwise agreement of a pair of results -/
def Agree2 (sqrt : Rat → Rat) (o : Option Rat × Option Rat) (t : Out × Out) : Prop :=
  Agree sqrt o.1 t.1 ∧ Agree sqrt o.2 t.2

/-- a `vapply_n` closure that accumulates `Σv, Σv²` computes the model's power sums -/
theorem vapplyN_pow2 (f : Rat × Rat → Rat → Rat × Rat) (hf : ∀ a b v, f (a, b) v = (a + v, b + v * v))
    (xs : List (Option Rat)) :
    Gen.vapplyN f (0, 0) xs = (((pows xs).s1, (pows xs).s2), (pows xs).n) := by
  unfold Gen.vapplyN pows
  have e0 : (((0 : Rat), (0 : Rat)), 0) = ((Pow.zero.s1, Pow.zero.s2), Pow.zero.n) := rfl
  rw [e0]
  generalize Pow.zero = s
  induction xs generalizing s with
  | nil => rfl
  | cons v xs ih =>
    cases v with
    | none => exact ih s
    | some x =>
      rw [List.foldl_cons, List.foldl_cons]
      show List.foldl _ (f _ x, s.n + 1) xs = _
      rw [hf]
      exact ih ⟨s.n + 1, s.s1 + x, s.s2 + x * x, s.s3 + x * x * x, s.s4 + (x * x) * (x * x)⟩

theorem vapplyN_pow3 (f : Rat × Rat × Rat → Rat → Rat × Rat × Rat)
    (hf : ∀ a b c v, f (a, b, c) v = (a + v, b + v * v, c + v * v * v))
    (xs : List (Option Rat)) :
    Gen.vapplyN f (0, 0, 0) xs = (((pows xs).s1, (pows xs).s2, (pows xs).s3), (pows xs).n) := by
  unfold Gen.vapplyN pows
  have e0 : (((0 : Rat), (0 : Rat), (0 : Rat)), 0) = ((Pow.zero.s1, Pow.zero.s2, Pow.zero.s3), Pow.zero.n) := rfl
  rw [e0]
  generalize Pow.zero = s
  induction xs generalizing s with
  | nil => rfl
  | cons v xs ih =>
    cases v with
    | none => exact ih s
    | some x =>
      rw [List.foldl_cons, List.foldl_cons]
      show List.foldl _ (f _ x, s.n + 1) xs = _
      rw [hf]
      exact ih ⟨s.n + 1, s.s1 + x, s.s2 + x * x, s.s3 + x * x * x, s.s4 + (x * x) * (x * x)⟩

theorem vmean_var_agree (sqrt : Rat → Rat) (xs : List (Option Rat)) (mp : Nat) :
    Agree2 sqrt (GenAgg.vmean_var.run sqrt xs mp) (C11.vmeanVar mp xs) := by
  unfold GenAgg.vmean_var.run
  simp only []
  rw [vapplyN_pow2 _ (fun a b v => by first | rfl | (simp only [pow_two]) | (simp [pow_two, pow_succ]; try ring)) xs]
  simp only [C11.vmeanVar, Agree2, eps_eq, decide_eq_true_eq, sq, Pow.pvar]
  generalize pows xs = s
  by_cases h1 : s.n < mp
  · simp [h1, Agree]
  · simp only [h1, if_false]
    by_cases h2 : s.n < 2
    · simp only [h2, if_true, Out.div]
      refine ⟨?_, rfl⟩
      split_ifs <;> first | trivial | rfl
    · simp only [h2, if_false, Out.div]
      have hn : (s.n : Rat) ≠ 0 := by
        have : 2 ≤ s.n := by omega
        exact_mod_cast (by omega : s.n ≠ 0)
      simp only [hn, if_false]
      split_ifs <;> exact ⟨rfl, rfl⟩

theorem vvar_agree (sqrt : Rat → Rat) (xs : List (Option Rat)) (mp : Nat) :
    Agree sqrt (GenAgg.vvar.run sqrt xs mp) (C11.vvar mp xs) :=
  (vmean_var_agree sqrt xs mp).2

theorem vvar_not_root (mp : Nat) (xs : List (Option Rat)) (sg : Int) (q : Rat) : C11.vvar mp xs ≠ .root sg q := by
  unfold C11.vvar C11.vmeanVar
  simp only []
  split_ifs <;> simp

theorem vstd_agree (sqrt : Rat → Rat) (xs : List (Option Rat)) (mp : Nat) :
    Agree sqrt (GenAgg.vstd.run sqrt xs mp) (C11.vstd mp xs) := by
  have h := vvar_agree sqrt xs mp
  have hr := vvar_not_root mp xs
  unfold GenAgg.vstd.run C11.vstd
  simp only []
  generalize GenAgg.vvar.run sqrt xs mp = o at h ⊢
  generalize C11.vvar mp xs = t at h hr ⊢
  cases t with
  | root sg q => exact absurd rfl (hr sg q)
  | null => simp_all [Agree, sqrtOut]
  | degen => simp_all [Agree, sqrtOut]
  | val q => simp_all [Agree, sqrtOut]

theorem ite_ne {α : Type} (c : Prop) [Decidable c] (a b z : α) (ha : a ≠ z) (hb : b ≠ z) :
    (if c then a else b) ≠ z := by
  split_ifs <;> assumption

/-- mask agreement: the generated result is the NaN literal exactly where the model is null -/
def AgreeMask (o : Option Rat) (t : Out) : Prop := t = .null ↔ o = none

/-- `vskew`: the closed form is rewritten under the root sign in the model and its zero test
(`res != 0.`) is a statement about `sqrt`; proved here: the result is NaN exactly below
`max(min_periods, 3)` valid elements (values: correspondence run) -/
theorem vskew_mask (sqrt : Rat → Rat) (xs : List (Option Rat)) (mp : Nat) :
    AgreeMask (GenAgg.vskew.run sqrt xs mp) (C11.vskew mp xs) := by
  unfold GenAgg.vskew.run
  simp only []
  rw [vapplyN_pow3 _ (fun a b c v => by first | rfl | (simp only [pow_two]) | (simp [pow_two, pow_succ]; try ring)) xs]
  simp only [C11.vskew, eps_eq, decide_eq_true_eq, sq, Pow.pvar, AgreeMask]
  generalize pows xs = s
  by_cases h1 : s.n < mp
  · simp [h1]
  · by_cases h2 : s.n ≥ 3
    · simp only [h1, h2, if_false, if_true]
      by_cases h3 : s.s2 / ↑s.n - s.s1 / ↑s.n * (s.s1 / ↑s.n) ≤ EPS
      · simp [h3]
      · simp only [h3, if_false]
        constructor
        · intro h; exact absurd h (ite_ne _ _ _ _ (by simp) (by simp))
        · intro h; exact absurd h (ite_ne _ _ _ _ (by simp) (by simp))
    · simp [h1, h2]

theorem vmax_eq (sqrt : Rat → Rat) (xs : List (Option Rat)) : GenAgg.vmax.run sqrt xs = C11.vmax xs := by
  unfold GenAgg.vmax.run C11.vmax
  simp only [vfold_eq]
  congr 1

theorem vmin_eq (sqrt : Rat → Rat) (xs : List (Option Rat)) : GenAgg.vmin.run sqrt xs = C11.vmin xs := by
  unfold GenAgg.vmin.run C11.vmin
  simp only [vfold_eq]
  congr 1

theorem count_none_eq (sqrt : Rat → Rat) (xs : List (Option Rat)) : GenAgg.count_none.run sqrt xs = C11.countNone xs := by
  unfold GenAgg.count_none.run C11.countNone
  rfl

/-- a `zip … for_each` closure accumulating `n, Σa, Σb, Σab` over the pairwise-complete pairs -/
theorem fold_pairs4 (L : Nat × Rat × Rat × Rat → Option Rat × Option Rat → Nat × Rat × Rat × Rat)
    (hL : ∀ n a b c va vb, L (n, a, b, c) (va, vb) =
      match va, vb with
      | some x, some y => (n + 1, a + x, b + y, c + x * y)
      | _, _ => (n, a, b, c))
    (l : List (Option Rat × Option Rat)) :
    List.foldl L (0, 0, 0, 0) l =
      ((l.foldl Pair.step Pair.zero).n, (l.foldl Pair.step Pair.zero).sa, (l.foldl Pair.step Pair.zero).sb,
        (l.foldl Pair.step Pair.zero).sab) := by
  have e0 : ((0 : Nat), (0 : Rat), (0 : Rat), (0 : Rat)) = (Pair.zero.n, Pair.zero.sa, Pair.zero.sb, Pair.zero.sab) := rfl
  rw [e0]
  generalize Pair.zero = s
  induction l generalizing s with
  | nil => rfl
  | cons p l ih =>
    obtain ⟨va, vb⟩ := p
    rw [List.foldl_cons, List.foldl_cons, hL]
    cases va with
    | none => exact ih s
    | some x =>
      cases vb with
      | none => exact ih s
      | some y => exact ih ⟨s.n + 1, s.sa + x, s.sb + y, s.sab + x * y, s.saa + x * x, s.sbb + y * y⟩

theorem fold_pairs6 (L : Nat × Rat × Rat × Rat × Rat × Rat → Option Rat × Option Rat → Nat × Rat × Rat × Rat × Rat × Rat)
    (hL : ∀ n a aa b bb c va vb, L (n, a, aa, b, bb, c) (va, vb) =
      match va, vb with
      | some x, some y => (n + 1, a + x, aa + x * x, b + y, bb + y * y, c + x * y)
      | _, _ => (n, a, aa, b, bb, c))
    (l : List (Option Rat × Option Rat)) :
    List.foldl L (0, 0, 0, 0, 0, 0) l =
      ((l.foldl Pair.step Pair.zero).n, (l.foldl Pair.step Pair.zero).sa, (l.foldl Pair.step Pair.zero).saa,
        (l.foldl Pair.step Pair.zero).sb, (l.foldl Pair.step Pair.zero).sbb, (l.foldl Pair.step Pair.zero).sab) := by
  have e0 : ((0 : Nat), (0 : Rat), (0 : Rat), (0 : Rat), (0 : Rat), (0 : Rat)) =
      (Pair.zero.n, Pair.zero.sa, Pair.zero.saa, Pair.zero.sb, Pair.zero.sbb, Pair.zero.sab) := rfl
  rw [e0]
  generalize Pair.zero = s
  induction l generalizing s with
  | nil => rfl
  | cons p l ih =>
    obtain ⟨va, vb⟩ := p
    rw [List.foldl_cons, List.foldl_cons, hL]
    cases va with
    | none => exact ih s
    | some x =>
      cases vb with
      | none => exact ih s
      | some y => exact ih ⟨s.n + 1, s.sa + x, s.sb + y, s.sab + x * y, s.saa + x * x, s.sbb + y * y⟩

theorem vcov_agree (sqrt : Rat → Rat) (xs ys : List (Option Rat)) (mp : Nat) :
    Agree sqrt (GenAgg.vcov.run sqrt xs ys mp) (C11.vcov mp xs ys) := by
  unfold GenAgg.vcov.run
  simp only []
  rw [fold_pairs4 _ (fun n a b c va vb => by cases va <;> cases vb <;> rfl)]
  simp only [C11.vcov, C11.pairs, decide_eq_true_eq]
  have hm : Gen.maxWithNat mp 2 = C11.maxWithNat mp 2 := rfl
  rw [hm]
  by_cases h : (List.foldl Pair.step Pair.zero (xs.zip ys)).n ≥ C11.maxWithNat mp 2
  · simp only [h, ↓reduceIte]; rfl
  · simp only [h, ↓reduceIte]; rfl

theorem vcorr_agree (sqrt : Rat → Rat) (xs ys : List (Option Rat)) (mp : Nat) :
    AgreeW (GenAgg.vcorr_pearson.run sqrt xs ys mp) (C11.vcorr mp xs ys) := by
  unfold GenAgg.vcorr_pearson.run
  simp only []
  rw [fold_pairs6 _ (fun n a aa b bb c va vb => by cases va <;> cases vb <;> rfl)]
  simp only [C11.vcorr, C11.pairs, decide_eq_true_eq, eps_eq, sq, Bool.and_eq_true]
  have hm : Gen.maxWithNat mp 2 = C11.maxWithNat mp 2 := rfl
  rw [hm]
  by_cases h : (List.foldl Pair.step Pair.zero (xs.zip ys)).n ≥ C11.maxWithNat mp 2
  · simp only [h, ↓reduceIte]
    split_ifs <;> first | rfl | trivial | contradiction | (simp only [*, ↓reduceIte, and_self, not_true_eq_false, not_false_eq_true] <;> first | rfl | trivial)
  · simp only [h, ↓reduceIte]; rfl

/-! ## the regenerated aggregations against the textbook definitions (`Spec`, via the C11 theorems) -/

theorem vsum_spec (sqrt : Rat → Rat) (xs : List (Option Rat)) :
    Agree sqrt (GenAgg.vsum.run sqrt xs) (Spec.vsum xs) := by
  rw [← C11.vsum_exact]; exact vsum_agree sqrt xs
theorem vmean_spec (sqrt : Rat → Rat) (xs : List (Option Rat)) :
    Agree sqrt (GenAgg.vmean.run sqrt xs) (Spec.vmean xs) := by
  rw [← C11.vmean_exact]; exact vmean_agree sqrt xs
theorem vmean_var_spec (sqrt : Rat → Rat) (xs : List (Option Rat)) (mp : Nat) :
    Agree2 sqrt (GenAgg.vmean_var.run sqrt xs mp) (Spec.vmeanVar mp xs) := by
  rw [← C11.vmean_var_exact]; exact vmean_var_agree sqrt xs mp
theorem vvar_spec (sqrt : Rat → Rat) (xs : List (Option Rat)) (mp : Nat) :
    Agree sqrt (GenAgg.vvar.run sqrt xs mp) (Spec.vvar mp xs) := by
  rw [← C11.vvar_exact]; exact vvar_agree sqrt xs mp
theorem vstd_spec (sqrt : Rat → Rat) (xs : List (Option Rat)) (mp : Nat) :
    Agree sqrt (GenAgg.vstd.run sqrt xs mp) (Spec.vstd mp xs) := by
  rw [← C11.vstd_exact]; exact vstd_agree sqrt xs mp
/-- `vskew` is NaN exactly below `max(min_periods, 3)` valid elements -/
theorem vskew_nan_iff (sqrt : Rat → Rat) (xs : List (Option Rat)) (mp : Nat) :
    GenAgg.vskew.run sqrt xs mp = none ↔ (valid xs).length < max mp 3 := by
  rw [← C11.vskew_null_iff]; exact (vskew_mask sqrt xs mp).symm
theorem vmax_spec (sqrt : Rat → Rat) (xs : List (Option Rat)) : GenAgg.vmax.run sqrt xs = Spec.vmax xs := by
  rw [vmax_eq, C11.vmax_exact]
theorem vmin_spec (sqrt : Rat → Rat) (xs : List (Option Rat)) : GenAgg.vmin.run sqrt xs = Spec.vmin xs := by
  rw [vmin_eq, C11.vmin_exact]
theorem count_none_spec (sqrt : Rat → Rat) (xs : List (Option Rat)) :
    GenAgg.count_none.run sqrt xs = Spec.countNone xs := by
  rw [count_none_eq, C11.count_none_exact]
theorem vcov_spec (sqrt : Rat → Rat) (xs ys : List (Option Rat)) (mp : Nat) :
    Agree sqrt (GenAgg.vcov.run sqrt xs ys mp) (Spec.vcov mp xs ys) := by
  rw [← C11.vcov_exact]; exact vcov_agree sqrt xs ys mp
theorem vcorr_spec (sqrt : Rat → Rat) (xs ys : List (Option Rat)) (mp : Nat) :
    AgreeW (GenAgg.vcorr_pearson.run sqrt xs ys mp) (Spec.vcorr mp xs ys) := by
  rw [← C11.vcorr_exact]; exact vcorr_agree sqrt xs ys mp

/-- all eleven functions were found and translated (an unparsed one has no `run`, which breaks
the theorems above; one that disappears breaks this) -/
theorem functions_present :
    GenAgg.functions = ["vsum", "vmean", "vmean_var", "vvar", "vstd", "vskew", "vmax", "vmin", "count_none",
      "vcov", "vcorr_pearson"] := rfl

end Tv.C11Gen
