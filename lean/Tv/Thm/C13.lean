import Tv.Lemmas.C13
/-!
  # C13 — element-wise mapping operations follow their positional definitions

  Model: `Tv/Model/C13MapOps.lean` (the iterator constructions of tea-map as written, with
  the `fix:` commits for F12 / F16 / F17 applied); spec: `Tv/Spec/C13.lean`.

  All theorems hold for every series, every null pattern, every lag `n : Int` (hence every
  `i32`, including `|n| > len`, `i32::MIN`, `i32::MAX`), every fill value (null or not) and
  every pair of bounds. Positions are `Nat`, operand positions `(i : Int) - n`.
-/
namespace Tv.C13
open Spec

/-! ## lengths: every operation returns exactly as many elements as the input -/

/-- `shift` preserves the length for every lag. -/
theorem shift_len (n : Int) (v : α) (xs : List α) : (shift n v xs).length = xs.length :=
  shift_length n v xs

/-- `vshift` preserves the length for every lag and every (optional) fill value. -/
theorem vshift_len (n : Int) (value : Option (Option β)) (xs : List (Option β)) :
    (vshift n value xs).length = xs.length := shift_length n _ xs

/-- `vdiff` preserves the length. -/
theorem vdiff_len (n : Int) (value : Option (Option Rat)) (xs : List (Option Rat)) :
    (vdiff n value xs).length = xs.length := vdiff_length n value xs

/-- `vpct_change` preserves the length. -/
theorem vpct_len (n : Int) (xs : List (Option Rat)) : (vpctChange n xs).length = xs.length :=
  vpctChange_length n xs

/-- `ffill_mask` / `ffill` preserve the length. -/
theorem ffill_len (mask : Option β → Bool) (value : Option (Option β)) (xs : List (Option β)) :
    (ffillMask mask value xs).length = xs.length ∧ (ffill value xs).length = xs.length :=
  ⟨ffillMask_length mask value xs, ffillMask_length _ value xs⟩

/-- `bfill_mask` / `bfill` preserve the length (the reverse pass is materialised and reversed back). -/
theorem bfill_len (mask : Option β → Bool) (value : Option (Option β)) (xs : List (Option β)) :
    (bfillMask mask value xs).length = xs.length ∧ (bfill value xs).length = xs.length :=
  ⟨bfillMask_length mask value xs, bfillMask_length _ value xs⟩

/-- `fill_mask` / `fill` preserve the length. -/
theorem fill_len (mask : Option β → Bool) (value : Option β) (xs : List (Option β)) :
    (fillMask mask value xs).length = xs.length ∧ (fill value xs).length = xs.length := by
  simp [fillMask, fill]

/-- `vclip` preserves the length for every combination of present / null bounds. -/
theorem clip_len (lo hi : Option Rat) (xs : List (Option Rat)) : (vclip lo hi xs).length = xs.length := by
  rw [vclip_eq_clipS]; simp [clipS]

/-- `abs` and `vabs` preserve the length. -/
theorem abs_len (xs : List (Option Rat)) : (abs xs).length = xs.length ∧ (vabs xs).length = xs.length := by
  simp [abs, vabs]

/-! ## shift -/

/-- Output `i` of `shift n v` is `x[i-n]` when `0 ≤ i-n < len`, else the fill value. -/
theorem shift_get (n : Int) (v : α) (xs : List α) (i : Nat) (hi : i < xs.length) :
    (shift n v xs)[i]? =
      some (if h : 0 ≤ (i : Int) - n ∧ (i : Int) - n < xs.length
            then xs[((i : Int) - n).toNat]'(by omega) else v) := by
  rw [shift_getElem? n v xs i hi]
  by_cases h : 0 ≤ (i : Int) - n ∧ (i : Int) - n < xs.length
  · rw [dif_pos h, opnd_in xs _ h.1 h.2]; rfl
  · rw [dif_neg h, opnd_out xs _ h]; rfl

/-- `vshift n value` is the same positional function with fill `value.unwrap_or(null)`. -/
theorem vshift_get (n : Int) (value : Option (Option β)) (xs : List (Option β)) (i : Nat)
    (hi : i < xs.length) :
    (vshift n value xs)[i]? =
      some (if h : 0 ≤ (i : Int) - n ∧ (i : Int) - n < xs.length
            then xs[((i : Int) - n).toNat]'(by omega) else value.getD none) :=
  shift_get n _ xs i hi

/-- Every element moves `n` places: the element at `j` lands at `j+n` whenever that position
exists (towards the end for `n > 0`, towards the start for `n < 0`). -/
theorem shift_moves (n : Int) (v : α) (xs : List α) (j : Nat) (hj : j < xs.length)
    (h0 : 0 ≤ (j : Int) + n) (h1 : (j : Int) + n < xs.length) :
    (shift n v xs)[((j : Int) + n).toNat]? = some xs[j] := by
  rw [shift_get n v xs _ (by omega)]
  have e : ((((((j : Int) + n).toNat : Nat) : Int) - n)).toNat = j := by omega
  rw [dif_pos (by omega)]
  simp only [e]

/-- The vacated places (those `i` with no source position `i-n`) hold the fill value; in
particular the whole output is the fill value when `|n| ≥ len`. -/
theorem shift_vacated (n : Int) (v : α) (xs : List α) (i : Nat) (hi : i < xs.length)
    (h : (i : Int) - n < 0 ∨ (xs.length : Int) ≤ (i : Int) - n) :
    (shift n v xs)[i]? = some v := by
  rw [shift_get n v xs i hi, dif_neg (by omega)]

/-- model = from-scratch spec, all inputs -/
theorem shift_eq_shiftS (n : Int) (v : α) (xs : List α) : shift n v xs = shiftS n v xs :=
  shift_eq_spec n v xs

theorem vshift_eq_shiftS (n : Int) (value : Option (Option β)) (xs : List (Option β)) :
    vshift n value xs = shiftS n (value.getD none) xs := shift_eq_spec n _ xs

/-! ## difference and percentage change -/

/-- `osub b a` is `b - a` exactly when both operands are non-null, null otherwise. -/
theorem osub_spec (b a : Option Rat) :
    (∀ x y, b = some x → a = some y → osub b a = some (x - y)) ∧
    (b = none ∨ a = none → osub b a = none) := by
  rcases b with _ | x <;> rcases a with _ | y <;> simp [osub]

/-- `pct a b` is `b / a - 1` exactly when both are non-null and the base `a` is non-zero,
null otherwise (null base, null value, zero base). -/
theorem pct_spec (a b : Option Rat) :
    (∀ x y, a = some x → b = some y → x ≠ 0 → pct a b = some (y / x - 1)) ∧
    (a = none ∨ b = none ∨ a = some 0 → pct a b = none) := by
  rcases a with _ | x <;> rcases b with _ | y <;> simp [pct]

/-- Output `i` of `vdiff n value` is `x[i] - x[i-n]` (null if either is null) where the operand
position exists, and the fill value (`value` or null) elsewhere — for every lag, including 0,
where it is `x[i] - x[i]`. -/
theorem vdiff_get (n : Int) (value : Option (Option Rat)) (xs : List (Option Rat)) (i : Nat)
    (hi : i < xs.length) :
    (vdiff n value xs)[i]? =
      some (if h : 0 ≤ (i : Int) - n ∧ (i : Int) - n < xs.length
            then osub xs[i] (xs[((i : Int) - n).toNat]'(by omega)) else value.getD none) := by
  rw [vdiff_getElem? n value xs i hi]
  by_cases h : 0 ≤ (i : Int) - n ∧ (i : Int) - n < xs.length
  · rw [dif_pos h, opnd_in xs _ h.1 h.2]
  · rw [dif_neg h, opnd_out xs _ h]

/-- Output `i` of `vpct_change n` is `x[i] / x[i-n] - 1` where both exist, are non-null and the
base is non-zero, and null elsewhere (`pct_spec`). -/
theorem vpct_get (n : Int) (xs : List (Option Rat)) (i : Nat) (hi : i < xs.length) :
    (vpctChange n xs)[i]? =
      some (if h : 0 ≤ (i : Int) - n ∧ (i : Int) - n < xs.length
            then pct (xs[((i : Int) - n).toNat]'(by omega)) xs[i] else none) := by
  rw [vpctChange_getElem? n xs i hi]
  by_cases h : 0 ≤ (i : Int) - n ∧ (i : Int) - n < xs.length
  · rw [dif_pos h, opnd_in xs _ h.1 h.2]
  · rw [dif_neg h, opnd_out xs _ h]

theorem vdiff_eq_diffS (n : Int) (value : Option (Option Rat)) (xs : List (Option Rat)) :
    vdiff n value xs = diffS n (value.getD none) xs := vdiff_eq_spec n value xs

theorem vpct_eq_pctS (n : Int) (xs : List (Option Rat)) : vpctChange n xs = pctS n xs :=
  vpctChange_eq_spec n xs

/-! ## forward / backward fill

Stated for an arbitrary mask predicate (`ffill_mask` / `bfill_mask`); `ffill` / `bfill` are
the instances `mask = is_none`, spelled out in `ffill_get` / `bfill_get`. -/

/-- An unmasked element is passed through unchanged by forward and backward fill. -/
theorem fill_keeps_unmasked (mask : Option β → Bool) (value : Option (Option β))
    (xs : List (Option β)) (i : Nat) (hi : i < xs.length) (hm : mask xs[i] = false) :
    (ffillMask mask value xs)[i]? = some xs[i] ∧ (bfillMask mask value xs)[i]? = some xs[i] := by
  constructor
  · rw [List.getElem?_eq_getElem (by rw [ffillMask_length]; exact hi), ffillMask_getElem _ _ _ _ hi]
    simp [hm]
  · rw [List.getElem?_eq_getElem (by rw [bfillMask_length]; exact hi), bfillMask_getElem _ _ _ _ hi]
    simp [hm]

/-- Forward fill replaces a masked element by the NEAREST EARLIER unmasked element: if `j < i`
is unmasked and everything in `j+1 ..= i` is masked, output `i` is `x[j]`. -/
theorem ffill_get_nearest (mask : Option β → Bool) (value : Option (Option β))
    (xs : List (Option β)) (i j : Nat) (hi : i < xs.length) (hj : j < i)
    (hu : mask (xs[j]'(by omega)) = false)
    (hm : ∀ k (_ : j < k) (h2 : k ≤ i), mask (xs[k]'(by omega)) = true) :
    (ffillMask mask value xs)[i]? = some (xs[j]'(by omega)) := by
  rw [List.getElem?_eq_getElem (by rw [ffillMask_length]; exact hi), ffillMask_getElem _ _ _ _ hi]
  rw [if_pos (hm i hj (Nat.le_refl i))]
  rw [find?_reverse_take_eq (fun y => !mask y) xs i j hj (by omega) (by simp [hu])
        (fun k h1 h2 => by simp [hm k h1 (by omega)])]
  rfl

/-- Forward fill with no earlier unmasked element yields the supplied default (null if omitted). -/
theorem ffill_get_default (mask : Option β → Bool) (value : Option (Option β))
    (xs : List (Option β)) (i : Nat) (hi : i < xs.length)
    (hm : ∀ k (h : k ≤ i), mask (xs[k]'(by omega)) = true) :
    (ffillMask mask value xs)[i]? = some (value.getD none) := by
  rw [List.getElem?_eq_getElem (by rw [ffillMask_length]; exact hi), ffillMask_getElem _ _ _ _ hi]
  rw [if_pos (hm i (Nat.le_refl i))]
  rw [find?_reverse_take_none (fun y => !mask y) xs i (by omega)
        (fun k h => by simp [hm k (by omega)])]
  rfl

/-- Backward fill replaces a masked element by the NEAREST LATER unmasked element. -/
theorem bfill_get_nearest (mask : Option β → Bool) (value : Option (Option β))
    (xs : List (Option β)) (i j : Nat) (hij : i < j) (hj : j < xs.length)
    (hu : mask xs[j] = false)
    (hm : ∀ k (_ : i ≤ k) (h2 : k < j), mask (xs[k]'(by omega)) = true) :
    (bfillMask mask value xs)[i]? = some xs[j] := by
  have hi : i < xs.length := by omega
  rw [List.getElem?_eq_getElem (by rw [bfillMask_length]; exact hi), bfillMask_getElem _ _ _ _ hi]
  rw [if_pos (hm i (Nat.le_refl i) hij)]
  rw [find?_drop_eq (fun y => !mask y) xs i j hij hj (by simp [hu])
        (fun k h1 h2 => by simp [hm k (by omega) h2])]
  rfl

/-- Backward fill with no later unmasked element yields the supplied default (null if omitted). -/
theorem bfill_get_default (mask : Option β → Bool) (value : Option (Option β))
    (xs : List (Option β)) (i : Nat) (hi : i < xs.length)
    (hm : ∀ k (_ : i ≤ k) (h2 : k < xs.length), mask xs[k] = true) :
    (bfillMask mask value xs)[i]? = some (value.getD none) := by
  rw [List.getElem?_eq_getElem (by rw [bfillMask_length]; exact hi), bfillMask_getElem _ _ _ _ hi]
  rw [if_pos (hm i (Nat.le_refl i) hi)]
  rw [find?_drop_none (fun y => !mask y) xs i (fun k h1 h2 => by simp [hm k (by omega) h2])]
  rfl

/-- `ffill`: each null becomes the nearest earlier non-null element or else the default; every
non-null element is untouched (closed form with `find?` over the reversed prefix). -/
theorem ffill_get (value : Option (Option β)) (xs : List (Option β)) (i : Nat) (hi : i < xs.length) :
    (ffill value xs)[i]? =
      some (match xs[i] with
            | some q => some q
            | none => ((xs.take i).reverse.find? fun y => y.isSome).getD (value.getD none)) := by
  unfold ffill
  rw [List.getElem?_eq_getElem (by rw [ffillMask_length]; exact hi), ffillMask_getElem _ _ _ _ hi]
  rcases h : xs[i] with _ | q
  · simp only [Option.isNone_none, if_true]
    congr 3
    funext y
    cases y <;> rfl
  · simp

/-- `bfill`: each null becomes the nearest later non-null element or else the default. -/
theorem bfill_get (value : Option (Option β)) (xs : List (Option β)) (i : Nat) (hi : i < xs.length) :
    (bfill value xs)[i]? =
      some (match xs[i] with
            | some q => some q
            | none => ((xs.drop (i + 1)).find? fun y => y.isSome).getD (value.getD none)) := by
  unfold bfill
  rw [List.getElem?_eq_getElem (by rw [bfillMask_length]; exact hi), bfillMask_getElem _ _ _ _ hi]
  rcases h : xs[i] with _ | q
  · simp only [Option.isNone_none, if_true]
    congr 3
    funext y
    cases y <;> rfl
  · simp

theorem ffill_eq_ffillS (mask : Option β → Bool) (value : Option (Option β)) (xs : List (Option β)) :
    ffillMask mask value xs = ffillS mask (value.getD none) xs := ffillMask_eq_spec mask value xs

theorem bfill_eq_bfillS (mask : Option β → Bool) (value : Option (Option β)) (xs : List (Option β)) :
    bfillMask mask value xs = bfillS mask (value.getD none) xs := bfillMask_eq_spec mask value xs

/-! ## fill -/

/-- `fill_mask` acts on each element alone: masked → the value, unmasked → unchanged. -/
theorem fill_get (mask : α → Bool) (v : α) (xs : List α) (i : Nat) :
    (fillMask mask v xs)[i]? = xs[i]?.map fun x => if mask x then v else x := by
  simp [fillMask]

/-- `fill` touches only nulls: a non-null element is unchanged, a null becomes the value. -/
theorem fill_only_nulls (v : Option β) (xs : List (Option β)) (i : Nat) (hi : i < xs.length) :
    (∀ q, xs[i] = some q → (fill v xs)[i]? = some (some q)) ∧
    (xs[i] = none → (fill v xs)[i]? = some v) := by
  unfold fill
  rw [fill_get, List.getElem?_eq_getElem hi]
  constructor
  · intro q h; simp [h]
  · intro h; simp [h]

theorem fill_eq_fillS (mask : α → Bool) (v : α) (xs : List α) : fillMask mask v xs = fillS mask v xs := rfl

/-! ## clip -/

/-- `vclip` acts on each element alone, through one fixed function of the bounds, whichever
of the four dispatch branches is taken; nulls are mapped to null. -/
theorem clip_get (lo hi : Option Rat) (xs : List (Option Rat)) (i : Nat) :
    (vclip lo hi xs)[i]? = xs[i]?.map fun v => v.map (clip1 lo hi) := by
  rw [vclip_eq_clipS]; simp [clipS]

/-- `vclip` leaves nulls null and never produces a null from a number (any bounds, any order). -/
theorem clip_null (lo hi : Option Rat) (xs : List (Option Rat)) (i : Nat) :
    (vclip lo hi xs)[i]? = some none ↔ xs[i]? = some none := by
  rw [clip_get]
  rcases xs[i]? with _ | _ | x <;> simp

/-- The value of a clipped number for ordered bounds: the bound it violates, else itself. -/
theorem clip_value (lo hi : Option Rat) (hb : Ordered lo hi) (x : Rat) :
    (∀ l, lo = some l → x < l → clip1 lo hi x = l) ∧
    (∀ h, hi = some h → h < x → clip1 lo hi x = h) ∧
    ((∀ l, lo = some l → l ≤ x) → (∀ h, hi = some h → x ≤ h) → clip1 lo hi x = x) := by
  refine ⟨?_, ?_, clip1_inside lo hi x⟩
  · intro l hl hx; subst hl; exact clip1_below l hi x hb hx
  · intro h hh hx; subst hh; exact clip1_above lo h x hb hx

/-- Clipping with `lower ≤ upper` (or a null bound) is idempotent. -/
theorem clip_idem (lo hi : Option Rat) (hb : Ordered lo hi) (xs : List (Option Rat)) :
    vclip lo hi (vclip lo hi xs) = vclip lo hi xs := by
  simp only [vclip_eq_clipS, clipS, List.map_map]
  apply List.map_congr_left
  intro v _
  rcases v with _ | x
  · rfl
  · simp [clip1_idem lo hi x hb]

/-- With `lower ≤ upper` every non-null result lies inside the (present) bounds. -/
theorem clip_within (lo hi : Option Rat) (hb : Ordered lo hi) (xs : List (Option Rat)) (y : Rat)
    (hy : some y ∈ vclip lo hi xs) :
    (∀ l, lo = some l → l ≤ y) ∧ (∀ h, hi = some h → y ≤ h) := by
  rw [vclip_eq_clipS, clipS, List.mem_map] at hy
  obtain ⟨v, _, hv⟩ := hy
  rcases v with _ | x
  · simp at hv
  · simp only [Option.map_some, Option.some.injEq] at hv
    subst hv
    exact clip1_within lo hi x hb

theorem clip_eq_clipS (lo hi : Option Rat) (xs : List (Option Rat)) : vclip lo hi xs = clipS lo hi xs :=
  vclip_eq_clipS lo hi xs

/-! ## abs -/

/-- `abs` / `vabs` act on each element alone by `|·|`; `rabs q` is non-negative and equals `q`
or `-q` according to the sign of `q`. -/
theorem abs_get (xs : List (Option Rat)) (i : Nat) :
    (vabs xs)[i]? = xs[i]?.map (fun v => v.map rabs) ∧ (abs xs)[i]? = xs[i]?.map (fun v => v.map rabs) ∧
    ∀ q : Rat, 0 ≤ rabs q ∧ ((0 ≤ q ∧ rabs q = q) ∨ (q < 0 ∧ rabs q = -q)) := by
  refine ⟨by simp [vabs], by simp [abs], fun q => ⟨rabs_nonneg q, rabs_cases q⟩⟩

/-- `abs` and `vabs` leave nulls null (and produce no new null). -/
theorem abs_null (xs : List (Option Rat)) (i : Nat) :
    ((vabs xs)[i]? = some none ↔ xs[i]? = some none) ∧ ((abs xs)[i]? = some none ↔ xs[i]? = some none) := by
  rw [(abs_get xs i).1, (abs_get xs i).2.1]
  rcases xs[i]? with _ | _ | x <;> simp

theorem abs_eq_absS (xs : List (Option Rat)) : vabs xs = absS xs ∧ abs xs = absS xs := by
  have e : rabs = absq := funext rabs_eq_absq
  simp [vabs, abs, absS, e]

/-! ## extreme and zero lags -/

/-- **lag 0 is the identity** for `shift` / `vshift`, whatever the fill value -/
theorem shift_zero {α : Type} (v : α) (xs : List α) : shift 0 v xs = xs := by
  cases xs with
  | nil => simp [shift]
  | cons x xs => simp [shift]

theorem vshift_zero {β : Type} (value : Option (Option β)) (xs : List (Option β)) :
    vshift 0 value xs = xs := shift_zero _ xs

/-- **`abs` / `vabs` are idempotent** -/
theorem abs_idem (xs : List (Option Rat)) : vabs (vabs xs) = vabs xs ∧ abs (abs xs) = abs xs := by
  have h : ∀ q : Rat, rabs (rabs q) = rabs q := by
    intro q
    rcases rabs_cases (rabs q) with ⟨_, e⟩ | ⟨hlt, _⟩
    · exact e
    · exact absurd (rabs_nonneg q) (Rat.not_le.mpr hlt)
  constructor
  · simp only [vabs, List.map_map]
    apply List.map_congr_left
    intro v _
    cases v <;> simp [h]
  · simp only [abs, List.map_map]
    apply List.map_congr_left
    intro v _
    cases v <;> simp [h]

/-- **shifting there and back keeps the interior**: after a lag `n ≥ 0` and the opposite lag, every
position `i < len - n` holds its original element (the last `n` places hold the fill value) -/
theorem shift_back {α : Type} (n : Nat) (v w : α) (xs : List α) (i : Nat) (hi : i + n < xs.length) :
    (shift (-(n : Int)) w (shift (n : Int) v xs))[i]? = some xs[i] := by
  have hl := shift_len (n : Int) v xs
  rw [shift_get _ w _ i (by omega), dif_pos (by omega)]
  have e : (((i : Int) - -(n : Int))).toNat = i + n := by omega
  have h2 := shift_moves (n : Int) v xs i (by omega) (by omega) (by omega)
  have e2 : ((i : Int) + (n : Int)).toNat = i + n := by omega
  rw [e2] at h2
  simp only [e]
  rw [List.getElem?_eq_getElem (by omega)] at h2
  exact h2


/-- A lag at least as large as the length (in particular `i32::MIN` / `i32::MAX` on any series
shorter than 2^31) yields `len` copies of the fill value. -/
theorem shift_all_fill (n : Int) (v : α) (xs : List α) (h : xs.length ≤ n.natAbs) :
    shift n v xs = List.replicate xs.length v ∧
    ∀ value : Option (Option β), ∀ ys : List (Option β), ys.length ≤ n.natAbs →
      vshift n value ys = List.replicate ys.length (value.getD none) := by
  constructor
  · simp [shift, h]
  · intro value ys hy
    simp [vshift, hy]

/-- Lag 0: `vdiff` is `x[i] - x[i]`, i.e. 0 at non-null elements and null at nulls; `vpct_change`
is 0 at non-null non-zero elements and null at nulls and zeros. -/
theorem lag0 (value : Option (Option Rat)) (xs : List (Option Rat)) :
    vdiff 0 value xs = xs.map (fun x => x.map fun _ => (0 : Rat)) ∧
    vpctChange 0 xs = xs.map (fun x => x.bind fun q => if q = 0 then none else some (0 : Rat)) := by
  constructor
  · apply List.ext_getElem?
    intro i
    by_cases hi : i < xs.length
    · rw [vdiff_get 0 value xs i hi, dif_pos (by omega)]
      simp only [Int.sub_zero, Int.toNat_natCast, List.getElem?_map, List.getElem?_eq_getElem hi,
        Option.map_some]
      rcases xs[i] with _ | q
      · rfl
      · simp [osub]; grind
    · rw [List.getElem?_eq_none (by rw [vdiff_len]; omega), List.getElem?_eq_none (by simp; omega)]
  · apply List.ext_getElem?
    intro i
    by_cases hi : i < xs.length
    · rw [vpct_get 0 xs i hi, dif_pos (by omega)]
      simp only [Int.sub_zero, Int.toNat_natCast, List.getElem?_map, List.getElem?_eq_getElem hi,
        Option.map_some]
      rcases xs[i] with _ | q
      · rfl
      · by_cases hq : q = 0
        · simp [pct, hq]
        · simp [pct, hq]; grind
    · rw [List.getElem?_eq_none (by rw [vpct_len]; omega), List.getElem?_eq_none (by simp; omega)]

/-! ## the pinned tree violates the property (F12, F16, F17): concrete witnesses -/

/-- F12: pinned `MapBasic::shift(-3, 7)` on a 2-element input yields THREE items while its
`TrustIter` announces 2 (a heap overrun once collected by a trusted collector); `shift(3, 7)`
underflows `len - n_abs` (panic). The repaired model returns 2 items in both cases. -/
theorem shift_pinned_wrong :
    shiftPinned (-3) 7 [1, 2] = some ([7, 7, 7], 2) ∧ shiftPinned 3 7 [1, 2] = none ∧
    shift (-3) 7 [1, 2] = [7, 7] ∧ shift 3 7 [1, 2] = [7, 7] := by decide

/-- F16: pinned `vdiff(1, Some(7))` on `[1, 3]` puts `1 - 7 = -6` into the vacated slot instead of
the fill value 7. -/
theorem vdiff_pinned_wrong :
    vdiffPinned 1 (some (some 7)) [some 1, some 3] = [some (-6), some 2] ∧
    vdiff 1 (some (some 7)) [some 1, some 3] = [some 7, some 2] := by
  constructor
  · simp [vdiffPinned, osub]; grind
  · simp [vdiff, osub]; grind

/-- F17: pinned `vdiff(0)` / `vpct_change(0)` return 0 at a null element and at a zero base,
where `x[i] - x[i]` and `x[i] / x[i] - 1` are null. -/
theorem lag0_pinned_wrong :
    vdiffPinned 0 none [none, some 3] = [some 0, some 0] ∧
    vdiff 0 none [none, some 3] = [none, some 0] ∧
    vpctChangePinned 0 [none, some 0, some 3] = [some 0, some 0, some 0] ∧
    vpctChange 0 [none, some 0, some 3] = [none, none, some 0] := by
  refine ⟨by simp [vdiffPinned], ?_, by simp [vpctChangePinned], ?_⟩
  · simp [vdiff, osub]; grind
  · simp [vpctChange, pct]; grind

/-! ## non-vacuity: the statements above on concrete, non-trivial inputs -/

example : shift 2 0 [1, 2, 3, 4, 5] = [0, 0, 1, 2, 3] ∧ shift (-2) 0 [1, 2, 3, 4, 5] = [3, 4, 5, 0, 0] ∧
    shift (-2147483648) 0 [1, 2, 3] = [0, 0, 0] ∧ shift 2147483647 0 [1, 2, 3] = [0, 0, 0] := by decide

example : vshift 1 none [some 1, none, some 3] = [none, some 1, none] := by decide

example : ffill (some (some 9)) [none, some 1, none, none, some 2, none] =
    [some 9, some 1, some 1, some 1, some 2, some 2] := by decide

example : bfill none [none, some 1, none, none, some 2, none] =
    [some 1, some 1, some 2, some 2, some 2, none] := by decide

/-- the hypotheses of `ffill_get_nearest` are satisfiable: `j = 1`, `i = 3` on the series above -/
example : (ffill none [none, some 1, none, none, some 2, none])[3]? = some (some 1) :=
  ffill_get_nearest Option.isNone none [none, some 1, none, none, some 2, none] 3 1 (by decide) (by decide)
    (by decide) (by intro k h1 h2; have : k = 2 ∨ k = 3 := by omega
                    rcases this with rfl | rfl <;> rfl)

/-- ordered bounds exist, with and without a null bound -/
example : Ordered (some 0) (some 2) ∧ Ordered none (some 2) ∧ Ordered (some 0) none := by
  refine ⟨?_, ?_, ?_⟩ <;> intro l h hl hh <;> simp_all <;> grind

example : vclip (some 0) (some 2) [some (-1), none, some 1, some 5] = [some 0, none, some 1, some 2] := by
  simp [vclip]; grind

example : vdiff (-1) (some (some 7)) [some 1, none, some 4, some 6] = [none, none, some (-2), some 7] := by
  simp [vdiff, osub]; grind

end Tv.C13
