import Tv.GenClosures
import Tv.Lemmas.GenSim
import Tv.Thm.C01
import Tv.Thm.C02Gen
import Mathlib.Tactic.Ring
import Mathlib.Tactic.FieldSimp
import Mathlib.Tactic.NormNum
/-!
# C01 — the closures regenerated from features.rs are the model's closures

`Tv.Gen.<fn>.step` is written by translator/closures.py from the Rust source on every run.
For each of the 16 entry points of tea-rolling/src/features.rs this file proves that the
regenerated step function simulates the hand-written model closure (`*_sim`), that its
`min_periods` expression is the model's mask (`*_minPeriods`), and — composing with
`C01.tsFeat_exact` — that the regenerated closure, driven over the callback sequence of either
driver shape, produces the from-scratch statistic at every position (`*_exact`).
`Agree sqrt o t` reads the model's `root s q` token as `s * sqrt q`; the skew closed form is
rewritten under the root sign in the model, so its values are compared by the weak form `AgreeW`
(mask, zero branch and branch structure) and by the correspondence run.
-/
set_option linter.unusedSimpArgs false
set_option linter.unusedTactic false
set_option linter.unreachableTactic false
namespace Tv.C01Gen
open Tv Tv.GenSim

theorem eps_eq : Gen.EPS = EPS := by norm_num [Gen.EPS, EPS]
theorem eps_not_neg : ¬ (EPS < 0) := by norm_num [EPS]
theorem eps_not_neg' : ¬ (EPS < 0 - 0 * 0) := by norm_num [EPS]
theorem cast_pred (n : Nat) (h : 0 < n) : ((n - 1 : Nat) : Rat) = (n : Rat) - 1 := by
  rw [Nat.cast_sub h]; simp

/-- plain (`ts_*`) closures take the element itself; the model sees it as a non-null element -/
abbrev plainCalls (cs : List (Option Rat × Rat)) : List (Option (Option Rat) × Option Rat) :=
  cs.map fun c => (c.1.map some, some c.2)

/-! ### `ts_vsum` -/
def R_ts_vsum (g : Gen.ts_vsum.St) (m : Mom) : Prop := g.sum = m.s1 ∧ g.n = m.n
theorem ts_vsum_add (w mp : Nat) (g : Gen.ts_vsum.St) (m : Mom) (v : Option Rat) (h : R_ts_vsum g m) :
    R_ts_vsum (Gen.ts_vsum.add w g v) ((momRoll (emitSum mp)).add m v) := by
  obtain ⟨h0, h1⟩ := h
  cases v <;> simp [Gen.ts_vsum.add, momRoll, Mom.add, Mom.remove, R_ts_vsum, h0, h1, pow_two, pow_succ] <;> try ring
theorem ts_vsum_post (w mp : Nat) (g : Gen.ts_vsum.St) (m : Mom) (x : Option Rat) (h : R_ts_vsum g m) :
    R_ts_vsum (Gen.ts_vsum.post w g (some x)) ((momRoll (emitSum mp)).remove m x) := by
  obtain ⟨h0, h1⟩ := h
  cases x <;> simp [Gen.ts_vsum.post, momRoll, Mom.add, Mom.remove, R_ts_vsum, h0, h1, pow_two, pow_succ] <;> try ring
theorem ts_vsum_emit (sqrt : Rat → Rat) (w mp : Nat) (g : Gen.ts_vsum.St) (m : Mom) (v : Option Rat) (h : R_ts_vsum g m) :
    Agree sqrt (Gen.ts_vsum.emit sqrt w mp g v) ((momRoll (emitSum mp)).emit m) := by
  obtain ⟨h0, h1⟩ := h
  simp only [Gen.ts_vsum.emit, momRoll, emitSum, Mom.pvar, h0, h1, eps_eq, sq, decide_eq_true_eq, ge_iff_le, gt_iff_lt]
  split_ifs <;> first | rfl | trivial
theorem ts_vsum_step (sqrt : Rat → Rat) (w mp : Nat) (g : Gen.ts_vsum.St) (m : Mom) (rm : Option (Option Rat)) (v : Option Rat) (h : R_ts_vsum g m) :
    R_ts_vsum (Gen.ts_vsum.step sqrt w mp g rm v).1 ((momRoll (emitSum mp)).step m (rm.map id) (id v)).1 ∧
    (Agree sqrt) (Gen.ts_vsum.step sqrt w mp g rm v).2 ((momRoll (emitSum mp)).step m (rm.map id) (id v)).2 :=
  hstep_of_parts id (Gen.ts_vsum.step sqrt w mp) (Gen.ts_vsum.pre sqrt w mp) (Gen.ts_vsum.post w) (Gen.ts_vsum.add w)
    (Gen.ts_vsum.emit sqrt w mp) (momRoll (emitSum mp)) R_ts_vsum (Agree sqrt)
    (Gen.ts_vsum.step_eq sqrt w mp) (Gen.ts_vsum.pre_eq sqrt w mp) (ts_vsum_add w mp) (ts_vsum_post w mp) (fun _ => rfl)
    (ts_vsum_emit sqrt w mp) g m rm v h
theorem ts_vsum_minPeriods (w : Nat) (mp : Option Nat) : Gen.ts_vsum.minPeriods w mp = effMp mp w Feat.sum.minK := by
  simp [Gen.ts_vsum.minPeriods, effMp, Feat.minK]
theorem ts_vsum_init (w : Nat) : R_ts_vsum (Gen.ts_vsum.init w) Mom.zero := by
  simp [R_ts_vsum, Gen.ts_vsum.init, Mom.zero]
/-- the closure regenerated from the source of `ts_vsum`, driven over the callbacks of either driver
shape, yields the from-scratch statistic of the window at every position -/
theorem ts_vsum_exact (sqrt : Rat → Rat) (sh : Shape) (xs : List (Option Rat)) (w : Nat) (mp : Option Nat) (hw : 1 ≤ w) :
    List.Forall₂ (Agree sqrt)
      (genRun (Gen.ts_vsum.step sqrt w (Gen.ts_vsum.minPeriods w mp)) (Gen.ts_vsum.init w) (applyCalls sh xs w))
      ((List.range xs.length).map fun i => Spec.feat .sum w mp (vwin xs i w)) := by
  have h := run_sim id _ _ R_ts_vsum (Agree sqrt) (ts_vsum_step sqrt w (Gen.ts_vsum.minPeriods w mp)) (applyCalls sh xs w) _ _ (ts_vsum_init w)
  rw [ts_vsum_minPeriods, mapCalls_id] at h
  have e := C01.tsFeat_exact .sum sh xs w mp hw
  simp only [tsFeat] at e
  
  rw [ts_vsum_minPeriods, ← e]; exact h
/-- **from source, end to end**: replay the log of the regenerated driver (`rolling_apply_to`, resp. the
iterator body `rolling_apply`) on the series, run the regenerated closure over it: every position
carries the from-scratch statistic of its window -/
theorem ts_vsum_from_source (sqrt : Rat → Rat) (xs : List (Option Rat)) (w : Nat) (mp : Option Nat) (hw : 1 ≤ w) :
    (∃ log, GenDrv.rolling_apply_to.run xs.length w = some log ∧
      List.Forall₂ (Agree sqrt)
        (genRun (Gen.ts_vsum.step sqrt w (Gen.ts_vsum.minPeriods w mp)) (Gen.ts_vsum.init w) (C02Gen.callsOfLogTo xs log))
        ((List.range xs.length).map fun i => Spec.feat .sum w mp (vwin xs i w))) ∧
    (∃ log, GenDrv.rolling_apply.run xs.length w = some log ∧
      List.Forall₂ (Agree sqrt)
        (genRun (Gen.ts_vsum.step sqrt w (Gen.ts_vsum.minPeriods w mp)) (Gen.ts_vsum.init w) (C02Gen.callsOfLogIter xs log))
        ((List.range xs.length).map fun i => Spec.feat .sum w mp (vwin xs i w))) := by
  obtain ⟨l1, a1, b1⟩ := C02Gen.applyCalls_to_of_log xs w hw
  obtain ⟨l2, a2, b2⟩ := C02Gen.applyCalls_iter_of_log xs w hw
  exact ⟨⟨l1, a1, b1 ▸ ts_vsum_exact sqrt .to xs w mp hw⟩, ⟨l2, a2, b2 ▸ ts_vsum_exact sqrt .iter xs w mp hw⟩⟩

/-! ### `ts_vmean` -/
def R_ts_vmean (g : Gen.ts_vmean.St) (m : Mom) : Prop := g.sum = m.s1 ∧ g.n = m.n
theorem ts_vmean_add (w mp : Nat) (g : Gen.ts_vmean.St) (m : Mom) (v : Option Rat) (h : R_ts_vmean g m) :
    R_ts_vmean (Gen.ts_vmean.add w g v) ((momRoll (emitMean mp)).add m v) := by
  obtain ⟨h0, h1⟩ := h
  cases v <;> simp [Gen.ts_vmean.add, momRoll, Mom.add, Mom.remove, R_ts_vmean, h0, h1, pow_two, pow_succ] <;> try ring
theorem ts_vmean_post (w mp : Nat) (g : Gen.ts_vmean.St) (m : Mom) (x : Option Rat) (h : R_ts_vmean g m) :
    R_ts_vmean (Gen.ts_vmean.post w g (some x)) ((momRoll (emitMean mp)).remove m x) := by
  obtain ⟨h0, h1⟩ := h
  cases x <;> simp [Gen.ts_vmean.post, momRoll, Mom.add, Mom.remove, R_ts_vmean, h0, h1, pow_two, pow_succ] <;> try ring
theorem ts_vmean_emit (sqrt : Rat → Rat) (w mp : Nat) (g : Gen.ts_vmean.St) (m : Mom) (v : Option Rat) (h : R_ts_vmean g m) :
    Agree sqrt (Gen.ts_vmean.emit sqrt w mp g v) ((momRoll (emitMean mp)).emit m) := by
  obtain ⟨h0, h1⟩ := h
  simp only [Gen.ts_vmean.emit, momRoll, emitMean, Mom.pvar, h0, h1, eps_eq, sq, decide_eq_true_eq, ge_iff_le, gt_iff_lt]
  simp only [Out.div]
  split_ifs <;> first | rfl | trivial
theorem ts_vmean_step (sqrt : Rat → Rat) (w mp : Nat) (g : Gen.ts_vmean.St) (m : Mom) (rm : Option (Option Rat)) (v : Option Rat) (h : R_ts_vmean g m) :
    R_ts_vmean (Gen.ts_vmean.step sqrt w mp g rm v).1 ((momRoll (emitMean mp)).step m (rm.map id) (id v)).1 ∧
    (Agree sqrt) (Gen.ts_vmean.step sqrt w mp g rm v).2 ((momRoll (emitMean mp)).step m (rm.map id) (id v)).2 :=
  hstep_of_parts id (Gen.ts_vmean.step sqrt w mp) (Gen.ts_vmean.pre sqrt w mp) (Gen.ts_vmean.post w) (Gen.ts_vmean.add w)
    (Gen.ts_vmean.emit sqrt w mp) (momRoll (emitMean mp)) R_ts_vmean (Agree sqrt)
    (Gen.ts_vmean.step_eq sqrt w mp) (Gen.ts_vmean.pre_eq sqrt w mp) (ts_vmean_add w mp) (ts_vmean_post w mp) (fun _ => rfl)
    (ts_vmean_emit sqrt w mp) g m rm v h
theorem ts_vmean_minPeriods (w : Nat) (mp : Option Nat) : Gen.ts_vmean.minPeriods w mp = effMp mp w Feat.mean.minK := by
  simp [Gen.ts_vmean.minPeriods, effMp, Feat.minK]
theorem ts_vmean_init (w : Nat) : R_ts_vmean (Gen.ts_vmean.init w) Mom.zero := by
  simp [R_ts_vmean, Gen.ts_vmean.init, Mom.zero]
/-- the closure regenerated from the source of `ts_vmean`, driven over the callbacks of either driver
shape, yields the from-scratch statistic of the window at every position -/
theorem ts_vmean_exact (sqrt : Rat → Rat) (sh : Shape) (xs : List (Option Rat)) (w : Nat) (mp : Option Nat) (hw : 1 ≤ w) :
    List.Forall₂ (Agree sqrt)
      (genRun (Gen.ts_vmean.step sqrt w (Gen.ts_vmean.minPeriods w mp)) (Gen.ts_vmean.init w) (applyCalls sh xs w))
      ((List.range xs.length).map fun i => Spec.feat .mean w mp (vwin xs i w)) := by
  have h := run_sim id _ _ R_ts_vmean (Agree sqrt) (ts_vmean_step sqrt w (Gen.ts_vmean.minPeriods w mp)) (applyCalls sh xs w) _ _ (ts_vmean_init w)
  rw [ts_vmean_minPeriods, mapCalls_id] at h
  have e := C01.tsFeat_exact .mean sh xs w mp hw
  simp only [tsFeat] at e
  
  rw [ts_vmean_minPeriods, ← e]; exact h
/-- **from source, end to end**: replay the log of the regenerated driver (`rolling_apply_to`, resp. the
iterator body `rolling_apply`) on the series, run the regenerated closure over it: every position
carries the from-scratch statistic of its window -/
theorem ts_vmean_from_source (sqrt : Rat → Rat) (xs : List (Option Rat)) (w : Nat) (mp : Option Nat) (hw : 1 ≤ w) :
    (∃ log, GenDrv.rolling_apply_to.run xs.length w = some log ∧
      List.Forall₂ (Agree sqrt)
        (genRun (Gen.ts_vmean.step sqrt w (Gen.ts_vmean.minPeriods w mp)) (Gen.ts_vmean.init w) (C02Gen.callsOfLogTo xs log))
        ((List.range xs.length).map fun i => Spec.feat .mean w mp (vwin xs i w))) ∧
    (∃ log, GenDrv.rolling_apply.run xs.length w = some log ∧
      List.Forall₂ (Agree sqrt)
        (genRun (Gen.ts_vmean.step sqrt w (Gen.ts_vmean.minPeriods w mp)) (Gen.ts_vmean.init w) (C02Gen.callsOfLogIter xs log))
        ((List.range xs.length).map fun i => Spec.feat .mean w mp (vwin xs i w))) := by
  obtain ⟨l1, a1, b1⟩ := C02Gen.applyCalls_to_of_log xs w hw
  obtain ⟨l2, a2, b2⟩ := C02Gen.applyCalls_iter_of_log xs w hw
  exact ⟨⟨l1, a1, b1 ▸ ts_vmean_exact sqrt .to xs w mp hw⟩, ⟨l2, a2, b2 ▸ ts_vmean_exact sqrt .iter xs w mp hw⟩⟩

/-! ### `ts_vstd` -/
def R_ts_vstd (g : Gen.ts_vstd.St) (m : Mom) : Prop := g.sum = m.s1 ∧ g.sum2 = m.s2 ∧ g.n = m.n
theorem ts_vstd_add (w mp : Nat) (g : Gen.ts_vstd.St) (m : Mom) (v : Option Rat) (h : R_ts_vstd g m) :
    R_ts_vstd (Gen.ts_vstd.add w g v) ((momRoll (emitStd mp)).add m v) := by
  obtain ⟨h0, h1, h2⟩ := h
  cases v <;> simp [Gen.ts_vstd.add, momRoll, Mom.add, Mom.remove, R_ts_vstd, h0, h1, h2, pow_two, pow_succ] <;> try ring
theorem ts_vstd_post (w mp : Nat) (g : Gen.ts_vstd.St) (m : Mom) (x : Option Rat) (h : R_ts_vstd g m) :
    R_ts_vstd (Gen.ts_vstd.post w g (some x)) ((momRoll (emitStd mp)).remove m x) := by
  obtain ⟨h0, h1, h2⟩ := h
  cases x <;> simp [Gen.ts_vstd.post, momRoll, Mom.add, Mom.remove, R_ts_vstd, h0, h1, h2, pow_two, pow_succ] <;> try ring
theorem ts_vstd_emit (sqrt : Rat → Rat) (w mp : Nat) (g : Gen.ts_vstd.St) (m : Mom) (v : Option Rat) (h : R_ts_vstd g m) :
    Agree sqrt (Gen.ts_vstd.emit sqrt w mp g v) ((momRoll (emitStd mp)).emit m) := by
  obtain ⟨h0, h1, h2⟩ := h
  simp only [Gen.ts_vstd.emit, momRoll, emitStd, Mom.pvar, h0, h1, h2, eps_eq, sq, decide_eq_true_eq, ge_iff_le, gt_iff_lt]
  rcases Nat.eq_zero_or_pos m.n with h0 | hpos
  · simp only [h0, Nat.cast_zero, div_zero, mul_zero, sub_zero, eps_not_neg, if_false]
    split_ifs <;> first | rfl | trivial
  · rw [cast_pred _ hpos]
    split_ifs <;> first | rfl | trivial | (simp only [Agree, Int.cast_one, one_mul])
theorem ts_vstd_step (sqrt : Rat → Rat) (w mp : Nat) (g : Gen.ts_vstd.St) (m : Mom) (rm : Option (Option Rat)) (v : Option Rat) (h : R_ts_vstd g m) :
    R_ts_vstd (Gen.ts_vstd.step sqrt w mp g rm v).1 ((momRoll (emitStd mp)).step m (rm.map id) (id v)).1 ∧
    (Agree sqrt) (Gen.ts_vstd.step sqrt w mp g rm v).2 ((momRoll (emitStd mp)).step m (rm.map id) (id v)).2 :=
  hstep_of_parts id (Gen.ts_vstd.step sqrt w mp) (Gen.ts_vstd.pre sqrt w mp) (Gen.ts_vstd.post w) (Gen.ts_vstd.add w)
    (Gen.ts_vstd.emit sqrt w mp) (momRoll (emitStd mp)) R_ts_vstd (Agree sqrt)
    (Gen.ts_vstd.step_eq sqrt w mp) (Gen.ts_vstd.pre_eq sqrt w mp) (ts_vstd_add w mp) (ts_vstd_post w mp) (fun _ => rfl)
    (ts_vstd_emit sqrt w mp) g m rm v h
theorem ts_vstd_minPeriods (w : Nat) (mp : Option Nat) : Gen.ts_vstd.minPeriods w mp = effMp mp w Feat.std.minK := by
  simp [Gen.ts_vstd.minPeriods, effMp, Feat.minK]
theorem ts_vstd_init (w : Nat) : R_ts_vstd (Gen.ts_vstd.init w) Mom.zero := by
  simp [R_ts_vstd, Gen.ts_vstd.init, Mom.zero]
/-- the closure regenerated from the source of `ts_vstd`, driven over the callbacks of either driver
shape, yields the from-scratch statistic of the window at every position -/
theorem ts_vstd_exact (sqrt : Rat → Rat) (sh : Shape) (xs : List (Option Rat)) (w : Nat) (mp : Option Nat) (hw : 1 ≤ w) :
    List.Forall₂ (Agree sqrt)
      (genRun (Gen.ts_vstd.step sqrt w (Gen.ts_vstd.minPeriods w mp)) (Gen.ts_vstd.init w) (applyCalls sh xs w))
      ((List.range xs.length).map fun i => Spec.feat .std w mp (vwin xs i w)) := by
  have h := run_sim id _ _ R_ts_vstd (Agree sqrt) (ts_vstd_step sqrt w (Gen.ts_vstd.minPeriods w mp)) (applyCalls sh xs w) _ _ (ts_vstd_init w)
  rw [ts_vstd_minPeriods, mapCalls_id] at h
  have e := C01.tsFeat_exact .std sh xs w mp hw
  simp only [tsFeat] at e
  
  rw [ts_vstd_minPeriods, ← e]; exact h
/-- **from source, end to end**: replay the log of the regenerated driver (`rolling_apply_to`, resp. the
iterator body `rolling_apply`) on the series, run the regenerated closure over it: every position
carries the from-scratch statistic of its window -/
theorem ts_vstd_from_source (sqrt : Rat → Rat) (xs : List (Option Rat)) (w : Nat) (mp : Option Nat) (hw : 1 ≤ w) :
    (∃ log, GenDrv.rolling_apply_to.run xs.length w = some log ∧
      List.Forall₂ (Agree sqrt)
        (genRun (Gen.ts_vstd.step sqrt w (Gen.ts_vstd.minPeriods w mp)) (Gen.ts_vstd.init w) (C02Gen.callsOfLogTo xs log))
        ((List.range xs.length).map fun i => Spec.feat .std w mp (vwin xs i w))) ∧
    (∃ log, GenDrv.rolling_apply.run xs.length w = some log ∧
      List.Forall₂ (Agree sqrt)
        (genRun (Gen.ts_vstd.step sqrt w (Gen.ts_vstd.minPeriods w mp)) (Gen.ts_vstd.init w) (C02Gen.callsOfLogIter xs log))
        ((List.range xs.length).map fun i => Spec.feat .std w mp (vwin xs i w))) := by
  obtain ⟨l1, a1, b1⟩ := C02Gen.applyCalls_to_of_log xs w hw
  obtain ⟨l2, a2, b2⟩ := C02Gen.applyCalls_iter_of_log xs w hw
  exact ⟨⟨l1, a1, b1 ▸ ts_vstd_exact sqrt .to xs w mp hw⟩, ⟨l2, a2, b2 ▸ ts_vstd_exact sqrt .iter xs w mp hw⟩⟩

/-! ### `ts_vvar` -/
def R_ts_vvar (g : Gen.ts_vvar.St) (m : Mom) : Prop := g.sum = m.s1 ∧ g.sum2 = m.s2 ∧ g.n = m.n
theorem ts_vvar_add (w mp : Nat) (g : Gen.ts_vvar.St) (m : Mom) (v : Option Rat) (h : R_ts_vvar g m) :
    R_ts_vvar (Gen.ts_vvar.add w g v) ((momRoll (emitVar mp)).add m v) := by
  obtain ⟨h0, h1, h2⟩ := h
  cases v <;> simp [Gen.ts_vvar.add, momRoll, Mom.add, Mom.remove, R_ts_vvar, h0, h1, h2, pow_two, pow_succ] <;> try ring
theorem ts_vvar_post (w mp : Nat) (g : Gen.ts_vvar.St) (m : Mom) (x : Option Rat) (h : R_ts_vvar g m) :
    R_ts_vvar (Gen.ts_vvar.post w g (some x)) ((momRoll (emitVar mp)).remove m x) := by
  obtain ⟨h0, h1, h2⟩ := h
  cases x <;> simp [Gen.ts_vvar.post, momRoll, Mom.add, Mom.remove, R_ts_vvar, h0, h1, h2, pow_two, pow_succ] <;> try ring
theorem ts_vvar_emit (sqrt : Rat → Rat) (w mp : Nat) (g : Gen.ts_vvar.St) (m : Mom) (v : Option Rat) (h : R_ts_vvar g m) :
    Agree sqrt (Gen.ts_vvar.emit sqrt w mp g v) ((momRoll (emitVar mp)).emit m) := by
  obtain ⟨h0, h1, h2⟩ := h
  simp only [Gen.ts_vvar.emit, momRoll, emitVar, Mom.pvar, h0, h1, h2, eps_eq, sq, decide_eq_true_eq, ge_iff_le, gt_iff_lt]
  rcases Nat.eq_zero_or_pos m.n with h0 | hpos
  · simp only [h0, Nat.cast_zero, div_zero, mul_zero, sub_zero, eps_not_neg, if_false]
    split_ifs <;> first | rfl | trivial
  · rw [cast_pred _ hpos]
    simp only [Out.div]
    split_ifs <;> first | rfl | trivial
theorem ts_vvar_step (sqrt : Rat → Rat) (w mp : Nat) (g : Gen.ts_vvar.St) (m : Mom) (rm : Option (Option Rat)) (v : Option Rat) (h : R_ts_vvar g m) :
    R_ts_vvar (Gen.ts_vvar.step sqrt w mp g rm v).1 ((momRoll (emitVar mp)).step m (rm.map id) (id v)).1 ∧
    (Agree sqrt) (Gen.ts_vvar.step sqrt w mp g rm v).2 ((momRoll (emitVar mp)).step m (rm.map id) (id v)).2 :=
  hstep_of_parts id (Gen.ts_vvar.step sqrt w mp) (Gen.ts_vvar.pre sqrt w mp) (Gen.ts_vvar.post w) (Gen.ts_vvar.add w)
    (Gen.ts_vvar.emit sqrt w mp) (momRoll (emitVar mp)) R_ts_vvar (Agree sqrt)
    (Gen.ts_vvar.step_eq sqrt w mp) (Gen.ts_vvar.pre_eq sqrt w mp) (ts_vvar_add w mp) (ts_vvar_post w mp) (fun _ => rfl)
    (ts_vvar_emit sqrt w mp) g m rm v h
theorem ts_vvar_minPeriods (w : Nat) (mp : Option Nat) : Gen.ts_vvar.minPeriods w mp = effMp mp w Feat.var.minK := by
  simp [Gen.ts_vvar.minPeriods, effMp, Feat.minK]
theorem ts_vvar_init (w : Nat) : R_ts_vvar (Gen.ts_vvar.init w) Mom.zero := by
  simp [R_ts_vvar, Gen.ts_vvar.init, Mom.zero]
/-- the closure regenerated from the source of `ts_vvar`, driven over the callbacks of either driver
shape, yields the from-scratch statistic of the window at every position -/
theorem ts_vvar_exact (sqrt : Rat → Rat) (sh : Shape) (xs : List (Option Rat)) (w : Nat) (mp : Option Nat) (hw : 1 ≤ w) :
    List.Forall₂ (Agree sqrt)
      (genRun (Gen.ts_vvar.step sqrt w (Gen.ts_vvar.minPeriods w mp)) (Gen.ts_vvar.init w) (applyCalls sh xs w))
      ((List.range xs.length).map fun i => Spec.feat .var w mp (vwin xs i w)) := by
  have h := run_sim id _ _ R_ts_vvar (Agree sqrt) (ts_vvar_step sqrt w (Gen.ts_vvar.minPeriods w mp)) (applyCalls sh xs w) _ _ (ts_vvar_init w)
  rw [ts_vvar_minPeriods, mapCalls_id] at h
  have e := C01.tsFeat_exact .var sh xs w mp hw
  simp only [tsFeat] at e
  
  rw [ts_vvar_minPeriods, ← e]; exact h
/-- **from source, end to end**: replay the log of the regenerated driver (`rolling_apply_to`, resp. the
iterator body `rolling_apply`) on the series, run the regenerated closure over it: every position
carries the from-scratch statistic of its window -/
theorem ts_vvar_from_source (sqrt : Rat → Rat) (xs : List (Option Rat)) (w : Nat) (mp : Option Nat) (hw : 1 ≤ w) :
    (∃ log, GenDrv.rolling_apply_to.run xs.length w = some log ∧
      List.Forall₂ (Agree sqrt)
        (genRun (Gen.ts_vvar.step sqrt w (Gen.ts_vvar.minPeriods w mp)) (Gen.ts_vvar.init w) (C02Gen.callsOfLogTo xs log))
        ((List.range xs.length).map fun i => Spec.feat .var w mp (vwin xs i w))) ∧
    (∃ log, GenDrv.rolling_apply.run xs.length w = some log ∧
      List.Forall₂ (Agree sqrt)
        (genRun (Gen.ts_vvar.step sqrt w (Gen.ts_vvar.minPeriods w mp)) (Gen.ts_vvar.init w) (C02Gen.callsOfLogIter xs log))
        ((List.range xs.length).map fun i => Spec.feat .var w mp (vwin xs i w))) := by
  obtain ⟨l1, a1, b1⟩ := C02Gen.applyCalls_to_of_log xs w hw
  obtain ⟨l2, a2, b2⟩ := C02Gen.applyCalls_iter_of_log xs w hw
  exact ⟨⟨l1, a1, b1 ▸ ts_vvar_exact sqrt .to xs w mp hw⟩, ⟨l2, a2, b2 ▸ ts_vvar_exact sqrt .iter xs w mp hw⟩⟩

/-! ### `ts_vskew` -/
def R_ts_vskew (g : Gen.ts_vskew.St) (m : Mom) : Prop := g.sum = m.s1 ∧ g.sum2 = m.s2 ∧ g.sum3 = m.s3 ∧ g.n = m.n
theorem ts_vskew_add (w mp : Nat) (g : Gen.ts_vskew.St) (m : Mom) (v : Option Rat) (h : R_ts_vskew g m) :
    R_ts_vskew (Gen.ts_vskew.add w g v) ((momRoll (emitSkew mp)).add m v) := by
  obtain ⟨h0, h1, h2, h3⟩ := h
  cases v <;> simp [Gen.ts_vskew.add, momRoll, Mom.add, Mom.remove, R_ts_vskew, h0, h1, h2, h3, pow_two, pow_succ] <;> try ring
theorem ts_vskew_post (w mp : Nat) (g : Gen.ts_vskew.St) (m : Mom) (x : Option Rat) (h : R_ts_vskew g m) :
    R_ts_vskew (Gen.ts_vskew.post w g (some x)) ((momRoll (emitSkew mp)).remove m x) := by
  obtain ⟨h0, h1, h2, h3⟩ := h
  cases x <;> simp [Gen.ts_vskew.post, momRoll, Mom.add, Mom.remove, R_ts_vskew, h0, h1, h2, h3, pow_two, pow_succ] <;> try ring
theorem ts_vskew_emit (sqrt : Rat → Rat) (w mp : Nat) (g : Gen.ts_vskew.St) (m : Mom) (v : Option Rat) (h : R_ts_vskew g m) :
    AgreeW (Gen.ts_vskew.emit sqrt w mp g v) ((momRoll (emitSkew mp)).emit m) := by
  obtain ⟨h0, h1, h2, h3⟩ := h
  simp only [Gen.ts_vskew.emit, momRoll, emitSkew, Mom.pvar, h0, h1, h2, h3, eps_eq, sq, decide_eq_true_eq, ge_iff_le, gt_iff_lt]
  by_cases hm : mp ≤ m.n
  · simp only [hm, if_true]
    by_cases hv : m.s2 / ↑m.n - m.s1 / ↑m.n * (m.s1 / ↑m.n) ≤ EPS
    · simp only [hv, if_true]; rfl
    · simp only [hv, if_false]
      split_ifs <;> first | rfl | trivial
  · simp only [hm, if_false]; rfl
theorem ts_vskew_step (sqrt : Rat → Rat) (w mp : Nat) (g : Gen.ts_vskew.St) (m : Mom) (rm : Option (Option Rat)) (v : Option Rat) (h : R_ts_vskew g m) :
    R_ts_vskew (Gen.ts_vskew.step sqrt w mp g rm v).1 ((momRoll (emitSkew mp)).step m (rm.map id) (id v)).1 ∧
    AgreeW (Gen.ts_vskew.step sqrt w mp g rm v).2 ((momRoll (emitSkew mp)).step m (rm.map id) (id v)).2 :=
  hstep_of_parts id (Gen.ts_vskew.step sqrt w mp) (Gen.ts_vskew.pre sqrt w mp) (Gen.ts_vskew.post w) (Gen.ts_vskew.add w)
    (Gen.ts_vskew.emit sqrt w mp) (momRoll (emitSkew mp)) R_ts_vskew AgreeW
    (Gen.ts_vskew.step_eq sqrt w mp) (Gen.ts_vskew.pre_eq sqrt w mp) (ts_vskew_add w mp) (ts_vskew_post w mp) (fun _ => rfl)
    (ts_vskew_emit sqrt w mp) g m rm v h
theorem ts_vskew_minPeriods (w : Nat) (mp : Option Nat) : Gen.ts_vskew.minPeriods w mp = effMp mp w Feat.skew.minK := by
  simp [Gen.ts_vskew.minPeriods, effMp, Feat.minK]
theorem ts_vskew_init (w : Nat) : R_ts_vskew (Gen.ts_vskew.init w) Mom.zero := by
  simp [R_ts_vskew, Gen.ts_vskew.init, Mom.zero]
/-- the closure regenerated from the source of `ts_vskew`, driven over the callbacks of either driver
shape, yields the from-scratch statistic of the window at every position -/
theorem ts_vskew_exact (sqrt : Rat → Rat) (sh : Shape) (xs : List (Option Rat)) (w : Nat) (mp : Option Nat) (hw : 1 ≤ w) :
    List.Forall₂ AgreeW
      (genRun (Gen.ts_vskew.step sqrt w (Gen.ts_vskew.minPeriods w mp)) (Gen.ts_vskew.init w) (applyCalls sh xs w))
      ((List.range xs.length).map fun i => Spec.feat .skew w mp (vwin xs i w)) := by
  have h := run_sim id _ _ R_ts_vskew AgreeW (ts_vskew_step sqrt w (Gen.ts_vskew.minPeriods w mp)) (applyCalls sh xs w) _ _ (ts_vskew_init w)
  rw [ts_vskew_minPeriods, mapCalls_id] at h
  have e := C01.tsFeat_exact .skew sh xs w mp hw
  simp only [tsFeat] at e
  
  rw [ts_vskew_minPeriods, ← e]; exact h
/-- **from source, end to end**: replay the log of the regenerated driver (`rolling_apply_to`, resp. the
iterator body `rolling_apply`) on the series, run the regenerated closure over it: every position
carries the from-scratch statistic of its window -/
theorem ts_vskew_from_source (sqrt : Rat → Rat) (xs : List (Option Rat)) (w : Nat) (mp : Option Nat) (hw : 1 ≤ w) :
    (∃ log, GenDrv.rolling_apply_to.run xs.length w = some log ∧
      List.Forall₂ AgreeW
        (genRun (Gen.ts_vskew.step sqrt w (Gen.ts_vskew.minPeriods w mp)) (Gen.ts_vskew.init w) (C02Gen.callsOfLogTo xs log))
        ((List.range xs.length).map fun i => Spec.feat .skew w mp (vwin xs i w))) ∧
    (∃ log, GenDrv.rolling_apply.run xs.length w = some log ∧
      List.Forall₂ AgreeW
        (genRun (Gen.ts_vskew.step sqrt w (Gen.ts_vskew.minPeriods w mp)) (Gen.ts_vskew.init w) (C02Gen.callsOfLogIter xs log))
        ((List.range xs.length).map fun i => Spec.feat .skew w mp (vwin xs i w))) := by
  obtain ⟨l1, a1, b1⟩ := C02Gen.applyCalls_to_of_log xs w hw
  obtain ⟨l2, a2, b2⟩ := C02Gen.applyCalls_iter_of_log xs w hw
  exact ⟨⟨l1, a1, b1 ▸ ts_vskew_exact sqrt .to xs w mp hw⟩, ⟨l2, a2, b2 ▸ ts_vskew_exact sqrt .iter xs w mp hw⟩⟩

/-! ### `ts_vkurt` -/
def R_ts_vkurt (g : Gen.ts_vkurt.St) (m : Mom) : Prop := g.sum = m.s1 ∧ g.sum2 = m.s2 ∧ g.sum3 = m.s3 ∧ g.sum4 = m.s4 ∧ g.n = m.n
theorem ts_vkurt_add (w mp : Nat) (g : Gen.ts_vkurt.St) (m : Mom) (v : Option Rat) (h : R_ts_vkurt g m) :
    R_ts_vkurt (Gen.ts_vkurt.add w g v) ((momRoll (emitKurt mp)).add m v) := by
  obtain ⟨h0, h1, h2, h3, h4⟩ := h
  cases v <;> simp [Gen.ts_vkurt.add, momRoll, Mom.add, Mom.remove, R_ts_vkurt, h0, h1, h2, h3, h4, pow_two, pow_succ] <;> try ring
theorem ts_vkurt_post (w mp : Nat) (g : Gen.ts_vkurt.St) (m : Mom) (x : Option Rat) (h : R_ts_vkurt g m) :
    R_ts_vkurt (Gen.ts_vkurt.post w g (some x)) ((momRoll (emitKurt mp)).remove m x) := by
  obtain ⟨h0, h1, h2, h3, h4⟩ := h
  cases x <;> simp [Gen.ts_vkurt.post, momRoll, Mom.add, Mom.remove, R_ts_vkurt, h0, h1, h2, h3, h4, pow_two, pow_succ] <;> try ring
theorem ts_vkurt_emit (sqrt : Rat → Rat) (w mp : Nat) (g : Gen.ts_vkurt.St) (m : Mom) (v : Option Rat) (h : R_ts_vkurt g m) :
    Agree sqrt (Gen.ts_vkurt.emit sqrt w mp g v) ((momRoll (emitKurt mp)).emit m) := by
  obtain ⟨h0, h1, h2, h3, h4⟩ := h
  simp only [Gen.ts_vkurt.emit, momRoll, emitKurt, Mom.pvar, h0, h1, h2, h3, h4, eps_eq, sq, decide_eq_true_eq, ge_iff_le, gt_iff_lt]
  by_cases hm : mp ≤ m.n
  · simp only [hm, if_true]
    by_cases hv : m.s2 / ↑m.n - m.s1 / ↑m.n * (m.s1 / ↑m.n) ≤ EPS
    · simp only [hv, if_true]; rfl
    · simp only [hv, if_false]
      by_cases hd : ((m.n : Rat) - 2) * ((m.n : Rat) - 3) = 0
      · simp only [hd, if_true]; trivial
      · simp only [hd, if_false]
        have hn : 4 ≤ m.n ∨ m.n ≤ 1 := by
          by_contra hc
          push Not at hc
          have : m.n = 2 ∨ m.n = 3 := by omega
          rcases this with e | e <;> simp [e] at hd
        generalize m.n = n at *
        rcases hn with hn | hn
        · obtain ⟨k, rfl⟩ := Nat.exists_eq_add_of_le hn
          have e1 : 4 + k - 2 = k + 2 := by omega
          have e2 : 4 + k - 3 = k + 1 := by omega
          have e3 : 4 + k - 1 = k + 3 := by omega
          have e4 : (4 + k) * (4 + k) - 1 = k * k + 8 * k + 15 := by
            have : (4 + k) * (4 + k) = k * k + 8 * k + 16 := by ring
            omega
          simp only [e1, e2, e3, e4, Agree]
          congr 1
          push_cast
          ring
        · have : n = 0 ∨ n = 1 := by omega
          rcases this with rfl | rfl
          · exfalso; apply hv; norm_num [EPS]
          · simp [Agree]
  · simp only [hm, if_false]; rfl
theorem ts_vkurt_step (sqrt : Rat → Rat) (w mp : Nat) (g : Gen.ts_vkurt.St) (m : Mom) (rm : Option (Option Rat)) (v : Option Rat) (h : R_ts_vkurt g m) :
    R_ts_vkurt (Gen.ts_vkurt.step sqrt w mp g rm v).1 ((momRoll (emitKurt mp)).step m (rm.map id) (id v)).1 ∧
    (Agree sqrt) (Gen.ts_vkurt.step sqrt w mp g rm v).2 ((momRoll (emitKurt mp)).step m (rm.map id) (id v)).2 :=
  hstep_of_parts id (Gen.ts_vkurt.step sqrt w mp) (Gen.ts_vkurt.pre sqrt w mp) (Gen.ts_vkurt.post w) (Gen.ts_vkurt.add w)
    (Gen.ts_vkurt.emit sqrt w mp) (momRoll (emitKurt mp)) R_ts_vkurt (Agree sqrt)
    (Gen.ts_vkurt.step_eq sqrt w mp) (Gen.ts_vkurt.pre_eq sqrt w mp) (ts_vkurt_add w mp) (ts_vkurt_post w mp) (fun _ => rfl)
    (ts_vkurt_emit sqrt w mp) g m rm v h
theorem ts_vkurt_minPeriods (w : Nat) (mp : Option Nat) : Gen.ts_vkurt.minPeriods w mp = effMp mp w Feat.kurt.minK := by
  simp [Gen.ts_vkurt.minPeriods, effMp, Feat.minK]
theorem ts_vkurt_init (w : Nat) : R_ts_vkurt (Gen.ts_vkurt.init w) Mom.zero := by
  simp [R_ts_vkurt, Gen.ts_vkurt.init, Mom.zero]
/-- the closure regenerated from the source of `ts_vkurt`, driven over the callbacks of either driver
shape, yields the from-scratch statistic of the window at every position -/
theorem ts_vkurt_exact (sqrt : Rat → Rat) (sh : Shape) (xs : List (Option Rat)) (w : Nat) (mp : Option Nat) (hw : 1 ≤ w) :
    List.Forall₂ (Agree sqrt)
      (genRun (Gen.ts_vkurt.step sqrt w (Gen.ts_vkurt.minPeriods w mp)) (Gen.ts_vkurt.init w) (applyCalls sh xs w))
      ((List.range xs.length).map fun i => Spec.feat .kurt w mp (vwin xs i w)) := by
  have h := run_sim id _ _ R_ts_vkurt (Agree sqrt) (ts_vkurt_step sqrt w (Gen.ts_vkurt.minPeriods w mp)) (applyCalls sh xs w) _ _ (ts_vkurt_init w)
  rw [ts_vkurt_minPeriods, mapCalls_id] at h
  have e := C01.tsFeat_exact .kurt sh xs w mp hw
  simp only [tsFeat] at e
  
  rw [ts_vkurt_minPeriods, ← e]; exact h
/-- **from source, end to end**: replay the log of the regenerated driver (`rolling_apply_to`, resp. the
iterator body `rolling_apply`) on the series, run the regenerated closure over it: every position
carries the from-scratch statistic of its window -/
theorem ts_vkurt_from_source (sqrt : Rat → Rat) (xs : List (Option Rat)) (w : Nat) (mp : Option Nat) (hw : 1 ≤ w) :
    (∃ log, GenDrv.rolling_apply_to.run xs.length w = some log ∧
      List.Forall₂ (Agree sqrt)
        (genRun (Gen.ts_vkurt.step sqrt w (Gen.ts_vkurt.minPeriods w mp)) (Gen.ts_vkurt.init w) (C02Gen.callsOfLogTo xs log))
        ((List.range xs.length).map fun i => Spec.feat .kurt w mp (vwin xs i w))) ∧
    (∃ log, GenDrv.rolling_apply.run xs.length w = some log ∧
      List.Forall₂ (Agree sqrt)
        (genRun (Gen.ts_vkurt.step sqrt w (Gen.ts_vkurt.minPeriods w mp)) (Gen.ts_vkurt.init w) (C02Gen.callsOfLogIter xs log))
        ((List.range xs.length).map fun i => Spec.feat .kurt w mp (vwin xs i w))) := by
  obtain ⟨l1, a1, b1⟩ := C02Gen.applyCalls_to_of_log xs w hw
  obtain ⟨l2, a2, b2⟩ := C02Gen.applyCalls_iter_of_log xs w hw
  exact ⟨⟨l1, a1, b1 ▸ ts_vkurt_exact sqrt .to xs w mp hw⟩, ⟨l2, a2, b2 ▸ ts_vkurt_exact sqrt .iter xs w mp hw⟩⟩

/-! ### `ts_vewm` -/
def R_ts_vewm (g : Gen.ts_vewm.St) (m : Ewm) : Prop := g.n = m.n ∧ g.q_x = m.qx
theorem ts_vewm_add (w mp : Nat) (g : Gen.ts_vewm.St) (m : Ewm) (v : Option Rat) (h : R_ts_vewm g m) :
    R_ts_vewm (Gen.ts_vewm.add w g v) ((ewmRoll w mp).add m v) := by
  obtain ⟨h0, h1⟩ := h
  cases v <;> simp [Gen.ts_vewm.add, ewmRoll, R_ts_vewm, h0, h1, pow_two, pow_succ] <;> try ring
theorem ts_vewm_post (w mp : Nat) (g : Gen.ts_vewm.St) (m : Ewm) (x : Option Rat) (h : R_ts_vewm g m) :
    R_ts_vewm (Gen.ts_vewm.post w g (some x)) ((ewmRoll w mp).remove m x) := by
  obtain ⟨h0, h1⟩ := h
  cases x <;> simp [Gen.ts_vewm.post, ewmRoll, R_ts_vewm, h0, h1, pow_two, pow_succ] <;> try ring
theorem ts_vewm_emit (sqrt : Rat → Rat) (w mp : Nat) (g : Gen.ts_vewm.St) (m : Ewm) (v : Option Rat) (h : R_ts_vewm g m) :
    Agree sqrt (Gen.ts_vewm.emit sqrt w mp g v) ((ewmRoll w mp).emit m) := by
  obtain ⟨h0, h1⟩ := h
  simp only [Gen.ts_vewm.emit, ewmRoll, h0, h1, eps_eq, sq, decide_eq_true_eq, ge_iff_le, gt_iff_lt]
  simp only [Out.div]
  split_ifs <;> first | rfl | trivial
theorem ts_vewm_step (sqrt : Rat → Rat) (w mp : Nat) (g : Gen.ts_vewm.St) (m : Ewm) (rm : Option (Option Rat)) (v : Option Rat) (h : R_ts_vewm g m) :
    R_ts_vewm (Gen.ts_vewm.step sqrt w mp g rm v).1 ((ewmRoll w mp).step m (rm.map id) (id v)).1 ∧
    (Agree sqrt) (Gen.ts_vewm.step sqrt w mp g rm v).2 ((ewmRoll w mp).step m (rm.map id) (id v)).2 :=
  hstep_of_parts id (Gen.ts_vewm.step sqrt w mp) (Gen.ts_vewm.pre sqrt w mp) (Gen.ts_vewm.post w) (Gen.ts_vewm.add w)
    (Gen.ts_vewm.emit sqrt w mp) (ewmRoll w mp) R_ts_vewm (Agree sqrt)
    (Gen.ts_vewm.step_eq sqrt w mp) (Gen.ts_vewm.pre_eq sqrt w mp) (ts_vewm_add w mp) (ts_vewm_post w mp) (fun _ => rfl)
    (ts_vewm_emit sqrt w mp) g m rm v h
theorem ts_vewm_minPeriods (w : Nat) (mp : Option Nat) : Gen.ts_vewm.minPeriods w mp = effMp mp w Feat.ewm.minK := by
  simp [Gen.ts_vewm.minPeriods, effMp, Feat.minK]
theorem ts_vewm_init (w : Nat) : R_ts_vewm (Gen.ts_vewm.init w) (⟨0, 0⟩ : Ewm) := by
  simp [R_ts_vewm, Gen.ts_vewm.init, ewmRoll]
/-- the closure regenerated from the source of `ts_vewm`, driven over the callbacks of either driver
shape, yields the from-scratch statistic of the window at every position -/
theorem ts_vewm_exact (sqrt : Rat → Rat) (sh : Shape) (xs : List (Option Rat)) (w : Nat) (mp : Option Nat) (hw : 1 ≤ w) :
    List.Forall₂ (Agree sqrt)
      (genRun (Gen.ts_vewm.step sqrt w (Gen.ts_vewm.minPeriods w mp)) (Gen.ts_vewm.init w) (applyCalls sh xs w))
      ((List.range xs.length).map fun i => Spec.feat .ewm w mp (vwin xs i w)) := by
  have h := run_sim id _ _ R_ts_vewm (Agree sqrt) (ts_vewm_step sqrt w (Gen.ts_vewm.minPeriods w mp)) (applyCalls sh xs w) _ _ (ts_vewm_init w)
  rw [ts_vewm_minPeriods, mapCalls_id] at h
  have e := C01.tsFeat_exact .ewm sh xs w mp hw
  simp only [tsFeat] at e
  
  rw [ts_vewm_minPeriods, ← e]; exact h
/-- **from source, end to end**: replay the log of the regenerated driver (`rolling_apply_to`, resp. the
iterator body `rolling_apply`) on the series, run the regenerated closure over it: every position
carries the from-scratch statistic of its window -/
theorem ts_vewm_from_source (sqrt : Rat → Rat) (xs : List (Option Rat)) (w : Nat) (mp : Option Nat) (hw : 1 ≤ w) :
    (∃ log, GenDrv.rolling_apply_to.run xs.length w = some log ∧
      List.Forall₂ (Agree sqrt)
        (genRun (Gen.ts_vewm.step sqrt w (Gen.ts_vewm.minPeriods w mp)) (Gen.ts_vewm.init w) (C02Gen.callsOfLogTo xs log))
        ((List.range xs.length).map fun i => Spec.feat .ewm w mp (vwin xs i w))) ∧
    (∃ log, GenDrv.rolling_apply.run xs.length w = some log ∧
      List.Forall₂ (Agree sqrt)
        (genRun (Gen.ts_vewm.step sqrt w (Gen.ts_vewm.minPeriods w mp)) (Gen.ts_vewm.init w) (C02Gen.callsOfLogIter xs log))
        ((List.range xs.length).map fun i => Spec.feat .ewm w mp (vwin xs i w))) := by
  obtain ⟨l1, a1, b1⟩ := C02Gen.applyCalls_to_of_log xs w hw
  obtain ⟨l2, a2, b2⟩ := C02Gen.applyCalls_iter_of_log xs w hw
  exact ⟨⟨l1, a1, b1 ▸ ts_vewm_exact sqrt .to xs w mp hw⟩, ⟨l2, a2, b2 ▸ ts_vewm_exact sqrt .iter xs w mp hw⟩⟩

/-! ### `ts_vwma` -/
def R_ts_vwma (g : Gen.ts_vwma.St) (m : Wma) : Prop := g.n = m.n ∧ g.sum = m.sum ∧ g.sum_xt = m.sxt
theorem ts_vwma_add (w mp : Nat) (g : Gen.ts_vwma.St) (m : Wma) (v : Option Rat) (h : R_ts_vwma g m) :
    R_ts_vwma (Gen.ts_vwma.add w g v) ((wmaRoll mp).add m v) := by
  obtain ⟨h0, h1, h2⟩ := h
  cases v <;> simp [Gen.ts_vwma.add, wmaRoll, R_ts_vwma, h0, h1, h2, pow_two, pow_succ] <;> try ring
theorem ts_vwma_post (w mp : Nat) (g : Gen.ts_vwma.St) (m : Wma) (x : Option Rat) (h : R_ts_vwma g m) :
    R_ts_vwma (Gen.ts_vwma.post w g (some x)) ((wmaRoll mp).remove m x) := by
  obtain ⟨h0, h1, h2⟩ := h
  cases x <;> simp [Gen.ts_vwma.post, wmaRoll, R_ts_vwma, h0, h1, h2, pow_two, pow_succ] <;> try ring
theorem ts_vwma_emit (sqrt : Rat → Rat) (w mp : Nat) (g : Gen.ts_vwma.St) (m : Wma) (v : Option Rat) (h : R_ts_vwma g m) :
    Agree sqrt (Gen.ts_vwma.emit sqrt w mp g v) ((wmaRoll mp).emit m) := by
  obtain ⟨h0, h1, h2⟩ := h
  simp only [Gen.ts_vwma.emit, wmaRoll, h0, h1, h2, eps_eq, sq, decide_eq_true_eq, ge_iff_le, gt_iff_lt]
  simp only [Out.div, pow_one]
  split_ifs <;> first | rfl | trivial
theorem ts_vwma_step (sqrt : Rat → Rat) (w mp : Nat) (g : Gen.ts_vwma.St) (m : Wma) (rm : Option (Option Rat)) (v : Option Rat) (h : R_ts_vwma g m) :
    R_ts_vwma (Gen.ts_vwma.step sqrt w mp g rm v).1 ((wmaRoll mp).step m (rm.map id) (id v)).1 ∧
    (Agree sqrt) (Gen.ts_vwma.step sqrt w mp g rm v).2 ((wmaRoll mp).step m (rm.map id) (id v)).2 :=
  hstep_of_parts id (Gen.ts_vwma.step sqrt w mp) (Gen.ts_vwma.pre sqrt w mp) (Gen.ts_vwma.post w) (Gen.ts_vwma.add w)
    (Gen.ts_vwma.emit sqrt w mp) (wmaRoll mp) R_ts_vwma (Agree sqrt)
    (Gen.ts_vwma.step_eq sqrt w mp) (Gen.ts_vwma.pre_eq sqrt w mp) (ts_vwma_add w mp) (ts_vwma_post w mp) (fun _ => rfl)
    (ts_vwma_emit sqrt w mp) g m rm v h
theorem ts_vwma_minPeriods (w : Nat) (mp : Option Nat) : Gen.ts_vwma.minPeriods w mp = effMp mp w Feat.wma.minK := by
  simp [Gen.ts_vwma.minPeriods, effMp, Feat.minK]
theorem ts_vwma_init (w : Nat) : R_ts_vwma (Gen.ts_vwma.init w) (⟨0, 0, 0⟩ : Wma) := by
  simp [R_ts_vwma, Gen.ts_vwma.init, wmaRoll]
/-- the closure regenerated from the source of `ts_vwma`, driven over the callbacks of either driver
shape, yields the from-scratch statistic of the window at every position -/
theorem ts_vwma_exact (sqrt : Rat → Rat) (sh : Shape) (xs : List (Option Rat)) (w : Nat) (mp : Option Nat) (hw : 1 ≤ w) :
    List.Forall₂ (Agree sqrt)
      (genRun (Gen.ts_vwma.step sqrt w (Gen.ts_vwma.minPeriods w mp)) (Gen.ts_vwma.init w) (applyCalls sh xs w))
      ((List.range xs.length).map fun i => Spec.feat .wma w mp (vwin xs i w)) := by
  have h := run_sim id _ _ R_ts_vwma (Agree sqrt) (ts_vwma_step sqrt w (Gen.ts_vwma.minPeriods w mp)) (applyCalls sh xs w) _ _ (ts_vwma_init w)
  rw [ts_vwma_minPeriods, mapCalls_id] at h
  have e := C01.tsFeat_exact .wma sh xs w mp hw
  simp only [tsFeat] at e
  
  rw [ts_vwma_minPeriods, ← e]; exact h
/-- **from source, end to end**: replay the log of the regenerated driver (`rolling_apply_to`, resp. the
iterator body `rolling_apply`) on the series, run the regenerated closure over it: every position
carries the from-scratch statistic of its window -/
theorem ts_vwma_from_source (sqrt : Rat → Rat) (xs : List (Option Rat)) (w : Nat) (mp : Option Nat) (hw : 1 ≤ w) :
    (∃ log, GenDrv.rolling_apply_to.run xs.length w = some log ∧
      List.Forall₂ (Agree sqrt)
        (genRun (Gen.ts_vwma.step sqrt w (Gen.ts_vwma.minPeriods w mp)) (Gen.ts_vwma.init w) (C02Gen.callsOfLogTo xs log))
        ((List.range xs.length).map fun i => Spec.feat .wma w mp (vwin xs i w))) ∧
    (∃ log, GenDrv.rolling_apply.run xs.length w = some log ∧
      List.Forall₂ (Agree sqrt)
        (genRun (Gen.ts_vwma.step sqrt w (Gen.ts_vwma.minPeriods w mp)) (Gen.ts_vwma.init w) (C02Gen.callsOfLogIter xs log))
        ((List.range xs.length).map fun i => Spec.feat .wma w mp (vwin xs i w))) := by
  obtain ⟨l1, a1, b1⟩ := C02Gen.applyCalls_to_of_log xs w hw
  obtain ⟨l2, a2, b2⟩ := C02Gen.applyCalls_iter_of_log xs w hw
  exact ⟨⟨l1, a1, b1 ▸ ts_vwma_exact sqrt .to xs w mp hw⟩, ⟨l2, a2, b2 ▸ ts_vwma_exact sqrt .iter xs w mp hw⟩⟩

/-! ### `ts_sum` -/
def R_ts_sum (g : Gen.ts_sum.St) (m : Mom) : Prop := g.sum = m.s1 ∧ g.n = m.n
theorem ts_sum_add (w mp : Nat) (g : Gen.ts_sum.St) (m : Mom) (v : Rat) (h : R_ts_sum g m) :
    R_ts_sum (Gen.ts_sum.add w g v) ((momRoll (emitSum mp)).add m (some v)) := by
  obtain ⟨h0, h1⟩ := h
  simp [Gen.ts_sum.add, momRoll, Mom.add, Mom.remove, R_ts_sum, h0, h1, pow_two, pow_succ] <;> try ring
theorem ts_sum_post (w mp : Nat) (g : Gen.ts_sum.St) (m : Mom) (x : Rat) (h : R_ts_sum g m) :
    R_ts_sum (Gen.ts_sum.post w g (some x)) ((momRoll (emitSum mp)).remove m (some x)) := by
  obtain ⟨h0, h1⟩ := h
  simp [Gen.ts_sum.post, momRoll, Mom.add, Mom.remove, R_ts_sum, h0, h1, pow_two, pow_succ] <;> try ring
theorem ts_sum_emit (sqrt : Rat → Rat) (w mp : Nat) (g : Gen.ts_sum.St) (m : Mom) (v : Rat) (h : R_ts_sum g m) :
    Agree sqrt (Gen.ts_sum.emit sqrt w mp g v) ((momRoll (emitSum mp)).emit m) := by
  obtain ⟨h0, h1⟩ := h
  simp only [Gen.ts_sum.emit, momRoll, emitSum, Mom.pvar, h0, h1, eps_eq, sq, decide_eq_true_eq, ge_iff_le, gt_iff_lt]
  split_ifs <;> first | rfl | trivial
theorem ts_sum_step (sqrt : Rat → Rat) (w mp : Nat) (g : Gen.ts_sum.St) (m : Mom) (rm : Option (Rat)) (v : Rat) (h : R_ts_sum g m) :
    R_ts_sum (Gen.ts_sum.step sqrt w mp g rm v).1 ((momRoll (emitSum mp)).step m (rm.map some) (some v)).1 ∧
    (Agree sqrt) (Gen.ts_sum.step sqrt w mp g rm v).2 ((momRoll (emitSum mp)).step m (rm.map some) (some v)).2 :=
  hstep_of_parts some (Gen.ts_sum.step sqrt w mp) (Gen.ts_sum.pre sqrt w mp) (Gen.ts_sum.post w) (Gen.ts_sum.add w)
    (Gen.ts_sum.emit sqrt w mp) (momRoll (emitSum mp)) R_ts_sum (Agree sqrt)
    (Gen.ts_sum.step_eq sqrt w mp) (Gen.ts_sum.pre_eq sqrt w mp) (ts_sum_add w mp) (ts_sum_post w mp) (fun _ => rfl)
    (ts_sum_emit sqrt w mp) g m rm v h
theorem ts_sum_minPeriods (w : Nat) (mp : Option Nat) : Gen.ts_sum.minPeriods w mp = effMp mp w Feat.sum.minK := by
  simp [Gen.ts_sum.minPeriods, effMp, Feat.minK]
theorem ts_sum_init (w : Nat) : R_ts_sum (Gen.ts_sum.init w) Mom.zero := by
  simp [R_ts_sum, Gen.ts_sum.init, Mom.zero]
/-- the closure regenerated from the source of `ts_sum`, driven over the callbacks of either driver
shape, yields the from-scratch statistic of the window at every position -/
theorem ts_sum_exact (sqrt : Rat → Rat) (sh : Shape) (xs : List Rat) (w : Nat) (mp : Option Nat) (hw : 1 ≤ w) :
    List.Forall₂ (Agree sqrt)
      (genRun (Gen.ts_sum.step sqrt w (Gen.ts_sum.minPeriods w mp)) (Gen.ts_sum.init w) (applyCalls sh xs w))
      ((List.range xs.length).map fun i => Spec.feat .sum w mp (vwin (xs.map some) i w)) := by
  have h := run_sim some _ _ R_ts_sum (Agree sqrt) (ts_sum_step sqrt w (Gen.ts_sum.minPeriods w mp)) (applyCalls sh xs w) _ _ (ts_sum_init w)
  rw [ts_sum_minPeriods, ← applyCalls_map] at h
  have e := C01.tsFeat_exact .sum sh (xs.map some) w mp hw
  simp only [tsFeat] at e
  simp only [List.length_map] at e
  rw [ts_sum_minPeriods, ← e]; exact h
/-- **from source, end to end**: replay the log of the regenerated driver (`rolling_apply_to`, resp. the
iterator body `rolling_apply`) on the series, run the regenerated closure over it: every position
carries the from-scratch statistic of its window -/
theorem ts_sum_from_source (sqrt : Rat → Rat) (xs : List Rat) (w : Nat) (mp : Option Nat) (hw : 1 ≤ w) :
    (∃ log, GenDrv.rolling_apply_to.run xs.length w = some log ∧
      List.Forall₂ (Agree sqrt)
        (genRun (Gen.ts_sum.step sqrt w (Gen.ts_sum.minPeriods w mp)) (Gen.ts_sum.init w) (C02Gen.callsOfLogTo xs log))
        ((List.range xs.length).map fun i => Spec.feat .sum w mp (vwin (xs.map some) i w))) ∧
    (∃ log, GenDrv.rolling_apply.run xs.length w = some log ∧
      List.Forall₂ (Agree sqrt)
        (genRun (Gen.ts_sum.step sqrt w (Gen.ts_sum.minPeriods w mp)) (Gen.ts_sum.init w) (C02Gen.callsOfLogIter xs log))
        ((List.range xs.length).map fun i => Spec.feat .sum w mp (vwin (xs.map some) i w))) := by
  obtain ⟨l1, a1, b1⟩ := C02Gen.applyCalls_to_of_log xs w hw
  obtain ⟨l2, a2, b2⟩ := C02Gen.applyCalls_iter_of_log xs w hw
  exact ⟨⟨l1, a1, b1 ▸ ts_sum_exact sqrt .to xs w mp hw⟩, ⟨l2, a2, b2 ▸ ts_sum_exact sqrt .iter xs w mp hw⟩⟩

/-! ### `ts_mean` -/
def R_ts_mean (g : Gen.ts_mean.St) (m : Mom) : Prop := g.sum = m.s1 ∧ g.n = m.n
theorem ts_mean_add (w mp : Nat) (g : Gen.ts_mean.St) (m : Mom) (v : Rat) (h : R_ts_mean g m) :
    R_ts_mean (Gen.ts_mean.add w g v) ((momRoll (emitMean mp)).add m (some v)) := by
  obtain ⟨h0, h1⟩ := h
  simp [Gen.ts_mean.add, momRoll, Mom.add, Mom.remove, R_ts_mean, h0, h1, pow_two, pow_succ] <;> try ring
theorem ts_mean_post (w mp : Nat) (g : Gen.ts_mean.St) (m : Mom) (x : Rat) (h : R_ts_mean g m) :
    R_ts_mean (Gen.ts_mean.post w g (some x)) ((momRoll (emitMean mp)).remove m (some x)) := by
  obtain ⟨h0, h1⟩ := h
  simp [Gen.ts_mean.post, momRoll, Mom.add, Mom.remove, R_ts_mean, h0, h1, pow_two, pow_succ] <;> try ring
theorem ts_mean_emit (sqrt : Rat → Rat) (w mp : Nat) (g : Gen.ts_mean.St) (m : Mom) (v : Rat) (h : R_ts_mean g m) :
    Agree sqrt (Gen.ts_mean.emit sqrt w mp g v) ((momRoll (emitMean mp)).emit m) := by
  obtain ⟨h0, h1⟩ := h
  simp only [Gen.ts_mean.emit, momRoll, emitMean, Mom.pvar, h0, h1, eps_eq, sq, decide_eq_true_eq, ge_iff_le, gt_iff_lt]
  simp only [Out.div]
  split_ifs <;> first | rfl | trivial
theorem ts_mean_step (sqrt : Rat → Rat) (w mp : Nat) (g : Gen.ts_mean.St) (m : Mom) (rm : Option (Rat)) (v : Rat) (h : R_ts_mean g m) :
    R_ts_mean (Gen.ts_mean.step sqrt w mp g rm v).1 ((momRoll (emitMean mp)).step m (rm.map some) (some v)).1 ∧
    (Agree sqrt) (Gen.ts_mean.step sqrt w mp g rm v).2 ((momRoll (emitMean mp)).step m (rm.map some) (some v)).2 :=
  hstep_of_parts some (Gen.ts_mean.step sqrt w mp) (Gen.ts_mean.pre sqrt w mp) (Gen.ts_mean.post w) (Gen.ts_mean.add w)
    (Gen.ts_mean.emit sqrt w mp) (momRoll (emitMean mp)) R_ts_mean (Agree sqrt)
    (Gen.ts_mean.step_eq sqrt w mp) (Gen.ts_mean.pre_eq sqrt w mp) (ts_mean_add w mp) (ts_mean_post w mp) (fun _ => rfl)
    (ts_mean_emit sqrt w mp) g m rm v h
theorem ts_mean_minPeriods (w : Nat) (mp : Option Nat) : Gen.ts_mean.minPeriods w mp = effMp mp w Feat.mean.minK := by
  simp [Gen.ts_mean.minPeriods, effMp, Feat.minK]
theorem ts_mean_init (w : Nat) : R_ts_mean (Gen.ts_mean.init w) Mom.zero := by
  simp [R_ts_mean, Gen.ts_mean.init, Mom.zero]
/-- the closure regenerated from the source of `ts_mean`, driven over the callbacks of either driver
shape, yields the from-scratch statistic of the window at every position -/
theorem ts_mean_exact (sqrt : Rat → Rat) (sh : Shape) (xs : List Rat) (w : Nat) (mp : Option Nat) (hw : 1 ≤ w) :
    List.Forall₂ (Agree sqrt)
      (genRun (Gen.ts_mean.step sqrt w (Gen.ts_mean.minPeriods w mp)) (Gen.ts_mean.init w) (applyCalls sh xs w))
      ((List.range xs.length).map fun i => Spec.feat .mean w mp (vwin (xs.map some) i w)) := by
  have h := run_sim some _ _ R_ts_mean (Agree sqrt) (ts_mean_step sqrt w (Gen.ts_mean.minPeriods w mp)) (applyCalls sh xs w) _ _ (ts_mean_init w)
  rw [ts_mean_minPeriods, ← applyCalls_map] at h
  have e := C01.tsFeat_exact .mean sh (xs.map some) w mp hw
  simp only [tsFeat] at e
  simp only [List.length_map] at e
  rw [ts_mean_minPeriods, ← e]; exact h
/-- **from source, end to end**: replay the log of the regenerated driver (`rolling_apply_to`, resp. the
iterator body `rolling_apply`) on the series, run the regenerated closure over it: every position
carries the from-scratch statistic of its window -/
theorem ts_mean_from_source (sqrt : Rat → Rat) (xs : List Rat) (w : Nat) (mp : Option Nat) (hw : 1 ≤ w) :
    (∃ log, GenDrv.rolling_apply_to.run xs.length w = some log ∧
      List.Forall₂ (Agree sqrt)
        (genRun (Gen.ts_mean.step sqrt w (Gen.ts_mean.minPeriods w mp)) (Gen.ts_mean.init w) (C02Gen.callsOfLogTo xs log))
        ((List.range xs.length).map fun i => Spec.feat .mean w mp (vwin (xs.map some) i w))) ∧
    (∃ log, GenDrv.rolling_apply.run xs.length w = some log ∧
      List.Forall₂ (Agree sqrt)
        (genRun (Gen.ts_mean.step sqrt w (Gen.ts_mean.minPeriods w mp)) (Gen.ts_mean.init w) (C02Gen.callsOfLogIter xs log))
        ((List.range xs.length).map fun i => Spec.feat .mean w mp (vwin (xs.map some) i w))) := by
  obtain ⟨l1, a1, b1⟩ := C02Gen.applyCalls_to_of_log xs w hw
  obtain ⟨l2, a2, b2⟩ := C02Gen.applyCalls_iter_of_log xs w hw
  exact ⟨⟨l1, a1, b1 ▸ ts_mean_exact sqrt .to xs w mp hw⟩, ⟨l2, a2, b2 ▸ ts_mean_exact sqrt .iter xs w mp hw⟩⟩

/-! ### `ts_std` -/
def R_ts_std (g : Gen.ts_std.St) (m : Mom) : Prop := g.sum = m.s1 ∧ g.sum2 = m.s2 ∧ g.n = m.n
theorem ts_std_add (w mp : Nat) (g : Gen.ts_std.St) (m : Mom) (v : Rat) (h : R_ts_std g m) :
    R_ts_std (Gen.ts_std.add w g v) ((momRoll (emitStd mp)).add m (some v)) := by
  obtain ⟨h0, h1, h2⟩ := h
  simp [Gen.ts_std.add, momRoll, Mom.add, Mom.remove, R_ts_std, h0, h1, h2, pow_two, pow_succ] <;> try ring
theorem ts_std_post (w mp : Nat) (g : Gen.ts_std.St) (m : Mom) (x : Rat) (h : R_ts_std g m) :
    R_ts_std (Gen.ts_std.post w g (some x)) ((momRoll (emitStd mp)).remove m (some x)) := by
  obtain ⟨h0, h1, h2⟩ := h
  simp [Gen.ts_std.post, momRoll, Mom.add, Mom.remove, R_ts_std, h0, h1, h2, pow_two, pow_succ] <;> try ring
theorem ts_std_emit (sqrt : Rat → Rat) (w mp : Nat) (g : Gen.ts_std.St) (m : Mom) (v : Rat) (h : R_ts_std g m) :
    Agree sqrt (Gen.ts_std.emit sqrt w mp g v) ((momRoll (emitStd mp)).emit m) := by
  obtain ⟨h0, h1, h2⟩ := h
  simp only [Gen.ts_std.emit, momRoll, emitStd, Mom.pvar, h0, h1, h2, eps_eq, sq, decide_eq_true_eq, ge_iff_le, gt_iff_lt]
  rcases Nat.eq_zero_or_pos m.n with h0 | hpos
  · simp only [h0, Nat.cast_zero, div_zero, mul_zero, sub_zero, eps_not_neg, if_false]
    split_ifs <;> first | rfl | trivial
  · rw [cast_pred _ hpos]
    split_ifs <;> first | rfl | trivial | (simp only [Agree, Int.cast_one, one_mul])
theorem ts_std_step (sqrt : Rat → Rat) (w mp : Nat) (g : Gen.ts_std.St) (m : Mom) (rm : Option (Rat)) (v : Rat) (h : R_ts_std g m) :
    R_ts_std (Gen.ts_std.step sqrt w mp g rm v).1 ((momRoll (emitStd mp)).step m (rm.map some) (some v)).1 ∧
    (Agree sqrt) (Gen.ts_std.step sqrt w mp g rm v).2 ((momRoll (emitStd mp)).step m (rm.map some) (some v)).2 :=
  hstep_of_parts some (Gen.ts_std.step sqrt w mp) (Gen.ts_std.pre sqrt w mp) (Gen.ts_std.post w) (Gen.ts_std.add w)
    (Gen.ts_std.emit sqrt w mp) (momRoll (emitStd mp)) R_ts_std (Agree sqrt)
    (Gen.ts_std.step_eq sqrt w mp) (Gen.ts_std.pre_eq sqrt w mp) (ts_std_add w mp) (ts_std_post w mp) (fun _ => rfl)
    (ts_std_emit sqrt w mp) g m rm v h
theorem ts_std_minPeriods (w : Nat) (mp : Option Nat) : Gen.ts_std.minPeriods w mp = effMp mp w Feat.std.minK := by
  simp [Gen.ts_std.minPeriods, effMp, Feat.minK]
theorem ts_std_init (w : Nat) : R_ts_std (Gen.ts_std.init w) Mom.zero := by
  simp [R_ts_std, Gen.ts_std.init, Mom.zero]
/-- the closure regenerated from the source of `ts_std`, driven over the callbacks of either driver
shape, yields the from-scratch statistic of the window at every position -/
theorem ts_std_exact (sqrt : Rat → Rat) (sh : Shape) (xs : List Rat) (w : Nat) (mp : Option Nat) (hw : 1 ≤ w) :
    List.Forall₂ (Agree sqrt)
      (genRun (Gen.ts_std.step sqrt w (Gen.ts_std.minPeriods w mp)) (Gen.ts_std.init w) (applyCalls sh xs w))
      ((List.range xs.length).map fun i => Spec.feat .std w mp (vwin (xs.map some) i w)) := by
  have h := run_sim some _ _ R_ts_std (Agree sqrt) (ts_std_step sqrt w (Gen.ts_std.minPeriods w mp)) (applyCalls sh xs w) _ _ (ts_std_init w)
  rw [ts_std_minPeriods, ← applyCalls_map] at h
  have e := C01.tsFeat_exact .std sh (xs.map some) w mp hw
  simp only [tsFeat] at e
  simp only [List.length_map] at e
  rw [ts_std_minPeriods, ← e]; exact h
/-- **from source, end to end**: replay the log of the regenerated driver (`rolling_apply_to`, resp. the
iterator body `rolling_apply`) on the series, run the regenerated closure over it: every position
carries the from-scratch statistic of its window -/
theorem ts_std_from_source (sqrt : Rat → Rat) (xs : List Rat) (w : Nat) (mp : Option Nat) (hw : 1 ≤ w) :
    (∃ log, GenDrv.rolling_apply_to.run xs.length w = some log ∧
      List.Forall₂ (Agree sqrt)
        (genRun (Gen.ts_std.step sqrt w (Gen.ts_std.minPeriods w mp)) (Gen.ts_std.init w) (C02Gen.callsOfLogTo xs log))
        ((List.range xs.length).map fun i => Spec.feat .std w mp (vwin (xs.map some) i w))) ∧
    (∃ log, GenDrv.rolling_apply.run xs.length w = some log ∧
      List.Forall₂ (Agree sqrt)
        (genRun (Gen.ts_std.step sqrt w (Gen.ts_std.minPeriods w mp)) (Gen.ts_std.init w) (C02Gen.callsOfLogIter xs log))
        ((List.range xs.length).map fun i => Spec.feat .std w mp (vwin (xs.map some) i w))) := by
  obtain ⟨l1, a1, b1⟩ := C02Gen.applyCalls_to_of_log xs w hw
  obtain ⟨l2, a2, b2⟩ := C02Gen.applyCalls_iter_of_log xs w hw
  exact ⟨⟨l1, a1, b1 ▸ ts_std_exact sqrt .to xs w mp hw⟩, ⟨l2, a2, b2 ▸ ts_std_exact sqrt .iter xs w mp hw⟩⟩

/-! ### `ts_var` -/
def R_ts_var (g : Gen.ts_var.St) (m : Mom) : Prop := g.sum = m.s1 ∧ g.sum2 = m.s2 ∧ g.n = m.n
theorem ts_var_add (w mp : Nat) (g : Gen.ts_var.St) (m : Mom) (v : Rat) (h : R_ts_var g m) :
    R_ts_var (Gen.ts_var.add w g v) ((momRoll (emitVar mp)).add m (some v)) := by
  obtain ⟨h0, h1, h2⟩ := h
  simp [Gen.ts_var.add, momRoll, Mom.add, Mom.remove, R_ts_var, h0, h1, h2, pow_two, pow_succ] <;> try ring
theorem ts_var_post (w mp : Nat) (g : Gen.ts_var.St) (m : Mom) (x : Rat) (h : R_ts_var g m) :
    R_ts_var (Gen.ts_var.post w g (some x)) ((momRoll (emitVar mp)).remove m (some x)) := by
  obtain ⟨h0, h1, h2⟩ := h
  simp [Gen.ts_var.post, momRoll, Mom.add, Mom.remove, R_ts_var, h0, h1, h2, pow_two, pow_succ] <;> try ring
theorem ts_var_emit (sqrt : Rat → Rat) (w mp : Nat) (g : Gen.ts_var.St) (m : Mom) (v : Rat) (h : R_ts_var g m) :
    Agree sqrt (Gen.ts_var.emit sqrt w mp g v) ((momRoll (emitVar mp)).emit m) := by
  obtain ⟨h0, h1, h2⟩ := h
  simp only [Gen.ts_var.emit, momRoll, emitVar, Mom.pvar, h0, h1, h2, eps_eq, sq, decide_eq_true_eq, ge_iff_le, gt_iff_lt]
  rcases Nat.eq_zero_or_pos m.n with h0 | hpos
  · simp only [h0, Nat.cast_zero, div_zero, mul_zero, sub_zero, eps_not_neg, if_false]
    split_ifs <;> first | rfl | trivial
  · rw [cast_pred _ hpos]
    simp only [Out.div]
    split_ifs <;> first | rfl | trivial
theorem ts_var_step (sqrt : Rat → Rat) (w mp : Nat) (g : Gen.ts_var.St) (m : Mom) (rm : Option (Rat)) (v : Rat) (h : R_ts_var g m) :
    R_ts_var (Gen.ts_var.step sqrt w mp g rm v).1 ((momRoll (emitVar mp)).step m (rm.map some) (some v)).1 ∧
    (Agree sqrt) (Gen.ts_var.step sqrt w mp g rm v).2 ((momRoll (emitVar mp)).step m (rm.map some) (some v)).2 :=
  hstep_of_parts some (Gen.ts_var.step sqrt w mp) (Gen.ts_var.pre sqrt w mp) (Gen.ts_var.post w) (Gen.ts_var.add w)
    (Gen.ts_var.emit sqrt w mp) (momRoll (emitVar mp)) R_ts_var (Agree sqrt)
    (Gen.ts_var.step_eq sqrt w mp) (Gen.ts_var.pre_eq sqrt w mp) (ts_var_add w mp) (ts_var_post w mp) (fun _ => rfl)
    (ts_var_emit sqrt w mp) g m rm v h
theorem ts_var_minPeriods (w : Nat) (mp : Option Nat) : Gen.ts_var.minPeriods w mp = effMp mp w Feat.var.minK := by
  simp [Gen.ts_var.minPeriods, effMp, Feat.minK]
theorem ts_var_init (w : Nat) : R_ts_var (Gen.ts_var.init w) Mom.zero := by
  simp [R_ts_var, Gen.ts_var.init, Mom.zero]
/-- the closure regenerated from the source of `ts_var`, driven over the callbacks of either driver
shape, yields the from-scratch statistic of the window at every position -/
theorem ts_var_exact (sqrt : Rat → Rat) (sh : Shape) (xs : List Rat) (w : Nat) (mp : Option Nat) (hw : 1 ≤ w) :
    List.Forall₂ (Agree sqrt)
      (genRun (Gen.ts_var.step sqrt w (Gen.ts_var.minPeriods w mp)) (Gen.ts_var.init w) (applyCalls sh xs w))
      ((List.range xs.length).map fun i => Spec.feat .var w mp (vwin (xs.map some) i w)) := by
  have h := run_sim some _ _ R_ts_var (Agree sqrt) (ts_var_step sqrt w (Gen.ts_var.minPeriods w mp)) (applyCalls sh xs w) _ _ (ts_var_init w)
  rw [ts_var_minPeriods, ← applyCalls_map] at h
  have e := C01.tsFeat_exact .var sh (xs.map some) w mp hw
  simp only [tsFeat] at e
  simp only [List.length_map] at e
  rw [ts_var_minPeriods, ← e]; exact h
/-- **from source, end to end**: replay the log of the regenerated driver (`rolling_apply_to`, resp. the
iterator body `rolling_apply`) on the series, run the regenerated closure over it: every position
carries the from-scratch statistic of its window -/
theorem ts_var_from_source (sqrt : Rat → Rat) (xs : List Rat) (w : Nat) (mp : Option Nat) (hw : 1 ≤ w) :
    (∃ log, GenDrv.rolling_apply_to.run xs.length w = some log ∧
      List.Forall₂ (Agree sqrt)
        (genRun (Gen.ts_var.step sqrt w (Gen.ts_var.minPeriods w mp)) (Gen.ts_var.init w) (C02Gen.callsOfLogTo xs log))
        ((List.range xs.length).map fun i => Spec.feat .var w mp (vwin (xs.map some) i w))) ∧
    (∃ log, GenDrv.rolling_apply.run xs.length w = some log ∧
      List.Forall₂ (Agree sqrt)
        (genRun (Gen.ts_var.step sqrt w (Gen.ts_var.minPeriods w mp)) (Gen.ts_var.init w) (C02Gen.callsOfLogIter xs log))
        ((List.range xs.length).map fun i => Spec.feat .var w mp (vwin (xs.map some) i w))) := by
  obtain ⟨l1, a1, b1⟩ := C02Gen.applyCalls_to_of_log xs w hw
  obtain ⟨l2, a2, b2⟩ := C02Gen.applyCalls_iter_of_log xs w hw
  exact ⟨⟨l1, a1, b1 ▸ ts_var_exact sqrt .to xs w mp hw⟩, ⟨l2, a2, b2 ▸ ts_var_exact sqrt .iter xs w mp hw⟩⟩

/-! ### `ts_skew` -/
def R_ts_skew (g : Gen.ts_skew.St) (m : Mom) : Prop := g.sum = m.s1 ∧ g.sum2 = m.s2 ∧ g.sum3 = m.s3 ∧ g.n = m.n
theorem ts_skew_add (w mp : Nat) (g : Gen.ts_skew.St) (m : Mom) (v : Rat) (h : R_ts_skew g m) :
    R_ts_skew (Gen.ts_skew.add w g v) ((momRoll (emitSkew mp)).add m (some v)) := by
  obtain ⟨h0, h1, h2, h3⟩ := h
  simp [Gen.ts_skew.add, momRoll, Mom.add, Mom.remove, R_ts_skew, h0, h1, h2, h3, pow_two, pow_succ] <;> try ring
theorem ts_skew_post (w mp : Nat) (g : Gen.ts_skew.St) (m : Mom) (x : Rat) (h : R_ts_skew g m) :
    R_ts_skew (Gen.ts_skew.post w g (some x)) ((momRoll (emitSkew mp)).remove m (some x)) := by
  obtain ⟨h0, h1, h2, h3⟩ := h
  simp [Gen.ts_skew.post, momRoll, Mom.add, Mom.remove, R_ts_skew, h0, h1, h2, h3, pow_two, pow_succ] <;> try ring
theorem ts_skew_emit (sqrt : Rat → Rat) (w mp : Nat) (g : Gen.ts_skew.St) (m : Mom) (v : Rat) (h : R_ts_skew g m) :
    AgreeW (Gen.ts_skew.emit sqrt w mp g v) ((momRoll (emitSkew mp)).emit m) := by
  obtain ⟨h0, h1, h2, h3⟩ := h
  simp only [Gen.ts_skew.emit, momRoll, emitSkew, Mom.pvar, h0, h1, h2, h3, eps_eq, sq, decide_eq_true_eq, ge_iff_le, gt_iff_lt]
  by_cases hm : mp ≤ m.n
  · simp only [hm, if_true]
    by_cases hv : m.s2 / ↑m.n - m.s1 / ↑m.n * (m.s1 / ↑m.n) ≤ EPS
    · simp only [hv, if_true]; rfl
    · simp only [hv, if_false]
      split_ifs <;> first | rfl | trivial
  · simp only [hm, if_false]; rfl
theorem ts_skew_step (sqrt : Rat → Rat) (w mp : Nat) (g : Gen.ts_skew.St) (m : Mom) (rm : Option (Rat)) (v : Rat) (h : R_ts_skew g m) :
    R_ts_skew (Gen.ts_skew.step sqrt w mp g rm v).1 ((momRoll (emitSkew mp)).step m (rm.map some) (some v)).1 ∧
    AgreeW (Gen.ts_skew.step sqrt w mp g rm v).2 ((momRoll (emitSkew mp)).step m (rm.map some) (some v)).2 :=
  hstep_of_parts some (Gen.ts_skew.step sqrt w mp) (Gen.ts_skew.pre sqrt w mp) (Gen.ts_skew.post w) (Gen.ts_skew.add w)
    (Gen.ts_skew.emit sqrt w mp) (momRoll (emitSkew mp)) R_ts_skew AgreeW
    (Gen.ts_skew.step_eq sqrt w mp) (Gen.ts_skew.pre_eq sqrt w mp) (ts_skew_add w mp) (ts_skew_post w mp) (fun _ => rfl)
    (ts_skew_emit sqrt w mp) g m rm v h
theorem ts_skew_minPeriods (w : Nat) (mp : Option Nat) : Gen.ts_skew.minPeriods w mp = effMp mp w Feat.skew.minK := by
  simp [Gen.ts_skew.minPeriods, effMp, Feat.minK]
theorem ts_skew_init (w : Nat) : R_ts_skew (Gen.ts_skew.init w) Mom.zero := by
  simp [R_ts_skew, Gen.ts_skew.init, Mom.zero]
/-- the closure regenerated from the source of `ts_skew`, driven over the callbacks of either driver
shape, yields the from-scratch statistic of the window at every position -/
theorem ts_skew_exact (sqrt : Rat → Rat) (sh : Shape) (xs : List Rat) (w : Nat) (mp : Option Nat) (hw : 1 ≤ w) :
    List.Forall₂ AgreeW
      (genRun (Gen.ts_skew.step sqrt w (Gen.ts_skew.minPeriods w mp)) (Gen.ts_skew.init w) (applyCalls sh xs w))
      ((List.range xs.length).map fun i => Spec.feat .skew w mp (vwin (xs.map some) i w)) := by
  have h := run_sim some _ _ R_ts_skew AgreeW (ts_skew_step sqrt w (Gen.ts_skew.minPeriods w mp)) (applyCalls sh xs w) _ _ (ts_skew_init w)
  rw [ts_skew_minPeriods, ← applyCalls_map] at h
  have e := C01.tsFeat_exact .skew sh (xs.map some) w mp hw
  simp only [tsFeat] at e
  simp only [List.length_map] at e
  rw [ts_skew_minPeriods, ← e]; exact h
/-- **from source, end to end**: replay the log of the regenerated driver (`rolling_apply_to`, resp. the
iterator body `rolling_apply`) on the series, run the regenerated closure over it: every position
carries the from-scratch statistic of its window -/
theorem ts_skew_from_source (sqrt : Rat → Rat) (xs : List Rat) (w : Nat) (mp : Option Nat) (hw : 1 ≤ w) :
    (∃ log, GenDrv.rolling_apply_to.run xs.length w = some log ∧
      List.Forall₂ AgreeW
        (genRun (Gen.ts_skew.step sqrt w (Gen.ts_skew.minPeriods w mp)) (Gen.ts_skew.init w) (C02Gen.callsOfLogTo xs log))
        ((List.range xs.length).map fun i => Spec.feat .skew w mp (vwin (xs.map some) i w))) ∧
    (∃ log, GenDrv.rolling_apply.run xs.length w = some log ∧
      List.Forall₂ AgreeW
        (genRun (Gen.ts_skew.step sqrt w (Gen.ts_skew.minPeriods w mp)) (Gen.ts_skew.init w) (C02Gen.callsOfLogIter xs log))
        ((List.range xs.length).map fun i => Spec.feat .skew w mp (vwin (xs.map some) i w))) := by
  obtain ⟨l1, a1, b1⟩ := C02Gen.applyCalls_to_of_log xs w hw
  obtain ⟨l2, a2, b2⟩ := C02Gen.applyCalls_iter_of_log xs w hw
  exact ⟨⟨l1, a1, b1 ▸ ts_skew_exact sqrt .to xs w mp hw⟩, ⟨l2, a2, b2 ▸ ts_skew_exact sqrt .iter xs w mp hw⟩⟩

/-! ### `ts_kurt` -/
def R_ts_kurt (g : Gen.ts_kurt.St) (m : Mom) : Prop := g.sum = m.s1 ∧ g.sum2 = m.s2 ∧ g.sum3 = m.s3 ∧ g.sum4 = m.s4 ∧ g.n = m.n
theorem ts_kurt_add (w mp : Nat) (g : Gen.ts_kurt.St) (m : Mom) (v : Rat) (h : R_ts_kurt g m) :
    R_ts_kurt (Gen.ts_kurt.add w g v) ((momRoll (emitKurt mp)).add m (some v)) := by
  obtain ⟨h0, h1, h2, h3, h4⟩ := h
  simp [Gen.ts_kurt.add, momRoll, Mom.add, Mom.remove, R_ts_kurt, h0, h1, h2, h3, h4, pow_two, pow_succ] <;> try ring
theorem ts_kurt_post (w mp : Nat) (g : Gen.ts_kurt.St) (m : Mom) (x : Rat) (h : R_ts_kurt g m) :
    R_ts_kurt (Gen.ts_kurt.post w g (some x)) ((momRoll (emitKurt mp)).remove m (some x)) := by
  obtain ⟨h0, h1, h2, h3, h4⟩ := h
  simp [Gen.ts_kurt.post, momRoll, Mom.add, Mom.remove, R_ts_kurt, h0, h1, h2, h3, h4, pow_two, pow_succ] <;> try ring
theorem ts_kurt_emit (sqrt : Rat → Rat) (w mp : Nat) (g : Gen.ts_kurt.St) (m : Mom) (v : Rat) (h : R_ts_kurt g m) :
    Agree sqrt (Gen.ts_kurt.emit sqrt w mp g v) ((momRoll (emitKurt mp)).emit m) := by
  obtain ⟨h0, h1, h2, h3, h4⟩ := h
  simp only [Gen.ts_kurt.emit, momRoll, emitKurt, Mom.pvar, h0, h1, h2, h3, h4, eps_eq, sq, decide_eq_true_eq, ge_iff_le, gt_iff_lt]
  by_cases hm : mp ≤ m.n
  · simp only [hm, if_true]
    by_cases hv : m.s2 / ↑m.n - m.s1 / ↑m.n * (m.s1 / ↑m.n) ≤ EPS
    · simp only [hv, if_true]; rfl
    · simp only [hv, if_false]
      by_cases hd : ((m.n : Rat) - 2) * ((m.n : Rat) - 3) = 0
      · simp only [hd, if_true]; trivial
      · simp only [hd, if_false]
        have hn : 4 ≤ m.n ∨ m.n ≤ 1 := by
          by_contra hc
          push Not at hc
          have : m.n = 2 ∨ m.n = 3 := by omega
          rcases this with e | e <;> simp [e] at hd
        generalize m.n = n at *
        rcases hn with hn | hn
        · obtain ⟨k, rfl⟩ := Nat.exists_eq_add_of_le hn
          have e1 : 4 + k - 2 = k + 2 := by omega
          have e2 : 4 + k - 3 = k + 1 := by omega
          have e3 : 4 + k - 1 = k + 3 := by omega
          have e4 : (4 + k) * (4 + k) - 1 = k * k + 8 * k + 15 := by
            have : (4 + k) * (4 + k) = k * k + 8 * k + 16 := by ring
            omega
          simp only [e1, e2, e3, e4, Agree]
          congr 1
          push_cast
          ring
        · have : n = 0 ∨ n = 1 := by omega
          rcases this with rfl | rfl
          · exfalso; apply hv; norm_num [EPS]
          · simp [Agree]
  · simp only [hm, if_false]; rfl
theorem ts_kurt_step (sqrt : Rat → Rat) (w mp : Nat) (g : Gen.ts_kurt.St) (m : Mom) (rm : Option (Rat)) (v : Rat) (h : R_ts_kurt g m) :
    R_ts_kurt (Gen.ts_kurt.step sqrt w mp g rm v).1 ((momRoll (emitKurt mp)).step m (rm.map some) (some v)).1 ∧
    (Agree sqrt) (Gen.ts_kurt.step sqrt w mp g rm v).2 ((momRoll (emitKurt mp)).step m (rm.map some) (some v)).2 :=
  hstep_of_parts some (Gen.ts_kurt.step sqrt w mp) (Gen.ts_kurt.pre sqrt w mp) (Gen.ts_kurt.post w) (Gen.ts_kurt.add w)
    (Gen.ts_kurt.emit sqrt w mp) (momRoll (emitKurt mp)) R_ts_kurt (Agree sqrt)
    (Gen.ts_kurt.step_eq sqrt w mp) (Gen.ts_kurt.pre_eq sqrt w mp) (ts_kurt_add w mp) (ts_kurt_post w mp) (fun _ => rfl)
    (ts_kurt_emit sqrt w mp) g m rm v h
theorem ts_kurt_minPeriods (w : Nat) (mp : Option Nat) : Gen.ts_kurt.minPeriods w mp = effMp mp w Feat.kurt.minK := by
  simp [Gen.ts_kurt.minPeriods, effMp, Feat.minK]
theorem ts_kurt_init (w : Nat) : R_ts_kurt (Gen.ts_kurt.init w) Mom.zero := by
  simp [R_ts_kurt, Gen.ts_kurt.init, Mom.zero]
/-- the closure regenerated from the source of `ts_kurt`, driven over the callbacks of either driver
shape, yields the from-scratch statistic of the window at every position -/
theorem ts_kurt_exact (sqrt : Rat → Rat) (sh : Shape) (xs : List Rat) (w : Nat) (mp : Option Nat) (hw : 1 ≤ w) :
    List.Forall₂ (Agree sqrt)
      (genRun (Gen.ts_kurt.step sqrt w (Gen.ts_kurt.minPeriods w mp)) (Gen.ts_kurt.init w) (applyCalls sh xs w))
      ((List.range xs.length).map fun i => Spec.feat .kurt w mp (vwin (xs.map some) i w)) := by
  have h := run_sim some _ _ R_ts_kurt (Agree sqrt) (ts_kurt_step sqrt w (Gen.ts_kurt.minPeriods w mp)) (applyCalls sh xs w) _ _ (ts_kurt_init w)
  rw [ts_kurt_minPeriods, ← applyCalls_map] at h
  have e := C01.tsFeat_exact .kurt sh (xs.map some) w mp hw
  simp only [tsFeat] at e
  simp only [List.length_map] at e
  rw [ts_kurt_minPeriods, ← e]; exact h
/-- **from source, end to end**: replay the log of the regenerated driver (`rolling_apply_to`, resp. the
iterator body `rolling_apply`) on the series, run the regenerated closure over it: every position
carries the from-scratch statistic of its window -/
theorem ts_kurt_from_source (sqrt : Rat → Rat) (xs : List Rat) (w : Nat) (mp : Option Nat) (hw : 1 ≤ w) :
    (∃ log, GenDrv.rolling_apply_to.run xs.length w = some log ∧
      List.Forall₂ (Agree sqrt)
        (genRun (Gen.ts_kurt.step sqrt w (Gen.ts_kurt.minPeriods w mp)) (Gen.ts_kurt.init w) (C02Gen.callsOfLogTo xs log))
        ((List.range xs.length).map fun i => Spec.feat .kurt w mp (vwin (xs.map some) i w))) ∧
    (∃ log, GenDrv.rolling_apply.run xs.length w = some log ∧
      List.Forall₂ (Agree sqrt)
        (genRun (Gen.ts_kurt.step sqrt w (Gen.ts_kurt.minPeriods w mp)) (Gen.ts_kurt.init w) (C02Gen.callsOfLogIter xs log))
        ((List.range xs.length).map fun i => Spec.feat .kurt w mp (vwin (xs.map some) i w))) := by
  obtain ⟨l1, a1, b1⟩ := C02Gen.applyCalls_to_of_log xs w hw
  obtain ⟨l2, a2, b2⟩ := C02Gen.applyCalls_iter_of_log xs w hw
  exact ⟨⟨l1, a1, b1 ▸ ts_kurt_exact sqrt .to xs w mp hw⟩, ⟨l2, a2, b2 ▸ ts_kurt_exact sqrt .iter xs w mp hw⟩⟩

/-! ### `ts_ewm` -/
def R_ts_ewm (g : Gen.ts_ewm.St) (m : Ewm) : Prop := g.n = m.n ∧ g.q_x = m.qx
theorem ts_ewm_add (w mp : Nat) (g : Gen.ts_ewm.St) (m : Ewm) (v : Rat) (h : R_ts_ewm g m) :
    R_ts_ewm (Gen.ts_ewm.add w g v) ((ewmRoll w mp).add m (some v)) := by
  obtain ⟨h0, h1⟩ := h
  simp [Gen.ts_ewm.add, ewmRoll, R_ts_ewm, h0, h1, pow_two, pow_succ] <;> try ring
theorem ts_ewm_post (w mp : Nat) (g : Gen.ts_ewm.St) (m : Ewm) (x : Rat) (h : R_ts_ewm g m) :
    R_ts_ewm (Gen.ts_ewm.post w g (some x)) ((ewmRoll w mp).remove m (some x)) := by
  obtain ⟨h0, h1⟩ := h
  simp [Gen.ts_ewm.post, ewmRoll, R_ts_ewm, h0, h1, pow_two, pow_succ] <;> try ring
theorem ts_ewm_emit (sqrt : Rat → Rat) (w mp : Nat) (g : Gen.ts_ewm.St) (m : Ewm) (v : Rat) (h : R_ts_ewm g m) :
    Agree sqrt (Gen.ts_ewm.emit sqrt w mp g v) ((ewmRoll w mp).emit m) := by
  obtain ⟨h0, h1⟩ := h
  simp only [Gen.ts_ewm.emit, ewmRoll, h0, h1, eps_eq, sq, decide_eq_true_eq, ge_iff_le, gt_iff_lt]
  simp only [Out.div]
  split_ifs <;> first | rfl | trivial
theorem ts_ewm_step (sqrt : Rat → Rat) (w mp : Nat) (g : Gen.ts_ewm.St) (m : Ewm) (rm : Option (Rat)) (v : Rat) (h : R_ts_ewm g m) :
    R_ts_ewm (Gen.ts_ewm.step sqrt w mp g rm v).1 ((ewmRoll w mp).step m (rm.map some) (some v)).1 ∧
    (Agree sqrt) (Gen.ts_ewm.step sqrt w mp g rm v).2 ((ewmRoll w mp).step m (rm.map some) (some v)).2 :=
  hstep_of_parts some (Gen.ts_ewm.step sqrt w mp) (Gen.ts_ewm.pre sqrt w mp) (Gen.ts_ewm.post w) (Gen.ts_ewm.add w)
    (Gen.ts_ewm.emit sqrt w mp) (ewmRoll w mp) R_ts_ewm (Agree sqrt)
    (Gen.ts_ewm.step_eq sqrt w mp) (Gen.ts_ewm.pre_eq sqrt w mp) (ts_ewm_add w mp) (ts_ewm_post w mp) (fun _ => rfl)
    (ts_ewm_emit sqrt w mp) g m rm v h
theorem ts_ewm_minPeriods (w : Nat) (mp : Option Nat) : Gen.ts_ewm.minPeriods w mp = effMp mp w Feat.ewm.minK := by
  simp [Gen.ts_ewm.minPeriods, effMp, Feat.minK]
theorem ts_ewm_init (w : Nat) : R_ts_ewm (Gen.ts_ewm.init w) (⟨0, 0⟩ : Ewm) := by
  simp [R_ts_ewm, Gen.ts_ewm.init, ewmRoll]
/-- the closure regenerated from the source of `ts_ewm`, driven over the callbacks of either driver
shape, yields the from-scratch statistic of the window at every position -/
theorem ts_ewm_exact (sqrt : Rat → Rat) (sh : Shape) (xs : List Rat) (w : Nat) (mp : Option Nat) (hw : 1 ≤ w) :
    List.Forall₂ (Agree sqrt)
      (genRun (Gen.ts_ewm.step sqrt w (Gen.ts_ewm.minPeriods w mp)) (Gen.ts_ewm.init w) (applyCalls sh xs w))
      ((List.range xs.length).map fun i => Spec.feat .ewm w mp (vwin (xs.map some) i w)) := by
  have h := run_sim some _ _ R_ts_ewm (Agree sqrt) (ts_ewm_step sqrt w (Gen.ts_ewm.minPeriods w mp)) (applyCalls sh xs w) _ _ (ts_ewm_init w)
  rw [ts_ewm_minPeriods, ← applyCalls_map] at h
  have e := C01.tsFeat_exact .ewm sh (xs.map some) w mp hw
  simp only [tsFeat] at e
  simp only [List.length_map] at e
  rw [ts_ewm_minPeriods, ← e]; exact h
/-- **from source, end to end**: replay the log of the regenerated driver (`rolling_apply_to`, resp. the
iterator body `rolling_apply`) on the series, run the regenerated closure over it: every position
carries the from-scratch statistic of its window -/
theorem ts_ewm_from_source (sqrt : Rat → Rat) (xs : List Rat) (w : Nat) (mp : Option Nat) (hw : 1 ≤ w) :
    (∃ log, GenDrv.rolling_apply_to.run xs.length w = some log ∧
      List.Forall₂ (Agree sqrt)
        (genRun (Gen.ts_ewm.step sqrt w (Gen.ts_ewm.minPeriods w mp)) (Gen.ts_ewm.init w) (C02Gen.callsOfLogTo xs log))
        ((List.range xs.length).map fun i => Spec.feat .ewm w mp (vwin (xs.map some) i w))) ∧
    (∃ log, GenDrv.rolling_apply.run xs.length w = some log ∧
      List.Forall₂ (Agree sqrt)
        (genRun (Gen.ts_ewm.step sqrt w (Gen.ts_ewm.minPeriods w mp)) (Gen.ts_ewm.init w) (C02Gen.callsOfLogIter xs log))
        ((List.range xs.length).map fun i => Spec.feat .ewm w mp (vwin (xs.map some) i w))) := by
  obtain ⟨l1, a1, b1⟩ := C02Gen.applyCalls_to_of_log xs w hw
  obtain ⟨l2, a2, b2⟩ := C02Gen.applyCalls_iter_of_log xs w hw
  exact ⟨⟨l1, a1, b1 ▸ ts_ewm_exact sqrt .to xs w mp hw⟩, ⟨l2, a2, b2 ▸ ts_ewm_exact sqrt .iter xs w mp hw⟩⟩

/-! ### `ts_wma` -/
def R_ts_wma (g : Gen.ts_wma.St) (m : Wma) : Prop := g.n = m.n ∧ g.sum = m.sum ∧ g.sum_xt = m.sxt
theorem ts_wma_add (w mp : Nat) (g : Gen.ts_wma.St) (m : Wma) (v : Rat) (h : R_ts_wma g m) :
    R_ts_wma (Gen.ts_wma.add w g v) ((wmaRoll mp).add m (some v)) := by
  obtain ⟨h0, h1, h2⟩ := h
  simp [Gen.ts_wma.add, wmaRoll, R_ts_wma, h0, h1, h2, pow_two, pow_succ] <;> try ring
theorem ts_wma_post (w mp : Nat) (g : Gen.ts_wma.St) (m : Wma) (x : Rat) (h : R_ts_wma g m) :
    R_ts_wma (Gen.ts_wma.post w g (some x)) ((wmaRoll mp).remove m (some x)) := by
  obtain ⟨h0, h1, h2⟩ := h
  simp [Gen.ts_wma.post, wmaRoll, R_ts_wma, h0, h1, h2, pow_two, pow_succ] <;> try ring
theorem ts_wma_emit (sqrt : Rat → Rat) (w mp : Nat) (g : Gen.ts_wma.St) (m : Wma) (v : Rat) (h : R_ts_wma g m) :
    Agree sqrt (Gen.ts_wma.emit sqrt w mp g v) ((wmaRoll mp).emit m) := by
  obtain ⟨h0, h1, h2⟩ := h
  simp only [Gen.ts_wma.emit, wmaRoll, h0, h1, h2, eps_eq, sq, decide_eq_true_eq, ge_iff_le, gt_iff_lt]
  simp only [Out.div, pow_one]
  split_ifs <;> first | rfl | trivial
theorem ts_wma_step (sqrt : Rat → Rat) (w mp : Nat) (g : Gen.ts_wma.St) (m : Wma) (rm : Option (Rat)) (v : Rat) (h : R_ts_wma g m) :
    R_ts_wma (Gen.ts_wma.step sqrt w mp g rm v).1 ((wmaRoll mp).step m (rm.map some) (some v)).1 ∧
    (Agree sqrt) (Gen.ts_wma.step sqrt w mp g rm v).2 ((wmaRoll mp).step m (rm.map some) (some v)).2 :=
  hstep_of_parts some (Gen.ts_wma.step sqrt w mp) (Gen.ts_wma.pre sqrt w mp) (Gen.ts_wma.post w) (Gen.ts_wma.add w)
    (Gen.ts_wma.emit sqrt w mp) (wmaRoll mp) R_ts_wma (Agree sqrt)
    (Gen.ts_wma.step_eq sqrt w mp) (Gen.ts_wma.pre_eq sqrt w mp) (ts_wma_add w mp) (ts_wma_post w mp) (fun _ => rfl)
    (ts_wma_emit sqrt w mp) g m rm v h
theorem ts_wma_minPeriods (w : Nat) (mp : Option Nat) : Gen.ts_wma.minPeriods w mp = effMp mp w Feat.wma.minK := by
  simp [Gen.ts_wma.minPeriods, effMp, Feat.minK]
theorem ts_wma_init (w : Nat) : R_ts_wma (Gen.ts_wma.init w) (⟨0, 0, 0⟩ : Wma) := by
  simp [R_ts_wma, Gen.ts_wma.init, wmaRoll]
/-- the closure regenerated from the source of `ts_wma`, driven over the callbacks of either driver
shape, yields the from-scratch statistic of the window at every position -/
theorem ts_wma_exact (sqrt : Rat → Rat) (sh : Shape) (xs : List Rat) (w : Nat) (mp : Option Nat) (hw : 1 ≤ w) :
    List.Forall₂ (Agree sqrt)
      (genRun (Gen.ts_wma.step sqrt w (Gen.ts_wma.minPeriods w mp)) (Gen.ts_wma.init w) (applyCalls sh xs w))
      ((List.range xs.length).map fun i => Spec.feat .wma w mp (vwin (xs.map some) i w)) := by
  have h := run_sim some _ _ R_ts_wma (Agree sqrt) (ts_wma_step sqrt w (Gen.ts_wma.minPeriods w mp)) (applyCalls sh xs w) _ _ (ts_wma_init w)
  rw [ts_wma_minPeriods, ← applyCalls_map] at h
  have e := C01.tsFeat_exact .wma sh (xs.map some) w mp hw
  simp only [tsFeat] at e
  simp only [List.length_map] at e
  rw [ts_wma_minPeriods, ← e]; exact h
/-- **from source, end to end**: replay the log of the regenerated driver (`rolling_apply_to`, resp. the
iterator body `rolling_apply`) on the series, run the regenerated closure over it: every position
carries the from-scratch statistic of its window -/
theorem ts_wma_from_source (sqrt : Rat → Rat) (xs : List Rat) (w : Nat) (mp : Option Nat) (hw : 1 ≤ w) :
    (∃ log, GenDrv.rolling_apply_to.run xs.length w = some log ∧
      List.Forall₂ (Agree sqrt)
        (genRun (Gen.ts_wma.step sqrt w (Gen.ts_wma.minPeriods w mp)) (Gen.ts_wma.init w) (C02Gen.callsOfLogTo xs log))
        ((List.range xs.length).map fun i => Spec.feat .wma w mp (vwin (xs.map some) i w))) ∧
    (∃ log, GenDrv.rolling_apply.run xs.length w = some log ∧
      List.Forall₂ (Agree sqrt)
        (genRun (Gen.ts_wma.step sqrt w (Gen.ts_wma.minPeriods w mp)) (Gen.ts_wma.init w) (C02Gen.callsOfLogIter xs log))
        ((List.range xs.length).map fun i => Spec.feat .wma w mp (vwin (xs.map some) i w))) := by
  obtain ⟨l1, a1, b1⟩ := C02Gen.applyCalls_to_of_log xs w hw
  obtain ⟨l2, a2, b2⟩ := C02Gen.applyCalls_iter_of_log xs w hw
  exact ⟨⟨l1, a1, b1 ▸ ts_wma_exact sqrt .to xs w mp hw⟩, ⟨l2, a2, b2 ▸ ts_wma_exact sqrt .iter xs w mp hw⟩⟩

/-- all 16 entry points of features.rs were found and translated (a closure outside the translator's
subset is emitted without `step`, which breaks the theorems above; one that disappears breaks this) -/
theorem closures_present :
    ∀ n ∈ ["ts_vsum", "ts_vmean", "ts_vewm", "ts_vwma", "ts_vstd", "ts_vvar", "ts_vskew", "ts_vkurt",
           "ts_sum", "ts_mean", "ts_ewm", "ts_wma", "ts_std", "ts_var", "ts_skew", "ts_kurt"], n ∈ Gen.closures := by
  simp [Gen.closures]

end Tv.C01Gen
