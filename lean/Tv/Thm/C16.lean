import Tv.Lemmas.C16
import Tv.Lemmas.C16Cal
import Tv.Generated
/-!
# C16 — Not-a-Time is absorbing; unit changes agree with the calendar

Property theorems for the model `Tv/Model/C16Time.lean` of the *repaired* `tea-time` code
(`fix:` commits for F5 `into_unit` and F8 `Time ± TimeDelta`); the `…_pinned_wrong` theorems
exhibit the behaviour of the pinned tree on concrete witnesses.

Vocabulary: a `DateTime<U>` / `Time` is its raw `i64` (`InI64`), `NaT = -2^63`; a chrono
`DateTime<Utc>` is its instant in nanoseconds (`InCr` = chrono's range); `Res.panic` is a Rust
panic (overflow check, `unwrap`, `expect`). `floorTo a b x = ⌊x · ns(a) / ns(b)⌋` (Int `/` rounds
toward −∞ for the positive unit constants). Calendar-month shifts of chrono are an arbitrary
parameter `am` of the date-time operators: NaT absorption holds whatever they do.
Not proved here (DESIGN §6/C16 gaps): chrono's own Gregorian field extraction — the harness
compares the getters with the independent civil-date formulas of `Tv/Spec/C16Calendar.lean`.
-/
namespace Tv.C16

/-! ## the model is built from the tables in the source -/

def Op.render : Op → String × Int
  | .mul k => ("mul", k)
  | .divEuclid k => ("div_euclid", k)
  | .divTrunc k => ("tdiv", k)

/-- the match arms of `into_unit` extracted from convert.rs by the translator are exactly the arms
the model is built from (floor division, the six constants), and the NaT guard and the same-unit
shortcut are present -/
theorem unitTable_matches :
    Generated.unitTable = unitTable.map (fun e => (e.1.name, e.2.1.name, e.2.2.render.1, e.2.2.render.2))
    ∧ Generated.intoUnitNatGuard = true ∧ Generated.intoUnitSameUnitId = true := by decide

/-- every operator of impl_ops.rs guards exactly the operands the model guards (both operands for the
binary operators, `self` for negation and scaling) -/
theorem natGuards_matches :
    Generated.natGuards = [
      ("Add", "", "TimeDelta", "self&rhs"),
      ("Add", "TimeDelta", "DateTime<U>", "self&rhs"),
      ("Add", "TimeDelta", "Time", "self&rhs"),
      ("Mul", "i32", "TimeDelta", "self"),
      ("Neg", "", "TimeDelta", "self"),
      ("Sub", "", "TimeDelta", "self&rhs"),
      ("Sub", "DateTime<U>", "DateTime<U>", "self&rhs"),
      ("Sub", "TimeDelta", "DateTime<U>", "self&rhs"),
      ("Sub", "TimeDelta", "Time", "self&rhs")] := by decide

/-! ## NaT is preserved by every conversion -/

/-- converting a NaT date-time to any unit gives NaT (all 4×4 pairs) -/
theorem intoUnit_nat (a b : U) : intoUnit a b NaT = .ok NaT := by
  cases a <;> cases b <;> decide

/-- the same through `Cast<DateTime<_>>` -/
theorem castUnit_nat (a b : U) : castUnit a b NaT = .ok NaT := by
  cases a <;> cases b <;> decide

/-- `into_opt_i64` / `Cast<Option<i64>>` of NaT is `None`, and of nothing else -/
theorem nat_optI64 (x : Int) : intoOptI64 x = none ↔ x = NaT := by
  unfold intoOptI64 isNat
  by_cases h : x = NaT <;> simp [h]

theorem optI64_valid (x : Int) (hx : x ≠ NaT) : intoOptI64 x = some x := by
  simp [intoOptI64, isNat, hx]

/-- `from_opt_i64 ∘ into_opt_i64` is the identity (NaT ↦ None ↦ NaT) -/
theorem fromOpt_intoOpt (x : Int) : fromOptI64 (intoOptI64 x) = x := by
  unfold intoOptI64 isNat
  by_cases h : x = NaT <;> simp [h, fromOptI64]

/-- `as_cr` of NaT is `None` for every unit -/
theorem nat_asCr (u : U) : asCr u NaT = none := by
  simp [asCr, isNat]

/-- the calendar fields (`year` … `second` are `as_cr().map(..)`) of NaT are all `None` -/
theorem nat_fields (u : U) (f : Int → α) : (asCr u NaT).map f = none := by
  simp [nat_asCr]

/-- `From<Option<NaiveDateTime>>` of `None` is NaT -/
theorem fromOptCr_none (u : U) : fromOptCr u none = .ok NaT := rfl

/-! ## unit conversion of valid date-times -/

/-- **same instant, truncated toward the past**: on every valid `x`, `into_unit` returns
`⌊x·ns(a)/ns(b)⌋` whenever that number is an `i64` (also for negative, pre-1970 `x` not divisible
by the ratio) -/
theorem intoUnit_floor (a b : U) (x : Int) (hx : x ≠ NaT) (hr : InI64 x)
    (hfit : InI64 (floorTo a b x)) : intoUnit a b x = .ok (floorTo a b x) := by
  rw [intoUnit_closed a b x hx hr, if_pos hfit]

/-- … and it panics (debug overflow check) exactly when the floor does not fit; it never returns a
wrong value -/
theorem intoUnit_overflow (a b : U) (x : Int) (hx : x ≠ NaT) (hr : InI64 x)
    (hfit : ¬ InI64 (floorTo a b x)) : intoUnit a b x = .panic := by
  rw [intoUnit_closed a b x hx hr, if_neg hfit]

/-- converting to a coarser or equal unit never overflows -/
theorem intoUnit_coarser_total (a b : U) (x : Int) (hx : x ≠ NaT) (hr : InI64 x)
    (h : a.mult ≤ b.mult) : intoUnit a b x = .ok (floorTo a b x) := by
  apply intoUnit_floor a b x hx hr
  unfold floorTo
  cases a <;> cases b <;> simp only [U.mult, InI64, i64Min, i64Max, NaT] at * <;> omega

/-- `Cast<DateTime<b>>` is `into_unit` -/
theorem castUnit_eq (a b : U) (x : Int) : castUnit a b x = intoUnit a b x := by
  unfold castUnit intoUnit
  split <;> rfl

/-- a valid date-time stays valid: the result is an `i64` and never the NaT sentinel -/
theorem intoUnit_valid (a b : U) (x y : Int) (hx : x ≠ NaT) (hr : InI64 x)
    (h : intoUnit a b x = .ok y) : y ≠ NaT ∧ InI64 y := by
  rw [intoUnit_closed a b x hx hr] at h
  split at h
  · next hf =>
    injection h with h
    subst h
    exact ⟨floorTo_ne_nat a b x hx hr, hf⟩
  · cases h

/-- converting to the unit a value already has changes nothing (also for NaT) -/
theorem intoUnit_same (a : U) (x : Int) : intoUnit a a x = .ok x := by
  simp [intoUnit]

/-- **coarsening composes**: going `a → b → c` through ever coarser units gives the same value as
going `a → c` directly (the floor of a floor is the floor), for every valid `x`, negative or not -/
theorem intoUnit_coarser_compose (a b c : U) (x : Int) (hx : x ≠ NaT) (hr : InI64 x)
    (h1 : a.mult ≤ b.mult) (h2 : b.mult ≤ c.mult) :
    ∃ y, intoUnit a b x = .ok y ∧ intoUnit b c y = intoUnit a c x := by
  have e1 := intoUnit_coarser_total a b x hx hr h1
  obtain ⟨hy, hry⟩ := intoUnit_valid a b x _ hx hr e1
  refine ⟨floorTo a b x, e1, ?_⟩
  rw [intoUnit_coarser_total b c _ hy hry h2,
    intoUnit_coarser_total a c x hx hr (Int.le_trans h1 h2)]
  congr 1
  unfold floorTo
  cases a <;> cases b <;> cases c <;> simp only [U.mult] at * <;> omega

/-- **bracketing**: the result denotes the unit interval containing the instant of `x`:
`ns(b)·y ≤ ns(a)·x < ns(b)·(y+1)` -/
theorem same_instant (a b : U) (x y : Int) (hx : x ≠ NaT) (hr : InI64 x)
    (h : intoUnit a b x = .ok y) :
    b.mult * y ≤ a.mult * x ∧ a.mult * x < b.mult * (y + 1) := by
  rw [intoUnit_closed a b x hx hr] at h
  split at h
  · injection h with h
    subst h
    exact floorTo_bracket a b x
  · cases h

/-- the bracket determines the result: any `y` in it is the value returned -/
theorem same_instant_unique (a b : U) (x y z : Int)
    (hy : b.mult * y ≤ a.mult * x ∧ a.mult * x < b.mult * (y + 1))
    (hz : b.mult * z ≤ a.mult * x ∧ a.mult * x < b.mult * (z + 1)) : y = z := by
  cases a <;> cases b <;> simp only [U.mult] at * <;> omega

/-- **finer and back is the identity**: if `b` is at least as fine as `a` and the conversion
succeeds, converting the result back gives `x` again -/
theorem finer_then_back (a b : U) (x y : Int) (hx : x ≠ NaT) (hr : InI64 x)
    (hfiner : b.mult ≤ a.mult) (h : intoUnit a b x = .ok y) : intoUnit b a y = .ok x := by
  have hv := intoUnit_valid a b x y hx hr h
  rw [intoUnit_closed a b x hx hr] at h
  split at h
  · injection h with h
    subst h
    rw [intoUnit_closed b a _ hv.1 hv.2, floorTo_back a b x hfiner, if_pos hr]
  · cases h

/-- conversion preserves the order of instants -/
theorem intoUnit_mono (a b : U) (x x' y y' : Int) (hx : x ≠ NaT) (hr : InI64 x)
    (hx' : x' ≠ NaT) (hr' : InI64 x') (hle : x ≤ x')
    (h : intoUnit a b x = .ok y) (h' : intoUnit a b x' = .ok y') : y ≤ y' := by
  rw [intoUnit_closed a b x hx hr] at h
  rw [intoUnit_closed a b x' hx' hr'] at h'
  split at h <;> split at h' <;> try cases h <;> try cases h'
  exact floorTo_mono a b x x' hle

/-- the model agrees with the from-scratch specification on every `i64` (NaT included):
value ↦ value, NaT ↦ NaT, panic ↦ unrepresentable (`Res.toOutcome`) -/
theorem intoUnit_eq_spec (a b : U) (x : Int) (hr : InI64 x) :
    (intoUnit a b x).toOutcome = Spec.convert a b (optOf x) := by
  by_cases hx : x = NaT
  · subst hx
    simp [intoUnit_nat, Res.toOutcome, Spec.convert, optOf]
  · simp only [optOf, hx, if_false, Spec.convert, Spec.mk64, unitsAt_eq, nsPer_eq_mult, valid64_iff]
    rw [intoUnit_closed a b x hx hr]
    have hne := floorTo_ne_nat a b x hx hr
    unfold floorTo at *
    by_cases hf : InI64 (x * a.mult / b.mult)
    · simp [hf, hne, Res.toOutcome]
    · simp [hf, Res.toOutcome]

/-! ## calendar round trips -/

/-- chrono's range constants of the model are the calendar's years −262143 … 262142 -/
theorem crRange_is_calendar : crMinNs = Spec.calMinNs ∧ crMaxNs = Spec.calMaxNs := crRange_eq

/-- every valid nanosecond date-time has a calendar value (the whole `i64` range is inside chrono's) -/
theorem asCr_ns_total (x : Int) (hx : x ≠ NaT) (hr : InI64 x) : asCr .ns x = some x := by
  have : InCr x := by
    simp only [InCr, crMinNs, crMaxNs, InI64, i64Min, i64Max] at *
    omega
  simp [asCr, isNat, hx, tryIntoCr, U.mult, this]

/-- `as_cr` of a valid value is its instant `x·ns(u)`, present exactly inside chrono's range -/
theorem asCr_valid (u : U) (x : Int) (hx : x ≠ NaT) :
    asCr u x = if InCr (x * u.mult) then some (x * u.mult) else none := by
  simp [asCr, isNat, hx, tryIntoCr]

/-- **to the calendar and back**: `From<chrono>(as_cr(x)) = x` for every valid `x` that has a calendar value -/
theorem cr_roundtrip (u : U) (x t : Int) (hx : x ≠ NaT) (hr : InI64 x)
    (h : asCr u x = some t) : fromCr u t = .ok x := by
  rw [asCr_valid u x hx] at h
  split at h
  · injection h with h
    subst h
    cases u <;> simp only [fromCr, U.mult]
    · congr 1; omega
    · congr 1; omega
    · congr 1; omega
    · simp [hr]
  · cases h

/-- `From<chrono>` floors the instant to the unit: `ns(u)·x ≤ t < ns(u)·(x+1)` -/
theorem fromCr_floor (u : U) (t x : Int) (h : fromCr u t = .ok x) :
    u.mult * x ≤ t ∧ t < u.mult * (x + 1) := by
  cases u <;> simp only [fromCr, U.mult] at h ⊢
  · injection h with h; omega
  · injection h with h; omega
  · injection h with h; omega
  · split at h
    · injection h with h; omega
    · cases h

/-- `From<chrono>` succeeds on every calendar instant that the unit can represent (only the
nanosecond unit is narrower than chrono) -/
theorem fromCr_total (u : U) (t : Int) (h : u ≠ .ns ∨ InI64 t) : fromCr u t = .ok (t / u.mult) := by
  cases u <;> simp only [fromCr, U.mult]
  rcases h with h | h
  · exact absurd rfl h
  · simp [h]

/-- **from the calendar and back**: for a calendar instant `t` whose floor is a valid value of the
unit, `as_cr(From<chrono>(t))` is `t` floored to the unit -/
theorem cr_roundtrip_floor (u : U) (t x : Int) (ht : InCr t) (h : fromCr u t = .ok x)
    (hx : x ≠ NaT) : asCr u x = some (t / u.mult * u.mult) := by
  have hx' : x = t / u.mult := by
    cases u <;> simp only [fromCr, U.mult] at h ⊢
    · injection h with h; omega
    · injection h with h; omega
    · injection h with h; omega
    · split at h
      · injection h with h; omega
      · cases h
  subst hx'
  have hin : InCr (t / u.mult * u.mult) := by
    cases u <;> simp only [U.mult, InCr, crMinNs, crMaxNs] at * <;> omega
  rw [asCr_valid u _ hx, if_pos hin]

/-! ## NaT is absorbed by every operator -/

/-- `DateTime ± TimeDelta` with a NaT date-time is NaT (whatever the duration, whatever chrono's
month arithmetic does) -/
theorem nat_absorbs_dt_shift_left (am : Int → Int → Option Int) (sgn : Int) (u : U) (d : TD) :
    dtShift am sgn u NaT d = .ok NaT := by
  simp [dtShift, isNat]

/-- `DateTime ± TimeDelta` with a NaT duration is NaT -/
theorem nat_absorbs_dt_shift_right (am : Int → Int → Option Int) (sgn : Int) (u : U) (x : Int)
    (d : TD) (hd : d.isNat = true) : dtShift am sgn u x d = .ok NaT := by
  simp [dtShift, hd]

theorem nat_absorbs_dt_add (am : Int → Int → Option Int) (u : U) (x : Int) (d : TD)
    (h : x = NaT ∨ d.isNat = true) : dtAdd am u x d = .ok NaT := by
  rcases h with h | h
  · subst h; exact nat_absorbs_dt_shift_left am 1 u d
  · exact nat_absorbs_dt_shift_right am 1 u x d h

theorem nat_absorbs_dt_sub (am : Int → Int → Option Int) (u : U) (x : Int) (d : TD)
    (h : x = NaT ∨ d.isNat = true) : dtSub am u x d = .ok NaT := by
  rcases h with h | h
  · subst h; exact nat_absorbs_dt_shift_left am (-1) u d
  · exact nat_absorbs_dt_shift_right am (-1) u x d h

/-- `DateTime − DateTime` with a NaT operand on either side is the NaT duration -/
theorem nat_absorbs_dt_diff (u : U) (x y : Int) (h : x = NaT ∨ y = NaT) :
    dtDiff u x y = .ok tdNaT := by
  rcases h with h | h <;> subst h <;> simp [dtDiff, isNat]

/-- `-NaT` is NaT -/
theorem nat_absorbs_td_neg (a : TD) (h : a.isNat = true) :
    ∃ r, tdNeg a = .ok r ∧ r.isNat = true := by
  exact ⟨a, by simp [tdNeg, h], h⟩

theorem nat_absorbs_td_add (a b : TD) (h : a.isNat = true ∨ b.isNat = true) :
    tdAdd a b = .ok tdNaT := by
  rcases h with h | h <;> simp [tdAdd, h]

theorem nat_absorbs_td_sub (a b : TD) (h : a.isNat = true ∨ b.isNat = true) :
    tdSub a b = .ok tdNaT := by
  rcases h with h | h <;> simp [tdSub, h]

/-- scaling a NaT duration by any `i32` (also by 0) is NaT -/
theorem nat_absorbs_td_mul (a : TD) (k : Int) (h : a.isNat = true) : tdMul a k = .ok tdNaT := by
  simp [tdMul, h]

/-- `Time ± TimeDelta` with a NaT operand on either side is NaT — also when the duration carries
months (no panic) or is too long for `num_nanoseconds` -/
theorem nat_absorbs_time_shift (sgn : Int) (x : Int) (d : TD) (h : x = NaT ∨ d.isNat = true) :
    timeShift sgn x d = .ok NaT := by
  rcases h with h | h
  · subst h; simp [timeShift, isNat]
  · simp [timeShift, h]

theorem nat_absorbs_time_add (x : Int) (d : TD) (h : x = NaT ∨ d.isNat = true) :
    timeAdd x d = .ok NaT := nat_absorbs_time_shift 1 x d h

theorem nat_absorbs_time_sub (x : Int) (d : TD) (h : x = NaT ∨ d.isNat = true) :
    timeSub x d = .ok NaT := nat_absorbs_time_shift (-1) x d h

/-- a NaT time of day has no calendar value -/
theorem nat_time_asCr : timeAsCr NaT = none := by decide

/-! ## the model equals the from-scratch specification (all inputs) -/

/-- `as_cr` is the specification's calendar value -/
theorem asCr_eq_spec (u : U) (x : Int) : asCr u x = Spec.toCalendar u (optOf x) := by
  by_cases hx : x = NaT
  · subst hx; simp [nat_asCr, Spec.toCalendar, optOf]
  · simp only [optOf, hx, if_false, Spec.toCalendar, nsPer_eq_mult, asCr_valid u x hx]
    by_cases h : InCr (x * u.mult)
    · simp [h, (inCal_iff _).2 h]
    · have : ¬ Spec.InCal (x * u.mult) := fun c => h ((inCal_iff _).1 c)
      simp [h, this]

/-- `From<chrono>` is the specification's floor to the unit, on every calendar instant whose floor is
not the sentinel (the single instant `-2^63 ns` maps to NaT in the code) -/
theorem fromCr_eq_spec (u : U) (t : Int) (ht : InCr t) (hs : t / u.mult ≠ NaT) :
    (fromCr u t).toOutcome = Spec.ofCalendar u t := by
  simp only [Spec.ofCalendar, unitsAt_eq]
  by_cases hu : u = .ns
  · subst hu
    have e : t / U.ns.mult = t := by simp only [U.mult]; omega
    rw [e] at hs ⊢
    by_cases h : InI64 t
    · rw [mk64_val t hs h]; simp [fromCr, h, toOutcome_ok t hs]
    · rw [mk64_unrep t h]; simp [fromCr, h, Res.toOutcome]
  · have hin : InI64 (t / u.mult) := by
      cases u <;> first
        | exact absurd rfl hu
        | (simp only [U.mult, InCr, crMinNs, crMaxNs, InI64, i64Min, i64Max] at *; omega)
    rw [fromCr_total u t (Or.inl hu), toOutcome_ok _ hs, mk64_val _ hs hin]

/-- `DateTime ± TimeDelta` (month-free duration, or any NaT operand) is instant arithmetic floored
to the unit -/
theorem dtShift_eq_spec (am : Int → Int → Option Int) (sgn : Int) (u : U) (x : Int) (d : TD)
    (hm : x = NaT ∨ d.isNat = true ∨ d.months = 0) :
    (dtShift am sgn u x d).toOutcome = Spec.shift sgn u (optOf x) d.toDur := by
  by_cases hx : x = NaT
  · subst hx; simp [nat_absorbs_dt_shift_left, optOf, Spec.shift, Res.toOutcome]
  · by_cases hd : d.isNat = true
    · simp [nat_absorbs_dt_shift_right, hd, optOf, hx, TD.toDur, Spec.shift, Res.toOutcome]
    · have hm0 : d.months = 0 := by
        rcases hm with h | h | h
        · exact absurd h hx
        · exact absurd h hd
        · exact h
      have hx' : isNat x = false := by simp [isNat, hx]
      simp only [dtShift, hx', hd, optOf, hx, TD.toDur, Spec.shift, hm0, asCr_valid u x hx, nsPer_eq_mult,
        inCal_iff, if_false, Bool.not_false, Bool.and_self, if_true, ne_eq, not_true_eq_false,
        Bool.false_eq_true]
      by_cases h1 : InCr (x * u.mult)
      · by_cases h2 : InCr (x * u.mult + sgn * d.inner)
        · simp only [h1, h2, and_self, if_true, crShift]
          by_cases hs : (x * u.mult + sgn * d.inner) / u.mult = NaT
          · generalize x * u.mult + sgn * d.inner = r at *
            have hl : (fromCr u r).toOutcome = .nat := by
              cases u <;> simp only [fromCr, U.mult] at hs ⊢
              · simp [hs, Res.toOutcome]
              · simp [hs, Res.toOutcome]
              · simp [hs, Res.toOutcome]
              · have : r = NaT := by omega
                subst this
                have : InI64 NaT := by decide
                simp [this, Res.toOutcome]
            rw [hl]
            simp [Spec.ofCalendar, Spec.mk64, unitsAt_eq, hs, valid64_iff]
            decide
          · rw [fromCr_eq_spec u _ h2 hs]
            generalize x * u.mult + sgn * d.inner = r at *
            simp only [Spec.ofCalendar, unitsAt_eq]
            by_cases hi : InI64 (r / u.mult)
            · rw [mk64_val _ hs hi]
            · rw [mk64_unrep _ hi]
              have : ¬ r / u.mult = -9223372036854775808 := by simpa [NaT, i64Min] using hs
              simp [this]
        · simp [h1, h2, crShift, Res.toOutcome]
      · simp [h1, Res.toOutcome]

/-- `DateTime − DateTime` is the difference of the instants -/
theorem dtDiff_eq_spec (u : U) (x y : Int) :
    (dtDiff u x y).toOutcomeTd = Spec.diff u (optOf x) (optOf y) := by
  by_cases hx : x = NaT
  · subst hx; simp [dtDiff, isNat, optOf, Spec.diff, Res.toOutcomeTd, tdNaT_isNat]
  · by_cases hy : y = NaT
    · subst hy; simp [dtDiff, isNat, optOf, hx, Spec.diff, Res.toOutcomeTd, tdNaT_isNat]
    · have hx' : isNat x = false := by simp [isNat, hx]
      have hy' : isNat y = false := by simp [isNat, hy]
      simp only [dtDiff, hx', hy', optOf, hx, hy, Spec.diff, asCr_valid u x hx, asCr_valid u y hy,
        nsPer_eq_mult, inCal_iff, if_false, Bool.not_false, Bool.and_self, if_true]
      by_cases h1 : InCr (x * u.mult) <;> by_cases h2 : InCr (y * u.mult) <;>
        simp [h1, h2, Res.toOutcomeTd, TD.isNat, i32Min, Int.sub_mul]

theorem tdAdd_eq_spec (a b : TD) : (tdAdd a b).toOutcomeTd = Spec.add a.toDur b.toDur := by
  by_cases ha : a.isNat = true
  · simp [tdAdd, ha, TD.toDur, Spec.add, Res.toOutcomeTd, tdNaT_isNat]
  · by_cases hb : b.isNat = true
    · simp [tdAdd, ha, hb, TD.toDur, Spec.add, Res.toOutcomeTd, tdNaT_isNat]
    · simp [tdAdd, ha, hb, TD.toDur, Spec.add, tdMk_eq_spec]

theorem tdSub_eq_spec (a b : TD) : (tdSub a b).toOutcomeTd = Spec.sub a.toDur b.toDur := by
  by_cases ha : a.isNat = true
  · simp [tdSub, ha, TD.toDur, Spec.sub, Res.toOutcomeTd, tdNaT_isNat]
  · by_cases hb : b.isNat = true
    · simp [tdSub, ha, hb, TD.toDur, Spec.sub, Res.toOutcomeTd, tdNaT_isNat]
    · simp [tdSub, ha, hb, TD.toDur, Spec.sub, tdMk_eq_spec]

theorem tdMul_eq_spec (a : TD) (k : Int) : (tdMul a k).toOutcomeTd = Spec.scale a.toDur k := by
  by_cases ha : a.isNat = true
  · simp [tdMul, ha, TD.toDur, Spec.scale, Res.toOutcomeTd, tdNaT_isNat]
  · simp [tdMul, ha, TD.toDur, Spec.scale, tdMk_eq_spec]

/-- negation (months are an `i32`) -/
theorem tdNeg_eq_spec (a : TD) (h32 : InI32 a.months) : (tdNeg a).toOutcomeTd = Spec.neg a.toDur := by
  by_cases ha : a.isNat = true
  · simp [tdNeg, ha, TD.toDur, Spec.neg, Res.toOutcomeTd]
  · have hne : ¬ (-a.months = i32Min) := by
      simp only [InI32, i32Min, i32Max] at *; omega
    have ha' : ¬ (a.months = i32Min) := by simpa [TD.isNat] using ha
    simp [tdNeg, TD.toDur, Spec.neg, Res.toOutcomeTd, TD.isNat, ha', hne]

/-- `Time ± TimeDelta` equals its specification for every time of day and every duration -/
theorem timeShift_eq_spec (sgn x : Int) (d : TD) :
    (timeShift sgn x d).toOutcome = Spec.timeShift sgn (optOf x) d.toDur := by
  by_cases hx : x = NaT
  · subst hx; simp [nat_absorbs_time_shift, Spec.timeShift, Res.toOutcome, optOf]
  · by_cases hd : d.isNat = true
    · simp [nat_absorbs_time_shift, hd, hx, Spec.timeShift, Res.toOutcome, optOf, TD.toDur]
    · have hx' : isNat x = false := by simp [isNat, hx]
      simp only [optOf, TD.toDur, hx, hd, if_false, timeShift, hx', Bool.not_false, Bool.and_self, if_true]
      simp only [Bool.false_eq_true, if_false]
      rw [spec_timeShift_valid]
      by_cases hm : d.months = 0
      · by_cases hn : InI64 d.inner
        · by_cases hz : x + sgn * d.inner = NaT
          · have hi : InI64 NaT := by decide
            simp [hm, hn, hz, hi, Res.toOutcome]
          · by_cases hi : InI64 (x + sgn * d.inner)
            · simp [hm, hn, hz, hi, toOutcome_ok _ hz, mk64_val _ hz hi]
            · simp [hm, hn, hz, hi, mk64_unrep _ hi, Res.toOutcome]
        · simp [hm, hn, Res.toOutcome]
      · simp [hm, Res.toOutcome]

/-! ## the pinned tree violated the property (F5, F8) -/

/-- F5: before the repair a NaT nanosecond date-time became the valid microsecond date
`-9223372036854775` (year −290 308), and converting NaT to a finer unit overflowed -/
theorem intoUnit_nat_pinned_wrong :
    intoUnitPinned .ns .us NaT = .ok (-9223372036854775) ∧ (-9223372036854775 : Int) ≠ NaT
    ∧ intoUnitPinned .s .ns NaT = .panic := by decide

/-- F5: before the repair `-1 ns` (1969-12-31 23:59:59.999999999) became `0 µs` — the instant moved
toward the future; the repaired code and chrono give `-1` -/
theorem intoUnit_trunc_pinned_wrong :
    intoUnitPinned .ns .us (-1) = .ok 0 ∧ floorTo .ns .us (-1) = -1
    ∧ intoUnit .ns .us (-1) = .ok (-1) := by decide

/-- F8: before the repair `Time::nat() + 1h` was an ordinary value and `Time::nat() − 1h` overflowed -/
theorem time_shift_pinned_wrong :
    timeShiftPinned 1 NaT ⟨0, 3600000000000⟩ = .ok (-9223368436854775808)
    ∧ timeShiftPinned (-1) NaT ⟨0, 3600000000000⟩ = .panic
    ∧ timeShift 1 NaT ⟨0, 3600000000000⟩ = .ok NaT := by decide

/-! ## non-vacuity: the hypotheses are satisfiable on concrete, non-trivial inputs -/

/-- pre-1970, not divisible by the ratio, ms → s -/
example : intoUnit .ms .s (-1001) = .ok (-2) ∧ (-1001 : Int) ≠ NaT ∧ InI64 (-1001) := by decide
/-- widening overflow is a panic, one below still fits -/
example : intoUnit .s .ns 9223372037 = .panic ∧ intoUnit .s .ns 9223372036 = .ok 9223372036000000000 := by decide
/-- finer and back on a negative value -/
example : intoUnit .s .us (-7) = .ok (-7000000) ∧ intoUnit .us .s (-7000000) = .ok (-7) := by decide
/-- calendar round trip before the epoch: −1 ms is 1969-12-31T23:59:59.999 -/
example : asCr .ms (-1) = some (-1000000) ∧ fromCr .ms (-1000000) = .ok (-1)
    ∧ Spec.fieldsAt (-1000000) = (1969, 12, 31, 23, 59, 59) := by decide
/-- outside chrono's range `as_cr` is `None` although the value is not NaT -/
example : asCr .s 8210266876800 = none ∧ asCr .s 8210266876799 = some 8210266876799000000000 := by decide
/-- operators on valid operands do compute (the absorption theorems are not about a constant function) -/
example : dtShift (fun _ _ => none) 1 .s 5 ⟨0, -1⟩ = .ok 4 ∧ dtDiff .ms 5 (-7) = .ok ⟨0, 12000000⟩
    ∧ tdAdd ⟨3, 5⟩ ⟨-1, 7⟩ = .ok ⟨2, 12⟩ ∧ tdMul ⟨3, 5⟩ (-2) = .ok ⟨-6, -10⟩
    ∧ timeAdd 43200000000000 ⟨0, 5400000000000⟩ = .ok 48600000000000 := by decide
/-- a NaT duration may carry any length -/
example : (⟨i32Min, 12345⟩ : TD).isNat = true ∧ tdNeg ⟨i32Min, 12345⟩ = .ok ⟨i32Min, 12345⟩ := by decide

/-! ## the calendar of the specification is consistent -/

/-- **calendar round trip.** The proleptic Gregorian date the specification assigns to a day count
maps back to that day count — for every integer day count. (The only non-linear fact, that the
year-of-era estimate is right for each of the 146097 days of an era, is checked by kernel
evaluation in `Lemmas/C16CalDoe`.) -/
theorem calendar_roundtrip (z : Int) :
    Spec.daysFromCivil (Spec.civilFromDays z).1 (Spec.civilFromDays z).2.1 (Spec.civilFromDays z).2.2 = z :=
  Spec.daysFromCivil_civilFromDays z

/-- distinct day counts have distinct dates -/
theorem civilFromDays_injective (a b : Int) (h : Spec.civilFromDays a = Spec.civilFromDays b) : a = b := by
  have ha := calendar_roundtrip a
  have hb := calendar_roundtrip b
  rw [h] at ha
  exact ha.symm.trans hb

/-- **calendar round trip, dates**: the day count the specification assigns to a calendar date
(`1 ≤ m ≤ 12`, `1 ≤ d ≤` days of that month, leap years by the Gregorian rule; any year) maps back
to that date. Together with `calendar_roundtrip`: day counts and calendar dates are in bijection. -/
theorem calendar_roundtrip_date (y m d : Int) (hv : Spec.ValidDate y m d) :
    Spec.civilFromDays (Spec.daysFromCivil y m d) = (y, m, d) :=
  Spec.civilFromDays_daysFromCivil y m d hv

/-- distinct calendar dates have distinct day counts -/
theorem daysFromCivil_injective (y m d y' m' d' : Int) (hv : Spec.ValidDate y m d) (hv' : Spec.ValidDate y' m' d')
    (h : Spec.daysFromCivil y m d = Spec.daysFromCivil y' m' d') : (y, m, d) = (y', m', d') := by
  rw [← calendar_roundtrip_date y m d hv, ← calendar_roundtrip_date y' m' d' hv', h]

end Tv.C16
