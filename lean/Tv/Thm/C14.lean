import Tv.Lemmas.C14Cut
import Tv.Lemmas.C14Unique
/-!
# C14 — binning assigns the unique enclosing bin; run de-duplication keeps run ends

Property theorems only (helper lemmas live in `Tv/Lemmas/C14*.lean`).

* `vcut MIN MAX xs bins labels right addBounds` is the model of `MapValidBasic::vcut`
  (tea-map/src/valid_iter.rs) after the `fix:` commit for F15; `vcutPinned` is the pinned code.
  `none` = the call returns `Err` (label count), `Item.outside` = the element is `Err(not in bins)`.
* `Spec.intervals bins addBounds` are the intervals the edges define (with the two unbounded
  outer intervals when `addBounds`); `Interval.contains right I v` is membership in `(lo, hi]`
  resp. `[lo, hi)`.
* `uniqueIdxFirst / uniqueIdxLast / uniqueVals` model `vsorted_unique_idx(Keep::First|Last)` and
  `vsorted_unique` (after the `fix:` commit for F14; `uniqueIdxLastPinned` is the pinned code).
* `Spec.runStarts / runEnds / runValues`: first index / last index / value of every maximal block
  of adjacent equal non-null values.

None of the binning theorems needs `MIN ≤ v ≤ MAX`: after the repair the outer bins are
unbounded, so the result no longer depends on the type's extremes at all (`cut_eq_spec`).
-/
namespace Tv.C14
open Tv.C14.Spec

variable {L : Type}

/-! ## binning -/

/-- **label count**: the call fails iff the number of labels is not one fewer than the number of
edges (including the two outer bounds when `addBounds`); nothing else makes the call itself fail -/
theorem cut_err_labels (MIN MAX : Int) (xs : List (Option Int)) (bins : List Int) (labels : List L)
    (right ab : Bool) :
    vcut MIN MAX xs bins labels right ab = none ↔ labels.length + 1 ≠ nEdges bins ab := by
  rw [vcut_eq]; by_cases h : labels.length + 1 ≠ nEdges bins ab <;> simp [h]

/-- one outcome per element -/
theorem cut_length (MIN MAX : Int) (xs : List (Option Int)) (bins : List Int) (labels : List L)
    (right ab : Bool) (out : List (Item L)) (h : vcut MIN MAX xs bins labels right ab = some out) :
    out.length = xs.length := by
  rw [vcut_eq] at h
  by_cases hc : labels.length + 1 ≠ nEdges bins ab
  · simp [hc] at h
  · simp only [hc, if_false, Option.some.injEq] at h
    subst h; simp

/-- every output element is the per-element outcome of the corresponding input element -/
theorem cut_getElem? (MIN MAX : Int) (xs : List (Option Int)) (bins : List Int) (labels : List L)
    (right ab : Bool) (out : List (Item L)) (h : vcut MIN MAX xs bins labels right ab = some out)
    (i : Nat) : out[i]? = (xs[i]?).map (itemOf bins labels ab right) := by
  rw [vcut_eq] at h
  by_cases hc : labels.length + 1 ≠ nEdges bins ab
  · simp [hc] at h
  · simp only [hc, if_false, Option.some.injEq] at h
    subst h; simp

/-- **position independent**: equal elements get equal outcomes wherever they stand, and the outcome
of one element does not depend on the other elements of the series (the same element in another
series with the same bins and labels gets the same outcome) -/
theorem cut_pointwise (MIN MAX : Int) (xs ys : List (Option Int)) (bins : List Int)
    (labels : List L) (right ab : Bool) (out out' : List (Item L))
    (h : vcut MIN MAX xs bins labels right ab = some out)
    (h' : vcut MIN MAX ys bins labels right ab = some out')
    (i j : Nat) (x : Option Int) (hx : xs[i]? = some x) (hy : ys[j]? = some x) :
    out[i]? = out'[j]? := by
  rw [cut_getElem? MIN MAX xs bins labels right ab out h i,
    cut_getElem? MIN MAX ys bins labels right ab out' h' j, hx, hy]

/-- **nulls get the null label**, and only nulls do -/
theorem cut_null (MIN MAX : Int) (xs : List (Option Int)) (bins : List Int) (labels : List L)
    (right ab : Bool) (out : List (Item L)) (h : vcut MIN MAX xs bins labels right ab = some out)
    (i : Nat) : out[i]? = some .null ↔ xs[i]? = some none := by
  rw [cut_getElem? MIN MAX xs bins labels right ab out h i]
  rcases xs[i]? with _ | x
  · simp
  · cases x with
    | none => simp [itemOf]
    | some v =>
      simp only [Option.map_some, itemOf, Option.some.injEq, reduceCtorEq, iff_false]
      cases pick (hits bins ab right v) labels <;> simp

/-- **at most one bin**: for ascending edges the intervals are pairwise disjoint -/
theorem cut_unique (bins : List Int) (hasc : Ascending bins) (ab right : Bool) (v : Int)
    (i j : Nat) (I J : Interval)
    (hi : (intervals bins ab)[i]? = some I) (hj : (intervals bins ab)[j]? = some J)
    (hI : I.contains right v = true) (hJ : J.contains right v = true) : i = j :=
  contains_unique bins hasc ab right v i j I J hi hj hI hJ

/-- **the label of the enclosing bin**: if interval `k` contains the value, the element gets
`labels[k]` -/
theorem cut_label_of_contains (MIN MAX : Int) (xs : List (Option Int)) (bins : List Int)
    (hasc : Ascending bins) (labels : List L) (right ab : Bool) (out : List (Item L))
    (h : vcut MIN MAX xs bins labels right ab = some out) (i : Nat) (v : Int)
    (hx : xs[i]? = some (some v)) (k : Nat) (I : Interval)
    (hk : (intervals bins ab)[k]? = some I) (hin : I.contains right v = true) :
    ∃ l, labels[k]? = some l ∧ out[i]? = some (.label l) := by
  have hlen : labels.length + 1 = nEdges bins ab := by
    rcases Nat.decEq (labels.length + 1) (nEdges bins ab) with hc | hc
    · exact absurd ((cut_err_labels MIN MAX xs bins labels right ab).mpr hc) (by simp [h])
    · exact hc
  have hll := labels_length bins labels ab hlen
  have hkl : k < labels.length := by
    rcases Nat.lt_or_ge k (intervals bins ab).length with h' | h'
    · omega
    · simp [List.getElem?_eq_none h'] at hk
  refine ⟨labels[k], List.getElem?_eq_getElem hkl, ?_⟩
  rw [cut_getElem? MIN MAX xs bins labels right ab out h i, hx]
  simp only [Option.map_some, itemOf]
  have hH : (hits bins ab right v)[k]? = some true := by rw [hits_getElem?, hk]; simp [hin]
  have := pick_eq_some_of_first (hits bins ab right v) labels k labels[k] hH (by
      intro j hj hHj
      rw [hits_getElem?] at hHj
      cases hJ : (intervals bins ab)[j]? with
      | none => simp [hJ] at hHj
      | some J =>
        simp [hJ] at hHj
        have := contains_unique bins hasc ab right v j k J I hJ hk hHj hin
        omega) (List.getElem?_eq_getElem hkl)
  rw [this]

/-- **never a wrong label**: a label is only ever produced for an interval that contains the value -/
theorem cut_label_sound (MIN MAX : Int) (xs : List (Option Int)) (bins : List Int)
    (labels : List L) (right ab : Bool) (out : List (Item L))
    (h : vcut MIN MAX xs bins labels right ab = some out) (i : Nat) (l : L)
    (hl : out[i]? = some (.label l)) :
    ∃ (v : Int) (k : Nat) (I : Interval), xs[i]? = some (some v) ∧ (intervals bins ab)[k]? = some I ∧
      I.contains right v = true ∧ labels[k]? = some l := by
  rw [cut_getElem? MIN MAX xs bins labels right ab out h i] at hl
  rcases hxi : xs[i]? with _ | x
  · simp [hxi] at hl
  · cases x with
    | none => simp [hxi, itemOf] at hl
    | some v =>
      simp only [hxi, Option.map_some, itemOf, Option.some.injEq] at hl
      cases hp : pick (hits bins ab right v) labels with
      | none => simp [hp] at hl
      | some l' =>
        simp only [hp, Item.label.injEq] at hl
        subst hl
        obtain ⟨k, hk, hlk, _⟩ := pick_some_elim _ labels l' hp
        rw [hits_getElem?] at hk
        cases hI : (intervals bins ab)[k]? with
        | none => simp [hI] at hk
        | some I => exact ⟨v, k, I, rfl, hI, by simpa [hI] using hk, hlk⟩

/-- **outside all intervals ⇒ error, and only then**: the element is `Err(not in bins)` iff it is
non-null and no interval contains it -/
theorem cut_err_outside (MIN MAX : Int) (xs : List (Option Int)) (bins : List Int)
    (labels : List L) (right ab : Bool) (out : List (Item L))
    (h : vcut MIN MAX xs bins labels right ab = some out) (i : Nat) :
    out[i]? = some .outside ↔
      ∃ v, xs[i]? = some (some v) ∧
        ∀ (k : Nat) (I : Interval), (intervals bins ab)[k]? = some I → I.contains right v = false := by
  have hlen : labels.length + 1 = nEdges bins ab := by
    rcases Nat.decEq (labels.length + 1) (nEdges bins ab) with hc | hc
    · exact absurd ((cut_err_labels MIN MAX xs bins labels right ab).mpr hc) (by simp [h])
    · exact hc
  have hll : ∀ v, labels.length = (hits bins ab right v).length := fun v => by
    simpa [hits] using labels_length bins labels ab hlen
  rw [cut_getElem? MIN MAX xs bins labels right ab out h i]
  rcases xs[i]? with _ | x
  · simp
  · cases x with
    | none => simp [itemOf]
    | some v =>
      simp only [Option.map_some, itemOf, Option.some.injEq, exists_eq_left']
      cases hp : pick (hits bins ab right v) labels with
      | some l => 
        simp only [reduceCtorEq, false_iff]
        intro hall
        obtain ⟨k, hk, _, _⟩ := pick_some_elim _ labels l hp
        rw [hits_getElem?] at hk
        cases hI : (intervals bins ab)[k]? with
        | none => simp [hI] at hk
        | some I => simp [hI, hall k I hI] at hk
      | none =>
        simp only [true_iff]
        intro k I hI
        have := (pick_eq_none_iff _ labels (hll v)).mp hp k
        rw [hits_getElem?, hI] at this
        cases hc : I.contains right v <;> simp_all

/-- **open outer bounds: every non-null value receives a label** (no hypothesis on the edges, and
in particular for `v = MIN` and `v = MAX`; false for the pinned code, see `cut_pinned_wrong`) -/
theorem cut_total_open (MIN MAX : Int) (xs : List (Option Int)) (bins : List Int)
    (labels : List L) (right : Bool) (out : List (Item L))
    (h : vcut MIN MAX xs bins labels right true = some out) (i : Nat) (v : Int)
    (hx : xs[i]? = some (some v)) : ∃ l, out[i]? = some (.label l) := by
  obtain ⟨k, I, hk, hin⟩ := open_exists_hit bins right v
  have hlen : out.length = xs.length := cut_length MIN MAX xs bins labels right true out h
  have hi : i < out.length := by
    rcases Nat.lt_or_ge i xs.length with h' | h'
    · omega
    · simp [List.getElem?_eq_none h'] at hx
  cases ho : out[i] with
  | label l => exact ⟨l, by rw [List.getElem?_eq_getElem hi, ho]⟩
  | null =>
    have := (cut_null MIN MAX xs bins labels right true out h i).mp (by rw [List.getElem?_eq_getElem hi, ho])
    simp [hx] at this
  | outside =>
    obtain ⟨v', hv', hall⟩ := (cut_err_outside MIN MAX xs bins labels right true out h i).mp
      (by rw [List.getElem?_eq_getElem hi, ho])
    rw [hx] at hv'
    simp at hv'
    subst hv'
    simp [hall k I hk] at hin

/-- **model = from-scratch specification** for ascending edges, all inputs, both flags, both bound
modes (the specification counts the containing intervals and reports the label of the only one) -/
theorem cut_eq_spec (MIN MAX : Int) (xs : List (Option Int)) (bins : List Int) (hasc : Ascending bins)
    (labels : List L) (right ab : Bool) :
    (vcut MIN MAX xs bins labels right ab).map (·.map Item.toOutcome) = Spec.cut xs bins labels right ab := by
  rw [vcut_eq]
  unfold Spec.cut
  by_cases hc : labels.length + 1 ≠ nEdges bins ab
  · simp [hc]
  · simp only [hc, if_false, Option.map_some, List.map_map, Option.some.injEq]
    apply List.map_congr_left
    intro x _
    cases x with
    | none => rfl
    | some v =>
      have := pick_eq_cutOne bins hasc labels ab right v (by simpa using hc)
      rw [← this]
      simp only [Function.comp, itemOf]
      cases pick (hits bins ab right v) labels <;> rfl

/-- **F15 (pinned tree)**: with open outer bounds the pinned code rejects the type's minimum when
right-closed and the type's maximum when left-closed (whatever `MIN`, `MAX` are), while the
repaired code labels them -/
theorem cut_pinned_wrong (MIN MAX : Int) :
    vcutPinned MIN MAX [some MIN] [] [7] true true = some [Item.outside] ∧
    vcutPinned MIN MAX [some MAX] [] [7] false true = some [Item.outside] ∧
    vcut MIN MAX [some MIN] [] [7] true true = some [Item.label 7] ∧
    vcut MIN MAX [some MAX] [] [7] false true = some [Item.label 7] := by
  refine ⟨?_, ?_, ?_, ?_⟩ <;>
    simp [vcutPinned, vcut, edgesOf, cutItem, windows, firstMatch, binTestPinned, binTest]

/-- non-vacuity: a call with ascending edges, a value on an edge, both extremes of `i32` and a null -/
example : vcut (-2147483648) 2147483647 [some 1, some 3, some (-2147483648), none, some 2147483647]
    [1, 5] ["a", "b", "c"] true true
    = some [.label "a", .label "b", .label "a", .null, .label "c"] := by decide

example : Ascending [1, 5] := by unfold Ascending; decide

/-- non-vacuity: closed bounds, a value outside -/
example : vcut (-2147483648) 2147483647 [some 1, some 3, some 9] [1, 5] ["b"] false false
    = some [.label "b", .label "b", .outside] := by decide

/-! ## run de-duplication -/

/-- **Keep::Last returns exactly the last index of every run** — for *every* input (nulls anywhere) -/
theorem unique_last (xs : List (Option Int)) : uniqueIdxLast xs = runEnds xs :=
  uniqueIdxLast_eq_runEnds xs

/-- **Keep::First returns exactly the first index of every run** whenever no block of nulls
separates two equal values (in particular on sorted input with null blocks at the ends,
`noNullGap_of_nullsAtEnds`) -/
theorem unique_first (xs : List (Option Int)) (h : NoNullGap xs) : uniqueIdxFirst xs = runStarts xs :=
  uniqueIdxFirst_eq_runStarts xs h

/-- `vsorted_unique` returns the values at the indices `vsorted_unique_idx(Keep::First)` returns (every input) -/
theorem unique_vals_idx (xs : List (Option Int)) :
    uniqueVals xs = (uniqueIdxFirst xs).filterMap (xs[·]?) :=
  uniqueVals_eq_idx xs

/-- **one representative per run** -/
theorem unique_vals (xs : List (Option Int)) (h : NoNullGap xs) : uniqueVals xs = runValues xs := by
  rw [unique_vals_idx, unique_first xs h]; rfl

/-- **never an index of a null** (Keep::First, every input) -/
theorem unique_first_no_null (xs : List (Option Int)) (i : Nat) (hi : i ∈ uniqueIdxFirst xs) :
    ∃ a, xs[i]? = some (some a) := by
  rw [uniqueIdxFirst_eq_filter, List.mem_filter] at hi
  rcases hx : xs[i]? with _ | x
  · simp [hx] at hi
  · cases x with
    | none => simp [hx] at hi
    | some a => exact ⟨a, rfl⟩

/-- **never an index of a null** (Keep::Last, every input; false for the pinned code,
`unique_last_pinned_wrong`) -/
theorem unique_last_no_null (xs : List (Option Int)) (i : Nat) (hi : i ∈ uniqueIdxLast xs) :
    ∃ a, xs[i]? = some (some a) := by
  rw [unique_last] at hi
  unfold runEnds at hi
  rw [List.mem_filter] at hi
  rcases hx : xs[i]? with _ | x
  · simp [hx] at hi
  · cases x with
    | none => simp [hx] at hi
    | some a => exact ⟨a, rfl⟩

/-- `vsorted_unique` never returns a null (every input) -/
theorem unique_vals_no_null (xs : List (Option Int)) (v : Option Int) (hv : v ∈ uniqueVals xs) :
    v ≠ none := by
  rw [unique_vals_idx, List.mem_filterMap] at hv
  obtain ⟨i, hi, hxi⟩ := hv
  obtain ⟨a, ha⟩ := unique_first_no_null xs i hi
  simp only [ha, Option.some.injEq] at hxi
  subst hxi; simp

/-- **in order**: the returned indices are strictly increasing (both modes, every input) -/
theorem unique_idx_increasing (xs : List (Option Int)) :
    (uniqueIdxFirst xs).Pairwise (· < ·) ∧ (uniqueIdxLast xs).Pairwise (· < ·) := by
  constructor
  · rw [uniqueIdxFirst_eq_filter]
    exact List.Pairwise.sublist List.filter_sublist List.pairwise_lt_range
  · rw [unique_last]
    exact List.Pairwise.sublist List.filter_sublist List.pairwise_lt_range

/-- **sorted input, null blocks at the head and the tail** (the property's quantifier): Keep::First
gives the run starts, Keep::Last the run ends, `vsorted_unique` one value per run, and these values
are pairwise distinct -/
theorem unique_sorted (h : Nat) (vs : List Int) (t : Nat)
    (hs : vs.Pairwise (· ≤ ·) ∨ vs.Pairwise (· ≥ ·)) :
    let xs := List.replicate h none ++ (vs.map some ++ List.replicate t none)
    uniqueIdxFirst xs = runStarts xs ∧ uniqueIdxLast xs = runEnds xs ∧
      uniqueVals xs = runValues xs ∧ (uniqueVals xs).Nodup := by
  intro xs
  have hng : NoNullGap xs := noNullGap_of_nullsAtEnds h vs t
  refine ⟨unique_first xs hng, unique_last xs, unique_vals xs hng, ?_⟩
  rw [unique_vals xs hng]
  exact runValues_nodup xs (equalAdjacent_of_sorted h vs t hs)

/-- whenever equal values are adjacent (the literal hypothesis of the property), the values returned
by `vsorted_unique` are pairwise distinct and Keep::First / values agree with the run structure -/
theorem unique_equalAdjacent (xs : List (Option Int)) (h : EqualAdjacent xs) :
    uniqueIdxFirst xs = runStarts xs ∧ uniqueVals xs = runValues xs ∧ (uniqueVals xs).Nodup := by
  have hng := noNullGap_of_equalAdjacent xs h
  refine ⟨unique_first xs hng, unique_vals xs hng, ?_⟩
  rw [unique_vals xs hng]
  exact runValues_nodup xs h

/-- **F14 (pinned tree)**: with a leading null the pinned Keep::Last emits the index of the null -/
theorem unique_last_pinned_wrong :
    uniqueIdxLastPinned [none, some 4, some 4] = [0, 2] ∧
    ([none, some 4, some 4] : List (Option Int))[0]? = some none ∧
    uniqueIdxLast [none, some 4, some 4] = [2] := by decide

/-- non-vacuity: a sorted input with runs and null blocks at both ends satisfies `NoNullGap` -/
example : NoNullGap [none, some 4, some 4, some 2, none, none] :=
  noNullGap_of_nullsAtEnds 1 [4, 4, 2] 2

example : ([4, 4, 2] : List Int).Pairwise (· ≥ ·) := by decide

example : uniqueIdxFirst [none, some 4, some 4, some 2, none, none] = [1, 3] ∧
    uniqueIdxLast [none, some 4, some 4, some 2, none, none] = [2, 3] ∧
    uniqueVals [none, some 4, some 4, some 2, none, none] = [some 4, some 2] := by decide

end Tv.C14
