import Tv.Model.Null
import Tv.Thm.C01
/-!
# C08 — NaN and None are the same null; nulls are transparent to valid aggregations

Part 1: encodings. Every null-aware model function takes the *decoded* series
`List (Option Rat)`; these theorems say that decoding a float-encoded or an option-encoded
series gives the same decoded series, that the null-skipping folds factor through the decoding,
and that asking for float or optional output only changes the encoding of the result.
Part 2 (transparency of the aggregations under insertion / deletion of nulls) is proved with
the aggregation models (C11) and re-exported here when merged.
-/
namespace Tv.C08
open Tv

/-- decoding the NaN encoding of a logical series gives the series back -/
theorem decode_float (xs : List (Option Rat)) : (xs.map FVal.ofOpt).map FVal.toOpt = xs := by
  induction xs with
  | nil => rfl
  | cons x xs ih => cases x <;> simp [FVal.ofOpt, FVal.toOpt, ih]

/-- decoding the None encoding is the identity -/
theorem decode_opt (xs : List (Option Rat)) : xs.map optToOpt = xs := by
  induction xs with
  | nil => rfl
  | cons x xs ih => rw [List.map_cons, ih]; rfl

/-- **NaN ≡ None**: both encodings of a logical series decode to the same sequence, so every
null-aware function (which the model evaluates on the decoded sequence) gives the same result -/
theorem encodings_agree (xs : List (Option Rat)) :
    (xs.map FVal.ofOpt).map FVal.toOpt = xs.map optToOpt := by
  rw [decode_float, decode_opt]

/-- the predicates agree on each encoding: `is_none ↔ to_opt = None` -/
theorem isNone_iff_toOpt (v : FVal) : v.isNone = true ↔ v.toOpt = none := by
  cases v <;> simp [FVal.isNone, FVal.toOpt]

/-- the null-skipping folds only see the decoded valid elements: folding the float encoding
equals folding `valid` of the logical series, with `n` = number of valid elements -/
theorem vfold_factors {σ : Type} (f : σ → Rat → σ) (init : σ) (xs : List (Option Rat)) :
    vfoldN FVal.isNone FVal.unwrap f init (xs.map FVal.ofOpt)
      = ((valid xs).length, (valid xs).foldl f init) := by
  unfold vfoldN
  suffices h : ∀ (acc : Nat × σ),
      (xs.map FVal.ofOpt).foldl (fun (acc : Nat × σ) v => if v.isNone then acc else (acc.1 + 1, f acc.2 v.unwrap)) acc
        = (acc.1 + (valid xs).length, (valid xs).foldl f acc.2) by
    simpa using h (0, init)
  induction xs with
  | nil => intro acc; simp [valid]
  | cons x xs ih =>
    intro acc
    cases x with
    | none =>
      have step : (if (FVal.ofOpt none).isNone = true then acc else (acc.1 + 1, f acc.2 (FVal.ofOpt none).unwrap)) = acc := rfl
      simp only [List.map_cons, List.foldl_cons]
      rw [step, ih acc]
      simp [valid]
    | some q =>
      have step : (if (FVal.ofOpt (some q)).isNone = true then acc else (acc.1 + 1, f acc.2 (FVal.ofOpt (some q)).unwrap))
          = (acc.1 + 1, f acc.2 q) := rfl
      simp only [List.map_cons, List.foldl_cons]
      rw [step, ih (acc.1 + 1, f acc.2 q)]
      simp [valid, Nat.add_assoc, Nat.add_comm]

/-- **nulls are transparent to every null-skipping fold**: two series with the same non-null
elements in the same order (nulls inserted or removed anywhere, in either encoding) fold to the
same count and the same accumulator -/
theorem vfold_null_transparent {σ : Type} (f : σ → Rat → σ) (init : σ) (xs ys : List (Option Rat))
    (h : valid xs = valid ys) :
    vfoldN FVal.isNone FVal.unwrap f init (xs.map FVal.ofOpt)
      = vfoldN FVal.isNone FVal.unwrap f init (ys.map FVal.ofOpt) := by
  rw [vfold_factors, vfold_factors, h]

/-- in particular an extra null anywhere changes nothing -/
theorem vfold_insert_null {σ : Type} (f : σ → Rat → σ) (init : σ) (xs ys : List (Option Rat)) :
    vfoldN FVal.isNone FVal.unwrap f init ((xs ++ none :: ys).map FVal.ofOpt)
      = vfoldN FVal.isNone FVal.unwrap f init ((xs ++ ys).map FVal.ofOpt) := by
  apply vfold_null_transparent
  simp [valid]

/-- same for the option encoding -/
theorem vfold_factors_opt {σ : Type} (f : σ → Rat → σ) (init : σ) (xs : List (Option Rat)) :
    vfoldN (fun o : Option Rat => o.isNone) (fun o => o.getD 0) f init xs
      = ((valid xs).length, (valid xs).foldl f init) := by
  unfold vfoldN
  suffices h : ∀ (acc : Nat × σ),
      xs.foldl (fun (acc : Nat × σ) v => if v.isNone then acc else (acc.1 + 1, f acc.2 (v.getD 0))) acc
        = (acc.1 + (valid xs).length, (valid xs).foldl f acc.2) by
    simpa using h (0, init)
  induction xs with
  | nil => intro acc; simp [valid]
  | cons x xs ih =>
    intro acc
    cases x with
    | none =>
      have step : (if (none : Option Rat).isNone = true then acc else (acc.1 + 1, f acc.2 ((none : Option Rat).getD 0))) = acc := rfl
      simp only [List.foldl_cons]
      rw [step, ih acc]
      simp [valid]
    | some q =>
      have step : (if (some q).isNone = true then acc else (acc.1 + 1, f acc.2 ((some q).getD 0)))
          = (acc.1 + 1, f acc.2 q) := rfl
      simp only [List.foldl_cons]
      rw [step, ih (acc.1 + 1, f acc.2 q)]
      simp [valid, Nat.add_assoc, Nat.add_comm]

/-- **output encoding**: float and optional outputs of a result carry the same information -/
theorem out_encodings (o : Out) : (outToF o).toOpt = outToO o := by
  cases o <;> rfl

/-- rolling features on either input encoding and either driver shape: one result -/
theorem feat_encoding_indep (f : Feat) (sh sh' : Shape) (xs : List (Option Rat)) (w : Nat) (mp : Option Nat)
    (hw : 1 ≤ w) :
    tsFeat f sh ((xs.map FVal.ofOpt).map FVal.toOpt) w mp = tsFeat f sh' (xs.map optToOpt) w mp := by
  rw [decode_float, decode_opt, C01.tsFeat_exact f sh xs w mp hw, C01.tsFeat_exact f sh' xs w mp hw]

/-- rolling features see a window only through its non-null elements: windows with the same
valid elements give the same output (nulls are transparent inside a window) -/
theorem feat_valid_only (f : Feat) (w : Nat) (mp : Option Nat) (l l' : List (Option Rat))
    (h : valid l = valid l') : Spec.feat f w mp (valid l) = Spec.feat f w mp (valid l') := by rw [h]

example : ([some 1, none, some 3].map FVal.ofOpt) = [.fin 1, .nan, .fin 3] := rfl

end Tv.C08
