import Tv.Generated
import Tv.Lemmas.C18Sum
import Tv.Lemmas.C18Recognise
import Tv.Lemmas.C18Small
import Tv.Lemmas.C18Dt
/-!
  C18 — parsers are total and round-trip with their formatters.

  Model: `Tv/Model/C18Parse.lean` (`tdParse`, `dtParse`, `timeParse`; `Version.repaired` is the
  code after the two `fix:` commits, `Version.pinned` the pinned tree).
  Spec: `Tv/Spec/C18Spec.lean` (`Term`, `render`, `sumMonths`, `sumNanos`, `NoOverflow`).
-/
namespace Tv.C18
open Spec

/-! ## `TimeDelta::parse` is total -/

/-- **Totality.** For every string whatsoever (any code points, any length) the repaired
    `TimeDelta::parse` returns a value or an error; it never reaches a panicking operation
    (the slice `duration[start..i]` is always on char boundaries with `start ≤ i`, the integer
    parse is not unwrapped, all arithmetic is checked). -/
theorem parse_total (s : List Char) : (tdParse .repaired s).isPanic = false :=
  scan_total_aux s {} 0 s ⟨[], [], by simp, rfl, rfl⟩

/-- Totality in the form "a value or an error". -/
theorem parse_value_or_error (s : List Char) :
    (∃ m n, tdParse .repaired s = .ok m n) ∨ (∃ k, tdParse .repaired s = .err k) := by
  have h := parse_total s
  cases hr : tdParse .repaired s with
  | ok m n => exact Or.inl ⟨m, n, rfl⟩
  | err k => exact Or.inr ⟨k, rfl⟩
  | panic k => rw [hr] at h; cases h

/-- The scanner's cursor invariant, as the property's `state` names it: whenever the scanner
    slices, `start` and `i` are char boundaries of the text with `start ≤ i` (for any version
    of the arithmetic: the slice never panics, on the pinned tree either). -/
theorem slice_never_panics (s : List Char) (start off : Nat) (rest : List Char)
    (h : SliceInv s start off rest) : ∃ m, slice s start off = some m := h.slice

/-! ### the pinned tree violates totality (F6) -/

/-- `"a1d"`: the integer parse of `"a1"` is unwrapped. -/
theorem parse_pinned_wrong_a1d : tdParse .pinned ['a', '1', 'd'] = .panic .unwrapParse := by decide +kernel
/-- `"--1d"`. -/
theorem parse_pinned_wrong_signs : tdParse .pinned ['-', '-', '1', 'd'] = .panic .unwrapParse := by decide +kernel
/-- `"é1d"` (a multi-byte first character). -/
theorem parse_pinned_wrong_multibyte : tdParse .pinned ['é', '1', 'd'] = .panic .unwrapParse := by decide +kernel
/-- `"1d 2h"`: a space between terms. -/
theorem parse_pinned_wrong_space : tdParse .pinned ['1', 'd', ' ', '2', 'h'] = .panic .unwrapParse := by decide +kernel
/-- a 20-digit number does not fit `i64`. -/
theorem parse_pinned_wrong_20digits :
    tdParse .pinned (List.replicate 20 '9' ++ ['d']) = .panic .unwrapParse := by decide +kernel
/-- `"9223372036854775807w"`: `n * SECS_PER_WEEK` overflows (overflow checks on). -/
theorem parse_pinned_wrong_mul :
    tdParse .pinned ['9','2','2','3','3','7','2','0','3','6','8','5','4','7','7','5','8','0','7','w']
      = .panic .mulOverflow := by decide +kernel
/-- `"9999999999999999s"`: `Duration::seconds` out of bounds. -/
theorem parse_pinned_wrong_duration :
    tdParse .pinned (List.replicate 16 '9' ++ ['s']) = .panic .durationBounds := by decide +kernel
/-- `"200000000y"`: `n as i32 * 12` overflows. -/
theorem parse_pinned_wrong_years :
    tdParse .pinned ['2','0','0','0','0','0','0','0','0','y'] = .panic .mulOverflow := by decide +kernel
/-- `"4294967297mo"` is silently truncated to one month by `as i32` (a wrong value, not the sum). -/
theorem parse_pinned_wrong_truncates :
    tdParse .pinned ['4','2','9','4','9','6','7','2','9','7','m','o'] = .ok 1 0 := by decide +kernel

/-- the same inputs on the repaired scanner: errors -/
example : tdParse .repaired ['a', '1', 'd'] = .err .num := by decide +kernel
example : tdParse .repaired ['é', '1', 'd'] = .err .num := by decide +kernel
example : tdParse .repaired (List.replicate 16 '9' ++ ['s']) = .err .overflow := by decide +kernel
example : tdParse .repaired ['4','2','9','4','9','6','7','2','9','7','m','o'] = .err .overflow := by decide +kernel

/-! ## well-formed duration strings parse to the sum of their terms -/

/-- **Well-formed strings.** Every sequence of terms (optional sign `+`/`-`, one or more
    digits with leading zeros allowed, one of the ten units), of any length, whose running
    totals stay representable (`NoOverflow`: the exact condition under which the implementation's
    `i64`/`i32` accumulators and chrono's `Duration` can hold them) parses to the sum of its
    terms: months and years into the month count, the rest into the fixed part (nanoseconds). -/
theorem parse_wellformed (ts : List Term) (h : NoOverflow ts) :
    tdParse .repaired (render ts) = .ok (sumMonths ts) (sumNanos ts) := by
  rw [tdParse_render, runTerms_ok ts {} {} ⟨rfl, rfl, rfl⟩ h]
  simp

/-- Conversely, a well-formed string whose totals are not representable is rejected with an
    error (never a wrapped value, never a panic). -/
theorem parse_wellformed_overflow (ts : List Term) (h : ¬ NoOverflow ts) :
    tdParse .repaired (render ts) = .err .num ∨ tdParse .repaired (render ts) = .err .overflow := by
  rw [tdParse_render]
  exact runTerms_err ts {} {} ⟨rfl, rfl, rfl⟩ (by simpa [NoOverflow] using h)

/-- A well-formed string yields a value exactly when its totals are representable. -/
theorem parse_wellformed_iff (ts : List Term) :
    (∃ m n, tdParse .repaired (render ts) = .ok m n) ↔ NoOverflow ts := by
  constructor
  · rintro ⟨m, n, h⟩
    by_cases hno : NoOverflow ts
    · exact hno
    · rcases parse_wellformed_overflow ts hno with h' | h' <;> rw [h'] at h <;> cases h
  · intro h
    exact ⟨_, _, parse_wellformed ts h⟩

/-- A hypothesis-light corollary: whatever the signs and the order of the terms, if their
    absolute sizes add up to at most `i64::MAX` nanoseconds (about 292 years) in the fixed part
    and `i32::MAX` months in the calendar part, the string parses to the sum of its terms. -/
theorem parse_wellformed_small (ts : List Term) (h1 : absNanos ts ≤ 9223372036854775807)
    (h2 : absMonths ts ≤ 2147483647) :
    tdParse .repaired (render ts) = .ok (sumMonths ts) (sumNanos ts) :=
  parse_wellformed ts (noOverflow_of_small ts h1 h2)

/-- the month count and the fixed part do not interact: a string of calendar terms has a zero
    fixed part, a string of fixed terms a zero month count -/
theorem sum_parts (ts : List Term) :
    (∀ t ∈ ts, t.unit.months = 0) → sumMonths ts = 0 := by
  intro h
  induction ts with
  | nil => rfl
  | cons t ts ih =>
    simp only [sumMonths, List.map_cons, List.sum_cons] at ih ⊢
    rw [h t (by simp), ih (fun t' ht' => h t' (by simp [ht']))]
    simp

/-! ### the specification used by the correspondence run

  The driver's spec side (`Spec.expected`) decides with a from-scratch recogniser whether a text is
  a well-formed representable duration string. The two theorems below tie it to `render`: it
  accepts exactly the renderings of term lists, and wherever it yields a value the model of
  the repaired code yields the same value. -/

/-- the recogniser inverts `render`: every rendered term list is recognised as itself -/
theorem expected_render (ts : List Term) :
    expected (render ts) = if NoOverflow ts then some (sumMonths ts, sumNanos ts) else none := by
  unfold expected NoOverflow
  rw [recognise_render ts _ (render_length ts)]

/-- **Model meets spec.** For every text: if the specification demands the value `(m, n)`
    (the text is well-formed and representable, and `(m, n)` is the sum of its terms) then the
    repaired parser returns exactly `(m, n)`. -/
theorem parse_meets_spec (s : List Char) (m n : Int) (h : expected s = some (m, n)) :
    tdParse .repaired s = .ok m n := by
  unfold expected at h
  split at h
  · rename_i ts hts
    split at h
    · rename_i hno
      cases h
      rw [recognise_sound _ _ _ hts]
      exact parse_wellformed ts hno
    · cases h
  · cases h

/-! ### non-vacuity and the documented examples -/

/-- "2y1mo-3d5h-2m3s" (the doc comment's example) as a term list -/
def docExample : List Term := [
  ⟨.none, 2, [], .y⟩, ⟨.none, 1, [], .mo⟩, ⟨.minus, 3, [], .d⟩, ⟨.none, 5, [], .h⟩,
  ⟨.minus, 2, [], .m⟩, ⟨.none, 3, [], .s⟩]

example : render docExample = "2y1mo-3d5h-2m3s".toList := by decide
example : NoOverflow docExample := by decide
example : tdParse .repaired (render docExample) = .ok 25 (-241317000000000) :=
  parse_wellformed docExample (by decide)
example : tdParse .repaired "2y1mo-3d5h-2m3s".toList = .ok 25 (-241317000000000) := by decide +kernel
/-- the doctest of `TimeDelta::parse`: 14 months and 3d 4h 5m 6s -/
example : tdParse .repaired "1y2mo3d4h5m6s".toList = .ok 14 ((3 * 86400 + 4 * 3600 + 5 * 60 + 6) * 1000000000) := by
  decide +kernel
/-- signs, leading zeros and an explicit plus are part of the grammar -/
example : NoOverflow [⟨.plus, 0, [0, 7], .ms⟩, ⟨.minus, 1, [2], .us⟩] := by decide
example : absNanos docExample ≤ 9223372036854775807 ∧ absMonths docExample ≤ 2147483647 := by decide
/-- the hypothesis is not always true: `i64::MAX` weeks do not fit -/
example : ¬ NoOverflow [⟨.none, 9, [2,2,3,3,7,2,0,3,6,8,5,4,7,7,5,8,0,7], .w⟩] := by decide

/-! ## `DateTime::parse` -/

/-- **Totality modulo chrono.** Whatever chrono's two parsers answer for the text (they are a
    parameter of the model: total functions, i.e. assumed not to panic), for each of the four
    units, with or without an explicit format, the repaired `DateTime::parse` returns a value
    or an error. -/
theorem dtParse_total (u : DUnit) (c : Chrono) (fmt : Option String) :
    (dtParse .repaired u c fmt).isPanic = false := by
  unfold dtParse
  split
  · exact fromCr_repaired_total u _
  · rfl

/-- chrono's answers for the text `"3000-01-01"`: only the date parser with `"%Y-%m-%d"` succeeds
    (376200 days after the epoch) -/
def chrono3000 : Chrono :=
  { dateTime := fun _ => none
    date := fun f => if f = "%Y-%m-%d" then some 376200 else none }

/-- **F7.** On the pinned tree `"3000-01-01".parse::<DateTime<Nanosecond>>()` panics: the
    instant does not fit an `i64` of nanoseconds and `From<chrono::DateTime<Utc>>` `expect`s. -/
theorem dtParse_pinned_wrong : dtParse .pinned .ns chrono3000 none = .panic .expectNanos := by
  decide +kernel

/-- the repaired code reports it as an error; coarser units hold the instant -/
example : dtParse .repaired .ns chrono3000 none = .err .range := by decide +kernel
example : dtParse .repaired .us chrono3000 none = .ok 32503680000000000 := by decide +kernel

/-- on the pinned tree the panic is confined to the nanosecond unit -/
theorem dtParse_pinned_total_coarse (u : DUnit) (hu : u ≠ .ns) (c : Chrono) (fmt : Option String) :
    (dtParse .pinned u c fmt).isPanic = false := by
  unfold dtParse
  split
  · unfold fromCr
    cases u <;> first | rfl | exact absurd rfl hu
  · rfl

/-- and, for the nanosecond unit, to instants outside the `i64` nanosecond range
    (1677-09-21 .. 2262-04-11): inside it the pinned code does not panic either -/
theorem dtParse_pinned_total_in_range (c : Chrono) (fmt : Option String)
    (h : ∀ x, chosen c fmt = some x → inI64 (x.secs * 1000000000 + x.nanos) = true) :
    (dtParse .pinned .ns c fmt).isPanic = false := by
  unfold dtParse
  split
  · rename_i x hx
    have := h x hx
    simp [fromCr, DUnit.perSec, this, DtRes.isPanic]
  · rfl

/-- **Format list.** Without an explicit format the result comes from the first format of
    `TIME_RULE_VEC`, in order, that chrono accepts (as a date-time, else as a date at midnight);
    if chrono accepts none the result is a parse error. -/
theorem dtParse_first_format (v : Version) (u : DUnit) (c : Chrono) (x : Instant) :
    (∃ pre f post, timeRuleVec = pre ++ f :: post ∧ (∀ g ∈ pre, tryFmt c g = none) ∧ tryFmt c f = some x) →
      dtParse v u c none = fromCr v u x := by
  intro h
  have := (firstFmt_some_iff c timeRuleVec x).2 h
  simp [dtParse, chosen, this]

theorem dtParse_no_format (v : Version) (u : DUnit) (c : Chrono)
    (h : ∀ f ∈ timeRuleVec, tryFmt c f = none) : dtParse v u c none = .err .parse := by
  have := (firstFmt_none_iff c timeRuleVec).2 h
  simp [dtParse, chosen, this]

/-- **Round trip modulo chrono.** If, for the text produced by formatting the instant `ticks`
    (in unit `u`), the first format chrono accepts gives back chrono's own representation of that
    instant — i.e. chrono's parser inverts chrono's formatter at the unit's resolution, which is
    what the correspondence run observes on the real code — then `DateTime::parse` returns exactly
    `ticks`: the conversions `DateTime<U> → chrono → DateTime<U>` lose nothing, for every `i64`
    and each of the four units. -/
theorem dt_roundtrip_mod_chrono (v : Version) (u : DUnit) (c : Chrono) (ticks : Int)
    (hr : inI64 ticks = true) (hc : firstFmt c timeRuleVec = some (toCr u ticks)) :
    dtParse v u c none = .ok ticks := by
  simp [dtParse, chosen, hc, fromCr_toCr v u ticks hr]

/-- the same with an explicit format -/
theorem dt_roundtrip_mod_chrono_fmt (v : Version) (u : DUnit) (c : Chrono) (ticks : Int) (f : String)
    (hr : inI64 ticks = true) (hc : tryFmt c f = some (toCr u ticks)) :
    dtParse v u c (some f) = .ok ticks := by
  simp [dtParse, chosen, hc, fromCr_toCr v u ticks hr]

/-- chrono's answers for the text `"2020-01-01 00:00:00.500000000"` (what `strftime(None)` prints for
    1577836800500 ms): only the second listed format parses it -/
def chrono2020 : Chrono :=
  { dateTime := fun f => if f = "%Y-%m-%d %H:%M:%S.%f" then some ⟨1577836800, 500000000⟩ else none
    date := fun _ => none }

/-- non-vacuity of the round-trip hypotheses -/
example : dtParse .repaired .ms chrono2020 none = .ok 1577836800500 :=
  dt_roundtrip_mod_chrono _ _ _ _ (by decide) (by decide +kernel)

/-- non-vacuity: 2020-01-01 00:00:00.5 in milliseconds -/
example : fromCr .repaired .ms (toCr .ms 1577836800500) = .ok 1577836800500 := by decide +kernel
example : toCr .ms (-1) = ⟨-1, 999000000⟩ := by decide +kernel

/-! ## `Time::parse` -/

/-- `Time::parse` never panics, whatever chrono returns. -/
theorem timeParse_total (c : Option (Nat × Nat)) : (timeParse c).isPanic = false := by
  unfold timeParse; split <;> rfl

/-- and a parsed time of day is its nanosecond count after midnight -/
theorem timeParse_value (h m s frac : Nat) :
    timeParse (some ((h * 60 + m) * 60 + s, frac)) = .ok (timeOfDay h m s frac) := by
  simp [timeParse, timeOfDay]

/-! ## tables regenerated from the sources -/

def fieldName : Field → String
  | .nsecs => "nsecs"
  | .secs => "secs"
  | .months => "months"

/-- the format list of the model is the `TIME_RULE_VEC` of the source -/
theorem timeRuleVec_matches : Generated.timeRuleVec = timeRuleVec := by decide

/-- the unit table of the model is the `match unit.as_str()` of the source (constants of
    convert.rs resolved) -/
theorem durationUnits_matches :
    Generated.durationUnits = unitTable.map fun (u, f, k) => (String.ofList u, fieldName f, k) := by
  decide

end Tv.C18
