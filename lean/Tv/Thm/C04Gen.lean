import Tv.GenClosures
import Tv.Thm.C02Gen
import Tv.Lemmas.GenSim
import Tv.Thm.C04
import Mathlib.Tactic.Ring
import Mathlib.Tactic.FieldSimp
import Mathlib.Tactic.NormNum
/-!
# C04 — the closures regenerated from binary.rs / reg.rs are the model's closures

`Tv.Gen.<fn>.step` is written by translator/closures.py from the Rust source on every run.
For each of the 10 `rolling2_apply` / `rolling_apply` entry points of tea-rolling/src/binary.rs and
reg.rs that the translator covers (`ts_vcov`, `ts_vcorr`, `ts_vregx_alpha`, `ts_vregx_beta`,
`ts_vregx_all`, `ts_vreg`, `ts_vtsf`, `ts_vreg_slope`, `ts_vreg_intercept`, `ts_vreg_resid_mean`)
this file proves that the regenerated step function simulates the hand-written model closure of
`Model/C04.lean` (`*_step`), that its `min_periods` expression is the model's mask
(`*_minPeriods`), and — composing with the main theorems of `Thm/C04.lean` — that the regenerated
closure, driven over the callback sequence of either driver shape, produces the from-scratch
statistic at every position (`*_exact`).

The relation `R_<fn>` is equality of exactly the running sums the Rust closure keeps (the model's
`Cross` / `Trend` records carry more sums than some closures keep; each model `emit` reads only the
kept ones, which is what makes `*_emit` provable from `R_<fn>` alone).  No invariant beyond field
equality was needed: wherever the generated `Rat` code (totalised `x / 0 = 0`, truncated `n - 1`)
could differ from the exact value, the model token is `degen`, which `Agree` exempts.

`Agree sqrt o t` reads the model's `root s q` token as `s * sqrt q`; the correlation closed form is
rewritten under the root sign in the model (`sign(c)·sqrt(c²/(var_a var_b))` for
`c / sqrt(var_a var_b)`), so its values are compared by the weak form `AgreeW` (mask and branch
structure) and by the correspondence run.  `ts_vregx_all` returns a triple; `Agree3` is `Agree`
componentwise.
-/
set_option linter.unusedSimpArgs false
set_option linter.unusedTactic false
set_option linter.unreachableTactic false
set_option linter.unusedVariables false
namespace Tv.C04Gen
open Tv Tv.GenSim Tv.C04 Tv.Spec Tv.C04.Spec

theorem eps_eq : Gen.EPS = EPS := by norm_num [Gen.EPS, EPS]
theorem cast_pred (n : Nat) (h : 0 < n) : ((n - 1 : Nat) : Rat) = (n : Rat) - 1 := by
  rw [Nat.cast_sub h]; simp

/-- componentwise agreement of the `(alpha, beta, sse)` triple of `ts_vregx_all` -/
def Agree3 (sqrt : Rat → Rat) (o : Option Rat × Option Rat × Option Rat) (t : Out × Out × Out) : Prop :=
  Agree sqrt o.1 t.1 ∧ Agree sqrt o.2.1 t.2.1 ∧ Agree sqrt o.2.2 t.2.2

/-! ### `ts_vcov` -/
def R_ts_vcov (g : Gen.ts_vcov.St) (m : Cross) : Prop :=
  g.sum_a = m.sa ∧ g.sum_b = m.sb ∧ g.sum_ab = m.sab ∧ g.n = m.n
theorem ts_vcov_add (w mp : Nat) (g : Gen.ts_vcov.St) (m : Cross) (v : Pair) (h : R_ts_vcov g m) :
    R_ts_vcov (Gen.ts_vcov.add w g v) ((crossRoll (emitCov mp)).add m v) := by
  obtain ⟨h0, h1, h2, h3⟩ := h
  rcases v with ⟨_ | a, _ | b⟩ <;> simp [Gen.ts_vcov.add, crossRoll, Cross.add, Cross.remove, R_ts_vcov, h0, h1, h2, h3, pow_two, pow_succ] <;> try ring
theorem ts_vcov_post (w mp : Nat) (g : Gen.ts_vcov.St) (m : Cross) (x : Pair) (h : R_ts_vcov g m) :
    R_ts_vcov (Gen.ts_vcov.post w g (some x)) ((crossRoll (emitCov mp)).remove m x) := by
  obtain ⟨h0, h1, h2, h3⟩ := h
  rcases x with ⟨_ | a, _ | b⟩ <;> simp [Gen.ts_vcov.post, crossRoll, Cross.add, Cross.remove, R_ts_vcov, h0, h1, h2, h3, pow_two, pow_succ] <;> try ring
theorem ts_vcov_emit (sqrt : Rat → Rat) (w mp : Nat) (g : Gen.ts_vcov.St) (m : Cross) (v : Pair) (h : R_ts_vcov g m) :
    Agree sqrt (Gen.ts_vcov.emit sqrt w mp g v) ((crossRoll (emitCov mp)).emit m) := by
  obtain ⟨h0, h1, h2, h3⟩ := h
  simp only [Gen.ts_vcov.emit, crossRoll, emitCov, h0, h1, h2, h3, eps_eq, sq, decide_eq_true_eq, ge_iff_le, gt_iff_lt,
    Bool.and_eq_true]
  split_ifs with hm hd
  · trivial
  · have hpos : 0 < m.n := by
      rcases Nat.eq_zero_or_pos m.n with h | h
      · exact absurd (Or.inl (by simp [h])) hd
      · exact h
    rw [cast_pred _ hpos]; rfl
  · rfl
theorem ts_vcov_step (sqrt : Rat → Rat) (w mp : Nat) (g : Gen.ts_vcov.St) (m : Cross) (rm : Option (Pair)) (v : Pair) (h : R_ts_vcov g m) :
    R_ts_vcov (Gen.ts_vcov.step sqrt w mp g rm v).1 ((crossRoll (emitCov mp)).step m (rm.map id) (id v)).1 ∧
    (Agree sqrt) (Gen.ts_vcov.step sqrt w mp g rm v).2 ((crossRoll (emitCov mp)).step m (rm.map id) (id v)).2 :=
  hstep_of_parts id (Gen.ts_vcov.step sqrt w mp) (Gen.ts_vcov.pre sqrt w mp) (Gen.ts_vcov.post w) (Gen.ts_vcov.add w)
    (Gen.ts_vcov.emit sqrt w mp) (crossRoll (emitCov mp)) R_ts_vcov (Agree sqrt)
    (Gen.ts_vcov.step_eq sqrt w mp) (Gen.ts_vcov.pre_eq sqrt w mp) (ts_vcov_add w mp) (ts_vcov_post w mp) (fun _ => rfl)
    (ts_vcov_emit sqrt w mp) g m rm v h
theorem ts_vcov_minPeriods (w : Nat) (mp : Option Nat) : Gen.ts_vcov.minPeriods w mp = effMp mp w (Fn2.minK .cov) := by
  simp [Gen.ts_vcov.minPeriods, effMp, Fn2.minK]
theorem ts_vcov_init (w : Nat) : R_ts_vcov (Gen.ts_vcov.init w) Cross.zero := by
  simp [R_ts_vcov, Gen.ts_vcov.init, Cross.zero]
/-- the closure regenerated from the source of `ts_vcov`, driven over the callbacks of either driver
shape on two equal-length series, yields the sample covariance of the pairwise-complete window at every position -/
theorem ts_vcov_exact (sqrt : Rat → Rat) (sh : Shape) (xs ys : List (Option Rat)) (w : Nat) (mp : Option Nat)
    (hw : 1 ≤ w) (hlen : ys.length = xs.length) :
    List.Forall₂ (Agree sqrt)
      (genRun (Gen.ts_vcov.step sqrt w (Gen.ts_vcov.minPeriods w mp)) (Gen.ts_vcov.init w) (apply2Calls sh xs ys w))
      (rolling2 (cov (effMp mp w 2)) xs ys w) := by
  have h := run_sim id _ _ R_ts_vcov (Agree sqrt) (ts_vcov_step sqrt w (Gen.ts_vcov.minPeriods w mp)) (apply2Calls sh xs ys w) _ _ (ts_vcov_init w)
  rw [ts_vcov_minPeriods, mapCalls_id] at h
  have e := C04.vcov_exact sh xs ys w mp hw hlen
  unfold ts2 at e
  simp only [Fn2.minK] at e h ⊢
  rw [ts_vcov_minPeriods, ← e]; exact h

/-! ### `ts_vcorr` -/
def R_ts_vcorr (g : Gen.ts_vcorr.St) (m : Cross) : Prop :=
  g.sum_a = m.sa ∧ g.sum2_a = m.saa ∧ g.sum_b = m.sb ∧ g.sum2_b = m.sbb ∧ g.sum_ab = m.sab ∧ g.n = m.n
theorem ts_vcorr_add (w mp : Nat) (g : Gen.ts_vcorr.St) (m : Cross) (v : Pair) (h : R_ts_vcorr g m) :
    R_ts_vcorr (Gen.ts_vcorr.add w g v) ((crossRoll (emitCorr mp)).add m v) := by
  obtain ⟨h0, h1, h2, h3, h4, h5⟩ := h
  rcases v with ⟨_ | a, _ | b⟩ <;> simp [Gen.ts_vcorr.add, crossRoll, Cross.add, Cross.remove, R_ts_vcorr, h0, h1, h2, h3, h4, h5, pow_two, pow_succ] <;> try ring
theorem ts_vcorr_post (w mp : Nat) (g : Gen.ts_vcorr.St) (m : Cross) (x : Pair) (h : R_ts_vcorr g m) :
    R_ts_vcorr (Gen.ts_vcorr.post w g (some x)) ((crossRoll (emitCorr mp)).remove m x) := by
  obtain ⟨h0, h1, h2, h3, h4, h5⟩ := h
  rcases x with ⟨_ | a, _ | b⟩ <;> simp [Gen.ts_vcorr.post, crossRoll, Cross.add, Cross.remove, R_ts_vcorr, h0, h1, h2, h3, h4, h5, pow_two, pow_succ] <;> try ring
theorem ts_vcorr_emit (sqrt : Rat → Rat) (w mp : Nat) (g : Gen.ts_vcorr.St) (m : Cross) (v : Pair) (h : R_ts_vcorr g m) :
    AgreeW (Gen.ts_vcorr.emit sqrt w mp g v) ((crossRoll (emitCorr mp)).emit m) := by
  obtain ⟨h0, h1, h2, h3, h4, h5⟩ := h
  simp only [Gen.ts_vcorr.emit, crossRoll, emitCorr, h0, h1, h2, h3, h4, h5, eps_eq, sq, decide_eq_true_eq, ge_iff_le, gt_iff_lt,
    Bool.and_eq_true]
  split_ifs <;> first | rfl | trivial | simp [AgreeW]
theorem ts_vcorr_step (sqrt : Rat → Rat) (w mp : Nat) (g : Gen.ts_vcorr.St) (m : Cross) (rm : Option (Pair)) (v : Pair) (h : R_ts_vcorr g m) :
    R_ts_vcorr (Gen.ts_vcorr.step sqrt w mp g rm v).1 ((crossRoll (emitCorr mp)).step m (rm.map id) (id v)).1 ∧
    AgreeW (Gen.ts_vcorr.step sqrt w mp g rm v).2 ((crossRoll (emitCorr mp)).step m (rm.map id) (id v)).2 :=
  hstep_of_parts id (Gen.ts_vcorr.step sqrt w mp) (Gen.ts_vcorr.pre sqrt w mp) (Gen.ts_vcorr.post w) (Gen.ts_vcorr.add w)
    (Gen.ts_vcorr.emit sqrt w mp) (crossRoll (emitCorr mp)) R_ts_vcorr AgreeW
    (Gen.ts_vcorr.step_eq sqrt w mp) (Gen.ts_vcorr.pre_eq sqrt w mp) (ts_vcorr_add w mp) (ts_vcorr_post w mp) (fun _ => rfl)
    (ts_vcorr_emit sqrt w mp) g m rm v h
theorem ts_vcorr_minPeriods (w : Nat) (mp : Option Nat) : Gen.ts_vcorr.minPeriods w mp = effMp mp w (Fn2.minK .corr) := by
  simp [Gen.ts_vcorr.minPeriods, effMp, Fn2.minK]
theorem ts_vcorr_init (w : Nat) : R_ts_vcorr (Gen.ts_vcorr.init w) Cross.zero := by
  simp [R_ts_vcorr, Gen.ts_vcorr.init, Cross.zero]
/-- the closure regenerated from the source of `ts_vcorr`, driven over the callbacks of either driver
shape on two equal-length series, yields the Pearson correlation of the pairwise-complete window (mask and branch structure; see `AgreeW`) at every position -/
theorem ts_vcorr_exact (sqrt : Rat → Rat) (sh : Shape) (xs ys : List (Option Rat)) (w : Nat) (mp : Option Nat)
    (hw : 1 ≤ w) (hlen : ys.length = xs.length) :
    List.Forall₂ AgreeW
      (genRun (Gen.ts_vcorr.step sqrt w (Gen.ts_vcorr.minPeriods w mp)) (Gen.ts_vcorr.init w) (apply2Calls sh xs ys w))
      (rolling2 (corr (effMp mp w 0)) xs ys w) := by
  have h := run_sim id _ _ R_ts_vcorr AgreeW (ts_vcorr_step sqrt w (Gen.ts_vcorr.minPeriods w mp)) (apply2Calls sh xs ys w) _ _ (ts_vcorr_init w)
  rw [ts_vcorr_minPeriods, mapCalls_id] at h
  have e := C04.vcorr_exact sh xs ys w mp hw hlen
  unfold ts2 at e
  simp only [Fn2.minK] at e h ⊢
  rw [ts_vcorr_minPeriods, ← e]; exact h

/-! ### `ts_vregx_alpha` -/
def R_ts_vregx_alpha (g : Gen.ts_vregx_alpha.St) (m : Cross) : Prop :=
  g.sum_a = m.sa ∧ g.sum_b = m.sb ∧ g.sum_b2 = m.sbb ∧ g.sum_ab = m.sab ∧ g.n = m.n
theorem ts_vregx_alpha_add (w mp : Nat) (g : Gen.ts_vregx_alpha.St) (m : Cross) (v : Pair) (h : R_ts_vregx_alpha g m) :
    R_ts_vregx_alpha (Gen.ts_vregx_alpha.add w g v) ((crossRoll (emitAlpha mp)).add m v) := by
  obtain ⟨h0, h1, h2, h3, h4⟩ := h
  rcases v with ⟨_ | a, _ | b⟩ <;> simp [Gen.ts_vregx_alpha.add, crossRoll, Cross.add, Cross.remove, R_ts_vregx_alpha, h0, h1, h2, h3, h4, pow_two, pow_succ] <;> try ring
theorem ts_vregx_alpha_post (w mp : Nat) (g : Gen.ts_vregx_alpha.St) (m : Cross) (x : Pair) (h : R_ts_vregx_alpha g m) :
    R_ts_vregx_alpha (Gen.ts_vregx_alpha.post w g (some x)) ((crossRoll (emitAlpha mp)).remove m x) := by
  obtain ⟨h0, h1, h2, h3, h4⟩ := h
  rcases x with ⟨_ | a, _ | b⟩ <;> simp [Gen.ts_vregx_alpha.post, crossRoll, Cross.add, Cross.remove, R_ts_vregx_alpha, h0, h1, h2, h3, h4, pow_two, pow_succ] <;> try ring
theorem ts_vregx_alpha_emit (sqrt : Rat → Rat) (w mp : Nat) (g : Gen.ts_vregx_alpha.St) (m : Cross) (v : Pair) (h : R_ts_vregx_alpha g m) :
    Agree sqrt (Gen.ts_vregx_alpha.emit sqrt w mp g v) ((crossRoll (emitAlpha mp)).emit m) := by
  obtain ⟨h0, h1, h2, h3, h4⟩ := h
  simp only [Gen.ts_vregx_alpha.emit, crossRoll, emitAlpha, Cross.alpha, Cross.beta, Cross.den, h0, h1, h2, h3, h4, eps_eq, sq, decide_eq_true_eq, ge_iff_le, gt_iff_lt,
    Bool.and_eq_true]
  split_ifs <;> first | rfl | trivial
theorem ts_vregx_alpha_step (sqrt : Rat → Rat) (w mp : Nat) (g : Gen.ts_vregx_alpha.St) (m : Cross) (rm : Option (Pair)) (v : Pair) (h : R_ts_vregx_alpha g m) :
    R_ts_vregx_alpha (Gen.ts_vregx_alpha.step sqrt w mp g rm v).1 ((crossRoll (emitAlpha mp)).step m (rm.map id) (id v)).1 ∧
    (Agree sqrt) (Gen.ts_vregx_alpha.step sqrt w mp g rm v).2 ((crossRoll (emitAlpha mp)).step m (rm.map id) (id v)).2 :=
  hstep_of_parts id (Gen.ts_vregx_alpha.step sqrt w mp) (Gen.ts_vregx_alpha.pre sqrt w mp) (Gen.ts_vregx_alpha.post w) (Gen.ts_vregx_alpha.add w)
    (Gen.ts_vregx_alpha.emit sqrt w mp) (crossRoll (emitAlpha mp)) R_ts_vregx_alpha (Agree sqrt)
    (Gen.ts_vregx_alpha.step_eq sqrt w mp) (Gen.ts_vregx_alpha.pre_eq sqrt w mp) (ts_vregx_alpha_add w mp) (ts_vregx_alpha_post w mp) (fun _ => rfl)
    (ts_vregx_alpha_emit sqrt w mp) g m rm v h
theorem ts_vregx_alpha_minPeriods (w : Nat) (mp : Option Nat) : Gen.ts_vregx_alpha.minPeriods w mp = effMp mp w (Fn2.minK .alpha) := by
  simp [Gen.ts_vregx_alpha.minPeriods, effMp, Fn2.minK]
theorem ts_vregx_alpha_init (w : Nat) : R_ts_vregx_alpha (Gen.ts_vregx_alpha.init w) Cross.zero := by
  simp [R_ts_vregx_alpha, Gen.ts_vregx_alpha.init, Cross.zero]
/-- the closure regenerated from the source of `ts_vregx_alpha`, driven over the callbacks of either driver
shape on two equal-length series, yields the least-squares intercept of the pairwise-complete window at every position -/
theorem ts_vregx_alpha_exact (sqrt : Rat → Rat) (sh : Shape) (xs ys : List (Option Rat)) (w : Nat) (mp : Option Nat)
    (hw : 1 ≤ w) (hlen : ys.length = xs.length) :
    List.Forall₂ (Agree sqrt)
      (genRun (Gen.ts_vregx_alpha.step sqrt w (Gen.ts_vregx_alpha.minPeriods w mp)) (Gen.ts_vregx_alpha.init w) (apply2Calls sh xs ys w))
      (rolling2 (regxAlpha (effMp mp w 0)) xs ys w) := by
  have h := run_sim id _ _ R_ts_vregx_alpha (Agree sqrt) (ts_vregx_alpha_step sqrt w (Gen.ts_vregx_alpha.minPeriods w mp)) (apply2Calls sh xs ys w) _ _ (ts_vregx_alpha_init w)
  rw [ts_vregx_alpha_minPeriods, mapCalls_id] at h
  have e := C04.vregx_alpha_exact sh xs ys w mp hw hlen
  unfold ts2 at e
  simp only [Fn2.minK] at e h ⊢
  rw [ts_vregx_alpha_minPeriods, ← e]; exact h

/-! ### `ts_vregx_beta` -/
def R_ts_vregx_beta (g : Gen.ts_vregx_beta.St) (m : Cross) : Prop :=
  g.sum_a = m.sa ∧ g.sum_b = m.sb ∧ g.sum_b2 = m.sbb ∧ g.sum_ab = m.sab ∧ g.n = m.n
theorem ts_vregx_beta_add (w mp : Nat) (g : Gen.ts_vregx_beta.St) (m : Cross) (v : Pair) (h : R_ts_vregx_beta g m) :
    R_ts_vregx_beta (Gen.ts_vregx_beta.add w g v) ((crossRoll (emitBeta mp)).add m v) := by
  obtain ⟨h0, h1, h2, h3, h4⟩ := h
  rcases v with ⟨_ | a, _ | b⟩ <;> simp [Gen.ts_vregx_beta.add, crossRoll, Cross.add, Cross.remove, R_ts_vregx_beta, h0, h1, h2, h3, h4, pow_two, pow_succ] <;> try ring
theorem ts_vregx_beta_post (w mp : Nat) (g : Gen.ts_vregx_beta.St) (m : Cross) (x : Pair) (h : R_ts_vregx_beta g m) :
    R_ts_vregx_beta (Gen.ts_vregx_beta.post w g (some x)) ((crossRoll (emitBeta mp)).remove m x) := by
  obtain ⟨h0, h1, h2, h3, h4⟩ := h
  rcases x with ⟨_ | a, _ | b⟩ <;> simp [Gen.ts_vregx_beta.post, crossRoll, Cross.add, Cross.remove, R_ts_vregx_beta, h0, h1, h2, h3, h4, pow_two, pow_succ] <;> try ring
theorem ts_vregx_beta_emit (sqrt : Rat → Rat) (w mp : Nat) (g : Gen.ts_vregx_beta.St) (m : Cross) (v : Pair) (h : R_ts_vregx_beta g m) :
    Agree sqrt (Gen.ts_vregx_beta.emit sqrt w mp g v) ((crossRoll (emitBeta mp)).emit m) := by
  obtain ⟨h0, h1, h2, h3, h4⟩ := h
  simp only [Gen.ts_vregx_beta.emit, crossRoll, emitBeta, Cross.alpha, Cross.beta, Cross.den, h0, h1, h2, h3, h4, eps_eq, sq, decide_eq_true_eq, ge_iff_le, gt_iff_lt,
    Bool.and_eq_true]
  split_ifs <;> first | rfl | trivial
theorem ts_vregx_beta_step (sqrt : Rat → Rat) (w mp : Nat) (g : Gen.ts_vregx_beta.St) (m : Cross) (rm : Option (Pair)) (v : Pair) (h : R_ts_vregx_beta g m) :
    R_ts_vregx_beta (Gen.ts_vregx_beta.step sqrt w mp g rm v).1 ((crossRoll (emitBeta mp)).step m (rm.map id) (id v)).1 ∧
    (Agree sqrt) (Gen.ts_vregx_beta.step sqrt w mp g rm v).2 ((crossRoll (emitBeta mp)).step m (rm.map id) (id v)).2 :=
  hstep_of_parts id (Gen.ts_vregx_beta.step sqrt w mp) (Gen.ts_vregx_beta.pre sqrt w mp) (Gen.ts_vregx_beta.post w) (Gen.ts_vregx_beta.add w)
    (Gen.ts_vregx_beta.emit sqrt w mp) (crossRoll (emitBeta mp)) R_ts_vregx_beta (Agree sqrt)
    (Gen.ts_vregx_beta.step_eq sqrt w mp) (Gen.ts_vregx_beta.pre_eq sqrt w mp) (ts_vregx_beta_add w mp) (ts_vregx_beta_post w mp) (fun _ => rfl)
    (ts_vregx_beta_emit sqrt w mp) g m rm v h
theorem ts_vregx_beta_minPeriods (w : Nat) (mp : Option Nat) : Gen.ts_vregx_beta.minPeriods w mp = effMp mp w (Fn2.minK .beta) := by
  simp [Gen.ts_vregx_beta.minPeriods, effMp, Fn2.minK]
theorem ts_vregx_beta_init (w : Nat) : R_ts_vregx_beta (Gen.ts_vregx_beta.init w) Cross.zero := by
  simp [R_ts_vregx_beta, Gen.ts_vregx_beta.init, Cross.zero]
/-- the closure regenerated from the source of `ts_vregx_beta`, driven over the callbacks of either driver
shape on two equal-length series, yields the least-squares slope of the pairwise-complete window at every position -/
theorem ts_vregx_beta_exact (sqrt : Rat → Rat) (sh : Shape) (xs ys : List (Option Rat)) (w : Nat) (mp : Option Nat)
    (hw : 1 ≤ w) (hlen : ys.length = xs.length) :
    List.Forall₂ (Agree sqrt)
      (genRun (Gen.ts_vregx_beta.step sqrt w (Gen.ts_vregx_beta.minPeriods w mp)) (Gen.ts_vregx_beta.init w) (apply2Calls sh xs ys w))
      (rolling2 (regxBeta (effMp mp w 0)) xs ys w) := by
  have h := run_sim id _ _ R_ts_vregx_beta (Agree sqrt) (ts_vregx_beta_step sqrt w (Gen.ts_vregx_beta.minPeriods w mp)) (apply2Calls sh xs ys w) _ _ (ts_vregx_beta_init w)
  rw [ts_vregx_beta_minPeriods, mapCalls_id] at h
  have e := C04.vregx_beta_exact sh xs ys w mp hw hlen
  unfold ts2 at e
  simp only [Fn2.minK] at e h ⊢
  rw [ts_vregx_beta_minPeriods, ← e]; exact h

/-! ### `ts_vregx_all` -/
def R_ts_vregx_all (g : Gen.ts_vregx_all.St) (m : Cross) : Prop :=
  g.sum_a = m.sa ∧ g.sum_b = m.sb ∧ g.sum_b2 = m.sbb ∧ g.sum_ab = m.sab ∧ g.sum_a2 = m.saa ∧ g.n = m.n
theorem ts_vregx_all_add (w mp : Nat) (g : Gen.ts_vregx_all.St) (m : Cross) (v : Pair) (h : R_ts_vregx_all g m) :
    R_ts_vregx_all (Gen.ts_vregx_all.add w g v) ((crossRoll (emitAll mp)).add m v) := by
  obtain ⟨h0, h1, h2, h3, h4, h5⟩ := h
  rcases v with ⟨_ | a, _ | b⟩ <;> simp [Gen.ts_vregx_all.add, crossRoll, Cross.add, Cross.remove, R_ts_vregx_all, h0, h1, h2, h3, h4, h5, pow_two, pow_succ] <;> try ring
theorem ts_vregx_all_post (w mp : Nat) (g : Gen.ts_vregx_all.St) (m : Cross) (x : Pair) (h : R_ts_vregx_all g m) :
    R_ts_vregx_all (Gen.ts_vregx_all.post w g (some x)) ((crossRoll (emitAll mp)).remove m x) := by
  obtain ⟨h0, h1, h2, h3, h4, h5⟩ := h
  rcases x with ⟨_ | a, _ | b⟩ <;> simp [Gen.ts_vregx_all.post, crossRoll, Cross.add, Cross.remove, R_ts_vregx_all, h0, h1, h2, h3, h4, h5, pow_two, pow_succ] <;> try ring
theorem ts_vregx_all_emit (sqrt : Rat → Rat) (w mp : Nat) (g : Gen.ts_vregx_all.St) (m : Cross) (v : Pair) (h : R_ts_vregx_all g m) :
    Agree3 sqrt (Gen.ts_vregx_all.emit sqrt w mp g v) ((crossRoll (emitAll mp)).emit m) := by
  obtain ⟨h0, h1, h2, h3, h4, h5⟩ := h
  simp only [Gen.ts_vregx_all.emit, crossRoll, emitAll, emitAlpha, emitBeta, emitSse, Cross.sse, Cross.alpha, Cross.beta, Cross.den, h0, h1, h2, h3, h4, h5, eps_eq, sq, decide_eq_true_eq, ge_iff_le, gt_iff_lt,
    Bool.and_eq_true]
  by_cases hm : mp ≤ m.n
  · by_cases hd : m.degenerate
    · simp only [hm, hd, if_true, Agree3, Agree, and_self]
    · simp only [hm, hd, if_true, if_false, Agree3, Agree, and_self]
  · simp only [hm, if_false, Agree3, Agree, and_self]
theorem ts_vregx_all_step (sqrt : Rat → Rat) (w mp : Nat) (g : Gen.ts_vregx_all.St) (m : Cross) (rm : Option (Pair)) (v : Pair) (h : R_ts_vregx_all g m) :
    R_ts_vregx_all (Gen.ts_vregx_all.step sqrt w mp g rm v).1 ((crossRoll (emitAll mp)).step m (rm.map id) (id v)).1 ∧
    (Agree3 sqrt) (Gen.ts_vregx_all.step sqrt w mp g rm v).2 ((crossRoll (emitAll mp)).step m (rm.map id) (id v)).2 :=
  hstep_of_parts id (Gen.ts_vregx_all.step sqrt w mp) (Gen.ts_vregx_all.pre sqrt w mp) (Gen.ts_vregx_all.post w) (Gen.ts_vregx_all.add w)
    (Gen.ts_vregx_all.emit sqrt w mp) (crossRoll (emitAll mp)) R_ts_vregx_all (Agree3 sqrt)
    (Gen.ts_vregx_all.step_eq sqrt w mp) (Gen.ts_vregx_all.pre_eq sqrt w mp) (ts_vregx_all_add w mp) (ts_vregx_all_post w mp) (fun _ => rfl)
    (ts_vregx_all_emit sqrt w mp) g m rm v h
theorem ts_vregx_all_minPeriods (w : Nat) (mp : Option Nat) : Gen.ts_vregx_all.minPeriods w mp = effMp mp w 0 := by
  simp [Gen.ts_vregx_all.minPeriods, effMp, Fn2.minK]
theorem ts_vregx_all_init (w : Nat) : R_ts_vregx_all (Gen.ts_vregx_all.init w) Cross.zero := by
  simp [R_ts_vregx_all, Gen.ts_vregx_all.init, Cross.zero]
/-- the closure regenerated from the source of `ts_vregx_all`, driven over the callbacks of either driver
shape on two equal-length series, yields `(α, β, SSE)` of the least-squares line of the pairwise-complete window at every position -/
theorem ts_vregx_all_exact (sqrt : Rat → Rat) (sh : Shape) (xs ys : List (Option Rat)) (w : Nat) (mp : Option Nat)
    (hw : 1 ≤ w) (hlen : ys.length = xs.length) :
    List.Forall₂ (Agree3 sqrt)
      (genRun (Gen.ts_vregx_all.step sqrt w (Gen.ts_vregx_all.minPeriods w mp)) (Gen.ts_vregx_all.init w) (apply2Calls sh xs ys w))
      ((List.range xs.length).map fun i =>
        let l := complete (window (xs.zip ys) i w)
        (regxAlpha (effMp mp w 0) l, regxBeta (effMp mp w 0) l, regxSse (effMp mp w 0) l)) := by
  have h := run_sim id _ _ R_ts_vregx_all (Agree3 sqrt) (ts_vregx_all_step sqrt w (Gen.ts_vregx_all.minPeriods w mp)) (apply2Calls sh xs ys w) _ _ (ts_vregx_all_init w)
  rw [ts_vregx_all_minPeriods, mapCalls_id] at h
  have e := C04.vregx_all_exact sh xs ys w mp hw hlen
  unfold tsRegxAll at e
  rw [ts_vregx_all_minPeriods, ← e]; exact h

/-! ### `ts_vreg` -/
def R_ts_vreg (g : Gen.ts_vreg.St) (m : Trend) : Prop :=
  g.sum = m.sum ∧ g.sum_xt = m.sxt ∧ g.n = m.n
theorem ts_vreg_add (w mp : Nat) (g : Gen.ts_vreg.St) (m : Trend) (v : Option Rat) (h : R_ts_vreg g m) :
    R_ts_vreg (Gen.ts_vreg.add w g v) ((trendRoll (Fn1.emit .reg mp)).add m v) := by
  obtain ⟨h0, h1, h2⟩ := h
  cases v <;> simp [Gen.ts_vreg.add, trendRoll, Trend.add, Trend.remove, R_ts_vreg, h0, h1, h2, pow_two, pow_succ] <;> try ring
theorem ts_vreg_post (w mp : Nat) (g : Gen.ts_vreg.St) (m : Trend) (x : Option Rat) (h : R_ts_vreg g m) :
    R_ts_vreg (Gen.ts_vreg.post w g (some x)) ((trendRoll (Fn1.emit .reg mp)).remove m x) := by
  obtain ⟨h0, h1, h2⟩ := h
  cases x <;> simp [Gen.ts_vreg.post, trendRoll, Trend.add, Trend.remove, R_ts_vreg, h0, h1, h2, pow_two, pow_succ] <;> try ring
theorem ts_vreg_emit (sqrt : Rat → Rat) (w mp : Nat) (g : Gen.ts_vreg.St) (m : Trend) (v : Option Rat) (h : R_ts_vreg g m) :
    Agree sqrt (Gen.ts_vreg.emit sqrt w mp g v) ((trendRoll (Fn1.emit .reg mp)).emit m) := by
  obtain ⟨h0, h1, h2⟩ := h
  simp only [Gen.ts_vreg.emit, trendRoll, Fn1.emit, trendEmit, Trend.fitted, Trend.forecast, Trend.intercept, Trend.slope, Trend.divisor, Trend.nSumTT, Trend.sumT, h0, h1, h2, eps_eq, sq, pow_one, Nat.mul_comm m.n 2, decide_eq_true_eq, ge_iff_le, gt_iff_lt,
    Bool.and_eq_true]
  split_ifs <;> first | rfl | trivial
theorem ts_vreg_step (sqrt : Rat → Rat) (w mp : Nat) (g : Gen.ts_vreg.St) (m : Trend) (rm : Option (Option Rat)) (v : Option Rat) (h : R_ts_vreg g m) :
    R_ts_vreg (Gen.ts_vreg.step sqrt w mp g rm v).1 ((trendRoll (Fn1.emit .reg mp)).step m (rm.map id) (id v)).1 ∧
    (Agree sqrt) (Gen.ts_vreg.step sqrt w mp g rm v).2 ((trendRoll (Fn1.emit .reg mp)).step m (rm.map id) (id v)).2 :=
  hstep_of_parts id (Gen.ts_vreg.step sqrt w mp) (Gen.ts_vreg.pre sqrt w mp) (Gen.ts_vreg.post w) (Gen.ts_vreg.add w)
    (Gen.ts_vreg.emit sqrt w mp) (trendRoll (Fn1.emit .reg mp)) R_ts_vreg (Agree sqrt)
    (Gen.ts_vreg.step_eq sqrt w mp) (Gen.ts_vreg.pre_eq sqrt w mp) (ts_vreg_add w mp) (ts_vreg_post w mp) (fun _ => rfl)
    (ts_vreg_emit sqrt w mp) g m rm v h
theorem ts_vreg_minPeriods (w : Nat) (mp : Option Nat) : Gen.ts_vreg.minPeriods w mp = effMp mp w 0 := by
  simp [Gen.ts_vreg.minPeriods, effMp, Fn2.minK]
theorem ts_vreg_init (w : Nat) : R_ts_vreg (Gen.ts_vreg.init w) Trend.zero := by
  simp [R_ts_vreg, Gen.ts_vreg.init, Trend.zero]
/-- the closure regenerated from the source of `ts_vreg`, driven over the callbacks of either driver
shape, yields the fitted value `α + β n` of the least-squares line on `t = 1..n` (valid values of the window) at every position -/
theorem ts_vreg_exact (sqrt : Rat → Rat) (sh : Shape) (xs : List (Option Rat)) (w : Nat) (mp : Option Nat) (hw : 1 ≤ w) :
    List.Forall₂ (Agree sqrt)
      (genRun (Gen.ts_vreg.step sqrt w (Gen.ts_vreg.minPeriods w mp)) (Gen.ts_vreg.init w) (applyCalls sh xs w))
      (rolling1 (trendFitted (effMp mp w 0)) xs w) := by
  have h := run_sim id _ _ R_ts_vreg (Agree sqrt) (ts_vreg_step sqrt w (Gen.ts_vreg.minPeriods w mp)) (applyCalls sh xs w) _ _ (ts_vreg_init w)
  rw [ts_vreg_minPeriods, mapCalls_id] at h
  have e := C04.vreg_exact sh xs w mp hw
  unfold ts1 at e
  rw [ts_vreg_minPeriods, ← e]; exact h

/-! ### `ts_vtsf` -/
def R_ts_vtsf (g : Gen.ts_vtsf.St) (m : Trend) : Prop :=
  g.sum = m.sum ∧ g.sum_xt = m.sxt ∧ g.n = m.n
theorem ts_vtsf_add (w mp : Nat) (g : Gen.ts_vtsf.St) (m : Trend) (v : Option Rat) (h : R_ts_vtsf g m) :
    R_ts_vtsf (Gen.ts_vtsf.add w g v) ((trendRoll (Fn1.emit .tsf mp)).add m v) := by
  obtain ⟨h0, h1, h2⟩ := h
  cases v <;> simp [Gen.ts_vtsf.add, trendRoll, Trend.add, Trend.remove, R_ts_vtsf, h0, h1, h2, pow_two, pow_succ] <;> try ring
theorem ts_vtsf_post (w mp : Nat) (g : Gen.ts_vtsf.St) (m : Trend) (x : Option Rat) (h : R_ts_vtsf g m) :
    R_ts_vtsf (Gen.ts_vtsf.post w g (some x)) ((trendRoll (Fn1.emit .tsf mp)).remove m x) := by
  obtain ⟨h0, h1, h2⟩ := h
  cases x <;> simp [Gen.ts_vtsf.post, trendRoll, Trend.add, Trend.remove, R_ts_vtsf, h0, h1, h2, pow_two, pow_succ] <;> try ring
theorem ts_vtsf_emit (sqrt : Rat → Rat) (w mp : Nat) (g : Gen.ts_vtsf.St) (m : Trend) (v : Option Rat) (h : R_ts_vtsf g m) :
    Agree sqrt (Gen.ts_vtsf.emit sqrt w mp g v) ((trendRoll (Fn1.emit .tsf mp)).emit m) := by
  obtain ⟨h0, h1, h2⟩ := h
  simp only [Gen.ts_vtsf.emit, trendRoll, Fn1.emit, trendEmit, Trend.fitted, Trend.forecast, Trend.intercept, Trend.slope, Trend.divisor, Trend.nSumTT, Trend.sumT, h0, h1, h2, eps_eq, sq, pow_one, Nat.mul_comm m.n 2, decide_eq_true_eq, ge_iff_le, gt_iff_lt,
    Bool.and_eq_true]
  split_ifs <;> first | rfl | trivial
theorem ts_vtsf_step (sqrt : Rat → Rat) (w mp : Nat) (g : Gen.ts_vtsf.St) (m : Trend) (rm : Option (Option Rat)) (v : Option Rat) (h : R_ts_vtsf g m) :
    R_ts_vtsf (Gen.ts_vtsf.step sqrt w mp g rm v).1 ((trendRoll (Fn1.emit .tsf mp)).step m (rm.map id) (id v)).1 ∧
    (Agree sqrt) (Gen.ts_vtsf.step sqrt w mp g rm v).2 ((trendRoll (Fn1.emit .tsf mp)).step m (rm.map id) (id v)).2 :=
  hstep_of_parts id (Gen.ts_vtsf.step sqrt w mp) (Gen.ts_vtsf.pre sqrt w mp) (Gen.ts_vtsf.post w) (Gen.ts_vtsf.add w)
    (Gen.ts_vtsf.emit sqrt w mp) (trendRoll (Fn1.emit .tsf mp)) R_ts_vtsf (Agree sqrt)
    (Gen.ts_vtsf.step_eq sqrt w mp) (Gen.ts_vtsf.pre_eq sqrt w mp) (ts_vtsf_add w mp) (ts_vtsf_post w mp) (fun _ => rfl)
    (ts_vtsf_emit sqrt w mp) g m rm v h
theorem ts_vtsf_minPeriods (w : Nat) (mp : Option Nat) : Gen.ts_vtsf.minPeriods w mp = effMp mp w 0 := by
  simp [Gen.ts_vtsf.minPeriods, effMp, Fn2.minK]
theorem ts_vtsf_init (w : Nat) : R_ts_vtsf (Gen.ts_vtsf.init w) Trend.zero := by
  simp [R_ts_vtsf, Gen.ts_vtsf.init, Trend.zero]
/-- the closure regenerated from the source of `ts_vtsf`, driven over the callbacks of either driver
shape, yields the one-step-ahead forecast `α + β (n+1)` (valid values of the window) at every position -/
theorem ts_vtsf_exact (sqrt : Rat → Rat) (sh : Shape) (xs : List (Option Rat)) (w : Nat) (mp : Option Nat) (hw : 1 ≤ w) :
    List.Forall₂ (Agree sqrt)
      (genRun (Gen.ts_vtsf.step sqrt w (Gen.ts_vtsf.minPeriods w mp)) (Gen.ts_vtsf.init w) (applyCalls sh xs w))
      (rolling1 (trendForecast (effMp mp w 0)) xs w) := by
  have h := run_sim id _ _ R_ts_vtsf (Agree sqrt) (ts_vtsf_step sqrt w (Gen.ts_vtsf.minPeriods w mp)) (applyCalls sh xs w) _ _ (ts_vtsf_init w)
  rw [ts_vtsf_minPeriods, mapCalls_id] at h
  have e := C04.vtsf_exact sh xs w mp hw
  unfold ts1 at e
  rw [ts_vtsf_minPeriods, ← e]; exact h

/-! ### `ts_vreg_slope` -/
def R_ts_vreg_slope (g : Gen.ts_vreg_slope.St) (m : Trend) : Prop :=
  g.sum = m.sum ∧ g.sum_xt = m.sxt ∧ g.n = m.n
theorem ts_vreg_slope_add (w mp : Nat) (g : Gen.ts_vreg_slope.St) (m : Trend) (v : Option Rat) (h : R_ts_vreg_slope g m) :
    R_ts_vreg_slope (Gen.ts_vreg_slope.add w g v) ((trendRoll (Fn1.emit .slope mp)).add m v) := by
  obtain ⟨h0, h1, h2⟩ := h
  cases v <;> simp [Gen.ts_vreg_slope.add, trendRoll, Trend.add, Trend.remove, R_ts_vreg_slope, h0, h1, h2, pow_two, pow_succ] <;> try ring
theorem ts_vreg_slope_post (w mp : Nat) (g : Gen.ts_vreg_slope.St) (m : Trend) (x : Option Rat) (h : R_ts_vreg_slope g m) :
    R_ts_vreg_slope (Gen.ts_vreg_slope.post w g (some x)) ((trendRoll (Fn1.emit .slope mp)).remove m x) := by
  obtain ⟨h0, h1, h2⟩ := h
  cases x <;> simp [Gen.ts_vreg_slope.post, trendRoll, Trend.add, Trend.remove, R_ts_vreg_slope, h0, h1, h2, pow_two, pow_succ] <;> try ring
theorem ts_vreg_slope_emit (sqrt : Rat → Rat) (w mp : Nat) (g : Gen.ts_vreg_slope.St) (m : Trend) (v : Option Rat) (h : R_ts_vreg_slope g m) :
    Agree sqrt (Gen.ts_vreg_slope.emit sqrt w mp g v) ((trendRoll (Fn1.emit .slope mp)).emit m) := by
  obtain ⟨h0, h1, h2⟩ := h
  simp only [Gen.ts_vreg_slope.emit, trendRoll, Fn1.emit, trendEmit, Trend.fitted, Trend.forecast, Trend.intercept, Trend.slope, Trend.divisor, Trend.nSumTT, Trend.sumT, h0, h1, h2, eps_eq, sq, pow_one, Nat.mul_comm m.n 2, decide_eq_true_eq, ge_iff_le, gt_iff_lt,
    Bool.and_eq_true]
  split_ifs <;> first | rfl | trivial
theorem ts_vreg_slope_step (sqrt : Rat → Rat) (w mp : Nat) (g : Gen.ts_vreg_slope.St) (m : Trend) (rm : Option (Option Rat)) (v : Option Rat) (h : R_ts_vreg_slope g m) :
    R_ts_vreg_slope (Gen.ts_vreg_slope.step sqrt w mp g rm v).1 ((trendRoll (Fn1.emit .slope mp)).step m (rm.map id) (id v)).1 ∧
    (Agree sqrt) (Gen.ts_vreg_slope.step sqrt w mp g rm v).2 ((trendRoll (Fn1.emit .slope mp)).step m (rm.map id) (id v)).2 :=
  hstep_of_parts id (Gen.ts_vreg_slope.step sqrt w mp) (Gen.ts_vreg_slope.pre sqrt w mp) (Gen.ts_vreg_slope.post w) (Gen.ts_vreg_slope.add w)
    (Gen.ts_vreg_slope.emit sqrt w mp) (trendRoll (Fn1.emit .slope mp)) R_ts_vreg_slope (Agree sqrt)
    (Gen.ts_vreg_slope.step_eq sqrt w mp) (Gen.ts_vreg_slope.pre_eq sqrt w mp) (ts_vreg_slope_add w mp) (ts_vreg_slope_post w mp) (fun _ => rfl)
    (ts_vreg_slope_emit sqrt w mp) g m rm v h
theorem ts_vreg_slope_minPeriods (w : Nat) (mp : Option Nat) : Gen.ts_vreg_slope.minPeriods w mp = effMp mp w 0 := by
  simp [Gen.ts_vreg_slope.minPeriods, effMp, Fn2.minK]
theorem ts_vreg_slope_init (w : Nat) : R_ts_vreg_slope (Gen.ts_vreg_slope.init w) Trend.zero := by
  simp [R_ts_vreg_slope, Gen.ts_vreg_slope.init, Trend.zero]
/-- the closure regenerated from the source of `ts_vreg_slope`, driven over the callbacks of either driver
shape, yields the least-squares slope on `t = 1..n` (valid values of the window) at every position -/
theorem ts_vreg_slope_exact (sqrt : Rat → Rat) (sh : Shape) (xs : List (Option Rat)) (w : Nat) (mp : Option Nat) (hw : 1 ≤ w) :
    List.Forall₂ (Agree sqrt)
      (genRun (Gen.ts_vreg_slope.step sqrt w (Gen.ts_vreg_slope.minPeriods w mp)) (Gen.ts_vreg_slope.init w) (applyCalls sh xs w))
      (rolling1 (trendSlope (effMp mp w 0)) xs w) := by
  have h := run_sim id _ _ R_ts_vreg_slope (Agree sqrt) (ts_vreg_slope_step sqrt w (Gen.ts_vreg_slope.minPeriods w mp)) (applyCalls sh xs w) _ _ (ts_vreg_slope_init w)
  rw [ts_vreg_slope_minPeriods, mapCalls_id] at h
  have e := C04.vreg_slope_exact sh xs w mp hw
  unfold ts1 at e
  rw [ts_vreg_slope_minPeriods, ← e]; exact h

/-! ### `ts_vreg_intercept` -/
def R_ts_vreg_intercept (g : Gen.ts_vreg_intercept.St) (m : Trend) : Prop :=
  g.sum = m.sum ∧ g.sum_xt = m.sxt ∧ g.n = m.n
theorem ts_vreg_intercept_add (w mp : Nat) (g : Gen.ts_vreg_intercept.St) (m : Trend) (v : Option Rat) (h : R_ts_vreg_intercept g m) :
    R_ts_vreg_intercept (Gen.ts_vreg_intercept.add w g v) ((trendRoll (Fn1.emit .intercept mp)).add m v) := by
  obtain ⟨h0, h1, h2⟩ := h
  cases v <;> simp [Gen.ts_vreg_intercept.add, trendRoll, Trend.add, Trend.remove, R_ts_vreg_intercept, h0, h1, h2, pow_two, pow_succ] <;> try ring
theorem ts_vreg_intercept_post (w mp : Nat) (g : Gen.ts_vreg_intercept.St) (m : Trend) (x : Option Rat) (h : R_ts_vreg_intercept g m) :
    R_ts_vreg_intercept (Gen.ts_vreg_intercept.post w g (some x)) ((trendRoll (Fn1.emit .intercept mp)).remove m x) := by
  obtain ⟨h0, h1, h2⟩ := h
  cases x <;> simp [Gen.ts_vreg_intercept.post, trendRoll, Trend.add, Trend.remove, R_ts_vreg_intercept, h0, h1, h2, pow_two, pow_succ] <;> try ring
theorem ts_vreg_intercept_emit (sqrt : Rat → Rat) (w mp : Nat) (g : Gen.ts_vreg_intercept.St) (m : Trend) (v : Option Rat) (h : R_ts_vreg_intercept g m) :
    Agree sqrt (Gen.ts_vreg_intercept.emit sqrt w mp g v) ((trendRoll (Fn1.emit .intercept mp)).emit m) := by
  obtain ⟨h0, h1, h2⟩ := h
  simp only [Gen.ts_vreg_intercept.emit, trendRoll, Fn1.emit, trendEmit, Trend.fitted, Trend.forecast, Trend.intercept, Trend.slope, Trend.divisor, Trend.nSumTT, Trend.sumT, h0, h1, h2, eps_eq, sq, pow_one, Nat.mul_comm m.n 2, decide_eq_true_eq, ge_iff_le, gt_iff_lt,
    Bool.and_eq_true]
  split_ifs <;> first | rfl | trivial
theorem ts_vreg_intercept_step (sqrt : Rat → Rat) (w mp : Nat) (g : Gen.ts_vreg_intercept.St) (m : Trend) (rm : Option (Option Rat)) (v : Option Rat) (h : R_ts_vreg_intercept g m) :
    R_ts_vreg_intercept (Gen.ts_vreg_intercept.step sqrt w mp g rm v).1 ((trendRoll (Fn1.emit .intercept mp)).step m (rm.map id) (id v)).1 ∧
    (Agree sqrt) (Gen.ts_vreg_intercept.step sqrt w mp g rm v).2 ((trendRoll (Fn1.emit .intercept mp)).step m (rm.map id) (id v)).2 :=
  hstep_of_parts id (Gen.ts_vreg_intercept.step sqrt w mp) (Gen.ts_vreg_intercept.pre sqrt w mp) (Gen.ts_vreg_intercept.post w) (Gen.ts_vreg_intercept.add w)
    (Gen.ts_vreg_intercept.emit sqrt w mp) (trendRoll (Fn1.emit .intercept mp)) R_ts_vreg_intercept (Agree sqrt)
    (Gen.ts_vreg_intercept.step_eq sqrt w mp) (Gen.ts_vreg_intercept.pre_eq sqrt w mp) (ts_vreg_intercept_add w mp) (ts_vreg_intercept_post w mp) (fun _ => rfl)
    (ts_vreg_intercept_emit sqrt w mp) g m rm v h
theorem ts_vreg_intercept_minPeriods (w : Nat) (mp : Option Nat) : Gen.ts_vreg_intercept.minPeriods w mp = effMp mp w 0 := by
  simp [Gen.ts_vreg_intercept.minPeriods, effMp, Fn2.minK]
theorem ts_vreg_intercept_init (w : Nat) : R_ts_vreg_intercept (Gen.ts_vreg_intercept.init w) Trend.zero := by
  simp [R_ts_vreg_intercept, Gen.ts_vreg_intercept.init, Trend.zero]
/-- the closure regenerated from the source of `ts_vreg_intercept`, driven over the callbacks of either driver
shape, yields the least-squares intercept on `t = 1..n` (valid values of the window) at every position -/
theorem ts_vreg_intercept_exact (sqrt : Rat → Rat) (sh : Shape) (xs : List (Option Rat)) (w : Nat) (mp : Option Nat) (hw : 1 ≤ w) :
    List.Forall₂ (Agree sqrt)
      (genRun (Gen.ts_vreg_intercept.step sqrt w (Gen.ts_vreg_intercept.minPeriods w mp)) (Gen.ts_vreg_intercept.init w) (applyCalls sh xs w))
      (rolling1 (trendIntercept (effMp mp w 0)) xs w) := by
  have h := run_sim id _ _ R_ts_vreg_intercept (Agree sqrt) (ts_vreg_intercept_step sqrt w (Gen.ts_vreg_intercept.minPeriods w mp)) (applyCalls sh xs w) _ _ (ts_vreg_intercept_init w)
  rw [ts_vreg_intercept_minPeriods, mapCalls_id] at h
  have e := C04.vreg_intercept_exact sh xs w mp hw
  unfold ts1 at e
  rw [ts_vreg_intercept_minPeriods, ← e]; exact h

/-! ### `ts_vreg_resid_mean` -/
def R_ts_vreg_resid_mean (g : Gen.ts_vreg_resid_mean.St) (m : Trend) : Prop :=
  g.sum = m.sum ∧ g.sum_xx = m.sxx ∧ g.sum_xt = m.sxt ∧ g.n = m.n
theorem ts_vreg_resid_mean_add (w mp : Nat) (g : Gen.ts_vreg_resid_mean.St) (m : Trend) (v : Option Rat) (h : R_ts_vreg_resid_mean g m) :
    R_ts_vreg_resid_mean (Gen.ts_vreg_resid_mean.add w g v) ((trendRoll (Fn1.emit .residMean mp)).add m v) := by
  obtain ⟨h0, h1, h2, h3⟩ := h
  cases v <;> simp [Gen.ts_vreg_resid_mean.add, trendRoll, Trend.add, Trend.remove, R_ts_vreg_resid_mean, h0, h1, h2, h3, pow_two, pow_succ] <;> try ring
theorem ts_vreg_resid_mean_post (w mp : Nat) (g : Gen.ts_vreg_resid_mean.St) (m : Trend) (x : Option Rat) (h : R_ts_vreg_resid_mean g m) :
    R_ts_vreg_resid_mean (Gen.ts_vreg_resid_mean.post w g (some x)) ((trendRoll (Fn1.emit .residMean mp)).remove m x) := by
  obtain ⟨h0, h1, h2, h3⟩ := h
  cases x <;> simp [Gen.ts_vreg_resid_mean.post, trendRoll, Trend.add, Trend.remove, R_ts_vreg_resid_mean, h0, h1, h2, h3, pow_two, pow_succ] <;> try ring
theorem ts_vreg_resid_mean_emit (sqrt : Rat → Rat) (w mp : Nat) (g : Gen.ts_vreg_resid_mean.St) (m : Trend) (v : Option Rat) (h : R_ts_vreg_resid_mean g m) :
    Agree sqrt (Gen.ts_vreg_resid_mean.emit sqrt w mp g v) ((trendRoll (Fn1.emit .residMean mp)).emit m) := by
  obtain ⟨h0, h1, h2, h3⟩ := h
  simp only [Gen.ts_vreg_resid_mean.emit, trendRoll, Fn1.emit, emitMsr, h0, h1, h2, h3, eps_eq, sq, pow_one, Nat.mul_comm m.n 2, decide_eq_true_eq, ge_iff_le, gt_iff_lt,
    Bool.and_eq_true]
  split_ifs with hm hd
  · trivial
  · simp only [Agree, Trend.msr, Trend.alpha', Trend.beta', Trend.divisor', Trend.sumTT, Trend.sumT, sq, pow_one, Nat.mul_comm m.n 2]
  · rfl
theorem ts_vreg_resid_mean_step (sqrt : Rat → Rat) (w mp : Nat) (g : Gen.ts_vreg_resid_mean.St) (m : Trend) (rm : Option (Option Rat)) (v : Option Rat) (h : R_ts_vreg_resid_mean g m) :
    R_ts_vreg_resid_mean (Gen.ts_vreg_resid_mean.step sqrt w mp g rm v).1 ((trendRoll (Fn1.emit .residMean mp)).step m (rm.map id) (id v)).1 ∧
    (Agree sqrt) (Gen.ts_vreg_resid_mean.step sqrt w mp g rm v).2 ((trendRoll (Fn1.emit .residMean mp)).step m (rm.map id) (id v)).2 :=
  hstep_of_parts id (Gen.ts_vreg_resid_mean.step sqrt w mp) (Gen.ts_vreg_resid_mean.pre sqrt w mp) (Gen.ts_vreg_resid_mean.post w) (Gen.ts_vreg_resid_mean.add w)
    (Gen.ts_vreg_resid_mean.emit sqrt w mp) (trendRoll (Fn1.emit .residMean mp)) R_ts_vreg_resid_mean (Agree sqrt)
    (Gen.ts_vreg_resid_mean.step_eq sqrt w mp) (Gen.ts_vreg_resid_mean.pre_eq sqrt w mp) (ts_vreg_resid_mean_add w mp) (ts_vreg_resid_mean_post w mp) (fun _ => rfl)
    (ts_vreg_resid_mean_emit sqrt w mp) g m rm v h
theorem ts_vreg_resid_mean_minPeriods (w : Nat) (mp : Option Nat) : Gen.ts_vreg_resid_mean.minPeriods w mp = effMp mp w 0 := by
  simp [Gen.ts_vreg_resid_mean.minPeriods, effMp, Fn2.minK]
theorem ts_vreg_resid_mean_init (w : Nat) : R_ts_vreg_resid_mean (Gen.ts_vreg_resid_mean.init w) Trend.zero := by
  simp [R_ts_vreg_resid_mean, Gen.ts_vreg_resid_mean.init, Trend.zero]
/-- the closure regenerated from the source of `ts_vreg_resid_mean`, driven over the callbacks of either driver
shape, yields the mean squared residual of the least-squares line on `t = 1..n` (valid values of the window) at every position -/
theorem ts_vreg_resid_mean_exact (sqrt : Rat → Rat) (sh : Shape) (xs : List (Option Rat)) (w : Nat) (mp : Option Nat) (hw : 1 ≤ w) :
    List.Forall₂ (Agree sqrt)
      (genRun (Gen.ts_vreg_resid_mean.step sqrt w (Gen.ts_vreg_resid_mean.minPeriods w mp)) (Gen.ts_vreg_resid_mean.init w) (applyCalls sh xs w))
      (rolling1 (trendMsr (effMp mp w 0)) xs w) := by
  have h := run_sim id _ _ R_ts_vreg_resid_mean (Agree sqrt) (ts_vreg_resid_mean_step sqrt w (Gen.ts_vreg_resid_mean.minPeriods w mp)) (applyCalls sh xs w) _ _ (ts_vreg_resid_mean_init w)
  rw [ts_vreg_resid_mean_minPeriods, mapCalls_id] at h
  have e := C04.vreg_resid_mean_exact sh xs w mp hw
  unfold ts1 at e
  rw [ts_vreg_resid_mean_minPeriods, ← e]; exact h

/-- all 10 value-driver entry points of binary.rs / reg.rs were found and translated (a closure outside
the translator's subset is emitted without `step`, which breaks the theorems above; one that
disappears breaks this) -/
theorem closures_present :
    ∀ n ∈ ["ts_vcov", "ts_vcorr", "ts_vregx_alpha", "ts_vregx_beta", "ts_vregx_all", "ts_vreg", "ts_vtsf", "ts_vreg_slope", "ts_vreg_intercept", "ts_vreg_resid_mean"], n ∈ Gen.closures := by
  simp [Gen.closures]

/-! ## the residual closures over `rolling2_apply_idx` (`ts_vregx_resid_mean/std/skew`)

The result of these closures applies an aggregation of agg.rs (regenerated in `GenAgg.lean`) to the
residuals of the window re-read through `uget`. Proved here, for one call of each regenerated
closure: the running sums track the model's `Cross` state through the add and the index-driven
removal (`*_state`), and the result is the NaN literal below `min_periods` pairwise-complete
observations (`*_mask`). The residual statistics themselves are compared by the correspondence
run (`C11Gen` relates the three aggregations to their model). -/

theorem uget_pair (xs ys : List (Option Rat)) (k : Nat) : (Gen.uget xs k, Gen.uget ys k) = ugetPair xs ys k := by
  simp [Gen.uget, ugetPair, List.getD_eq_getElem?_getD]

/-- the state after one call of the model closure (`idxRun`: add, then remove the element at `start`) -/
def residNext (xs ys : List (Option Rat)) (m : Cross) (st : Option Nat) (v : Pair) : Cross :=
  match st with
  | some k => Cross.remove (Cross.add m v) (ugetPair xs ys k)
  | none => Cross.add m v

def R_resid_mean (g : Gen.ts_vregx_resid_mean.St) (m : Cross) : Prop :=
  g.n = m.n ∧ g.sum_a = m.sa ∧ g.sum_b = m.sb ∧ g.sum_b2 = m.sbb ∧ g.sum_ab = m.sab

theorem ts_vregx_resid_mean_state (sqrt : Rat → Rat) (xs ys : List (Option Rat)) (len w mp : Nat)
    (g : Gen.ts_vregx_resid_mean.St) (m : Cross) (st : Option Nat) (e : Nat) (v : Pair) (h : R_resid_mean g m) :
    R_resid_mean (Gen.ts_vregx_resid_mean.step sqrt xs ys len w mp g st e v).1 (residNext xs ys m st v) := by
  obtain ⟨h0, h1, h2, h3, h4⟩ := h
  obtain ⟨va, vb⟩ := v
  cases st with
  | none =>
    cases va <;> cases vb <;>
      simp [Gen.ts_vregx_resid_mean.step, residNext, Cross.add, R_resid_mean, h0, h1, h2, h3, h4]
  | some k =>
    simp only [residNext, ← uget_pair]
    cases hpa : Gen.uget xs k <;> cases hpb : Gen.uget ys k <;> cases va <;> cases vb <;>
      simp [Gen.ts_vregx_resid_mean.step, Cross.add, Cross.remove, R_resid_mean, h0, h1, h2, h3, h4, hpa, hpb]

theorem ts_vregx_resid_mean_mask (sqrt : Rat → Rat) (xs ys : List (Option Rat)) (len w mp : Nat)
    (g : Gen.ts_vregx_resid_mean.St) (m : Cross) (st : Option Nat) (e : Nat) (v : Pair) (h : R_resid_mean g m)
    (hlt : (Cross.add m v).n < mp) :
    (Gen.ts_vregx_resid_mean.step sqrt xs ys len w mp g st e v).2 = none := by
  obtain ⟨h0, h1, h2, h3, h4⟩ := h
  obtain ⟨va, vb⟩ := v
  cases va <;> cases vb <;> simp only [Cross.add] at hlt <;>
    simp [Gen.ts_vregx_resid_mean.step, h0, hlt, Nat.not_le.mpr hlt]
def R_resid_std (g : Gen.ts_vregx_resid_std.St) (m : Cross) : Prop :=
  g.n = m.n ∧ g.sum_a = m.sa ∧ g.sum_b = m.sb ∧ g.sum_b2 = m.sbb ∧ g.sum_ab = m.sab

theorem ts_vregx_resid_std_state (sqrt : Rat → Rat) (xs ys : List (Option Rat)) (len w mp : Nat)
    (g : Gen.ts_vregx_resid_std.St) (m : Cross) (st : Option Nat) (e : Nat) (v : Pair) (h : R_resid_std g m) :
    R_resid_std (Gen.ts_vregx_resid_std.step sqrt xs ys len w mp g st e v).1 (residNext xs ys m st v) := by
  obtain ⟨h0, h1, h2, h3, h4⟩ := h
  obtain ⟨va, vb⟩ := v
  cases st with
  | none =>
    cases va <;> cases vb <;>
      simp [Gen.ts_vregx_resid_std.step, residNext, Cross.add, R_resid_std, h0, h1, h2, h3, h4]
  | some k =>
    simp only [residNext, ← uget_pair]
    cases hpa : Gen.uget xs k <;> cases hpb : Gen.uget ys k <;> cases va <;> cases vb <;>
      simp [Gen.ts_vregx_resid_std.step, Cross.add, Cross.remove, R_resid_std, h0, h1, h2, h3, h4, hpa, hpb]

theorem ts_vregx_resid_std_mask (sqrt : Rat → Rat) (xs ys : List (Option Rat)) (len w mp : Nat)
    (g : Gen.ts_vregx_resid_std.St) (m : Cross) (st : Option Nat) (e : Nat) (v : Pair) (h : R_resid_std g m)
    (hlt : (Cross.add m v).n < mp) :
    (Gen.ts_vregx_resid_std.step sqrt xs ys len w mp g st e v).2 = none := by
  obtain ⟨h0, h1, h2, h3, h4⟩ := h
  obtain ⟨va, vb⟩ := v
  cases va <;> cases vb <;> simp only [Cross.add] at hlt <;>
    simp [Gen.ts_vregx_resid_std.step, h0, hlt, Nat.not_le.mpr hlt]
def R_resid_skew (g : Gen.ts_vregx_resid_skew.St) (m : Cross) : Prop :=
  g.n = m.n ∧ g.sum_a = m.sa ∧ g.sum_b = m.sb ∧ g.sum_b2 = m.sbb ∧ g.sum_ab = m.sab

theorem ts_vregx_resid_skew_state (sqrt : Rat → Rat) (xs ys : List (Option Rat)) (len w mp : Nat)
    (g : Gen.ts_vregx_resid_skew.St) (m : Cross) (st : Option Nat) (e : Nat) (v : Pair) (h : R_resid_skew g m) :
    R_resid_skew (Gen.ts_vregx_resid_skew.step sqrt xs ys len w mp g st e v).1 (residNext xs ys m st v) := by
  obtain ⟨h0, h1, h2, h3, h4⟩ := h
  obtain ⟨va, vb⟩ := v
  cases st with
  | none =>
    cases va <;> cases vb <;>
      simp [Gen.ts_vregx_resid_skew.step, residNext, Cross.add, R_resid_skew, h0, h1, h2, h3, h4]
  | some k =>
    simp only [residNext, ← uget_pair]
    cases hpa : Gen.uget xs k <;> cases hpb : Gen.uget ys k <;> cases va <;> cases vb <;>
      simp [Gen.ts_vregx_resid_skew.step, Cross.add, Cross.remove, R_resid_skew, h0, h1, h2, h3, h4, hpa, hpb]

theorem ts_vregx_resid_skew_mask (sqrt : Rat → Rat) (xs ys : List (Option Rat)) (len w mp : Nat)
    (g : Gen.ts_vregx_resid_skew.St) (m : Cross) (st : Option Nat) (e : Nat) (v : Pair) (h : R_resid_skew g m)
    (hlt : (Cross.add m v).n < mp) :
    (Gen.ts_vregx_resid_skew.step sqrt xs ys len w mp g st e v).2 = none := by
  obtain ⟨h0, h1, h2, h3, h4⟩ := h
  obtain ⟨va, vb⟩ := v
  cases va <;> cases vb <;> simp only [Cross.add] at hlt <;>
    simp [Gen.ts_vregx_resid_skew.step, h0, hlt, Nat.not_le.mpr hlt]

/-! ## from source, end to end: regenerated driver and regenerated closure together -/

/-- **from source, end to end**: regenerated two-series driver (both shapes) + regenerated closure -/
theorem ts_vcov_from_source (sqrt : Rat → Rat) (xs ys : List (Option Rat)) (w : Nat) (mp : Option Nat)
    (hw : 1 ≤ w) (hlen : ys.length = xs.length) :
    C02Gen.E2E2 (fun cs =>
    List.Forall₂ (Agree sqrt)
      (genRun (Gen.ts_vcov.step sqrt w (Gen.ts_vcov.minPeriods w mp)) (Gen.ts_vcov.init w) cs)
      (rolling2 (cov (effMp mp w 2)) xs ys w)) xs ys w :=
  C02Gen.e2e_apply2 _ xs ys w hw (by omega) (ts_vcov_exact sqrt .to xs ys w mp hw hlen) (ts_vcov_exact sqrt .iter xs ys w mp hw hlen)

/-- **from source, end to end**: regenerated two-series driver (both shapes) + regenerated closure -/
theorem ts_vcorr_from_source (sqrt : Rat → Rat) (xs ys : List (Option Rat)) (w : Nat) (mp : Option Nat)
    (hw : 1 ≤ w) (hlen : ys.length = xs.length) :
    C02Gen.E2E2 (fun cs =>
    List.Forall₂ AgreeW
      (genRun (Gen.ts_vcorr.step sqrt w (Gen.ts_vcorr.minPeriods w mp)) (Gen.ts_vcorr.init w) cs)
      (rolling2 (corr (effMp mp w 0)) xs ys w)) xs ys w :=
  C02Gen.e2e_apply2 _ xs ys w hw (by omega) (ts_vcorr_exact sqrt .to xs ys w mp hw hlen) (ts_vcorr_exact sqrt .iter xs ys w mp hw hlen)

/-- **from source, end to end**: regenerated two-series driver (both shapes) + regenerated closure -/
theorem ts_vregx_alpha_from_source (sqrt : Rat → Rat) (xs ys : List (Option Rat)) (w : Nat) (mp : Option Nat)
    (hw : 1 ≤ w) (hlen : ys.length = xs.length) :
    C02Gen.E2E2 (fun cs =>
    List.Forall₂ (Agree sqrt)
      (genRun (Gen.ts_vregx_alpha.step sqrt w (Gen.ts_vregx_alpha.minPeriods w mp)) (Gen.ts_vregx_alpha.init w) cs)
      (rolling2 (regxAlpha (effMp mp w 0)) xs ys w)) xs ys w :=
  C02Gen.e2e_apply2 _ xs ys w hw (by omega) (ts_vregx_alpha_exact sqrt .to xs ys w mp hw hlen) (ts_vregx_alpha_exact sqrt .iter xs ys w mp hw hlen)

/-- **from source, end to end**: regenerated two-series driver (both shapes) + regenerated closure -/
theorem ts_vregx_beta_from_source (sqrt : Rat → Rat) (xs ys : List (Option Rat)) (w : Nat) (mp : Option Nat)
    (hw : 1 ≤ w) (hlen : ys.length = xs.length) :
    C02Gen.E2E2 (fun cs =>
    List.Forall₂ (Agree sqrt)
      (genRun (Gen.ts_vregx_beta.step sqrt w (Gen.ts_vregx_beta.minPeriods w mp)) (Gen.ts_vregx_beta.init w) cs)
      (rolling2 (regxBeta (effMp mp w 0)) xs ys w)) xs ys w :=
  C02Gen.e2e_apply2 _ xs ys w hw (by omega) (ts_vregx_beta_exact sqrt .to xs ys w mp hw hlen) (ts_vregx_beta_exact sqrt .iter xs ys w mp hw hlen)

/-- **from source, end to end**: regenerated two-series driver (both shapes) + regenerated closure -/
theorem ts_vregx_all_from_source (sqrt : Rat → Rat) (xs ys : List (Option Rat)) (w : Nat) (mp : Option Nat)
    (hw : 1 ≤ w) (hlen : ys.length = xs.length) :
    C02Gen.E2E2 (fun cs =>
    List.Forall₂ (Agree3 sqrt)
      (genRun (Gen.ts_vregx_all.step sqrt w (Gen.ts_vregx_all.minPeriods w mp)) (Gen.ts_vregx_all.init w) cs)
      ((List.range xs.length).map fun i =>
        let l := complete (window (xs.zip ys) i w)
        (regxAlpha (effMp mp w 0) l, regxBeta (effMp mp w 0) l, regxSse (effMp mp w 0) l))) xs ys w :=
  C02Gen.e2e_apply2 _ xs ys w hw (by omega) (ts_vregx_all_exact sqrt .to xs ys w mp hw hlen) (ts_vregx_all_exact sqrt .iter xs ys w mp hw hlen)

/-- **from source, end to end**: regenerated driver (both shapes) + regenerated closure -/
theorem ts_vreg_from_source (sqrt : Rat → Rat) (xs : List (Option Rat)) (w : Nat) (mp : Option Nat) (hw : 1 ≤ w) :
    C02Gen.E2E (fun cs =>
    List.Forall₂ (Agree sqrt)
      (genRun (Gen.ts_vreg.step sqrt w (Gen.ts_vreg.minPeriods w mp)) (Gen.ts_vreg.init w) cs)
      (rolling1 (trendFitted (effMp mp w 0)) xs w)) xs w :=
  C02Gen.e2e_apply _ xs w hw (ts_vreg_exact sqrt .to xs w mp hw) (ts_vreg_exact sqrt .iter xs w mp hw)

/-- **from source, end to end**: regenerated driver (both shapes) + regenerated closure -/
theorem ts_vtsf_from_source (sqrt : Rat → Rat) (xs : List (Option Rat)) (w : Nat) (mp : Option Nat) (hw : 1 ≤ w) :
    C02Gen.E2E (fun cs =>
    List.Forall₂ (Agree sqrt)
      (genRun (Gen.ts_vtsf.step sqrt w (Gen.ts_vtsf.minPeriods w mp)) (Gen.ts_vtsf.init w) cs)
      (rolling1 (trendForecast (effMp mp w 0)) xs w)) xs w :=
  C02Gen.e2e_apply _ xs w hw (ts_vtsf_exact sqrt .to xs w mp hw) (ts_vtsf_exact sqrt .iter xs w mp hw)

/-- **from source, end to end**: regenerated driver (both shapes) + regenerated closure -/
theorem ts_vreg_slope_from_source (sqrt : Rat → Rat) (xs : List (Option Rat)) (w : Nat) (mp : Option Nat) (hw : 1 ≤ w) :
    C02Gen.E2E (fun cs =>
    List.Forall₂ (Agree sqrt)
      (genRun (Gen.ts_vreg_slope.step sqrt w (Gen.ts_vreg_slope.minPeriods w mp)) (Gen.ts_vreg_slope.init w) cs)
      (rolling1 (trendSlope (effMp mp w 0)) xs w)) xs w :=
  C02Gen.e2e_apply _ xs w hw (ts_vreg_slope_exact sqrt .to xs w mp hw) (ts_vreg_slope_exact sqrt .iter xs w mp hw)

/-- **from source, end to end**: regenerated driver (both shapes) + regenerated closure -/
theorem ts_vreg_intercept_from_source (sqrt : Rat → Rat) (xs : List (Option Rat)) (w : Nat) (mp : Option Nat) (hw : 1 ≤ w) :
    C02Gen.E2E (fun cs =>
    List.Forall₂ (Agree sqrt)
      (genRun (Gen.ts_vreg_intercept.step sqrt w (Gen.ts_vreg_intercept.minPeriods w mp)) (Gen.ts_vreg_intercept.init w) cs)
      (rolling1 (trendIntercept (effMp mp w 0)) xs w)) xs w :=
  C02Gen.e2e_apply _ xs w hw (ts_vreg_intercept_exact sqrt .to xs w mp hw) (ts_vreg_intercept_exact sqrt .iter xs w mp hw)

/-- **from source, end to end**: regenerated driver (both shapes) + regenerated closure -/
theorem ts_vreg_resid_mean_from_source (sqrt : Rat → Rat) (xs : List (Option Rat)) (w : Nat) (mp : Option Nat) (hw : 1 ≤ w) :
    C02Gen.E2E (fun cs =>
    List.Forall₂ (Agree sqrt)
      (genRun (Gen.ts_vreg_resid_mean.step sqrt w (Gen.ts_vreg_resid_mean.minPeriods w mp)) (Gen.ts_vreg_resid_mean.init w) cs)
      (rolling1 (trendMsr (effMp mp w 0)) xs w)) xs w :=
  C02Gen.e2e_apply _ xs w hw (ts_vreg_resid_mean_exact sqrt .to xs w mp hw) (ts_vreg_resid_mean_exact sqrt .iter xs w mp hw)

end Tv.C04Gen
