import Tv.GenClosures
import Tv.Thm.C02Gen
import Tv.Lemmas.GenSim
import Tv.Thm.C04
import Tv.Thm.C11GenA
import Mathlib.Tactic.Ring
import Mathlib.Tactic.FieldSimp
import Mathlib.Tactic.NormNum
/-!
# C04 — the closures regenerated from binary.rs / reg.rs are the model's closures

`Tv.Gen.<fn>.step` is written by translator/closures.py from the Rust source on every run.
For each of the 10 `rolling2_apply` / `rolling_apply` entry points of tea-rolling/src/binary.rs and
reg.rs that the translator covers (`ts_vcov`, `ts_vcorr`, `ts_vregx_alpha`, `ts_vregx_beta`,
`ts_vregx_all`, `ts_vreg`, `ts_vtsf`, `ts_vreg_slope`, `ts_vreg_intercept`, `ts_vreg_resid_mean`)
this file proves that the regenerated step function simulates the hand-written model closure of
`Model/C04.lean` (`*_step`), that its `min_periods` expression is the model's mask
(`*_minPeriods`), and — composing with the main theorems of `Thm/C04.lean` — that the regenerated
closure, driven over the callback sequence of either driver shape, produces the from-scratch
statistic at every position (`*_exact`).

The relation `R_<fn>` is equality of exactly the running sums the Rust closure keeps (the model's
`Cross` / `Trend` records carry more sums than some closures keep; each model `emit` reads only the
kept ones, which is what makes `*_emit` provable from `R_<fn>` alone).  No invariant beyond field
equality was needed: wherever the generated `Rat` code (totalised `x / 0 = 0`, truncated `n - 1`)
could differ from the exact value, the model token is `degen`, which `Agree` exempts.

`Agree sqrt o t` reads the model's `root s q` token as `s * sqrt q`; the correlation closed form is
rewritten under the root sign in the model (`sign(c)·sqrt(c²/(var_a var_b))` for
`c / sqrt(var_a var_b)`), so its values are compared by the weak form `AgreeW` (mask and branch
structure) and by the correspondence run.  `ts_vregx_all` returns a triple; `Agree3` is `Agree`
componentwise.
-/
set_option linter.unusedSimpArgs false
set_option linter.unusedTactic false
set_option linter.unreachableTactic false
set_option linter.unusedVariables false
namespace Tv.C04Gen
open Tv Tv.GenSim Tv.C04 Tv.Spec Tv.C04.Spec

theorem eps_eq : Gen.EPS = EPS := by norm_num [Gen.EPS, EPS]
theorem cast_pred (n : Nat) (h : 0 < n) : ((n - 1 : Nat) : Rat) = (n : Rat) - 1 := by
  rw [Nat.cast_sub h]; simp

/-- componentwise agreement of the `(alpha, beta, sse)` triple of `ts_vregx_all` -/
def Agree3 (sqrt : Rat → Rat) (o : Option Rat × Option Rat × Option Rat) (t : Out × Out × Out) : Prop :=
  Agree sqrt o.1 t.1 ∧ Agree sqrt o.2.1 t.2.1 ∧ Agree sqrt o.2.2 t.2.2

/-! ### `ts_vcov` -/
def R_ts_vcov (g : Gen.ts_vcov.St) (m : Cross) : Prop :=
  g.sum_a = m.sa ∧ g.sum_b = m.sb ∧ g.sum_ab = m.sab ∧ g.n = m.n
theorem ts_vcov_add (w mp : Nat) (g : Gen.ts_vcov.St) (m : Cross) (v : Pair) (h : R_ts_vcov g m) :
    R_ts_vcov (Gen.ts_vcov.add w g v) ((crossRoll (emitCov mp)).add m v) := by
  obtain ⟨h0, h1, h2, h3⟩ := h
  rcases v with ⟨_ | a, _ | b⟩ <;> simp [Gen.ts_vcov.add, crossRoll, Cross.add, Cross.remove, R_ts_vcov, h0, h1, h2, h3, pow_two, pow_succ] <;> try ring
theorem ts_vcov_post (w mp : Nat) (g : Gen.ts_vcov.St) (m : Cross) (x : Pair) (h : R_ts_vcov g m) :
    R_ts_vcov (Gen.ts_vcov.post w g (some x)) ((crossRoll (emitCov mp)).remove m x) := by
  obtain ⟨h0, h1, h2, h3⟩ := h
  rcases x with ⟨_ | a, _ | b⟩ <;> simp [Gen.ts_vcov.post, crossRoll, Cross.add, Cross.remove, R_ts_vcov, h0, h1, h2, h3, pow_two, pow_succ] <;> try ring
theorem ts_vcov_emit (sqrt : Rat → Rat) (w mp : Nat) (g : Gen.ts_vcov.St) (m : Cross) (v : Pair) (h : R_ts_vcov g m) :
    Agree sqrt (Gen.ts_vcov.emit sqrt w mp g v) ((crossRoll (emitCov mp)).emit m) := by
  obtain ⟨h0, h1, h2, h3⟩ := h
  simp only [Gen.ts_vcov.emit, crossRoll, emitCov, h0, h1, h2, h3, eps_eq, sq, decide_eq_true_eq, ge_iff_le, gt_iff_lt,
    Bool.and_eq_true]
  split_ifs with hm hd
  · trivial
  · have hpos : 0 < m.n := by
      rcases Nat.eq_zero_or_pos m.n with h | h
      · exact absurd (Or.inl (by simp [h])) hd
      · exact h
    rw [cast_pred _ hpos]; rfl
  · rfl
theorem ts_vcov_step (sqrt : Rat → Rat) (w mp : Nat) (g : Gen.ts_vcov.St) (m : Cross) (rm : Option (Pair)) (v : Pair) (h : R_ts_vcov g m) :
    R_ts_vcov (Gen.ts_vcov.step sqrt w mp g rm v).1 ((crossRoll (emitCov mp)).step m (rm.map id) (id v)).1 ∧
    (Agree sqrt) (Gen.ts_vcov.step sqrt w mp g rm v).2 ((crossRoll (emitCov mp)).step m (rm.map id) (id v)).2 :=
  hstep_of_parts id (Gen.ts_vcov.step sqrt w mp) (Gen.ts_vcov.pre sqrt w mp) (Gen.ts_vcov.post w) (Gen.ts_vcov.add w)
    (Gen.ts_vcov.emit sqrt w mp) (crossRoll (emitCov mp)) R_ts_vcov (Agree sqrt)
    (Gen.ts_vcov.step_eq sqrt w mp) (Gen.ts_vcov.pre_eq sqrt w mp) (ts_vcov_add w mp) (ts_vcov_post w mp) (fun _ => rfl)
    (ts_vcov_emit sqrt w mp) g m rm v h
theorem ts_vcov_minPeriods (w : Nat) (mp : Option Nat) : Gen.ts_vcov.minPeriods w mp = effMp mp w (Fn2.minK .cov) := by
  simp [Gen.ts_vcov.minPeriods, effMp, Fn2.minK]
theorem ts_vcov_init (w : Nat) : R_ts_vcov (Gen.ts_vcov.init w) Cross.zero := by
  simp [R_ts_vcov, Gen.ts_vcov.init, Cross.zero]
/-- the closure regenerated from the source of `ts_vcov`, driven over the callbacks of either driver
shape on two equal-length series, yields the sample covariance of the pairwise-complete window at every position -/
theorem ts_vcov_exact (sqrt : Rat → Rat) (sh : Shape) (xs ys : List (Option Rat)) (w : Nat) (mp : Option Nat)
    (hw : 1 ≤ w) (hlen : ys.length = xs.length) :
    List.Forall₂ (Agree sqrt)
      (genRun (Gen.ts_vcov.step sqrt w (Gen.ts_vcov.minPeriods w mp)) (Gen.ts_vcov.init w) (apply2Calls sh xs ys w))
      (rolling2 (cov (effMp mp w 2)) xs ys w) := by
  have h := run_sim id _ _ R_ts_vcov (Agree sqrt) (ts_vcov_step sqrt w (Gen.ts_vcov.minPeriods w mp)) (apply2Calls sh xs ys w) _ _ (ts_vcov_init w)
  rw [ts_vcov_minPeriods, mapCalls_id] at h
  have e := C04.vcov_exact sh xs ys w mp hw hlen
  unfold ts2 at e
  simp only [Fn2.minK] at e h ⊢
  rw [ts_vcov_minPeriods, ← e]; exact h

/-! ### `ts_vcorr` -/
def R_ts_vcorr (g : Gen.ts_vcorr.St) (m : Cross) : Prop :=
  g.sum_a = m.sa ∧ g.sum2_a = m.saa ∧ g.sum_b = m.sb ∧ g.sum2_b = m.sbb ∧ g.sum_ab = m.sab ∧ g.n = m.n
theorem ts_vcorr_add (w mp : Nat) (g : Gen.ts_vcorr.St) (m : Cross) (v : Pair) (h : R_ts_vcorr g m) :
    R_ts_vcorr (Gen.ts_vcorr.add w g v) ((crossRoll (emitCorr mp)).add m v) := by
  obtain ⟨h0, h1, h2, h3, h4, h5⟩ := h
  rcases v with ⟨_ | a, _ | b⟩ <;> simp [Gen.ts_vcorr.add, crossRoll, Cross.add, Cross.remove, R_ts_vcorr, h0, h1, h2, h3, h4, h5, pow_two, pow_succ] <;> try ring
theorem ts_vcorr_post (w mp : Nat) (g : Gen.ts_vcorr.St) (m : Cross) (x : Pair) (h : R_ts_vcorr g m) :
    R_ts_vcorr (Gen.ts_vcorr.post w g (some x)) ((crossRoll (emitCorr mp)).remove m x) := by
  obtain ⟨h0, h1, h2, h3, h4, h5⟩ := h
  rcases x with ⟨_ | a, _ | b⟩ <;> simp [Gen.ts_vcorr.post, crossRoll, Cross.add, Cross.remove, R_ts_vcorr, h0, h1, h2, h3, h4, h5, pow_two, pow_succ] <;> try ring
theorem ts_vcorr_emit (sqrt : Rat → Rat) (w mp : Nat) (g : Gen.ts_vcorr.St) (m : Cross) (v : Pair) (h : R_ts_vcorr g m) :
    AgreeW (Gen.ts_vcorr.emit sqrt w mp g v) ((crossRoll (emitCorr mp)).emit m) := by
  obtain ⟨h0, h1, h2, h3, h4, h5⟩ := h
  simp only [Gen.ts_vcorr.emit, crossRoll, emitCorr, h0, h1, h2, h3, h4, h5, eps_eq, sq, decide_eq_true_eq, ge_iff_le, gt_iff_lt,
    Bool.and_eq_true]
  split_ifs <;> first | rfl | trivial | simp [AgreeW]
theorem ts_vcorr_step (sqrt : Rat → Rat) (w mp : Nat) (g : Gen.ts_vcorr.St) (m : Cross) (rm : Option (Pair)) (v : Pair) (h : R_ts_vcorr g m) :
    R_ts_vcorr (Gen.ts_vcorr.step sqrt w mp g rm v).1 ((crossRoll (emitCorr mp)).step m (rm.map id) (id v)).1 ∧
    AgreeW (Gen.ts_vcorr.step sqrt w mp g rm v).2 ((crossRoll (emitCorr mp)).step m (rm.map id) (id v)).2 :=
  hstep_of_parts id (Gen.ts_vcorr.step sqrt w mp) (Gen.ts_vcorr.pre sqrt w mp) (Gen.ts_vcorr.post w) (Gen.ts_vcorr.add w)
    (Gen.ts_vcorr.emit sqrt w mp) (crossRoll (emitCorr mp)) R_ts_vcorr AgreeW
    (Gen.ts_vcorr.step_eq sqrt w mp) (Gen.ts_vcorr.pre_eq sqrt w mp) (ts_vcorr_add w mp) (ts_vcorr_post w mp) (fun _ => rfl)
    (ts_vcorr_emit sqrt w mp) g m rm v h
theorem ts_vcorr_minPeriods (w : Nat) (mp : Option Nat) : Gen.ts_vcorr.minPeriods w mp = effMp mp w (Fn2.minK .corr) := by
  simp [Gen.ts_vcorr.minPeriods, effMp, Fn2.minK]
theorem ts_vcorr_init (w : Nat) : R_ts_vcorr (Gen.ts_vcorr.init w) Cross.zero := by
  simp [R_ts_vcorr, Gen.ts_vcorr.init, Cross.zero]
/-- the closure regenerated from the source of `ts_vcorr`, driven over the callbacks of either driver
shape on two equal-length series, yields the Pearson correlation of the pairwise-complete window (mask and branch structure; see `AgreeW`) at every position -/
theorem ts_vcorr_exact (sqrt : Rat → Rat) (sh : Shape) (xs ys : List (Option Rat)) (w : Nat) (mp : Option Nat)
    (hw : 1 ≤ w) (hlen : ys.length = xs.length) :
    List.Forall₂ AgreeW
      (genRun (Gen.ts_vcorr.step sqrt w (Gen.ts_vcorr.minPeriods w mp)) (Gen.ts_vcorr.init w) (apply2Calls sh xs ys w))
      (rolling2 (corr (effMp mp w 0)) xs ys w) := by
  have h := run_sim id _ _ R_ts_vcorr AgreeW (ts_vcorr_step sqrt w (Gen.ts_vcorr.minPeriods w mp)) (apply2Calls sh xs ys w) _ _ (ts_vcorr_init w)
  rw [ts_vcorr_minPeriods, mapCalls_id] at h
  have e := C04.vcorr_exact sh xs ys w mp hw hlen
  unfold ts2 at e
  simp only [Fn2.minK] at e h ⊢
  rw [ts_vcorr_minPeriods, ← e]; exact h

/-! ### `ts_vregx_alpha` -/
def R_ts_vregx_alpha (g : Gen.ts_vregx_alpha.St) (m : Cross) : Prop :=
  g.sum_a = m.sa ∧ g.sum_b = m.sb ∧ g.sum_b2 = m.sbb ∧ g.sum_ab = m.sab ∧ g.n = m.n
theorem ts_vregx_alpha_add (w mp : Nat) (g : Gen.ts_vregx_alpha.St) (m : Cross) (v : Pair) (h : R_ts_vregx_alpha g m) :
    R_ts_vregx_alpha (Gen.ts_vregx_alpha.add w g v) ((crossRoll (emitAlpha mp)).add m v) := by
  obtain ⟨h0, h1, h2, h3, h4⟩ := h
  rcases v with ⟨_ | a, _ | b⟩ <;> simp [Gen.ts_vregx_alpha.add, crossRoll, Cross.add, Cross.remove, R_ts_vregx_alpha, h0, h1, h2, h3, h4, pow_two, pow_succ] <;> try ring
theorem ts_vregx_alpha_post (w mp : Nat) (g : Gen.ts_vregx_alpha.St) (m : Cross) (x : Pair) (h : R_ts_vregx_alpha g m) :
    R_ts_vregx_alpha (Gen.ts_vregx_alpha.post w g (some x)) ((crossRoll (emitAlpha mp)).remove m x) := by
  obtain ⟨h0, h1, h2, h3, h4⟩ := h
  rcases x with ⟨_ | a, _ | b⟩ <;> simp [Gen.ts_vregx_alpha.post, crossRoll, Cross.add, Cross.remove, R_ts_vregx_alpha, h0, h1, h2, h3, h4, pow_two, pow_succ] <;> try ring
theorem ts_vregx_alpha_emit (sqrt : Rat → Rat) (w mp : Nat) (g : Gen.ts_vregx_alpha.St) (m : Cross) (v : Pair) (h : R_ts_vregx_alpha g m) :
    Agree sqrt (Gen.ts_vregx_alpha.emit sqrt w mp g v) ((crossRoll (emitAlpha mp)).emit m) := by
  obtain ⟨h0, h1, h2, h3, h4⟩ := h
  simp only [Gen.ts_vregx_alpha.emit, crossRoll, emitAlpha, Cross.alpha, Cross.beta, Cross.den, h0, h1, h2, h3, h4, eps_eq, sq, decide_eq_true_eq, ge_iff_le, gt_iff_lt,
    Bool.and_eq_true]
  split_ifs <;> first | rfl | trivial
theorem ts_vregx_alpha_step (sqrt : Rat → Rat) (w mp : Nat) (g : Gen.ts_vregx_alpha.St) (m : Cross) (rm : Option (Pair)) (v : Pair) (h : R_ts_vregx_alpha g m) :
    R_ts_vregx_alpha (Gen.ts_vregx_alpha.step sqrt w mp g rm v).1 ((crossRoll (emitAlpha mp)).step m (rm.map id) (id v)).1 ∧
    (Agree sqrt) (Gen.ts_vregx_alpha.step sqrt w mp g rm v).2 ((crossRoll (emitAlpha mp)).step m (rm.map id) (id v)).2 :=
  hstep_of_parts id (Gen.ts_vregx_alpha.step sqrt w mp) (Gen.ts_vregx_alpha.pre sqrt w mp) (Gen.ts_vregx_alpha.post w) (Gen.ts_vregx_alpha.add w)
    (Gen.ts_vregx_alpha.emit sqrt w mp) (crossRoll (emitAlpha mp)) R_ts_vregx_alpha (Agree sqrt)
    (Gen.ts_vregx_alpha.step_eq sqrt w mp) (Gen.ts_vregx_alpha.pre_eq sqrt w mp) (ts_vregx_alpha_add w mp) (ts_vregx_alpha_post w mp) (fun _ => rfl)
    (ts_vregx_alpha_emit sqrt w mp) g m rm v h
theorem ts_vregx_alpha_minPeriods (w : Nat) (mp : Option Nat) : Gen.ts_vregx_alpha.minPeriods w mp = effMp mp w (Fn2.minK .alpha) := by
  simp [Gen.ts_vregx_alpha.minPeriods, effMp, Fn2.minK]
theorem ts_vregx_alpha_init (w : Nat) : R_ts_vregx_alpha (Gen.ts_vregx_alpha.init w) Cross.zero := by
  simp [R_ts_vregx_alpha, Gen.ts_vregx_alpha.init, Cross.zero]
/-- the closure regenerated from the source of `ts_vregx_alpha`, driven over the callbacks of either driver
shape on two equal-length series, yields the least-squares intercept of the pairwise-complete window at every position -/
theorem ts_vregx_alpha_exact (sqrt : Rat → Rat) (sh : Shape) (xs ys : List (Option Rat)) (w : Nat) (mp : Option Nat)
    (hw : 1 ≤ w) (hlen : ys.length = xs.length) :
    List.Forall₂ (Agree sqrt)
      (genRun (Gen.ts_vregx_alpha.step sqrt w (Gen.ts_vregx_alpha.minPeriods w mp)) (Gen.ts_vregx_alpha.init w) (apply2Calls sh xs ys w))
      (rolling2 (regxAlpha (effMp mp w 0)) xs ys w) := by
  have h := run_sim id _ _ R_ts_vregx_alpha (Agree sqrt) (ts_vregx_alpha_step sqrt w (Gen.ts_vregx_alpha.minPeriods w mp)) (apply2Calls sh xs ys w) _ _ (ts_vregx_alpha_init w)
  rw [ts_vregx_alpha_minPeriods, mapCalls_id] at h
  have e := C04.vregx_alpha_exact sh xs ys w mp hw hlen
  unfold ts2 at e
  simp only [Fn2.minK] at e h ⊢
  rw [ts_vregx_alpha_minPeriods, ← e]; exact h

/-! ### `ts_vregx_beta` -/
def R_ts_vregx_beta (g : Gen.ts_vregx_beta.St) (m : Cross) : Prop :=
  g.sum_a = m.sa ∧ g.sum_b = m.sb ∧ g.sum_b2 = m.sbb ∧ g.sum_ab = m.sab ∧ g.n = m.n
theorem ts_vregx_beta_add (w mp : Nat) (g : Gen.ts_vregx_beta.St) (m : Cross) (v : Pair) (h : R_ts_vregx_beta g m) :
    R_ts_vregx_beta (Gen.ts_vregx_beta.add w g v) ((crossRoll (emitBeta mp)).add m v) := by
  obtain ⟨h0, h1, h2, h3, h4⟩ := h
  rcases v with ⟨_ | a, _ | b⟩ <;> simp [Gen.ts_vregx_beta.add, crossRoll, Cross.add, Cross.remove, R_ts_vregx_beta, h0, h1, h2, h3, h4, pow_two, pow_succ] <;> try ring
theorem ts_vregx_beta_post (w mp : Nat) (g : Gen.ts_vregx_beta.St) (m : Cross) (x : Pair) (h : R_ts_vregx_beta g m) :
    R_ts_vregx_beta (Gen.ts_vregx_beta.post w g (some x)) ((crossRoll (emitBeta mp)).remove m x) := by
  obtain ⟨h0, h1, h2, h3, h4⟩ := h
  rcases x with ⟨_ | a, _ | b⟩ <;> simp [Gen.ts_vregx_beta.post, crossRoll, Cross.add, Cross.remove, R_ts_vregx_beta, h0, h1, h2, h3, h4, pow_two, pow_succ] <;> try ring
theorem ts_vregx_beta_emit (sqrt : Rat → Rat) (w mp : Nat) (g : Gen.ts_vregx_beta.St) (m : Cross) (v : Pair) (h : R_ts_vregx_beta g m) :
    Agree sqrt (Gen.ts_vregx_beta.emit sqrt w mp g v) ((crossRoll (emitBeta mp)).emit m) := by
  obtain ⟨h0, h1, h2, h3, h4⟩ := h
  simp only [Gen.ts_vregx_beta.emit, crossRoll, emitBeta, Cross.alpha, Cross.beta, Cross.den, h0, h1, h2, h3, h4, eps_eq, sq, decide_eq_true_eq, ge_iff_le, gt_iff_lt,
    Bool.and_eq_true]
  split_ifs <;> first | rfl | trivial
theorem ts_vregx_beta_step (sqrt : Rat → Rat) (w mp : Nat) (g : Gen.ts_vregx_beta.St) (m : Cross) (rm : Option (Pair)) (v : Pair) (h : R_ts_vregx_beta g m) :
    R_ts_vregx_beta (Gen.ts_vregx_beta.step sqrt w mp g rm v).1 ((crossRoll (emitBeta mp)).step m (rm.map id) (id v)).1 ∧
    (Agree sqrt) (Gen.ts_vregx_beta.step sqrt w mp g rm v).2 ((crossRoll (emitBeta mp)).step m (rm.map id) (id v)).2 :=
  hstep_of_parts id (Gen.ts_vregx_beta.step sqrt w mp) (Gen.ts_vregx_beta.pre sqrt w mp) (Gen.ts_vregx_beta.post w) (Gen.ts_vregx_beta.add w)
    (Gen.ts_vregx_beta.emit sqrt w mp) (crossRoll (emitBeta mp)) R_ts_vregx_beta (Agree sqrt)
    (Gen.ts_vregx_beta.step_eq sqrt w mp) (Gen.ts_vregx_beta.pre_eq sqrt w mp) (ts_vregx_beta_add w mp) (ts_vregx_beta_post w mp) (fun _ => rfl)
    (ts_vregx_beta_emit sqrt w mp) g m rm v h
theorem ts_vregx_beta_minPeriods (w : Nat) (mp : Option Nat) : Gen.ts_vregx_beta.minPeriods w mp = effMp mp w (Fn2.minK .beta) := by
  simp [Gen.ts_vregx_beta.minPeriods, effMp, Fn2.minK]
theorem ts_vregx_beta_init (w : Nat) : R_ts_vregx_beta (Gen.ts_vregx_beta.init w) Cross.zero := by
  simp [R_ts_vregx_beta, Gen.ts_vregx_beta.init, Cross.zero]
/-- the closure regenerated from the source of `ts_vregx_beta`, driven over the callbacks of either driver
shape on two equal-length series, yields the least-squares slope of the pairwise-complete window at every position -/
theorem ts_vregx_beta_exact (sqrt : Rat → Rat) (sh : Shape) (xs ys : List (Option Rat)) (w : Nat) (mp : Option Nat)
    (hw : 1 ≤ w) (hlen : ys.length = xs.length) :
    List.Forall₂ (Agree sqrt)
      (genRun (Gen.ts_vregx_beta.step sqrt w (Gen.ts_vregx_beta.minPeriods w mp)) (Gen.ts_vregx_beta.init w) (apply2Calls sh xs ys w))
      (rolling2 (regxBeta (effMp mp w 0)) xs ys w) := by
  have h := run_sim id _ _ R_ts_vregx_beta (Agree sqrt) (ts_vregx_beta_step sqrt w (Gen.ts_vregx_beta.minPeriods w mp)) (apply2Calls sh xs ys w) _ _ (ts_vregx_beta_init w)
  rw [ts_vregx_beta_minPeriods, mapCalls_id] at h
  have e := C04.vregx_beta_exact sh xs ys w mp hw hlen
  unfold ts2 at e
  simp only [Fn2.minK] at e h ⊢
  rw [ts_vregx_beta_minPeriods, ← e]; exact h

/-! ### `ts_vregx_all` -/
def R_ts_vregx_all (g : Gen.ts_vregx_all.St) (m : Cross) : Prop :=
  g.sum_a = m.sa ∧ g.sum_b = m.sb ∧ g.sum_b2 = m.sbb ∧ g.sum_ab = m.sab ∧ g.sum_a2 = m.saa ∧ g.n = m.n
theorem ts_vregx_all_add (w mp : Nat) (g : Gen.ts_vregx_all.St) (m : Cross) (v : Pair) (h : R_ts_vregx_all g m) :
    R_ts_vregx_all (Gen.ts_vregx_all.add w g v) ((crossRoll (emitAll mp)).add m v) := by
  obtain ⟨h0, h1, h2, h3, h4, h5⟩ := h
  rcases v with ⟨_ | a, _ | b⟩ <;> simp [Gen.ts_vregx_all.add, crossRoll, Cross.add, Cross.remove, R_ts_vregx_all, h0, h1, h2, h3, h4, h5, pow_two, pow_succ] <;> try ring
theorem ts_vregx_all_post (w mp : Nat) (g : Gen.ts_vregx_all.St) (m : Cross) (x : Pair) (h : R_ts_vregx_all g m) :
    R_ts_vregx_all (Gen.ts_vregx_all.post w g (some x)) ((crossRoll (emitAll mp)).remove m x) := by
  obtain ⟨h0, h1, h2, h3, h4, h5⟩ := h
  rcases x with ⟨_ | a, _ | b⟩ <;> simp [Gen.ts_vregx_all.post, crossRoll, Cross.add, Cross.remove, R_ts_vregx_all, h0, h1, h2, h3, h4, h5, pow_two, pow_succ] <;> try ring
theorem ts_vregx_all_emit (sqrt : Rat → Rat) (w mp : Nat) (g : Gen.ts_vregx_all.St) (m : Cross) (v : Pair) (h : R_ts_vregx_all g m) :
    Agree3 sqrt (Gen.ts_vregx_all.emit sqrt w mp g v) ((crossRoll (emitAll mp)).emit m) := by
  obtain ⟨h0, h1, h2, h3, h4, h5⟩ := h
  simp only [Gen.ts_vregx_all.emit, crossRoll, emitAll, emitAlpha, emitBeta, emitSse, Cross.sse, Cross.alpha, Cross.beta, Cross.den, h0, h1, h2, h3, h4, h5, eps_eq, sq, decide_eq_true_eq, ge_iff_le, gt_iff_lt,
    Bool.and_eq_true]
  by_cases hm : mp ≤ m.n
  · by_cases hd : m.degenerate
    · simp only [hm, hd, if_true, Agree3, Agree, and_self]
    · simp only [hm, hd, if_true, if_false, Agree3, Agree, and_self]
  · simp only [hm, if_false, Agree3, Agree, and_self]
theorem ts_vregx_all_step (sqrt : Rat → Rat) (w mp : Nat) (g : Gen.ts_vregx_all.St) (m : Cross) (rm : Option (Pair)) (v : Pair) (h : R_ts_vregx_all g m) :
    R_ts_vregx_all (Gen.ts_vregx_all.step sqrt w mp g rm v).1 ((crossRoll (emitAll mp)).step m (rm.map id) (id v)).1 ∧
    (Agree3 sqrt) (Gen.ts_vregx_all.step sqrt w mp g rm v).2 ((crossRoll (emitAll mp)).step m (rm.map id) (id v)).2 :=
  hstep_of_parts id (Gen.ts_vregx_all.step sqrt w mp) (Gen.ts_vregx_all.pre sqrt w mp) (Gen.ts_vregx_all.post w) (Gen.ts_vregx_all.add w)
    (Gen.ts_vregx_all.emit sqrt w mp) (crossRoll (emitAll mp)) R_ts_vregx_all (Agree3 sqrt)
    (Gen.ts_vregx_all.step_eq sqrt w mp) (Gen.ts_vregx_all.pre_eq sqrt w mp) (ts_vregx_all_add w mp) (ts_vregx_all_post w mp) (fun _ => rfl)
    (ts_vregx_all_emit sqrt w mp) g m rm v h
theorem ts_vregx_all_minPeriods (w : Nat) (mp : Option Nat) : Gen.ts_vregx_all.minPeriods w mp = effMp mp w 0 := by
  simp [Gen.ts_vregx_all.minPeriods, effMp, Fn2.minK]
theorem ts_vregx_all_init (w : Nat) : R_ts_vregx_all (Gen.ts_vregx_all.init w) Cross.zero := by
  simp [R_ts_vregx_all, Gen.ts_vregx_all.init, Cross.zero]
/-- the closure regenerated from the source of `ts_vregx_all`, driven over the callbacks of either driver
shape on two equal-length series, yields `(α, β, SSE)` of the least-squares line of the pairwise-complete window at every position -/
theorem ts_vregx_all_exact (sqrt : Rat → Rat) (sh : Shape) (xs ys : List (Option Rat)) (w : Nat) (mp : Option Nat)
    (hw : 1 ≤ w) (hlen : ys.length = xs.length) :
    List.Forall₂ (Agree3 sqrt)
      (genRun (Gen.ts_vregx_all.step sqrt w (Gen.ts_vregx_all.minPeriods w mp)) (Gen.ts_vregx_all.init w) (apply2Calls sh xs ys w))
      ((List.range xs.length).map fun i =>
        let l := complete (window (xs.zip ys) i w)
        (regxAlpha (effMp mp w 0) l, regxBeta (effMp mp w 0) l, regxSse (effMp mp w 0) l)) := by
  have h := run_sim id _ _ R_ts_vregx_all (Agree3 sqrt) (ts_vregx_all_step sqrt w (Gen.ts_vregx_all.minPeriods w mp)) (apply2Calls sh xs ys w) _ _ (ts_vregx_all_init w)
  rw [ts_vregx_all_minPeriods, mapCalls_id] at h
  have e := C04.vregx_all_exact sh xs ys w mp hw hlen
  unfold tsRegxAll at e
  rw [ts_vregx_all_minPeriods, ← e]; exact h

/-! ### `ts_vreg` -/
def R_ts_vreg (g : Gen.ts_vreg.St) (m : Trend) : Prop :=
  g.sum = m.sum ∧ g.sum_xt = m.sxt ∧ g.n = m.n
theorem ts_vreg_add (w mp : Nat) (g : Gen.ts_vreg.St) (m : Trend) (v : Option Rat) (h : R_ts_vreg g m) :
    R_ts_vreg (Gen.ts_vreg.add w g v) ((trendRoll (Fn1.emit .reg mp)).add m v) := by
  obtain ⟨h0, h1, h2⟩ := h
  cases v <;> simp [Gen.ts_vreg.add, trendRoll, Trend.add, Trend.remove, R_ts_vreg, h0, h1, h2, pow_two, pow_succ] <;> try ring
theorem ts_vreg_post (w mp : Nat) (g : Gen.ts_vreg.St) (m : Trend) (x : Option Rat) (h : R_ts_vreg g m) :
    R_ts_vreg (Gen.ts_vreg.post w g (some x)) ((trendRoll (Fn1.emit .reg mp)).remove m x) := by
  obtain ⟨h0, h1, h2⟩ := h
  cases x <;> simp [Gen.ts_vreg.post, trendRoll, Trend.add, Trend.remove, R_ts_vreg, h0, h1, h2, pow_two, pow_succ] <;> try ring
theorem ts_vreg_emit (sqrt : Rat → Rat) (w mp : Nat) (g : Gen.ts_vreg.St) (m : Trend) (v : Option Rat) (h : R_ts_vreg g m) :
    Agree sqrt (Gen.ts_vreg.emit sqrt w mp g v) ((trendRoll (Fn1.emit .reg mp)).emit m) := by
  obtain ⟨h0, h1, h2⟩ := h
  simp only [Gen.ts_vreg.emit, trendRoll, Fn1.emit, trendEmit, Trend.fitted, Trend.forecast, Trend.intercept, Trend.slope, Trend.divisor, Trend.nSumTT, Trend.sumT, h0, h1, h2, eps_eq, sq, pow_one, Nat.mul_comm m.n 2, decide_eq_true_eq, ge_iff_le, gt_iff_lt,
    Bool.and_eq_true]
  split_ifs <;> first | rfl | trivial
theorem ts_vreg_step (sqrt : Rat → Rat) (w mp : Nat) (g : Gen.ts_vreg.St) (m : Trend) (rm : Option (Option Rat)) (v : Option Rat) (h : R_ts_vreg g m) :
    R_ts_vreg (Gen.ts_vreg.step sqrt w mp g rm v).1 ((trendRoll (Fn1.emit .reg mp)).step m (rm.map id) (id v)).1 ∧
    (Agree sqrt) (Gen.ts_vreg.step sqrt w mp g rm v).2 ((trendRoll (Fn1.emit .reg mp)).step m (rm.map id) (id v)).2 :=
  hstep_of_parts id (Gen.ts_vreg.step sqrt w mp) (Gen.ts_vreg.pre sqrt w mp) (Gen.ts_vreg.post w) (Gen.ts_vreg.add w)
    (Gen.ts_vreg.emit sqrt w mp) (trendRoll (Fn1.emit .reg mp)) R_ts_vreg (Agree sqrt)
    (Gen.ts_vreg.step_eq sqrt w mp) (Gen.ts_vreg.pre_eq sqrt w mp) (ts_vreg_add w mp) (ts_vreg_post w mp) (fun _ => rfl)
    (ts_vreg_emit sqrt w mp) g m rm v h
theorem ts_vreg_minPeriods (w : Nat) (mp : Option Nat) : Gen.ts_vreg.minPeriods w mp = effMp mp w 0 := by
  simp [Gen.ts_vreg.minPeriods, effMp, Fn2.minK]
theorem ts_vreg_init (w : Nat) : R_ts_vreg (Gen.ts_vreg.init w) Trend.zero := by
  simp [R_ts_vreg, Gen.ts_vreg.init, Trend.zero]
/-- the closure regenerated from the source of `ts_vreg`, driven over the callbacks of either driver
shape, yields the fitted value `α + β n` of the least-squares line on `t = 1..n` (valid values of the window) at every position -/
theorem ts_vreg_exact (sqrt : Rat → Rat) (sh : Shape) (xs : List (Option Rat)) (w : Nat) (mp : Option Nat) (hw : 1 ≤ w) :
    List.Forall₂ (Agree sqrt)
      (genRun (Gen.ts_vreg.step sqrt w (Gen.ts_vreg.minPeriods w mp)) (Gen.ts_vreg.init w) (applyCalls sh xs w))
      (rolling1 (trendFitted (effMp mp w 0)) xs w) := by
  have h := run_sim id _ _ R_ts_vreg (Agree sqrt) (ts_vreg_step sqrt w (Gen.ts_vreg.minPeriods w mp)) (applyCalls sh xs w) _ _ (ts_vreg_init w)
  rw [ts_vreg_minPeriods, mapCalls_id] at h
  have e := C04.vreg_exact sh xs w mp hw
  unfold ts1 at e
  rw [ts_vreg_minPeriods, ← e]; exact h

/-! ### `ts_vtsf` -/
def R_ts_vtsf (g : Gen.ts_vtsf.St) (m : Trend) : Prop :=
  g.sum = m.sum ∧ g.sum_xt = m.sxt ∧ g.n = m.n
theorem ts_vtsf_add (w mp : Nat) (g : Gen.ts_vtsf.St) (m : Trend) (v : Option Rat) (h : R_ts_vtsf g m) :
    R_ts_vtsf (Gen.ts_vtsf.add w g v) ((trendRoll (Fn1.emit .tsf mp)).add m v) := by
  obtain ⟨h0, h1, h2⟩ := h
  cases v <;> simp [Gen.ts_vtsf.add, trendRoll, Trend.add, Trend.remove, R_ts_vtsf, h0, h1, h2, pow_two, pow_succ] <;> try ring
theorem ts_vtsf_post (w mp : Nat) (g : Gen.ts_vtsf.St) (m : Trend) (x : Option Rat) (h : R_ts_vtsf g m) :
    R_ts_vtsf (Gen.ts_vtsf.post w g (some x)) ((trendRoll (Fn1.emit .tsf mp)).remove m x) := by
  obtain ⟨h0, h1, h2⟩ := h
  cases x <;> simp [Gen.ts_vtsf.post, trendRoll, Trend.add, Trend.remove, R_ts_vtsf, h0, h1, h2, pow_two, pow_succ] <;> try ring
theorem ts_vtsf_emit (sqrt : Rat → Rat) (w mp : Nat) (g : Gen.ts_vtsf.St) (m : Trend) (v : Option Rat) (h : R_ts_vtsf g m) :
    Agree sqrt (Gen.ts_vtsf.emit sqrt w mp g v) ((trendRoll (Fn1.emit .tsf mp)).emit m) := by
  obtain ⟨h0, h1, h2⟩ := h
  simp only [Gen.ts_vtsf.emit, trendRoll, Fn1.emit, trendEmit, Trend.fitted, Trend.forecast, Trend.intercept, Trend.slope, Trend.divisor, Trend.nSumTT, Trend.sumT, h0, h1, h2, eps_eq, sq, pow_one, Nat.mul_comm m.n 2, decide_eq_true_eq, ge_iff_le, gt_iff_lt,
    Bool.and_eq_true]
  split_ifs <;> first | rfl | trivial
theorem ts_vtsf_step (sqrt : Rat → Rat) (w mp : Nat) (g : Gen.ts_vtsf.St) (m : Trend) (rm : Option (Option Rat)) (v : Option Rat) (h : R_ts_vtsf g m) :
    R_ts_vtsf (Gen.ts_vtsf.step sqrt w mp g rm v).1 ((trendRoll (Fn1.emit .tsf mp)).step m (rm.map id) (id v)).1 ∧
    (Agree sqrt) (Gen.ts_vtsf.step sqrt w mp g rm v).2 ((trendRoll (Fn1.emit .tsf mp)).step m (rm.map id) (id v)).2 :=
  hstep_of_parts id (Gen.ts_vtsf.step sqrt w mp) (Gen.ts_vtsf.pre sqrt w mp) (Gen.ts_vtsf.post w) (Gen.ts_vtsf.add w)
    (Gen.ts_vtsf.emit sqrt w mp) (trendRoll (Fn1.emit .tsf mp)) R_ts_vtsf (Agree sqrt)
    (Gen.ts_vtsf.step_eq sqrt w mp) (Gen.ts_vtsf.pre_eq sqrt w mp) (ts_vtsf_add w mp) (ts_vtsf_post w mp) (fun _ => rfl)
    (ts_vtsf_emit sqrt w mp) g m rm v h
theorem ts_vtsf_minPeriods (w : Nat) (mp : Option Nat) : Gen.ts_vtsf.minPeriods w mp = effMp mp w 0 := by
  simp [Gen.ts_vtsf.minPeriods, effMp, Fn2.minK]
theorem ts_vtsf_init (w : Nat) : R_ts_vtsf (Gen.ts_vtsf.init w) Trend.zero := by
  simp [R_ts_vtsf, Gen.ts_vtsf.init, Trend.zero]
/-- the closure regenerated from the source of `ts_vtsf`, driven over the callbacks of either driver
shape, yields the one-step-ahead forecast `α + β (n+1)` (valid values of the window) at every position -/
theorem ts_vtsf_exact (sqrt : Rat → Rat) (sh : Shape) (xs : List (Option Rat)) (w : Nat) (mp : Option Nat) (hw : 1 ≤ w) :
    List.Forall₂ (Agree sqrt)
      (genRun (Gen.ts_vtsf.step sqrt w (Gen.ts_vtsf.minPeriods w mp)) (Gen.ts_vtsf.init w) (applyCalls sh xs w))
      (rolling1 (trendForecast (effMp mp w 0)) xs w) := by
  have h := run_sim id _ _ R_ts_vtsf (Agree sqrt) (ts_vtsf_step sqrt w (Gen.ts_vtsf.minPeriods w mp)) (applyCalls sh xs w) _ _ (ts_vtsf_init w)
  rw [ts_vtsf_minPeriods, mapCalls_id] at h
  have e := C04.vtsf_exact sh xs w mp hw
  unfold ts1 at e
  rw [ts_vtsf_minPeriods, ← e]; exact h

/-! ### `ts_vreg_slope` -/
def R_ts_vreg_slope (g : Gen.ts_vreg_slope.St) (m : Trend) : Prop :=
  g.sum = m.sum ∧ g.sum_xt = m.sxt ∧ g.n = m.n
theorem ts_vreg_slope_add (w mp : Nat) (g : Gen.ts_vreg_slope.St) (m : Trend) (v : Option Rat) (h : R_ts_vreg_slope g m) :
    R_ts_vreg_slope (Gen.ts_vreg_slope.add w g v) ((trendRoll (Fn1.emit .slope mp)).add m v) := by
  obtain ⟨h0, h1, h2⟩ := h
  cases v <;> simp [Gen.ts_vreg_slope.add, trendRoll, Trend.add, Trend.remove, R_ts_vreg_slope, h0, h1, h2, pow_two, pow_succ] <;> try ring
theorem ts_vreg_slope_post (w mp : Nat) (g : Gen.ts_vreg_slope.St) (m : Trend) (x : Option Rat) (h : R_ts_vreg_slope g m) :
    R_ts_vreg_slope (Gen.ts_vreg_slope.post w g (some x)) ((trendRoll (Fn1.emit .slope mp)).remove m x) := by
  obtain ⟨h0, h1, h2⟩ := h
  cases x <;> simp [Gen.ts_vreg_slope.post, trendRoll, Trend.add, Trend.remove, R_ts_vreg_slope, h0, h1, h2, pow_two, pow_succ] <;> try ring
theorem ts_vreg_slope_emit (sqrt : Rat → Rat) (w mp : Nat) (g : Gen.ts_vreg_slope.St) (m : Trend) (v : Option Rat) (h : R_ts_vreg_slope g m) :
    Agree sqrt (Gen.ts_vreg_slope.emit sqrt w mp g v) ((trendRoll (Fn1.emit .slope mp)).emit m) := by
  obtain ⟨h0, h1, h2⟩ := h
  simp only [Gen.ts_vreg_slope.emit, trendRoll, Fn1.emit, trendEmit, Trend.fitted, Trend.forecast, Trend.intercept, Trend.slope, Trend.divisor, Trend.nSumTT, Trend.sumT, h0, h1, h2, eps_eq, sq, pow_one, Nat.mul_comm m.n 2, decide_eq_true_eq, ge_iff_le, gt_iff_lt,
    Bool.and_eq_true]
  split_ifs <;> first | rfl | trivial
theorem ts_vreg_slope_step (sqrt : Rat → Rat) (w mp : Nat) (g : Gen.ts_vreg_slope.St) (m : Trend) (rm : Option (Option Rat)) (v : Option Rat) (h : R_ts_vreg_slope g m) :
    R_ts_vreg_slope (Gen.ts_vreg_slope.step sqrt w mp g rm v).1 ((trendRoll (Fn1.emit .slope mp)).step m (rm.map id) (id v)).1 ∧
    (Agree sqrt) (Gen.ts_vreg_slope.step sqrt w mp g rm v).2 ((trendRoll (Fn1.emit .slope mp)).step m (rm.map id) (id v)).2 :=
  hstep_of_parts id (Gen.ts_vreg_slope.step sqrt w mp) (Gen.ts_vreg_slope.pre sqrt w mp) (Gen.ts_vreg_slope.post w) (Gen.ts_vreg_slope.add w)
    (Gen.ts_vreg_slope.emit sqrt w mp) (trendRoll (Fn1.emit .slope mp)) R_ts_vreg_slope (Agree sqrt)
    (Gen.ts_vreg_slope.step_eq sqrt w mp) (Gen.ts_vreg_slope.pre_eq sqrt w mp) (ts_vreg_slope_add w mp) (ts_vreg_slope_post w mp) (fun _ => rfl)
    (ts_vreg_slope_emit sqrt w mp) g m rm v h
theorem ts_vreg_slope_minPeriods (w : Nat) (mp : Option Nat) : Gen.ts_vreg_slope.minPeriods w mp = effMp mp w 0 := by
  simp [Gen.ts_vreg_slope.minPeriods, effMp, Fn2.minK]
theorem ts_vreg_slope_init (w : Nat) : R_ts_vreg_slope (Gen.ts_vreg_slope.init w) Trend.zero := by
  simp [R_ts_vreg_slope, Gen.ts_vreg_slope.init, Trend.zero]
/-- the closure regenerated from the source of `ts_vreg_slope`, driven over the callbacks of either driver
shape, yields the least-squares slope on `t = 1..n` (valid values of the window) at every position -/
theorem ts_vreg_slope_exact (sqrt : Rat → Rat) (sh : Shape) (xs : List (Option Rat)) (w : Nat) (mp : Option Nat) (hw : 1 ≤ w) :
    List.Forall₂ (Agree sqrt)
      (genRun (Gen.ts_vreg_slope.step sqrt w (Gen.ts_vreg_slope.minPeriods w mp)) (Gen.ts_vreg_slope.init w) (applyCalls sh xs w))
      (rolling1 (trendSlope (effMp mp w 0)) xs w) := by
  have h := run_sim id _ _ R_ts_vreg_slope (Agree sqrt) (ts_vreg_slope_step sqrt w (Gen.ts_vreg_slope.minPeriods w mp)) (applyCalls sh xs w) _ _ (ts_vreg_slope_init w)
  rw [ts_vreg_slope_minPeriods, mapCalls_id] at h
  have e := C04.vreg_slope_exact sh xs w mp hw
  unfold ts1 at e
  rw [ts_vreg_slope_minPeriods, ← e]; exact h

/-! ### `ts_vreg_intercept` -/
def R_ts_vreg_intercept (g : Gen.ts_vreg_intercept.St) (m : Trend) : Prop :=
  g.sum = m.sum ∧ g.sum_xt = m.sxt ∧ g.n = m.n
theorem ts_vreg_intercept_add (w mp : Nat) (g : Gen.ts_vreg_intercept.St) (m : Trend) (v : Option Rat) (h : R_ts_vreg_intercept g m) :
    R_ts_vreg_intercept (Gen.ts_vreg_intercept.add w g v) ((trendRoll (Fn1.emit .intercept mp)).add m v) := by
  obtain ⟨h0, h1, h2⟩ := h
  cases v <;> simp [Gen.ts_vreg_intercept.add, trendRoll, Trend.add, Trend.remove, R_ts_vreg_intercept, h0, h1, h2, pow_two, pow_succ] <;> try ring
theorem ts_vreg_intercept_post (w mp : Nat) (g : Gen.ts_vreg_intercept.St) (m : Trend) (x : Option Rat) (h : R_ts_vreg_intercept g m) :
    R_ts_vreg_intercept (Gen.ts_vreg_intercept.post w g (some x)) ((trendRoll (Fn1.emit .intercept mp)).remove m x) := by
  obtain ⟨h0, h1, h2⟩ := h
  cases x <;> simp [Gen.ts_vreg_intercept.post, trendRoll, Trend.add, Trend.remove, R_ts_vreg_intercept, h0, h1, h2, pow_two, pow_succ] <;> try ring
theorem ts_vreg_intercept_emit (sqrt : Rat → Rat) (w mp : Nat) (g : Gen.ts_vreg_intercept.St) (m : Trend) (v : Option Rat) (h : R_ts_vreg_intercept g m) :
    Agree sqrt (Gen.ts_vreg_intercept.emit sqrt w mp g v) ((trendRoll (Fn1.emit .intercept mp)).emit m) := by
  obtain ⟨h0, h1, h2⟩ := h
  simp only [Gen.ts_vreg_intercept.emit, trendRoll, Fn1.emit, trendEmit, Trend.fitted, Trend.forecast, Trend.intercept, Trend.slope, Trend.divisor, Trend.nSumTT, Trend.sumT, h0, h1, h2, eps_eq, sq, pow_one, Nat.mul_comm m.n 2, decide_eq_true_eq, ge_iff_le, gt_iff_lt,
    Bool.and_eq_true]
  split_ifs <;> first | rfl | trivial
theorem ts_vreg_intercept_step (sqrt : Rat → Rat) (w mp : Nat) (g : Gen.ts_vreg_intercept.St) (m : Trend) (rm : Option (Option Rat)) (v : Option Rat) (h : R_ts_vreg_intercept g m) :
    R_ts_vreg_intercept (Gen.ts_vreg_intercept.step sqrt w mp g rm v).1 ((trendRoll (Fn1.emit .intercept mp)).step m (rm.map id) (id v)).1 ∧
    (Agree sqrt) (Gen.ts_vreg_intercept.step sqrt w mp g rm v).2 ((trendRoll (Fn1.emit .intercept mp)).step m (rm.map id) (id v)).2 :=
  hstep_of_parts id (Gen.ts_vreg_intercept.step sqrt w mp) (Gen.ts_vreg_intercept.pre sqrt w mp) (Gen.ts_vreg_intercept.post w) (Gen.ts_vreg_intercept.add w)
    (Gen.ts_vreg_intercept.emit sqrt w mp) (trendRoll (Fn1.emit .intercept mp)) R_ts_vreg_intercept (Agree sqrt)
    (Gen.ts_vreg_intercept.step_eq sqrt w mp) (Gen.ts_vreg_intercept.pre_eq sqrt w mp) (ts_vreg_intercept_add w mp) (ts_vreg_intercept_post w mp) (fun _ => rfl)
    (ts_vreg_intercept_emit sqrt w mp) g m rm v h
theorem ts_vreg_intercept_minPeriods (w : Nat) (mp : Option Nat) : Gen.ts_vreg_intercept.minPeriods w mp = effMp mp w 0 := by
  simp [Gen.ts_vreg_intercept.minPeriods, effMp, Fn2.minK]
theorem ts_vreg_intercept_init (w : Nat) : R_ts_vreg_intercept (Gen.ts_vreg_intercept.init w) Trend.zero := by
  simp [R_ts_vreg_intercept, Gen.ts_vreg_intercept.init, Trend.zero]
/-- the closure regenerated from the source of `ts_vreg_intercept`, driven over the callbacks of either driver
shape, yields the least-squares intercept on `t = 1..n` (valid values of the window) at every position -/
theorem ts_vreg_intercept_exact (sqrt : Rat → Rat) (sh : Shape) (xs : List (Option Rat)) (w : Nat) (mp : Option Nat) (hw : 1 ≤ w) :
    List.Forall₂ (Agree sqrt)
      (genRun (Gen.ts_vreg_intercept.step sqrt w (Gen.ts_vreg_intercept.minPeriods w mp)) (Gen.ts_vreg_intercept.init w) (applyCalls sh xs w))
      (rolling1 (trendIntercept (effMp mp w 0)) xs w) := by
  have h := run_sim id _ _ R_ts_vreg_intercept (Agree sqrt) (ts_vreg_intercept_step sqrt w (Gen.ts_vreg_intercept.minPeriods w mp)) (applyCalls sh xs w) _ _ (ts_vreg_intercept_init w)
  rw [ts_vreg_intercept_minPeriods, mapCalls_id] at h
  have e := C04.vreg_intercept_exact sh xs w mp hw
  unfold ts1 at e
  rw [ts_vreg_intercept_minPeriods, ← e]; exact h

/-! ### `ts_vreg_resid_mean` -/
def R_ts_vreg_resid_mean (g : Gen.ts_vreg_resid_mean.St) (m : Trend) : Prop :=
  g.sum = m.sum ∧ g.sum_xx = m.sxx ∧ g.sum_xt = m.sxt ∧ g.n = m.n
theorem ts_vreg_resid_mean_add (w mp : Nat) (g : Gen.ts_vreg_resid_mean.St) (m : Trend) (v : Option Rat) (h : R_ts_vreg_resid_mean g m) :
    R_ts_vreg_resid_mean (Gen.ts_vreg_resid_mean.add w g v) ((trendRoll (Fn1.emit .residMean mp)).add m v) := by
  obtain ⟨h0, h1, h2, h3⟩ := h
  cases v <;> simp [Gen.ts_vreg_resid_mean.add, trendRoll, Trend.add, Trend.remove, R_ts_vreg_resid_mean, h0, h1, h2, h3, pow_two, pow_succ] <;> try ring
theorem ts_vreg_resid_mean_post (w mp : Nat) (g : Gen.ts_vreg_resid_mean.St) (m : Trend) (x : Option Rat) (h : R_ts_vreg_resid_mean g m) :
    R_ts_vreg_resid_mean (Gen.ts_vreg_resid_mean.post w g (some x)) ((trendRoll (Fn1.emit .residMean mp)).remove m x) := by
  obtain ⟨h0, h1, h2, h3⟩ := h
  cases x <;> simp [Gen.ts_vreg_resid_mean.post, trendRoll, Trend.add, Trend.remove, R_ts_vreg_resid_mean, h0, h1, h2, h3, pow_two, pow_succ] <;> try ring
theorem ts_vreg_resid_mean_emit (sqrt : Rat → Rat) (w mp : Nat) (g : Gen.ts_vreg_resid_mean.St) (m : Trend) (v : Option Rat) (h : R_ts_vreg_resid_mean g m) :
    Agree sqrt (Gen.ts_vreg_resid_mean.emit sqrt w mp g v) ((trendRoll (Fn1.emit .residMean mp)).emit m) := by
  obtain ⟨h0, h1, h2, h3⟩ := h
  simp only [Gen.ts_vreg_resid_mean.emit, trendRoll, Fn1.emit, emitMsr, h0, h1, h2, h3, eps_eq, sq, pow_one, Nat.mul_comm m.n 2, decide_eq_true_eq, ge_iff_le, gt_iff_lt,
    Bool.and_eq_true]
  split_ifs with hm hd
  · trivial
  · simp only [Agree, Trend.msr, Trend.alpha', Trend.beta', Trend.divisor', Trend.sumTT, Trend.sumT, sq, pow_one, Nat.mul_comm m.n 2]
  · rfl
theorem ts_vreg_resid_mean_step (sqrt : Rat → Rat) (w mp : Nat) (g : Gen.ts_vreg_resid_mean.St) (m : Trend) (rm : Option (Option Rat)) (v : Option Rat) (h : R_ts_vreg_resid_mean g m) :
    R_ts_vreg_resid_mean (Gen.ts_vreg_resid_mean.step sqrt w mp g rm v).1 ((trendRoll (Fn1.emit .residMean mp)).step m (rm.map id) (id v)).1 ∧
    (Agree sqrt) (Gen.ts_vreg_resid_mean.step sqrt w mp g rm v).2 ((trendRoll (Fn1.emit .residMean mp)).step m (rm.map id) (id v)).2 :=
  hstep_of_parts id (Gen.ts_vreg_resid_mean.step sqrt w mp) (Gen.ts_vreg_resid_mean.pre sqrt w mp) (Gen.ts_vreg_resid_mean.post w) (Gen.ts_vreg_resid_mean.add w)
    (Gen.ts_vreg_resid_mean.emit sqrt w mp) (trendRoll (Fn1.emit .residMean mp)) R_ts_vreg_resid_mean (Agree sqrt)
    (Gen.ts_vreg_resid_mean.step_eq sqrt w mp) (Gen.ts_vreg_resid_mean.pre_eq sqrt w mp) (ts_vreg_resid_mean_add w mp) (ts_vreg_resid_mean_post w mp) (fun _ => rfl)
    (ts_vreg_resid_mean_emit sqrt w mp) g m rm v h
theorem ts_vreg_resid_mean_minPeriods (w : Nat) (mp : Option Nat) : Gen.ts_vreg_resid_mean.minPeriods w mp = effMp mp w 0 := by
  simp [Gen.ts_vreg_resid_mean.minPeriods, effMp, Fn2.minK]
theorem ts_vreg_resid_mean_init (w : Nat) : R_ts_vreg_resid_mean (Gen.ts_vreg_resid_mean.init w) Trend.zero := by
  simp [R_ts_vreg_resid_mean, Gen.ts_vreg_resid_mean.init, Trend.zero]
/-- the closure regenerated from the source of `ts_vreg_resid_mean`, driven over the callbacks of either driver
shape, yields the mean squared residual of the least-squares line on `t = 1..n` (valid values of the window) at every position -/
theorem ts_vreg_resid_mean_exact (sqrt : Rat → Rat) (sh : Shape) (xs : List (Option Rat)) (w : Nat) (mp : Option Nat) (hw : 1 ≤ w) :
    List.Forall₂ (Agree sqrt)
      (genRun (Gen.ts_vreg_resid_mean.step sqrt w (Gen.ts_vreg_resid_mean.minPeriods w mp)) (Gen.ts_vreg_resid_mean.init w) (applyCalls sh xs w))
      (rolling1 (trendMsr (effMp mp w 0)) xs w) := by
  have h := run_sim id _ _ R_ts_vreg_resid_mean (Agree sqrt) (ts_vreg_resid_mean_step sqrt w (Gen.ts_vreg_resid_mean.minPeriods w mp)) (applyCalls sh xs w) _ _ (ts_vreg_resid_mean_init w)
  rw [ts_vreg_resid_mean_minPeriods, mapCalls_id] at h
  have e := C04.vreg_resid_mean_exact sh xs w mp hw
  unfold ts1 at e
  rw [ts_vreg_resid_mean_minPeriods, ← e]; exact h

/-- all 10 value-driver entry points of binary.rs / reg.rs were found and translated (a closure outside
the translator's subset is emitted without `step`, which breaks the theorems above; one that
disappears breaks this) -/
theorem closures_present :
    ∀ n ∈ ["ts_vcov", "ts_vcorr", "ts_vregx_alpha", "ts_vregx_beta", "ts_vregx_all", "ts_vreg", "ts_vtsf", "ts_vreg_slope", "ts_vreg_intercept", "ts_vreg_resid_mean"], n ∈ Gen.closures := by
  simp [Gen.closures]

/-! ## the residual closures over `rolling2_apply_idx` (`ts_vregx_resid_mean/std/skew`)

The result of these closures applies an aggregation of agg.rs (regenerated in `GenAgg.lean`) to the
residuals of the window re-read through `uget`. Proved here, for one call of each regenerated
closure: the running sums track the model's `Cross` state through the add and the index-driven
removal (`*_state`), and the result is the NaN literal below `min_periods` pairwise-complete
observations (`*_mask`). The residual statistics themselves are compared by the correspondence
run (`C11Gen` relates the three aggregations to their model). -/

theorem uget_pair (xs ys : List (Option Rat)) (k : Nat) : (Gen.uget xs k, Gen.uget ys k) = ugetPair xs ys k := by
  simp [Gen.uget, ugetPair, List.getD_eq_getElem?_getD]

/-- the state after one call of the model closure (`idxRun`: add, then remove the element at `start`) -/
def residNext (xs ys : List (Option Rat)) (m : Cross) (st : Option Nat) (v : Pair) : Cross :=
  match st with
  | some k => Cross.remove (Cross.add m v) (ugetPair xs ys k)
  | none => Cross.add m v

def R_resid_mean (g : Gen.ts_vregx_resid_mean.St) (m : Cross) : Prop :=
  g.n = m.n ∧ g.sum_a = m.sa ∧ g.sum_b = m.sb ∧ g.sum_b2 = m.sbb ∧ g.sum_ab = m.sab

theorem ts_vregx_resid_mean_state (sqrt : Rat → Rat) (xs ys : List (Option Rat)) (len w mp : Nat)
    (g : Gen.ts_vregx_resid_mean.St) (m : Cross) (st : Option Nat) (e : Nat) (v : Pair) (h : R_resid_mean g m) :
    R_resid_mean (Gen.ts_vregx_resid_mean.step sqrt xs ys len w mp g st e v).1 (residNext xs ys m st v) := by
  obtain ⟨h0, h1, h2, h3, h4⟩ := h
  obtain ⟨va, vb⟩ := v
  cases st with
  | none =>
    cases va <;> cases vb <;>
      simp [Gen.ts_vregx_resid_mean.step, residNext, Cross.add, R_resid_mean, h0, h1, h2, h3, h4]
  | some k =>
    simp only [residNext, ← uget_pair]
    cases hpa : Gen.uget xs k <;> cases hpb : Gen.uget ys k <;> cases va <;> cases vb <;>
      simp [Gen.ts_vregx_resid_mean.step, Cross.add, Cross.remove, R_resid_mean, h0, h1, h2, h3, h4, hpa, hpb]

theorem ts_vregx_resid_mean_mask (sqrt : Rat → Rat) (xs ys : List (Option Rat)) (len w mp : Nat)
    (g : Gen.ts_vregx_resid_mean.St) (m : Cross) (st : Option Nat) (e : Nat) (v : Pair) (h : R_resid_mean g m)
    (hlt : (Cross.add m v).n < mp) :
    (Gen.ts_vregx_resid_mean.step sqrt xs ys len w mp g st e v).2 = none := by
  obtain ⟨h0, h1, h2, h3, h4⟩ := h
  obtain ⟨va, vb⟩ := v
  cases va <;> cases vb <;> simp only [Cross.add] at hlt <;>
    simp [Gen.ts_vregx_resid_mean.step, h0, hlt, Nat.not_le.mpr hlt]
def R_resid_std (g : Gen.ts_vregx_resid_std.St) (m : Cross) : Prop :=
  g.n = m.n ∧ g.sum_a = m.sa ∧ g.sum_b = m.sb ∧ g.sum_b2 = m.sbb ∧ g.sum_ab = m.sab

theorem ts_vregx_resid_std_state (sqrt : Rat → Rat) (xs ys : List (Option Rat)) (len w mp : Nat)
    (g : Gen.ts_vregx_resid_std.St) (m : Cross) (st : Option Nat) (e : Nat) (v : Pair) (h : R_resid_std g m) :
    R_resid_std (Gen.ts_vregx_resid_std.step sqrt xs ys len w mp g st e v).1 (residNext xs ys m st v) := by
  obtain ⟨h0, h1, h2, h3, h4⟩ := h
  obtain ⟨va, vb⟩ := v
  cases st with
  | none =>
    cases va <;> cases vb <;>
      simp [Gen.ts_vregx_resid_std.step, residNext, Cross.add, R_resid_std, h0, h1, h2, h3, h4]
  | some k =>
    simp only [residNext, ← uget_pair]
    cases hpa : Gen.uget xs k <;> cases hpb : Gen.uget ys k <;> cases va <;> cases vb <;>
      simp [Gen.ts_vregx_resid_std.step, Cross.add, Cross.remove, R_resid_std, h0, h1, h2, h3, h4, hpa, hpb]

theorem ts_vregx_resid_std_mask (sqrt : Rat → Rat) (xs ys : List (Option Rat)) (len w mp : Nat)
    (g : Gen.ts_vregx_resid_std.St) (m : Cross) (st : Option Nat) (e : Nat) (v : Pair) (h : R_resid_std g m)
    (hlt : (Cross.add m v).n < mp) :
    (Gen.ts_vregx_resid_std.step sqrt xs ys len w mp g st e v).2 = none := by
  obtain ⟨h0, h1, h2, h3, h4⟩ := h
  obtain ⟨va, vb⟩ := v
  cases va <;> cases vb <;> simp only [Cross.add] at hlt <;>
    simp [Gen.ts_vregx_resid_std.step, h0, hlt, Nat.not_le.mpr hlt]
def R_resid_skew (g : Gen.ts_vregx_resid_skew.St) (m : Cross) : Prop :=
  g.n = m.n ∧ g.sum_a = m.sa ∧ g.sum_b = m.sb ∧ g.sum_b2 = m.sbb ∧ g.sum_ab = m.sab

theorem ts_vregx_resid_skew_state (sqrt : Rat → Rat) (xs ys : List (Option Rat)) (len w mp : Nat)
    (g : Gen.ts_vregx_resid_skew.St) (m : Cross) (st : Option Nat) (e : Nat) (v : Pair) (h : R_resid_skew g m) :
    R_resid_skew (Gen.ts_vregx_resid_skew.step sqrt xs ys len w mp g st e v).1 (residNext xs ys m st v) := by
  obtain ⟨h0, h1, h2, h3, h4⟩ := h
  obtain ⟨va, vb⟩ := v
  cases st with
  | none =>
    cases va <;> cases vb <;>
      simp [Gen.ts_vregx_resid_skew.step, residNext, Cross.add, R_resid_skew, h0, h1, h2, h3, h4]
  | some k =>
    simp only [residNext, ← uget_pair]
    cases hpa : Gen.uget xs k <;> cases hpb : Gen.uget ys k <;> cases va <;> cases vb <;>
      simp [Gen.ts_vregx_resid_skew.step, Cross.add, Cross.remove, R_resid_skew, h0, h1, h2, h3, h4, hpa, hpb]

theorem ts_vregx_resid_skew_mask (sqrt : Rat → Rat) (xs ys : List (Option Rat)) (len w mp : Nat)
    (g : Gen.ts_vregx_resid_skew.St) (m : Cross) (st : Option Nat) (e : Nat) (v : Pair) (h : R_resid_skew g m)
    (hlt : (Cross.add m v).n < mp) :
    (Gen.ts_vregx_resid_skew.step sqrt xs ys len w mp g st e v).2 = none := by
  obtain ⟨h0, h1, h2, h3, h4⟩ := h
  obtain ⟨va, vb⟩ := v
  cases va <;> cases vb <;> simp only [Cross.add] at hlt <;>
    simp [Gen.ts_vregx_resid_skew.step, h0, hlt, Nat.not_le.mpr hlt]

/-! ## from source, end to end: regenerated driver and regenerated closure together -/

/-- **from source, end to end**: regenerated two-series driver (both shapes) + regenerated closure -/
theorem ts_vcov_from_source (sqrt : Rat → Rat) (xs ys : List (Option Rat)) (w : Nat) (mp : Option Nat)
    (hw : 1 ≤ w) (hlen : ys.length = xs.length) :
    C02Gen.E2E2 (fun cs =>
    List.Forall₂ (Agree sqrt)
      (genRun (Gen.ts_vcov.step sqrt w (Gen.ts_vcov.minPeriods w mp)) (Gen.ts_vcov.init w) cs)
      (rolling2 (cov (effMp mp w 2)) xs ys w)) xs ys w :=
  C02Gen.e2e_apply2 _ xs ys w hw (by omega) (ts_vcov_exact sqrt .to xs ys w mp hw hlen) (ts_vcov_exact sqrt .iter xs ys w mp hw hlen)

/-- **from source, end to end**: regenerated two-series driver (both shapes) + regenerated closure -/
theorem ts_vcorr_from_source (sqrt : Rat → Rat) (xs ys : List (Option Rat)) (w : Nat) (mp : Option Nat)
    (hw : 1 ≤ w) (hlen : ys.length = xs.length) :
    C02Gen.E2E2 (fun cs =>
    List.Forall₂ AgreeW
      (genRun (Gen.ts_vcorr.step sqrt w (Gen.ts_vcorr.minPeriods w mp)) (Gen.ts_vcorr.init w) cs)
      (rolling2 (corr (effMp mp w 0)) xs ys w)) xs ys w :=
  C02Gen.e2e_apply2 _ xs ys w hw (by omega) (ts_vcorr_exact sqrt .to xs ys w mp hw hlen) (ts_vcorr_exact sqrt .iter xs ys w mp hw hlen)

/-- **from source, end to end**: regenerated two-series driver (both shapes) + regenerated closure -/
theorem ts_vregx_alpha_from_source (sqrt : Rat → Rat) (xs ys : List (Option Rat)) (w : Nat) (mp : Option Nat)
    (hw : 1 ≤ w) (hlen : ys.length = xs.length) :
    C02Gen.E2E2 (fun cs =>
    List.Forall₂ (Agree sqrt)
      (genRun (Gen.ts_vregx_alpha.step sqrt w (Gen.ts_vregx_alpha.minPeriods w mp)) (Gen.ts_vregx_alpha.init w) cs)
      (rolling2 (regxAlpha (effMp mp w 0)) xs ys w)) xs ys w :=
  C02Gen.e2e_apply2 _ xs ys w hw (by omega) (ts_vregx_alpha_exact sqrt .to xs ys w mp hw hlen) (ts_vregx_alpha_exact sqrt .iter xs ys w mp hw hlen)

/-- **from source, end to end**: regenerated two-series driver (both shapes) + regenerated closure -/
theorem ts_vregx_beta_from_source (sqrt : Rat → Rat) (xs ys : List (Option Rat)) (w : Nat) (mp : Option Nat)
    (hw : 1 ≤ w) (hlen : ys.length = xs.length) :
    C02Gen.E2E2 (fun cs =>
    List.Forall₂ (Agree sqrt)
      (genRun (Gen.ts_vregx_beta.step sqrt w (Gen.ts_vregx_beta.minPeriods w mp)) (Gen.ts_vregx_beta.init w) cs)
      (rolling2 (regxBeta (effMp mp w 0)) xs ys w)) xs ys w :=
  C02Gen.e2e_apply2 _ xs ys w hw (by omega) (ts_vregx_beta_exact sqrt .to xs ys w mp hw hlen) (ts_vregx_beta_exact sqrt .iter xs ys w mp hw hlen)

/-- **from source, end to end**: regenerated two-series driver (both shapes) + regenerated closure -/
theorem ts_vregx_all_from_source (sqrt : Rat → Rat) (xs ys : List (Option Rat)) (w : Nat) (mp : Option Nat)
    (hw : 1 ≤ w) (hlen : ys.length = xs.length) :
    C02Gen.E2E2 (fun cs =>
    List.Forall₂ (Agree3 sqrt)
      (genRun (Gen.ts_vregx_all.step sqrt w (Gen.ts_vregx_all.minPeriods w mp)) (Gen.ts_vregx_all.init w) cs)
      ((List.range xs.length).map fun i =>
        let l := complete (window (xs.zip ys) i w)
        (regxAlpha (effMp mp w 0) l, regxBeta (effMp mp w 0) l, regxSse (effMp mp w 0) l))) xs ys w :=
  C02Gen.e2e_apply2 _ xs ys w hw (by omega) (ts_vregx_all_exact sqrt .to xs ys w mp hw hlen) (ts_vregx_all_exact sqrt .iter xs ys w mp hw hlen)

/-- **from source, end to end**: regenerated driver (both shapes) + regenerated closure -/
theorem ts_vreg_from_source (sqrt : Rat → Rat) (xs : List (Option Rat)) (w : Nat) (mp : Option Nat) (hw : 1 ≤ w) :
    C02Gen.E2E (fun cs =>
    List.Forall₂ (Agree sqrt)
      (genRun (Gen.ts_vreg.step sqrt w (Gen.ts_vreg.minPeriods w mp)) (Gen.ts_vreg.init w) cs)
      (rolling1 (trendFitted (effMp mp w 0)) xs w)) xs w :=
  C02Gen.e2e_apply _ xs w hw (ts_vreg_exact sqrt .to xs w mp hw) (ts_vreg_exact sqrt .iter xs w mp hw)

/-- **from source, end to end**: regenerated driver (both shapes) + regenerated closure -/
theorem ts_vtsf_from_source (sqrt : Rat → Rat) (xs : List (Option Rat)) (w : Nat) (mp : Option Nat) (hw : 1 ≤ w) :
    C02Gen.E2E (fun cs =>
    List.Forall₂ (Agree sqrt)
      (genRun (Gen.ts_vtsf.step sqrt w (Gen.ts_vtsf.minPeriods w mp)) (Gen.ts_vtsf.init w) cs)
      (rolling1 (trendForecast (effMp mp w 0)) xs w)) xs w :=
  C02Gen.e2e_apply _ xs w hw (ts_vtsf_exact sqrt .to xs w mp hw) (ts_vtsf_exact sqrt .iter xs w mp hw)

/-- **from source, end to end**: regenerated driver (both shapes) + regenerated closure -/
theorem ts_vreg_slope_from_source (sqrt : Rat → Rat) (xs : List (Option Rat)) (w : Nat) (mp : Option Nat) (hw : 1 ≤ w) :
    C02Gen.E2E (fun cs =>
    List.Forall₂ (Agree sqrt)
      (genRun (Gen.ts_vreg_slope.step sqrt w (Gen.ts_vreg_slope.minPeriods w mp)) (Gen.ts_vreg_slope.init w) cs)
      (rolling1 (trendSlope (effMp mp w 0)) xs w)) xs w :=
  C02Gen.e2e_apply _ xs w hw (ts_vreg_slope_exact sqrt .to xs w mp hw) (ts_vreg_slope_exact sqrt .iter xs w mp hw)

/-- **from source, end to end**: regenerated driver (both shapes) + regenerated closure -/
theorem ts_vreg_intercept_from_source (sqrt : Rat → Rat) (xs : List (Option Rat)) (w : Nat) (mp : Option Nat) (hw : 1 ≤ w) :
    C02Gen.E2E (fun cs =>
    List.Forall₂ (Agree sqrt)
      (genRun (Gen.ts_vreg_intercept.step sqrt w (Gen.ts_vreg_intercept.minPeriods w mp)) (Gen.ts_vreg_intercept.init w) cs)
      (rolling1 (trendIntercept (effMp mp w 0)) xs w)) xs w :=
  C02Gen.e2e_apply _ xs w hw (ts_vreg_intercept_exact sqrt .to xs w mp hw) (ts_vreg_intercept_exact sqrt .iter xs w mp hw)

/-- **from source, end to end**: regenerated driver (both shapes) + regenerated closure -/
theorem ts_vreg_resid_mean_from_source (sqrt : Rat → Rat) (xs : List (Option Rat)) (w : Nat) (mp : Option Nat) (hw : 1 ≤ w) :
    C02Gen.E2E (fun cs =>
    List.Forall₂ (Agree sqrt)
      (genRun (Gen.ts_vreg_resid_mean.step sqrt w (Gen.ts_vreg_resid_mean.minPeriods w mp)) (Gen.ts_vreg_resid_mean.init w) cs)
      (rolling1 (trendMsr (effMp mp w 0)) xs w)) xs w :=
  C02Gen.e2e_apply _ xs w hw (ts_vreg_resid_mean_exact sqrt .to xs w mp hw) (ts_vreg_resid_mean_exact sqrt .iter xs w mp hw)

/-! ## the residual closures, value for value: regenerated closure + regenerated aggregation

The mapped range `(start.unwrap_or(0)..=end).map(|j| …)` of the three `rolling2_apply_idx` closures
hands the residuals of the window (NaN on incomplete pairs) to `vmean` / `vstd(2)` / `vskew(3)` of
agg.rs, regenerated in `GenAgg.lean`.  `*_emit` relates one call's result to the model's
`emitResid`; `*_exact` composes with `C04.vregx_resid_*_exact`; `*_from_source` adds the regenerated
two-series index driver. -/

/-- one residual of the generated mapped range: `vy - alpha - beta * vx` on a complete pair, NaN otherwise -/
def residOf (alpha beta : Rat) : Pair → Option Rat
  | (some y, some x) => some (y - alpha - beta * x)
  | _ => none

/-- the valid (non-NaN) entries, as the aggregations of agg.rs see them -/
def valids : List (Option Rat) → List Rat
  | [] => []
  | none :: l => valids l
  | some v :: l => v :: valids l

theorem resids_valids (alpha beta : Rat) (q : List Pair) :
    resids alpha beta q = valids (q.map (residOf alpha beta)) := by
  unfold resids
  induction q with
  | nil => rfl
  | cons p q ih =>
    obtain ⟨a, b⟩ := p
    cases a <;> cases b <;> simp [List.filterMap_cons, residOf, valids, ih]

theorem vfoldN_valids (f : Rat → Rat) (L : List (Option Rat)) (n : Nat) (a : Rat) :
    List.foldl (C11.vfoldNStep (fun acc x => acc + f x)) (n, a) L =
      (n + (valids L).length, (valids L).foldl (fun acc v => acc + f v) a) := by
  induction L generalizing n a with
  | nil => simp [valids]
  | cons x L ih =>
    cases x with
    | none => simpa [C11.vfoldNStep, valids] using ih n a
    | some v =>
      rw [List.foldl_cons]
      simp only [C11.vfoldNStep, valids, List.length_cons, List.foldl_cons]
      rw [ih]; congr 1; omega

/-- `vmean` (regenerated) of a list of optional residuals against the model's `aggMean` of the valid ones -/
theorem vmean_resid (sqrt : Rat → Rat) (L : List (Option Rat)) :
    Agree sqrt (GenAgg.vmean.run sqrt L) (aggMean (valids L)) := by
  have h := C11Gen.vmean_agree sqrt L
  unfold C11.vmean C11.vfoldN at h
  have e := vfoldN_valids (fun x => x) L 0 0
  rw [e] at h
  unfold aggMean msum
  simp only [Nat.zero_add, id_eq] at h ⊢
  by_cases hl : (valids L).length ≥ 1
  · simpa only [hl, if_true] using h
  · simp only [hl, if_false, Agree]

theorem agree_ite_degen (sqrt : Rat → Rat) (c : Prop) [Decidable c] (o : Option Rat) (t : Out)
    (h : ¬ c → Agree sqrt o t) : Agree sqrt o (if c then .degen else t) := by
  by_cases hc : c
  · simp only [hc, if_true]; trivial
  · simp only [hc, if_false]; exact h hc

/-- the aggregate of the generated mapped range `(start.unwrap_or(0)..=end).map(|j| …)` -/
theorem mean_emit_core (sqrt : Rat → Rat) (xs ys : List (Option Rat)) (alpha beta : Rat) (a n : Nat)
    (F : Nat → Option Rat) (hF : ∀ j, F j = residOf alpha beta (ugetPair xs ys j)) :
    Agree sqrt (GenAgg.vmean.run sqrt ((List.range' a n).map F))
      (aggMean (resids alpha beta ((List.range' a n).map (ugetPair xs ys)))) := by
  have : (List.range' a n).map F = ((List.range' a n).map (ugetPair xs ys)).map (residOf alpha beta) := by
    rw [List.map_map]; apply List.map_congr_left; intro j _; exact hF j
  rw [this, resids_valids]
  exact vmean_resid sqrt _

theorem ts_vregx_resid_mean_emit (sqrt : Rat → Rat) (xs ys : List (Option Rat)) (len w mp : Nat)
    (g : Gen.ts_vregx_resid_mean.St) (m : Cross) (st : Option Nat) (e : Nat) (v : Pair) (h : R_resid_mean g m) :
    Agree sqrt (Gen.ts_vregx_resid_mean.step sqrt xs ys len w mp g st e v).2
      (emitResid aggMean mp xs ys (Cross.add m v) st e) := by
  obtain ⟨h0, h1, h2, h3, h4⟩ := h
  obtain ⟨va, vb⟩ := v
  unfold emitResid idxWindow
  cases va <;> cases vb <;>
    simp only [Gen.ts_vregx_resid_mean.step, Cross.add, h0, h1, h2, h3, h4]
  all_goals (
    simp only [decide_eq_true_eq]
    split
    next hm =>
      simp only [hm, ↓reduceIte]
      refine agree_ite_degen sqrt _ _ _ (fun hd => ?_)
      · refine mean_emit_core sqrt xs ys _ _ _ _ _ (fun j => ?_)
        rw [← uget_pair]
        cases Gen.uget xs j <;> cases Gen.uget ys j <;> simp [residOf, Cross.alpha, Cross.beta, Cross.den, pow_two]
    next hm =>
      simp only [hm, ↓reduceIte]
      rfl)

theorem pows_valids_aux (L : List (Option Rat)) (s : C11.Pow) :
    L.foldl C11.Pow.step s =
      ⟨s.n + (valids L).length, (valids L).foldl (fun acc v => acc + id v) s.s1,
       (valids L).foldl (fun acc v => acc + (fun v => v * v) v) s.s2,
       (valids L).foldl (fun acc v => acc + (fun v => v * v * v) v) s.s3,
       (valids L).foldl (fun acc v => acc + (fun v => (v * v) * (v * v)) v) s.s4⟩ := by
  induction L generalizing s with
  | nil => simp [valids]
  | cons x L ih =>
    cases x with
    | none => simpa [C11.Pow.step, valids] using ih s
    | some v =>
      rw [List.foldl_cons, ih]
      simp only [C11.Pow.step, valids, List.length_cons, List.foldl_cons, id_eq]
      congr 1; omega

theorem pows_valids (L : List (Option Rat)) :
    (C11.pows L).n = (valids L).length ∧ (C11.pows L).s1 = msum id (valids L) ∧
    (C11.pows L).s2 = msum (fun v => v * v) (valids L) ∧ (C11.pows L).s3 = msum (fun v => v * v * v) (valids L) := by
  unfold C11.pows msum
  rw [pows_valids_aux]
  simp [C11.Pow.zero]

/-- `vstd` (regenerated) of a list of optional residuals against the model's `aggStd` of the valid
ones; `sqrt 0 = 0` is needed where the variance is floored to zero before the root is taken -/
theorem vstd_resid (sqrt : Rat → Rat) (hs0 : sqrt 0 = 0) (L : List (Option Rat)) (mp : Nat) (hmp : 2 ≤ mp) :
    Agree sqrt (GenAgg.vstd.run sqrt L mp) (aggStd mp (valids L)) := by
  have h := C11Gen.vstd_agree sqrt L mp
  obtain ⟨e0, e1, e2, _⟩ := pows_valids L
  unfold C11.vstd C11.vvar C11.vmeanVar at h
  unfold aggStd
  simp only [C11.Pow.pvar, e0, e1, e2] at h
  simp only []
  have eps : C11.EPS = EPS := rfl
  rw [eps] at h
  by_cases h1 : (valids L).length < mp
  · simp only [h1, true_or, if_true]; trivial
  · have h2 : ¬ (valids L).length < 2 := by omega
    have h3 : ¬ (valids L).length = 0 := by omega
    have h4 : (valids L).length ≥ 2 := by omega
    simp only [h1, h2, h3, h4, or_self, if_false, if_true] at h ⊢
    split_ifs at h ⊢ with h5
    · simp only [C11.sqrtOut, Agree] at h ⊢
      rw [h, hs0]; simp
    · simp only [C11.sqrtOut] at h
      have hc : (((valids L).length - 1 : Nat) : Rat) = ((valids L).length : Rat) - 1 := by
        rw [Nat.cast_sub (by omega)]; simp
      rw [hc] at h
      exact h

/-- `vskew` (regenerated) of a list of optional residuals against the model's `aggSkew` of the valid
ones, in the weak form: the NaN mask, the floored-variance zero and the branch structure (the closed
form is rewritten under the root sign in the model) -/
theorem vskew_resid (sqrt : Rat → Rat) (L : List (Option Rat)) (mp : Nat) :
    AgreeW (GenAgg.vskew.run sqrt L mp) (aggSkew mp (valids L)) := by
  obtain ⟨e0, e1, e2, e3⟩ := pows_valids L
  unfold GenAgg.vskew.run
  simp only []
  rw [C11Gen.vapplyN_pow3 _ (fun a b c v => by first | rfl | (simp only [pow_two]) | (simp [pow_two, pow_succ]; try ring)) L]
  unfold aggSkew
  simp only [← e0, ← e1, ← e2, ← e3, C11Gen.eps_eq, decide_eq_true_eq]
  have eps : C11.EPS = EPS := rfl
  rw [eps]
  generalize C11.pows L = s
  by_cases h1 : s.n < mp
  · simp [h1, AgreeW]
  · by_cases h2 : s.n ≥ 3
    · simp only [h1, h2, if_false, if_true, sq]
      by_cases h3 : s.s2 / ↑s.n - s.s1 / ↑s.n * (s.s1 / ↑s.n) ≤ EPS
      · simp [h3, AgreeW]
      · simp only [h3, if_false, AgreeW]
        split_ifs <;> simp
    · simp [h1, h2, AgreeW]

theorem std_emit_core (sqrt : Rat → Rat) (hs0 : sqrt 0 = 0) (xs ys : List (Option Rat)) (alpha beta : Rat) (a n : Nat)
    (F : Nat → Option Rat) (hF : ∀ j, F j = residOf alpha beta (ugetPair xs ys j)) :
    Agree sqrt (GenAgg.vstd.run sqrt ((List.range' a n).map F) 2)
      (aggStd 2 (resids alpha beta ((List.range' a n).map (ugetPair xs ys)))) := by
  have : (List.range' a n).map F = ((List.range' a n).map (ugetPair xs ys)).map (residOf alpha beta) := by
    rw [List.map_map]; apply List.map_congr_left; intro j _; exact hF j
  rw [this, resids_valids]
  exact vstd_resid sqrt hs0 _ 2 (le_refl 2)

theorem skew_emit_core (sqrt : Rat → Rat) (xs ys : List (Option Rat)) (alpha beta : Rat) (a n : Nat)
    (F : Nat → Option Rat) (hF : ∀ j, F j = residOf alpha beta (ugetPair xs ys j)) :
    AgreeW (GenAgg.vskew.run sqrt ((List.range' a n).map F) 3)
      (aggSkew 3 (resids alpha beta ((List.range' a n).map (ugetPair xs ys)))) := by
  have : (List.range' a n).map F = ((List.range' a n).map (ugetPair xs ys)).map (residOf alpha beta) := by
    rw [List.map_map]; apply List.map_congr_left; intro j _; exact hF j
  rw [this, resids_valids]
  exact vskew_resid sqrt _ 3

theorem agreeW_ite_degen (c : Prop) [Decidable c] (o : Option Rat) (t : Out)
    (h : ¬ c → AgreeW o t) : AgreeW o (if c then .degen else t) := by
  by_cases hc : c
  · simp only [hc, if_true]; trivial
  · simp only [hc, if_false]; exact h hc

theorem ts_vregx_resid_std_emit (sqrt : Rat → Rat) (hs0 : sqrt 0 = 0) (xs ys : List (Option Rat)) (len w mp : Nat)
    (g : Gen.ts_vregx_resid_std.St) (m : Cross) (st : Option Nat) (e : Nat) (v : Pair) (h : R_resid_std g m) :
    Agree sqrt (Gen.ts_vregx_resid_std.step sqrt xs ys len w mp g st e v).2
      (emitResid (aggStd 2) mp xs ys (Cross.add m v) st e) := by
  obtain ⟨h0, h1, h2, h3, h4⟩ := h
  obtain ⟨va, vb⟩ := v
  unfold emitResid idxWindow
  cases va <;> cases vb <;>
    simp only [Gen.ts_vregx_resid_std.step, Cross.add, h0, h1, h2, h3, h4]
  all_goals (
    simp only [decide_eq_true_eq]
    split
    next hm =>
      simp only [hm, ↓reduceIte]
      refine agree_ite_degen sqrt _ _ _ (fun hd => ?_)
      · refine std_emit_core sqrt hs0 xs ys _ _ _ _ _ (fun j => ?_)
        rw [← uget_pair]
        cases Gen.uget xs j <;> cases Gen.uget ys j <;> simp [residOf, Cross.alpha, Cross.beta, Cross.den, pow_two]
    next hm =>
      simp only [hm, ↓reduceIte]
      rfl)

theorem ts_vregx_resid_skew_emit (sqrt : Rat → Rat) (xs ys : List (Option Rat)) (len w mp : Nat)
    (g : Gen.ts_vregx_resid_skew.St) (m : Cross) (st : Option Nat) (e : Nat) (v : Pair) (h : R_resid_skew g m) :
    AgreeW (Gen.ts_vregx_resid_skew.step sqrt xs ys len w mp g st e v).2
      (emitResid (aggSkew 3) mp xs ys (Cross.add m v) st e) := by
  obtain ⟨h0, h1, h2, h3, h4⟩ := h
  obtain ⟨va, vb⟩ := v
  unfold emitResid idxWindow
  cases va <;> cases vb <;>
    simp only [Gen.ts_vregx_resid_skew.step, Cross.add, h0, h1, h2, h3, h4]
  all_goals (
    simp only [decide_eq_true_eq]
    split
    next hm =>
      simp only [hm, ↓reduceIte]
      refine agreeW_ite_degen _ _ _ (fun hd => ?_)
      · refine skew_emit_core sqrt xs ys _ _ _ _ _ (fun j => ?_)
        rw [← uget_pair]
        cases Gen.uget xs j <;> cases Gen.uget ys j <;> simp [residOf, Cross.alpha, Cross.beta, Cross.den, pow_two]
    next hm =>
      simp only [hm, ↓reduceIte]
      rfl)

/-- the regenerated index-driven two-series closures, run over `(start?, end, (a, b))` calls -/
def genRunIdx2 {σ : Type} (step : σ → Option Nat → Nat → Pair → σ × Option Rat) (s : σ)
    (cs : List (Option Nat × Nat × Pair)) : List (Option Rat) :=
  runSt (fun s c => step s c.1 c.2.1 c.2.2) s cs

theorem idxRun_sim {σ : Type} (xs ys : List (Option Rat)) (f : σ → Option Nat → Nat → Pair → σ × Option Rat)
    (R : σ → Cross → Prop) (A : Option Rat → Out → Prop) (emit : Cross → Option Nat → Nat → Out)
    (hstate : ∀ g m st e v, R g m → R (f g st e v).1 (residNext xs ys m st v))
    (hemit : ∀ g m st e v, R g m → A (f g st e v).2 (emit (Cross.add m v) st e)) :
    ∀ (cs : List (Option Nat × Nat × Pair)) (g : σ) (m : Cross), R g m →
      List.Forall₂ A (genRunIdx2 f g cs) (idxRun (ugetPair xs ys) Cross.add Cross.remove emit m cs) := by
  intro cs
  induction cs with
  | nil => intro g m _; exact List.Forall₂.nil
  | cons c cs ih =>
    intro g m hr
    obtain ⟨st, e, v⟩ := c
    refine List.Forall₂.cons (hemit g m st e v hr) ?_
    have := ih _ _ (hstate g m st e v hr)
    cases st <;> exact this

theorem ts_vregx_resid_mean_minPeriods (len w : Nat) (mp : Option Nat) : Gen.ts_vregx_resid_mean.minPeriods len w mp = effMp mp w 0 := by
  simp [Gen.ts_vregx_resid_mean.minPeriods, effMp, Fn2.minK]
theorem ts_vregx_resid_mean_window (len w : Nat) : Gen.ts_vregx_resid_mean.effWindow len w = w := rfl

/-- the closure regenerated from the source of `ts_vregx_resid_mean` (running sums, the regression
coefficients, the residuals of the window re-read through `uget`, and the aggregation of agg.rs,
itself regenerated), driven over the index callbacks of either driver shape, yields the statistic of
the least-squares residuals of the pairwise-complete observations of the window at every position -/
theorem ts_vregx_resid_mean_exact (sqrt : Rat → Rat) (sh : Shape) (xs ys : List (Option Rat)) (w : Nat) (mp : Option Nat)
    (hw : 1 ≤ w) (hlen : ys.length = xs.length) :
    List.Forall₂ (Agree sqrt)
      (genRunIdx2 (Gen.ts_vregx_resid_mean.step sqrt xs ys xs.length w (Gen.ts_vregx_resid_mean.minPeriods xs.length w mp))
        (Gen.ts_vregx_resid_mean.init xs.length w) (idx2Calls sh xs ys (Gen.ts_vregx_resid_mean.effWindow xs.length w)))
      (rolling2 (regxResidMean (effMp mp w 0)) xs ys w) := by
  rw [ts_vregx_resid_mean_minPeriods, ts_vregx_resid_mean_window, ← C04.vregx_resid_mean_exact sh xs ys w mp hw hlen]
  unfold ts2
  simp only [Fn2.minK]
  exact idxRun_sim xs ys _ R_resid_mean (Agree sqrt) _
    (fun g m st e v hr => ts_vregx_resid_mean_state sqrt xs ys xs.length w _ g m st e v hr)
    (fun g m st e v hr => ts_vregx_resid_mean_emit sqrt xs ys xs.length w _ g m st e v hr) _ _ _
    (by simp [R_resid_mean, Gen.ts_vregx_resid_mean.init, Cross.zero])

/-- **from source, end to end**: regenerated two-series index driver (both shapes) + regenerated closure
+ regenerated aggregation -/
theorem ts_vregx_resid_mean_from_source (sqrt : Rat → Rat) (xs ys : List (Option Rat)) (w : Nat) (mp : Option Nat)
    (hw : 1 ≤ w) (hlen : ys.length = xs.length) :
    C02Gen.E2EIdx2 (fun cs => List.Forall₂ (Agree sqrt)
      (genRunIdx2 (Gen.ts_vregx_resid_mean.step sqrt xs ys xs.length w (Gen.ts_vregx_resid_mean.minPeriods xs.length w mp)) (Gen.ts_vregx_resid_mean.init xs.length w) cs)
      (rolling2 (regxResidMean (effMp mp w 0)) xs ys w)) xs ys (Gen.ts_vregx_resid_mean.effWindow xs.length w) :=
  C02Gen.e2e_idx2 _ xs ys _ hw (by omega) (ts_vregx_resid_mean_exact sqrt .to xs ys w mp hw hlen)
    (ts_vregx_resid_mean_exact sqrt .iter xs ys w mp hw hlen)

theorem ts_vregx_resid_std_minPeriods (len w : Nat) (mp : Option Nat) : Gen.ts_vregx_resid_std.minPeriods len w mp = effMp mp w 0 := by
  simp [Gen.ts_vregx_resid_std.minPeriods, effMp, Fn2.minK]
theorem ts_vregx_resid_std_window (len w : Nat) : Gen.ts_vregx_resid_std.effWindow len w = w := rfl

/-- the closure regenerated from the source of `ts_vregx_resid_std` (running sums, the regression
coefficients, the residuals of the window re-read through `uget`, and the aggregation of agg.rs,
itself regenerated), driven over the index callbacks of either driver shape, yields the statistic of
the least-squares residuals of the pairwise-complete observations of the window at every position -/
theorem ts_vregx_resid_std_exact (sqrt : Rat → Rat) (hs0 : sqrt 0 = 0) (sh : Shape) (xs ys : List (Option Rat)) (w : Nat) (mp : Option Nat)
    (hw : 1 ≤ w) (hlen : ys.length = xs.length) :
    List.Forall₂ (Agree sqrt)
      (genRunIdx2 (Gen.ts_vregx_resid_std.step sqrt xs ys xs.length w (Gen.ts_vregx_resid_std.minPeriods xs.length w mp))
        (Gen.ts_vregx_resid_std.init xs.length w) (idx2Calls sh xs ys (Gen.ts_vregx_resid_std.effWindow xs.length w)))
      (rolling2 (regxResidStd (effMp mp w 0)) xs ys w) := by
  rw [ts_vregx_resid_std_minPeriods, ts_vregx_resid_std_window, ← C04.vregx_resid_std_exact sh xs ys w mp hw hlen]
  unfold ts2
  simp only [Fn2.minK]
  exact idxRun_sim xs ys _ R_resid_std (Agree sqrt) _
    (fun g m st e v hr => ts_vregx_resid_std_state sqrt xs ys xs.length w _ g m st e v hr)
    (fun g m st e v hr => ts_vregx_resid_std_emit sqrt hs0 xs ys xs.length w _ g m st e v hr) _ _ _
    (by simp [R_resid_std, Gen.ts_vregx_resid_std.init, Cross.zero])

/-- **from source, end to end**: regenerated two-series index driver (both shapes) + regenerated closure
+ regenerated aggregation -/
theorem ts_vregx_resid_std_from_source (sqrt : Rat → Rat) (hs0 : sqrt 0 = 0) (xs ys : List (Option Rat)) (w : Nat) (mp : Option Nat)
    (hw : 1 ≤ w) (hlen : ys.length = xs.length) :
    C02Gen.E2EIdx2 (fun cs => List.Forall₂ (Agree sqrt)
      (genRunIdx2 (Gen.ts_vregx_resid_std.step sqrt xs ys xs.length w (Gen.ts_vregx_resid_std.minPeriods xs.length w mp)) (Gen.ts_vregx_resid_std.init xs.length w) cs)
      (rolling2 (regxResidStd (effMp mp w 0)) xs ys w)) xs ys (Gen.ts_vregx_resid_std.effWindow xs.length w) :=
  C02Gen.e2e_idx2 _ xs ys _ hw (by omega) (ts_vregx_resid_std_exact sqrt hs0 .to xs ys w mp hw hlen)
    (ts_vregx_resid_std_exact sqrt hs0 .iter xs ys w mp hw hlen)

theorem ts_vregx_resid_skew_minPeriods (len w : Nat) (mp : Option Nat) : Gen.ts_vregx_resid_skew.minPeriods len w mp = effMp mp w 0 := by
  simp [Gen.ts_vregx_resid_skew.minPeriods, effMp, Fn2.minK]
theorem ts_vregx_resid_skew_window (len w : Nat) : Gen.ts_vregx_resid_skew.effWindow len w = w := rfl

/-- the closure regenerated from the source of `ts_vregx_resid_skew` (running sums, the regression
coefficients, the residuals of the window re-read through `uget`, and the aggregation of agg.rs,
itself regenerated), driven over the index callbacks of either driver shape, yields the statistic of
the least-squares residuals of the pairwise-complete observations of the window at every position -/
theorem ts_vregx_resid_skew_exact (sqrt : Rat → Rat) (sh : Shape) (xs ys : List (Option Rat)) (w : Nat) (mp : Option Nat)
    (hw : 1 ≤ w) (hlen : ys.length = xs.length) :
    List.Forall₂ AgreeW
      (genRunIdx2 (Gen.ts_vregx_resid_skew.step sqrt xs ys xs.length w (Gen.ts_vregx_resid_skew.minPeriods xs.length w mp))
        (Gen.ts_vregx_resid_skew.init xs.length w) (idx2Calls sh xs ys (Gen.ts_vregx_resid_skew.effWindow xs.length w)))
      (rolling2 (regxResidSkew (effMp mp w 0)) xs ys w) := by
  rw [ts_vregx_resid_skew_minPeriods, ts_vregx_resid_skew_window, ← C04.vregx_resid_skew_exact sh xs ys w mp hw hlen]
  unfold ts2
  simp only [Fn2.minK]
  exact idxRun_sim xs ys _ R_resid_skew AgreeW _
    (fun g m st e v hr => ts_vregx_resid_skew_state sqrt xs ys xs.length w _ g m st e v hr)
    (fun g m st e v hr => ts_vregx_resid_skew_emit sqrt xs ys xs.length w _ g m st e v hr) _ _ _
    (by simp [R_resid_skew, Gen.ts_vregx_resid_skew.init, Cross.zero])

/-- **from source, end to end**: regenerated two-series index driver (both shapes) + regenerated closure
+ regenerated aggregation -/
theorem ts_vregx_resid_skew_from_source (sqrt : Rat → Rat) (xs ys : List (Option Rat)) (w : Nat) (mp : Option Nat)
    (hw : 1 ≤ w) (hlen : ys.length = xs.length) :
    C02Gen.E2EIdx2 (fun cs => List.Forall₂ AgreeW
      (genRunIdx2 (Gen.ts_vregx_resid_skew.step sqrt xs ys xs.length w (Gen.ts_vregx_resid_skew.minPeriods xs.length w mp)) (Gen.ts_vregx_resid_skew.init xs.length w) cs)
      (rolling2 (regxResidSkew (effMp mp w 0)) xs ys w)) xs ys (Gen.ts_vregx_resid_skew.effWindow xs.length w) :=
  C02Gen.e2e_idx2 _ xs ys _ hw (by omega) (ts_vregx_resid_skew_exact sqrt .to xs ys w mp hw hlen)
    (ts_vregx_resid_skew_exact sqrt .iter xs ys w mp hw hlen)

theorem resid_closures_present :
    ∀ n ∈ ["ts_vregx_resid_mean", "ts_vregx_resid_std", "ts_vregx_resid_skew"], n ∈ Gen.closures := by
  simp [Gen.closures]
end Tv.C04Gen
