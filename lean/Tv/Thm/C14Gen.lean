import Tv.GenMap
import Tv.Thm.C14
import Mathlib.Tactic.SplitIfs
set_option linter.unusedSimpArgs false
set_option linter.unusedVariables false
/-!
# C14 — the run de-duplication functions regenerated from tea-map/src/valid_iter.rs are the model's
-/
namespace Tv.C14Gen
open Tv Tv.C14

/-- the exact rational an integer element denotes -/
def castE (v : Option Int) : Option Rat := v.map fun (a : Int) => (a : Rat)
def castL (xs : List (Option Int)) : List (Option Rat) := xs.map castE

theorem castE_inj (a b : Option Int) : castE a = castE b ↔ a = b := by
  cases a <;> cases b <;> simp [castE]

/-- `enumerate().filter_map(closure)` against the model's `run`, from any first index, for any
generated closure `F` that acts on `(i, castE v)` as the model step acts on `(i, v)` under the
state relation `R` and the item map `g` -/
theorem filterMapSt_run {σ τ β γ : Type} (F : σ → Nat × Option Rat → σ × Option γ)
    (step : τ → Nat → Option Int → τ × Option β) (R : σ → τ → Prop) (g : β → γ)
    (hF : ∀ s t i v, R s t → R (F s (i, castE v)).1 (step t i v).1 ∧ (F s (i, castE v)).2 = ((step t i v).2).map g) :
    ∀ (xs : List (Option Int)) (k : Nat) (s : σ) (t : τ), R s t →
      Gen.filterMapSt F s ((List.range' k xs.length).zip (castL xs)) = (C14.run step t k xs).map g := by
  intro xs
  induction xs with
  | nil => intro k s t _; simp [Gen.filterMapSt, C14.run, castL]
  | cons v xs ih =>
    intro k s t hr
    obtain ⟨h1, h2⟩ := hF s t k v hr
    have e : (List.range' k (v :: xs).length).zip (castL (v :: xs)) =
        (k, castE v) :: (List.range' (k + 1) xs.length).zip (castL xs) := by
      simp [castL, List.range'_succ]
    rw [e]
    simp only [Gen.filterMapSt, C14.run, h2]
    cases hs : (step t k v).2 with
    | none => simp only [Option.map_none]; exact ih (k + 1) _ _ h1
    | some b => simp only [Option.map_some, List.map_cons]; rw [ih (k + 1) _ _ h1]

theorem enumerate_eq (l : List (Option Rat)) : Gen.enumerate l = (List.range' 0 l.length).zip l := by
  simp [Gen.enumerate, List.range_eq_range']

/-- the same without `enumerate()` (the model step ignores the index) -/
theorem filterMapSt_run' {σ τ β γ : Type} (F : σ → Option Rat → σ × Option γ)
    (step : τ → Nat → Option Int → τ × Option β) (R : σ → τ → Prop) (g : β → γ)
    (hF : ∀ s t i v, R s t → R (F s (castE v)).1 (step t i v).1 ∧ (F s (castE v)).2 = ((step t i v).2).map g) :
    ∀ (xs : List (Option Int)) (k : Nat) (s : σ) (t : τ), R s t →
      Gen.filterMapSt F s (castL xs) = (C14.run step t k xs).map g := by
  intro xs
  induction xs with
  | nil => intro k s t _; simp [Gen.filterMapSt, C14.run, castL]
  | cons v xs ih =>
    intro k s t hr
    obtain ⟨h1, h2⟩ := hF s t k v hr
    have e : castL (v :: xs) = castE v :: castL xs := rfl
    rw [e]
    simp only [Gen.filterMapSt, C14.run, h2]
    cases hs : (step t k v).2 with
    | none => simp only [Option.map_none]; exact ih (k + 1) _ _ h1
    | some b => simp only [Option.map_some, List.map_cons]; rw [ih (k + 1) _ _ h1]

/-- `vsorted_unique` regenerated = the model's `uniqueVals` (on the exact image of an integer series) -/
theorem vsorted_unique_eq (xs : List (Option Int)) :
    GenMap.vsorted_unique.run (castL xs) = castL (C14.uniqueVals xs) := by
  unfold GenMap.vsorted_unique.run C14.uniqueVals
  simp only []
  refine filterMapSt_run' _ valStep (fun s t => s = castE t) castE ?_ xs 0 none none rfl
  intro s t i v hr
  subst hr
  cases v with
  | none => simp [valStep, castE]
  | some a =>
    cases t with
    | none => simp [valStep, castE]
    | some l =>
      by_cases h : a = l
      · simp [valStep, castE, h]
      · have : ¬ ((a : Rat) = (l : Rat)) := fun hc => h (by exact_mod_cast hc)
        simp [valStep, castE, h, this]

theorem vsorted_unique_idx_first_eq (xs : List (Option Int)) :
    GenMap.vsorted_unique_idx.run (castL xs) true = C14.uniqueIdxFirst xs := by
  unfold GenMap.vsorted_unique_idx.run C14.uniqueIdxFirst
  simp only [if_true, enumerate_eq]
  have hl : (castL xs).length = xs.length := by simp [castL]
  rw [hl, filterMapSt_run _ firstStep (fun s t => s = castE t) id ?_ xs 0 none none rfl]
  · simp
  · intro s t i v hr
    subst hr
    cases v with
    | none => simp [firstStep, castE]
    | some a =>
      cases t with
      | none => simp [firstStep, castE]
      | some l =>
        by_cases h : l = a
        · simp [firstStep, castE, h]
        · have : ¬ ((l : Rat) = (a : Rat)) := fun hc => h (by exact_mod_cast hc)
          simp [firstStep, castE, h, this]

theorem vsorted_unique_idx_last_eq (xs : List (Option Int)) :
    GenMap.vsorted_unique_idx.run (castL xs) false = C14.uniqueIdxLast xs := by
  unfold GenMap.vsorted_unique_idx.run C14.uniqueIdxLast
  simp only [Bool.false_eq_true, if_false, enumerate_eq, List.map_id']
  have ht : (castL xs).tail ++ [none] = castL (xs.tail ++ [none]) := by
    cases xs <;> simp [castL, castE]
  have hl : (castL (xs.tail ++ [none])).length = (xs.tail ++ [none]).length := by simp [castL]
  rw [ht, hl, filterMapSt_run _ lastStep (fun s t => s = castE t) id ?_ (xs.tail ++ [none]) 0 _ xs.head?.join ?_]
  · simp
  · intro s t i v hr
    subst hr
    cases v with
    | none => cases t <;> simp [lastStep, castE]
    | some a =>
      cases t with
      | none => simp [lastStep, castE]
      | some l =>
        by_cases h : l = a
        · simp [lastStep, castE, h]
        · have : ¬ ((l : Rat) = (a : Rat)) := fun hc => h (by exact_mod_cast hc)
          simp [lastStep, castE, h, this]
  · cases xs with
    | nil => simp [castL, castE]
    | cons v xs => cases v <;> simp [castL, castE]

theorem functions_present :
    "vsorted_unique" ∈ GenMap.functions ∧ "vsorted_unique_idx" ∈ GenMap.functions ∧
    GenMap.vsorted_unique.parsed = true ∧ GenMap.vsorted_unique_idx.parsed = true := by
  simp [GenMap.functions, GenMap.vsorted_unique.parsed, GenMap.vsorted_unique_idx.parsed]
end Tv.C14Gen
namespace Tv.C14Gen
open Tv Tv.C14
theorem vsorted_unique_idx_last_spec (xs : List (Option Int)) :
    GenMap.vsorted_unique_idx.run (castL xs) false = Spec.runEnds xs := by
  rw [vsorted_unique_idx_last_eq, C14.unique_last]
theorem vsorted_unique_idx_first_spec (xs : List (Option Int)) (h : NoNullGap xs) :
    GenMap.vsorted_unique_idx.run (castL xs) true = Spec.runStarts xs := by
  rw [vsorted_unique_idx_first_eq, C14.unique_first xs h]
theorem vsorted_unique_spec (xs : List (Option Int)) (h : NoNullGap xs) :
    GenMap.vsorted_unique.run (castL xs) = castL (Spec.runValues xs) := by
  rw [vsorted_unique_eq, C14.unique_vals xs h]

/-! ## `vcut` -/

/-- an item of the model as the regenerated code yields it: `Ok(label)`, `Ok(null)`, `Err` -/
def itemOut : Item (Option Rat) → Option (Option Rat)
  | .label l => some l
  | .null => some none
  | .outside => none

def castI (l : List Int) : List Rat := l.map fun (a : Int) => (a : Rat)
def castP (b : Int × Int) : Rat × Rat := ((b.1 : Rat), (b.2 : Rat))

theorem windows_cast (E : List Int) : Gen.windows (castI E) = (C14.windows E).map castP := by
  induction E with
  | nil => rfl
  | cons a t ih =>
    cases t with
    | nil => rfl
    | cons b t =>
      have : castI (a :: b :: t) = (a : Rat) :: castI (b :: t) := rfl
      rw [this]
      have h2 : castI (b :: t) = (b : Rat) :: castI t := rfl
      rw [h2, Gen.windows, ← h2, ih]
      simp [C14.windows, castP]

/-- the `for … { if test { out = Some(label); break; } }` loop of the regenerated closure, for any
generated loop body `F` that satisfies the equation of the source, is the model's `firstMatch` -/
theorem foldBreak_firstMatch (test : Nat → Int × Int → Bool)
    (F : Option (Option Rat) × Bool → Nat × ((Rat × Rat) × Option Rat) → Option (Option Rat) × Bool)
    (hF : ∀ out brk i b l, F (out, brk) (i, (castP b, l)) =
      if brk then (out, brk) else if test i b then (some l, true) else (out, brk)) :
    ∀ (L : List ((Int × Int) × Option Rat)) (k : Nat),
      (List.foldl F (none, false) ((List.range' k L.length).zip (L.map fun p => (castP p.1, p.2)))).1
        = firstMatch test k L := by
  have hdone : ∀ (L : List (Nat × ((Int × Int) × Option Rat))) (o : Option (Option Rat)),
      List.foldl F (o, true) (L.map fun q => (q.1, (castP q.2.1, q.2.2))) = (o, true) := by
    intro L
    induction L with
    | nil => intro o; rfl
    | cons q L ih =>
      intro o
      obtain ⟨i, b, l⟩ := q
      simp only [List.map_cons, List.foldl_cons, hF, if_true]
      exact ih o
  intro L
  induction L with
  | nil => intro k; rfl
  | cons p L ih =>
    intro k
    obtain ⟨b, l⟩ := p
    simp only [List.length_cons, List.range'_succ, List.map_cons, List.zip_cons_cons, List.foldl_cons, hF,
      Bool.false_eq_true, if_false, firstMatch]
    by_cases ht : test k b = true
    · simp only [ht, if_true]
      have := hdone ((List.range' (k + 1) L.length).zip L) (some l)
      have e : ((List.range' (k + 1) L.length).zip L).map (fun q => (q.1, (castP q.2.1, q.2.2)))
          = (List.range' (k + 1) L.length).zip (L.map fun p => (castP p.1, p.2)) := by
        rw [List.zip_map_right]
        simp [List.map_map, Function.comp_def]
      rw [e] at this
      rw [this]
    · simp only [ht, if_false, Bool.false_eq_true]
      exact ih (k + 1)

theorem edges_cast (MIN MAX : Int) (bins : List Int) :
    ([(MIN : Rat)] ++ castI bins) ++ [(MAX : Rat)] = castI (MIN :: (bins ++ [MAX])) := by
  simp [castI]

/-- one element of the regenerated closure against the model's `cutItem` -/
theorem cut_item (right ab : Bool) (E : List Int) (labels : List (Option Rat)) (v : Option Int)
    (G : Option Rat → Option (Option Rat))
    (hG : ∀ v : Option Int, G (castE v) =
      match v with
      | none => some none
      | some x => firstMatch (binTest right ab (E.length - 2) x) 0 ((C14.windows E).zip labels)) :
    G (castE v) = itemOut (cutItem (binTest right ab (E.length - 2)) E labels v) := by
  rw [hG]
  cases v with
  | none => rfl
  | some x =>
    simp only [cutItem]
    cases firstMatch (binTest right ab (E.length - 2) x) 0 ((C14.windows E).zip labels) <;> rfl

theorem enumerate_eq' {α : Type} (l : List α) : Gen.enumerate l = (List.range' 0 l.length).zip l := by
  simp [Gen.enumerate, List.range_eq_range']

theorem cut_map (right ab : Bool) (E : List Int) (labels : List (Option Rat)) (xs : List (Option Int))
    (G : Option Rat → Option (Option Rat))
    (hG : ∀ v : Option Int, G (castE v) =
      match v with
      | none => some none
      | some x => firstMatch (binTest right ab (E.length - 2) x) 0 ((C14.windows E).zip labels)) :
    List.map G (castL xs) = List.map itemOut (List.map (cutItem (binTest right ab (E.length - 2)) E labels) xs) := by
  unfold castL
  rw [List.map_map, List.map_map]
  apply List.map_congr_left
  intro v _
  exact cut_item right ab E labels v G hG

/-- the generated loop over `enumerate(zip(windows(edges), labels))` -/
theorem cut_loop (test : Nat → Int × Int → Bool) (E : List Int) (labels : List (Option Rat))
    (F : Option (Option Rat) × Bool → Nat × ((Rat × Rat) × Option Rat) → Option (Option Rat) × Bool)
    (hF : ∀ out brk i b l, F (out, brk) (i, (castP b, l)) =
      if brk then (out, brk) else if test i b then (some l, true) else (out, brk)) :
    (List.foldl F (none, false) (Gen.enumerate ((Gen.windows (castI E)).zip labels))).1
      = firstMatch test 0 ((C14.windows E).zip labels) := by
  rw [enumerate_eq', windows_cast]
  have e : ((C14.windows E).map castP).zip labels = ((C14.windows E).zip labels).map fun p => (castP p.1, p.2) := by
    rw [List.zip_map_left]; rfl
  rw [e]
  have hlen : (((C14.windows E).zip labels).map fun p => (castP p.1, p.2)).length = ((C14.windows E).zip labels).length := by
    simp
  rw [hlen]
  exact foldBreak_firstMatch test F hF _ 0

theorem vcut_eq (MIN MAX : Int) (xs : List (Option Int)) (bins : List Int) (labels : List (Option Rat))
    (right ab : Bool) :
    GenMap.vcut.run (castL xs) MIN MAX (castI bins) labels right ab =
      (C14.vcut MIN MAX xs bins labels right ab).map fun l => l.map itemOut := by
  unfold GenMap.vcut.run C14.vcut edgesOf
  have hl : (castI bins).length = bins.length := by simp [castI]
  have hl2 : ∀ E : List Int, (castI E).length = E.length := by intro E; simp [castI]
  cases ab <;> cases right <;> simp only [hl, decide_eq_true_eq, Bool.false_eq_true, if_false, if_true, edges_cast]
  all_goals (
    split_ifs with hc
    · rfl
    · simp only [Option.map_some]
      refine congrArg some (cut_map _ _ _ labels xs _ (fun v => ?_))
      cases v with
      | none => rfl
      | some x =>
        simp only [castE, Option.map_some, hl2]
        refine cut_loop _ _ labels _ (fun out brk i b l => ?_)
        obtain ⟨b1, b2⟩ := b
        cases brk
        · simp only [castP, binTest, Rat.intCast_lt_intCast, Rat.intCast_le_intCast]
          by_cases h1 : i = 0 <;> by_cases h3 : b1 < x <;> by_cases h4 : x ≤ b2 <;>
            by_cases h5 : b1 ≤ x <;> by_cases h6 : x < b2 <;> simp [h1, h3, h4, h5, h6]
        · simp)

/-- a specification outcome as the regenerated code yields it (`Ok(label)`, `Ok(null)`, `Err`) -/
def outOf : Spec.Outcome (Option Rat) → Option (Option Rat)
  | .label l => some l
  | .null => some none
  | .outside => none
  | .ambiguous => none

/-- the regenerated `vcut` on ascending edges is the from-scratch specification (the label of the
unique enclosing interval, `Err` outside, the null label on a null), every input, both closure
sides, both bound modes -/
theorem vcut_spec (MIN MAX : Int) (xs : List (Option Int)) (bins : List Int) (hasc : Ascending bins)
    (labels : List (Option Rat)) (right ab : Bool) :
    GenMap.vcut.run (castL xs) MIN MAX (castI bins) labels right ab
      = (Spec.cut xs bins labels right ab).map (·.map outOf) := by
  rw [vcut_eq, ← C14.cut_eq_spec MIN MAX xs bins hasc labels right ab]
  cases C14.vcut MIN MAX xs bins labels right ab with
  | none => rfl
  | some l =>
    simp only [Option.map_some, List.map_map]
    congr 1
    apply List.map_congr_left
    intro it _
    cases it <;> rfl

theorem vcut_present : "vcut" ∈ GenMap.functions ∧ GenMap.vcut.parsed = true := by
  simp [GenMap.functions, GenMap.vcut.parsed]
end Tv.C14Gen
