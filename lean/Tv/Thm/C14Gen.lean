import Tv.GenMap
import Tv.Thm.C14
set_option linter.unusedSimpArgs false
set_option linter.unusedVariables false
/-!
# C14 — the run de-duplication functions regenerated from tea-map/src/valid_iter.rs are the model's
-/
namespace Tv.C14Gen
open Tv Tv.C14

/-- the exact rational an integer element denotes -/
def castE (v : Option Int) : Option Rat := v.map fun (a : Int) => (a : Rat)
def castL (xs : List (Option Int)) : List (Option Rat) := xs.map castE

theorem castE_inj (a b : Option Int) : castE a = castE b ↔ a = b := by
  cases a <;> cases b <;> simp [castE]

/-- `enumerate().filter_map(closure)` against the model's `run`, from any first index, for any
generated closure `F` that acts on `(i, castE v)` as the model step acts on `(i, v)` under the
state relation `R` and the item map `g` -/
theorem filterMapSt_run {σ τ β γ : Type} (F : σ → Nat × Option Rat → σ × Option γ)
    (step : τ → Nat → Option Int → τ × Option β) (R : σ → τ → Prop) (g : β → γ)
    (hF : ∀ s t i v, R s t → R (F s (i, castE v)).1 (step t i v).1 ∧ (F s (i, castE v)).2 = ((step t i v).2).map g) :
    ∀ (xs : List (Option Int)) (k : Nat) (s : σ) (t : τ), R s t →
      Gen.filterMapSt F s ((List.range' k xs.length).zip (castL xs)) = (C14.run step t k xs).map g := by
  intro xs
  induction xs with
  | nil => intro k s t _; simp [Gen.filterMapSt, C14.run, castL]
  | cons v xs ih =>
    intro k s t hr
    obtain ⟨h1, h2⟩ := hF s t k v hr
    have e : (List.range' k (v :: xs).length).zip (castL (v :: xs)) =
        (k, castE v) :: (List.range' (k + 1) xs.length).zip (castL xs) := by
      simp [castL, List.range'_succ]
    rw [e]
    simp only [Gen.filterMapSt, C14.run, h2]
    cases hs : (step t k v).2 with
    | none => simp only [Option.map_none]; exact ih (k + 1) _ _ h1
    | some b => simp only [Option.map_some, List.map_cons]; rw [ih (k + 1) _ _ h1]

theorem enumerate_eq (l : List (Option Rat)) : Gen.enumerate l = (List.range' 0 l.length).zip l := by
  simp [Gen.enumerate, List.range_eq_range']

/-- the same without `enumerate()` (the model step ignores the index) -/
theorem filterMapSt_run' {σ τ β γ : Type} (F : σ → Option Rat → σ × Option γ)
    (step : τ → Nat → Option Int → τ × Option β) (R : σ → τ → Prop) (g : β → γ)
    (hF : ∀ s t i v, R s t → R (F s (castE v)).1 (step t i v).1 ∧ (F s (castE v)).2 = ((step t i v).2).map g) :
    ∀ (xs : List (Option Int)) (k : Nat) (s : σ) (t : τ), R s t →
      Gen.filterMapSt F s (castL xs) = (C14.run step t k xs).map g := by
  intro xs
  induction xs with
  | nil => intro k s t _; simp [Gen.filterMapSt, C14.run, castL]
  | cons v xs ih =>
    intro k s t hr
    obtain ⟨h1, h2⟩ := hF s t k v hr
    have e : castL (v :: xs) = castE v :: castL xs := rfl
    rw [e]
    simp only [Gen.filterMapSt, C14.run, h2]
    cases hs : (step t k v).2 with
    | none => simp only [Option.map_none]; exact ih (k + 1) _ _ h1
    | some b => simp only [Option.map_some, List.map_cons]; rw [ih (k + 1) _ _ h1]

/-- `vsorted_unique` regenerated = the model's `uniqueVals` (on the exact image of an integer series) -/
theorem vsorted_unique_eq (xs : List (Option Int)) :
    GenMap.vsorted_unique.run (castL xs) = castL (C14.uniqueVals xs) := by
  unfold GenMap.vsorted_unique.run C14.uniqueVals
  simp only []
  refine filterMapSt_run' _ valStep (fun s t => s = castE t) castE ?_ xs 0 none none rfl
  intro s t i v hr
  subst hr
  cases v with
  | none => simp [valStep, castE]
  | some a =>
    cases t with
    | none => simp [valStep, castE]
    | some l =>
      by_cases h : a = l
      · simp [valStep, castE, h]
      · have : ¬ ((a : Rat) = (l : Rat)) := fun hc => h (by exact_mod_cast hc)
        simp [valStep, castE, h, this]

theorem vsorted_unique_idx_first_eq (xs : List (Option Int)) :
    GenMap.vsorted_unique_idx.run (castL xs) true = C14.uniqueIdxFirst xs := by
  unfold GenMap.vsorted_unique_idx.run C14.uniqueIdxFirst
  simp only [if_true, enumerate_eq]
  have hl : (castL xs).length = xs.length := by simp [castL]
  rw [hl, filterMapSt_run _ firstStep (fun s t => s = castE t) id ?_ xs 0 none none rfl]
  · simp
  · intro s t i v hr
    subst hr
    cases v with
    | none => simp [firstStep, castE]
    | some a =>
      cases t with
      | none => simp [firstStep, castE]
      | some l =>
        by_cases h : l = a
        · simp [firstStep, castE, h]
        · have : ¬ ((l : Rat) = (a : Rat)) := fun hc => h (by exact_mod_cast hc)
          simp [firstStep, castE, h, this]

theorem vsorted_unique_idx_last_eq (xs : List (Option Int)) :
    GenMap.vsorted_unique_idx.run (castL xs) false = C14.uniqueIdxLast xs := by
  unfold GenMap.vsorted_unique_idx.run C14.uniqueIdxLast
  simp only [Bool.false_eq_true, if_false, enumerate_eq, List.map_id']
  have ht : (castL xs).tail ++ [none] = castL (xs.tail ++ [none]) := by
    cases xs <;> simp [castL, castE]
  have hl : (castL (xs.tail ++ [none])).length = (xs.tail ++ [none]).length := by simp [castL]
  rw [ht, hl, filterMapSt_run _ lastStep (fun s t => s = castE t) id ?_ (xs.tail ++ [none]) 0 _ xs.head?.join ?_]
  · simp
  · intro s t i v hr
    subst hr
    cases v with
    | none => cases t <;> simp [lastStep, castE]
    | some a =>
      cases t with
      | none => simp [lastStep, castE]
      | some l =>
        by_cases h : l = a
        · simp [lastStep, castE, h]
        · have : ¬ ((l : Rat) = (a : Rat)) := fun hc => h (by exact_mod_cast hc)
          simp [lastStep, castE, h, this]
  · cases xs with
    | nil => simp [castL, castE]
    | cons v xs => cases v <;> simp [castL, castE]

theorem functions_present :
    "vsorted_unique" ∈ GenMap.functions ∧ "vsorted_unique_idx" ∈ GenMap.functions ∧
    GenMap.vsorted_unique.parsed = true ∧ GenMap.vsorted_unique_idx.parsed = true := by
  simp [GenMap.functions, GenMap.vsorted_unique.parsed, GenMap.vsorted_unique_idx.parsed]
end Tv.C14Gen
namespace Tv.C14Gen
open Tv Tv.C14
theorem vsorted_unique_idx_last_spec (xs : List (Option Int)) :
    GenMap.vsorted_unique_idx.run (castL xs) false = Spec.runEnds xs := by
  rw [vsorted_unique_idx_last_eq, C14.unique_last]
theorem vsorted_unique_idx_first_spec (xs : List (Option Int)) (h : NoNullGap xs) :
    GenMap.vsorted_unique_idx.run (castL xs) true = Spec.runStarts xs := by
  rw [vsorted_unique_idx_first_eq, C14.unique_first xs h]
theorem vsorted_unique_spec (xs : List (Option Int)) (h : NoNullGap xs) :
    GenMap.vsorted_unique.run (castL xs) = castL (Spec.runValues xs) := by
  rw [vsorted_unique_eq, C14.unique_vals xs h]
end Tv.C14Gen
