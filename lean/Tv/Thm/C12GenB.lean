import Tv.GenRank
import Tv.Thm.C12GenA
set_option linter.unusedSimpArgs false
set_option linter.unusedVariables false
/-!
# C12 — `vrank` regenerated from tea-map/src/vec_map.rs is the model's

`Tv.GenRank.vrank.run` (translator/ranks.py) is the imperative body of `vrank` in source order:
argsort through the abstract `S.sort`, the run-length loop with `break` as `Gen.forBreak` over the
tuple `(out, repeat_num, nan_flag, cur_rank, sum_rank, idx)`, the inner write loops, the two
finishing loops, both copies (`pct` or not), the output buffer as a list of write-once slots.
`vrank_eq` proves it equal to `Tv.C12.vrank` (slot by slot, ranks read as floats by `outToF`) for
every sort `S`, series, `pct` and `rev`; with it the average-rank theorem of `Thm/C12.lean` is a
theorem about the code in the tree.
-/
namespace Tv.C12GenB
open Tv Tv.C12 Tv.Gen

/-- a rank of the model read as the float the code writes (`a / 0` is Lean's `0`: never reached,
the denominators are `repeat_num ≥ 1` and `not_none_count ≥ 1`) -/
def outToF : Out → Option Rat
  | .null => none
  | .val q => some q
  | .degen => some 0
  | .root _ _ => some 0

def outMap (l : List (Option Out)) : List (Option (Option Rat)) := l.map (Option.map outToF)

theorem outToF_div (a b : Rat) : outToF (Out.div a b) = some (a / b) := by
  unfold Out.div
  by_cases h : b = 0
  · simp [h, outToF]
  · simp [h, outToF]

theorem outToF_val (q : Rat) : outToF (.val q) = some q := rfl
theorem outToF_null : outToF .null = none := rfl

theorem outMap_set (l : List (Option Out)) (j : Nat) (v : Out) :
    outMap (l.set j (some v)) = (outMap l).set j (some (outToF v)) := by
  simp [outMap, List.map_set]

theorem outMap_replicate_none (n : Nat) :
    outMap (List.replicate n none) = List.replicate n (none : Option (Option Rat)) := by
  simp [outMap]

/-! ### `forBreak` -/

theorem forBreak_nil {σ ι : Type} (body : σ → ι → σ × Bool) (s : σ) : forBreak [] body s = s := rfl

theorem foldl_stopped {σ ι : Type} (body : σ → ι → σ × Bool) (l : List ι) (s : σ) :
    l.foldl (fun (p : σ × Bool) i => if p.2 then p else body p.1 i) (s, true) = (s, true) := by
  induction l with
  | nil => rfl
  | cons a l ih => simpa using ih

theorem forBreak_cons {σ ι : Type} (body : σ → ι → σ × Bool) (a : ι) (l : List ι) (s : σ) :
    forBreak (a :: l) body s = if (body s a).2 then (body s a).1 else forBreak l body (body s a).1 := by
  unfold forBreak
  simp only [List.foldl_cons, Bool.false_eq_true, if_false]
  rcases hb : body s a with ⟨s', b⟩
  cases b
  · simp
  · simp [foldl_stopped]

/-- a loop that never breaks is a fold -/
theorem forBreak_nobreak {σ ι : Type} (body : σ → ι → σ × Bool) (g : σ → ι → σ)
    (h : ∀ s i, body s i = (g s i, false)) (l : List ι) (s : σ) :
    forBreak l body s = l.foldl g s := by
  induction l generalizing s with
  | nil => rfl
  | cons a l ih => rw [forBreak_cons, h]; simp [ih]

/-! ### the inner write loop `for j in 0..repeat_num { out.uset(idx_sorted.uget(i - j), v) }` -/

def writeRunG (s : List Nat) (out : List (Option (Option Rat))) (i : Nat) (v : Option Rat) :
    Nat → List (Option (Option Rat))
  | 0 => out
  | r + 1 => (writeRunG s out i v r).set (s.getD (i - r) 0) (some v)

theorem outMap_writeRun (s : List Nat) (out : List (Option Out)) (i : Nat) (v : Out) (r : Nat) :
    outMap (writeRun s out i v r) = writeRunG s (outMap out) i (outToF v) r := by
  induction r with
  | zero => rfl
  | succ r ih => simp only [writeRun, writeRunG, outMap_set, ih]

theorem foldl_range'_succ_last {β : Type} (g : β → Nat → β) (a r : Nat) (b : β) :
    (List.range' a (r + 1)).foldl g b = g ((List.range' a r).foldl g b) (a + r) := by
  rw [List.range'_concat]
  simp [List.foldl_append]

theorem inner_loop (s : List Nat) (i : Nat) (v : Option Rat)
    (G : List (Option (Option Rat)) → Nat → List (Option (Option Rat)) × Bool)
    (hG : ∀ o j, G o j = (o.set (s.getD (i - j) 0) (some v), false))
    (out : List (Option (Option Rat))) (r : Nat) :
    forBreak (List.range' 0 (r - 0)) G out = writeRunG s out i v r := by
  rw [forBreak_nobreak G (fun o j => o.set (s.getD (i - j) 0) (some v)) hG, Nat.sub_zero]
  induction r with
  | zero => rfl
  | succ r ih => rw [foldl_range'_succ_last, ih]; simp [writeRunG]

/-! ### the run-length loop -/

/-- one iteration of the model's `rankLoop`, with its `break` flag -/
def stepM (xs : List Elem) (s : List Nat) (pct : Bool) (nn : Nat) (st : RankSt) (i : Nat) : RankSt × Bool :=
  let idx := s.getD i 0
  let idx1 := s.getD (i + 1) 0
  let v := xs.getD idx none
  let v1 := xs.getD idx1 none
  if v1 = none then
    let sum := st.sum + st.cur
    ({ st with sum := sum, cur := st.cur + 1,
               out := writeRun s st.out i (runVal pct nn sum st.rep) st.rep,
               idx := i + 1, nan := true }, true)
  else if v = v1 then
    ({ st with rep := st.rep + 1, sum := st.sum + st.cur, cur := st.cur + 1, idx := idx }, false)
  else if st.rep = 1 then
    ({ st with out := st.out.set idx (some (oneVal pct nn st.cur)), cur := st.cur + 1, idx := idx }, false)
  else
    let sum := st.sum + st.cur
    ({ st with out := writeRun s st.out i (runVal pct nn sum st.rep) st.rep,
               sum := 0, rep := 1, cur := st.cur + 1, idx := idx }, false)

theorem rankLoop_forBreak (xs : List Elem) (s : List Nat) (pct : Bool) (nn : Nat) :
    ∀ k i st, rankLoop xs s pct nn i k st = forBreak (List.range' i k) (stepM xs s pct nn) st := by
  intro k
  induction k with
  | zero => intro i st; rfl
  | succ k ih =>
    intro i st
    rw [List.range'_succ, forBreak_cons]
    unfold rankLoop stepM
    simp only []
    by_cases h1 : xs.getD (s.getD (i + 1) 0) none = none
    · simp only [h1, if_true]
    · simp only [h1, if_false]
      by_cases h2 : xs.getD (s.getD i 0) none = xs.getD (s.getD (i + 1) 0) none
      · simp only [h2, if_true, Bool.false_eq_true, if_false]
        exact ih _ _
      · simp only [h2, if_false]
        by_cases h3 : st.rep = 1
        · simp only [h3, if_true, Bool.false_eq_true, if_false]
          exact ih _ _
        · simp only [h3, if_false, Bool.false_eq_true]
          exact ih _ _

theorem forBreak_map {σ τ ι : Type} (e : σ → τ) (f : σ → ι → σ × Bool) (F : τ → ι → τ × Bool)
    (h : ∀ s i, F (e s) i = (e (f s i).1, (f s i).2)) (l : List ι) (s : σ) :
    forBreak l F (e s) = e (forBreak l f s) := by
  induction l generalizing s with
  | nil => rfl
  | cons a l ih =>
    rw [forBreak_cons, forBreak_cons, h]
    simp only []
    cases (f s a).2
    · simp only [Bool.false_eq_true, if_false]; exact ih _
    · simp only [if_true]

/-- the loop state of the regenerated code for a state of the model -/
def enc (st : RankSt) : List (Option (Option Rat)) × Nat × Bool × Nat × Nat × Nat :=
  (outMap st.out, st.rep, st.nan, st.cur, st.sum, st.idx)

theorem main_loop_sim (xs : List Elem) (s : List Nat) (pct : Bool) (nn : Nat)
    {F : List (Option (Option Rat)) × Nat × Bool × Nat × Nat × Nat → Nat →
      (List (Option (Option Rat)) × Nat × Bool × Nat × Nat × Nat) × Bool}
    {l : List Nat} {t0 w : List (Option (Option Rat)) × Nat × Bool × Nat × Nat × Nat}
    (hw : forBreak l F t0 = w) (st : RankSt) (ht : t0 = enc st)
    (hF : ∀ st i, F (enc st) i = (enc (stepM xs s pct nn st i).1, (stepM xs s pct nn st i).2)) :
    w = enc (forBreak l (stepM xs s pct nn) st) := by
  rw [← hw, ht]
  exact forBreak_map enc _ F hF l st

theorem outMap_foldl_set (s : List Nat) (v : Out) (l : List Nat) (out : List (Option Out)) :
    outMap (l.foldl (fun o i => o.set (s.getD i 0) (some v)) out) =
      l.foldl (fun o i => o.set (s.getD i 0) (some (outToF v))) (outMap out) := by
  induction l generalizing out with
  | nil => rfl
  | cons a l ih => simp only [List.foldl_cons, ih, outMap_set]

/-- `repeat_num ≤ i + 1` along the loop: at most one more repeat per iteration -/
theorem rankLoop_rep_le (xs : List Elem) (s : List Nat) (pct : Bool) (nn : Nat) :
    ∀ k i st, st.rep ≤ i + 1 → (rankLoop xs s pct nn i k st).rep ≤ i + k + 1 := by
  intro k
  induction k with
  | zero => intro i st h; simpa [rankLoop] using h
  | succ k ih =>
    intro i st h
    unfold rankLoop
    simp only []
    split
    · simp only []; omega
    · split
      · have := ih (i + 1) { st with rep := st.rep + 1, sum := st.sum + st.cur, cur := st.cur + 1, idx := s.getD i 0 }
          (show st.rep + 1 ≤ i + 1 + 1 by omega)
        omega
      · split
        · have := ih (i + 1) { st with out := st.out.set (s.getD i 0) (some (oneVal pct nn st.cur)), cur := st.cur + 1, idx := s.getD i 0 } (show st.rep ≤ i + 1 + 1 by omega)
          omega
        · have := ih (i + 1) { st with out := writeRun s st.out i (runVal pct nn (st.sum + st.cur) st.rep) st.rep, sum := 0, rep := 1, cur := st.cur + 1, idx := s.getD i 0 } (show 1 ≤ i + 1 + 1 by omega)
          omega

theorem vrank_eq (S : Std) (xs : List (Option Rat)) (pct rev : Bool) :
    GenRank.vrank.run S xs pct rev = some (outMap (C12.vrank S xs pct rev)) := by
  unfold GenRank.vrank.run C12.vrank
  simp only []
  by_cases h0 : xs.length = 0
  · simp [h0, outMap]
  · by_cases h1 : xs.length = 1
    · simp only [h0, h1, decide_false, decide_true, Bool.false_eq_true, if_false, if_true]
      obtain ⟨a, ha⟩ := List.length_eq_one_iff.mp h1
      subst ha
      cases a <;> simp [outMap, outToF]
    · simp only [h0, h1, decide_false, Bool.false_eq_true, if_false]
      have hlen : 1 ≤ xs.length := by omega
      cases rev <;> simp only [Bool.not_true, Bool.not_false, if_true, if_false, Bool.false_eq_true]
      all_goals
        generalize S.sort (leIdx _ xs) (List.range xs.length) = s
        by_cases hn : xs.getD (s.getD 0 0) none = none
        · simp only [hn, Option.isNone_none, if_true]
          simp [outMap, outToF]
        · have hn' : (xs.getD (s.getD 0 0) none).isNone = false := by
            cases h : xs.getD (s.getD 0 0) none <;> simp_all
          simp only [hn', hn, if_false, Bool.false_eq_true, C12GenA.count_valid_len]
          cases pct
          · simp only [Bool.not_false, if_true, hlen, decide_true]
            generalize hw : forBreak (List.range' 0 (xs.length - 1 - 0)) _
              (List.replicate xs.length (none : Option (Option Rat)), 1, false, 1, 0, 0) = w
            have hw' := main_loop_sim xs s false (valid xs).length hw
              { out := List.replicate xs.length none, rep := 1, sum := 0, cur := 1, idx := 0, nan := false }
              (by simp [enc, outMap])
              (by
                intro st i
                simp only [enc, stepM]
                by_cases c1 : xs.getD (s.getD (i + 1) 0) none = none
                · have c1' : (xs.getD (s.getD (i + 1) 0) none).isNone = true := by rw [c1]; rfl
                  simp only [c1, c1', if_true, Option.isNone_none]
                  rw [inner_loop s i _ _ (by intro o j; rfl)]
                  simp only [outMap_writeRun, runVal, outToF_div, Bool.false_eq_true, if_false, Option.isNone_none, if_true, ↓reduceIte]
                · have c1' : (xs.getD (s.getD (i + 1) 0) none).isNone = false := by
                    cases h : xs.getD (s.getD (i + 1) 0) none <;> simp_all
                  simp only [c1, c1', if_false, Bool.false_eq_true]
                  by_cases c2 : xs.getD (s.getD i 0) none = xs.getD (s.getD (i + 1) 0) none
                  · simp only [c2, decide_true, if_true]
                  · simp only [c2, decide_false, if_false, Bool.false_eq_true]
                    by_cases c3 : st.rep = 1
                    · simp only [c3, decide_true, if_true, outMap_set, oneVal, outToF_val, outToF_div, Bool.false_eq_true, if_false, ↓reduceIte]
                    · simp only [c3, decide_false, if_false, Bool.false_eq_true]
                      rw [inner_loop s i _ _ (by intro o j; rfl)]
                      simp only [outMap_writeRun, runVal, outToF_div, Bool.false_eq_true, if_false, ↓reduceIte])
            subst hw'
            clear hw
            rw [Nat.sub_zero, ← rankLoop_forBreak]
            have hrep := rankLoop_rep_le xs s false (valid xs).length (xs.length - 1) 0
              { out := List.replicate xs.length none, rep := 1, sum := 0, cur := 1, idx := 0, nan := false } (by simp)
            generalize rankLoop xs s false (valid xs).length 0 (xs.length - 1)
              { out := List.replicate xs.length none, rep := 1, sum := 0, cur := 1, idx := 0, nan := false } = st at hrep ⊢
            simp only [enc]
            unfold rankFinish
            by_cases hnan : st.nan = true
            rotate_left
            · have hr : st.rep ≤ xs.length := by omega
              have hr2 : xs.length - (xs.length - st.rep) = st.rep := by omega
              have hnan' : st.nan = false := by cases h : st.nan <;> simp_all
              simp only [hnan', Bool.false_eq_true, if_false, hr, decide_true, if_true, hr2]
              rw [forBreak_nobreak _ (fun o i => o.set (s.getD i 0) (some (some ((((st.sum + st.cur : Nat) : Rat)) / ((st.rep : Nat) : Rat)))))
                (by intro o i; rfl)]
              rw [outMap_foldl_set]
              simp only [runVal, outToF_div, Bool.false_eq_true, if_false, ↓reduceIte]
            · simp only [hnan, if_true]
              rw [forBreak_nobreak _ (fun o i => o.set (s.getD i 0) (some (none : Option Rat))) (by intro o i; rfl)]
              rw [outMap_foldl_set]
              simp only [outToF_null]
          · simp only [Bool.not_true, Bool.false_eq_true, if_false, hlen, decide_true, if_true]
            generalize hw : forBreak (List.range' 0 (xs.length - 1 - 0)) _
              (List.replicate xs.length (none : Option (Option Rat)), 1, false, 1, 0, 0) = w
            have hw' := main_loop_sim xs s true (valid xs).length hw
              { out := List.replicate xs.length none, rep := 1, sum := 0, cur := 1, idx := 0, nan := false }
              (by simp [enc, outMap])
              (by
                intro st i
                simp only [enc, stepM]
                by_cases c1 : xs.getD (s.getD (i + 1) 0) none = none
                · have c1' : (xs.getD (s.getD (i + 1) 0) none).isNone = true := by rw [c1]; rfl
                  simp only [c1, c1', if_true, Option.isNone_none]
                  rw [inner_loop s i _ _ (by intro o j; rfl)]
                  simp only [outMap_writeRun, runVal, outToF_div, Bool.false_eq_true, if_false, Option.isNone_none, if_true, ↓reduceIte]
                · have c1' : (xs.getD (s.getD (i + 1) 0) none).isNone = false := by
                    cases h : xs.getD (s.getD (i + 1) 0) none <;> simp_all
                  simp only [c1, c1', if_false, Bool.false_eq_true]
                  by_cases c2 : xs.getD (s.getD i 0) none = xs.getD (s.getD (i + 1) 0) none
                  · simp only [c2, decide_true, if_true]
                  · simp only [c2, decide_false, if_false, Bool.false_eq_true]
                    by_cases c3 : st.rep = 1
                    · simp only [c3, decide_true, if_true, outMap_set, oneVal, outToF_val, outToF_div, Bool.false_eq_true, if_false, ↓reduceIte]
                    · simp only [c3, decide_false, if_false, Bool.false_eq_true]
                      rw [inner_loop s i _ _ (by intro o j; rfl)]
                      simp only [outMap_writeRun, runVal, outToF_div, Bool.false_eq_true, if_false, ↓reduceIte])
            subst hw'
            clear hw
            rw [Nat.sub_zero, ← rankLoop_forBreak]
            have hrep := rankLoop_rep_le xs s true (valid xs).length (xs.length - 1) 0
              { out := List.replicate xs.length none, rep := 1, sum := 0, cur := 1, idx := 0, nan := false } (by simp)
            generalize rankLoop xs s true (valid xs).length 0 (xs.length - 1)
              { out := List.replicate xs.length none, rep := 1, sum := 0, cur := 1, idx := 0, nan := false } = st at hrep ⊢
            simp only [enc]
            unfold rankFinish
            by_cases hnan : st.nan = true
            rotate_left
            · have hr : st.rep ≤ xs.length := by omega
              have hr2 : xs.length - (xs.length - st.rep) = st.rep := by omega
              have hnan' : st.nan = false := by cases h : st.nan <;> simp_all
              simp only [hnan', Bool.false_eq_true, if_false, hr, decide_true, if_true, hr2]
              rw [forBreak_nobreak _ (fun o i => o.set (s.getD i 0) (some (some ((((st.sum + st.cur : Nat) : Rat)) / ((st.rep * (valid xs).length : Nat) : Rat)))))
                (by intro o i; rfl)]
              rw [outMap_foldl_set]
              simp only [runVal, outToF_div, Bool.false_eq_true, if_false, ↓reduceIte]
            · simp only [hnan, if_true]
              rw [forBreak_nobreak _ (fun o i => o.set (s.getD i 0) (some (none : Option Rat))) (by intro o i; rfl)]
              rw [outMap_foldl_set]
              simp only [outToF_null]

/-- **from source**: every slot of the regenerated `vrank` is written, the output has the input's
length, slot `i` is null exactly when element `i` is, and a non-null element gets its average rank
(ascending or descending, optionally as a fraction of the valid count) — whatever permutation std's
`sort_unstable_by` produces (contract `S.Ok`) -/
theorem vrank_from_source {S : Std} (hS : S.Ok) (xs : List (Option Rat)) (pct rev : Bool) :
    ∃ out, GenRank.vrank.run S xs pct rev = some out ∧ out.length = xs.length ∧
      (∀ i (hi : i < xs.length), xs[i] = none → out[i]? = some (some none)) ∧
      (∀ i (hi : i < xs.length) (v : Rat), xs[i] = some v →
        out[i]? = some (some (some (Spec.avgRank xs pct rev v)))) := by
  refine ⟨_, vrank_eq S xs pct rev, ?_, ?_, ?_⟩
  · simp [outMap, vrank_length hS]
  · intro i hi h
    have := (vrank_null_iff hS xs pct rev i hi).mpr h
    simp [outMap, this, outToF]
  · intro i hi v h
    have := vrank_get hS xs pct rev i v hi h
    simp [outMap, this, outToF]

theorem vrank_present :
    GenRank.vrank.parsed = true ∧ GenRank.vrank.loops = 10 ∧ GenRank.vrank.sorts = 2 ∧ GenRank.vrank.unguarded = 4 :=
  ⟨rfl, rfl, rfl, rfl⟩

end Tv.C12GenB
